package main

func factsState(p *pkg, o *out) {
}
