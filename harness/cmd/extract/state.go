package main

import (
	"go/ast"
	"sort"
)

func factsState(p *pkg, o *out) {
	tracker := []string{"Wipe", "NewNick", "GetNick", "ReNick", "DelNick", "delNick", "NickInfo", "NickModes", "NewChannel", "GetChannel",
		"DelChannel", "delChannel", "Topic", "ChannelModes", "Me", "IsOn", "Associate", "Dissociate", "String"}
	for _, m := range tracker {
		o.shapeDefAs(p, "stateTracker", m, "st_")
	}
	o.shapeDefAs(p, "", "NewTracker", "st_")
	for _, m := range []string{"Nick", "isOn", "addChannel", "delChannel", "parseModes"} {
		o.shapeDefAs(p, "nick", m, "st_")
	}
	for _, m := range []string{"Channel", "isOn", "addNick", "delNick", "parseModes"} {
		o.shapeDefAs(p, "channel", m, "st_")
	}
	o.shapeDefAs(p, "NickMode", "Copy", "st_")
	o.shapeDefAs(p, "ChanMode", "Copy", "st_")
	o.shapeDefAs(p, "ChanPrivs", "Copy", "st_")
	o.shapeDefAs(p, "", "newNick", "st_")
	o.shapeDefAs(p, "", "newChannel", "st_")
	// lock discipline of the exported tracker methods: first statements of each body
	var disc []string
	for _, fd := range p.allFuncs() {
		if fd.Recv == nil || fd.Body == nil || !ast.IsExported(fd.Name.Name) {
			continue
		}
		t := fd.Recv.List[0].Type
		if se, ok := t.(*ast.StarExpr); ok {
			t = se.X
		}
		if id, ok := t.(*ast.Ident); !ok || id.Name != "stateTracker" {
			continue
		}
		// position of "st.mu.Lock()" followed by "defer st.mu.Unlock()" among the top-level statements
		pos := -1
		for i := 0; i+1 < len(fd.Body.List); i++ {
			if p.show(fd.Body.List[i]) == "st.mu.Lock()" && p.show(fd.Body.List[i+1]) == "defer st.mu.Unlock()" {
				pos = i
				break
			}
		}
		pre := "none"
		if pos == 0 {
			pre = "first"
		} else if pos > 0 {
			// statements before the lock: allowed only if they do not mention st at all
			touches := false
			for _, s := range fd.Body.List[:pos] {
				ast.Inspect(s, func(n ast.Node) bool {
					if id, ok := n.(*ast.Ident); ok && id.Name == "st" {
						touches = true
					}
					return true
				})
			}
			if touches {
				pre = "after-touching-st"
			} else {
				pre = "after-pure-prologue"
			}
		}
		disc = append(disc, fd.Name.Name+":"+pre)
	}
	sort.Strings(disc)
	o.strListDef("trackerLockDiscipline", disc, true)
	// what every exported tracker method returns (as source text), method by method
	var rets []string
	seen := map[string]bool{}
	for _, fd := range p.allFuncs() {
		if fd.Recv == nil || fd.Body == nil || !ast.IsExported(fd.Name.Name) {
			continue
		}
		t := fd.Recv.List[0].Type
		if se, ok := t.(*ast.StarExpr); ok {
			t = se.X
		}
		if id, ok := t.(*ast.Ident); !ok || id.Name != "stateTracker" {
			continue
		}
		ast.Inspect(fd.Body, func(n ast.Node) bool {
			if rs, ok := n.(*ast.ReturnStmt); ok {
				for _, r := range rs.Results {
					k := fd.Name.Name + ":" + p.show(r)
					if !seen[k] {
						seen[k] = true
						rets = append(rets, k)
					}
				}
			}
			return true
		})
	}
	sort.Strings(rets)
	o.strListDef("trackerReturns", rets, true)
}
