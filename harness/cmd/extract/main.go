// Command extract is Tie A: it re-reads /repo's Go sources with go/parser and
// regenerates lean/Goirc/Facts.lean, plain data that Goirc/FactsCheck.lean
// compares (by kernel-checked `decide`/`rfl`) with what the Lean model assumes.
// A construct that cannot be found is emitted as a recognisable "missing"
// value, which fails its obligation rather than this program.
package main

import (
	"bytes"
	"crypto/sha256"
	"encoding/hex"
	"flag"
	"fmt"
	"go/ast"
	"go/parser"
	"go/printer"
	"go/token"
	"os"
	"path/filepath"
	"sort"
	"strconv"
	"strings"
)

type pkg struct {
	fset  *token.FileSet
	files []*ast.File
}

func load(dir string) *pkg {
	p := &pkg{fset: token.NewFileSet()}
	ents, err := os.ReadDir(dir)
	if err != nil {
		fmt.Fprintln(os.Stderr, "extract:", err)
		os.Exit(2)
	}
	for _, e := range ents {
		n := e.Name()
		if !strings.HasSuffix(n, ".go") || strings.HasSuffix(n, "_test.go") || strings.HasPrefix(n, "verif_") || strings.HasPrefix(n, "mock_") {
			continue
		}
		f, err := parser.ParseFile(p.fset, filepath.Join(dir, n), nil, parser.SkipObjectResolution)
		if err != nil {
			// a tree that does not parse cannot be built either; emit nothing for this file
			fmt.Fprintln(os.Stderr, "extract: parse:", err)
			continue
		}
		p.files = append(p.files, f)
	}
	return p
}

func (p *pkg) show(n ast.Node) string {
	var b bytes.Buffer
	printer.Fprint(&b, p.fset, n)
	return b.String()
}

// constant or package-level var initialiser by name
func (p *pkg) value(name string) ast.Expr {
	for _, f := range p.files {
		for _, d := range f.Decls {
			g, ok := d.(*ast.GenDecl)
			if !ok {
				continue
			}
			for _, s := range g.Specs {
				vs, ok := s.(*ast.ValueSpec)
				if !ok {
					continue
				}
				for i, n := range vs.Names {
					if n.Name == name && i < len(vs.Values) {
						return vs.Values[i]
					}
				}
			}
		}
	}
	return nil
}

func (p *pkg) fn(recv, name string) *ast.FuncDecl {
	for _, f := range p.files {
		for _, d := range f.Decls {
			fd, ok := d.(*ast.FuncDecl)
			if !ok || fd.Name.Name != name {
				continue
			}
			r := ""
			if fd.Recv != nil && len(fd.Recv.List) == 1 {
				t := fd.Recv.List[0].Type
				if s, ok := t.(*ast.StarExpr); ok {
					t = s.X
				}
				if id, ok := t.(*ast.Ident); ok {
					r = id.Name
				}
			}
			if r == recv {
				return fd
			}
		}
	}
	return nil
}

func (p *pkg) allFuncs() []*ast.FuncDecl {
	var out []*ast.FuncDecl
	for _, f := range p.files {
		for _, d := range f.Decls {
			if fd, ok := d.(*ast.FuncDecl); ok {
				out = append(out, fd)
			}
		}
	}
	return out
}

func strLit(e ast.Expr) (string, bool) {
	bl, ok := e.(*ast.BasicLit)
	if !ok || (bl.Kind != token.STRING && bl.Kind != token.CHAR) {
		return "", false
	}
	s, err := strconv.Unquote(bl.Value)
	if err != nil {
		return "", false
	}
	return s, true
}

// ---- Lean emission ----

type out struct{ b strings.Builder }

func leanBytes(s string) string {
	if s == "" {
		return "[]"
	}
	parts := make([]string, len(s))
	for i := 0; i < len(s); i++ {
		parts[i] = strconv.Itoa(int(s[i]))
	}
	return "[" + strings.Join(parts, ", ") + "]"
}

func leanStr(s string) string {
	var b strings.Builder
	b.WriteByte('"')
	for _, r := range s {
		switch {
		case r == '"':
			b.WriteString("\\\"")
		case r == '\\':
			b.WriteString("\\\\")
		case r == '\n':
			b.WriteString("\\n")
		case r == '\t':
			b.WriteString("\\t")
		case r < 32 || r == 127:
			fmt.Fprintf(&b, "\\x%02x", r)
		default:
			b.WriteRune(r)
		}
	}
	b.WriteByte('"')
	return b.String()
}

func (o *out) comment(s string) { fmt.Fprintf(&o.b, "-- %s\n", strings.ReplaceAll(s, "\n", " ")) }
func (o *out) bytesDef(name, s string, found bool) {
	if !found {
		o.comment(name + ": NOT FOUND in source")
		fmt.Fprintf(&o.b, "def %s : Option (List UInt8) := none\n", name)
		return
	}
	o.comment(fmt.Sprintf("%s = %q", name, s))
	fmt.Fprintf(&o.b, "def %s : Option (List UInt8) := some %s\n", name, leanBytes(s))
}
func (o *out) bytesListDef(name string, l []string, found bool) {
	if !found {
		o.comment(name + ": NOT FOUND in source")
		fmt.Fprintf(&o.b, "def %s : Option (List (List UInt8)) := none\n", name)
		return
	}
	o.comment(fmt.Sprintf("%s = %q", name, l))
	parts := make([]string, len(l))
	for i, s := range l {
		parts[i] = leanBytes(s)
	}
	fmt.Fprintf(&o.b, "def %s : Option (List (List UInt8)) := some [%s]\n", name, strings.Join(parts, ", "))
}
func (o *out) intDef(name string, v int64, found bool) {
	if !found {
		o.comment(name + ": NOT FOUND in source")
		fmt.Fprintf(&o.b, "def %s : Option Int := none\n", name)
		return
	}
	fmt.Fprintf(&o.b, "def %s : Option Int := some (%d)\n", name, v)
}
func (o *out) strDef(name, s string, found bool) {
	if !found {
		o.comment(name + ": NOT FOUND in source")
		fmt.Fprintf(&o.b, "def %s : Option String := none\n", name)
		return
	}
	fmt.Fprintf(&o.b, "def %s : Option String := some %s\n", name, leanStr(s))
}
func (o *out) strListDef(name string, l []string, found bool) {
	if !found {
		o.comment(name + ": NOT FOUND in source")
		fmt.Fprintf(&o.b, "def %s : Option (List String) := none\n", name)
		return
	}
	parts := make([]string, len(l))
	for i, s := range l {
		parts[i] = leanStr(s)
	}
	fmt.Fprintf(&o.b, "def %s : Option (List String) := some [%s]\n", name, strings.Join(parts, ", "))
}

// shapeDef emits a fingerprint of the function's normalised body: printed
// without comments, with statements that only call logging.* removed.
func (o *out) shapeDef(p *pkg, recv, name string) { o.shapeDefAs(p, recv, name, "") }

// genProved: functions (client.ParseLine, client.Line.Text) that go2lean translated in this run and for which a
// GenCheck obligation exists: what pins them is the kernel-checked theorem "generated definition = model", re-proved
// against the regenerated definition on every run, so their textual fingerprint is replaced by the word "gen"
// (a rewrite the proof absorbs raises no alarm; one it does not absorb breaks the named obligation).
var genProved = map[string]bool{}

func (o *out) shapeDefAs(p *pkg, recv, name, prefix string) {
	def := "shape_" + prefix + name
	if recv != "" {
		def = "shape_" + prefix + recv + "_" + name
	}
	if prefix == "" {
		q := "client." + name
		if recv != "" {
			q = "client." + recv + "." + name
		}
		if genProved[q] {
			o.comment("| (translated by go2lean; pinned by GenCheck.gen_" + strings.ReplaceAll(strings.TrimPrefix(q, "client."), ".", "_") + ")")
			o.strDef(def, "gen", true)
			return
		}
	}
	fd := p.fn(recv, name)
	if fd == nil || fd.Body == nil {
		o.strDef(def, "", false)
		return
	}
	src := squeeze(p.show(stripLogging(fd)))
	sum := sha256.Sum256([]byte(src))
	for _, l := range strings.Split(src, "\n") {
		o.comment("| " + l)
	}
	o.strDef(def, hex.EncodeToString(sum[:8]), true)
}

// squeeze drops blank lines and trailing white space (the printer keeps
// blank lines where comments used to be).
func squeeze(src string) string {
	var out []string
	for _, l := range strings.Split(src, "\n") {
		l = strings.TrimRight(l, " \t")
		if l != "" {
			out = append(out, l)
		}
	}
	return strings.Join(out, "\n")
}

// stripLogging returns a copy of the declaration in which expression
// statements of the form logging.X(...) have been dropped.
func stripLogging(fd *ast.FuncDecl) *ast.FuncDecl {
	var strip func(list []ast.Stmt) []ast.Stmt
	isLog := func(s ast.Stmt) bool {
		es, ok := s.(*ast.ExprStmt)
		if !ok {
			return false
		}
		ce, ok := es.X.(*ast.CallExpr)
		if !ok {
			return false
		}
		se, ok := ce.Fun.(*ast.SelectorExpr)
		if !ok {
			return false
		}
		id, ok := se.X.(*ast.Ident)
		return ok && id.Name == "logging"
	}
	var walk func(s ast.Stmt) ast.Stmt
	// a logging statement is dropped, unless its arguments contain calls: then it is replaced by a
	// marker naming the callees, so that message texts may change freely but a new call smuggled
	// into a log statement (e.g. one that takes a lock) moves the fingerprint
	logMarker := func(s ast.Stmt) ast.Stmt {
		var callees []string
		top := s.(*ast.ExprStmt).X.(*ast.CallExpr)
		ast.Inspect(top, func(n ast.Node) bool {
			if ce, ok := n.(*ast.CallExpr); ok {
				var b bytes.Buffer
				printer.Fprint(&b, token.NewFileSet(), ce.Fun)
				if !strings.HasPrefix(b.String(), "logging.") {
					callees = append(callees, b.String()+"()")
				}
			}
			return true
		})
		// which variables are handed to the logger (the message text itself may change freely)
		for _, a := range top.Args {
			ast.Inspect(a, func(n ast.Node) bool {
				if id, ok := n.(*ast.Ident); ok && id.Obj == nil && id.Name != "nil" && id.Name != "true" && id.Name != "false" {
					callees = append(callees, id.Name)
				}
				return true
			})
		}
		if len(callees) == 0 {
			return nil
		}
		sort.Strings(callees)
		return &ast.ExprStmt{X: &ast.CallExpr{Fun: ast.NewIdent("__log_calls"), Args: []ast.Expr{&ast.BasicLit{Kind: token.STRING, Value: strconv.Quote(strings.Join(callees, ","))}}}}
	}
	strip = func(list []ast.Stmt) []ast.Stmt {
		var out []ast.Stmt
		for _, s := range list {
			if isLog(s) {
				if m := logMarker(s); m != nil {
					out = append(out, m)
				}
				continue
			}
			out = append(out, walk(s))
		}
		return out
	}
	walk = func(s ast.Stmt) ast.Stmt {
		switch x := s.(type) {
		case *ast.BlockStmt:
			c := *x
			c.List = strip(x.List)
			return &c
		case *ast.IfStmt:
			c := *x
			c.Body = walk(x.Body).(*ast.BlockStmt)
			if x.Else != nil {
				c.Else = walk(x.Else)
			}
			return &c
		case *ast.ForStmt:
			c := *x
			c.Body = walk(x.Body).(*ast.BlockStmt)
			return &c
		case *ast.RangeStmt:
			c := *x
			c.Body = walk(x.Body).(*ast.BlockStmt)
			return &c
		case *ast.SwitchStmt:
			c := *x
			c.Body = walk(x.Body).(*ast.BlockStmt)
			return &c
		case *ast.SelectStmt:
			c := *x
			c.Body = walk(x.Body).(*ast.BlockStmt)
			return &c
		case *ast.CaseClause:
			c := *x
			c.Body = strip(x.Body)
			return &c
		case *ast.CommClause:
			c := *x
			c.Body = strip(x.Body)
			return &c
		case *ast.LabeledStmt:
			c := *x
			c.Stmt = walk(x.Stmt)
			return &c
		}
		return s
	}
	c := *fd
	c.Doc = nil
	c.Body = walk(fd.Body).(*ast.BlockStmt)
	return &c
}

func main() {
	repo := flag.String("repo", "/repo", "repository root")
	outPath := flag.String("out", "/verif/lean/Goirc/Facts.lean", "output file")
	genPath := flag.String("gen", "", "manifest written by go2lean: functions whose generated Lean definition carries a proved GenCheck obligation (their body fingerprint is replaced by the word gen)")
	genCheck := flag.String("gencheck", "", "directory with the GenCheck/*.lean obligation files: only functions with a `theorem gen_<name>` there are exempted")
	flag.Parse()
	if *genPath != "" {
		proved := map[string]bool{}
		if ents, err := os.ReadDir(*genCheck); err == nil {
			for _, e := range ents {
				b, err := os.ReadFile(filepath.Join(*genCheck, e.Name()))
				if err != nil || !strings.HasSuffix(e.Name(), ".lean") {
					continue
				}
				for _, l := range strings.Split(string(b), "\n") {
					if strings.HasPrefix(l, "theorem gen_") {
						n := strings.Fields(strings.TrimPrefix(l, "theorem gen_"))[0]
						// gen_Line_Text is the method Line.Text, gen_ParseLine the function ParseLine
						if i := strings.Index(n, "_"); i > 0 && n[0] >= 'A' && n[0] <= 'Z' {
							proved["client."+n[:i]+"."+n[i+1:]] = true
						}
						proved["client."+n] = true
					}
				}
			}
		}
		if b, err := os.ReadFile(*genPath); err == nil {
			for _, l := range strings.Split(string(b), "\n") {
				if l = strings.TrimSpace(l); l != "" && proved[l] {
					genProved[l] = true
				}
			}
		}
	}
	cl := load(filepath.Join(*repo, "client"))
	st := load(filepath.Join(*repo, "state"))
	lg := load(filepath.Join(*repo, "logging"))
	o := &out{}
	o.b.WriteString("/-! GENERATED by harness/cmd/extract from /repo's working tree — do not edit.\nPlain data only; the obligations about it are in `Goirc/FactsCheck.lean`. -/\nnamespace Facts\n\n")
	factsClient(cl, o)
	factsState(st, o)
	factsClosure(cl, st, lg, o)
	o.b.WriteString("\nend Facts\n")
	new := []byte(o.b.String())
	if old, err := os.ReadFile(*outPath); err == nil && bytes.Equal(old, new) {
		return // unchanged: keep the file's mtime so lake does not rebuild
	}
	if err := os.WriteFile(*outPath, new, 0o644); err != nil {
		fmt.Fprintln(os.Stderr, "extract:", err)
		os.Exit(2)
	}
}

var _ = sort.Strings
