package main

import (
	"crypto/sha256"
	"encoding/hex"
	"fmt"
	"go/ast"
	"go/token"
	"sort"
	"strings"
)

// Dependency closures. For every property a set of root functions is given (the code its statement is anchored
// in); the closure is everything in the client and state packages that those roots can reach through a
// conservative, name-based call graph:
//   - a reference to a package-level name (function, variable, constant, type) of the same package,
//   - a method call x.M(...) or a method value (*T).M: an edge to EVERY method named M in both packages (this is how
//     calls through the state.Tracker interface and through handler tables are followed),
//   - a qualified reference state.X from the client package.
// The fact emitted per property is one hash over the (name, body fingerprint) pairs of its closure, with the
// member list as comments. A change to any function or declaration a property's code paths can reach therefore
// moves that property's closure fact, even when the function is far from the property's anchors (a tracker helper
// for "handlers see the line after state tracking", a capability set for "no server line stops the client").

type cnode struct {
	name  string // client.Conn.recv, state.nick.Nick, client.var.intHandlers
	hash  string
	body  ast.Node
	pkg   string
	short string // method or declaration name
	isFn  bool
	recv  string
}

func recvName(fd *ast.FuncDecl) string {
	if fd.Recv == nil || len(fd.Recv.List) != 1 {
		return ""
	}
	t := fd.Recv.List[0].Type
	if s, ok := t.(*ast.StarExpr); ok {
		t = s.X
	}
	if id, ok := t.(*ast.Ident); ok {
		return id.Name
	}
	return ""
}

func h8(s string) string {
	sum := sha256.Sum256([]byte(s))
	return hex.EncodeToString(sum[:4])
}

func collectNodes(p *pkg, pname string) []*cnode {
	var out []*cnode
	for _, f := range p.files {
		for _, d := range f.Decls {
			switch x := d.(type) {
			case *ast.FuncDecl:
				if x.Body == nil {
					continue
				}
				r := recvName(x)
				n := pname + "." + x.Name.Name
				if r != "" {
					n = pname + "." + r + "." + x.Name.Name
				}
				hs := h8(squeeze(p.show(stripLogging(x))))
				if genProved[n] {
					hs = "gen" // pinned by its GenCheck obligation instead (the edges still come from the current body)
				}
				out = append(out, &cnode{name: n, hash: hs, body: x, pkg: pname, short: x.Name.Name, isFn: true, recv: r})
			case *ast.GenDecl:
				if x.Tok == token.IMPORT {
					continue
				}
				for _, s := range x.Specs {
					switch sp := s.(type) {
					case *ast.ValueSpec:
						for _, nm := range sp.Names {
							if nm.Name == "_" {
								continue
							}
							kind := "var"
							if x.Tok == token.CONST {
								kind = "const"
							}
							out = append(out, &cnode{name: pname + "." + kind + "." + nm.Name, hash: h8(squeeze(p.show(sp))), body: sp, pkg: pname, short: nm.Name})
						}
					case *ast.TypeSpec:
						cp := *sp
						cp.Doc, cp.Comment = nil, nil
						out = append(out, &cnode{name: pname + ".type." + sp.Name.Name, hash: h8(squeeze(stripFieldComments(p, &cp))), body: sp, pkg: pname, short: sp.Name.Name})
					}
				}
			}
		}
	}
	return out
}

// stripFieldComments prints a type declaration without the comments attached to its fields
func stripFieldComments(p *pkg, ts *ast.TypeSpec) string {
	ast.Inspect(ts, func(n ast.Node) bool {
		if f, ok := n.(*ast.Field); ok {
			f.Doc, f.Comment = nil, nil
		}
		return true
	})
	return p.show(ts)
}

type cgraph struct {
	nodes    map[string]*cnode
	byShort  map[string][]*cnode // package-level names, per package: key pkg+"."+short
	methods  map[string][]*cnode // method name -> all methods with that name (both packages)
	edges    map[string]map[string]bool
	ordNames []string
}

func importNames(ps ...*pkg) map[string]bool {
	m := map[string]bool{}
	for _, p := range ps {
		for _, f := range p.files {
			for _, im := range f.Imports {
				path := strings.Trim(im.Path.Value, "\"")
				name := path[strings.LastIndex(path, "/")+1:]
				if im.Name != nil {
					name = im.Name.Name
				}
				if name != "state" && name != "client" && name != "logging" {
					m[name] = true
				}
			}
		}
	}
	return m
}

func buildGraph(cl, st, lg *pkg) *cgraph {
	imports := importNames(cl, st)
	g := &cgraph{nodes: map[string]*cnode{}, byShort: map[string][]*cnode{}, methods: map[string][]*cnode{}, edges: map[string]map[string]bool{}}
	// the logging package is part of every closure that reaches a function which logs: the shape fingerprints leave the
	// logging statements out (they may come and go), but what a call of logging.X does is the library's own code
	all := append(append(collectNodes(cl, "client"), collectNodes(st, "state")...), collectNodes(lg, "logging")...)
	for _, n := range all {
		g.nodes[n.name] = n
		g.ordNames = append(g.ordNames, n.name)
		if n.isFn && n.recv != "" {
			g.methods[n.short] = append(g.methods[n.short], n)
		} else {
			g.byShort[n.pkg+"."+n.short] = append(g.byShort[n.pkg+"."+n.short], n)
		}
	}
	sort.Strings(g.ordNames)
	for _, n := range all {
		es := map[string]bool{}
		add := func(t *cnode) {
			if t.name != n.name {
				es[t.name] = true
			}
		}
		declared := map[string]string{}
		if fd, ok := n.body.(*ast.FuncDecl); ok {
			var fl []*ast.Field
			if fd.Recv != nil {
				fl = append(fl, fd.Recv.List...)
			}
			if fd.Type.Params != nil {
				fl = append(fl, fd.Type.Params.List...)
			}
			for _, f := range fl {
				t := f.Type
				if s, ok := t.(*ast.StarExpr); ok {
					t = s.X
				}
				if id, ok := t.(*ast.Ident); ok {
					for _, nm := range f.Names {
						declared[nm.Name] = id.Name
					}
				}
			}
			// a declared name that is assigned to or redeclared inside the body is no longer trusted
			ast.Inspect(fd.Body, func(x ast.Node) bool {
				if as, ok := x.(*ast.AssignStmt); ok {
					for _, l := range as.Lhs {
						if id, ok := l.(*ast.Ident); ok {
							delete(declared, id.Name)
						}
					}
				}
				return true
			})
		}
		// identifiers that are the selected name of x.Name or a struct field's name are not references to
		// package-level declarations
		notRef := map[*ast.Ident]bool{}
		ast.Inspect(n.body, func(x ast.Node) bool {
			switch e := x.(type) {
			case *ast.SelectorExpr:
				notRef[e.Sel] = true
			case *ast.Field:
				for _, nm := range e.Names {
					notRef[nm] = true
				}
			case *ast.KeyValueExpr:
				if id, ok := e.Key.(*ast.Ident); ok && !n.isFn {
					notRef[id] = true
				}
			}
			return true
		})
		ast.Inspect(n.body, func(x ast.Node) bool {
			switch e := x.(type) {
			case *ast.Ident:
				if notRef[e] {
					return true
				}
				for _, t := range g.byShort[n.pkg+"."+e.Name] {
					if !n.isFn && n.short != "intHandlers" && n.short != "stHandlers" && t.isFn {
						continue // a type or constant does not call functions (handler tables do name methods)
					}
					add(t)
				}
			case *ast.CallExpr:
				if se, ok := e.Fun.(*ast.SelectorExpr); ok {
					if id, ok := se.X.(*ast.Ident); ok {
						if id.Name == "state" || id.Name == "client" || id.Name == "logging" {
							for _, t := range g.byShort[id.Name+"."+se.Sel.Name] {
								add(t)
							}
							return true
						}
						if imports[id.Name] {
							return true // strings.Join, fmt.Sprintf, ...: not a method of ours
						}
						// a receiver or parameter with a declared type: only that type's method
						if tn, ok := declared[id.Name]; ok {
							hit := false
							for _, t := range g.methods[se.Sel.Name] {
								if t.recv == tn {
									add(t)
									hit = true
								}
							}
							if hit {
								return true
							}
						}
					}
					for _, t := range g.methods[se.Sel.Name] {
						add(t)
					}
				}
			case *ast.SelectorExpr:
				// method values: (*Conn).h_001, conn.h_PING passed as a value, and qualified names state.X
				if _, isParen := e.X.(*ast.ParenExpr); isParen {
					for _, t := range g.methods[e.Sel.Name] {
						add(t)
					}
				}
				if id, ok := e.X.(*ast.Ident); ok && (id.Name == "state" || id.Name == "client") {
					for _, t := range g.byShort[id.Name+"."+e.Sel.Name] {
						add(t)
					}
				}
			}
			return true
		})
		// a method used as a value without a call (go conn.send(), defer, handler registration) is a CallExpr or
		// covered above; a type's methods are reachable when the type's constructor is: link types to nothing more.
		g.edges[n.name] = es
	}
	return g
}

// properties with explicit handler roots do not follow the generic dispatch machinery into every handler: these
// nodes are members of their closures (a change to them is seen) but are not expanded
var stopFor = map[string][]string{
	"C08": {"client.Conn.dispatch", "client.var.intHandlers", "client.var.stHandlers"},
	"C09": {"client.Conn.dispatch", "client.var.intHandlers", "client.var.stHandlers"},
	"C10": {"client.Conn.dispatch", "client.var.intHandlers", "client.var.stHandlers"},
	"C11": {"client.Conn.dispatch", "client.var.intHandlers", "client.var.stHandlers"},
	"C17": {"client.Conn.dispatch", "client.var.intHandlers", "client.var.stHandlers"},
	"C18": {"client.Conn.dispatch", "client.var.intHandlers", "client.var.stHandlers", "client.Conn.runLoop", "client.Conn.recvFor"},
	"C19": {"client.Conn.dispatch", "client.var.intHandlers", "client.var.stHandlers"},
}

func (g *cgraph) closure(roots []string, stop ...string) (members []string, missing []string) {
	stopped := map[string]bool{}
	for _, s := range stop {
		stopped[s] = true
	}
	seen := map[string]bool{}
	var todo []string
	for _, r := range roots {
		if _, ok := g.nodes[r]; !ok {
			missing = append(missing, r)
			continue
		}
		if !seen[r] {
			seen[r] = true
			todo = append(todo, r)
		}
	}
	for len(todo) > 0 {
		f := todo[0]
		todo = todo[1:]
		if stopped[f] {
			continue
		}
		for t := range g.edges[f] {
			if !seen[t] {
				seen[t] = true
				todo = append(todo, t)
			}
		}
	}
	for m := range seen {
		members = append(members, m)
	}
	sort.Strings(members)
	return
}

var lifecycleRoots = []string{"client.Conn.Connect", "client.Conn.ConnectTo", "client.Conn.ConnectContext", "client.Conn.ConnectToContext", "client.Conn.Close", "client.Conn.Connected", "client.Client", "client.NewConfig", "client.SimpleClient"}
var deliveryRoots = []string{"client.Conn.recv", "client.Conn.recvFor", "client.Conn.runLoop", "client.Conn.dispatch", "client.Conn.LogPanic", "client.Conn.Handle", "client.Conn.HandleBG", "client.Conn.HandleFunc",
	"client.Conn.EnableStateTracking", "client.Conn.DisableStateTracking", "client.Client", "client.ParseLine"}
var trackerAPI = []string{"state.NewTracker", "state.stateTracker.Wipe", "state.stateTracker.NewNick", "state.stateTracker.GetNick", "state.stateTracker.ReNick", "state.stateTracker.DelNick", "state.stateTracker.NickInfo",
	"state.stateTracker.NickModes", "state.stateTracker.NewChannel", "state.stateTracker.GetChannel", "state.stateTracker.DelChannel", "state.stateTracker.Topic", "state.stateTracker.ChannelModes", "state.stateTracker.Me",
	"state.stateTracker.IsOn", "state.stateTracker.Associate", "state.stateTracker.Dissociate", "state.stateTracker.String"}
var commandAPI = []string{"Pass", "Nick", "User", "Join", "Part", "Kick", "Quit", "Whois", "Who", "Privmsg", "Privmsgln", "Privmsgf", "Notice", "Ctcp", "CtcpReply", "Version", "Action", "Topic", "Mode", "Away", "Invite",
	"Oper", "VHost", "Ping", "Pong", "Cap", "Authenticate", "Raw"}

func propertyRoots() map[string][]string {
	cmds := func(ns ...string) (o []string) {
		for _, n := range ns {
			o = append(o, "client.Conn."+n)
		}
		return
	}
	cat := func(ls ...[]string) (o []string) {
		for _, l := range ls {
			o = append(o, l...)
		}
		return
	}
	line := []string{"client.ParseLine", "client.parseUserHost", "client.Line.Copy", "client.Line.Text", "client.Line.Target", "client.Line.Public"}
	return map[string][]string{
		"C01": cat(line, deliveryRoots),
		"C02": cat(line, deliveryRoots),
		"C03": cat(deliveryRoots, lifecycleRoots),
		"C04": cat([]string{"client.hSet.add", "client.hSet.remove", "client.hSet.getHandlers", "client.hSet.dispatch", "client.hNode.Handle", "client.hNode.Remove", "client.handlerSet", "client.Conn.handle"}, deliveryRoots),
		"C05": cat(deliveryRoots, []string{"client.Conn.closeFor"}),
		"C06": cat(lifecycleRoots, deliveryRoots),
		"C07": cat(lifecycleRoots, deliveryRoots),
		"C08": cat(cmds(commandAPI...), cmds("write", "send")),
		"C09": cat(cmds("Raw", "send", "write", "Pong", "Ping", "h_PING", "initialise", "closeFor", "postConnect"), cmds(commandAPI...)),
		"C10": cmds("write", "rateLimit", "send", "Raw", "initialise"),
		"C11": cat([]string{"client.splitMessage", "client.indexFragment"}, cmds("Privmsg", "Privmsgln", "Privmsgf", "Notice", "Ctcp", "CtcpReply", "Action", "Version", "Raw", "send", "write")),
		"C12": trackerAPI,
		"C13": cat(deliveryRoots, trackerAPI),
		"C14": trackerAPI,
		"C15": []string{"client.hSet.dispatch", "client.Line.Copy", "client.Conn.dispatch", "client.hNode.Handle", "client.hSet.getHandlers"},
		"C16": cat(deliveryRoots, lifecycleRoots),
		"C17": cat(cmds("h_001", "h_433", "h_NICK", "h_STNICK", "Me", "EnableStateTracking", "Nick"), []string{"client.DefaultNewNick", "client.NewConfig", "client.Client"}),
		"C18": cat(cmds("h_REGISTER", "h_PING", "ping", "Ping", "Pong", "dialProxy", "internalConnect", "postConnect", "initialise", "Connect", "ConnectTo", "ConnectContext", "ConnectToContext"), []string{"client.hasPort", "client.NewConfig", "client.Client"}),
		"C19": cmds("h_CAP", "h_410", "h_AUTHENTICATE", "h_903", "h_904", "h_908", "h_REGISTER", "Cap", "Authenticate", "SupportsCapability", "HasCapability", "initialise"),
		"C20": cat(lifecycleRoots, deliveryRoots, cmds("write", "h_REGISTER")),
	}
}

func factsClosure(cl, st, lg *pkg, o *out) {
	g := buildGraph(cl, st, lg)
	roots := propertyRoots()
	var ids []string
	for id := range roots {
		ids = append(ids, id)
	}
	sort.Strings(ids)
	o.b.WriteString("\n/-! ### dependency closures (one hash per property over everything its roots can reach) -/\n")
	for _, id := range ids {
		members, missing := g.closure(roots[id], stopFor[id]...)
		var sb strings.Builder
		o.comment(fmt.Sprintf("closure_%s members (%d):", id, len(members)))
		for _, m := range members {
			fmt.Fprintf(&sb, "%s=%s\n", m, g.nodes[m].hash)
			o.comment(fmt.Sprintf("|%s %s %s", id, m, g.nodes[m].hash))
		}
		for _, m := range missing {
			fmt.Fprintf(&sb, "MISSING %s\n", m)
			o.comment(fmt.Sprintf("|%s MISSING-ROOT %s", id, m))
		}
		o.strDef("closure_"+id, h8(sb.String())+h8("x"+sb.String()), true)
	}
}
