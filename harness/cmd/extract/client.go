package main

import (
	"go/ast"
	"go/token"
	"strconv"
)

// string constants of commands.go that the model mirrors
var verbConsts = []string{"REGISTER", "CONNECTED", "DISCONNECTED", "ACTION", "AUTHENTICATE", "AWAY", "CAP", "CTCP",
	"CTCPREPLY", "ERROR", "INVITE", "JOIN", "KICK", "MODE", "NICK", "NOTICE", "OPER", "PART", "PASS", "PING", "PONG",
	"PRIVMSG", "QUIT", "TOPIC", "USER", "VERSION", "VHOST", "WHO", "WHOIS", "CAP_LS", "CAP_REQ", "CAP_ACK", "CAP_NAK", "CAP_END", "saslCap"}

func factsClient(p *pkg, o *out) {
	for _, c := range verbConsts {
		s, ok := "", false
		if v := p.value(c); v != nil {
			s, ok = strLit(v)
		}
		o.bytesDef("const_"+c, s, ok)
	}
	// defaultSplit
	{
		var n int64
		ok := false
		if v := p.value("defaultSplit"); v != nil {
			if bl, isLit := v.(*ast.BasicLit); isLit && bl.Kind == token.INT {
				if x, err := strconv.ParseInt(bl.Value, 0, 64); err == nil {
					n, ok = x, true
				}
			}
		}
		o.intDef("defaultSplit", n, ok)
	}
	// indexFragment: the separator list it ranges over
	{
		var seps []string
		ok := false
		if fd := p.fn("", "indexFragment"); fd != nil {
			ast.Inspect(fd.Body, func(n ast.Node) bool {
				if rs, isR := n.(*ast.RangeStmt); isR && !ok {
					if cl, isCL := rs.X.(*ast.CompositeLit); isCL {
						ok = true
						for _, e := range cl.Elts {
							s, sok := strLit(e)
							if !sok {
								ok = false
							}
							seps = append(seps, s)
						}
					}
				}
				return true
			})
		}
		o.bytesListDef("fragSeps", seps, ok)
	}
	for _, f := range []string{"indexFragment", "splitMessage", "cutNewLines", "splitArgs"} {
		o.shapeDef(p, "", f)
	}
}
