package main

import (
	"go/ast"
	"go/token"
	"sort"
	"strconv"
	"strings"
)

// string constants of commands.go that the model mirrors
var verbConsts = []string{"REGISTER", "CONNECTED", "DISCONNECTED", "ACTION", "AUTHENTICATE", "AWAY", "CAP", "CTCP",
	"CTCPREPLY", "ERROR", "INVITE", "JOIN", "KICK", "MODE", "NICK", "NOTICE", "OPER", "PART", "PASS", "PING", "PONG",
	"PRIVMSG", "QUIT", "TOPIC", "USER", "VERSION", "VHOST", "WHO", "WHOIS", "CAP_LS", "CAP_REQ", "CAP_ACK", "CAP_NAK", "CAP_END", "saslCap"}

func factsClient(p *pkg, o *out) {
	for _, c := range verbConsts {
		s, ok := "", false
		if v := p.value(c); v != nil {
			s, ok = strLit(v)
		}
		o.bytesDef("const_"+c, s, ok)
	}
	// defaultSplit
	{
		var n int64
		ok := false
		if v := p.value("defaultSplit"); v != nil {
			if bl, isLit := v.(*ast.BasicLit); isLit && bl.Kind == token.INT {
				if x, err := strconv.ParseInt(bl.Value, 0, 64); err == nil {
					n, ok = x, true
				}
			}
		}
		o.intDef("defaultSplit", n, ok)
	}
	// indexFragment: the separator list it ranges over
	{
		var seps []string
		ok := false
		if fd := p.fn("", "indexFragment"); fd != nil {
			ast.Inspect(fd.Body, func(n ast.Node) bool {
				if rs, isR := n.(*ast.RangeStmt); isR && !ok {
					if cl, isCL := rs.X.(*ast.CompositeLit); isCL {
						ok = true
						for _, e := range cl.Elts {
							s, sok := strLit(e)
							if !sok {
								ok = false
							}
							seps = append(seps, s)
						}
					}
				}
				return true
			})
		}
		o.bytesListDef("fragSeps", seps, ok)
	}
	for _, f := range []string{"indexFragment", "splitMessage", "cutNewLines", "splitArgs"} {
		o.shapeDef(p, "", f)
	}
	// tagsReplacer: the (old, new) pairs handed to strings.NewReplacer
	{
		var pairs []string
		ok := false
		if v := p.value("tagsReplacer"); v != nil {
			if ce, isCall := v.(*ast.CallExpr); isCall && p.show(ce.Fun) == "strings.NewReplacer" {
				ok = true
				for _, a := range ce.Args {
					s, sok := strLit(a)
					if !sok {
						ok = false
					}
					pairs = append(pairs, s)
				}
			}
		}
		o.bytesListDef("tagsReplacerArgs", pairs, ok)
	}
	for _, f := range []string{"ParseLine", "parseUserHost"} {
		o.shapeDef(p, "", f)
	}
	for _, m := range []string{"Copy", "Text", "Target", "Public", "argslen"} {
		o.shapeDef(p, "Line", m)
	}
	// which functions send on conn.out, and which exported *Conn methods reach Raw
	{
		var senders []string
		calls := map[string]map[string]bool{}
		exported := map[string]bool{}
		receivers, ioUsers, muLockers := map[string]bool{}, map[string]bool{}, map[string]bool{}
		var allNames []string
		for _, fd := range p.allFuncs() {
			if fd.Body == nil {
				continue
			}
			recvName, recvType := "", ""
			if fd.Recv != nil && len(fd.Recv.List) == 1 {
				t := fd.Recv.List[0].Type
				if st, ok := t.(*ast.StarExpr); ok {
					t = st.X
				}
				if id, ok := t.(*ast.Ident); ok {
					recvType = id.Name
				}
				if len(fd.Recv.List[0].Names) == 1 {
					recvName = fd.Recv.List[0].Names[0].Name
				}
			}
			name := fd.Name.Name
			if recvType != "" {
				name = recvType + "." + name
			}
			calls[name] = map[string]bool{}
			allNames = append(allNames, name)
			if recvType == "Conn" && ast.IsExported(fd.Name.Name) {
				exported[name] = true
			}
			ast.Inspect(fd.Body, func(n ast.Node) bool {
				switch x := n.(type) {
				case *ast.SendStmt:
					if se, ok := x.Chan.(*ast.SelectorExpr); ok && se.Sel.Name == "out" {
						senders = append(senders, name)
					}
				case *ast.UnaryExpr:
					if se, ok := x.X.(*ast.SelectorExpr); ok && x.Op.String() == "<-" && se.Sel.Name == "out" {
						receivers[name] = true
					}
				case *ast.SelectorExpr:
					if x.Sel.Name == "Lock" || x.Sel.Name == "RLock" {
						if in, ok := x.X.(*ast.SelectorExpr); ok && in.Sel.Name == "mu" {
							if id, ok := in.X.(*ast.Ident); ok && id.Name == recvName && recvType == "Conn" {
								muLockers[name] = true
							}
						}
					}
					if x.Sel.Name == "io" || x.Sel.Name == "sock" {
						if id, ok := x.X.(*ast.Ident); ok && id.Name == recvName && recvName != "" {
							ioUsers[name] = true
						}
					}
				case *ast.CallExpr:
					if se, ok := x.Fun.(*ast.SelectorExpr); ok {
						if id, ok := se.X.(*ast.Ident); ok && recvName != "" && id.Name == recvName {
							calls[name]["Conn."+se.Sel.Name] = true
						}
					}
				}
				return true
			})
		}
		sort.Strings(senders)
		o.strListDef("sendersOnOut", senders, true)
		var writers, recvs, ios []string
		for _, f := range allNames {
			if calls[f]["Conn.write"] {
				writers = append(writers, f)
			}
			if receivers[f] {
				recvs = append(recvs, f)
			}
			if ioUsers[f] {
				ios = append(ios, f)
			}
		}
		sort.Strings(writers)
		sort.Strings(recvs)
		sort.Strings(ios)
		o.strListDef("callersOfWrite", writers, true)
		o.strListDef("receiversOnOut", recvs, true)
		o.strListDef("socketUsers", ios, true)
		// which methods take conn.mu, and which of them the connection's own goroutines (the ones closeFor waits
		// for while holding conn.mu) can reach through direct method calls
		var lockers []string
		for _, f := range allNames {
			if muLockers[f] {
				lockers = append(lockers, f)
			}
		}
		sort.Strings(lockers)
		o.strListDef("muLockers", lockers, true)
		var wgReach []string
		for _, root := range []string{"Conn.ping", "Conn.recvFor", "Conn.runLoop", "Conn.send"} {
			seen := map[string]bool{root: true}
			todo := []string{root}
			for len(todo) > 0 {
				f := todo[0]
				todo = todo[1:]
				for g := range calls[f] {
					if _, known := calls[g]; known && !seen[g] {
						seen[g] = true
						todo = append(todo, g)
					}
				}
			}
			var hit []string
			for f := range seen {
				if muLockers[f] {
					hit = append(hit, f[len("Conn."):])
				}
			}
			sort.Strings(hit)
			wgReach = append(wgReach, root[len("Conn."):]+"->"+strings.Join(hit, ","))
		}
		o.strListDef("muReachableFromConnGoroutines", wgReach, true)
		reach := map[string]bool{"Conn.Raw": true}
		for changed := true; changed; {
			changed = false
			for f, cs := range calls {
				if reach[f] {
					continue
				}
				for c := range cs {
					if reach[c] {
						reach[f] = true
						changed = true
					}
				}
			}
		}
		var api []string
		for f := range exported {
			if reach[f] {
				api = append(api, f[len("Conn."):])
			}
		}
		sort.Strings(api)
		o.strListDef("exportedReachingRaw", api, true)
	}
	// handler tables: event name => method
	for _, tbl := range []string{"intHandlers", "stHandlers"} {
		var ents []string
		ok := false
		if v := p.value(tbl); v != nil {
			if cl, isCL := v.(*ast.CompositeLit); isCL {
				ok = true
				for _, e := range cl.Elts {
					kv, isKV := e.(*ast.KeyValueExpr)
					if !isKV {
						ok = false
						continue
					}
					key := ""
					if s, sok := strLit(kv.Key); sok {
						key = s
					} else if id, isID := kv.Key.(*ast.Ident); isID {
						if cv := p.value(id.Name); cv != nil {
							key, _ = strLit(cv)
						}
					}
					m := p.show(kv.Value)
					ents = append(ents, key+"="+m)
				}
			}
		}
		sort.Strings(ents)
		o.strListDef("table_"+tbl, ents, ok)
	}
	// who reads cfg.Pass
	{
		var readers []string
		for _, fd := range p.allFuncs() {
			if fd.Body == nil {
				continue
			}
			found := false
			ast.Inspect(fd.Body, func(n ast.Node) bool {
				if se, ok := n.(*ast.SelectorExpr); ok && se.Sel.Name == "Pass" {
					if inner, ok := se.X.(*ast.SelectorExpr); ok && inner.Sel.Name == "cfg" {
						found = true
					}
				}
				return true
			})
			if found {
				readers = append(readers, fd.Name.Name)
			}
		}
		sort.Strings(readers)
		o.strListDef("cfgPassUsers", readers, true)
	}
	for _, m := range []string{"h_PING", "h_REGISTER", "getRequestCapabilities", "negotiateCapabilities", "handleCapAck", "handleCapNak",
		"h_410", "h_CAP", "h_AUTHENTICATE", "h_903", "h_904", "h_908", "h_001", "h_433", "h_CTCP", "h_NICK",
		"h_STNICK", "h_JOIN", "h_PART", "h_KICK", "h_QUIT", "h_MODE", "h_TOPIC", "h_311", "h_324", "h_332", "h_352", "h_353", "h_671",
		"Me", "EnableStateTracking", "DisableStateTracking", "initialise", "addIntHandlers", "addSTHandlers", "delSTHandlers",
		"ConnectContext", "internalConnect", "postConnect", "dialProxy", "send", "recv", "recvFor", "closeFor", "ping", "runLoop", "Close", "drainIn", "drainOut",
		"dispatch", "Handle", "HandleBG", "HandleFunc", "handle", "LogPanic", "Connected", "setConnected"} {
		o.shapeDef(p, "Conn", m)
	}
	for _, m := range []string{"Add", "Clear", "Has", "Intersect", "Slice", "Size"} {
		o.shapeDef(p, "capSet", m)
	}
	for _, m := range []string{"add", "remove", "getHandlers", "dispatch"} {
		o.shapeDef(p, "hSet", m)
	}
	for _, m := range []string{"Handle", "Remove"} {
		o.shapeDef(p, "hNode", m)
	}
	for _, f := range []string{"DefaultNewNick", "hasPort", "handlerSet", "capabilitySet", "Client", "NewConfig"} {
		o.shapeDef(p, "", f)
	}
	o.shapeDef(p, "Conn", "rateLimit")
	o.shapeDef(p, "Conn", "Raw")
	o.shapeDef(p, "Conn", "write")
	for _, m := range []string{"Pass", "Nick", "User", "Join", "Part", "Kick", "Quit", "Whois", "Who", "Privmsg", "Privmsgln", "Privmsgf",
		"Notice", "Ctcp", "CtcpReply", "Version", "Action", "Topic", "Mode", "Away", "Invite", "Oper", "VHost", "Ping", "Pong", "Cap", "Authenticate"} {
		o.shapeDef(p, "Conn", m)
	}
}
