package main

import (
	"go/ast"
	"go/token"
	"sort"
	"strconv"
)

// string constants of commands.go that the model mirrors
var verbConsts = []string{"REGISTER", "CONNECTED", "DISCONNECTED", "ACTION", "AUTHENTICATE", "AWAY", "CAP", "CTCP",
	"CTCPREPLY", "ERROR", "INVITE", "JOIN", "KICK", "MODE", "NICK", "NOTICE", "OPER", "PART", "PASS", "PING", "PONG",
	"PRIVMSG", "QUIT", "TOPIC", "USER", "VERSION", "VHOST", "WHO", "WHOIS", "CAP_LS", "CAP_REQ", "CAP_ACK", "CAP_NAK", "CAP_END", "saslCap"}

func factsClient(p *pkg, o *out) {
	for _, c := range verbConsts {
		s, ok := "", false
		if v := p.value(c); v != nil {
			s, ok = strLit(v)
		}
		o.bytesDef("const_"+c, s, ok)
	}
	// defaultSplit
	{
		var n int64
		ok := false
		if v := p.value("defaultSplit"); v != nil {
			if bl, isLit := v.(*ast.BasicLit); isLit && bl.Kind == token.INT {
				if x, err := strconv.ParseInt(bl.Value, 0, 64); err == nil {
					n, ok = x, true
				}
			}
		}
		o.intDef("defaultSplit", n, ok)
	}
	// indexFragment: the separator list it ranges over
	{
		var seps []string
		ok := false
		if fd := p.fn("", "indexFragment"); fd != nil {
			ast.Inspect(fd.Body, func(n ast.Node) bool {
				if rs, isR := n.(*ast.RangeStmt); isR && !ok {
					if cl, isCL := rs.X.(*ast.CompositeLit); isCL {
						ok = true
						for _, e := range cl.Elts {
							s, sok := strLit(e)
							if !sok {
								ok = false
							}
							seps = append(seps, s)
						}
					}
				}
				return true
			})
		}
		o.bytesListDef("fragSeps", seps, ok)
	}
	for _, f := range []string{"indexFragment", "splitMessage", "cutNewLines", "splitArgs"} {
		o.shapeDef(p, "", f)
	}
	// tagsReplacer: the (old, new) pairs handed to strings.NewReplacer
	{
		var pairs []string
		ok := false
		if v := p.value("tagsReplacer"); v != nil {
			if ce, isCall := v.(*ast.CallExpr); isCall && p.show(ce.Fun) == "strings.NewReplacer" {
				ok = true
				for _, a := range ce.Args {
					s, sok := strLit(a)
					if !sok {
						ok = false
					}
					pairs = append(pairs, s)
				}
			}
		}
		o.bytesListDef("tagsReplacerArgs", pairs, ok)
	}
	for _, f := range []string{"ParseLine", "parseUserHost"} {
		o.shapeDef(p, "", f)
	}
	for _, m := range []string{"Copy", "Text", "Target", "Public", "argslen"} {
		o.shapeDef(p, "Line", m)
	}
	// which functions send on conn.out, and which exported *Conn methods reach Raw
	{
		var senders []string
		calls := map[string]map[string]bool{}
		exported := map[string]bool{}
		for _, fd := range p.allFuncs() {
			if fd.Body == nil {
				continue
			}
			recvName, recvType := "", ""
			if fd.Recv != nil && len(fd.Recv.List) == 1 {
				t := fd.Recv.List[0].Type
				if st, ok := t.(*ast.StarExpr); ok {
					t = st.X
				}
				if id, ok := t.(*ast.Ident); ok {
					recvType = id.Name
				}
				if len(fd.Recv.List[0].Names) == 1 {
					recvName = fd.Recv.List[0].Names[0].Name
				}
			}
			name := fd.Name.Name
			if recvType != "" {
				name = recvType + "." + name
			}
			calls[name] = map[string]bool{}
			if recvType == "Conn" && ast.IsExported(fd.Name.Name) {
				exported[name] = true
			}
			ast.Inspect(fd.Body, func(n ast.Node) bool {
				switch x := n.(type) {
				case *ast.SendStmt:
					if se, ok := x.Chan.(*ast.SelectorExpr); ok && se.Sel.Name == "out" {
						senders = append(senders, name)
					}
				case *ast.CallExpr:
					if se, ok := x.Fun.(*ast.SelectorExpr); ok {
						if id, ok := se.X.(*ast.Ident); ok && recvName != "" && id.Name == recvName {
							calls[name]["Conn."+se.Sel.Name] = true
						}
					}
				}
				return true
			})
		}
		sort.Strings(senders)
		o.strListDef("sendersOnOut", senders, true)
		reach := map[string]bool{"Conn.Raw": true}
		for changed := true; changed; {
			changed = false
			for f, cs := range calls {
				if reach[f] {
					continue
				}
				for c := range cs {
					if reach[c] {
						reach[f] = true
						changed = true
					}
				}
			}
		}
		var api []string
		for f := range exported {
			if reach[f] {
				api = append(api, f[len("Conn."):])
			}
		}
		sort.Strings(api)
		o.strListDef("exportedReachingRaw", api, true)
	}
	o.shapeDef(p, "Conn", "rateLimit")
	o.shapeDef(p, "Conn", "Raw")
	o.shapeDef(p, "Conn", "write")
	for _, m := range []string{"Pass", "Nick", "User", "Join", "Part", "Kick", "Quit", "Whois", "Who", "Privmsg", "Privmsgln", "Privmsgf",
		"Notice", "Ctcp", "CtcpReply", "Version", "Action", "Topic", "Mode", "Away", "Invite", "Oper", "VHost", "Ping", "Pong", "Cap", "Authenticate"} {
		o.shapeDef(p, "Conn", m)
	}
}
