// Command corr is the correspondence check (Tie B): it runs the real goirc
// code (built from /repo's working tree with -tags verif) and the Lean model
// (compiled driver) on the same inputs and reports (a) where they differ and
// (b) where the executable Spec predicate, evaluated by the driver on the
// *implementation's* output, is false.
package main

import (
	"bytes"
	"encoding/json"
	"flag"
	"fmt"
	"os"
	"os/exec"
	"sort"
	"strconv"
	"strings"
	"syscall"
	"time"

	"verif/harness/drv"
	"verif/harness/gen"
)

// Case is one unit of correspondence: driver requests with the
// implementation's answers to compare, plus Spec evaluations.
type Case struct {
	Desc   string      // human-readable description
	Reqs   []string    // driver requests computing the model's answers
	Impl   []string    // implementation's canonical answers ("*" = not compared)
	Spec   []string    // driver requests evaluating Spec on the implementation's output; must answer "ok"
	Tag    string      // branch tag (what makes the case non-trivial); "" = trivial
	Key    string      // canonical input, for distinctness
	Sig    string      // signature class of the input (matched against known findings)
	Replay interface{} // structured replay data
}

type Failure struct {
	Kind   string      `json:"kind"` // "mismatch" | "spec" | "crash"
	Desc   string      `json:"desc"`
	Sig    string      `json:"sig,omitempty"`
	Req    string      `json:"request"`
	Model  string      `json:"model"`
	Impl   string      `json:"impl"`
	Replay interface{} `json:"replay,omitempty"`
}

type Result struct {
	Property     string         `json:"property"`
	Tier         string         `json:"tier"`
	Seed         uint64         `json:"seed"`
	Evaluations  int            `json:"evaluations"`
	Distinct     int            `json:"distinct_nontrivial"`
	Rule         string         `json:"rule"`
	Samples      []interface{}  `json:"samples"`
	Distribution map[string]int `json:"distribution"`
	Traces       int            `json:"traces_validated_against_impl"`
	Mismatches   []Failure      `json:"mismatches"`
	SpecFailures []Failure      `json:"spec_failures"`
	Inconclusive int            `json:"inconclusive"`
	Notes        []string       `json:"notes,omitempty"`
	WallS        float64        `json:"wall_s"`
}

type Ctx struct {
	Tier  string
	Seed  uint64
	R     *gen.R
	Res   *Result
	seen  map[string]bool
	quick bool
}

func (c *Ctx) Quick() bool { return c.quick }

// Pick returns q in the quick tier and t in the thorough tier.
func (c *Ctx) Pick(q, t int) int {
	if c.quick {
		return q
	}
	return t
}

func (c *Ctx) Dist(k string) { c.Res.Distribution[k]++; beat() }

var lastBeat time.Time

// beat tells the supervising process that this one is still making progress (at most once a second)
func beat() {
	if time.Since(lastBeat) < time.Second {
		return
	}
	lastBeat = time.Now()
	if p := os.Getenv("VERIF_JOURNAL"); p != "" {
		os.Chtimes(p, lastBeat, lastBeat)
	}
}

const maxFailures = 20

// RunCases sends all requests of all cases to the driver in one batch and
// folds the comparison into the result.
func (c *Ctx) RunCases(cases []Case) {
	var reqs []string
	for _, cs := range cases {
		for _, r := range cs.Reqs {
			reqs = append(reqs, strings.TrimPrefix(r, "?"))
		}
		reqs = append(reqs, cs.Spec...)
	}
	beat()
	replies, err := drv.Run(reqs)
	beat()
	if err != nil {
		fmt.Fprintln(os.Stderr, "corr:", err)
		os.Exit(3)
	}
	i := 0
	for _, cs := range cases {
		c.Res.Evaluations++
		if cs.Tag != "" {
			c.Dist("tag:" + cs.Tag)
			k := cs.Tag + "|" + cs.Key
			if !c.seen[k] {
				c.seen[k] = true
				c.Res.Distinct++
			}
		} else {
			c.Dist("tag:(trivial)")
		}
		if len(c.Res.Samples) < 6 && cs.Tag != "" && c.R.P(1, 3) || len(c.Res.Samples) == 0 {
			c.Res.Samples = append(c.Res.Samples, map[string]interface{}{"case": cs.Desc, "tag": cs.Tag})
		}
		for j, rq := range cs.Reqs {
			got := replies[i]
			i++
			if strings.HasPrefix(rq, "?") { // a Spec evaluation placed inside the sequence
				if got == "bad-op" {
					fmt.Fprintf(os.Stderr, "corr: driver answered bad-op to %q\n", rq)
					os.Exit(3)
				}
				if got != "ok" {
					if len(c.Res.SpecFailures) < maxFailures {
						c.Res.SpecFailures = append(c.Res.SpecFailures, Failure{Kind: "spec", Desc: cs.Desc + fmt.Sprintf(" [step %d]", j), Sig: cs.Sig, Req: rq, Model: got, Impl: "(spec evaluated on implementation output)", Replay: cs.Replay})
					}
					c.Dist("spec-fail")
				}
				continue
			}
			if j < len(cs.Impl) && cs.Impl[j] != "*" && cs.Impl[j] != got {
				if len(c.Res.Mismatches) < maxFailures {
					c.Res.Mismatches = append(c.Res.Mismatches, Failure{Kind: "mismatch", Desc: cs.Desc, Sig: cs.Sig, Req: rq, Model: got, Impl: cs.Impl[j], Replay: cs.Replay})
				}
				c.Dist("mismatch")
			}
			if got == "bad-op" {
				fmt.Fprintf(os.Stderr, "corr: driver answered bad-op to %q\n", rq)
				os.Exit(3)
			}
		}
		for _, rq := range cs.Spec {
			got := replies[i]
			i++
			if got == "bad-op" {
				fmt.Fprintf(os.Stderr, "corr: driver answered bad-op to %q\n", rq)
				os.Exit(3)
			}
			if got != "ok" {
				if len(c.Res.SpecFailures) < maxFailures {
					c.Res.SpecFailures = append(c.Res.SpecFailures, Failure{Kind: "spec", Desc: cs.Desc, Sig: cs.Sig, Req: rq, Model: got, Impl: "(spec evaluated on implementation output)", Replay: cs.Replay})
				}
				c.Dist("spec-fail")
			}
		}
	}
}

// SpecFail records a property violation observed directly by the harness
// (for observations the driver does not need to judge, e.g. a crash).
func (c *Ctx) SpecFail(kind, desc, sig, detail string, replay interface{}) {
	if len(c.Res.SpecFailures) < maxFailures {
		c.Res.SpecFailures = append(c.Res.SpecFailures, Failure{Kind: kind, Desc: desc, Sig: sig, Impl: detail, Replay: replay})
	}
	c.Dist("spec-fail")
}

// Mismatch records a disagreement between the model's and the implementation's output found outside RunCases.
func (c *Ctx) Mismatch(desc, req, model, impl string, replay interface{}) {
	if len(c.Res.Mismatches) < maxFailures {
		c.Res.Mismatches = append(c.Res.Mismatches, Failure{Kind: "mismatch", Desc: desc, Req: req, Model: model, Impl: impl, Replay: replay})
	}
	c.Dist("mismatch")
}

type propFn func(*Ctx)

var props = map[string]propFn{}
var rules = map[string]string{}

func register(id, rule string, f propFn) { props[id] = f; rules[id] = rule }

func main() {
	prop := flag.String("prop", "", "property id")
	tier := flag.String("tier", "quick", "quick|thorough")
	seed := flag.Uint64("seed", 1, "seed")
	out := flag.String("out", "", "result file")
	replay := flag.String("replay", "", "replay file (re-run only the recorded failures)")
	scenario := flag.String("scenario", "", "(internal) run one life-cycle scenario in this process and print its result")
	inproc := flag.Bool("inproc", false, "(internal) run the property in this process; without it the run happens in a child so that a crash of the library is a result, not a broken harness")
	flag.Parse()
	_ = replay
	if *scenario != "" {
		childMain(*scenario)
		return
	}
	if !*inproc && *prop != "" {
		os.Exit(superviseChild(*prop, *tier, *seed, *out))
	}
	f, ok := props[*prop]
	if !ok {
		var ids []string
		for k := range props {
			ids = append(ids, k)
		}
		sort.Strings(ids)
		fmt.Fprintf(os.Stderr, "corr: unknown property %q (have %v)\n", *prop, ids)
		os.Exit(2)
	}
	res := &Result{Property: *prop, Tier: *tier, Seed: *seed, Rule: rules[*prop], Distribution: map[string]int{},
		Mismatches: []Failure{}, SpecFailures: []Failure{}, Samples: []interface{}{}}
	ctx := &Ctx{Tier: *tier, Seed: *seed, R: gen.New(*seed), Res: res, seen: map[string]bool{}, quick: *tier != "thorough"}
	t0 := time.Now()
	f(ctx)
	res.WallS = time.Since(t0).Seconds()
	b, _ := json.MarshalIndent(res, "", " ")
	if *out != "" {
		if err := os.WriteFile(*out, b, 0o644); err != nil {
			fmt.Fprintln(os.Stderr, "corr:", err)
			os.Exit(3)
		}
	} else {
		os.Stdout.Write(b)
	}
	fmt.Fprintf(os.Stderr, "corr %s: %d cases, %d distinct non-trivial, %d mismatches, %d spec failures, %.1fs\n",
		*prop, res.Evaluations, res.Distinct, len(res.Mismatches), len(res.SpecFailures), res.WallS)
}

func itoa(i int) string { return strconv.Itoa(i) }

// Journal records what is about to be run, so that if the library crashes the
// process the supervisor can name the case in flight.
func (c *Ctx) Journal(desc string) {
	if p := os.Getenv("VERIF_JOURNAL"); p != "" {
		os.WriteFile(p, []byte(desc), 0o644)
	}
}

// superviseChild runs the property in a child process. A child that dies
// (unrecovered panic or fatal error in library goroutines) is reported as a
// violation with the crash trace and the journalled case as replay.
func superviseChild(prop, tier string, seed uint64, out string) int {
	journal := out + ".journal"
	if out == "" {
		journal = fmt.Sprintf("/tmp/corr-journal-%d", os.Getpid())
	}
	defer os.Remove(journal)
	args := []string{"-inproc", "-prop", prop, "-tier", tier, "-seed", fmt.Sprint(seed)}
	if out != "" {
		args = append(args, "-out", out)
	}
	cmd := exec.Command(os.Args[0], args...)
	var errb bytes.Buffer
	cmd.Stdout = os.Stdout
	cmd.Stderr = &errb
	cmd.Env = append(os.Environ(), "VERIF_JOURNAL="+journal, "GOTRACEBACK=all")
	// watchdog: a child whose journal has not moved for a long time is stuck inside the case it journalled last
	// (a deadlock in the library, typically); it is asked for a goroutine dump (SIGQUIT) and reported like a crash
	stall := 300 * time.Second
	if tier == "thorough" {
		stall = 1500 * time.Second
	}
	if v, e := strconv.Atoi(os.Getenv("VERIF_STALL")); e == nil && v > 0 {
		stall = time.Duration(v) * time.Second
	}
	hung := false
	if e := cmd.Start(); e != nil {
		fmt.Fprintln(os.Stderr, "corr: cannot start child:", e)
		return 3
	}
	done := make(chan error, 1)
	go func() { done <- cmd.Wait() }()
	var err error
	last := time.Now()
wait:
	for {
		select {
		case err = <-done:
			break wait
		case <-time.After(2 * time.Second):
			if fi, e := os.Stat(journal); e == nil && fi.ModTime().After(last) {
				last = fi.ModTime()
			}
			if time.Since(last) > stall && !hung {
				hung = true
				cmd.Process.Signal(syscall.SIGQUIT)
				go func() { time.Sleep(10 * time.Second); cmd.Process.Kill() }()
			}
		}
	}
	os.Stderr.Write(tail(errb.Bytes(), 4000))
	if err == nil {
		return 0
	}
	if ee, ok := err.(*exec.ExitError); ok && !hung && (ee.ExitCode() == 2 || ee.ExitCode() == 3) && !bytes.Contains(errb.Bytes(), []byte("goroutine ")) {
		return ee.ExitCode() // usage / driver errors of the harness itself
	}
	inflight, _ := os.ReadFile(journal)
	trace := string(head(errb.Bytes(), 3000))
	what, kind := "the process running the library died while: ", "crash"
	if hung {
		what, kind = fmt.Sprintf("the process running the library made no progress for %v (goroutine dump attached) while: ", stall), "hang"
		trace = string(head(stuckGoroutines(errb.Bytes()), 6000))
	}
	res := &Result{Property: prop, Tier: tier, Seed: seed, Rule: rules[prop], Distribution: map[string]int{kind: 1},
		Mismatches: []Failure{}, Samples: []interface{}{map[string]interface{}{"case": string(inflight), "tag": kind}},
		Evaluations: 1, Distinct: 0,
		SpecFailures: []Failure{{Kind: kind, Desc: what + string(inflight), Impl: trace,
			Replay: map[string]interface{}{"op": kind, "in_flight": string(inflight), "replay_cmd": fmt.Sprintf("harness/bin/corr -inproc -prop %s -tier %s -seed %d", prop, tier, seed)}}}}
	b, _ := json.MarshalIndent(res, "", " ")
	if out != "" {
		os.WriteFile(out, b, 0o644)
	} else {
		os.Stdout.Write(b)
	}
	fmt.Fprintf(os.Stderr, "corr %s: the child process crashed (%v)\n", prop, err)
	return 0
}

// stuckGoroutines keeps, from a SIGQUIT dump, the goroutines that are inside the library (not the harness' own)
func stuckGoroutines(dump []byte) []byte {
	var keep [][]byte
	for _, g := range bytes.Split(dump, []byte("\n\n")) {
		if bytes.Contains(g, []byte("fluffle/goirc/")) {
			keep = append(keep, g)
		}
	}
	if len(keep) == 0 {
		return dump
	}
	return bytes.Join(keep, []byte("\n\n"))
}

func head(b []byte, n int) []byte {
	if len(b) > n {
		return b[:n]
	}
	return b
}
func tail(b []byte, n int) []byte {
	if len(b) > n {
		return b[len(b)-n:]
	}
	return b
}
