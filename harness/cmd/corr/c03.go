package main

import (
	"os"
	"fmt"
	"runtime"
	"strconv"
	"strings"
	"sync"
	"time"

	"github.com/fluffle/goirc/client"
	"github.com/fluffle/goirc/logging"
)

func init() {
	rule := "sessions on a real connection with state tracking on: welcome line (assigning a different nick), own JOIN, then 20..300 TOPIC lines each carrying its wire index, 1..3 foreground and 0..2 background handlers with seeded durations (Gosched / sleeps), some panicking with string / error / nil-deref / custom values, optionally a background handler that never returns, byte stream chunked into reads of 1 / 7 / 64 / unlimited bytes with some lines longer than the 4096-byte read buffer, GOMAXPROCS 1/2/4/16, Close at the end; every handler logs entry/exit with the topic it reads from the tracker; the history is judged by Spec.Dispatch (evaluated by the driver), invocation counts of well-behaved handlers and calls of the recovery hook are checked; non-trivial = every completed session; distinct by parameters"
	register("C03", rule+"; plus reconnect scenarios: connection A is ended (Close / EOF) while its first foreground handler is still running and another goroutine calls Connect at once; the lines of the next connection are later lines, so Spec.Dispatch is evaluated on the history across the reconnect, and on A's history up to its DISCONNECTED", func(c *Ctx) { c03(c, "C03") })
	register("C05", rule+"; plus teardown scenarios (Close / EOF / read error) fired while the state handler of the client's own JOIN is blocked on a full send queue: every user handler that runs for the JOIN must find the client on the channel", func(c *Ctx) { c03(c, "C05") })
	register("C16", rule, func(c *Ctx) { c03(c, "C16") })
}

type obsLog struct {
	mu  sync.Mutex
	evs []string
}

func (l *obsLog) add(s string) { l.mu.Lock(); l.evs = append(l.evs, s); l.mu.Unlock() }

type dispParams struct {
	Lines, NFg, NBg, MaxRead, Procs int
	Panics, StuckBg, DefaultRecover bool
	LongLines                       bool
	Seed                            uint64
	Prop                            string
}

func dispatchSession(c *Ctx, p dispParams) {
	desc := fmt.Sprintf("dispatch session %+v", p)
	c.Journal(desc)
	rp := map[string]interface{}{"op": "dispatch-session", "params": p}
	if p.Procs > 0 {
		defer runtime.GOMAXPROCS(runtime.GOMAXPROCS(p.Procs))
	}
	lg := &obsLog{}
	var recovered sync.Map // panic value string -> count
	var nRecovered, nPanics int64
	var cntMu sync.Mutex
	rng := c.R
	// per-(handler,line) behaviour decided up front so that it is reproducible
	type beh struct {
		sleepUs   int
		panicKind int
	}
	behave := func(h, k int) beh {
		x := (uint64(h)*1000003 + uint64(k)*7919 + p.Seed) * 0x9E3779B97F4A7C15
		b := beh{sleepUs: int(x>>40) % 60}
		if p.Panics && (x>>20)%11 == 0 {
			b.panicKind = int(x>>8)%4 + 1
		}
		return b
	}
	capLog := &capLogger{}
	if p.DefaultRecover {
		logging.SetLogger(capLog)
		defer logging.SetLogger(nil)
	}
	topicOf := func(cn *client.Conn) int {
		t := cn.StateTracker()
		if t == nil {
			return -1
		}
		ch := t.GetChannel("#c")
		if ch == nil {
			return -1
		}
		f := strings.Fields(ch.Topic)
		if len(f) == 0 {
			return -1
		}
		n, err := strconv.Atoi(f[0])
		if err != nil {
			return -1
		}
		return n
	}
	lineIdx := func(l *client.Line) int {
		f := strings.Fields(l.Text())
		if len(f) == 0 {
			return -1
		}
		n, _ := strconv.Atoi(f[0])
		return n
	}
	stuck := make(chan struct{})
	sess, err := newSession(func(cfg *client.Config) {
		if !p.DefaultRecover {
			cfg.Recover = func(_ *client.Conn, _ *client.Line) {
				if e := recover(); e != nil {
					cntMu.Lock()
					nRecovered++
					cntMu.Unlock()
					v, _ := recovered.LoadOrStore(fmt.Sprint(e), new(int64))
					cntMu.Lock()
					*(v.(*int64))++
					cntMu.Unlock()
				}
			}
		}
	}, func(cn *client.Conn) {
		cn.EnableStateTracking()
		for h := 0; h < p.NFg; h++ {
			h := h
			cn.HandleFunc("TOPIC", func(cn *client.Conn, l *client.Line) {
				k := lineIdx(l)
				lg.add(fmt.Sprintf("E:%d:%d:%d", k, h, topicOf(cn)+1))
				b := behave(h, k)
				if b.sleepUs > 40 {
					time.Sleep(time.Duration(b.sleepUs) * time.Microsecond)
				} else if b.sleepUs > 20 {
					runtime.Gosched()
				}
				// scribble over our own copy of the line (C15): nobody else may notice
				for i := range l.Args {
					l.Args[i] = "scribbled"
				}
				lg.add(fmt.Sprintf("X:%d:%d:%d", k, h, topicOf(cn)+1))
				switch b.panicKind {
				case 1:
					cntMu.Lock()
					nPanics++
					cntMu.Unlock()
					panic(fmt.Sprintf("boom-%d-%d", h, k))
				case 2:
					cntMu.Lock()
					nPanics++
					cntMu.Unlock()
					panic(fmt.Errorf("err-%d-%d", h, k))
				case 3:
					cntMu.Lock()
					nPanics++
					cntMu.Unlock()
					var np *client.Line
					_ = np.Cmd
				case 4:
					cntMu.Lock()
					nPanics++
					cntMu.Unlock()
					panic(struct{ A, B int }{h, k})
				}
			})
		}
		for h := 0; h < p.NBg; h++ {
			h := h
			cn.HandleBG("TOPIC", client.HandlerFunc(func(cn *client.Conn, l *client.Line) {
				k := lineIdx(l)
				lg.add(fmt.Sprintf("B:%d:%d:%d", k, h, topicOf(cn)+1))
				if l.Args[0] != "#c" {
					lg.add("SCRIBBLE-VISIBLE")
				}
			}))
		}
		if p.StuckBg {
			cn.HandleBG("TOPIC", client.HandlerFunc(func(*client.Conn, *client.Line) { <-stuck }))
		}
		for h := 0; h < 2; h++ {
			h := h
			cn.HandleFunc(client.CONNECTED, func(cn *client.Conn, _ *client.Line) {
				if cn.Me().Nick == "renamed" {
					lg.add("W:0")
				}
				lg.add(fmt.Sprintf("CE:0:%d", h))
				runtime.Gosched()
				lg.add(fmt.Sprintf("CX:0:%d", h))
			})
		}
		cn.HandleFunc(client.DISCONNECTED, func(*client.Conn, *client.Line) { lg.add("D") })
	})
	defer close(stuck)
	if err != nil {
		c.Res.Inconclusive++
		return
	}
	sess.srv.SetMaxRead(p.MaxRead)
	var sb strings.Builder
	sb.WriteString(":irc.test 001 renamed :Welcome renamed!ident@host\r\n") // line 0
	sb.WriteString(":renamed!ident@host JOIN #c\r\n")                       // line 1
	for k := 2; k < p.Lines+2; k++ {
		pad := ""
		if p.LongLines && k%17 == 0 {
			pad = " " + strings.Repeat("x", 5000)
		}
		sb.WriteString(fmt.Sprintf(":n!u@h TOPIC #c :%d%s\r\n", k, pad))
	}
	sess.srv.Send(sb.String())
	_ = rng
	synced := sess.sync(30 * time.Second)
	// background handlers are detached: give the last ones a moment, bounded, before closing
	time.Sleep(3 * time.Millisecond)
	closed := sess.close()
	gotD := waitFor(func() bool {
		lg.mu.Lock()
		defer lg.mu.Unlock()
		return len(lg.evs) > 0 && lg.evs[len(lg.evs)-1] == "D"
	}, 2*time.Second)
	if p.Prop == "C16" && synced && (!closed || !gotD) {
		// DISCONNECTED is a later event too: neither a panicking handler nor a background handler that never
		// returns may keep it from the foreground handler
		c.SpecFail("spec", desc, "", fmt.Sprintf("Close() returned within 10s: %v; DISCONNECTED reached the foreground handler: %v (background handler that never returns registered: %v)", closed, gotD, p.StuckBg), rp)
	}
	lg.mu.Lock()
	evs := append([]string(nil), lg.evs...)
	lg.mu.Unlock()
	c.Res.Traces++
	if !synced {
		c.SpecFail("spec", desc, "", "the client stopped answering after the batch (sync marker not answered)", rp)
		return
	}
	for _, e := range evs {
		if e == "SCRIBBLE-VISIBLE" {
			c.SpecFail("spec", desc, "", "a handler saw another handler's edits to its line", rp)
		}
	}
	var toks []string
	for _, e := range evs {
		if e != "SCRIBBLE-VISIBLE" {
			toks = append(toks, e)
		}
	}
	// exactly once: every foreground handler entered and left once for every TOPIC line, panics or not
	seenE, seenX := map[string]int{}, map[string]int{}
	for _, e := range toks {
		f := strings.Split(e, ":")
		if f[0] == "E" {
			seenE[f[1]+":"+f[2]]++
		} else if f[0] == "X" {
			seenX[f[1]+":"+f[2]]++
		}
	}
	for k := 2; k < p.Lines+2; k++ {
		for h := 0; h < p.NFg; h++ {
			key := fmt.Sprintf("%d:%d", k, h)
			if seenE[key] != 1 || seenX[key] != 1 {
				c.SpecFail("spec", desc, "", fmt.Sprintf("foreground handler %d ran %d times (left %d times) for line %d", h, seenE[key], seenX[key], k), rp)
				k = p.Lines + 2
				break
			}
		}
	}
	cntMu.Lock()
	np, nr := nPanics, nRecovered
	cntMu.Unlock()
	if !p.DefaultRecover && np != nr {
		c.SpecFail("spec", desc, "", fmt.Sprintf("%d handler panics but the configured recovery function was handed %d", np, nr), rp)
	}
	if p.DefaultRecover {
		// every panic value must appear in an Error record (whatever the format of the record)
		errs := 0
		for _, t := range capLog.text {
			if strings.HasPrefix(t, "E ") && (strings.Contains(t, "boom-") || strings.Contains(t, "err-") || strings.Contains(t, "nil pointer") || strings.Contains(t, "{")) {
				errs++
			}
		}
		if int64(errs) != np {
			c.SpecFail("spec", desc, "", fmt.Sprintf("%d handler panics but the default recovery logged %d error records carrying a panic value", np, errs), rp)
		}
	}
	c.Dist(fmt.Sprintf("panics=%v/stuckbg=%v/maxread=%d", p.Panics, p.StuckBg, p.MaxRead))
	c.RunCases([]Case{{Desc: desc, Spec: []string{"spec03 " + strings.Join(toks, ",")}, Tag: "session", Key: desc, Replay: map[string]interface{}{"op": "dispatch-session", "params": p, "log_head": toks[:min(len(toks), 60)]}}})
}

// c03Reconnect: a slow foreground handler of connection A is still running when A is closed, and another goroutine
// calls Connect on the same client meanwhile. Lines of the next connection B count as later lines: none of their
// handlers may start before A's handler has finished, and A's DISCONNECTED comes after all of A's handler invocations.
func c03Reconnect(c *Ctx) {
	for i := 0; i < c.Pick(12, 60); i++ {
		nA, nB := c.R.Range(1, 6), c.R.Range(3, 30)
		big := c.R.P(2, 3)
		if big { // more lines than the input queue holds, slow handlers that do not block: lines are still queued when A ends
			nA = c.R.Range(60, 200)
		}
		cause := c.R.Pick("close", "eof")
		desc := fmt.Sprintf("reconnect while a handler of the old connection is still running: %d lines on A (the first handler blocks), A ended by %s, Connect from another goroutine, %d lines on B", nA, cause, nB)
		if big {
			desc = fmt.Sprintf("reconnect while the old connection's input queue is still full: %d lines on A (slow handlers), A ended by %s after a few of them, Connect from another goroutine, %d lines on B", nA, cause, nB)
		}
		c.Journal(desc)
		rp := map[string]interface{}{"op": "reconnect-during-handler", "lines_a": nA, "lines_b": nB, "cause": cause, "queue_full_no_blocked_handler": big}
		lg := &obsLog{}
		gate := make(chan struct{})
		sess, err := newSession(nil, func(cn *client.Conn) {
			cn.HandleFunc("PRIVMSG", func(_ *client.Conn, l *client.Line) {
				k, _ := strconv.Atoi(l.Text())
				lg.add(fmt.Sprintf("E:%d:0:%d", k, k+1))
				if k == 0 && !big {
					<-gate
				}
				if big && k < nA {
					time.Sleep(100 * time.Microsecond)
				}
				runtime.Gosched()
				lg.add(fmt.Sprintf("X:%d:0:%d", k, k+1))
			})
			cn.HandleFunc(client.DISCONNECTED, func(*client.Conn, *client.Line) { lg.add("D") })
		})
		if err != nil {
			c.Res.Inconclusive++
			continue
		}
		conn := sess.conn
		for k := 0; k < nA; k++ {
			sess.srv.SendLine(fmt.Sprintf(":n!u@h PRIVMSG me :%d", k))
		}
		need := 1
		if big {
			need = 4
		}
		entered := waitFor(func() bool { lg.mu.Lock(); defer lg.mu.Unlock(); return len(lg.evs) >= need }, 2*time.Second)
		if cause == "close" {
			go conn.Close()
		} else {
			sess.srv.EOF()
		}
		time.Sleep(3 * time.Millisecond)
		connErr := make(chan error, 1)
		go func() { // e.g. a watchdog that reconnects as soon as Connected() is false
			waitFor(func() bool { return !conn.Connected() }, 2*time.Second)
			connErr <- conn.Connect()
		}()
		var srvB = sess.srv
		gotB := false
		select {
		case srvB = <-sess.conns: // the new connection exists although A's handler has not returned
			gotB = true
			for k := 0; k < nB; k++ {
				srvB.SendLine(fmt.Sprintf(":n!u@h PRIVMSG me :%d", nA+k))
			}
			time.Sleep(20 * time.Millisecond)
		case <-time.After(30 * time.Millisecond):
		}
		close(gate)
		if !gotB {
			select {
			case srvB = <-sess.conns:
				gotB = true
				for k := 0; k < nB; k++ {
					srvB.SendLine(fmt.Sprintf(":n!u@h PRIVMSG me :%d", nA+k))
				}
			case <-time.After(5 * time.Second):
			}
		}
		if gotB {
			s2 := &session{conn: conn, srv: srvB}
			s2.sync(5 * time.Second)
			s2.close()
		}
		select {
		case <-connErr:
		case <-time.After(5 * time.Second):
		}
		time.Sleep(5 * time.Millisecond)
		lg.mu.Lock()
		evs := append([]string(nil), lg.evs...)
		lg.mu.Unlock()
		c.Res.Traces++
		if gotB && !entered {
			gotB = false
		}
		if !gotB {
			c.Res.Inconclusive++
			c.Dist("reconnect-during-handler/inconclusive")
			continue
		}
		// (1) one line at a time, in order, across the reconnect: the history without the DISCONNECTED marks
		// (2) A's DISCONNECTED after all of A's invocations: history up to the first D, then what A-line events follow it
		var noD, upToD, lateA []string
		seenD := false
		for _, e := range evs {
			if e == "D" {
				if !seenD {
					upToD = append(upToD, e)
				}
				seenD = true
				continue
			}
			noD = append(noD, e)
			k, _ := strconv.Atoi(strings.Split(e, ":")[1])
			if !seenD {
				upToD = append(upToD, e)
			} else if k < nA {
				lateA = append(lateA, e)
			}
		}
		rp["log"] = evs
		if os.Getenv("VERIF_DEBUG") != "" {
			fmt.Fprintf(os.Stderr, "c03Reconnect big=%v nA=%d nB=%d gotB=%v lateA=%d evs=%d upToD=%d tail=%v\n", big, nA, nB, gotB, len(lateA), len(evs), len(upToD), evs[max(0, len(evs)-6):])
		}
		c.RunCases([]Case{
			{Desc: desc + " [order across the reconnect]", Spec: []string{"spec03 " + strings.Join(noD, ",")}, Tag: "reconnect-during-handler", Key: fmt.Sprintf("%s/%d/%d", desc, i, c.Seed), Replay: rp},
			{Desc: desc + " [DISCONNECTED after the old connection's handlers]", Spec: []string{"spec03 " + strings.Join(append(upToD, lateA...), ",")}, Tag: "reconnect-during-handler", Key: fmt.Sprintf("%s/%d/%d/D", desc, i, c.Seed), Replay: rp},
		})
	}
}

// c05Teardown: the connection is torn down (Close from another goroutine, EOF from the server, or a read error)
// while the state handler of the client's own JOIN is still at work - it is blocked queueing MODE / WHO because the
// send queue is full and the server is not reading. Whatever the teardown does, a user handler that runs for that
// JOIN must find the tracker reflecting it (the client is on the channel).
func c05Teardown(c *Ctx) {
	defer runtime.GOMAXPROCS(runtime.GOMAXPROCS(0))
	for i := 0; i < c.Pick(16, 120); i++ {
		runtime.GOMAXPROCS([]int{1, 2, 4, 16}[i%4])
		cause := c.R.Pick("close", "eof", "readerr")
		nfg, nbg := c.R.Range(1, 3), c.R.N(3)
		desc := fmt.Sprintf("teardown (%s) while the state handler of the own JOIN is blocked on a full send queue; %d foreground + %d background JOIN handlers", cause, nfg, nbg)
		c.Journal(desc)
		rp := map[string]interface{}{"op": "teardown-during-state-handler", "cause": cause, "fg": nfg, "bg": nbg}
		lg := &obsLog{}
		sess, err := newSession(nil, func(cn *client.Conn) {
			cn.EnableStateTracking()
			look := func(kind string, h int) client.HandlerFunc {
				return func(cn *client.Conn, l *client.Line) {
					on := false
					if t := cn.StateTracker(); t != nil {
						_, on = t.IsOn("#d", cn.Me().Nick)
					}
					lg.add(fmt.Sprintf("%s%d saw on-channel=%v", kind, h, on))
				}
			}
			for h := 0; h < nfg; h++ {
				cn.HandleFunc("JOIN", look("fg", h))
			}
			for h := 0; h < nbg; h++ {
				cn.HandleBG("JOIN", look("bg", h))
			}
		})
		if err != nil {
			c.Res.Inconclusive++
			continue
		}
		conn := sess.conn
		sess.sync(5 * time.Second)
		gate := sess.srv.GateWrites() // from now on the server does not read
		go func() {                   // fill the send queue (these calls block once it is full; teardown releases them)
			for k := 0; k < 40; k++ {
				conn.Raw(fmt.Sprintf("PRIVMSG #x :fill-%d", k))
			}
		}()
		time.Sleep(2 * time.Millisecond)
		sess.srv.SendLine(":me!ident@host JOIN #d")
		// the state handler has created the channel and now sits in Mode() / Who()
		blocked := waitFor(func() bool { return conn.StateTracker().GetChannel("#d") != nil }, 2*time.Second)
		time.Sleep(time.Duration(c.R.N(3)) * time.Millisecond)
		go func() { // a closed socket fails pending writes: emulate by opening the gate once the client closed its end
			waitFor(func() bool { return sess.srv.Closed() }, 20*time.Second)
			for k := 0; k < 1000; k++ {
				select {
				case gate <- struct{}{}:
				default:
				}
			}
		}()
		switch cause {
		case "close":
			go conn.Close()
		case "eof":
			sess.srv.EOF()
		default:
			sess.srv.ReadError(fmt.Errorf("injected read error"))
		}
		down := waitFor(func() bool { return !conn.Connected() }, 10*time.Second)
		time.Sleep(5 * time.Millisecond)
		sess.close()
		lg.mu.Lock()
		evs := append([]string(nil), lg.evs...)
		lg.mu.Unlock()
		c.Res.Traces++
		c.Res.Evaluations++
		tag := "teardown-during-state-handler/" + cause
		if !blocked || len(evs) == 0 {
			tag = "(trivial)"
		}
		c.Dist("tag:" + tag)
		if k := fmt.Sprintf("%s/%d/%d/%d/%d", tag, nfg, nbg, i, c.Seed); tag != "(trivial)" && !c.seen[k] {
			c.seen[k] = true
			c.Res.Distinct++
		}
		if !down {
			c.Res.Inconclusive++
			continue
		}
		for _, e := range evs {
			if strings.HasSuffix(e, "on-channel=false") {
				c.SpecFail("spec", desc, "", "a user handler ran for the client's own JOIN but the tracker did not reflect it: "+strings.Join(evs, "; "), rp)
				break
			}
		}
	}
}

func c03(c *Ctx, prop string) {
	// the short targeted scenarios first: a search that is cut off by its time budget has then seen them
	if prop == "C03" {
		c03Reconnect(c)
	}
	if prop == "C05" {
		c05Teardown(c)
	}
	n := c.Pick(12, 120)
	for i := 0; i < n; i++ {
		p := dispParams{Lines: c.R.Range(20, c.Pick(120, 300)), NFg: c.R.Range(1, 3), NBg: c.R.N(3), MaxRead: []int{0, 1, 7, 64}[c.R.N(4)],
			Procs: []int{1, 2, 4, 16}[c.R.N(4)], Panics: c.R.Bool(), StuckBg: c.R.P(1, 3), DefaultRecover: c.R.P(1, 4), LongLines: c.R.P(1, 3), Seed: c.R.U64() % 1000, Prop: prop}
		if prop == "C16" {
			p.Panics = true
		}
		dispatchSession(c, p)
	}
	if prop == "C16" {
		// a handler that panics while the connection is being torn down must not stop the teardown either
		var scs []LifeScenario
		var tags []string
		for _, cause := range []string{"close", "eof", "cancel", "close+eof"} {
			scs = append(scs, LifeScenario{Cause: cause, Closers: 1, Flood: true, HandlerPanics: true, InBacklog: c.R.N(40), GoMaxProcs: []int{1, 4, 16}[c.R.N(3)]})
			tags = append(tags, "handler-panics-during-teardown")
		}
		runScenarios(c, "C16", scs, tags)
	}
}
