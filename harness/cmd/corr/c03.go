package main

import (
	"fmt"
	"runtime"
	"strconv"
	"strings"
	"sync"
	"time"

	"github.com/fluffle/goirc/client"
	"github.com/fluffle/goirc/logging"
)

func init() {
	rule := "sessions on a real connection with state tracking on: welcome line (assigning a different nick), own JOIN, then 20..300 TOPIC lines each carrying its wire index, 1..3 foreground and 0..2 background handlers with seeded durations (Gosched / sleeps), some panicking with string / error / nil-deref / custom values, optionally a background handler that never returns, byte stream chunked into reads of 1 / 7 / 64 / unlimited bytes with some lines longer than the 4096-byte read buffer, GOMAXPROCS 1/2/4/16, Close at the end; every handler logs entry/exit with the topic it reads from the tracker; the history is judged by Spec.Dispatch (evaluated by the driver), invocation counts of well-behaved handlers and calls of the recovery hook are checked; non-trivial = every completed session; distinct by parameters"
	register("C03", rule, func(c *Ctx) { c03(c, "C03") })
	register("C05", rule, func(c *Ctx) { c03(c, "C05") })
	register("C16", rule, func(c *Ctx) { c03(c, "C16") })
}

type obsLog struct {
	mu  sync.Mutex
	evs []string
}

func (l *obsLog) add(s string) { l.mu.Lock(); l.evs = append(l.evs, s); l.mu.Unlock() }

type dispParams struct {
	Lines, NFg, NBg, MaxRead, Procs int
	Panics, StuckBg, DefaultRecover bool
	LongLines                       bool
	Seed                            uint64
}

func dispatchSession(c *Ctx, p dispParams) {
	desc := fmt.Sprintf("dispatch session %+v", p)
	c.Journal(desc)
	rp := map[string]interface{}{"op": "dispatch-session", "params": p}
	if p.Procs > 0 {
		defer runtime.GOMAXPROCS(runtime.GOMAXPROCS(p.Procs))
	}
	lg := &obsLog{}
	var recovered sync.Map // panic value string -> count
	var nRecovered, nPanics int64
	var cntMu sync.Mutex
	rng := c.R
	// per-(handler,line) behaviour decided up front so that it is reproducible
	type beh struct {
		sleepUs   int
		panicKind int
	}
	behave := func(h, k int) beh {
		x := (uint64(h)*1000003 + uint64(k)*7919 + p.Seed) * 0x9E3779B97F4A7C15
		b := beh{sleepUs: int(x>>40) % 60}
		if p.Panics && (x>>20)%11 == 0 {
			b.panicKind = int(x>>8)%4 + 1
		}
		return b
	}
	capLog := &capLogger{}
	if p.DefaultRecover {
		logging.SetLogger(capLog)
		defer logging.SetLogger(nil)
	}
	topicOf := func(cn *client.Conn) int {
		t := cn.StateTracker()
		if t == nil {
			return -1
		}
		ch := t.GetChannel("#c")
		if ch == nil {
			return -1
		}
		f := strings.Fields(ch.Topic)
		if len(f) == 0 {
			return -1
		}
		n, err := strconv.Atoi(f[0])
		if err != nil {
			return -1
		}
		return n
	}
	lineIdx := func(l *client.Line) int {
		f := strings.Fields(l.Text())
		if len(f) == 0 {
			return -1
		}
		n, _ := strconv.Atoi(f[0])
		return n
	}
	stuck := make(chan struct{})
	sess, err := newSession(func(cfg *client.Config) {
		if !p.DefaultRecover {
			cfg.Recover = func(_ *client.Conn, _ *client.Line) {
				if e := recover(); e != nil {
					cntMu.Lock()
					nRecovered++
					cntMu.Unlock()
					v, _ := recovered.LoadOrStore(fmt.Sprint(e), new(int64))
					cntMu.Lock()
					*(v.(*int64))++
					cntMu.Unlock()
				}
			}
		}
	}, func(cn *client.Conn) {
		cn.EnableStateTracking()
		for h := 0; h < p.NFg; h++ {
			h := h
			cn.HandleFunc("TOPIC", func(cn *client.Conn, l *client.Line) {
				k := lineIdx(l)
				lg.add(fmt.Sprintf("E:%d:%d:%d", k, h, topicOf(cn)+1))
				b := behave(h, k)
				if b.sleepUs > 40 {
					time.Sleep(time.Duration(b.sleepUs) * time.Microsecond)
				} else if b.sleepUs > 20 {
					runtime.Gosched()
				}
				// scribble over our own copy of the line (C15): nobody else may notice
				for i := range l.Args {
					l.Args[i] = "scribbled"
				}
				lg.add(fmt.Sprintf("X:%d:%d:%d", k, h, topicOf(cn)+1))
				switch b.panicKind {
				case 1:
					cntMu.Lock()
					nPanics++
					cntMu.Unlock()
					panic(fmt.Sprintf("boom-%d-%d", h, k))
				case 2:
					cntMu.Lock()
					nPanics++
					cntMu.Unlock()
					panic(fmt.Errorf("err-%d-%d", h, k))
				case 3:
					cntMu.Lock()
					nPanics++
					cntMu.Unlock()
					var np *client.Line
					_ = np.Cmd
				case 4:
					cntMu.Lock()
					nPanics++
					cntMu.Unlock()
					panic(struct{ A, B int }{h, k})
				}
			})
		}
		for h := 0; h < p.NBg; h++ {
			h := h
			cn.HandleBG("TOPIC", client.HandlerFunc(func(cn *client.Conn, l *client.Line) {
				k := lineIdx(l)
				lg.add(fmt.Sprintf("B:%d:%d:%d", k, h, topicOf(cn)+1))
				if l.Args[0] != "#c" {
					lg.add("SCRIBBLE-VISIBLE")
				}
			}))
		}
		if p.StuckBg {
			cn.HandleBG("TOPIC", client.HandlerFunc(func(*client.Conn, *client.Line) { <-stuck }))
		}
		for h := 0; h < 2; h++ {
			h := h
			cn.HandleFunc(client.CONNECTED, func(cn *client.Conn, _ *client.Line) {
				if cn.Me().Nick == "renamed" {
					lg.add("W:0")
				}
				lg.add(fmt.Sprintf("CE:0:%d", h))
				runtime.Gosched()
				lg.add(fmt.Sprintf("CX:0:%d", h))
			})
		}
		cn.HandleFunc(client.DISCONNECTED, func(*client.Conn, *client.Line) { lg.add("D") })
	})
	defer close(stuck)
	if err != nil {
		c.Res.Inconclusive++
		return
	}
	sess.srv.SetMaxRead(p.MaxRead)
	var sb strings.Builder
	sb.WriteString(":irc.test 001 renamed :Welcome renamed!ident@host\r\n") // line 0
	sb.WriteString(":renamed!ident@host JOIN #c\r\n")                       // line 1
	for k := 2; k < p.Lines+2; k++ {
		pad := ""
		if p.LongLines && k%17 == 0 {
			pad = " " + strings.Repeat("x", 5000)
		}
		sb.WriteString(fmt.Sprintf(":n!u@h TOPIC #c :%d%s\r\n", k, pad))
	}
	sess.srv.Send(sb.String())
	_ = rng
	synced := sess.sync(30 * time.Second)
	// background handlers are detached: give the last ones a moment, bounded, before closing
	time.Sleep(3 * time.Millisecond)
	sess.close()
	waitFor(func() bool {
		lg.mu.Lock()
		defer lg.mu.Unlock()
		return len(lg.evs) > 0 && lg.evs[len(lg.evs)-1] == "D"
	}, time.Second)
	lg.mu.Lock()
	evs := append([]string(nil), lg.evs...)
	lg.mu.Unlock()
	c.Res.Traces++
	if !synced {
		c.SpecFail("spec", desc, "", "the client stopped answering after the batch (sync marker not answered)", rp)
		return
	}
	for _, e := range evs {
		if e == "SCRIBBLE-VISIBLE" {
			c.SpecFail("spec", desc, "", "a handler saw another handler's edits to its line", rp)
		}
	}
	var toks []string
	for _, e := range evs {
		if e != "SCRIBBLE-VISIBLE" {
			toks = append(toks, e)
		}
	}
	// exactly once: every foreground handler entered and left once for every TOPIC line, panics or not
	seenE, seenX := map[string]int{}, map[string]int{}
	for _, e := range toks {
		f := strings.Split(e, ":")
		if f[0] == "E" {
			seenE[f[1]+":"+f[2]]++
		} else if f[0] == "X" {
			seenX[f[1]+":"+f[2]]++
		}
	}
	for k := 2; k < p.Lines+2; k++ {
		for h := 0; h < p.NFg; h++ {
			key := fmt.Sprintf("%d:%d", k, h)
			if seenE[key] != 1 || seenX[key] != 1 {
				c.SpecFail("spec", desc, "", fmt.Sprintf("foreground handler %d ran %d times (left %d times) for line %d", h, seenE[key], seenX[key], k), rp)
				k = p.Lines + 2
				break
			}
		}
	}
	cntMu.Lock()
	np, nr := nPanics, nRecovered
	cntMu.Unlock()
	if !p.DefaultRecover && np != nr {
		c.SpecFail("spec", desc, "", fmt.Sprintf("%d handler panics but the configured recovery function was handed %d", np, nr), rp)
	}
	if p.DefaultRecover {
		// every panic value must appear in an Error record (whatever the format of the record)
		errs := 0
		for _, t := range capLog.text {
			if strings.HasPrefix(t, "E ") && (strings.Contains(t, "boom-") || strings.Contains(t, "err-") || strings.Contains(t, "nil pointer") || strings.Contains(t, "{")) {
				errs++
			}
		}
		if int64(errs) != np {
			c.SpecFail("spec", desc, "", fmt.Sprintf("%d handler panics but the default recovery logged %d error records carrying a panic value", np, errs), rp)
		}
	}
	c.Dist(fmt.Sprintf("panics=%v/stuckbg=%v/maxread=%d", p.Panics, p.StuckBg, p.MaxRead))
	c.RunCases([]Case{{Desc: desc, Spec: []string{"spec03 " + strings.Join(toks, ",")}, Tag: "session", Key: desc, Replay: map[string]interface{}{"op": "dispatch-session", "params": p, "log_head": toks[:min(len(toks), 60)]}}})
}

func c03(c *Ctx, prop string) {
	n := c.Pick(12, 120)
	for i := 0; i < n; i++ {
		p := dispParams{Lines: c.R.Range(20, c.Pick(120, 300)), NFg: c.R.Range(1, 3), NBg: c.R.N(3), MaxRead: []int{0, 1, 7, 64}[c.R.N(4)],
			Procs: []int{1, 2, 4, 16}[c.R.N(4)], Panics: c.R.Bool(), StuckBg: c.R.P(1, 3), DefaultRecover: c.R.P(1, 4), LongLines: c.R.P(1, 3), Seed: c.R.U64() % 1000}
		if prop == "C16" {
			p.Panics = true
		}
		dispatchSession(c, p)
	}
	if prop == "C16" {
		// a handler that panics while the connection is being torn down must not stop the teardown either
		var scs []LifeScenario
		var tags []string
		for _, cause := range []string{"close", "eof", "cancel", "close+eof"} {
			scs = append(scs, LifeScenario{Cause: cause, Closers: 1, Flood: true, HandlerPanics: true, InBacklog: c.R.N(40), GoMaxProcs: []int{1, 4, 16}[c.R.N(3)]})
			tags = append(tags, "handler-panics-during-teardown")
		}
		runScenarios(c, "C16", scs, tags)
	}
}
