package main

import (
	"bufio"
	"crypto/ecdsa"
	"crypto/elliptic"
	"crypto/rand"
	"crypto/tls"
	"crypto/x509"
	"crypto/x509/pkix"
	"encoding/json"
	"errors"
	"fmt"
	"math/big"
	"net"
	"net/url"
	"reflect"
	"regexp"
	"sort"
	"strings"
	"sync"
	"time"

	sasl "github.com/emersion/go-sasl"
	"github.com/fluffle/goirc/client"
	"github.com/fluffle/goirc/logging"

	"golang.org/x/net/proxy"

	"verif/harness/drv"
	"verif/harness/memconn"
)

func init() {
	register("C20", "sessions with a capturing logging.Logger at all four levels: random printable passwords (8-32 bytes, also ones beginning with PASS, containing spaces, colons, %-verbs) x negotiation on/off x tracking on/off x {normal session with traffic, server closes at once, dial error, TLS handshake failure, the 1st..4th write failing (so the failure lands on CAP LS / PASS / NICK / USER), flood protection on with a reconnect right after a burst (the PASS line is held back by rate limiting), Config().Pass cleared / replaced / shortened right after Connect while the PASS line is still queued behind a gated socket, a real TLS session (self-signed certificate made at run time, over an in-memory pipe)}; no record (format, any argument, or the rendered text) may contain the password (Spec.Register.occurs, evaluated by the driver), twin runs with same-length passwords must log identically, and the text logged for each outgoing line is compared with the model's logOf; non-trivial = session logged the masked PASS line; distinct by (password, scenario)", c20)
}

type capLogger struct {
	mu   sync.Mutex
	recs []string  // every format, every argument, and the rendered text
	text []string  // level + rendered text only
	late []lateRec // every record as it was handed over (format + arguments), to be rendered again later
}

// lateRec: what a batching / asynchronous logger keeps of a record until it gets round to writing it
type lateRec struct {
	f    string
	a    []interface{}
	then string // how it read when it was handed over
}

// flushLate renders every record again NOW, the way a logger that formats in batches would, and adds the renderings to
// what is searched for the password: a record is the format and its arguments, and neither may come to contain the
// password after the call either (an argument that aliases a buffer the library goes on writing to would)
func (l *capLogger) flushLate() {
	l.mu.Lock()
	defer l.mu.Unlock()
	for _, r := range l.late {
		l.recs = append(l.recs, fmt.Sprintf(r.f, r.a...))
		for _, x := range r.a {
			l.recs = append(l.recs, fmt.Sprintf("%s", x))
		}
	}
	l.late = nil
}

func (l *capLogger) add(level, f string, a ...interface{}) {
	// format first, lock afterwards: an argument whose String() never returns must wedge its own caller only
	recs := []string{f}
	for _, x := range a {
		recs = append(recs, fmt.Sprintf("%v", x), fmt.Sprintf("%+v", x), fmt.Sprintf("%q", x), fmt.Sprintf("%#v", x))
		// a structured logger does not go through fmt's Stringer handling: it serialises the arguments as they are
		if j, err := json.Marshal(x); err == nil {
			recs = append(recs, string(j))
		}
		if rv := reflect.ValueOf(x); rv.Kind() == reflect.String {
			recs = append(recs, rv.String())
		}
	}
	text := fmt.Sprintf(f, a...)
	l.mu.Lock()
	defer l.mu.Unlock()
	l.recs = append(append(l.recs, recs...), text)
	// a logger that writes in batches renders a record some calls after it was handed over: render the last few again
	// at every call, and keep whatever now reads differently
	for i := len(l.late) - 1; i >= 0 && i >= len(l.late)-40; i-- {
		if now := fmt.Sprintf(l.late[i].f, l.late[i].a...); now != l.late[i].then {
			l.recs = append(l.recs, now)
			for _, x := range l.late[i].a {
				l.recs = append(l.recs, fmt.Sprintf("%s", x))
			}
		}
	}
	l.late = append(l.late, lateRec{f, a, text})
	l.text = append(l.text, level+" "+text)
}
func (l *capLogger) Debug(f string, a ...interface{}) { l.add("D", f, a...) }
func (l *capLogger) Info(f string, a ...interface{})  { l.add("I", f, a...) }
func (l *capLogger) Warn(f string, a ...interface{})  { l.add("W", f, a...) }
func (l *capLogger) Error(f string, a ...interface{}) { l.add("E", f, a...) }

func genPassword(c *Ctx) string {
	const printable = "abcdefghijklmnopqrstuvwxyzABCDEFGHIJKLMNOPQRSTUVWXYZ0123456789!#$&()*+,-./;<=>?@[]^_{|}~"
	p := c.R.Bytes(c.R.Range(8, 32), printable)
	switch c.R.N(6) {
	case 0:
		p = "PASS" + p
	case 1:
		p = p[:4] + " " + p[4:]
	case 2:
		p = p[:3] + ":%s%v" + p[3:]
	}
	return p
}

// c20Session runs one scenario with the given password and returns what was logged.
func c20Session(pass string, capNeg, track bool, scenario int) (*capLogger, []string) {
	lg := &capLogger{}
	logging.SetLogger(lg)
	defer logging.SetLogger(nil)
	var wire []string
	mod := func(cfg *client.Config) {
		cfg.Pass = pass
		cfg.EnableCapabilityNegotiation = capNeg
		if capNeg {
			cfg.Sasl = sasl.NewPlainClient("", "user", "sasl-secret")
		}
	}
	pre := func(conn *client.Conn) {
		if track {
			conn.EnableStateTracking()
		}
	}
	switch scenario {
	case 0, 1:
		sess, err := newSession(mod, pre)
		if err != nil {
			return lg, nil
		}
		if scenario == 0 {
			if len(pass)%2 == 0 { // the nick was taken: registration goes on under the generator's next one (whatever the client does about its old nick later must not involve the password in clear)
				sess.srv.SendLine(":irc.test 433 * me :Nickname is already in use")
				sess.srv.SendLine(":irc.test 001 mf :Welcome mf!ident@host")
			}
			sess.srv.SendLine(":irc.test 001 me :Welcome me!ident@host")
			sess.srv.SendLine(":irc.test CAP * LS :sasl x")
			sess.srv.SendLine(":me!ident@host JOIN #c")
			sess.srv.SendLine(":irc.test 353 me = #c :me @op")
			sess.srv.SendLine(":x!y@z PRIVMSG me :what is your password?")
			sess.srv.SendLine("garbage \x01")
			sess.sync(5 * time.Second)
			sess.conn.Privmsg("#c", "hello")
			sess.sync(5 * time.Second)
		} else {
			sess.srv.EOF()
			time.Sleep(20 * time.Millisecond)
		}
		wire = sess.srv.Lines()
		sess.close()
	case 4, 5, 6, 7: // the (scenario-3)-th write fails: with a password set this hits CAP LS / PASS / NICK / USER in turn
		url, conns := memconn.Listen()
		memconn.PresetFailWrite(url, scenario-3)
		cfg := client.NewConfig("me")
		cfg.Server, cfg.Proxy, cfg.Flood, cfg.PingFreq = "irc.test", url, true, 0
		mod(cfg)
		conn := client.Client(cfg)
		pre(conn)
		disc := make(chan struct{}, 1)
		conn.HandleFunc(client.DISCONNECTED, func(*client.Conn, *client.Line) {
			select {
			case disc <- struct{}{}:
			default:
			}
		})
		if conn.Connect() == nil {
			sc := <-conns
			select {
			case <-disc:
			case <-time.After(2 * time.Second):
				conn.Close()
			}
			wire = sc.Lines()
		}
	case 8: // flood protection on, reconnect right after a burst: the PASS line of the second session is rate-limited
		url, conns := memconn.Listen()
		cfg := client.NewConfig("me")
		cfg.Server, cfg.Proxy, cfg.PingFreq = "irc.test", url, 0
		mod(cfg)
		cfg.Flood = false
		conn := client.Client(cfg)
		pre(conn)
		if conn.Connect() == nil {
			sc := <-conns
			for i := 0; i < 3; i++ {
				conn.Raw("PRIVMSG #c :burst")
			}
			conn.Raw("PRIVMSG #c :" + strings.Repeat("the last line of this session is longer than any password; ", 2)) // whatever still refers to it later
			sc.WaitLines(6, 8*time.Second)
			conn.Close()
			if conn.Connect() == nil {
				sc2 := <-conns
				sc2.WaitLines(2, 12*time.Second)
				wire = sc2.Lines()
				conn.Close()
			}
		}
	case 9, 10, 11: // the application changes Config().Pass right after Connect, while the PASS line is still queued
		// (Config's comment: such a change "will have no effect until the client reconnects"): the password of THIS
		// connection is the one on the wire, and it must stay out of the log whatever the configuration says by then
		url, conns := memconn.Listen()
		gate := memconn.PresetGateWrites(url)
		cfg := client.NewConfig("me")
		cfg.Server, cfg.Proxy, cfg.Flood, cfg.PingFreq = "irc.test", url, true, 0
		mod(cfg)
		conn := client.Client(cfg)
		pre(conn)
		if conn.Connect() == nil {
			sc := <-conns
			conn.Config().Pass = []string{"", "next-" + pass, pass[:len(pass)/2]}[scenario-9]
			for i := 0; i < 64; i++ {
				gate <- struct{}{}
			}
			sc.WaitLine(0, func(l string) bool { return strings.HasPrefix(l, "USER ") }, 5*time.Second)
			conn.Raw("PRIVMSG #c :after registration")
			sc.WaitLine(0, func(l string) bool { return strings.HasPrefix(l, "PRIVMSG ") }, 5*time.Second)
			wire = sc.Lines()
			conn.Close()
		}
	case 12: // a real TLS session (Config.SSL) over an in-memory pipe: what the logger sees must not depend on the transport
		tlsOnce.Do(tlsSetup)
		if tlsCert == nil {
			return lg, nil
		}
		srvDone := make(chan []string, 1)
		tlsMu.Lock()
		tlsServe = func(raw net.Conn) {
			var got []string
			defer func() { srvDone <- got }()
			sc := tls.Server(raw, &tls.Config{Certificates: []tls.Certificate{*tlsCert}})
			raw.SetDeadline(time.Now().Add(5 * time.Second))
			if sc.Handshake() != nil {
				return
			}
			rd := bufio.NewReader(sc)
			for {
				l, err := rd.ReadString('\n')
				if err != nil {
					return
				}
				l = strings.TrimRight(l, "\r\n")
				got = append(got, l)
				if strings.HasPrefix(l, "USER ") {
					sc.Write([]byte(":irc.test CAP * LS :sasl x\r\n:irc.test 001 me :Welcome me!ident@host\r\n"))
					time.Sleep(20 * time.Millisecond)
					sc.Close()
					return
				}
			}
		}
		tlsMu.Unlock()
		cfg := client.NewConfig("me")
		cfg.Server, cfg.Proxy, cfg.Flood, cfg.PingFreq, cfg.SSL = "irc.test", "veriftls://x", true, 0, true
		cfg.SSLConfig = &tls.Config{InsecureSkipVerify: true}
		cfg.Timeout = 5 * time.Second
		mod(cfg)
		conn := client.Client(cfg)
		pre(conn)
		if conn.Connect() == nil {
			select {
			case wire = <-srvDone:
			case <-time.After(6 * time.Second):
			}
			time.Sleep(10 * time.Millisecond)
			conn.Close()
		}
	case 2: // dial error
		url, _ := memconn.Listen()
		memconn.FailDial(url, errors.New("connection refused"))
		cfg := client.NewConfig("me")
		cfg.Server, cfg.Proxy = "irc.test", url
		mod(cfg)
		conn := client.Client(cfg)
		pre(conn)
		conn.Connect()
	case 3: // TLS handshake failure
		url, conns := memconn.Listen()
		cfg := client.NewConfig("me")
		cfg.Server, cfg.Proxy, cfg.SSL = "irc.test", url, true
		mod(cfg)
		conn := client.Client(cfg)
		pre(conn)
		done := make(chan struct{})
		go func() { conn.Connect(); close(done) }()
		select {
		case sc := <-conns:
			sc.EOF()
		case <-time.After(2 * time.Second):
		}
		<-done
	}
	return lg, wire
}

// a TLS server end for scenario 12: a self-signed certificate made at run time, a proxy dialer type that hands the
// client one end of a net.Pipe and the other end to the current serve function
var (
	tlsOnce  sync.Once
	tlsCert  *tls.Certificate
	tlsMu    sync.Mutex
	tlsServe func(net.Conn)
)

type tlsDialer struct{}

func (tlsDialer) Dial(network, addr string) (net.Conn, error) {
	a, b := net.Pipe()
	tlsMu.Lock()
	f := tlsServe
	tlsMu.Unlock()
	if f == nil {
		return nil, errors.New("no TLS server")
	}
	go f(b)
	return a, nil
}

func tlsSetup() {
	key, err := ecdsa.GenerateKey(elliptic.P256(), rand.Reader)
	if err != nil {
		return
	}
	tmpl := &x509.Certificate{SerialNumber: big.NewInt(1), Subject: pkix.Name{CommonName: "irc.test"}, NotBefore: time.Now().Add(-time.Hour), NotAfter: time.Now().Add(24 * time.Hour),
		KeyUsage: x509.KeyUsageDigitalSignature, ExtKeyUsage: []x509.ExtKeyUsage{x509.ExtKeyUsageServerAuth}, DNSNames: []string{"irc.test"}}
	der, err := x509.CreateCertificate(rand.Reader, tmpl, tmpl, &key.PublicKey, key)
	if err != nil {
		return
	}
	tlsCert = &tls.Certificate{Certificate: [][]byte{der}, PrivateKey: key}
	proxy.RegisterDialerType("veriftls", func(*url.URL, proxy.Dialer) (proxy.Dialer, error) { return tlsDialer{}, nil })
}

var listenerID = regexp.MustCompile(`verif://l[0-9]+`)

// canonLog makes two runs comparable: listener ids are per session, and the
// recv/send/handler goroutines interleave their records differently run to run.
func canonLog(text []string) string {
	t := make([]string, len(text))
	for i, l := range text {
		t[i] = listenerID.ReplaceAllString(l, "verif://L")
	}
	sort.Strings(t)
	return strings.Join(t, "\n")
}

func c20(c *Ctx) {
	var cases []Case
	n := c.Pick(60, 600)
	for i := 0; i < n; i++ {
		pass := genPassword(c)
		capNeg, track, scenario := c.R.Bool(), c.R.Bool(), c.R.N(8)
		if c.R.P(1, 6) {
			scenario = 9 + c.R.N(3)
		}
		if i == 1 || (i > 1 && c.R.P(1, 10)) {
			scenario = 12 // TLS
			capNeg = i == 1 || capNeg
		}
		if c.R.P(1, 3) {
			scenario = 0
		}
		if i == 0 {
			scenario = 8 // once per run: takes a few seconds of real rate limiting
		}
		lg, wire := c20Session(pass, capNeg, track, scenario)
		lg.flushLate()
		desc := fmt.Sprintf("session scenario=%d capneg=%v tracking=%v password=%q", scenario, capNeg, track, pass)
		rp := map[string]interface{}{"op": "log-session", "scenario": scenario, "capneg": capNeg, "tracking": track, "password_hex": drv.H(pass)}
		tag := ""
		masked := false
		for _, t := range lg.text {
			if t == "D -> PASS **************" {
				masked = true
			}
		}
		if masked {
			tag = fmt.Sprintf("masked/scenario=%d/capneg=%v/track=%v", scenario, capNeg, track)
		}
		cs := Case{Desc: desc, Spec: []string{"spec20 " + drv.H(pass) + " " + drv.L(lg.recs)}, Tag: tag, Key: pass + desc, Replay: rp}
		// the text logged for each outgoing line vs the model
		var logged []string
		for _, t := range lg.text {
			if strings.HasPrefix(t, "D -> ") {
				logged = append(logged, strings.TrimPrefix(t, "D -> "))
			}
		}
		if scenario == 0 && len(logged) == len(wire) {
			for k, w := range wire {
				cs.Reqs = append(cs.Reqs, "logof "+drv.H(w))
				cs.Impl = append(cs.Impl, drv.H(logged[k]))
			}
		}
		if scenario == 0 && pass != "" && !masked {
			c.SpecFail("spec", desc, "", "the PASS line was not logged in masked form", rp)
		}
		cases = append(cases, cs)
		// twin run: same-length password, same scenario: identical log text
		if scenario == 0 || scenario == 2 {
			twin := []byte(pass)
			for k := range twin {
				if twin[k] != ' ' && twin[k] != ':' {
					twin[k] = "abcdefghijklmnopqrstuvwxyz"[c.R.N(26)]
				}
			}
			if strings.HasPrefix(pass, "PASS") {
				copy(twin, "PASS")
			}
			lg2, _ := c20Session(string(twin), capNeg, track, scenario)
			c.Res.Evaluations++
			if canonLog(lg.text) != canonLog(lg2.text) {
				c.SpecFail("spec", desc+" vs twin password "+string(twin), "", "log streams differ between two runs that differ only in the password's content", rp)
			}
		}
	}
	c.RunCases(cases)
}
