package main

import (
	"fmt"
	"sort"
	"strconv"
	"strings"
	"sync"
	"sync/atomic"
	"time"

	"github.com/fluffle/goirc/client"

	"verif/harness/drv"
)

func init() {
	register("C04", "(a) histories of add/remove on a real hSet over names {privmsg, PRIVMSG, PrivMsg, join, 001, x} with removal of first/middle/last/only handlers and re-adds: after every step the forward walk from start and the backward walk from end of every list are compared with the model, the Spec (name -> registration-ordered list) is evaluated on them, and getHandlers/dispatch lists for every case variant are compared; (b) sessions on a real connection with foreground and background handlers registered and removed from outside and from inside running handlers (self-removal, registration during the own event), invocation counters compared with the multiset the Spec predicts; (c) sessions in which 1..4 other goroutines register and remove handlers as fast as they can while 100..600 events are dispatched: the permanent handlers run exactly once per event and every Handle / Remove call returns; non-trivial = history contains a removal / every session; distinct by history", c04)
}

func idsStr(l []int) string {
	if len(l) == 0 {
		return "_"
	}
	p := make([]string, len(l))
	for i, x := range l {
		p[i] = fmt.Sprint(x)
	}
	return strings.Join(p, ",")
}

func linksStr(m map[string][2][]int) string {
	var parts []string
	for name, fb := range m {
		parts = append(parts, drv.H(name)+"="+idsStr(fb[0])+"/"+idsStr(fb[1]))
	}
	sort.Strings(parts)
	return strings.Join(parts, "|")
}

// c04BgBurst: background handlers that take a while, and events arriving faster than they are worked off. Every event
// must reach every registered background handler exactly once (and the foreground handler too), whatever queueing the
// library does between the event loop and the background handlers.
func c04BgBurst(c *Ctx) {
	for k := 0; k < c.Pick(3, 20); k++ {
		n := c.R.Range(100, 400)
		nbg := c.R.Range(1, 3)
		desc := fmt.Sprintf("burst of %d numbered NOTICE events, %d background handlers that take 50-300us each, one foreground handler", n, nbg)
		rp := map[string]interface{}{"op": "bg-burst", "events": n, "bg": nbg}
		c.Journal("C04 " + desc)
		var mu sync.Mutex
		counts := make([]map[int]int, nbg+1)
		for i := range counts {
			counts[i] = map[int]int{}
		}
		total := 0
		sess, err := newSession(nil, func(cn *client.Conn) {
			rec := func(h int, slow bool) client.HandlerFunc {
				return func(_ *client.Conn, l *client.Line) {
					q, e := strconv.Atoi(l.Text())
					if slow {
						time.Sleep(time.Duration(50+(q*37+h*11)%250) * time.Microsecond)
					}
					mu.Lock()
					if e != nil {
						q = -1
					}
					counts[h][q]++
					total++
					mu.Unlock()
				}
			}
			cn.HandleFunc("NOTICE", rec(0, false))
			for h := 1; h <= nbg; h++ {
				cn.HandleBG("NOTICE", rec(h, true))
			}
		})
		if err != nil {
			c.Res.Inconclusive++
			continue
		}
		var sb strings.Builder
		for q := 0; q < n; q++ {
			sb.WriteString(fmt.Sprintf(":n!u@h NOTICE me :%d\r\n", q))
			if q%50 == 49 { // several segments, so that bursts meet a busy worker
				sess.srv.Send(sb.String())
				sb.Reset()
				time.Sleep(300 * time.Microsecond)
			}
		}
		sess.srv.Send(sb.String())
		sess.sync(20 * time.Second)
		waitFor(func() bool { mu.Lock(); defer mu.Unlock(); return total >= n*(nbg+1) }, 5*time.Second)
		time.Sleep(5 * time.Millisecond)
		sess.close()
		c.Res.Traces++
		c.Res.Evaluations++
		c.Dist("tag:bg-burst")
		mu.Lock()
		bad := ""
		for h := 0; h <= nbg && bad == ""; h++ {
			for q := 0; q < n; q++ {
				if counts[h][q] != 1 {
					kind := "background"
					if h == 0 {
						kind = "foreground"
					}
					bad = fmt.Sprintf("%s handler %d ran %d times for event %d", kind, h, counts[h][q], q)
					break
				}
			}
			if bad == "" && len(counts[h]) != n {
				bad = fmt.Sprintf("handler %d was invoked for %d distinct events, %d were sent", h, len(counts[h]), n)
			}
		}
		mu.Unlock()
		if bad != "" {
			c.SpecFail("spec", desc, "", bad, rp)
		}
	}
}

func c04(c *Ctx) {
	c04BgBurst(c)
	names := []string{"privmsg", "PRIVMSG", "PrivMsg", "join", "001", "x", "JOIN"}
	// every letter in both cases, the characters around the letter ranges, names beyond any plausible short-name fast path
	alpha := []string{"abcdefghijklm", "ABCDEFGHIJKLM", "nopqrstuvwxyz", "NOPQRSTUVWXYZ", "NoPqRsTuVwXyZ", "zap", "ZAP", "Zap", "quiz", "QUIZ", "@[`{", "a[z{", "A[Z{",
		"averyveryverylongeventname", "AVERYVERYVERYLONGEVENTNAME", "AveryVeryVeryLongEventName", "sixteen-bytes-zz", "SIXTEEN-BYTES-ZZ", "seventeen-bytes-zz", "SEVENTEEN-BYTES-ZZ"}
	if c.R.P(1, 2) {
		names = append(names, alpha...)
	} else {
		names = append(names, alpha[c.R.N(len(alpha))], alpha[c.R.N(len(alpha))], alpha[c.R.N(len(alpha))])
	}
	var cases []Case
	for i := 0; i < c.Pick(1500, 20000); i++ {
		v := client.VerifNewHSet()
		cs := Case{Reqs: []string{"hs new"}, Impl: []string{"ok"}}
		var live []int
		var desc []string
		removed := false
		n := c.R.Range(1, 30)
		nadd := 0
		for j := 0; j < n; j++ {
			if len(live) > 0 && c.R.P(2, 5) {
				// remove first / middle / last / random
				var k int
				switch c.R.N(4) {
				case 0:
					k = 0
				case 1:
					k = len(live) - 1
				default:
					k = c.R.N(len(live))
				}
				id := live[k]
				live = append(live[:k], live[k+1:]...)
				v.Remove(id)
				cs.Reqs = append(cs.Reqs, fmt.Sprintf("hs remove %d", id))
				cs.Impl = append(cs.Impl, "ok")
				desc = append(desc, fmt.Sprintf("remove %d", id))
				removed = true
			} else {
				name := names[c.R.N(len(names))]
				id := v.Add(name, 100+nadd)
				nadd++
				live = append(live, id)
				cs.Reqs = append(cs.Reqs, fmt.Sprintf("hs add %s %d", drv.H(name), 100+nadd-1))
				cs.Impl = append(cs.Impl, fmt.Sprint(id))
				desc = append(desc, fmt.Sprintf("add %s", name))
			}
			ls := linksStr(v.Links())
			cs.Reqs = append(cs.Reqs, "hs links", "?hs speclinks "+orDash(ls))
			cs.Impl = append(cs.Impl, ls, "")
			probe := names[c.R.N(len(names))]
			got := v.Get(strings.ToLower(probe))
			cs.Reqs = append(cs.Reqs, "hs get "+drv.H(strings.ToLower(probe)))
			cs.Impl = append(cs.Impl, idsStr(got))
		}
		if removed {
			cs.Tag = fmt.Sprintf("with-removal/len=%d", n/10*10)
		}
		cs.Desc = "hSet history: " + strings.Join(desc, "; ")
		cs.Key = cs.Desc
		cs.Replay = map[string]interface{}{"op": "hset-history", "ops": desc}
		cases = append(cases, cs)
	}
	c.RunCases(cases)
	c04Sessions(c)
	c04Churn(c)
	c04RemoveDuringDispatch(c)
	c04TwoNamesBackground(c)
	c04BackgroundRemovers(c)
	c04LoneScribbler(c)
}

func orDash(s string) string {
	if s == "" {
		return "-"
	}
	return s
}

// c04Churn: registration and removal from other goroutines while events are being dispatched. A handler that is
// registered for the whole session must run exactly once per event, every Handle / Remove call must return, and
// the handlers the churning goroutines register and remove at once run at most once per event.
func c04Churn(c *Ctx) {
	for s := 0; s < c.Pick(3, 25); s++ {
		churners := c.R.Range(1, 4)
		events := c.R.Range(100, 600)
		desc := fmt.Sprintf("C04 churn session %d: %d goroutines registering and removing handlers (own and same event names) while %d NOTICE events are dispatched to a permanent foreground and a permanent background handler", s, churners, events)
		c.Journal(desc)
		rp := map[string]interface{}{"op": "churn-session", "churners": churners, "events": events}
		sess, err := newSession(nil, nil)
		if err != nil {
			c.Res.Inconclusive++
			continue
		}
		conn := sess.conn
		var fg, bg, tmpMax int64
		conn.HandleFunc("notice", func(*client.Conn, *client.Line) { atomic.AddInt64(&fg, 1) })
		conn.HandleBG("NOTICE", client.HandlerFunc(func(*client.Conn, *client.Line) { atomic.AddInt64(&bg, 1) }))
		stop := make(chan struct{})
		var wg sync.WaitGroup
		var ops int64
		for g := 0; g < churners; g++ {
			wg.Add(1)
			name := []string{"NOTICE", "Notice", "JOIN", "x"}[(g+s)%4]
			useBG := g%2 == 1
			go func() {
				defer wg.Done()
				for {
					select {
					case <-stop:
						return
					default:
					}
					var n int64
					h := client.HandlerFunc(func(*client.Conn, *client.Line) {
						if v := atomic.AddInt64(&n, 1); v > atomic.LoadInt64(&tmpMax) {
							atomic.StoreInt64(&tmpMax, v)
						}
					})
					var r client.Remover
					if useBG {
						r = conn.HandleBG(name, h)
					} else {
						r = conn.Handle(name, h)
					}
					r.Remove()
					atomic.AddInt64(&ops, 2)
				}
			}()
		}
		for i := 0; i < events; i++ {
			sess.srv.SendLine(fmt.Sprintf(":n!u@h NOTICE me :ev%d", i))
		}
		delivered := waitFor(func() bool {
			return atomic.LoadInt64(&fg) >= int64(events) && atomic.LoadInt64(&bg) >= int64(events)
		}, 20*time.Second)
		close(stop)
		churnDone := make(chan struct{})
		go func() { wg.Wait(); close(churnDone) }()
		returned := true
		select {
		case <-churnDone:
		case <-time.After(5 * time.Second):
			returned = false
		}
		time.Sleep(20 * time.Millisecond)
		f, b := atomic.LoadInt64(&fg), atomic.LoadInt64(&bg)
		c.Res.Traces++
		c.Res.Evaluations++
		c.Dist("tag:churn-session")
		if k := fmt.Sprintf("churn/%d/%d/%d", churners, events, c.Seed); !c.seen[k] {
			c.seen[k] = true
			c.Res.Distinct++
		}
		switch {
		case !delivered || !returned:
			c.SpecFail("spec", desc, "", fmt.Sprintf("stuck: after 20s the permanent foreground handler ran %d times and the background one %d times for %d events; Handle/Remove calls returned: %v (%d done)", f, b, events, returned, atomic.LoadInt64(&ops)), rp)
			go sess.close()
			continue
		case f != int64(events) || b != int64(events):
			c.SpecFail("spec", desc, "", fmt.Sprintf("permanent handlers ran %d (fg) and %d (bg) times for %d events", f, b, events), rp)
		case atomic.LoadInt64(&tmpMax) > int64(events):
			c.SpecFail("spec", desc, "", fmt.Sprintf("a churned handler ran %d times for %d events", tmpMax, events), rp)
		}
		sess.close()
	}
}

// c04Sessions: exactly-once invocation on a real connection, with handlers that add and remove handlers.
func c04Sessions(c *Ctx) {
	for s := 0; s < c.Pick(6, 60); s++ {
		var counts sync.Map // handler id -> *int64
		inc := func(id string) {
			v, _ := counts.LoadOrStore(id, new(int64))
			atomic.AddInt64(v.(*int64), 1)
		}
		get := func(id string) int64 {
			v, ok := counts.Load(id)
			if !ok {
				return 0
			}
			return atomic.LoadInt64(v.(*int64))
		}
		expect := map[string]int64{}
		var removers sync.Map
		c.Journal(fmt.Sprintf("C04 handler session %d (seed %d)", s, c.Seed))
		sess, err := newSession(nil, nil)
		if err != nil {
			c.Res.Inconclusive++
			continue
		}
		conn := sess.conn
		// permanent sentinel background handler: pins the start of background dispatch
		bgSeen := make(chan string, 4096)
		conn.HandleBG("NOTICE", client.HandlerFunc(func(_ *client.Conn, l *client.Line) { bgSeen <- l.Text() }))
		type reg struct {
			id, name string
			bg       bool
		}
		var regs []reg
		nextID := 0
		addH := func(name string, bg bool) string {
			id := fmt.Sprintf("h%d", nextID)
			nextID++
			h := client.HandlerFunc(func(_ *client.Conn, _ *client.Line) { inc(id) })
			var r client.Remover
			if bg {
				r = conn.HandleBG(name, h)
			} else if c.R.Bool() {
				r = conn.Handle(name, h)
			} else {
				r = conn.HandleFunc(name, h)
			}
			removers.Store(id, r)
			regs = append(regs, reg{id, name, bg})
			return id
		}
		removed := map[string]bool{}
		var pending [][2]string
		var killers [][]string
		pinned := map[string]bool{} // handlers whose Remover belongs to a sibling-removing handler (each Remover is used once)
		var descs []string
		events := 0
		for step := 0; step < 25; step++ {
			switch c.R.N(7) {
			case 0, 1:
				name := c.R.Pick("NOTICE", "notice", "Notice", "JOIN")
				id := addH(name, c.R.P(1, 3))
				descs = append(descs, "add "+id+" "+name)
			case 2:
				var live []string
				for _, r := range regs {
					if !removed[r.id] && !pinned[r.id] {
						live = append(live, r.id)
					}
				}
				if len(live) > 0 {
					id := live[c.R.N(len(live))]
					r, _ := removers.Load(id)
					r.(client.Remover).Remove()
					removed[id] = true
					descs = append(descs, "remove "+id)
				}
			case 3:
				// a foreground handler that removes itself and registers another handler during its own event
				selfID := fmt.Sprintf("h%d", nextID)
				nextID++
				newID := fmt.Sprintf("h%d", nextID)
				nextID++
				var self client.Remover
				var once sync.Once
				self = conn.HandleFunc("NOTICE", func(cn *client.Conn, _ *client.Line) {
					inc(selfID)
					once.Do(func() {
						self.Remove()
						r := cn.HandleFunc("notice", func(*client.Conn, *client.Line) { inc(newID) })
						removers.Store(newID, r)
					})
				})
				removers.Store(selfID, self)
				regs = append(regs, reg{selfID, "NOTICE", false}, reg{newID, "notice", false})
				removed[newID] = true // not registered yet: becomes live after the next NOTICE event
				descs = append(descs, "add self-removing "+selfID+" (registers "+newID+")")
				// mark: after next NOTICE event: selfID removed, newID live
				pending = append(pending, [2]string{selfID, newID})
			case 4:
				// a handler that, during its own first invocation, removes handlers registered AFTER it under the same
				// name: they were registered when the event was dispatched, so they still run for this event (once),
				// and for no later one
				killerID := fmt.Sprintf("h%d", nextID)
				nextID++
				nv := c.R.Range(1, 6)
				var victims []string
				var vrem []client.Remover
				var once sync.Once
				conn.HandleFunc("NOTICE", func(*client.Conn, *client.Line) {
					inc(killerID)
					once.Do(func() {
						for _, r := range vrem {
							r.Remove()
						}
					})
				})
				regs = append(regs, reg{killerID, "NOTICE", false})
				pinned[killerID] = true
				for v := 0; v < nv; v++ {
					id := fmt.Sprintf("h%d", nextID)
					nextID++
					victims = append(victims, id)
					pinned[id] = true
					vrem = append(vrem, conn.HandleFunc("notice", func(*client.Conn, *client.Line) { inc(id) }))
					regs = append(regs, reg{id, "notice", false})
				}
				killers = append(killers, victims)
				descs = append(descs, fmt.Sprintf("add %s which removes its later siblings %v during the next event", killerID, victims))
			default:
				// an event: every live handler registered under its name (case-insensitively) runs once
				events++
				tok := fmt.Sprintf("ev%d", events)
				for _, r := range regs {
					if !removed[r.id] && strings.EqualFold(r.name, "NOTICE") {
						expect[r.id]++
					}
				}
				// sibling-removing handlers fire now: their victims have run for this event and are gone afterwards
				for _, vs := range killers {
					for _, v := range vs {
						removed[v] = true
					}
				}
				killers = nil
				// self-removing handlers fire now
				for _, p := range pending {
					if !removed[p[0]] { // it runs now: removes itself, registers the other one
						removed[p[0]] = true
						removed[p[1]] = false
					}
				}
				pending = nil
				sess.srv.SendLine(":n!u@h NOTICE me :" + tok)
				if !sess.sync(5 * time.Second) {
					c.Res.Inconclusive++
				}
				// wait for the background dispatch of this event (sentinel), then give its siblings a moment
				select {
				case <-bgSeen:
				case <-time.After(2 * time.Second):
				}
				descs = append(descs, "event NOTICE")
			}
		}
		// background handlers run asynchronously: wait until counters are stable and equal, bounded
		okAll := waitFor(func() bool {
			for id, want := range expect {
				if get(id) != want {
					return false
				}
			}
			return true
		}, 2*time.Second)
		sess.close()
		c.Res.Traces++
		c.Res.Evaluations++
		c.Dist("session")
		if !okAll {
			var diffs []string
			for _, r := range regs {
				if get(r.id) != expect[r.id] {
					diffs = append(diffs, fmt.Sprintf("%s(%s bg=%v): ran %d times, Spec says %d", r.id, r.name, r.bg, get(r.id), expect[r.id]))
				}
			}
			sort.Strings(diffs)
			c.SpecFail("spec", "handler session: "+strings.Join(descs, "; "), "", strings.Join(diffs, " | "), map[string]interface{}{"op": "handler-session", "steps": descs})
		}
		// no handler ran that the Spec does not know of, none more than expected
		for _, r := range regs {
			if get(r.id) > expect[r.id] {
				c.SpecFail("spec", "handler session: "+strings.Join(descs, "; "), "", fmt.Sprintf("%s ran %d times, Spec says %d", r.id, get(r.id), expect[r.id]), map[string]interface{}{"op": "handler-session", "steps": descs})
			}
		}
	}
}

// c04RemoveDuringDispatch: a removal that lands WHILE the dispatcher is still starting the handlers of an event must
// not disturb that event - every handler registered when the event was dispatched runs exactly once for it. The first
// handler of a long list removes, as soon as it is started, a handler registered right behind it; the dispatcher is
// then still starting the other handlers (some dozens of them), so the removal falls inside the dispatch loop on
// another processor. One victim per event, each event checked.
func c04RemoveDuringDispatch(c *Ctx) {
	for s := 0; s < c.Pick(2, 10); s++ {
		events, stable := 50, 24+c.R.N(16)
		c.Journal(fmt.Sprintf("C04 removal during dispatch: %d events, %d stable handlers (seed %d)", events, stable, c.Seed))
		sess, err := newSession(nil, nil)
		if err != nil {
			c.Res.Inconclusive++
			continue
		}
		conn := sess.conn
		counts := make([]int64, 1+events+stable) // trigger, victims, stable
		var cur int64 = -1
		victims := make([]client.Remover, events)
		conn.HandleFunc("NOTICE", func(*client.Conn, *client.Line) {
			atomic.AddInt64(&counts[0], 1)
			if k := atomic.LoadInt64(&cur); k >= 0 && int(k) < events {
				victims[k].Remove()
			}
		})
		for k := 0; k < events; k++ {
			k := k
			victims[k] = conn.HandleFunc("notice", func(*client.Conn, *client.Line) { atomic.AddInt64(&counts[1+k], 1) })
		}
		for j := 0; j < stable; j++ {
			j := j
			conn.HandleFunc("Notice", func(*client.Conn, *client.Line) { atomic.AddInt64(&counts[1+events+j], 1) })
		}
		bad := ""
		for k := 0; k < events && bad == ""; k++ {
			atomic.StoreInt64(&cur, int64(k))
			sess.srv.SendLine(fmt.Sprintf(":n!u@h NOTICE me :ev%d", k))
			if !sess.sync(5 * time.Second) {
				c.Res.Inconclusive++
				break
			}
			// after event k: trigger and every stable handler ran k+1 times; victim j ran min(j,k)+1 times
			var diffs []string
			for i := range counts {
				want := int64(k + 1)
				if i >= 1 && i <= events && i-1 < k {
					want = int64(i)
				}
				if got := atomic.LoadInt64(&counts[i]); got != want {
					name := "the removing handler"
					if i >= 1 && i <= events {
						name = fmt.Sprintf("victim %d (removed during event %d)", i-1, i-1)
					} else if i > events {
						name = fmt.Sprintf("stable handler %d of %d", i-1-events, stable)
					}
					diffs = append(diffs, fmt.Sprintf("%s ran %d times, Spec says %d", name, got, want))
				}
			}
			if len(diffs) > 0 {
				if len(diffs) > 6 {
					diffs = append(diffs[:6], fmt.Sprintf("... %d more", len(diffs)-6))
				}
				bad = fmt.Sprintf("after event %d: %s", k, strings.Join(diffs, " | "))
			}
			c.Res.Evaluations++
		}
		sess.close()
		c.Res.Traces++
		c.Dist("remove-during-dispatch")
		if bad != "" {
			desc := fmt.Sprintf("1 handler, then %d one-shot victims, then %d more handlers under one event name; during event k the first handler removes victim k while the others are still being started", events, stable)
			c.SpecFail("spec", desc, "", bad, map[string]interface{}{"op": "remove-during-dispatch", "events": events, "stable": stable})
		}
	}
}

// c04TwoNamesBackground: background dispatches of consecutive lines overlap in time (each runs on its own goroutine).
// Handlers under two event names, lines of the two verbs alternating in one burst: every handler must be invoked exactly
// once for every event of ITS name and never for an event of the other name.
func c04TwoNamesBackground(c *Ctx) {
	for s := 0; s < c.Pick(2, 8); s++ {
		per, events := c.R.Range(2, 40), 600
		c.Journal(fmt.Sprintf("C04 two names, background: %d handlers per name, %d alternating lines (seed %d)", per, events, c.Seed))
		sess, err := newSession(nil, nil)
		if err != nil {
			c.Res.Inconclusive++
			continue
		}
		names := []string{"AAA", "BBB"}
		own := make([]int64, 2*per)
		foreign := make([]int64, 2*per)
		for ni, name := range names {
			for h := 0; h < per; h++ {
				idx := ni*per + h
				want := name
				sess.conn.HandleBG(strings.ToLower(name), client.HandlerFunc(func(_ *client.Conn, l *client.Line) {
					if l.Cmd == want {
						atomic.AddInt64(&own[idx], 1)
					} else {
						atomic.AddInt64(&foreign[idx], 1)
					}
				}))
			}
		}
		var sb strings.Builder
		for k := 0; k < events; k++ {
			sb.WriteString(fmt.Sprintf(":n!u@h %s me :%d\r\n", names[k%2], k))
		}
		sess.srv.Send(sb.String())
		synced := sess.sync(20 * time.Second)
		okAll := waitFor(func() bool {
			for i := range own {
				if atomic.LoadInt64(&own[i]) < int64(events/2) {
					return false
				}
			}
			return true
		}, 3*time.Second)
		sess.close()
		c.Res.Traces++
		c.Res.Evaluations += events
		c.Dist("two-names-background")
		if !synced {
			c.Res.Inconclusive++
			continue
		}
		var diffs []string
		for i := range own {
			o, f := atomic.LoadInt64(&own[i]), atomic.LoadInt64(&foreign[i])
			if o != int64(events/2) || f != 0 {
				diffs = append(diffs, fmt.Sprintf("handler %d (%s): invoked %d times for its own event (Spec: %d), %d times for an event of the other name (Spec: 0)", i%per, names[i/per], o, events/2, f))
			}
		}
		_ = okAll
		if len(diffs) > 0 {
			if len(diffs) > 4 {
				diffs = append(diffs[:4], fmt.Sprintf("... %d more", len(diffs)-4))
			}
			c.SpecFail("spec", fmt.Sprintf("%d background handlers under each of two event names, %d lines of the two verbs alternating in one burst", per, events), "", strings.Join(diffs, " | "),
				map[string]interface{}{"op": "two-names-background", "handlers_per_name": per, "events": events})
		}
	}
}

// c04BackgroundRemovers: "removing handlers from within a handler neither deadlocks nor disturbs" holds for background
// handlers too: one that uses its own Remover while it runs, and two of the same event that remove each other, must all
// come back from Remove, run once for that event, and never again.
func c04BackgroundRemovers(c *Ctx) {
	for round := 0; round < c.Pick(2, 6); round++ {
		desc := "background handlers: one removes itself while running, two of the same event remove each other; then two more events"
		c.Journal("C04 " + desc)
		sess, err := newSession(nil, nil)
		if err != nil {
			c.Res.Inconclusive++
			continue
		}
		var ran, back [3]int64
		var rem [3]client.Remover
		var ready sync.WaitGroup
		ready.Add(1)
		for i := 0; i < 3; i++ {
			i := i
			rem[i] = sess.conn.HandleBG("NOTICE", client.HandlerFunc(func(*client.Conn, *client.Line) {
				ready.Wait()
				atomic.AddInt64(&ran[i], 1)
				switch i {
				case 0:
					rem[0].Remove()
				case 1:
					rem[2].Remove()
				case 2:
					rem[1].Remove()
				}
				atomic.AddInt64(&back[i], 1)
			}))
		}
		var stable int64
		sess.conn.HandleBG("notice", client.HandlerFunc(func(*client.Conn, *client.Line) { atomic.AddInt64(&stable, 1) }))
		ready.Done()
		for k := 0; k < 3; k++ {
			sess.srv.SendLine(fmt.Sprintf(":n!u@h NOTICE me :ev%d", k))
			sess.sync(5 * time.Second)
			time.Sleep(5 * time.Millisecond)
		}
		ok := waitFor(func() bool {
			for i := 0; i < 3; i++ {
				if atomic.LoadInt64(&back[i]) < 1 {
					return false
				}
			}
			return atomic.LoadInt64(&stable) >= 3
		}, 3*time.Second)
		sess.close()
		c.Res.Traces++
		c.Res.Evaluations++
		c.Dist("background-removers")
		var diffs []string
		for i := 0; i < 3; i++ {
			if r, b := atomic.LoadInt64(&ran[i]), atomic.LoadInt64(&back[i]); r != 1 || b != 1 {
				diffs = append(diffs, fmt.Sprintf("handler %d ran %d times (Spec: 1) and came back from Remove %d times (Spec: 1)", i, r, b))
			}
		}
		if st := atomic.LoadInt64(&stable); st != 3 {
			diffs = append(diffs, fmt.Sprintf("the handler nobody removed ran %d times for 3 events", st))
		}
		if !ok || len(diffs) > 0 {
			c.SpecFail("spec", desc, "", strings.Join(diffs, " | "), map[string]interface{}{"op": "background-removers"})
		}
	}
}

// c04LoneScribbler: which handlers an event invokes is decided by the event that ARRIVED. A lone foreground handler
// that rewrites the verb of the line it was given (its own copy) changes nothing about who else is invoked: the
// background handlers registered under the real name run once, those under the name it wrote never.
func c04LoneScribbler(c *Ctx) {
	for round := 0; round < c.Pick(2, 6); round++ {
		events := 100
		desc := fmt.Sprintf("one foreground handler for NOTICE that rewrites line.Cmd to PRIVMSG, background handlers under NOTICE and under PRIVMSG, %d NOTICE lines", events)
		c.Journal("C04 " + desc)
		sess, err := newSession(nil, nil)
		if err != nil {
			c.Res.Inconclusive++
			continue
		}
		var real, wrong, fg int64
		sess.conn.HandleFunc("NOTICE", func(_ *client.Conn, l *client.Line) {
			atomic.AddInt64(&fg, 1)
			l.Cmd = "PRIVMSG"
		})
		sess.conn.HandleBG("NOTICE", client.HandlerFunc(func(*client.Conn, *client.Line) { atomic.AddInt64(&real, 1) }))
		sess.conn.HandleBG("PRIVMSG", client.HandlerFunc(func(*client.Conn, *client.Line) { atomic.AddInt64(&wrong, 1) }))
		var sb strings.Builder
		for k := 0; k < events; k++ {
			sb.WriteString(fmt.Sprintf(":n!u@h NOTICE me :%d\r\n", k))
		}
		sess.srv.Send(sb.String())
		synced := sess.sync(20 * time.Second)
		waitFor(func() bool { return atomic.LoadInt64(&real) >= int64(events) }, 2*time.Second)
		sess.close()
		c.Res.Traces++
		c.Res.Evaluations += events
		c.Dist("lone-scribbler")
		if !synced {
			c.Res.Inconclusive++
			continue
		}
		if f, r, w := atomic.LoadInt64(&fg), atomic.LoadInt64(&real), atomic.LoadInt64(&wrong); f != int64(events) || r != int64(events) || w != 0 {
			c.SpecFail("spec", desc, "", fmt.Sprintf("the foreground handler ran %d times, the background handler for NOTICE %d times (Spec: %d each), the background handler for PRIVMSG %d times (Spec: 0)", f, r, events, w),
				map[string]interface{}{"op": "lone-scribbler", "events": events})
		}
	}
}
