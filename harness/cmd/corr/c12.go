package main

import (
	"fmt"
	"sort"
	"strings"

	"github.com/fluffle/goirc/state"

	"verif/harness/drv"
	"verif/harness/gen"
)

func init() {
	register("C12", "operation sequences over the whole Tracker interface (16 methods), names from a small universe that forces collisions ({\"\", me, a, b, c} x {\"\", #x, #y, #z}; thorough adds a 50-name universe) and mode strings over the modelled letters plus unknown ones; after every step the return value, the full public observation (Me, GetNick/GetChannel of every name) and the internal-map dump are compared with the model, and the relational Spec is evaluated on the implementation's answers; a sequence is non-trivial when it reaches a state with >=2 memberships and performs a rename, a deletion or a Dissociate that garbage-collects; distinct by op list", c12)
}

func encPrivs(p *state.ChanPrivs) string {
	b := func(x bool) string {
		if x {
			return "1"
		}
		return "0"
	}
	return b(p.Owner) + b(p.Admin) + b(p.Op) + b(p.HalfOp) + b(p.Voice)
}

func encMemb(m map[string]*state.ChanPrivs) string {
	var parts []string
	for k, p := range m {
		parts = append(parts, drv.H(k)+":"+encPrivs(p))
	}
	sort.Strings(parts)
	return "[" + strings.Join(parts, ";") + "]"
}

func encNick(n *state.Nick) string {
	b := func(x bool) string {
		if x {
			return "1"
		}
		return "0"
	}
	m := n.Modes
	return fmt.Sprintf("N(%s,%s,%s,%s,%s,%s)", drv.H(n.Nick), drv.H(n.Ident), drv.H(n.Host), drv.H(n.Name),
		b(m.Bot)+b(m.Invisible)+b(m.Oper)+b(m.WallOps)+b(m.HiddenHost)+b(m.SSL), encMemb(n.Channels))
}

func encChan(c *state.Channel) string {
	b := func(x bool) string {
		if x {
			return "1"
		}
		return "0"
	}
	m := c.Modes
	return fmt.Sprintf("C(%s,%s,%s,%s,%d,%s)", drv.H(c.Name), drv.H(c.Topic),
		b(m.Private)+b(m.Secret)+b(m.ProtectedTopic)+b(m.NoExternalMsg)+b(m.Moderated)+b(m.InviteOnly)+b(m.OperOnly)+b(m.SSLOnly)+b(m.Registered)+b(m.AllSSL),
		drv.H(m.Key), m.Limit, encMemb(c.Nicks))
}

func retNick(n *state.Nick) string {
	if n == nil {
		return "nick:nil"
	}
	return "nick:" + encNick(n)
}
func retChan(c *state.Channel) string {
	if c == nil {
		return "chan:nil"
	}
	return "chan:" + encChan(c)
}

type tkOp struct {
	name string
	args []string
	list []string
}

func (o tkOp) req() string {
	parts := []string{"tk", o.name}
	for _, a := range o.args {
		parts = append(parts, drv.H(a))
	}
	if o.name == "ChannelModes" {
		parts = append(parts, drv.L(o.list))
	}
	return strings.Join(parts, " ")
}

func (o tkOp) String() string {
	if o.name == "ChannelModes" {
		return fmt.Sprintf("%s(%q,%q)", o.name, o.args, o.list)
	}
	return fmt.Sprintf("%s(%q)", o.name, o.args)
}

// applyTk runs one operation on the real tracker and encodes its return value.
func applyTk(t state.Tracker, o tkOp) (out string) {
	defer func() {
		if r := recover(); r != nil {
			out = "PANIC:" + fmt.Sprint(r)
		}
	}()
	a := o.args
	switch o.name {
	case "NewNick":
		return retNick(t.NewNick(a[0]))
	case "GetNick":
		return retNick(t.GetNick(a[0]))
	case "ReNick":
		return retNick(t.ReNick(a[0], a[1]))
	case "DelNick":
		return retNick(t.DelNick(a[0]))
	case "NickInfo":
		return retNick(t.NickInfo(a[0], a[1], a[2], a[3]))
	case "NickModes":
		return retNick(t.NickModes(a[0], a[1]))
	case "NewChannel":
		return retChan(t.NewChannel(a[0]))
	case "GetChannel":
		return retChan(t.GetChannel(a[0]))
	case "DelChannel":
		return retChan(t.DelChannel(a[0]))
	case "Topic":
		return retChan(t.Topic(a[0], a[1]))
	case "ChannelModes":
		return retChan(t.ChannelModes(a[0], a[1], o.list...))
	case "Me":
		return retNick(t.Me())
	case "IsOn":
		p, ok := t.IsOn(a[0], a[1])
		okb := "0"
		if ok {
			okb = "1"
		}
		if p == nil {
			return "privs:nil," + okb
		}
		return "privs:" + encPrivs(p) + "," + okb
	case "Associate":
		p := t.Associate(a[0], a[1])
		if p == nil {
			return "assoc:nil"
		}
		return "assoc:" + encPrivs(p)
	case "Dissociate":
		t.Dissociate(a[0], a[1])
		return "unit"
	case "Wipe":
		t.Wipe()
		return "unit"
	}
	panic("unknown op " + o.name)
}

// observe builds the public observation of the real tracker over a name universe.
func observe(t state.Tracker, nicks, chans []string) string {
	var ns, cs []string
	for _, n := range nicks {
		if x := t.GetNick(n); x != nil {
			ns = append(ns, encNick(x))
		}
	}
	for _, c := range chans {
		if x := t.GetChannel(c); x != nil {
			cs = append(cs, encChan(x))
		}
	}
	sort.Strings(ns)
	sort.Strings(cs)
	return fmt.Sprintf("me=%s|nicks=[%s]|chans=[%s]", encNick(t.Me()), strings.Join(ns, ";"), strings.Join(cs, ";"))
}

func genTkOp(r *gen.R, nicks, chans []string) tkOp {
	n := func() string { return nicks[r.N(len(nicks))] }
	c := func() string { return chans[r.N(len(chans))] }
	switch r.N(22) {
	case 0, 1:
		return tkOp{name: "NewNick", args: []string{n()}}
	case 2:
		return tkOp{name: "GetNick", args: []string{n()}}
	case 3, 4:
		return tkOp{name: "ReNick", args: []string{n(), n()}}
	case 5:
		return tkOp{name: "DelNick", args: []string{n()}}
	case 6:
		return tkOp{name: "NickInfo", args: []string{n(), r.Pick("id", "", "u"), r.Pick("host", "h2"), r.Pick("Real Name", "")}}
	case 7:
		return tkOp{name: "NickModes", args: []string{n(), r.Bytes(r.N(5), "+-Biowxzq")}}
	case 8, 9:
		return tkOp{name: "NewChannel", args: []string{c()}}
	case 10:
		return tkOp{name: "GetChannel", args: []string{c()}}
	case 11:
		return tkOp{name: "DelChannel", args: []string{c()}}
	case 12:
		return tkOp{name: "Topic", args: []string{c(), r.Pick("a topic", "", "t2")}}
	case 13, 14:
		k := r.N(4)
		var l []string
		for i := 0; i < k; i++ {
			l = append(l, r.Pick(n(), "key", "12", "-5", "99999999999999999999", "+7", "x1", ""))
		}
		if r.P(1, 3) {
			// stacked privilege changes (`MODE #c +ovv alice bob`): several privilege letters in one call, their arguments
			// members and non-members of the channel in any order, names repeated, sometimes fewer arguments than letters
			k = r.Range(1, 5)
			l = nil
			for i := 0; i < k; i++ {
				if i > 0 && r.P(1, 3) {
					l = append(l, l[i-1])
				} else {
					l = append(l, n())
				}
			}
			return tkOp{name: "ChannelModes", args: []string{c(), r.Pick("+", "-", "") + r.Bytes(r.Range(2, 6), "qaohvqaohv+-")}, list: l}
		}
		return tkOp{name: "ChannelModes", args: []string{c(), r.Bytes(r.N(6), "+-imnprstzZOklqaohvbeIx")}, list: l}
	case 15:
		return tkOp{name: "Me"}
	case 16:
		return tkOp{name: "IsOn", args: []string{c(), n()}}
	case 17, 18, 19:
		return tkOp{name: "Associate", args: []string{c(), n()}}
	case 20:
		return tkOp{name: "Dissociate", args: []string{c(), n()}}
	default:
		if r.P(1, 4) {
			return tkOp{name: "Wipe"}
		}
		return tkOp{name: "Dissociate", args: []string{c(), n()}}
	}
}

func tkSequenceCase(ops []tkOp, nicks, chans []string, desc string) Case {
	t := state.NewTracker("me")
	cs := Case{Desc: desc, Reqs: []string{"tk new " + drv.H("me")}, Impl: []string{"ok"}}
	maxMemb := 0
	interesting := false
	var names []string
	for _, o := range ops {
		names = append(names, o.String())
		ret := applyTk(t, o)
		cs.Reqs = append(cs.Reqs, o.req(), "?tk specret "+ret)
		cs.Impl = append(cs.Impl, ret, "")
		obs := observe(t, nicks, chans)
		cs.Reqs = append(cs.Reqs, "tk obs", "?tk specobs "+obs, "tk dump")
		cs.Impl = append(cs.Impl, obs, "", state.VerifDump(t))
		m := 0 // size of the membership relation: entries in the channels' nick maps
		if i := strings.Index(obs, "|chans=["); i >= 0 {
			m = strings.Count(obs[i:], ":")
		}
		if m > maxMemb {
			maxMemb = m
		}
		if maxMemb >= 2 && (o.name == "ReNick" || o.name == "DelNick" || o.name == "DelChannel" || o.name == "Dissociate" || o.name == "Wipe") && !strings.HasSuffix(ret, "nil") {
			interesting = true
		}
	}
	if interesting {
		cs.Tag = fmt.Sprintf("memb>=2+mutation/len=%d", len(ops)/10*10)
	}
	cs.Key = strings.Join(names, ";")
	cs.Desc = desc + ": " + trunc(cs.Key, 300)
	cs.Replay = map[string]interface{}{"op": "tracker-sequence", "me": "me", "ops": names}
	return cs
}

func c12(c *Ctx) {
	nicks := []string{"", "me", "a", "b", "c", "A", "Me"}
	chans := []string{"", "#x", "#y", "#z"}
	var cases []Case
	nseq := c.Pick(1500, 20000)
	for i := 0; i < nseq; i++ {
		n := c.R.Range(5, 60)
		var ops []tkOp
		if c.R.P(2, 3) { // build some state first: channels, nicks, memberships (me on some of them)
			for _, ch := range chans[1:] {
				if c.R.P(2, 3) {
					ops = append(ops, tkOp{name: "NewChannel", args: []string{ch}})
				}
			}
			for _, nk := range nicks[2:] {
				if c.R.P(2, 3) {
					ops = append(ops, tkOp{name: "NewNick", args: []string{nk}})
				}
			}
			for k := c.R.Range(2, 8); k > 0; k-- {
				ops = append(ops, tkOp{name: "Associate", args: []string{chans[c.R.Range(1, len(chans)-1)], nicks[c.R.Range(1, len(nicks)-1)]}})
			}
		}
		for j := 0; j < n; j++ {
			ops = append(ops, genTkOp(c.R, nicks, chans))
		}
		cases = append(cases, tkSequenceCase(ops, nicks, chans, "random walk"))
		if len(cases) >= 300 {
			c.RunCases(cases)
			cases = nil
		}
	}
	if !c.Quick() {
		var bn, bc []string
		bn = append(bn, "", "me")
		bc = append(bc, "")
		for i := 0; i < 40; i++ {
			bn = append(bn, fmt.Sprintf("n%d", i))
		}
		for i := 0; i < 10; i++ {
			bc = append(bc, fmt.Sprintf("#c%d", i))
		}
		for i := 0; i < 1500; i++ {
			n := c.R.Range(100, 400)
			ops := make([]tkOp, n)
			for j := range ops {
				ops[j] = genTkOp(c.R, bn, bc)
			}
			cases = append(cases, tkSequenceCase(ops, bn, bc, "long walk, 50 names"))
			if len(cases) >= 50 {
				c.RunCases(cases)
				cases = nil
			}
		}
	}
	c.RunCases(cases)
}
