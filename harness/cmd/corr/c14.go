package main

import (
	"fmt"
	"os"
	"os/exec"
	"reflect"
	"runtime"
	"strings"
	"sync"
	"sync/atomic"
	"time"

	"github.com/fluffle/goirc/state"

	"verif/harness/drv"
)

func init() {
	register("C14", "(a) after random operation histories on a real tracker every value any method returns (nick and channel snapshots, their mode structs, membership maps, privilege structs) is mutated in every field / entry and the tracker's full observation and internal dump must stay the same, and snapshots kept from earlier must equal their deep copies after further tracker operations; (b) a -race build of a stress program (8 goroutines, all 17 methods, callers scribbling over returned values) must finish without a race report; (c) timed concurrent histories (2-4 goroutines x 3-6 random operations, and 4-7 goroutines released together each doing one operation that fights over the same fresh nick / channel / membership) must be linearizable w.r.t. the relational Spec (Wing-Gong search in the Lean driver); non-trivial = snapshot with at least one membership / history with overlapping operations; distinct by history", c14)
}

// genericScribble mutates everything reachable from v by reflection, whatever fields the types have: strings, bools and
// numbers are overwritten, slice elements overwritten in place (the slice is also re-sliced to its capacity and written
// there), map entries overwritten and one inserted, pointers followed. It complements the hand-written scribblers below,
// which know the present fields: a reference-typed field added later is covered too.
func genericScribble(v reflect.Value, depth int) {
	if depth > 6 || !v.IsValid() {
		return
	}
	switch v.Kind() {
	case reflect.Ptr, reflect.Interface:
		if !v.IsNil() {
			genericScribble(v.Elem(), depth+1)
		}
	case reflect.Struct:
		for i := 0; i < v.NumField(); i++ {
			if v.Field(i).CanSet() {
				genericScribble(v.Field(i), depth+1)
			}
		}
	case reflect.String:
		if v.CanSet() {
			v.SetString("scribble")
		}
	case reflect.Bool:
		if v.CanSet() {
			v.SetBool(!v.Bool())
		}
	case reflect.Int, reflect.Int64, reflect.Int32:
		if v.CanSet() {
			v.SetInt(v.Int() + 77)
		}
	case reflect.Slice:
		full := v
		if v.CanSet() && v.Cap() > v.Len() {
			full = v.Slice(0, v.Cap())
		}
		for i := 0; i < full.Len(); i++ {
			genericScribble(full.Index(i), depth+1)
		}
	case reflect.Map:
		for _, k := range v.MapKeys() {
			e := v.MapIndex(k)
			if e.Kind() == reflect.Ptr || e.Kind() == reflect.Map || e.Kind() == reflect.Slice {
				genericScribble(e, depth+1)
			} else {
				n := reflect.New(e.Type()).Elem()
				n.Set(e)
				genericScribble(n, depth+1)
				v.SetMapIndex(k, n)
			}
		}
	}
}

// genericDeep is a reflection deep copy (pointers, maps, slices, structs) of the values the tracker returns
func genericDeep(v reflect.Value) reflect.Value {
	switch v.Kind() {
	case reflect.Ptr:
		if v.IsNil() {
			return v
		}
		n := reflect.New(v.Type().Elem())
		n.Elem().Set(genericDeep(v.Elem()))
		return n
	case reflect.Struct:
		n := reflect.New(v.Type()).Elem()
		n.Set(v)
		for i := 0; i < v.NumField(); i++ {
			if n.Field(i).CanSet() {
				n.Field(i).Set(genericDeep(v.Field(i)))
			}
		}
		return n
	case reflect.Slice:
		if v.IsNil() {
			return v
		}
		n := reflect.MakeSlice(v.Type(), v.Len(), v.Len())
		for i := 0; i < v.Len(); i++ {
			n.Index(i).Set(genericDeep(v.Index(i)))
		}
		return n
	case reflect.Map:
		if v.IsNil() {
			return v
		}
		n := reflect.MakeMap(v.Type())
		for _, k := range v.MapKeys() {
			n.SetMapIndex(k, genericDeep(v.MapIndex(k)))
		}
		return n
	}
	return v
}

// snapAll: deep copies of fresh snapshots of everything in the universe (whatever fields they have)
func snapAll(t state.Tracker, nicks, chans []string) map[string]interface{} {
	out := map[string]interface{}{}
	for _, n := range nicks {
		if x := t.GetNick(n); x != nil {
			out["n:"+n] = genericDeep(reflect.ValueOf(x)).Interface()
		}
	}
	for _, ch := range chans {
		if x := t.GetChannel(ch); x != nil {
			out["c:"+ch] = genericDeep(reflect.ValueOf(x)).Interface()
		}
	}
	return out
}

// scribble mutates everything reachable from a returned value.
func scribbleNick(n *state.Nick) {
	if n == nil {
		return
	}
	n.Nick, n.Ident, n.Host, n.Name = "X", "X", "X", "X"
	if n.Modes != nil {
		*n.Modes = state.NickMode{Bot: true, Invisible: true, Oper: true, WallOps: true, HiddenHost: true, SSL: true}
	}
	for k, p := range n.Channels {
		*p = state.ChanPrivs{Owner: true, Admin: true, Op: true, HalfOp: true, Voice: true}
		n.Channels[k+"-dup"] = p
	}
	n.Channels["injected"] = &state.ChanPrivs{Op: true}
	for k := range n.Channels {
		if len(k)%2 == 0 {
			delete(n.Channels, k)
		}
	}
}
func scribbleChan(c *state.Channel) {
	if c == nil {
		return
	}
	c.Name, c.Topic = "X", "X"
	if c.Modes != nil {
		*c.Modes = state.ChanMode{Private: true, Secret: true, Key: "X", Limit: 99, Moderated: true}
	}
	for k, p := range c.Nicks {
		*p = state.ChanPrivs{Owner: true, Admin: true, Op: true, HalfOp: true, Voice: true}
		c.Nicks[k+"-dup"] = p
	}
	c.Nicks["injected"] = &state.ChanPrivs{Voice: true}
}

func deepNick(n *state.Nick) *state.Nick {
	if n == nil {
		return nil
	}
	d := *n
	if n.Modes != nil {
		m := *n.Modes
		d.Modes = &m
	}
	d.Channels = map[string]*state.ChanPrivs{}
	for k, p := range n.Channels {
		c := *p
		d.Channels[k] = &c
	}
	return &d
}
func deepChan(c *state.Channel) *state.Channel {
	if c == nil {
		return nil
	}
	d := *c
	if c.Modes != nil {
		m := *c.Modes
		d.Modes = &m
	}
	d.Nicks = map[string]*state.ChanPrivs{}
	for k, p := range c.Nicks {
		x := *p
		d.Nicks[k] = &x
	}
	return &d
}

func c14Snapshots(c *Ctx) {
	nicks := []string{"", "me", "a", "b", "c"}
	chans := []string{"", "#x", "#y", "#z"}
	for i := 0; i < c.Pick(400, 5000); i++ {
		t := state.NewTracker("me")
		var descs []string
		type keptN struct{ live, copy *state.Nick }
		type keptC struct{ live, copy *state.Channel }
		var oldN []keptN
		var oldC []keptC
		n := c.R.Range(8, 50)
		nontrivial := false
		for j := 0; j < n; j++ {
			var o tkOp
			if j < 8 && c.R.P(2, 3) {
				switch j % 3 {
				case 0:
					o = tkOp{name: "NewChannel", args: []string{chans[c.R.Range(1, 3)]}}
				case 1:
					o = tkOp{name: "NewNick", args: []string{nicks[c.R.Range(2, 4)]}}
				default:
					o = tkOp{name: "Associate", args: []string{chans[c.R.Range(1, 3)], nicks[c.R.Range(1, 4)]}}
				}
			} else {
				o = genTkOp(c.R, nicks, chans)
			}
			descs = append(descs, o.String())
			before := observe(t, nicks, chans) + "||" + state.VerifDump(t)
			// run the op, keeping the returned value itself
			var rn *state.Nick
			var rc *state.Channel
			var rp *state.ChanPrivs
			a := o.args
			switch o.name {
			case "NewNick":
				rn = t.NewNick(a[0])
			case "GetNick":
				rn = t.GetNick(a[0])
			case "ReNick":
				rn = t.ReNick(a[0], a[1])
			case "DelNick":
				rn = t.DelNick(a[0])
			case "NickInfo":
				rn = t.NickInfo(a[0], a[1], a[2], a[3])
			case "NickModes":
				rn = t.NickModes(a[0], a[1])
			case "NewChannel":
				rc = t.NewChannel(a[0])
			case "GetChannel":
				rc = t.GetChannel(a[0])
			case "DelChannel":
				rc = t.DelChannel(a[0])
			case "Topic":
				rc = t.Topic(a[0], a[1])
			case "ChannelModes":
				rc = t.ChannelModes(a[0], a[1], o.list...)
			case "Me":
				rn = t.Me()
			case "IsOn":
				rp, _ = t.IsOn(a[0], a[1])
			case "Associate":
				rp = t.Associate(a[0], a[1])
			case "Dissociate":
				t.Dissociate(a[0], a[1])
			case "Wipe":
				t.Wipe()
			}
			_ = before
			after := observe(t, nicks, chans) + "||" + state.VerifDump(t)
			afterSnap := snapAll(t, nicks, chans)
			// keep the returned value and a deep copy of it for later
			if rn != nil {
				if len(rn.Channels) > 0 {
					nontrivial = true
				}
				if c.R.Bool() {
					oldN = append(oldN, keptN{rn, genericDeep(reflect.ValueOf(rn)).Interface().(*state.Nick)})
				} else if c.R.Bool() {
					scribbleNick(rn)
				} else {
					genericScribble(reflect.ValueOf(rn), 0)
				}
			}
			if rc != nil {
				if len(rc.Nicks) > 0 {
					nontrivial = true
				}
				if c.R.Bool() {
					oldC = append(oldC, keptC{rc, genericDeep(reflect.ValueOf(rc)).Interface().(*state.Channel)})
				} else if c.R.Bool() {
					scribbleChan(rc)
				} else {
					genericScribble(reflect.ValueOf(rc), 0)
				}
			}
			if rp != nil {
				*rp = state.ChanPrivs{Owner: true, Admin: true, Op: true, HalfOp: true, Voice: true}
			}
			// changing returned values never alters tracker state
			after2 := observe(t, nicks, chans) + "||" + state.VerifDump(t)
			if after2 == after && !reflect.DeepEqual(afterSnap, snapAll(t, nicks, chans)) {
				after2 += " (fresh snapshots differ in a field the textual observation does not show)"
			}
			if after2 != after {
				c.SpecFail("spec", "history "+strings.Join(descs, "; "), "", "mutating the value returned by "+o.String()+" changed the tracker: "+trunc(after, 300)+" -> "+trunc(after2, 300),
					map[string]interface{}{"op": "snapshot-mutation", "ops": descs})
				break
			}
			// later tracker changes never alter a value returned earlier
			for _, k := range oldN {
				if !reflect.DeepEqual(k.live, k.copy) {
					c.SpecFail("spec", "history "+strings.Join(descs, "; "), "", fmt.Sprintf("a Nick snapshot returned earlier changed after %s: %+v vs %+v", o.String(), k.live, k.copy),
						map[string]interface{}{"op": "snapshot-aging", "ops": descs})
					oldN = nil
					break
				}
			}
			for _, k := range oldC {
				if !reflect.DeepEqual(k.live, k.copy) {
					c.SpecFail("spec", "history "+strings.Join(descs, "; "), "", fmt.Sprintf("a Channel snapshot returned earlier changed after %s", o.String()),
						map[string]interface{}{"op": "snapshot-aging", "ops": descs})
					oldC = nil
					break
				}
			}
		}
		c.Res.Evaluations++
		key := strings.Join(descs, ";")
		if nontrivial {
			c.Dist("tag:snapshots-with-memberships")
			if !c.seen[key] {
				c.seen[key] = true
				c.Res.Distinct++
			}
		} else {
			c.Dist("tag:(trivial)")
		}
		if len(c.Res.Samples) < 2 && nontrivial {
			c.Res.Samples = append(c.Res.Samples, map[string]interface{}{"case": "snapshot isolation after: " + trunc(key, 300), "tag": "snapshots"})
		}
	}
}

type timedOp struct {
	call, ret int64
	op        tkOp
	retS      string
}

// linHistory runs the plans concurrently (one goroutine each, released together by a spin barrier) on a fresh
// tracker after the sequential prefix and returns the timed history as a linearizability case.
func linHistory(prefix []tkOp, plans [][]tkOp, label string) Case {
	t := state.NewTracker("me")
	var hist []timedOp
	t0 := time.Now()
	now := func() int64 { return int64(time.Since(t0)) }
	var mu sync.Mutex
	run := func(o tkOp) {
		cl := now()
		r := applyTk(t, o)
		rt := now()
		mu.Lock()
		hist = append(hist, timedOp{cl, rt, o, r})
		mu.Unlock()
	}
	for _, o := range prefix {
		run(o)
	}
	var wg sync.WaitGroup
	var ready, goFlag int32
	for g := range plans {
		wg.Add(1)
		go func(g int) {
			defer wg.Done()
			atomic.AddInt32(&ready, 1)
			for atomic.LoadInt32(&goFlag) == 0 {
			}
			for _, o := range plans[g] {
				run(o)
			}
		}(g)
	}
	for atomic.LoadInt32(&ready) < int32(len(plans)) {
		runtime.Gosched()
	}
	atomic.StoreInt32(&goFlag, 1)
	wg.Wait()
	overlap := false
	var toks, descs []string
	for a, x := range hist {
		for b, y := range hist {
			if a != b && x.call < y.ret && y.call < x.ret {
				overlap = true
			}
		}
		var args []string
		for _, s := range x.op.args {
			args = append(args, drv.H(s))
		}
		if x.op.name == "ChannelModes" {
			args = append(args, drv.L(x.op.list))
		}
		toks = append(toks, fmt.Sprintf("%d|%d|%s|%s|%s", x.call, x.ret, x.op.name, strings.Join(args, "/"), x.retS))
		descs = append(descs, fmt.Sprintf("[%d,%d] %s -> %s", x.call, x.ret, x.op.String(), trunc(x.retS, 40)))
	}
	tag := ""
	if overlap {
		tag = fmt.Sprintf("%s/threads=%d", label, len(plans))
	}
	return Case{Desc: label + " concurrent history: " + trunc(strings.Join(descs, " ; "), 600), Spec: []string{"lin " + drv.H("me") + " " + strings.Join(toks, " ")},
		Tag: tag, Key: strings.Join(toks, " "), Replay: map[string]interface{}{"op": "concurrent-history", "kind": label, "ops": descs}}
}

func c14Linearizable(c *Ctx) {
	nicks := []string{"me", "a", "b"}
	chans := []string{"#x", "#y"}
	prefix := []tkOp{{name: "NewChannel", args: []string{"#x"}}, {name: "NewNick", args: []string{"a"}}, {name: "Associate", args: []string{"#x", "me"}}}
	var cases []Case
	for i := 0; i < c.Pick(150, 2500); i++ {
		threads := c.R.Range(2, 4)
		per := c.R.Range(3, 6)
		plans := make([][]tkOp, threads)
		for g := range plans {
			for k := 0; k < per; k++ {
				plans[g] = append(plans[g], genTkOp(c.R, nicks, chans))
			}
		}
		cases = append(cases, linHistory(prefix, plans, "overlapping"))
	}
	c.RunCases(cases)
	// contended histories: 4..7 goroutines released together, each doing ONE operation out of a small set that
	// all fight over the same not-yet-tracked nick / channel / membership: check-then-act windows inside a single
	// method (a duplicate test and the insertion done in two critical sections) only show here
	cases = nil
	fight := [][]tkOp{
		{{name: "NewNick", args: []string{"z"}}},
		{{name: "NewChannel", args: []string{"#z"}}},
		{{name: "Associate", args: []string{"#x", "a"}}},
		{{name: "ReNick", args: []string{"a", "z"}}, {name: "NewNick", args: []string{"z"}}},
		{{name: "DelNick", args: []string{"a"}}},
		{{name: "Dissociate", args: []string{"#x", "me"}}},
		{{name: "DelChannel", args: []string{"#x"}}},
		{{name: "NewNick", args: []string{"z"}}, {name: "DelNick", args: []string{"z"}}, {name: "GetNick", args: []string{"z"}}},
		{{name: "Associate", args: []string{"#x", "a"}}, {name: "Dissociate", args: []string{"#x", "a"}}, {name: "IsOn", args: []string{"#x", "a"}}},
	}
	for i := 0; i < c.Pick(1500, 20000); i++ {
		set := fight[c.R.N(len(fight))]
		threads := c.R.Range(4, 7)
		plans := make([][]tkOp, threads)
		for g := range plans {
			plans[g] = []tkOp{set[c.R.N(len(set))]}
		}
		cases = append(cases, linHistory(prefix, plans, "contended"))
	}
	c.RunCases(cases)
}

func c14Race(c *Ctx) {
	bin := "/verif/harness/bin/racer"
	if p := os.Getenv("VERIF_RACER"); p != "" {
		bin = p
	}
	if _, err := os.Stat(bin); err != nil {
		c.Res.Notes = append(c.Res.Notes, "race-enabled stress binary not built (cgo unavailable?): race detector stage skipped")
		c.Res.Inconclusive++
		return
	}
	for i := 0; i < c.Pick(1, 4); i++ {
		cmd := exec.Command(bin, fmt.Sprint(c.Seed+uint64(i)), fmt.Sprint(c.Pick(700, 3000)))
		cmd.Env = append(os.Environ(), "GORACE=halt_on_error=1 exitcode=66")
		out, err := cmd.CombinedOutput()
		c.Res.Evaluations++
		c.Res.Traces++
		c.Dist("race-run")
		if err != nil {
			txt := string(out)
			if len(txt) > 2500 {
				txt = txt[:2500]
			}
			if strings.Contains(txt, "DATA RACE") {
				c.SpecFail("spec", "race detector run of the tracker stress program", "", txt, map[string]interface{}{"op": "race-run", "seed": c.Seed + uint64(i)})
			} else {
				c.SpecFail("crash", "tracker stress program crashed", "", txt, map[string]interface{}{"op": "race-run", "seed": c.Seed + uint64(i)})
			}
		} else {
			c.Res.Notes = append(c.Res.Notes, "race run ok, operations executed: "+strings.TrimSpace(string(out)))
		}
	}
}

func c14(c *Ctx) {
	c14Snapshots(c)
	c14Linearizable(c)
	c14Race(c)
}
