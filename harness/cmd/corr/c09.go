package main

import (
	"fmt"
	"strconv"
	"strings"
	"sync"
	"time"

	"github.com/fluffle/goirc/client"

	"verif/harness/drv"
	"verif/harness/memconn"
)

func init() {
	register("C09", "real connections (flood control off) with 1..32 concurrent senders - user goroutines, a foreground handler and background handlers - each issuing 1..2000 lines that carry (sender, sequence number, pseudo-random payload of 1..40 bytes, every 23rd one of 500..1700 bytes), plus the internal PING handler as one more sender (the server pings up to 150 times while the others are busy), the server end reading fast, slowly (gated writes) or in bursts, GOMAXPROCS 1..16; the wire transcript is parsed back, payload bytes are compared exactly, and Spec.Send (per-sender order, once each, complete) is evaluated by the driver on the (sender, seq) sequence; non-trivial = >=2 senders; distinct by (senders, lines, pacing, seed)", c09)
}

func c09Payload(sender, seq int) string {
	// deterministic payload with awkward but legal bytes (no CR/LF/NUL)
	n := (sender*7+seq*13)%40 + 1
	if (sender+seq)%23 == 5 { // now and then a line longer than the 512 bytes of the RFC: still byte for byte
		n = 500 + (sender*131+seq*17)%1200
	}
	b := make([]byte, n)
	x := uint32(sender*2654435761 + seq*40503 + 12345)
	for i := range b {
		x = x*1664525 + 1013904223
		c := byte(33 + (x>>24)%94)
		b[i] = c
	}
	return string(b)
}

// c09Form: which command method user-goroutine sender s uses for its q-th line (long payloads would be split by
// Privmsg / Notice, so those go through Raw)
func c09Form(s, q int) int {
	if s < 3 || (s+q)%23 == 5 {
		return 0
	}
	return (s*5 + q) % 8
}

var c09Headers = []string{"PRIVMSG #c :", "PRIVMSG #c :", "PONG :", "NOTICE #c :", "PING :", "TOPIC #c :", "AWAY :", "PONG :"}

// c09Strip recognises one of our numbered lines whatever command carried it and returns what follows the "s"
func c09Strip(l string) (string, bool) {
	for _, h := range []string{"PRIVMSG #c :s", "PONG :s", "NOTICE #c :s", "PING :s", "TOPIC #c :s", "AWAY :s"} {
		if strings.HasPrefix(l, h) && len(l) > len(h) && l[len(h)] >= '0' && l[len(h)] <= '9' {
			return strings.TrimPrefix(l, h), true
		}
	}
	return "", false
}

func c09Session(c *Ctx, nSenders, perSender int, pacing string, procs int) {
	desc := fmt.Sprintf("send session senders=%d lines=%d pacing=%s", nSenders, perSender, pacing)
	rp := map[string]interface{}{"op": "send-session", "senders": nSenders, "lines_each": perSender, "pacing": pacing}
	c.Journal(desc)
	// Config.Timeout is documented as the dial / ping timeout, 0 meaning "wait indefinitely"; it must have no bearing on
	// whether a line handed to a connected client is written: sessions run with 0, 1 ms and the default
	tmo := []time.Duration{5 * time.Second, 0, time.Millisecond, 60 * time.Second}[(nSenders+perSender+int(c.Seed))%4]
	desc += fmt.Sprintf(" timeout=%v", tmo)
	rp["timeout_ns"] = int64(tmo)
	sess, err := newSession(func(cfg *client.Config) { cfg.Timeout = tmo }, nil)
	if err != nil {
		c.Res.Inconclusive++
		return
	}
	conn := sess.conn
	var gate chan struct{}
	stopPace := make(chan struct{})
	if pacing != "fast" {
		gate = sess.srv.GateWrites()
		go func() {
			for {
				select {
				case <-stopPace:
					for i := 0; i < 1<<16; i++ {
						select {
						case gate <- struct{}{}:
						default:
							return
						}
					}
					return
				default:
				}
				if pacing == "slow" {
					gate <- struct{}{}
					time.Sleep(50 * time.Microsecond)
				} else { // bursts
					for i := 0; i < 40; i++ {
						gate <- struct{}{}
					}
					time.Sleep(2 * time.Millisecond)
				}
			}
		}()
	}
	if tmo > 0 && tmo <= 5*time.Millisecond {
		// with a tiny Config.Timeout the peer now and then stops reading in the MIDDLE of a line for longer than that
		// (a few bytes go through, the rest later): slow is not down, and what was written once is not written again
		desc += " (peer stalls in mid-line for 3 x timeout now and then)"
		rp["mid_line_stalls"] = true
		go func() {
			for k := 0; k < 40; k++ { // forty stalls of 3 x timeout: enough to meet every kind of line, little enough not to slow a long session down
				select {
				case <-stopPace:
					return
				default:
				}
				sess.srv.StallNextWrite(1+k%9, 3*tmo)
				time.Sleep(300 * time.Microsecond)
			}
		}()
	}
	line := func(s, q int) string { return fmt.Sprintf("PRIVMSG #c :s%d-%d-%s", s, q, c09Payload(s, q)) }
	// user goroutines issue their lines through different command methods (the property is about "every line handed
	// to the client", not about Raw): the form is a function of (sender, sequence number), so the wire can be checked
	issue := func(s, q int) {
		body := fmt.Sprintf("s%d-%d-%s", s, q, c09Payload(s, q))
		switch c09Form(s, q) {
		case 1:
			conn.Privmsg("#c", body)
		case 2:
			conn.Pong(body)
		case 3:
			conn.Notice("#c", body)
		case 4:
			conn.Ping(body)
		case 5:
			conn.Topic("#c", body)
		case 6:
			conn.Away(body)
		case 7:
			conn.Raw("PONG :" + body)
		default:
			conn.Raw("PRIVMSG #c :" + body)
		}
	}
	var wg sync.WaitGroup
	// sender 0 is a foreground handler, senders 1..2 background handlers (triggered by server lines), the rest user goroutines
	hcount := 0
	if nSenders >= 3 {
		hcount = 3
	}
	mkHandler := func(s int) client.HandlerFunc {
		return func(cn *client.Conn, l *client.Line) {
			q, _ := strconv.Atoi(l.Text())
			cn.Raw(line(s, q))
		}
	}
	if hcount > 0 {
		conn.HandleFunc("NOTICE", mkHandler(0))
		// background handlers run concurrently with each other and out of order between events, so each
		// background *invocation* is its own sender only for one line; to keep per-sender order meaningful we
		// serialise each background sender with a mutex-protected counter
		for s := 1; s <= 2; s++ {
			s := s
			var mu sync.Mutex
			next := 0
			conn.HandleBG("NOTICE", client.HandlerFunc(func(cn *client.Conn, _ *client.Line) {
				mu.Lock()
				defer mu.Unlock()
				cn.Raw(line(s, next))
				next++
			}))
		}
	}
	for s := hcount; s < nSenders; s++ {
		wg.Add(1)
		go func(s int) {
			defer wg.Done()
			for q := 0; q < perSender; q++ {
				if s >= 3 {
					issue(s, q)
				} else {
					conn.Raw(line(s, q))
				}
			}
		}(s)
	}
	// the internal PING handler is one more sender: the server pings while the others are busy (and, with gated
	// writes, while the send goroutine sits inside a write), and every PING must produce exactly one PONG line,
	// in order, written by the same single writer as everything else
	npings := perSender
	if npings > 150 {
		npings = 150
	}
	if hcount > 0 {
		for q := 0; q < perSender; q++ {
			sess.srv.SendLine(fmt.Sprintf(":n!u@h NOTICE me :%d", q))
			if q < npings {
				sess.srv.SendLine(fmt.Sprintf("PING :p%d", q))
			}
		}
	} else {
		for q := 0; q < npings; q++ {
			sess.srv.SendLine(fmt.Sprintf("PING :p%d", q))
			if q%8 == 7 {
				time.Sleep(200 * time.Microsecond)
			}
		}
	}
	sendersDone := make(chan struct{})
	go func() { wg.Wait(); close(sendersDone) }()
	stuck := false
	select {
	case <-sendersDone:
	case <-time.After(45 * time.Second):
		stuck = true // the queue is not being emptied any more: analyse what did reach the wire, then report
	}
	total := nSenders*perSender + npings
	// wait until everything has been written (connection stays up): a sync marker after the last line
	ok := sess.srv.WaitLine(0, func(string) bool { return false }, 0) >= 0
	_ = ok
	deadline := time.Now().Add(20 * time.Second)
	count := func() int {
		n := 0
		for _, l := range sess.srv.Lines() {
			if strings.HasPrefix(l, "PONG :p") {
				n++
			} else if _, ok := c09Strip(l); ok {
				n++
			}
		}
		return n
	}
	for count() < total && time.Now().Before(deadline) && !stuck {
		time.Sleep(time.Millisecond)
	}
	complete := count() >= total
	close(stopPace)
	raw := sess.srv.Raw()
	lines := sess.srv.Lines()
	if stuck {
		c.SpecFail("spec", desc, "", fmt.Sprintf("senders are still blocked in Raw() 45s after the server began reading (Connected()=%v, %d of %d lines on the wire, server end never closed or failed): queued lines are not being written", conn.Connected(), count(), total), rp)
		go sess.close()
	} else {
		sess.close()
	}
	c.Res.Traces++
	// parse the transcript back
	var wire []string
	for _, l := range lines {
		if strings.HasPrefix(l, "PONG :p") {
			q, e := strconv.Atoi(strings.TrimPrefix(l, "PONG :p"))
			if e != nil {
				c.SpecFail("spec", desc, "", "garbled PONG on the wire: "+trunc(l, 80), rp)
				return
			}
			wire = append(wire, fmt.Sprintf("%d:%d", nSenders, q))
			continue
		}
		rest, isOurs := c09Strip(l)
		if !isOurs {
			if l != "" && !strings.HasPrefix(l, "NICK ") && !strings.HasPrefix(l, "USER ") && !strings.HasPrefix(l, "PING :sync") && !strings.HasPrefix(l, "PONG :sync") && !strings.HasPrefix(l, "CAP ") && !strings.HasPrefix(l, "PASS ") {
				c.SpecFail("spec", desc, "", "a line nobody issued is on the wire: "+trunc(l, 80), rp)
				return
			}
			continue // registration lines, sync markers
		}
		p := strings.SplitN(rest, "-", 3)
		if len(p) != 3 {
			c.SpecFail("spec", desc, "", "garbled line on the wire: "+trunc(l, 80), rp)
			return
		}
		s, e1 := strconv.Atoi(p[0])
		q, e2 := strconv.Atoi(p[1])
		if e1 != nil || e2 != nil || p[2] != c09Payload(s, q) || (s >= 3 && l != c09Headers[c09Form(s, q)]+"s"+rest) || (s < 3 && !strings.HasPrefix(l, "PRIVMSG #c :s")) {
			c.SpecFail("spec", desc, "", "line not written byte for byte: "+trunc(l, 80), rp)
			return
		}
		wire = append(wire, fmt.Sprintf("%d:%d", s, q))
	}
	if !strings.HasSuffix(raw, "\r\n") && raw != "" {
		c.SpecFail("spec", desc, "", "transcript does not end in CRLF", rp)
	}
	var issued []string
	for s := 0; s < nSenders; s++ {
		issued = append(issued, fmt.Sprintf("%d:%d", s, perSender))
	}
	issued = append(issued, fmt.Sprintf("%d:%d", nSenders, npings))
	final := "1"
	if !complete {
		final = "0"
		c.Res.Inconclusive++
		c.Dist("incomplete-within-deadline")
	}
	w := "_"
	if len(wire) > 0 {
		w = strings.Join(wire, ",")
	}
	tag := ""
	if nSenders >= 2 {
		tag = fmt.Sprintf("senders=%d/pacing=%s", nSenders, pacing)
	}
	cs := Case{Desc: desc, Spec: []string{"spec09 " + final + " " + strings.Join(issued, ",") + " " + w}, Tag: tag,
		Key: fmt.Sprintf("%s/%d/%d", desc, procs, c.Seed), Replay: rp}
	_ = drv.H
	c.RunCases([]Case{cs})
}

// c09DoubleConnect: two goroutines call Connect at the same time while the dial is slow (a supervisor loop and a
// DISCONNECTED handler both trying to reconnect, say). Whatever each call returns, the lines one goroutine issues
// afterwards must reach a server exactly once each and in order: there is one outgoing pipeline per client.
func c09DoubleConnect(c *Ctx) {
	for k := 0; k < c.Pick(3, 12); k++ {
		url, conns := memconn.Listen()
		memconn.PresetDialDelay(url, time.Duration(c.R.Range(5, 40))*time.Millisecond)
		cfg := client.NewConfig("me", "ident", "Real")
		cfg.Server, cfg.Proxy, cfg.Flood, cfg.PingFreq = "irc.test", url, true, 0
		conn := client.Client(cfg)
		desc := "two concurrent Connect calls during a slow dial, then 300 numbered lines from one goroutine"
		rp := map[string]interface{}{"op": "double-connect-send"}
		c.Journal("C09 " + desc)
		errs := make(chan error, 2)
		for i := 0; i < 2; i++ {
			go func() { errs <- conn.Connect() }()
		}
		e1, e2 := <-errs, <-errs
		if e1 != nil && e2 != nil {
			c.Res.Inconclusive++
			continue
		}
		var srvs []*memconn.Conn
	collect:
		for {
			select {
			case s := <-conns:
				srvs = append(srvs, s)
			case <-time.After(50 * time.Millisecond):
				break collect
			}
		}
		const n = 300
		for q := 0; q < n; q++ {
			conn.Privmsg("#c", fmt.Sprintf("seq-%d", q))
		}
		conn.Raw("PING :end-of-run")
		deadline := time.Now().Add(10 * time.Second)
		var got []string
		for time.Now().Before(deadline) {
			got = got[:0]
			end := false
			for _, s := range srvs {
				for _, l := range s.Lines() {
					if strings.HasPrefix(l, "PRIVMSG #c :seq-") {
						got = append(got, strings.TrimPrefix(l, "PRIVMSG #c :seq-"))
					}
					end = end || l == "PING :end-of-run"
				}
			}
			if end || !conn.Connected() {
				break
			}
			time.Sleep(time.Millisecond)
		}
		time.Sleep(5 * time.Millisecond)
		c.Res.Traces++
		c.Res.Evaluations++
		c.Dist(fmt.Sprintf("tag:double-connect/succeeded=%d/dials=%d", btoi(e1 == nil)+btoi(e2 == nil), len(srvs)))
		bad := ""
		if len(got) != n {
			bad = fmt.Sprintf("%d of the %d lines reached a server (Connected()=%v, %d dials, Connect returned %v and %v)", len(got), n, conn.Connected(), len(srvs), e1, e2)
		}
		for i, g := range got {
			if g != fmt.Sprint(i) && bad == "" {
				bad = fmt.Sprintf("line %d on the wire is seq-%s (lines of one goroutine out of order or duplicated; %d dials)", i, g, len(srvs))
			}
		}
		if bad != "" {
			c.SpecFail("spec", desc, "", bad, rp)
		}
		go conn.Close()
	}
}

// c09Reconnect: history on the same client. On a first connection the server stops reading, a line is in flight
// inside the socket write when the application calls Close; the client then connects again and two goroutines send
// numbered lines. The second server must see the registration, then exactly those lines, per sender in order - and
// nothing that was handed to the client on the first connection.
func c09Reconnect(c *Ctx) {
	for k := 0; k < c.Pick(3, 12); k++ {
		desc := "a line in flight in the socket write at Close, reconnect, then 2 x 50 numbered lines"
		rp := map[string]interface{}{"op": "reconnect-after-blocked-write"}
		c.Journal("C09 " + desc)
		url, conns := memconn.Listen()
		gate := memconn.PresetGateWrites(url)
		cfg := client.NewConfig("me", "ident", "Real")
		cfg.Server, cfg.Proxy, cfg.Flood, cfg.PingFreq = "irc.test", url, true, 0
		conn := client.Client(cfg)
		// every other run: the first connection ends (EOF) while a foreground handler of it is still at work, and the
		// application's supervisor calls Connect at once; the handler returns a little later
		busy := k%2 == 1
		release := make(chan struct{})
		entered := make(chan struct{}, 1)
		if busy {
			desc = "the first connection ends (EOF) while one of its foreground handlers is still at work, another goroutine reconnects at once, then 2 x 50 numbered lines"
			rp["op"] = "reconnect-while-old-handler-runs"
			conn.HandleFunc("NOTICE", func(_ *client.Conn, l *client.Line) {
				if l.Text() == "hold" {
					entered <- struct{}{}
					<-release
				}
			})
		}
		if conn.Connect() != nil {
			c.Res.Inconclusive++
			continue
		}
		srv1 := <-conns
		gate <- struct{}{} // NICK
		gate <- struct{}{} // USER
		srv1.WaitLines(2, 3*time.Second)
		if busy {
			srv1.SendLine(":n!u@h NOTICE me :hold")
			select {
			case <-entered:
			case <-time.After(3 * time.Second):
			}
			srv1.EOF()
			time.AfterFunc(40*time.Millisecond, func() { close(release) })
		} else {
			nOld := c.R.Range(1, 5)
			for i := 0; i < nOld; i++ {
				conn.Raw(fmt.Sprintf("PRIVMSG #old :line %d handed over on the first connection", i))
			}
			time.Sleep(3 * time.Millisecond) // the first of them is now inside the gated write
			if !withTimeout(5*time.Second, func() { conn.Close() }) {
				c.Res.Inconclusive++
				continue
			}
		}
		for i := 0; i < 64; i++ { // the second connection's socket is not gated any more in effect
			gate <- struct{}{}
		}
		if busy { // Connect is refused while the flag is still up: the supervisor polls
			waitFor(func() bool { return !conn.Connected() }, 3*time.Second)
		}
		go func() {
			for {
				select {
				case gate <- struct{}{}:
				case <-time.After(5 * time.Second):
					return
				}
			}
		}()
		if conn.Connect() != nil {
			c.Res.Inconclusive++
			continue
		}
		srv2 := <-conns
		var wg sync.WaitGroup
		for s := 0; s < 2; s++ {
			wg.Add(1)
			go func(s int) {
				defer wg.Done()
				for q := 0; q < 50; q++ {
					conn.Privmsg("#new", fmt.Sprintf("s%d-%d", s, q))
				}
			}(s)
		}
		wg.Wait()
		conn.Raw("PING :end-of-run")
		srv2.WaitLine(0, func(l string) bool { return l == "PING :end-of-run" }, 10*time.Second)
		lines := srv2.Lines()
		go conn.Close()
		c.Res.Traces++
		c.Res.Evaluations++
		c.Dist("tag:reconnect-after-blocked-write")
		next := []int{0, 0}
		bad := ""
		for i, l := range lines {
			switch {
			case strings.HasPrefix(l, "NICK ") || strings.HasPrefix(l, "USER ") || l == "PING :end-of-run":
			case strings.HasPrefix(l, "PRIVMSG #new :s"):
				var s, q int
				fmt.Sscanf(strings.TrimPrefix(l, "PRIVMSG #new :s"), "%d-%d", &s, &q)
				if s < 0 || s > 1 || q != next[s] {
					bad = fmt.Sprintf("wire line %d of the second connection is %q: sender %d's lines are not in issue order, once each", i, trunc(l, 60), s)
				} else {
					next[s]++
				}
			default:
				bad = fmt.Sprintf("wire line %d of the second connection was never handed to the client on it: %q", i, trunc(l, 80))
			}
			if bad != "" {
				break
			}
		}
		if bad == "" && (next[0] != 50 || next[1] != 50) && conn.Connected() {
			bad = fmt.Sprintf("only %d + %d of the 2 x 50 lines reached the second server", next[0], next[1])
		}
		if bad != "" {
			c.SpecFail("spec", desc, "", bad, rp)
		}
	}
}

func btoi(b bool) int {
	if b {
		return 1
	}
	return 0
}

func c09(c *Ctx) {
	c09DoubleConnect(c)
	c09Reconnect(c)
	c09TwoClients(c)
	for i := 0; i < c.Pick(10, 80); i++ {
		ns := []int{1, 2, 3, 5, 8, 32}[c.R.N(6)]
		per := []int{1, 10, 33, 100, 400}[c.R.N(5)]
		if !c.Quick() && c.R.P(1, 6) {
			per = 2000
		}
		if ns*per > 20000 {
			per = 20000 / ns
		}
		c09Session(c, ns, per, c.R.Pick("fast", "slow", "bursts"), 0)
	}
}

// c09TwoClients: two clients in one process share nothing. A connects, is closed and connects again; then B connects;
// both send numbered lines at the same time. Every line reaches the server of the client it was handed to - once, in
// order - and no other.
func c09TwoClients(c *Ctx) {
	for round := 0; round < c.Pick(2, 8); round++ {
		desc := "client A connects, Close, connects again; client B connects; both send 60 numbered lines concurrently"
		c.Journal("C09 " + desc)
		a, err := newSession(nil, nil)
		if err != nil {
			c.Res.Inconclusive++
			continue
		}
		a.srv.WaitLines(2, 2*time.Second)
		if !a.close() || !waitFor(func() bool { return !a.conn.Connected() }, 3*time.Second) || a.conn.Connect() != nil {
			c.Res.Inconclusive++
			continue
		}
		var srvA *memconn.Conn
		select {
		case srvA = <-a.conns:
		case <-time.After(3 * time.Second):
			c.Res.Inconclusive++
			continue
		}
		b, err := newSession(nil, nil)
		if err != nil {
			c.Res.Inconclusive++
			a.conn.Close()
			continue
		}
		var wg sync.WaitGroup
		for who, cn := range []*client.Conn{a.conn, b.conn} {
			wg.Add(1)
			go func(who int, cn *client.Conn) {
				defer wg.Done()
				for q := 0; q < 60; q++ {
					cn.Privmsg("#c", fmt.Sprintf("%c-%d", 'A'+who, q))
				}
				cn.Raw("PING :end")
			}(who, cn)
		}
		wg.Wait()
		end := func(l string) bool { return l == "PING :end" }
		okA := srvA.WaitLine(0, end, 10*time.Second) >= 0
		okB := b.srv.WaitLine(0, end, 10*time.Second) >= 0
		la, lb := srvA.Lines(), b.srv.Lines()
		a.conn.Close()
		b.close()
		c.Res.Traces++
		c.Res.Evaluations++
		c.Dist("two-clients")
		judge := func(name byte, lines []string) string {
			next := 0
			for i, l := range lines {
				switch {
				case strings.HasPrefix(l, "NICK ") || strings.HasPrefix(l, "USER ") || l == "PING :end":
				case strings.HasPrefix(l, fmt.Sprintf("PRIVMSG #c :%c-", name)):
					var q int
					fmt.Sscanf(l[len("PRIVMSG #c :A-"):], "%d", &q)
					if q != next {
						return fmt.Sprintf("line %d on %c's server is %q: %c's lines are not there once each and in order", i, name, l, name)
					}
					next++
				default:
					return fmt.Sprintf("line %d on %c's server was never handed to %c: %q", i, name, name, trunc(l, 60))
				}
			}
			if next != 60 {
				return fmt.Sprintf("%d of the 60 lines handed to %c reached its server", next, name)
			}
			return ""
		}
		bad := judge('A', la)
		if bad == "" {
			bad = judge('B', lb)
		}
		if bad == "" && (!okA || !okB) {
			bad = fmt.Sprintf("the end marker did not arrive (A: %v, B: %v)", okA, okB)
		}
		if bad != "" {
			c.SpecFail("spec", desc, "", bad, map[string]interface{}{"op": "two-clients", "a_wire": la, "b_wire": lb})
		}
	}
}
