package main

import (
	"fmt"
	"sort"
	"strings"

	"github.com/fluffle/goirc/client"

	"verif/harness/drv"
)

// encLine is the canonical text form of a parsed line (same as the driver's lineEncode).
func encLine(l *client.Line) string {
	if l == nil {
		return "nil"
	}
	tags := "nil"
	if l.Tags != nil {
		if len(l.Tags) == 0 {
			tags = "empty"
		} else {
			keys := make([]string, 0, len(l.Tags))
			for k := range l.Tags {
				keys = append(keys, k)
			}
			sort.Strings(keys)
			parts := make([]string, len(keys))
			for i, k := range keys {
				parts[i] = drv.H(k) + ":" + drv.H(l.Tags[k])
			}
			tags = strings.Join(parts, ";")
		}
	}
	return fmt.Sprintf("line tags=%s nick=%s ident=%s host=%s src=%s cmd=%s raw=%s args=%s",
		tags, drv.H(l.Nick), drv.H(l.Ident), drv.H(l.Host), drv.H(l.Src), drv.H(l.Cmd), drv.H(l.Raw), drv.L(l.Args))
}

// safeParse runs the real ParseLine, turning a panic into a value.
func safeParse(s string) (l *client.Line, panicked string) {
	defer func() {
		if r := recover(); r != nil {
			l, panicked = nil, fmt.Sprint(r)
		}
	}()
	return client.ParseLine(s), ""
}

func safeStr(f func() string) (out string) {
	defer func() {
		if r := recover(); r != nil {
			out = "PANIC:" + fmt.Sprint(r)
		}
	}()
	return drv.H(f())
}

// accessors of the real line, each guarded: "text=.. public=.. target=.."
func implAcc(l *client.Line) (string, bool) {
	text := safeStr(l.Text)
	target := safeStr(l.Target)
	pub := safeStr(func() string {
		if l.Public() {
			return "1"
		}
		return "0"
	})
	if strings.HasPrefix(pub, "PANIC") || strings.HasPrefix(text, "PANIC") || strings.HasPrefix(target, "PANIC") {
		return fmt.Sprintf("text=%s public=%s target=%s", text, pub, target), true
	}
	p, _ := drv.UnH(pub)
	return fmt.Sprintf("text=%s public=%s target=%s", text, p, target), false
}

// resolveTables runs `op <hex> <table>` for every input until the driver no
// longer asks for Go's ToUpper of some non-ASCII string; returns the table
// to use for each input.
func resolveTables(op string, inputs []string) []string {
	tables := make([]string, len(inputs))
	entries := make([][]string, len(inputs))
	for i := range tables {
		tables[i] = "_"
	}
	pending := make([]int, 0)
	for i, s := range inputs {
		ascii := true
		for j := 0; j < len(s); j++ {
			if s[j] >= 0x80 {
				ascii = false
				break
			}
		}
		if !ascii {
			pending = append(pending, i)
		}
	}
	for round := 0; round < 4 && len(pending) > 0; round++ {
		reqs := make([]string, len(pending))
		for k, i := range pending {
			reqs[k] = op + " " + drv.H(inputs[i]) + " " + tables[i]
		}
		replies, err := drv.Run(reqs)
		if err != nil {
			panic(err)
		}
		var next []int
		for k, i := range pending {
			if strings.HasPrefix(replies[k], "need ") {
				x, _ := drv.UnH(strings.TrimPrefix(replies[k], "need "))
				entries[i] = append(entries[i], drv.H(x)+":"+drv.H(strings.ToUpper(x)))
				tables[i] = strings.Join(entries[i], ",")
				next = append(next, i)
			}
		}
		pending = next
	}
	return tables
}
