package main

import (
	"fmt"
	"strings"
	"time"

	sasl "github.com/emersion/go-sasl"
	"github.com/fluffle/goirc/client"

	"verif/harness/drv"
	"verif/harness/gen"
	"verif/harness/memconn"
)

func init() {
	register("C08", "every exported command method (28 incl. Privmsgln/Privmsgf) x argument positions filled from {empty, CR, LF, CRLF, NUL, \\x01, 600-byte, random bytes rich in CR/LF, non-ASCII} x SplitLen in {-1,0,12,13,23,450}; lines captured from the outgoing queue of a real Conn; a case is non-trivial when an argument contains CR or LF or the call emits more than one line; distinct by (method,args,SplitLen)", c08)
}

type cmdSpec struct {
	name  string
	kinds string // b = string, l = variadic []string
	model string // constructor name understood by the driver
}

var cmdSpecs = []cmdSpec{
	{"Raw", "b", "Raw"}, {"Pass", "b", "Pass"}, {"Nick", "b", "Nick"}, {"User", "bb", "User"}, {"Join", "bl", "Join"},
	{"Part", "bl", "Part"}, {"Kick", "bbl", "Kick"}, {"Quit", "l", "Quit"}, {"Whois", "b", "Whois"}, {"Who", "b", "Who"},
	{"Privmsg", "bb", "Privmsg"}, {"Privmsgln", "bb", "Privmsg"}, {"Privmsgf", "bb", "Privmsg"}, {"Notice", "bb", "Notice"},
	{"Ctcp", "bbl", "Ctcp"}, {"CtcpReply", "bbl", "CtcpReply"}, {"Version", "b", "Version"}, {"Action", "bb", "Action"},
	{"Topic", "bl", "Topic"}, {"Mode", "bl", "Mode"}, {"Away", "l", "Away"}, {"Invite", "bb", "Invite"}, {"Oper", "bb", "Oper"},
	{"VHost", "bb", "VHost"}, {"Ping", "b", "Ping"}, {"Pong", "b", "Pong"}, {"Cap", "bl", "Cap"}, {"Authenticate", "b", "Authenticate"},
}

// callCmd invokes the named method on conn with string args a and variadic v.
func callCmd(conn *client.Conn, name string, a []string, v []string) {
	switch name {
	case "Raw":
		conn.Raw(a[0])
	case "Pass":
		conn.Pass(a[0])
	case "Nick":
		conn.Nick(a[0])
	case "User":
		conn.User(a[0], a[1])
	case "Join":
		conn.Join(a[0], v...)
	case "Part":
		conn.Part(a[0], v...)
	case "Kick":
		conn.Kick(a[0], a[1], v...)
	case "Quit":
		conn.Quit(v...)
	case "Whois":
		conn.Whois(a[0])
	case "Who":
		conn.Who(a[0])
	case "Privmsg":
		conn.Privmsg(a[0], a[1])
	case "Privmsgln":
		conn.Privmsgln(a[0], a[1])
	case "Privmsgf":
		conn.Privmsgf(a[0], "%s", a[1])
	case "Notice":
		conn.Notice(a[0], a[1])
	case "Ctcp":
		conn.Ctcp(a[0], a[1], v...)
	case "CtcpReply":
		conn.CtcpReply(a[0], a[1], v...)
	case "Version":
		conn.Version(a[0])
	case "Action":
		conn.Action(a[0], a[1])
	case "Topic":
		conn.Topic(a[0], v...)
	case "Mode":
		conn.Mode(a[0], v...)
	case "Away":
		conn.Away(v...)
	case "Invite":
		conn.Invite(a[0], a[1])
	case "Oper":
		conn.Oper(a[0], a[1])
	case "VHost":
		conn.VHost(a[0], a[1])
	case "Ping":
		conn.Ping(a[0])
	case "Pong":
		conn.Pong(a[0])
	case "Cap":
		conn.Cap(a[0], v...)
	case "Authenticate":
		conn.Authenticate(a[0])
	default:
		panic("unknown method " + name)
	}
}

func nastyArg(r *gen.R) string {
	switch r.N(16) {
	case 14: // text that would mean something to a formatter further down
		return r.Pick("battery at 100%", "%", "50% off", "%s%d%v", "uptime 99.9% ", "%!(NOVERB)", "a%20b", "%%", "100%\r")
	case 15:
		return r.Bytes(r.Range(1, 10), "ab%% sdvx0.+-#")
	case 0:
		return ""
	case 1:
		return "\r"
	case 2:
		return "\n"
	case 3:
		return "\r\n"
	case 4:
		return "\x00"
	case 5:
		return "\x01"
	case 6:
		return "#chan"
	case 7:
		return "nick"
	case 8:
		return r.Bytes(r.Range(400, 700), "ab .,")
	case 9:
		return r.Bytes(r.N(12), "ab\r\n :")
	case 10:
		return "x\r\nQUIT :pwned"
	case 11:
		return "caf\xc3\xa9 \xff"
	case 12:
		return r.AnyBytes(r.N(10))
	default:
		return r.Bytes(r.Range(1, 8), "abcXYZ#&+! :")
	}
}

func c08Case(r *gen.R, m cmdSpec, splitLen int) Case {
	cfg := client.NewConfig("me")
	cfg.SplitLen = splitLen
	cfg.QuitMessage = r.Pick("GoBye!", "", "bye\r\nNICK x", "q")
	conn := client.Client(cfg)
	var a []string
	var v []string
	var enc []string
	nontrivial := false
	for _, k := range m.kinds {
		if k == 'b' {
			s := nastyArg(r)
			a = append(a, s)
			enc = append(enc, drv.H(s))
			nontrivial = nontrivial || strings.ContainsAny(s, "\r\n")
		} else {
			n := r.N(4)
			if m.name == "Cap" && r.P(1, 4) {
				n = r.Range(40, 120)
			}
			for i := 0; i < n; i++ {
				s := nastyArg(r)
				if m.name == "Cap" && n > 10 {
					s = r.Bytes(r.Range(1, 12), "abcdefgh-/.")
				}
				v = append(v, s)
				nontrivial = nontrivial || strings.ContainsAny(s, "\r\n")
			}
			enc = append(enc, drv.L(v))
		}
	}
	up := "-"
	if m.model == "Ctcp" || m.model == "CtcpReply" {
		up = drv.H(strings.ToUpper(a[1]))
	}
	lines := client.VerifCapture(conn, func() { callCmd(conn, m.name, a, v) })
	tag := ""
	if nontrivial {
		tag = m.name + "/crlf"
	}
	if len(lines) > 1 {
		tag = m.name + "/multi"
	}
	argstr := strings.Join(enc, " ")
	return Case{
		Desc:   fmt.Sprintf("%s(%q, %q) SplitLen=%d -> %d lines", m.name, truncAll(a, 40), truncAll(v, 40), splitLen, len(lines)),
		Reqs:   []string{fmt.Sprintf("cmd %d %s %s %s %s", splitLen, drv.H(cfg.QuitMessage), up, m.model, argstr)},
		Impl:   []string{drv.L(lines)},
		Spec:   []string{fmt.Sprintf("spec08 %s %s %s", drv.L(lines), m.model, argstr)},
		Tag:    tag,
		Key:    fmt.Sprintf("%s|%d|%s", m.name, splitLen, argstr),
		Replay: map[string]interface{}{"op": "command", "method": m.name, "args_hex": a2h(a), "variadic_hex": a2h(v), "splitlen": splitLen, "quit_hex": drv.H(cfg.QuitMessage), "impl_lines_hex": drv.L(lines)},
	}
}

func a2h(a []string) []string {
	out := make([]string, len(a))
	for i, s := range a {
		out[i] = drv.H(s)
	}
	return out
}

func truncAll(a []string, n int) []string {
	out := make([]string, len(a))
	for i, s := range a {
		out[i] = trunc(s, n)
	}
	return out
}

func c08(c *Ctx) {
	var cases []Case
	lens := []int{-1, 0, 12, 13, 23, 450}
	per := c.Pick(150, 2500)
	for _, m := range cmdSpecs {
		for i := 0; i < per; i++ {
			cases = append(cases, c08Case(c.R, m, lens[c.R.N(len(lens))]))
		}
		c.Dist("method:" + m.name)
	}
	// cutNewLines and splitArgs directly
	for i := 0; i < c.Pick(1500, 20000); i++ {
		s := c.R.Bytes(c.R.N(10), "ab\r\n")
		cases = append(cases, Case{Desc: fmt.Sprintf("cutNewLines(%q)", s), Reqs: []string{"cut " + drv.H(s)}, Impl: []string{drv.H(client.VerifCutNewLines(s))},
			Tag: "cut", Key: s, Replay: map[string]interface{}{"op": "cutNewLines", "text_hex": drv.H(s)}})
		n := c.R.N(8)
		var args []string
		for j := 0; j < n; j++ {
			args = append(args, c.R.Bytes(c.R.N(6), "abc"))
		}
		ml := c.R.Range(-2, 14)
		cases = append(cases, Case{Desc: fmt.Sprintf("splitArgs(%q, %d)", args, ml), Reqs: []string{fmt.Sprintf("splitargs %d %s", ml, drv.L(args))},
			Impl: []string{drv.L(client.VerifSplitArgs(args, ml))}, Tag: "splitargs", Key: fmt.Sprintf("%d|%q", ml, args),
			Replay: map[string]interface{}{"op": "splitArgs", "args_hex": a2h(args), "maxlen": ml}})
	}
	c.RunCases(cases)
	c08Wire(c)
}

// c08Wire: the bytes that actually reach the socket, for calls made on a connected client.
func c08Wire(c *Ctx) {
	// Config.Timeout small: now and then the peer stops reading in the middle of a line for longer than that
	sess, err := newSession(func(cfg *client.Config) { cfg.Timeout = 150 * time.Millisecond }, nil)
	if err != nil {
		c.Res.Inconclusive++
		return
	}
	defer sess.close()
	sess.srv.WaitLines(2, 2*time.Second)
	sess.sync(5 * time.Second)
	var cases []Case
	n := c.Pick(300, 3000)
	for i := 0; i < n; i++ {
		m := cmdSpecs[c.R.N(len(cmdSpecs))]
		var a, v, enc []string
		for _, k := range m.kinds {
			if k == 'b' {
				s := nastyArg(c.R)
				if c.R.P(1, 6) {
					s = c.R.Bytes(c.R.Range(480, 1200), "abc .")
				}
				a = append(a, s)
				enc = append(enc, drv.H(s))
			} else {
				for j := c.R.N(3); j > 0; j-- {
					v = append(v, nastyArg(c.R))
				}
				enc = append(enc, drv.L(v))
			}
		}
		up := "-"
		if m.model == "Ctcp" || m.model == "CtcpReply" {
			up = drv.H(strings.ToUpper(a[1]))
		}
		before := len(sess.srv.Raw())
		if i%97 == 5 || i%97 == 50 {
			sess.srv.StallNextWrite(c.R.Range(1, 9), 400*time.Millisecond)
		}
		c.Journal(fmt.Sprintf("C08 wire: %s(%q, %q)", m.name, truncAll(a, 30), truncAll(v, 30)))
		callCmd(sess.conn, m.name, a, v)
		if !sess.sync(10 * time.Second) {
			c.SpecFail("spec", fmt.Sprintf("%s(%q,%q) on a connection", m.name, truncAll(a, 40), truncAll(v, 40)), "", "the connection stopped answering after this call", nil)
			return
		}
		raw := sess.srv.Raw()[before:]
		// drop the PONG of our own sync marker (the last line)
		if i := strings.LastIndex(raw[:len(raw)-2], "\r\n"); i >= 0 {
			raw = raw[:i+2]
		} else {
			raw = ""
		}
		argstr := strings.Join(enc, " ")
		var lines []string
		if raw != "" {
			lines = strings.Split(strings.TrimSuffix(raw, "\r\n"), "\r\n")
		}
		tag := "wire/" + m.name
		cases = append(cases, Case{
			Desc: fmt.Sprintf("wire bytes of %s(%q, %q): %d bytes", m.name, truncAll(a, 40), truncAll(v, 40), len(raw)),
			Reqs: []string{fmt.Sprintf("cmd %d %s %s %s %s", 450, drv.H("GoBye!"), up, m.model, argstr)},
			Impl: []string{drv.L(lines)},
			Spec: []string{fmt.Sprintf("spec08b %s %s %s", drv.H(raw), m.model, argstr)},
			Tag:  tag, Key: m.name + "|" + argstr,
			Replay: map[string]interface{}{"op": "command-on-connection", "method": m.name, "args_hex": a2h(a), "variadic_hex": a2h(v), "wire_hex": drv.H(raw)},
		})
	}
	c.Res.Traces++
	c.RunCases(cases)
	c08Reconnect(c)
	c08BeforeConnect(c)
	c08MidNegotiation(c)
}

// c08Reconnect: a line of caller text is cut short by the end of the connection (the peer stops reading in the middle of it
// and the socket is closed under the blocked write); the same client connects again. Every line on the NEW connection is
// one the client was asked to send on it: the first bytes the server sees are the registration, not the rest of the old line.
func c08Reconnect(c *Ctx) {
	for k := 0; k < c.Pick(2, 6); k++ {
		text := c.R.Pick("QUIT :thanks for all the fish", "KICK #chan victim", "OPER root hunter2")
		cut := c.R.Range(12, 16) // "PRIVMSG #c :" is 12 bytes: the rest of the line is the caller's text alone
		desc := fmt.Sprintf("Privmsg(#c, %q) cut short after %d bytes by the end of the connection, then the same client connects again", text, cut)
		c.Journal("C08 " + desc)
		sess, err := newSession(nil, nil)
		if err != nil {
			c.Res.Inconclusive++
			continue
		}
		sess.srv.WaitLines(2, 2*time.Second)
		sess.sync(5 * time.Second)
		sess.srv.StallNextWrite(cut, time.Hour)
		sess.conn.Privmsg("#c", text)
		time.Sleep(5 * time.Millisecond)
		if !sess.close() {
			c.SpecFail("spec", desc, "", "Close did not return", map[string]interface{}{"op": "cut-line-then-reconnect", "text_hex": drv.H(text), "cut": cut})
			continue
		}
		if !waitFor(func() bool { return !sess.conn.Connected() }, 5*time.Second) || sess.conn.Connect() != nil {
			c.Res.Inconclusive++
			continue
		}
		var srv2 *memconn.Conn
		select {
		case srv2 = <-sess.conns:
		case <-time.After(3 * time.Second):
			c.Res.Inconclusive++
			continue
		}
		srv2.WaitLines(2, 3*time.Second)
		raw := srv2.Raw()
		sess.conn.Close()
		c.Res.Traces++
		c.Res.Evaluations++
		c.Dist("cut-line-then-reconnect")
		if want := "NICK me\r\nUSER ident 12 * :Real Name\r\n"; raw != want {
			c.SpecFail("spec", desc, "", fmt.Sprintf("the new connection's first bytes are %q ; the client was asked to send nothing on it but its registration %q", trunc(raw, 120), want),
				map[string]interface{}{"op": "cut-line-then-reconnect", "text_hex": drv.H(text), "cut": cut, "wire_hex": drv.H(raw)})
		}
	}
}

// c08BeforeConnect: command methods called on a client that has never connected (such a call waits - for ever, as the
// library stands - for a queue that does not exist yet; it is made from goroutines of its own). Whatever becomes of those
// lines once the client does connect and is welcomed, nothing on the wire is a line made of caller text alone.
func c08BeforeConnect(c *Ctx) {
	for k := 0; k < c.Pick(1, 4); k++ {
		desc := "Privmsg / Join / Notice with CR and LF in their arguments called before the first Connect, then Connect, 001, and a PING round trip"
		c.Journal("C08 " + desc)
		url, conns := memconn.Listen()
		cfg := client.NewConfig("me", "ident", "Real Name")
		cfg.Server, cfg.Proxy, cfg.Flood, cfg.PingFreq = "irc.test", url, true, 0
		conn := client.Client(cfg)
		go conn.Privmsg("#chan", "hello\r\nQUIT :injected")
		go conn.Join("#chan\nOPER root hunter2")
		go conn.Notice("someone", "bye\rNICK stolen")
		time.Sleep(5 * time.Millisecond)
		if conn.Connect() != nil {
			c.Res.Inconclusive++
			continue
		}
		var srv *memconn.Conn
		select {
		case srv = <-conns:
		case <-time.After(3 * time.Second):
			c.Res.Inconclusive++
			continue
		}
		s2 := &session{conn: conn, srv: srv}
		srv.SendLine(":irc.test 001 me :Welcome me!ident@host")
		s2.sync(5 * time.Second)
		time.Sleep(10 * time.Millisecond)
		raw := srv.Raw()
		conn.Close()
		c.Res.Traces++
		c.Res.Evaluations++
		c.Dist("before-first-connect")
		bad := ""
		for _, l := range strings.Split(strings.TrimSuffix(raw, "\r\n"), "\r\n") {
			switch {
			case strings.ContainsAny(l, "\r\n"):
				bad = fmt.Sprintf("a line on the wire contains a bare CR or LF: %q", l)
			case strings.HasPrefix(l, "QUIT") || strings.HasPrefix(l, "OPER") || strings.HasPrefix(l, "NICK stolen"):
				bad = fmt.Sprintf("a line on the wire is made of caller text alone: %q", l)
			}
		}
		if bad != "" {
			c.SpecFail("spec", desc, "", bad, map[string]interface{}{"op": "before-first-connect", "wire_hex": drv.H(raw)})
		}
	}
}

// c08MidNegotiation: "each line begins with the verb of the method that was called" whatever state the connection is in.
// The state here: SASL configured, the server has acknowledged sasl, the client has sent AUTHENTICATE PLAIN and waits for
// the server's "+". Command methods called now write their own line and nothing else.
func c08MidNegotiation(c *Ctx) {
	for k := 0; k < c.Pick(2, 5); k++ {
		sess, err := newSession(func(cfg *client.Config) {
			cfg.EnableCapabilityNegotiation = true
			cfg.Sasl = sasl.NewPlainClient("", "user", "pw")
		}, nil)
		if err != nil {
			c.Res.Inconclusive++
			continue
		}
		sess.srv.SendLine(":irc.test CAP * LS :sasl")
		sess.srv.SendLine(":irc.test CAP * ACK :sasl")
		sess.srv.WaitLine(0, func(l string) bool { return strings.HasPrefix(l, "AUTHENTICATE ") }, 3*time.Second)
		sess.sync(5 * time.Second)
		type call struct {
			desc string
			do   func()
			want string
		}
		calls := []call{
			{`Cap("END")`, func() { sess.conn.Cap("END") }, "CAP END"},
			{`Cap("LS")`, func() { sess.conn.Cap("LS") }, "CAP LS"},
			{`Nick("other")`, func() { sess.conn.Nick("other") }, "NICK other"},
			{`Authenticate("+")`, func() { sess.conn.Authenticate("+") }, "AUTHENTICATE +"},
			{`Quit()`, func() { sess.conn.Quit() }, "QUIT :GoBye!"},
		}
		cl := calls[0]
		if k > 0 {
			cl = calls[1+(k+int(c.Seed))%(len(calls)-1)]
		}
		desc := "SASL exchange pending (sasl acknowledged, AUTHENTICATE PLAIN sent, no reply yet), then " + cl.desc
		c.Journal("C08 " + desc)
		before := len(sess.srv.Raw())
		cl.do()
		sess.sync(5 * time.Second)
		raw := sess.srv.Raw()[before:]
		sess.close()
		c.Res.Traces++
		c.Res.Evaluations++
		c.Dist("mid-negotiation")
		if i := strings.LastIndex(raw[:max(0, len(raw)-2)], "\r\n"); i >= 0 { // drop the PONG of the sync marker
			raw = raw[:i+2]
		} else {
			raw = ""
		}
		if raw != cl.want+"\r\n" {
			c.SpecFail("spec", desc, "", fmt.Sprintf("the call put %q on the wire ; one line, beginning with the verb of the method: %q", raw, cl.want+"\r\n"),
				map[string]interface{}{"op": "mid-negotiation", "call": cl.desc, "wire_hex": drv.H(raw)})
		}
	}
}
