package main

import (
	"fmt"
	"strings"
	"time"

	"github.com/fluffle/goirc/client"

	"verif/harness/drv"
	"verif/harness/memconn"
)

func init() {
	register("C19", "capability dialogues driven through the real internal handlers: wanted subsets of {a,c,t,userhost-in-names} x advertised subsets of {a,t,d,sasl,userhost-in-names} (names sorting before and after sasl; ACKs in request order and reversed) x SASL in {none, PLAIN, EXTERNAL(empty / non-empty identity)} x server reply in {ACK all, ACK part, ACK with a later -cap, NAK} x outcome in {903,904,908} - enumerated exhaustively - plus multi-line LS dialogues (the same client answering 2-3 LS lines that advertise different sets), plus random sets of 40-300 capabilities that force the REQ to be split; every reply and SupportsCapability/HasCapability are compared with the model and judged by Spec.Caps; non-trivial = the intersection is non-empty; distinct by dialogue", c19)
}

func subsets(xs []string) [][]string {
	out := [][]string{nil}
	for _, x := range xs {
		n := len(out)
		for i := 0; i < n; i++ {
			out = append(out, append(append([]string(nil), out[i]...), x))
		}
	}
	return out
}

func outOf(reply string) string {
	for _, f := range strings.Fields(reply) {
		if strings.HasPrefix(f, "out=") {
			return strings.TrimPrefix(f, "out=")
		}
	}
	return "_"
}

type dialogue struct {
	cs   Case
	r    *rig
	univ []string
}

func (d *dialogue) raw(line string, spec ...string) string {
	rep := d.r.raw(line)
	d.cs.Reqs = append(d.cs.Reqs, "cl raw "+drv.H(line))
	d.cs.Impl = append(d.cs.Impl, rep)
	for _, s := range spec {
		d.cs.Reqs = append(d.cs.Reqs, "?"+strings.ReplaceAll(s, "{out}", outOf(rep)))
		d.cs.Impl = append(d.cs.Impl, "")
	}
	obs := d.r.obs(d.univ, []string{"me"}, nil)
	d.cs.Reqs = append(d.cs.Reqs, "cl obs")
	d.cs.Impl = append(d.cs.Impl, obs)
	return rep
}

// capNegFlag: what the application put into Config.EnableCapabilityNegotiation. With a SASL mechanism configured the
// flag may be left false: Client() switches negotiation on itself (its documentation says so), and the dialogue is the same.
var capNegFlag = true

// laterNaks: append two refused later requests (CAP NAK) to dialogues that had an acknowledgement
var laterNaks = false

func capDialogue(wanted, adv []string, saslKind int, reply int, outcome string, prelude ...[]string) Case {
	p := rigParams{nick: "me", ident: "id", name: "Real", version: "v", quit: "q", split: 450, capNeg: capNegFlag || saslKind == 0, caps: wanted, sasl: "none", newNick: "default"}
	switch saslKind {
	case 1:
		p.sasl, p.saslClient = plainSasl("", "user", "secret")
	case 2:
		p.sasl, p.saslClient = plainSasl("authz", "us?r", "pa?sw~rd>\x00\xff\xfe")
	case 3:
		p.sasl, p.saslClient = extSasl("")
	case 4:
		p.sasl, p.saslClient = extSasl("id>?~\xfb\xff")
	}
	univ := []string{"a", "b", "c", "d", "sasl", "t", "userhost-in-names"}
	if len(adv) > 8 {
		univ = dedup(append(univ, adv...))
	}
	d := &dialogue{r: newRig(p), univ: univ}
	d.cs.Reqs = []string{p.req()}
	d.cs.Impl = []string{"ok"}
	hasSasl := "0"
	if saslKind != 0 {
		hasSasl = "1"
	}
	// REGISTER
	reg := d.r.dispatch(&client.Line{Cmd: client.REGISTER})
	d.cs.Reqs = append(d.cs.Reqs, "cl in line tags=nil nick=- ident=- host=- src=- cmd="+drv.H("REGISTER")+" raw=- args=_",
		fmt.Sprintf("?spec18reg 1 - %s %s %s %s", drv.H("me"), drv.H("id"), drv.H("Real"), outOf(reg)))
	d.cs.Impl = append(d.cs.Impl, reg, "")
	// earlier lines of a multi-line LS (CAP * LS * :...): every line is answered with wanted ∩ everything advertised on this connection so far
	// (and with nothing that was never advertised)
	var sofar []string // what the server has advertised on this connection so far (the client accumulates it)
	for _, pre := range prelude {
		sofar = dedup(append(sofar, pre...))
		d.raw(":irc.test CAP * LS * :"+strings.Join(pre, " "), fmt.Sprintf("spec19ls %s %s %s {out}", drv.L(wanted), hasSasl, drv.L(sofar)))
	}
	lsAdv := adv
	adv = dedup(append(sofar, adv...))
	// LS
	rep := d.raw(":irc.test CAP * LS :"+strings.Join(lsAdv, " "), fmt.Sprintf("spec19ls %s %s %s {out}", drv.L(wanted), hasSasl, drv.L(adv)))
	req, _ := drv.UnL(outOf(rep))
	var requested []string
	for _, l := range req {
		if strings.HasPrefix(l, "CAP REQ :") {
			requested = append(requested, strings.Fields(strings.TrimPrefix(l, "CAP REQ :"))...)
		}
	}
	inter := len(requested) > 0
	if inter {
		d.cs.Tag = fmt.Sprintf("req=%d/sasl=%d/reply=%d", min(len(requested), 4), saslKind, reply)
		var acked []string
		switch reply {
		case 0: // ACK everything requested (servers may answer in any order: reverse it)
			for i := len(requested) - 1; i >= 0; i-- {
				acked = append(acked, requested[i])
			}
		case 1: // ACK only the first
			acked = requested[:1]
		case 2: // ACK everything, then a later ACK disables the first again
			acked = requested
		case 3: // NAK
		}
		if reply == 3 {
			d.raw(":irc.test CAP me NAK :"+strings.Join(requested, " "), "spec19end {out}")
			if saslKind != 0 {
				// the request was refused, sasl with it: nothing of the SASL exchange may follow, whatever the server says next
				rep := d.raw("AUTHENTICATE +")
				if out, _ := drv.UnL(outOf(rep)); len(out) > 0 {
					d.cs.Reqs = append(d.cs.Reqs, "?spec19end "+outOf(rep)) // fails: judged against "exactly CAP END", which no AUTHENTICATE line is
					d.cs.Impl = append(d.cs.Impl, "")
				}
			}
		} else {
			rep = d.raw(":irc.test CAP me ACK :"+strings.Join(acked, " "), fmt.Sprintf("spec19ack %s %s {out}", p.sasl, drv.L(acked)))
			allAcks := append([]string(nil), acked...)
			saslStarted := strings.Contains(outOf(rep), drv.H("AUTHENTICATE "))
			if saslStarted {
				d.raw("AUTHENTICATE +", fmt.Sprintf("spec19pay %s {out}", p.sasl))
				switch outcome {
				case "903":
					d.raw(":irc.test 903 me :SASL authentication successful", "spec19end {out}")
				case "904":
					d.raw(":irc.test 904 me :SASL authentication failed", "spec19end {out}")
				case "908":
					d.raw(":irc.test 908 me PLAIN,EXTERNAL :are available SASL mechanisms", "spec19end {out}")
				}
			}
			if reply == 2 {
				d.raw(":irc.test CAP me ACK :-"+requested[0], fmt.Sprintf("spec19ack %s %s {out}", "none", drv.L([]string{"-" + requested[0]})))
				allAcks = append(allAcks, "-"+requested[0])
			}
			checkHeld := func() {
				for _, c := range univ[:7] {
					held := "0"
					if d.r.conn.HasCapability(c) {
						held = "1"
					}
					d.cs.Reqs = append(d.cs.Reqs, fmt.Sprintf("?spec19held %s %s %s", drv.L(allAcks), drv.H(c), held))
					d.cs.Impl = append(d.cs.Impl, "")
				}
			}
			checkHeld()
			// later requests that the server refuses change nothing: a NAK naming an enabled capability (asked for again
			// together with one the server does not know), then a NAK of a request to switch one off - what is held is
			// still what the latest acknowledgement says
			if laterNaks && len(acked) > 0 {
				d.raw(":irc.test CAP me NAK :"+acked[0]+" zz", "spec19end {out}")
				d.raw(":irc.test CAP me NAK :-"+acked[len(acked)-1], "spec19end {out}")
				checkHeld()
			}
		}
	}
	d.cs.Desc = fmt.Sprintf("cap dialogue wanted=%v advertised=%s sasl=%d reply=%d outcome=%s", wanted, trunc(strings.Join(adv, " "), 60), saslKind, reply, outcome)
	if len(prelude) > 0 {
		d.cs.Desc += fmt.Sprintf(" after earlier LS lines %v", prelude)
		if d.cs.Tag != "" {
			d.cs.Tag += "/multi-line-LS"
		}
	}
	if laterNaks {
		d.cs.Desc += " then two later requests refused (NAK)"
	}
	d.cs.Key = d.cs.Desc
	d.cs.Replay = map[string]interface{}{"op": "cap-dialogue", "later_naks": laterNaks, "wanted": wanted, "advertised": adv, "sasl": p.sasl, "reply": reply, "outcome": outcome, "earlier_ls_lines": prelude}
	return d.cs
}

// c19Reconnect: the same client on a second connection. What "advertised by the server" means there is what the
// server of THAT connection advertises: a capability the previous server offered (or acknowledged) must not be asked
// of - or reported as held on - a server that never mentioned it. Real connections: negotiate, register, drop the
// link, connect again, advertise something else; the CAP lines of the second connection are judged by the same Spec
// predicate as everywhere (`Spec.Caps.okAfterLS`, given only the second connection's advertisement).
func c19Reconnect(c *Ctx) {
	type variant struct {
		wanted, first, second []string
		unanswered            bool // the first connection drops after the client's CAP REQ, before any ACK / NAK
	}
	vs := []variant{
		{[]string{"a", "b", "c"}, []string{"a", "b", "c", "x"}, []string{"a"}, false},
		{[]string{"a", "b"}, []string{"a", "b"}, nil, false},
		{[]string{"a", "b"}, []string{"b"}, []string{"a", "y"}, false},
		{[]string{"a"}, []string{"a", "t"}, []string{"t"}, false},
		{[]string{"a", "b"}, []string{"a", "b"}, []string{"a", "b"}, true},
		{[]string{"a"}, []string{"a"}, []string{"a", "t"}, true},
	}
	for vi, v := range vs {
		if c.Quick() && vi >= 2 && vi < 4 && c.R.P(1, 2) {
			continue
		}
		desc := fmt.Sprintf("cap negotiation on a second connection: wanted=%v, first server advertises %v (and acknowledges), second server advertises %v", v.wanted, v.first, v.second)
		rp := map[string]interface{}{"op": "cap-reconnect", "wanted": v.wanted, "first": v.first, "second": v.second}
		c.Journal(desc)
		sess, err := newSession(func(cfg *client.Config) { cfg.EnableCapabilityNegotiation = true; cfg.Capabilites = v.wanted }, nil)
		if err != nil {
			c.Res.Inconclusive++
			continue
		}
		sess.srv.SendLine(":irc.test CAP * LS :" + strings.Join(v.first, " "))
		sess.sync(5 * time.Second)
		var req []string
		for _, l := range sess.srv.Lines() {
			if strings.HasPrefix(l, "CAP REQ :") {
				req = append(req, strings.Fields(strings.TrimPrefix(l, "CAP REQ :"))...)
			}
		}
		if len(req) > 0 && !v.unanswered {
			sess.srv.SendLine(":irc.test CAP * ACK :" + strings.Join(req, " "))
		}
		if !v.unanswered {
			sess.srv.SendLine(":irc.test 001 me :Welcome me!ident@host")
		} else {
			desc += " - but the first link drops before the request is answered"
			rp["first_request_unanswered"] = true
		}
		sess.sync(5 * time.Second)
		sess.srv.EOF()
		if !waitFor(func() bool { return !sess.conn.Connected() }, 5*time.Second) {
			c.Res.Inconclusive++
			go sess.close()
			continue
		}
		if err := sess.conn.Connect(); err != nil {
			c.Res.Inconclusive++
			continue
		}
		var srv2 *memconn.Conn
		select {
		case srv2 = <-sess.conns:
		case <-time.After(5 * time.Second):
			c.Res.Inconclusive++
			continue
		}
		sess.srv, sess.cursor = srv2, 0
		// before the new server has said anything, nothing can be "held"
		var heldEarly []string
		for _, x := range v.wanted {
			if sess.conn.HasCapability(x) {
				heldEarly = append(heldEarly, x)
			}
		}
		sess.srv.SendLine(":irc.test CAP * LS :" + strings.Join(v.second, " "))
		sess.sync(5 * time.Second)
		var out []string
		for _, l := range srv2.Lines() {
			if strings.HasPrefix(l, "CAP REQ") || strings.HasPrefix(l, "CAP END") {
				out = append(out, l)
			}
		}
		// the dialogue of the second connection runs to its end like any other: the request is acknowledged, and the client
		// (no SASL here) closes the negotiation
		endOK, after := true, []string(nil)
		if v.unanswered {
			var req2 []string
			for _, l := range out {
				if strings.HasPrefix(l, "CAP REQ :") {
					req2 = append(req2, strings.Fields(strings.TrimPrefix(l, "CAP REQ :"))...)
				}
			}
			if len(req2) > 0 {
				before := len(srv2.Lines())
				sess.srv.SendLine(":irc.test CAP * ACK :" + strings.Join(req2, " "))
				sess.sync(5 * time.Second)
				for _, l := range srv2.Lines()[before:] {
					if strings.HasPrefix(l, "CAP ") || strings.HasPrefix(l, "AUTHENTICATE") {
						after = append(after, l)
					}
				}
				endOK = len(after) == 1 && after[0] == "CAP END"
			}
		}
		var supportedStale []string
		for _, x := range v.first {
			has := false
			for _, y := range v.second {
				has = has || x == y
			}
			if !has && sess.conn.SupportsCapability(x) {
				supportedStale = append(supportedStale, x)
			}
		}
		sess.close()
		c.Res.Traces++
		cs := Case{Desc: desc + fmt.Sprintf(": client sent %q", out), Spec: []string{fmt.Sprintf("spec19ls %s 0 %s %s", drv.L(v.wanted), drv.L(v.second), drv.L(out))},
			Tag: "reconnect", Key: desc, Sig: "C19-caps-survive-reconnect", Replay: rp}
		c.RunCases([]Case{cs})
		if !endOK {
			c.SpecFail("spec", desc, "", fmt.Sprintf("on the second connection the acknowledgement of the request was answered with %q ; the negotiation ends with exactly one CAP END", after), rp)
		}
		if len(heldEarly) > 0 {
			c.SpecFail("spec", desc, "C19-caps-survive-reconnect", fmt.Sprintf("on the new connection, before its server has acknowledged anything, HasCapability is true for %v", heldEarly), rp)
		}
		if len(supportedStale) > 0 {
			c.SpecFail("spec", desc, "C19-caps-survive-reconnect", fmt.Sprintf("SupportsCapability is true for %v, which this connection's server never advertised", supportedStale), rp)
		}
	}
}

func c19(c *Ctx) {
	c19Reconnect(c)
	var cases []Case
	for _, w := range subsets([]string{"a", "c", "t", "userhost-in-names"}) {
		for _, a := range subsets([]string{"a", "t", "d", "sasl", "userhost-in-names"}) {
			for sk := 0; sk <= 4; sk++ {
				for reply := 0; reply <= 3; reply++ {
					outcomes := []string{"903"}
					if sk != 0 && reply != 3 {
						outcomes = []string{"903", "904", "908"}
					}
					for _, oc := range outcomes {
						if c.Quick() && c.R.P(2, 3) {
							continue
						}
						laterNaks = c.R.P(1, 3)
						cases = append(cases, capDialogue(w, a, sk, reply, oc))
						laterNaks = false
					}
				}
			}
		}
	}
	// wanted lists that name a capability twice, and "sasl" listed explicitly although a SASL mechanism is configured as
	// well: still requested once each
	for _, w := range [][]string{{"a", "a"}, {"a", "t", "a"}, {"sasl"}, {"a", "sasl", "t", "sasl"}, {"t", "userhost-in-names", "t", "t"}} {
		for _, a := range [][]string{{"a", "t", "sasl"}, {"sasl"}, {"a", "t", "d", "sasl", "userhost-in-names"}} {
			for sk := 0; sk <= 3; sk += 1 {
				cases = append(cases, capDialogue(w, a, sk, c.R.N(3), c.R.Pick("903", "904", "908")))
			}
		}
	}
	// SASL configured, EnableCapabilityNegotiation left at its default (false)
	capNegFlag = false
	for _, a := range [][]string{{"sasl"}, {"a", "sasl", "t"}, {"a"}} {
		for sk := 1; sk <= 4; sk++ {
			for reply := 0; reply <= 3; reply++ {
				cases = append(cases, capDialogue([]string{"a"}, a, sk, reply, c.R.Pick("903", "904", "908")))
			}
		}
	}
	capNegFlag = true
	// the same client negotiating more than once: a multi-line LS whose lines advertise different sets
	all := subsets([]string{"a", "t", "d", "sasl", "userhost-in-names"})
	for _, w := range subsets([]string{"a", "c", "t", "userhost-in-names"}) {
		for i := 0; i < c.Pick(6, 40); i++ {
			pre := [][]string{all[c.R.N(len(all))]}
			if c.R.P(1, 3) {
				pre = append(pre, all[c.R.N(len(all))])
			}
			cases = append(cases, capDialogue(w, all[c.R.N(len(all))], c.R.N(5), c.R.N(4), c.R.Pick("903", "904", "908"), pre...))
		}
	}
	for i := 0; i < c.Pick(40, 600); i++ {
		n := c.R.Range(40, 300)
		var adv, wanted []string
		for j := 0; j < n; j++ {
			name := fmt.Sprintf("%s%d", c.R.Bytes(c.R.Range(1, 14), "abcdefgh-/."), j)
			if strings.HasPrefix(name, "-") {
				name = "x" + name
			}
			adv = append(adv, name)
			if c.R.P(3, 4) {
				wanted = append(wanted, name)
			}
		}
		if c.R.P(1, 2) {
			adv = append(adv, "sasl")
		}
		cases = append(cases, capDialogue(wanted, adv, c.R.N(5), c.R.N(4), c.R.Pick("903", "904", "908")))
	}
	for i := 0; i < len(cases); i += 200 {
		j := min(i+200, len(cases))
		c.RunCases(cases[i:j])
	}
}
