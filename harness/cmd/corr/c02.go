package main

import (
	"fmt"
	"strconv"
	"strings"
	"sync"
	"time"

	"github.com/fluffle/goirc/client"

	"verif/harness/drv"
	"verif/harness/gen"
)

func init() {
	register("C02", "hostile sessions (lines odd for the built-in handlers, each sent twice, then well-formed lines that need every lock they take: all must still be processed and the query API must return); byte strings as lines: bounded-exhaustive token sequences over {@ : SP ! ; = \\ \\x01 A 1 # TAB U+0085 PRIVMSG NOTICE ACTION CTCP PING 001 :x} (all up to length 3, a seeded sample of lengths 4-6), random byte strings, and byte-level mutations of valid messages; each goes through the real ParseLine and the real Text/Target/Public under recover and through the model; a case is non-trivial when the parser accepts the line or the line exercises a special byte; distinct by input", c02)
}

var c02Tokens = []string{"@", ":", " ", "!", ";", "=", "\\", "\x01", "A", "1", "#", "\t", "\xc2\x85", "PRIVMSG", "NOTICE", "ACTION", "CTCP", "PING", "001", ":x", " :"}

// parseCase compares the real parser (and accessors) with the model on s.
func parseCases(inputs []string, sig func(string) string) []Case {
	tables := resolveTables("parse", inputs)
	cases := make([]Case, 0, len(inputs))
	for i, s := range inputs {
		l, pan := safeParse(s)
		impl := encLine(l)
		cs := Case{
			Desc:   fmt.Sprintf("ParseLine(%q)", trunc(s, 80)),
			Reqs:   []string{"parse " + drv.H(s) + " " + tables[i]},
			Impl:   []string{impl},
			Key:    s,
			Replay: map[string]interface{}{"op": "ParseLine", "line_hex": drv.H(s), "impl": impl},
		}
		if sig != nil {
			cs.Sig = sig(s)
		}
		if pan != "" {
			cs.Impl = []string{"PANIC:" + pan}
			cs.Tag = "panic"
			cs.Replay.(map[string]interface{})["impl"] = "PANIC: " + pan
			cs.Spec = nil
			cs.Desc += " PANICS: " + pan
			cs.Sig = "parse-panic"
		} else if l != nil {
			cs.Tag = "parsed/" + l.Cmd
			if len(cs.Tag) > 24 {
				cs.Tag = "parsed/(long verb)"
			}
			acc, accPanic := implAcc(l)
			cs.Reqs = append(cs.Reqs, "acc "+drv.H(s)+" "+tables[i])
			cs.Impl = append(cs.Impl, acc)
			if accPanic {
				cs.Sig = "accessor-panic"
				cs.Desc += " accessor PANICS: " + acc
			} else {
				parts := strings.Fields(acc)
				text := strings.TrimPrefix(parts[0], "text=")
				pub := strings.TrimPrefix(parts[1], "public=")
				target := strings.TrimPrefix(parts[2], "target=")
				cs.Spec = []string{fmt.Sprintf("spec01acc %s %s %s %s", text, pub, target, impl)}
			}
		} else {
			cs.Tag = "rejected"
		}
		cases = append(cases, cs)
	}
	return cases
}

// panicsToSpecFailures: a Go panic in the parser or an accessor is a C02
// violation by itself, whatever the model says.
func (c *Ctx) flagPanics(cases []Case) {
	for _, cs := range cases {
		if cs.Sig == "parse-panic" || cs.Sig == "accessor-panic" {
			c.SpecFail("crash", cs.Desc, cs.Sig, cs.Impl[len(cs.Impl)-1], cs.Replay)
		}
	}
}

func tokenSeqs(n int) []string {
	if n == 0 {
		return []string{""}
	}
	var out []string
	for _, p := range tokenSeqs(n - 1) {
		for _, t := range c02Tokens {
			out = append(out, p+t)
		}
	}
	return out
}

var validSeeds = []string{
	":nick!user@host PRIVMSG #chan :hello world", ":irc.server 001 me :Welcome to IRC me!u@h", "PING :token", "@a=b;c :n!u@h NOTICE me :\x01VERSION x\x01",
	":n!u@h PRIVMSG me :\x01ACTION waves\x01", ":n!u@h JOIN #c", ":n!u@h KICK #c x :bye", ":s 353 me = #c :@a +b c", ":s 352 me #c u h s n H :0 real",
	":n!u@h MODE #c +o x", ":s 433 * nick :in use", "CAP * LS :sasl multi-prefix", "AUTHENTICATE +", ":n!u@h NICK new", ":n!u@h QUIT :gone", ":s 324 me #c +nt", ":n!u@h TOPIC #c :t",
}

func mutate(r *gen.R, s string) string {
	b := []byte(s)
	for k := r.Range(1, 3); k > 0; k-- {
		switch r.N(5) {
		case 0:
			if len(b) > 0 {
				i := r.N(len(b))
				b = append(b[:i], b[i+1:]...)
			}
		case 1:
			i := r.N(len(b) + 1)
			t := c02Tokens[r.N(len(c02Tokens))]
			b = append(b[:i], append([]byte(t), b[i:]...)...)
		case 2:
			if len(b) > 0 {
				b = b[:r.N(len(b))]
			}
		case 3:
			if len(b) > 0 {
				b[r.N(len(b))] = byte(r.N(256))
			}
		case 4:
			if len(b) > 0 {
				i := r.N(len(b))
				b = b[i:]
			}
		}
	}
	return string(b)
}

func c02Inputs(c *Ctx) []string {
	var inputs []string
	for n := 0; n <= 3; n++ {
		inputs = append(inputs, tokenSeqs(n)...)
	}
	if !c.Quick() {
		inputs = append(inputs, tokenSeqs(4)...)
	}
	for i := 0; i < c.Pick(15000, 150000); i++ {
		n := c.R.Range(4, 6)
		var sb strings.Builder
		for j := 0; j < n; j++ {
			sb.WriteString(c02Tokens[c.R.N(len(c02Tokens))])
		}
		inputs = append(inputs, sb.String())
	}
	for i := 0; i < c.Pick(5000, 50000); i++ {
		inputs = append(inputs, c.R.AnyBytes(c.R.N(24)))
		inputs = append(inputs, c.R.Bytes(c.R.N(16), "@: !;=\\\x01A1#\tpP"))
		inputs = append(inputs, mutate(c.R, validSeeds[c.R.N(len(validSeeds))]))
	}
	// CTCP-shaped payloads: PRIVMSG/NOTICE, a target, and a \x01-framed trailing built from few tokens
	ctcpTok := []string{" ", "\t", "\x01", "A", "ACTION", "action", "VERSION", "  ", "\xc2\x85", "x y"}
	for i := 0; i < c.Pick(6000, 60000); i++ {
		var sb strings.Builder
		if c.R.P(1, 2) {
			sb.WriteString(":n!u@h ")
		}
		sb.WriteString(c.R.Pick("PRIVMSG", "NOTICE", "privmsg", "Notice"))
		sb.WriteString(c.R.Pick(" me", " #c", "", " a b"))
		sb.WriteString(c.R.Pick(" :", " ", " :", " : "))
		sb.WriteString("\x01")
		for k := c.R.N(4); k > 0; k-- {
			sb.WriteString(ctcpTok[c.R.N(len(ctcpTok))])
		}
		if c.R.P(5, 6) {
			sb.WriteString("\x01")
		}
		inputs = append(inputs, sb.String())
	}
	return inputs
}

// c02Stream: the same kinds of lines over a real connection, in batches followed by a sync marker: the client
// must survive every line (no crash, connection keeps answering), lines that follow are still processed.
func c02Stream(c *Ctx, inputs []string) {
	// numbered well-formed lines are mixed into the stream, one after every second line; a handler records the numbers
	// it is given (and dawdles now and then, so that more than a queue-full of lines is waiting behind it): whatever
	// came before, the lines that follow are processed, and in order
	var seqMu sync.Mutex
	var seqs []int
	sess, err := newSession(nil, func(cn *client.Conn) {
		cn.EnableStateTracking()
		cn.HandleFunc("PRIVMSG", func(_ *client.Conn, l *client.Line) {
			if len(l.Args) == 2 && strings.HasPrefix(l.Args[1], "seq-") && l.Nick == "seqsrc" {
				n, _ := strconv.Atoi(l.Args[1][4:])
				seqMu.Lock()
				seqs = append(seqs, n)
				seqMu.Unlock()
				if n%60 == 0 {
					time.Sleep(3 * time.Millisecond)
				}
			}
		})
	})
	if err != nil {
		c.Res.Inconclusive++
		return
	}
	defer sess.close()
	sess.srv.SendLine(":irc.test 001 me :Welcome me!ident@host")
	nextSeq, checked := 0, 0
	batch := 200
	sent := 0
	limit := c.Pick(6000, 60000)
	extra := []string{":n!u@h PRIVMSG me :" + strings.Repeat("x", 5000), "@t=" + strings.Repeat("v", 6000) + " :n!u@h PRIVMSG me :hi", strings.Repeat("A", 4095), strings.Repeat("B", 4096), strings.Repeat("C", 4097), ":x " + strings.Repeat(" ", 5000)}
	for i := 0; i < len(inputs) && sent < limit; i += batch {
		var sb strings.Builder
		k := 0
		for j := i; j < i+batch && j < len(inputs); j++ {
			l := inputs[j]
			if strings.ContainsAny(l, "\r\n") {
				continue
			}
			sb.WriteString(l)
			sb.WriteString("\r\n")
			k++
			if k%2 == 0 {
				sb.WriteString(fmt.Sprintf(":seqsrc!u@h PRIVMSG me :seq-%d\r\n", nextSeq))
				nextSeq++
			}
		}
		if (i/batch)%5 == 0 {
			sb.WriteString(extra[(i/batch/5)%len(extra)])
			sb.WriteString("\r\n")
		}
		first := inputs[i]
		c.Journal(fmt.Sprintf("C02 stream: batch of %d lines starting with %q", k, trunc(first, 60)))
		sess.srv.Send(sb.String())
		sent += k
		c.Res.Evaluations++
		if !sess.sync(20 * time.Second) {
			c.SpecFail("spec", fmt.Sprintf("stream batch of %d lines starting with %q", k, trunc(first, 60)), "", "after this batch the client no longer answers (PING sync marker unanswered): later lines are not processed",
				map[string]interface{}{"op": "line-stream", "first_line_hex": drv.H(first), "batch": k})
			return
		}
		seqMu.Lock()
		got := append([]int(nil), seqs...)
		seqMu.Unlock()
		bad := ""
		if len(got) != nextSeq {
			bad = fmt.Sprintf("%d numbered lines were sent so far, the handler was given %d", nextSeq, len(got))
		}
		for q := checked; q < len(got) && bad == ""; q++ {
			if got[q] != q {
				bad = fmt.Sprintf("numbered line %d was dispatched where line %d was due", got[q], q)
			}
		}
		checked = len(got)
		if bad != "" {
			c.SpecFail("spec", fmt.Sprintf("stream batch of %d lines starting with %q, a numbered line after every second one, the handler for those dawdling now and then", k, trunc(first, 60)), "", bad,
				map[string]interface{}{"op": "line-stream", "first_line_hex": drv.H(first), "batch": k, "numbered_lines": nextSeq})
			return
		}
	}
	c.Res.Traces++
	c.Dist("stream-lines-survived")
}

func c02(c *Ctx) {
	trackedStage(c, "C02")
	inputs := c02Inputs(c)
	c02Stream(c, inputs)
	for i := 0; i < len(inputs); i += 20000 {
		j := i + 20000
		if j > len(inputs) {
			j = len(inputs)
		}
		cases := parseCases(inputs[i:j], nil)
		c.flagPanics(cases)
		c.RunCases(cases)
	}
}
