package main

import (
	"fmt"
	"strings"
	"time"

	"github.com/fluffle/goirc/client"

	"verif/harness/drv"
	"verif/harness/gen"
)

func init() {
	register("C11", "texts over an alphabet rich in the eight sentence separators and spaces, lengths clustered around k*(SplitLen-3)±3 and around SplitLen, SplitLen from {-5..14,23,64,450,1000}; plus a boundary corpus; a case is non-trivial when the text is actually split (tag = number of pieces, capped) and distinct by (SplitLen,text)", c11)
}

const c11Alpha = "ab .:;,!?\"' zQ\x00\xff\xc3\xa9"

func c11Text(r *gen.R, n int) string {
	switch r.N(6) {
	case 0:
		return r.Bytes(n, "a")
	case 1:
		return r.Bytes(n, "ab ")
	case 2:
		return r.AnyBytesNoNL(n)
	case 3: // runs of UTF-8 continuation / lead bytes with few spaces
		return r.Bytes(n, "\x80\x81\xbf\xbf\x80\xe2\xc3\xf0 ")
	default:
		return r.Bytes(n, c11Alpha)
	}
}

// splitGuarded runs the real splitMessage, turning a panic or a failure to terminate into a value.
func splitGuarded(text string, n int) (ps []string, bad string) {
	type res struct {
		ps  []string
		bad string
	}
	ch := make(chan res, 1)
	go func() {
		defer func() {
			if r := recover(); r != nil {
				ch <- res{nil, fmt.Sprint("PANIC: ", r)}
			}
		}()
		ch <- res{client.VerifSplitMessage(text, n), ""}
	}()
	select {
	case r := <-ch:
		return r.ps, r.bad
	case <-time.After(3 * time.Second):
		return nil, "DID NOT TERMINATE within 3s"
	}
}

var c11Abort bool

func c11Case(n int, text string) Case {
	ps, bad := splitGuarded(text, n)
	if bad != "" {
		if strings.HasPrefix(bad, "DID NOT") {
			c11Abort = true // the runaway goroutine keeps allocating: finish quickly
		}
		return Case{
			Desc:   fmt.Sprintf("splitMessage(len=%d, SplitLen=%d) %s; text=%q", len(text), n, bad, trunc(text, 60)),
			Reqs:   []string{"split " + itoa(n) + " " + drv.H(text)},
			Impl:   []string{bad},
			Spec:   []string{"spec11 " + itoa(n) + " " + drv.H(text) + " _"},
			Tag:    "panic-or-hang",
			Key:    itoa(n) + "|" + text,
			Replay: map[string]interface{}{"op": "splitMessage", "splitlen": n, "text_hex": drv.H(text), "impl": bad},
		}
	}
	tag := ""
	if len(ps) > 1 {
		k := len(ps)
		if k > 6 {
			k = 6
		}
		tag = fmt.Sprintf("pieces=%d", k)
	}
	return Case{
		Desc:   fmt.Sprintf("splitMessage(len=%d, SplitLen=%d) -> %d pieces; text=%q", len(text), n, len(ps), trunc(text, 60)),
		Reqs:   []string{"split " + itoa(n) + " " + drv.H(text)},
		Impl:   []string{drv.L(ps)},
		Spec:   []string{"spec11 " + itoa(n) + " " + drv.H(text) + " " + drv.L(ps)},
		Tag:    tag,
		Key:    itoa(n) + "|" + text,
		Replay: map[string]interface{}{"op": "splitMessage", "splitlen": n, "text_hex": drv.H(text), "impl_pieces_hex": drv.L(ps)},
	}
}

func trunc(s string, n int) string {
	if len(s) > n {
		return s[:n] + "…"
	}
	return s
}

var c11Lens = []int{-5, -1, 0, 1, 5, 12, 13, 14, 15, 16, 23, 64, 450, 1000}

func c11(c *Ctx) {
	c11Wire(c)
	var cases []Case
	// boundary corpus: separators at the start, only separators, exact multiples
	for _, n := range []int{0, 13, 14, 23} {
		e := n
		if e < 13 {
			e = 450
		}
		for _, t := range []string{"", " ", ". ", ". " + rep("a", e), " " + rep("a", e), rep("a", e), rep("a", e+1), rep(" ", e+5),
			rep(". ", e), rep("a", e-4) + ". b" + rep("c", e), rep("a", 3*(e-3)), rep("a", 3*(e-3)+1), "a " + rep("b", e), "a. " + rep("b", e),
			rep("a", e-3) + " " + rep("b", 5), rep("a", e-4) + " " + rep("b", 5), rep("a", e-5) + ", " + rep("b", 5), rep("\x80", e+1), "\xe2" + rep("\x80", e+5), rep("\xc3\xa9", e)} {
			cases = append(cases, c11Case(n, t))
		}
	}
	// fragment index itself
	for i := 0; i < c.Pick(2000, 20000); i++ {
		t := c.R.Bytes(c.R.N(24), " .,a:")
		cases = append(cases, Case{
			Desc: fmt.Sprintf("indexFragment(%q)", t),
			Reqs: []string{"frag " + drv.H(t)}, Impl: []string{itoa(client.VerifIndexFragment(t))},
			Tag: "frag", Key: t,
			Replay: map[string]interface{}{"op": "indexFragment", "text_hex": drv.H(t)},
		})
	}
	for i := 0; i < c.Pick(6000, 80000); i++ {
		n := c11Lens[c.R.N(len(c11Lens))]
		e := n
		if e < 13 {
			e = 450
		}
		var l int
		switch c.R.N(4) {
		case 0:
			l = c.R.N(e + 5)
		case 1:
			l = e + c.R.Range(-3, 3)
		case 2:
			l = c.R.Range(1, 6)*(e-3) + c.R.Range(-3, 3)
		default:
			l = c.R.N(c.Pick(4, 8) * e)
		}
		if l < 0 {
			l = 0
		}
		if l > 6000 {
			l = 6000
		}
		cases = append(cases, c11Case(n, c11Text(c.R, l)))
		if c11Abort {
			break
		}
		if len(cases) >= 5000 {
			c.RunCases(cases)
			cases = nil
		}
	}
	c.RunCases(cases)
	c11Commands(c)
}

// c11Commands: the property is about Privmsg / Notice / Action / Ctcp / CtcpReply, not only about the helper they
// share: each is called on a real Conn (outgoing queue captured) with targets of 1..700 bytes (single names, long
// recipient lists), every interesting SplitLen and texts around and far beyond it; the queued lines are compared
// with the model's `exec` (for which `privmsg_lines` / `ctcp_lines` prove: one line per piece of splitMessage of the
// text at cfg.SplitLen, same target) and the payloads are handed to the split Spec.
func c11Commands(c *Ctx) {
	var cases []Case
	methods := []cmdSpec{{"Privmsg", "bb", "Privmsg"}, {"Notice", "bb", "Notice"}, {"Privmsgln", "bb", "Privmsg"}, {"Action", "bb", "Action"},
		{"Ctcp", "bbl", "Ctcp"}, {"CtcpReply", "bbl", "CtcpReply"}}
	for i := 0; i < c.Pick(1500, 15000); i++ {
		m := methods[c.R.N(len(methods))]
		n := c11Lens[c.R.N(len(c11Lens))]
		e := n
		if e < 13 {
			e = 450
		}
		var target string
		switch c.R.N(5) {
		case 0:
			target = "#" + c.R.Bytes(c.R.Range(1, 20), "abcXYZ-_")
		case 1: // a long recipient list
			for len(target) < c.R.Range(60, 700) {
				target += c.R.Bytes(c.R.Range(3, 9), "abcdefgh") + ","
			}
		case 2:
			target = c.R.Bytes(c.R.Range(480, 520), "n")
		default:
			target = c.R.Bytes(c.R.Range(1, 12), "abc#&")
		}
		text := c11Text(c.R, []int{0, 1, e - 1, e, e + 1, 2*e + 3, c.R.N(4 * e)}[c.R.N(7)])
		cfg := client.NewConfig("me")
		// Config() hands out the live configuration: SplitLen set before Client() or changed through Config() afterwards
		// (a bot reconfigured at run time) is the value the next call splits by
		var conn *client.Conn
		if i%2 == 0 {
			cfg.SplitLen = n
			conn = client.Client(cfg)
		} else {
			conn = client.Client(cfg)
			conn.Config().SplitLen = n
		}
		a := []string{target, text}
		var v []string
		enc := []string{drv.H(target), drv.H(text)}
		up := "-"
		if m.kinds == "bbl" {
			verb := c.R.Pick("PING", "version", "x")
			a = []string{target, verb}
			for _, w := range strings.Split(text, " ") {
				v = append(v, w)
			}
			if text == "" {
				v = nil
			}
			enc = []string{drv.H(target), drv.H(verb), drv.L(v)}
			up = drv.H(strings.ToUpper(verb))
		}
		var lines []string
		bad := ""
		done := make(chan struct{})
		go func() {
			defer close(done)
			defer func() {
				if r := recover(); r != nil {
					bad = fmt.Sprint("PANIC: ", r)
				}
			}()
			lines = client.VerifCapture(conn, func() { callCmd(conn, m.name, a, v) })
		}()
		select {
		case <-done:
		case <-time.After(5 * time.Second):
			bad = "DID NOT TERMINATE within 5s"
		}
		impl := drv.L(lines)
		if bad != "" {
			impl = bad
		}
		tag := ""
		if len(lines) > 1 {
			tag = m.name + "/multi"
			if len(target) > 450 {
				tag += "/long-target"
			}
		}
		argstr := strings.Join(enc, " ")
		// the pieces the command put on the wire, unwrapped, judged by the split Spec against the configured SplitLen
		var spec []string
		if bad == "" {
			verb := "PRIVMSG"
			if m.model == "Notice" || m.model == "CtcpReply" {
				verb = "NOTICE"
			}
			prefix := verb + " " + target + " :"
			full := text
			open, shut := "", ""
			switch m.model {
			case "Action":
				open, shut = "\x01ACTION", "\x01"
			case "Ctcp", "CtcpReply":
				open, shut = "\x01"+strings.ToUpper(a[1]), "\x01"
				full = strings.Join(v, " ")
			}
			var pieces []string
			okShape := true
			for _, l := range lines {
				if !strings.HasPrefix(l, prefix+open) || !strings.HasSuffix(l, shut) || len(l) < len(prefix+open+shut) {
					okShape = false
					break
				}
				pc := l[len(prefix+open) : len(l)-len(shut)]
				if open != "" {
					if pc != "" && !strings.HasPrefix(pc, " ") {
						okShape = false
						break
					}
					pc = strings.TrimPrefix(pc, " ")
				}
				pieces = append(pieces, pc)
			}
			if okShape {
				spec = []string{"spec11 " + itoa(n) + " " + drv.H(full) + " " + drv.L(pieces)}
			} else {
				spec = []string{"spec11 " + itoa(n) + " " + drv.H(full) + " _"} // a line without the fixed prefix / wrapper: not a split of the text
			}
		}
		cases = append(cases, Case{
			Spec:   spec,
			Desc:   fmt.Sprintf("%s(target of %d bytes, text of %d bytes %q) SplitLen=%d -> %d lines", m.name, len(target), len(text), trunc(text, 30), n, len(lines)),
			Reqs:   []string{fmt.Sprintf("cmd %d %s %s %s %s", n, drv.H(cfg.QuitMessage), up, m.model, argstr)},
			Impl:   []string{impl},
			Tag:    tag,
			Key:    fmt.Sprintf("%s|%d|%s", m.name, n, argstr),
			Replay: map[string]interface{}{"op": "command", "method": m.name, "target_hex": drv.H(target), "text_hex": drv.H(text), "splitlen": n, "impl_lines_hex": impl},
		})
		if bad != "" && strings.HasPrefix(bad, "DID NOT") {
			break
		}
	}
	c.RunCases(cases)
}

// c11Wire: the same claim where the server sees it. The commands are issued on a real connection and the lines that
// ARRIVE are unwrapped and judged by the split Spec: every piece but the last ends in the marker, the pieces rejoin to
// the text, each is within SplitLen - also for SplitLen above the RFC's 512 and for long targets, i.e. for outgoing
// lines well beyond 510 bytes (nothing between the command and the socket may cut, wrap or re-split a piece).
func c11Wire(c *Ctx) {
	for k := 0; k < c.Pick(6, 40); k++ {
		n := []int{450, 500, 600, 1000, 64, 497}[k%6]
		sess, err := newSession(func(cfg *client.Config) { cfg.SplitLen = n }, nil)
		if err != nil {
			c.Res.Inconclusive++
			continue
		}
		for j := 0; j < 6; j++ {
			var target string
			switch c.R.N(3) {
			case 0:
				target = "#" + c.R.Bytes(c.R.Range(1, 20), "abcXYZ-_")
			case 1:
				target = c.R.Bytes(c.R.Range(50, 70), "n")
			default:
				target = c.R.Bytes(c.R.Range(300, 520), "abc,")
			}
			text := c11Text(c.R, []int{n - 1, n, n + 1, 2*n + 3, 3 * n, c.R.N(4 * n)}[c.R.N(6)])
			if strings.ContainsAny(text, "\r\n\x00") || strings.ContainsAny(target, "\r\n ") {
				continue
			}
			m := c.R.Pick("Privmsg", "Notice", "Action")
			verb, open, shut := "PRIVMSG", "", ""
			sess.srv.WaitLines(2, 5*time.Second) // the registration lines
			from := len(sess.srv.Lines())
			switch m {
			case "Privmsg":
				sess.conn.Privmsg(target, text)
			case "Notice":
				verb = "NOTICE"
				sess.conn.Notice(target, text)
			case "Action":
				open, shut = "\x01ACTION ", "\x01"
				sess.conn.Action(target, text)
			}
			mark := fmt.Sprintf("PING :c11-%d-%d", k, j)
			sess.conn.Raw(mark)
			end := sess.srv.WaitLine(from, func(l string) bool { return l == mark }, 10*time.Second)
			desc := fmt.Sprintf("%s(target of %d bytes, text of %d bytes %q) SplitLen=%d, as it arrives at the server", m, len(target), len(text), trunc(text, 30), n)
			rp := map[string]interface{}{"op": "command-on-the-wire", "method": m, "target_hex": drv.H(target), "text_hex": drv.H(text), "splitlen": n}
			if end < 0 {
				c.Res.Inconclusive++
				break
			}
			lines := sess.srv.Lines()[from:end]
			prefix := verb + " " + target + " :" + open
			var pieces []string
			ok := true
			for _, l := range lines {
				if !strings.HasPrefix(l, prefix) || !strings.HasSuffix(l, shut) || len(l) < len(prefix)+len(shut) {
					ok = false
					break
				}
				pieces = append(pieces, l[len(prefix):len(l)-len(shut)])
			}
			c.Res.Traces++
			tag := ""
			if len(lines) > 1 {
				tag = "wire/" + m + "/multi"
				for _, l := range lines {
					if len(l) > 510 {
						tag = "wire/" + m + "/multi/line>510"
					}
				}
			}
			sp := "spec11 " + itoa(n) + " " + drv.H(text) + " " + drv.L(pieces)
			if !ok || len(lines) == 0 {
				sp = "spec11 " + itoa(n) + " " + drv.H(text) + " _"
				desc += fmt.Sprintf(": a line arrived that is not `%s<piece>%s`: %q", trunc(prefix, 40), shut, lines)
			}
			c.RunCases([]Case{{Desc: desc, Spec: []string{sp}, Tag: tag, Key: desc, Replay: rp}})
		}
		sess.close()
	}
}

func rep(s string, n int) string {
	if n < 0 {
		n = 0
	}
	b := make([]byte, 0, len(s)*n)
	for i := 0; i < n; i++ {
		b = append(b, s...)
	}
	return string(b)
}
