package main

import (
	"fmt"
	"math"
	"strings"
	"time"

	sasl "github.com/emersion/go-sasl"
	"github.com/fluffle/goirc/client"

	"verif/harness/memconn"
)

func init() {
	register("C10", "(b) bursts of 6..9 lines (5..480 bytes) over a real connection with flood protection on, arrival times noted by the server end: Spec.Flood.windowOk (proved of the model: window_ok_of_valid) on (length, arrival time shifted by k x 250 ms); (a) rateLimit run on a scratch Conn in two regimes: exact (lastsent = zero time, so Now().Sub saturates to 2^63-1 ns and badness is chosen to land the new penalty on 10s-1ns, 10s, 10s+1ns, 0, negative-before-floor, ...; compared exactly with the model) and real clock (lastsent = now - gap, elapsed known to an interval between two harness clock reads; the interval Spec is evaluated on the implementation's result); chars 0..1200; non-trivial = penalty' within 2 charges of the 10 s threshold or floored at zero; distinct by (chars, badness, regime, target)", c10)
}

func c10(c *Ctx) {
	var cases []Case
	// probe the saturation the exact regime relies on
	sat := time.Now().Sub(time.Time{}) == time.Duration(math.MaxInt64)
	if !sat {
		c.Res.Notes = append(c.Res.Notes, "time.Now().Sub(zero) did not saturate; exact regime skipped")
	}
	const maxDur = int64(math.MaxInt64)
	ten := int64(10 * time.Second)
	if sat {
		for i := 0; i < c.Pick(4000, 60000); i++ {
			chars := c.R.N(1201)
			ch := int64(2*time.Second) + int64(chars)*int64(time.Second)/120
			// target: the value penalty + charge - elapsed should take
			var target int64
			switch c.R.N(8) {
			case 0:
				target = ten - 1
			case 1:
				target = ten
			case 2:
				target = ten + 1
			case 3:
				target = 0
			case 4:
				target = -int64(c.R.N(1000)) - 1
			case 5:
				target = ten + int64(c.R.N(3)) - 1 + int64(c.R.N(2))*int64(time.Second)
			default:
				target = int64(c.R.U64() % uint64(ch+1))
			}
			if target > ch { // b0 = maxDur - ch + target must fit in int64
				target = ch
			}
			b0 := maxDur - ch + target
			ret, b1, _ := client.VerifRateLimit(chars, time.Duration(b0), time.Time{})
			tag := ""
			if target <= 0 {
				tag = "exact/floor"
			} else if target >= ten-2*ch && target <= ten+2*ch {
				tag = "exact/near-threshold"
				if target == ten || target == ten-1 || target == ten+1 {
					tag = "exact/at-threshold"
				}
			}
			cases = append(cases, Case{
				Desc: fmt.Sprintf("rateLimit(chars=%d) badness=%d elapsed=2^63-1 -> ret=%d badness'=%d (target %d)", chars, b0, int64(ret), int64(b1), target),
				Reqs: []string{fmt.Sprintf("rate %d %d %d", chars, b0, maxDur)},
				Impl: []string{fmt.Sprintf("%d %d", int64(b1), int64(ret))},
				Spec: []string{fmt.Sprintf("spec10 %d %d %d %d %d %d", chars, b0, maxDur, maxDur, int64(ret), int64(b1))},
				Tag:  tag, Key: fmt.Sprintf("x|%d|%d", chars, b0),
				Replay: map[string]interface{}{"op": "rateLimit", "regime": "exact", "chars": chars, "badness": b0, "impl_ret": int64(ret), "impl_badness": int64(b1)},
			})
		}
	}
	for i := 0; i < c.Pick(4000, 60000); i++ {
		chars := c.R.N(511)
		ch := int64(2*time.Second) + int64(chars)*int64(time.Second)/120
		gap := int64(c.R.N(30_000)) * int64(time.Millisecond)
		var b0 int64
		switch c.R.N(4) {
		case 0:
			b0 = 0
		case 1: // aim the new penalty near the threshold
			b0 = ten - ch + gap + int64(c.R.Range(-2000, 2000))*1000
			if b0 < 0 {
				b0 = 0
			}
		default:
			b0 = int64(c.R.N(20_000)) * int64(time.Millisecond)
		}
		a := time.Now()
		ls := a.Add(-time.Duration(gap))
		ret, b1, ls1 := client.VerifRateLimit(chars, time.Duration(b0), ls)
		z := time.Now()
		lo, hi := int64(a.Sub(ls)), int64(z.Sub(ls))
		tag := ""
		exp := b0 + ch - lo
		if exp <= 0 {
			tag = "clock/floor"
		} else if exp >= ten-2*ch && exp <= ten+2*ch {
			tag = "clock/near-threshold"
		}
		cs := Case{
			Desc: fmt.Sprintf("rateLimit(chars=%d) badness=%d elapsed in [%d,%d] -> ret=%d badness'=%d", chars, b0, lo, hi, int64(ret), int64(b1)),
			Spec: []string{fmt.Sprintf("spec10 %d %d %d %d %d %d", chars, b0, lo, hi, int64(ret), int64(b1))},
			Tag:  tag, Key: fmt.Sprintf("c|%d|%d|%d", chars, b0, gap),
			Replay: map[string]interface{}{"op": "rateLimit", "regime": "clock", "chars": chars, "badness": b0, "gap_ns": gap, "elapsed_lo": lo, "elapsed_hi": hi, "impl_ret": int64(ret), "impl_badness": int64(b1)},
		}
		cases = append(cases, cs)
		if ls1.Before(a) || ls1.After(z) {
			c.SpecFail("spec", cs.Desc, "", "lastsent was not set to the current time", cs.Replay)
		}
	}
	c.RunCases(cases)
	c10Wire(c)
	c10Sasl(c)
	c10Reconnect(c)
}

// c10Wire: the rule seen from the server's side. A client with flood protection on sends a burst over a real
// connection; the server notes when every line (registration lines included) arrives. `Spec.Flood.windowOk` - which
// `Props.C10.window_ok_of_valid` proves of every run of the model - is evaluated on (length, arrival time). A line
// can only arrive later than the model's write time, never earlier; a late *first* line of a window would shrink the
// window, so arrival k is shifted by k x 250 ms before judging (sound as long as a sleep overshoots by less than that;
// a change that lets lines through more than 250 ms early is still seen).
// c10Sasl: every line is charged - the lines of a SASL exchange too - and nothing the handshake does may leave flood
// protection switched off. A client with SASL configured and protection on negotiates (in one variant the link drops
// after `CAP ACK :sasl`, before any 903, and the same client connects again), then sends a burst; the arrival times
// of ALL lines of the last connection are judged by the window predicate.
func c10Sasl(c *Ctx) {
	for v := 0; v < c.Pick(2, 4); v++ {
		dropFirst := v%2 == 1
		desc := fmt.Sprintf("SASL negotiation with flood protection on, then a burst of 7 lines (link dropped in mid-exchange first: %v)", dropFirst)
		c.Journal("C10 " + desc)
		sess, err := newSession(func(cfg *client.Config) {
			cfg.Flood = false
			cfg.EnableCapabilityNegotiation = true
			cfg.Sasl = sasl.NewPlainClient("", "user", "pw")
		}, nil)
		if err != nil {
			c.Res.Inconclusive++
			continue
		}
		negotiate := func(srv *memconn.Conn, upTo int) bool {
			from := 0
			step := func(send string, wantPrefix string) bool {
				if send != "" {
					srv.SendLine(send)
				}
				i := srv.WaitLine(from, func(l string) bool { return strings.HasPrefix(l, wantPrefix) }, 30*time.Second)
				if i < 0 {
					return false
				}
				from = i + 1
				return true
			}
			if !step("", "USER ") || !step(":irc.test CAP * LS :sasl", "CAP REQ") || !step(":irc.test CAP * ACK :sasl", "AUTHENTICATE PLAIN") {
				return false
			}
			if upTo == 1 {
				return true
			}
			return step("AUTHENTICATE +", "AUTHENTICATE ") && step(":irc.test 903 me :SASL authentication successful", "CAP END")
		}
		srv := sess.srv
		t0 := time.Now()
		if dropFirst {
			if !negotiate(srv, 1) {
				c.Res.Inconclusive++
				sess.close()
				continue
			}
			srv.EOF()
			if !waitFor(func() bool { return !sess.conn.Connected() }, 10*time.Second) || sess.conn.Connect() != nil {
				c.Res.Inconclusive++
				continue
			}
			select {
			case srv = <-sess.conns:
			case <-time.After(5 * time.Second):
				c.Res.Inconclusive++
				continue
			}
			sess.srv = srv
		}
		if !negotiate(srv, 2) {
			c.Res.Inconclusive++
			sess.close()
			continue
		}
		before := len(srv.Lines())
		go func() {
			for i := 0; i < 7; i++ {
				sess.conn.Raw(fmt.Sprintf("PRIVMSG #c :burst line %d %s", i, strings.Repeat("x", 40)))
			}
		}()
		ok := srv.WaitLines(before+7, 90*time.Second)
		lines, times := srv.Lines(), srv.LineTimes()
		sess.close()
		c.Res.Traces++
		if !ok {
			c.Res.Inconclusive++
			continue
		}
		var obs, shown []string
		for k := range lines {
			w := times[k].Sub(t0).Nanoseconds()
			obs = append(obs, fmt.Sprintf("%d:%d", len(lines[k]), w))
			shown = append(shown, fmt.Sprintf("%dB@%.2fs", len(lines[k]), times[k].Sub(t0).Seconds()))
		}
		c.RunCases([]Case{{Desc: desc + ": " + strings.Join(shown, " "), Spec: []string{"spec10ws 400000000 " + strings.Join(obs, ",")}, Tag: "wire-burst/after-sasl",
			Key: fmt.Sprintf("sasl/%d/%d", v, c.Seed), Replay: map[string]interface{}{"op": "wire-burst-after-sasl", "drop_first": dropFirst, "arrivals": shown}}})
	}
}

func c10Wire(c *Ctx) {
	for s := 0; s < c.Pick(3, 6); s++ {
		n := c.R.Range(6, 9)
		var lens []int
		for i := 0; i < n; i++ {
			lens = append(lens, []int{5, 20, 60, 119, 120, 121, 300, 480}[c.R.N(8)])
		}
		if s == 1 {
			// a burst of long lines of multi-byte text: 7 lines of 480-500 bytes (some 6 s each; the bound's own allowance
			// of 10 s plus two charges is 22 s here, so a shortfall shows only from the sixth or seventh line on)
			n, lens = 7, nil
			for i := 0; i < n; i++ {
				lens = append(lens, c.R.Range(480, 500))
			}
		}
		if s == 0 {
			// one sustained burst: 13 lines whose charge is just short of a whole number of seconds (2.99 s, 3.99 s): a hold
			// that is a little too short each time adds up
			n, lens = 13, nil
			for i := 0; i < n; i++ {
				lens = append(lens, []int{119, 119, 119, 239}[c.R.N(4)])
			}
		}
		desc := fmt.Sprintf("burst of %d lines of lengths %v over a real connection with flood protection on", n, lens)
		c.Journal("C10 wire: " + desc)
		// Config.Timeout (dial / ping; 0 = wait indefinitely) has no bearing on how long a line is held
		tmo := []time.Duration{5 * time.Second, 0, 500 * time.Millisecond}[(s+int(c.Seed))%3]
		desc += fmt.Sprintf(", Config.Timeout=%v", tmo)
		sess, err := newSession(func(cfg *client.Config) { cfg.Flood = false; cfg.Timeout = tmo }, nil)
		if err != nil {
			c.Res.Inconclusive++
			continue
		}
		// "Flood toggled on and off": in some bursts the application switches protection off for single lines (and waits
		// for each line to reach the server before it changes the switch again, so that it is known which lines were
		// written under which setting). A line written with Flood set is neither delayed nor charged, and it must not
		// disturb the penalty of the protected lines around it: the window bound is judged on the protected lines alone.
		prot := make([]bool, n)
		for i := range prot {
			prot[i] = true
		}
		toggled := (s+int(c.Seed))%2 == 1 && s > 1 // the sustained burst and the multi-byte burst are protected throughout
		if toggled {
			for i := 3; i < n; i++ {
				if i == 4 || c.R.P(1, 4) {
					prot[i] = false
				}
			}
		}
		if toggled {
			desc += fmt.Sprintf(", protection switched off for the lines at %v", func() (o []int) {
				for i, p := range prot {
					if !p {
						o = append(o, i)
					}
				}
				return
			}())
		}
		t0 := time.Now()
		issuedAt := make([]time.Time, n)
		go func() {
			for i, l := range lens {
				// every kind of line is subject to the rule: commands of the API, replies to server PINGs, raw lines
				pad := func(prefix string) string {
					for len(prefix) < l {
						if s == 1 && len(prefix)+3 <= l { // the charge is per BYTE: one burst is padded with three-byte characters
							prefix += "\xe2\x82\xac"
						} else {
							prefix += "x"
						}
					}
					return prefix
				}
				if toggled {
					sess.conn.Config().Flood = !prot[i]
				}
				issuedAt[i] = time.Now()
				form := (i + s + int(c.Seed)) % 4
				if s <= 1 { // the sustained burst, the multi-byte burst: raw lines of exactly the chosen lengths
					form = 3 * (i % 2)
				}
				switch form {
				case 0:
					sess.conn.Raw(pad("PRIVMSG #c :"))
				case 1:
					sess.conn.Pong(pad("t"))
				case 2:
					if l > 400 { // Notice would split a text beyond SplitLen into two lines
						sess.conn.Raw(pad("NOTICE #c :"))
					} else {
						sess.conn.Notice("#c", pad(""))
					}
				default:
					sess.conn.Raw(pad("PONG :"))
				}
				if toggled && !sess.srv.WaitLines(2+i+1, 60*time.Second) {
					return
				}
			}
		}()
		ok := sess.srv.WaitLines(2+n, 90*time.Second)
		if ok && s == 0 {
			// "held back EXACTLY when the penalty exceeds 10 s", "decays in real time": after the sustained burst the
			// client is idle for 16 s - longer than any penalty the rule can have built up (`penalty_invariant`: what
			// exceeds 10 s is covered by the last hold, at most one charge) - so the penalty is 0 again, and the next
			// four short lines (charges of 2.2 s: 8.7 s in all) must go out at once
			time.Sleep(16 * time.Second)
			for k := 0; k < 4; k++ {
				at := time.Now()
				sess.conn.Raw(fmt.Sprintf("PRIVMSG #c :tail %d", k))
				if !sess.srv.WaitLines(2+n+k+1, 30*time.Second) {
					ok = false
					break
				}
				if d := sess.srv.LineTimes()[2+n+k].Sub(at); d > 1500*time.Millisecond {
					c.SpecFail("spec", desc, "", fmt.Sprintf("after the burst and 16 s of silence the penalty is 0; short line %d of 4 was still held for %.2fs", k+1, d.Seconds()),
						map[string]interface{}{"op": "wire-burst", "lengths": lens, "idle_s": 16, "tail_line": k})
					break
				}
			}
		}
		lines, times := sess.srv.Lines(), sess.srv.LineTimes()
		sess.close()
		c.Res.Traces++
		if !ok || len(lines) < 2+n {
			c.Res.Inconclusive++
			c.Dist("wire-burst/incomplete")
			continue
		}
		var obs, shown []string
		for k := range lines {
			if k >= 2 && k-2 < len(prot) && !prot[k-2] {
				shown = append(shown, fmt.Sprintf("(%dB@%.2fs unprotected)", len(lines[k]), times[k].Sub(t0).Seconds()))
				if d := times[k].Sub(issuedAt[k-2]); d > 1900*time.Millisecond {
					// the shortest hold the rule knows is 2 s; the queue was empty when this line was issued
					c.SpecFail("spec", desc, "", fmt.Sprintf("line %d was written with Flood set and still reached the server only %.2fs after it was issued", k-2, d.Seconds()),
						map[string]interface{}{"op": "wire-burst", "lengths": lens, "unprotected": k - 2})
				}
				continue
			}
			w := times[k].Sub(t0).Nanoseconds()
			obs = append(obs, fmt.Sprintf("%d:%d", len(lines[k]), w))
			shown = append(shown, fmt.Sprintf("%dB@%.2fs", len(lines[k]), times[k].Sub(t0).Seconds()))
		}
		c.RunCases([]Case{{Desc: desc + ": " + strings.Join(shown, " "), Spec: []string{"spec10ws 400000000 " + strings.Join(obs, ",")}, Tag: map[bool]string{false: "wire-burst", true: "wire-burst/toggled"}[toggled],
			Key: fmt.Sprintf("%v/%d/%d", lens, s, c.Seed), Replay: map[string]interface{}{"op": "wire-burst", "lengths": lens, "arrivals": shown}}})
	}
}

// c10Reconnect: the penalty "decays in real time" - and in no other way: the same client sends a burst, closes the
// connection, connects again at once and goes on sending. The lines of both connections, in the order they reached the
// two servers, are one run of the same rate limiter and are judged as one by the window predicate.
func c10Reconnect(c *Ctx) {
	desc := "burst of 4 lines of 100 bytes, Close, Connect again at once, 4 more lines: both connections' lines judged as one run"
	c.Journal("C10 " + desc)
	sess, err := newSession(func(cfg *client.Config) { cfg.Flood = false }, nil)
	if err != nil {
		c.Res.Inconclusive++
		return
	}
	t0 := time.Now()
	var obs, shown []string
	collect := func(srv *memconn.Conn, n int) bool {
		go func() {
			for i := 0; i < 4; i++ {
				sess.conn.Raw("PRIVMSG #c :" + strings.Repeat("y", 88))
			}
		}()
		if !srv.WaitLines(n, 90*time.Second) {
			return false
		}
		lines, times := srv.Lines(), srv.LineTimes()
		for k := range lines[:n] {
			obs = append(obs, fmt.Sprintf("%d:%d", len(lines[k]), times[k].Sub(t0).Nanoseconds()))
			shown = append(shown, fmt.Sprintf("%dB@%.2fs", len(lines[k]), times[k].Sub(t0).Seconds()))
		}
		return true
	}
	if !collect(sess.srv, 6) || !sess.close() {
		c.Res.Inconclusive++
		return
	}
	shown = append(shown, "(Close, Connect)")
	if sess.conn.Connect() != nil {
		c.Res.Inconclusive++
		return
	}
	var srv2 *memconn.Conn
	select {
	case srv2 = <-sess.conns:
	case <-time.After(5 * time.Second):
		c.Res.Inconclusive++
		return
	}
	sess.srv = srv2
	ok := collect(srv2, 6)
	sess.close()
	c.Res.Traces++
	if !ok {
		c.Res.Inconclusive++
		return
	}
	c.RunCases([]Case{{Desc: desc + ": " + strings.Join(shown, " "), Spec: []string{"spec10ws 400000000 " + strings.Join(obs, ",")}, Tag: "wire-burst/across-reconnect",
		Key: fmt.Sprintf("reconnect/%d", c.Seed), Replay: map[string]interface{}{"op": "wire-burst-across-reconnect", "arrivals": shown}}})
}
