package main

import (
	"fmt"
	"math"
	"time"

	"github.com/fluffle/goirc/client"
)

func init() {
	register("C10", "rateLimit run on a scratch Conn in two regimes: exact (lastsent = zero time, so Now().Sub saturates to 2^63-1 ns and badness is chosen to land the new penalty on 10s-1ns, 10s, 10s+1ns, 0, negative-before-floor, ...; compared exactly with the model) and real clock (lastsent = now - gap, elapsed known to an interval between two harness clock reads; the interval Spec is evaluated on the implementation's result); chars 0..1200; non-trivial = penalty' within 2 charges of the 10 s threshold or floored at zero; distinct by (chars, badness, regime, target)", c10)
}

func c10(c *Ctx) {
	var cases []Case
	// probe the saturation the exact regime relies on
	sat := time.Now().Sub(time.Time{}) == time.Duration(math.MaxInt64)
	if !sat {
		c.Res.Notes = append(c.Res.Notes, "time.Now().Sub(zero) did not saturate; exact regime skipped")
	}
	const maxDur = int64(math.MaxInt64)
	ten := int64(10 * time.Second)
	if sat {
		for i := 0; i < c.Pick(4000, 60000); i++ {
			chars := c.R.N(1201)
			ch := int64(2*time.Second) + int64(chars)*int64(time.Second)/120
			// target: the value penalty + charge - elapsed should take
			var target int64
			switch c.R.N(8) {
			case 0:
				target = ten - 1
			case 1:
				target = ten
			case 2:
				target = ten + 1
			case 3:
				target = 0
			case 4:
				target = -int64(c.R.N(1000)) - 1
			case 5:
				target = ten + int64(c.R.N(3)) - 1 + int64(c.R.N(2))*int64(time.Second)
			default:
				target = int64(c.R.U64() % uint64(ch+1))
			}
			if target > ch { // b0 = maxDur - ch + target must fit in int64
				target = ch
			}
			b0 := maxDur - ch + target
			ret, b1, _ := client.VerifRateLimit(chars, time.Duration(b0), time.Time{})
			tag := ""
			if target <= 0 {
				tag = "exact/floor"
			} else if target >= ten-2*ch && target <= ten+2*ch {
				tag = "exact/near-threshold"
				if target == ten || target == ten-1 || target == ten+1 {
					tag = "exact/at-threshold"
				}
			}
			cases = append(cases, Case{
				Desc: fmt.Sprintf("rateLimit(chars=%d) badness=%d elapsed=2^63-1 -> ret=%d badness'=%d (target %d)", chars, b0, int64(ret), int64(b1), target),
				Reqs: []string{fmt.Sprintf("rate %d %d %d", chars, b0, maxDur)},
				Impl: []string{fmt.Sprintf("%d %d", int64(b1), int64(ret))},
				Spec: []string{fmt.Sprintf("spec10 %d %d %d %d %d %d", chars, b0, maxDur, maxDur, int64(ret), int64(b1))},
				Tag:  tag, Key: fmt.Sprintf("x|%d|%d", chars, b0),
				Replay: map[string]interface{}{"op": "rateLimit", "regime": "exact", "chars": chars, "badness": b0, "impl_ret": int64(ret), "impl_badness": int64(b1)},
			})
		}
	}
	for i := 0; i < c.Pick(4000, 60000); i++ {
		chars := c.R.N(511)
		ch := int64(2*time.Second) + int64(chars)*int64(time.Second)/120
		gap := int64(c.R.N(30_000)) * int64(time.Millisecond)
		var b0 int64
		switch c.R.N(4) {
		case 0:
			b0 = 0
		case 1: // aim the new penalty near the threshold
			b0 = ten - ch + gap + int64(c.R.Range(-2000, 2000))*1000
			if b0 < 0 {
				b0 = 0
			}
		default:
			b0 = int64(c.R.N(20_000)) * int64(time.Millisecond)
		}
		a := time.Now()
		ls := a.Add(-time.Duration(gap))
		ret, b1, ls1 := client.VerifRateLimit(chars, time.Duration(b0), ls)
		z := time.Now()
		lo, hi := int64(a.Sub(ls)), int64(z.Sub(ls))
		tag := ""
		exp := b0 + ch - lo
		if exp <= 0 {
			tag = "clock/floor"
		} else if exp >= ten-2*ch && exp <= ten+2*ch {
			tag = "clock/near-threshold"
		}
		cs := Case{
			Desc: fmt.Sprintf("rateLimit(chars=%d) badness=%d elapsed in [%d,%d] -> ret=%d badness'=%d", chars, b0, lo, hi, int64(ret), int64(b1)),
			Spec: []string{fmt.Sprintf("spec10 %d %d %d %d %d %d", chars, b0, lo, hi, int64(ret), int64(b1))},
			Tag:  tag, Key: fmt.Sprintf("c|%d|%d|%d", chars, b0, gap),
			Replay: map[string]interface{}{"op": "rateLimit", "regime": "clock", "chars": chars, "badness": b0, "gap_ns": gap, "elapsed_lo": lo, "elapsed_hi": hi, "impl_ret": int64(ret), "impl_badness": int64(b1)},
		}
		cases = append(cases, cs)
		if ls1.Before(a) || ls1.After(z) {
			c.SpecFail("spec", cs.Desc, "", "lastsent was not set to the current time", cs.Replay)
		}
	}
	c.RunCases(cases)
}
