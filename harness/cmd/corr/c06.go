package main

import (
	"crypto/tls"
	"errors"
	"github.com/fluffle/goirc/client"
	"verif/harness/memconn"

	"encoding/json"
	"fmt"
	"strings"
	"sync"
	"time"
)

func init() {
	register("C06", "life-cycle scenarios run against the real client in child processes: disconnect cause in {Close x 1..4 goroutines, EOF, read error, write error, context cancellation, and the pairwise coincidences} x {tracking, client pings, flood control, context-aware connect} x Connect-again-while-connected at two points x GOMAXPROCS in {1,2,4,16}; the recorded history (REGISTER/CONNECTED/DISCONNECTED with Connected() sampled inside, Connect/Close returns, liveness probes) is judged by Spec.Life (evaluated by the Lean driver); a child crash is a violation with the panic trace as replay; non-trivial = every completed scenario; distinct by scenario", c06)
	register("C07", "teardown scenarios in child processes: inbound backlog 0..600 lines in 1..8 segments behind a gated handler, outbound backlog 0..600 lines from a handler or a user goroutine with a slow server, flood control on/off, every disconnect cause, reconnect from the DISCONNECTED handler or from a goroutine woken by it, 1..3 cycles; teardown must complete (a stuck teardown is reported only with the goroutine dump showing library goroutines blocked on each other), no connection goroutine may remain, the fresh connection must register, answer and stay up, the tracker must be reset; history judged by Spec.Life; non-trivial = backlog > 64 or a reconnect; distinct by scenario", c07)
}

func lifeTokens(log []string) (string, []string) {
	var toks []string
	var extra []string
	for _, e := range log {
		switch {
		case strings.HasPrefix(e, "REGISTER flag="):
			toks = append(toks, "R"+e[len("REGISTER flag="):])
		case strings.HasPrefix(e, "CONNECTED flag="):
			toks = append(toks, "C"+e[len("CONNECTED flag="):])
		case strings.HasPrefix(e, "DISCONNECTED flag="):
			toks = append(toks, "D"+e[len("DISCONNECTED flag="):])
		case e == "connect-call":
			toks = append(toks, "CALL")
		case e == "connect-ret ok":
			toks = append(toks, "OK")
		case e == "connect-ret err":
			toks = append(toks, "ERR")
		case e == "connect-again ok":
			toks = append(toks, "AGAINOK")
		case e == "connect-again refused":
			toks = append(toks, "AGAINREF")
		case e == "alive":
			toks = append(toks, "ALIVE")
		case e == "not-alive":
			toks = append(toks, "DEAD")
		case strings.HasPrefix(e, "cause "):
			toks = append(toks, "CAUSE")
		case e == "close-ret":
			toks = append(toks, "CLOSERET")
		case e == "fresh-up":
			toks = append(toks, "FRESHUP")
		case strings.HasPrefix(e, "fresh-down"):
			toks = append(toks, "FRESHDOWN")
		case e == "close-when-closed fired events":
			toks = append(toks, "CWC")
		default:
			extra = append(extra, e)
		}
	}
	if len(toks) == 0 {
		return "_", extra
	}
	return strings.Join(toks, ","), extra
}

// judgeLife turns a scenario result into a Case (Spec.Life on the history) and direct failures.
func (c *Ctx) judgeLife(prop string, sc LifeScenario, r LifeResult, tag string) Case {
	b, _ := json.Marshal(sc)
	desc := "scenario " + string(b)
	rp := map[string]interface{}{"op": "life-scenario", "scenario": sc, "log": r.Log, "replay_cmd": "harness/bin/corr -scenario '" + string(b) + "'"}
	cs := Case{Desc: desc, Tag: tag, Key: string(b), Replay: rp}
	if r.Crash != "" {
		c.SpecFail("crash", desc, "", r.Crash, rp)
		return cs
	}
	if len(r.Log) == 0 && len(r.Notes) > 0 {
		c.Res.Inconclusive++
		c.Dist("inconclusive:" + r.Notes[0])
		cs.Tag = ""
		return cs
	}
	toks, extra := lifeTokens(r.Log)
	final := "1"
	if r.Stuck != "" {
		final = "0"
		// not a timing verdict: the dump must show library goroutines blocked on each other
		blocked := strings.Contains(r.Stuck, "[chan send]") || strings.Contains(r.Stuck, "[semacquire]") || strings.Contains(r.Stuck, "[sync.Mutex.Lock]") || strings.Contains(r.Stuck, "[sync.WaitGroup.Wait]") || strings.Contains(r.Stuck, "[select]")
		// a send goroutine inside `write` waiting on a timer is in a flood-control hold: it will come out of it by itself
		// (and then notice the teardown, or take the next queued line - with probability 1/2 each time): slow, not stuck
		if strings.Contains(r.Stuck, "write<send [chan receive]") || strings.Contains(r.Stuck, "[sleep]") {
			blocked = false
		}
		if blocked {
			c.SpecFail("spec", desc, "", "teardown did not complete: DISCONNECTED never delivered; library goroutines: "+r.Stuck, rp)
		} else {
			c.Res.Inconclusive++
		}
	}
	cs.Spec = []string{"spec06 " + final + " " + toks}
	if len(r.Leaked) > 0 && r.Stuck == "" {
		c.SpecFail("spec", desc, "", "goroutines of the connection remain after DISCONNECTED: "+strings.Join(r.Leaked, " | "), rp)
	}
	for _, e := range extra {
		if strings.HasPrefix(e, "stale-") {
			c.SpecFail("spec", desc, "", "the fresh connection is affected by the previous one: "+e, rp)
		}
		if strings.HasPrefix(e, "tracker ") && sc.Track {
			// after a reconnect the tracker holds just the client itself
			if !strings.Contains(e, "nicks=[N(6d65,") || !strings.HasSuffix(e, "|chans=[]") || strings.Count(e, "N(") != 2 {
				c.SpecFail("spec", desc, "", "tracker not reset to just the client after reconnect: "+e, rp)
			}
		}
	}
	if r.ReconnectStuck != "" && (strings.Contains(r.ReconnectStuck, "Connect") || strings.Contains(r.ReconnectStuck, "initialise")) &&
		(strings.Contains(r.ReconnectStuck, "Lock]") || strings.Contains(r.ReconnectStuck, "[semacquire]") || strings.Contains(r.ReconnectStuck, "[chan ")) {
		c.SpecFail("spec", desc, "", "the client cannot connect again: a Connect made after DISCONNECTED had not returned after 10 s; library goroutines: "+r.ReconnectStuck, rp)
	}
	if sc.CarelessSender { // its lines may reach the new connection's queue before the registration is dispatched: they are not part of it
		var t []string
		for _, l := range r.Transcript {
			if !strings.HasPrefix(l, "PRIVMSG #c :user out ") {
				t = append(t, l)
			}
		}
		if len(t) < 2 { // the snapshot was taken before the registration had reached the wire behind them: nothing to judge
			t = nil
		}
		r.Transcript = t
	}
	if sc.Reconnect != "" && r.Stuck == "" && len(r.Transcript) > 0 {
		if sc.Flood && (len(r.Transcript) < 2 || r.Transcript[0] != "NICK me" || r.Transcript[1] != "USER ident 12 * :Real") {
			c.SpecFail("spec", desc, "", fmt.Sprintf("registration not sent on the fresh connection: %q", r.Transcript), rp)
		}
	}
	return cs
}

func runScenarios(c *Ctx, prop string, scs []LifeScenario, tags []string) {
	results := make([]LifeResult, len(scs))
	var wg sync.WaitGroup
	sem := make(chan struct{}, 12)
	for i := range scs {
		wg.Add(1)
		sem <- struct{}{}
		go func(i int) {
			defer wg.Done()
			defer func() { <-sem }()
			results[i] = runChild(scs[i], 40*time.Second)
		}(i)
	}
	wg.Wait()
	var cases []Case
	for i := range scs {
		cases = append(cases, c.judgeLife(prop, scs[i], results[i], tags[i]))
		c.Res.Traces++
	}
	c.RunCases(cases)
}

// c06Refusals: a Connect that fails - no server configured, the dial fails, the TLS handshake fails after a
// successful dial, an unusable proxy URL - fires no event and leaves the client unconnected: Connected() is false,
// Close does nothing, and once the cause is removed the same client connects, registers once and ends with one
// DISCONNECTED. Judged by Spec.Life on the recorded history.
func c06Refusals(c *Ctx, prop string) {
	kinds := []string{"no-server", "dial-error", "tls-handshake", "bad-proxy-url"}
	for i := 0; i < c.Pick(8, 40); i++ {
		kind := kinds[i%len(kinds)]
		track := c.R.Bool()
		// in every other run the application does not call Close after the failed attempt: it just tries again
		withClose := (i/len(kinds))%2 == 0
		desc := fmt.Sprintf("Connect fails (%s), then Close (%v), then the cause is removed and the same client connects (tracking=%v)", kind, withClose, track)
		c.Journal(prop + " refusal: " + desc)
		url, conns := memconn.Listen()
		cfg := client.NewConfig("me", "ident", "Real")
		cfg.Server, cfg.Proxy, cfg.Flood, cfg.PingFreq, cfg.Timeout = "irc.test", url, true, 0, 3*time.Second
		switch kind {
		case "no-server":
			cfg.Server = ""
		case "dial-error":
			memconn.FailDial(url, errors.New("connection refused"))
		case "tls-handshake":
			cfg.SSL = true
			cfg.SSLConfig = &tls.Config{InsecureSkipVerify: true}
		case "bad-proxy-url":
			cfg.Proxy = "nosuchscheme://x"
		}
		conn := client.Client(cfg)
		if track {
			conn.EnableStateTracking()
		}
		lg := &lifeLog{}
		conn.HandleFunc(client.REGISTER, func(cn *client.Conn, _ *client.Line) { lg.add("REGISTER flag=%s", flagStr(cn.Connected())) })
		conn.HandleFunc(client.CONNECTED, func(cn *client.Conn, _ *client.Line) { lg.add("CONNECTED flag=%s", flagStr(cn.Connected())) })
		conn.HandleFunc(client.DISCONNECTED, func(cn *client.Conn, _ *client.Line) { lg.add("DISCONNECTED flag=%s", flagStr(cn.Connected())) })
		evCount := func() int { return lg.count("REGISTER") + lg.count("CONNECTED") + lg.count("DISCONNECTED") }
		lg.add("connect-call")
		res := make(chan error, 1)
		go func() { res <- conn.Connect() }()
		if kind == "tls-handshake" { // the dial succeeds; the peer then answers the ClientHello with something that is not TLS
			select {
			case srv := <-conns:
				srv.Send("ERROR :this port does not speak TLS\r\n")
				time.Sleep(time.Millisecond)
				srv.EOF()
			case <-time.After(3 * time.Second):
			}
		}
		var err error
		select {
		case err = <-res:
		case <-time.After(10 * time.Second):
			c.SpecFail("spec", desc, "", "Connect neither succeeded nor failed within 10s", map[string]interface{}{"op": "failed-connect", "kind": kind})
			continue
		}
		if err != nil {
			lg.add("connect-ret err")
		} else {
			lg.add("connect-ret ok")
		}
		flagAfter := conn.Connected()
		n := evCount()
		if withClose {
			conn.Close()
			time.Sleep(2 * time.Millisecond)
			if evCount() != n {
				lg.add("close-when-closed fired events")
			}
		}
		// remove the cause
		cfg.Server, cfg.Proxy, cfg.SSL = "irc.test", url, false
		memconn.FailDial(url, nil)
		lg.add("connect-call")
		err2 := conn.Connect()
		if err2 != nil {
			lg.add("connect-ret err")
		} else {
			lg.add("connect-ret ok")
			select {
			case srv := <-conns:
				s2 := &session{conn: conn, srv: srv}
				if s2.sync(3*time.Second) && conn.Connected() {
					lg.add("alive")
				} else {
					lg.add("not-alive")
				}
			case <-time.After(2 * time.Second):
				lg.add("not-alive")
			}
			lg.add("cause close")
			conn.Close()
			lg.add("close-ret")
			waitFor(func() bool { return lg.count("DISCONNECTED") >= 1 }, 3*time.Second)
		}
		lg.mu.Lock()
		evs := append([]string(nil), lg.evs...)
		lg.mu.Unlock()
		toks, _ := lifeTokens(evs)
		c.Res.Traces++
		rp := map[string]interface{}{"op": "failed-connect", "kind": kind, "track": track, "close_in_between": withClose, "log": evs}
		if err == nil || flagAfter {
			c.SpecFail("spec", desc, "", fmt.Sprintf("the failing Connect returned %v and left Connected() = %v", err, flagAfter), rp)
		}
		if err2 != nil {
			c.SpecFail("spec", desc, "", "after the cause was removed the same client could not connect: "+err2.Error(), rp)
		}
		c.RunCases([]Case{{Desc: desc, Spec: []string{"spec06 1 " + toks}, Tag: "failed-connect/" + kind, Key: fmt.Sprintf("%s/%s/%v/%d/%d", prop, kind, track, i, c.Seed), Replay: rp}})
	}
}

func c06(c *Ctx) {
	c06Refusals(c, "C06")
	causes := []string{"close", "eof", "readerr", "writeerr", "cancel", "close+eof", "close+writeerr", "cancel+eof", "close+cancel", "eof+writeerr"}
	var scs []LifeScenario
	var tags []string
	procs := []int{1, 2, 4, 16}
	for ci, cause := range causes {
		for k := 0; k < c.Pick(3, 16); k++ {
			sc := LifeScenario{Cause: cause, Closers: c.R.Range(1, 4), Flood: c.R.P(3, 4), Track: c.R.Bool(), UseCtx: c.R.Bool(),
				AfterLines: c.R.N(5), GoMaxProcs: procs[(ci+k)%4]}
			if c.R.P(1, 3) {
				sc.PingFreqMs = 20
			}
			if c.R.P(1, 4) {
				sc.ConnectAgain = c.R.Pick("early", "mid")
			}
			scs = append(scs, sc)
			tags = append(tags, "cause="+cause)
		}
	}
	// the ping ticker fires (every millisecond) while the teardown is in progress: closing the socket is slow
	for k := 0; k < c.Pick(4, 16); k++ {
		scs = append(scs, LifeScenario{Cause: causes[c.R.N(len(causes))], Closers: c.R.Range(1, 2), Flood: true, Track: c.R.Bool(), PingFreqMs: 1,
			SlowCloseMs: c.R.Range(5, 40), GoMaxProcs: procs[k%4]})
		tags = append(tags, "ping-ticks-during-slow-teardown")
	}
	// Connect from another goroutine while a Close is still waiting for a running handler
	for k := 0; k < c.Pick(3, 12); k++ {
		scs = append(scs, LifeScenario{Cause: "close", Closers: 1, Flood: true, Track: c.R.Bool(), ConnectDuringClose: true, GoMaxProcs: procs[k%4]})
		tags = append(tags, "connect-during-close")
	}
	// Connect again while connected, every configuration
	for _, tr := range []bool{false, true} {
		scs = append(scs, LifeScenario{Cause: "close", Closers: 1, Flood: true, Track: tr, ConnectAgain: "early"})
		tags = append(tags, "connect-again")
	}
	// the DISCONNECTED handler calls Close itself (the client is not connected by then: nothing happens, the call returns);
	// and a server that keeps PINGing a client whose peer... is the server itself, no longer reading: the PONGs pile up
	for i, cause := range []string{"close", "eof"} {
		// (a peer that no longer reads and then hangs up is not a scenario: its kernel answers the writes in flight with a
		// reset. The stalled-peer connection is ended by the client: Close, or its context.)
		stalledCause := []string{"close", "cancel"}[i]
		scs = append(scs, LifeScenario{Cause: cause, Closers: 1, Flood: true, CloseInDiscHandler: true, AfterLines: 1},
			LifeScenario{Cause: stalledCause, Closers: 1, Flood: true, UseCtx: true, SlowServer: true, PeerStalled: true, InBacklog: 80, InSegments: 2, BacklogKind: "pings"})
		tags = append(tags, "close-inside-disconnected-handler", "peer-stalled+backlog-of-pings")
		// the same PINGs, not held back by a gated handler: the built-in handler is in the middle of answering them (its
		// answers have nowhere to go) when the client ends the connection
		scs = append(scs, LifeScenario{Cause: stalledCause, Closers: 1, Flood: true, UseCtx: true, SlowServer: true, PeerStalled: true, LivePings: 80})
		tags = append(tags, "peer-stalled+pings-being-answered")
	}
	// a user goroutine is still handing over lines when the connection ends (nobody waits for it; what it had left is lost
	// with the connection); a goroutine woken by the DISCONNECTED handler connects again
	scs = append(scs, LifeScenario{Cause: "close", Closers: 1, Flood: true, SlowServer: true, OutBacklog: 200, OutFrom: "user", CarelessSender: true, Reconnect: "goroutine", Cycles: 1},
		LifeScenario{Cause: "eof", Closers: 1, Flood: true, SlowServer: true, OutBacklog: 200, OutFrom: "user", CarelessSender: true, Reconnect: "goroutine", Cycles: 1})
	tags = append(tags, "user-sender-outlives-connection+reconnect", "user-sender-outlives-connection+reconnect")
	// two goroutines call Connect on a client that is down, the first one's dial still under way when the second calls:
	// one connection results, one call is refused, and the life cycle of that one connection is as ever
	for _, cause := range []string{"close", "eof", "cancel"} {
		scs = append(scs, LifeScenario{Cause: cause, Closers: 1, Flood: true, UseCtx: true, OverlapConnect: true, AfterLines: 2, Track: cause == "eof"})
		tags = append(tags, "overlapping-connects")
	}
	// the peer has stopped reading for good: a line is in flight inside the socket write, more are queued, a handler may be
	// blocked on the queue; Close / cancellation must still complete (closing the socket is what releases the write)
	for _, cause := range []string{"close", "cancel"} {
		scs = append(scs, LifeScenario{Cause: cause, Closers: 1, Flood: true, UseCtx: true, SlowServer: true, PeerStalled: true, OutBacklog: 60, OutFrom: "user"},
			LifeScenario{Cause: cause, Closers: 1, Flood: true, UseCtx: true, SlowServer: true, PeerStalled: true, OutBacklog: 60, OutFrom: "handler"})
		tags = append(tags, "peer-stalled-for-good/"+cause, "peer-stalled-for-good/"+cause)
		// the same with keep-alive PINGs coming due during the stall (the ping goroutine then sits on the full queue too)
		scs = append(scs, LifeScenario{Cause: cause, Closers: 1, Flood: true, UseCtx: true, SlowServer: true, PeerStalled: true, OutBacklog: 60, OutFrom: "handler", PingFreqMs: 10, SilentMs: 100})
		tags = append(tags, "peer-stalled-for-good+pings-due/"+cause)
	}
	// flood protection ON and saturated: the send goroutine sits in a hold, the queue is full, a handler is blocked on it,
	// and then the connection ends (context cancelled, Close, EOF): the teardown still happens, once
	for _, cause := range []string{"cancel", "close", "eof"} {
		scs = append(scs, LifeScenario{Cause: cause, Closers: 1, Flood: false, UseCtx: true, OutBacklog: 45, OutFrom: "handler"})
		tags = append(tags, "flood-hold+full-queue+"+cause)
	}
	// Config.Timeout set to a small value while a foreground handler keeps working for longer than that after the
	// connection has begun to go down: the teardown still waits for it (Timeout bounds the dial and the ping, nothing else)
	for _, cause := range []string{"close", "eof"} {
		scs = append(scs, LifeScenario{Cause: cause, Closers: 1, Flood: true, InBacklog: 2, TimeoutMs: 100, HoldMs: 400},
			LifeScenario{Cause: cause, Closers: 1, Flood: true, InBacklog: 2, TimeoutMs: 100, HoldMs: 400, OutBacklog: 5, OutFrom: "handler", Reconnect: "goroutine", Cycles: 1})
		tags = append(tags, "small-timeout-slow-handler", "small-timeout-slow-handler+reconnect")
	}
	// the context handed to ConnectContext is already done, or ends while a context-unaware dialer is at work
	for _, when := range []string{"before", "during"} {
		scs = append(scs, LifeScenario{Cause: "cancel", Flood: true, CancelEarly: when, GoMaxProcs: []int{1, 4}[c.R.N(2)]})
		tags = append(tags, "context-done-"+when+"-the-dial")
	}
	// background handlers are not on the event loop: one that is still at work must not hold up the teardown, and one
	// may itself call Close (a "!quit" command handled in the background)
	for _, cause := range []string{"close", "eof", "cancel"} {
		scs = append(scs, LifeScenario{Cause: cause, Closers: 1, Flood: true, BgBusy: true, InBacklog: c.R.N(4)})
		tags = append(tags, "background-handler-busy-during-teardown")
	}
	scs = append(scs, LifeScenario{Cause: "close", Closers: 1, Flood: true, CloseFromBg: true}, LifeScenario{Cause: "close", Closers: 1, Flood: true, CloseFromBg: true, Reconnect: "goroutine", Cycles: 1})
	tags = append(tags, "close-from-background-handler", "close-from-background-handler")
	// a server that stays connected but silent (it never answers the client's PINGs) for many ping periods: whatever the
	// client makes of that, a later Close / EOF must still complete, events fire once, and it can connect again
	for _, cause := range []string{"close", "eof"} {
		scs = append(scs, LifeScenario{Cause: cause, Closers: 1, Flood: true, PingFreqMs: 10, SilentMs: 400, Reconnect: "goroutine", Cycles: 1})
		tags = append(tags, "silent-server-unanswered-pings")
	}
	runScenarios(c, "C06", scs, tags)
}

func c07(c *Ctx) {
	// a failed attempt (no server, refused dial, TLS handshake failing after the dial, unusable proxy) is one of the ways a
	// connection ends: the same client must be able to connect afterwards, with or without a Close in between
	c06Refusals(c, "C07")
	var scs []LifeScenario
	var tags []string
	causes := []string{"close", "eof", "readerr", "writeerr", "cancel", "close+eof"}
	backs := []int{0, 1, 31, 33, 64, 66, 100, 300, 600}
	// corpus: the four shapes that exposed defects on the pinned tree
	scs = append(scs,
		LifeScenario{Cause: "close", Closers: 1, Flood: true, InBacklog: 100, InSegments: 1},
		LifeScenario{Cause: "close", Closers: 1, Flood: true, OutBacklog: 100, OutFrom: "handler", SlowServer: true},
		LifeScenario{Cause: "close", Closers: 1, Flood: true, Reconnect: "handler", Cycles: 1},
		LifeScenario{Cause: "cancel", Flood: true, OutBacklog: 100, OutFrom: "handler", SlowServer: true},
		LifeScenario{Cause: "eof", Flood: true, Track: true, InBacklog: 120, InSegments: 2, BacklogKind: "mixed"},
		LifeScenario{Cause: "close", Closers: 1, Flood: true, Track: true, InBacklog: 40, InSegments: 1, BacklogKind: "mixed"})
	for _, cause := range []string{"close", "eof", "cancel"} {
		scs = append(scs, LifeScenario{Cause: cause, Closers: 1, Flood: true, HandlerPanics: true, InBacklog: 3})
		tags = append(tags, "handler-panics-during-teardown")
	}
	scs = append(scs,
		LifeScenario{Cause: "close", Closers: 1, Flood: true, InBacklog: 300, InSegments: 3, Reconnect: "goroutine", Cycles: 1},
		LifeScenario{Cause: "eof", Closers: 1, Flood: true, Track: true, InBacklog: 300, InSegments: 2, BacklogKind: "mixed", Reconnect: "handler", Cycles: 1},
		LifeScenario{Cause: "close", Closers: 1, Flood: true, OutBacklog: 100, OutFrom: "handler", SlowServer: true, Reconnect: "goroutine", Cycles: 1})
	tags = append(tags, "leftovers/in-backlog+reconnect", "leftovers/mixed-backlog+reconnect", "leftovers/out-backlog+reconnect")
	for _, cause := range []string{"close", "eof", "cancel", "writeerr"} {
		scs = append(scs, LifeScenario{Cause: cause, Closers: 1, Flood: true, HandlerAsksFlag: true, InBacklog: c.R.N(5)})
		tags = append(tags, "handler-asks-Connected-during-teardown")
	}
	tags = append(tags[:len(tags)-10], append([]string{"corpus/in-backlog", "corpus/out-backlog", "corpus/reconnect-in-handler", "corpus/cancel-blocked-handler", "corpus/mixed-backlog-eof", "corpus/mixed-backlog-close"}, tags[len(tags)-10:]...)...)
	for k := 0; k < c.Pick(24, 200); k++ {
		sc := LifeScenario{Cause: causes[c.R.N(len(causes))], Closers: c.R.Range(1, 3), Flood: c.R.P(4, 5), Track: c.R.Bool(), GoMaxProcs: []int{1, 2, 4, 16}[c.R.N(4)]}
		tag := "plain"
		switch c.R.N(4) {
		case 0:
			sc.InBacklog = backs[c.R.N(len(backs))]
			sc.InSegments = c.R.Range(1, 8)
			if c.R.Bool() {
				sc.BacklogKind = "mixed"
				sc.Track = true
			}
			sc.HandlerAsksFlag = c.R.P(1, 3)
			if c.R.Bool() { // whatever is left in the queues must not reach the next connection
				sc.Reconnect, sc.Cycles = c.R.Pick("handler", "goroutine"), 1
			}
			tag = fmt.Sprintf("in-backlog>64=%v/%s", sc.InBacklog > 64, sc.BacklogKind)
		case 1:
			sc.OutBacklog = backs[c.R.N(len(backs))]
			sc.OutFrom = c.R.Pick("handler", "user")
			sc.SlowServer = c.R.P(2, 3)
			if c.R.Bool() {
				sc.Reconnect, sc.Cycles = c.R.Pick("handler", "goroutine"), 1
			}
			tag = fmt.Sprintf("out-backlog>64=%v/%s", sc.OutBacklog > 64, sc.OutFrom)
		case 2:
			sc.Reconnect = c.R.Pick("handler", "goroutine")
			sc.Cycles = c.R.Range(1, 3)
			tag = "reconnect/" + sc.Reconnect
		default:
			sc.InBacklog = backs[c.R.N(len(backs))]
			sc.OutBacklog = backs[c.R.N(4)]
			sc.OutFrom = "user"
			sc.Reconnect = c.R.Pick("", "handler", "goroutine")
			sc.Cycles = 1
			tag = "mixed"
		}
		if sc.Reconnect != "" {
			// a second user-level Close that is scheduled late legitimately closes the *new* connection
			// (the public Close closes whatever is current), so reconnect scenarios use one closer at most
			sc.Closers = 1
			if strings.Contains(sc.Cause, "+") && strings.Contains(sc.Cause, "close") {
				sc.Cause = "eof"
			}
			sc.Flood = true // rate limiting of the registration lines is C10's subject; it only slows these scenarios down
		}
		if sc.BacklogKind == "mixed" {
			// the built-in handlers of these lines answer with MODE / WHO lines; with flood control on each of those is
			// held for seconds, recv cannot hand over the next line, and the EOF / error behind the backlog is not even
			// read within the scenario's time limit: that is C10's rate limit at work, not a teardown that hangs
			sc.Flood = true
		}
		if !sc.Flood && sc.OutBacklog > 8 {
			sc.OutBacklog = 8 // rate limiting would hold each line for seconds
		}
		scs = append(scs, sc)
		tags = append(tags, tag)
	}
	// the DISCONNECTED handler calls Close itself (the client is not connected by then: nothing happens, the call returns);
	// and a server that keeps PINGing a client whose peer... is the server itself, no longer reading: the PONGs pile up
	for i, cause := range []string{"close", "eof"} {
		// (a peer that no longer reads and then hangs up is not a scenario: its kernel answers the writes in flight with a
		// reset. The stalled-peer connection is ended by the client: Close, or its context.)
		stalledCause := []string{"close", "cancel"}[i]
		scs = append(scs, LifeScenario{Cause: cause, Closers: 1, Flood: true, CloseInDiscHandler: true, AfterLines: 1},
			LifeScenario{Cause: stalledCause, Closers: 1, Flood: true, UseCtx: true, SlowServer: true, PeerStalled: true, InBacklog: 80, InSegments: 2, BacklogKind: "pings"})
		tags = append(tags, "close-inside-disconnected-handler", "peer-stalled+backlog-of-pings")
		// the same PINGs, not held back by a gated handler: the built-in handler is in the middle of answering them (its
		// answers have nowhere to go) when the client ends the connection
		scs = append(scs, LifeScenario{Cause: stalledCause, Closers: 1, Flood: true, UseCtx: true, SlowServer: true, PeerStalled: true, LivePings: 80})
		tags = append(tags, "peer-stalled+pings-being-answered")
	}
	// a user goroutine is still handing over lines when the connection ends (nobody waits for it; what it had left is lost
	// with the connection); a goroutine woken by the DISCONNECTED handler connects again
	scs = append(scs, LifeScenario{Cause: "close", Closers: 1, Flood: true, SlowServer: true, OutBacklog: 200, OutFrom: "user", CarelessSender: true, Reconnect: "goroutine", Cycles: 1},
		LifeScenario{Cause: "eof", Closers: 1, Flood: true, SlowServer: true, OutBacklog: 200, OutFrom: "user", CarelessSender: true, Reconnect: "goroutine", Cycles: 1})
	tags = append(tags, "user-sender-outlives-connection+reconnect", "user-sender-outlives-connection+reconnect")
	// two goroutines call Connect on a client that is down, the first one's dial still under way when the second calls:
	// one connection results, one call is refused, and the life cycle of that one connection is as ever
	for _, cause := range []string{"close", "eof", "cancel"} {
		scs = append(scs, LifeScenario{Cause: cause, Closers: 1, Flood: true, UseCtx: true, OverlapConnect: true, AfterLines: 2, Track: cause == "eof"})
		tags = append(tags, "overlapping-connects")
	}
	// the peer has stopped reading for good: a line is in flight inside the socket write, more are queued, a handler may be
	// blocked on the queue; Close / cancellation must still complete (closing the socket is what releases the write)
	for _, cause := range []string{"close", "cancel"} {
		scs = append(scs, LifeScenario{Cause: cause, Closers: 1, Flood: true, UseCtx: true, SlowServer: true, PeerStalled: true, OutBacklog: 60, OutFrom: "user"},
			LifeScenario{Cause: cause, Closers: 1, Flood: true, UseCtx: true, SlowServer: true, PeerStalled: true, OutBacklog: 60, OutFrom: "handler"})
		tags = append(tags, "peer-stalled-for-good/"+cause, "peer-stalled-for-good/"+cause)
		// the same with keep-alive PINGs coming due during the stall (the ping goroutine then sits on the full queue too)
		scs = append(scs, LifeScenario{Cause: cause, Closers: 1, Flood: true, UseCtx: true, SlowServer: true, PeerStalled: true, OutBacklog: 60, OutFrom: "handler", PingFreqMs: 10, SilentMs: 100})
		tags = append(tags, "peer-stalled-for-good+pings-due/"+cause)
	}
	// flood protection ON and saturated: the send goroutine sits in a hold, the queue is full, a handler is blocked on it,
	// and then the connection ends (context cancelled, Close, EOF): the teardown still happens, once
	for _, cause := range []string{"cancel", "close", "eof"} {
		scs = append(scs, LifeScenario{Cause: cause, Closers: 1, Flood: false, UseCtx: true, OutBacklog: 45, OutFrom: "handler"})
		tags = append(tags, "flood-hold+full-queue+"+cause)
	}
	// Config.Timeout set to a small value while a foreground handler keeps working for longer than that after the
	// connection has begun to go down: the teardown still waits for it (Timeout bounds the dial and the ping, nothing else)
	for _, cause := range []string{"close", "eof"} {
		scs = append(scs, LifeScenario{Cause: cause, Closers: 1, Flood: true, InBacklog: 2, TimeoutMs: 100, HoldMs: 400},
			LifeScenario{Cause: cause, Closers: 1, Flood: true, InBacklog: 2, TimeoutMs: 100, HoldMs: 400, OutBacklog: 5, OutFrom: "handler", Reconnect: "goroutine", Cycles: 1})
		tags = append(tags, "small-timeout-slow-handler", "small-timeout-slow-handler+reconnect")
	}
	// the context handed to ConnectContext is already done, or ends while a context-unaware dialer is at work
	for _, when := range []string{"before", "during"} {
		scs = append(scs, LifeScenario{Cause: "cancel", Flood: true, CancelEarly: when, GoMaxProcs: []int{1, 4}[c.R.N(2)]})
		tags = append(tags, "context-done-"+when+"-the-dial")
	}
	// background handlers are not on the event loop: one that is still at work must not hold up the teardown, and one
	// may itself call Close (a "!quit" command handled in the background)
	for _, cause := range []string{"close", "eof", "cancel"} {
		scs = append(scs, LifeScenario{Cause: cause, Closers: 1, Flood: true, BgBusy: true, InBacklog: c.R.N(4)})
		tags = append(tags, "background-handler-busy-during-teardown")
	}
	scs = append(scs, LifeScenario{Cause: "close", Closers: 1, Flood: true, CloseFromBg: true}, LifeScenario{Cause: "close", Closers: 1, Flood: true, CloseFromBg: true, Reconnect: "goroutine", Cycles: 1})
	tags = append(tags, "close-from-background-handler", "close-from-background-handler")
	// a server that stays connected but silent (it never answers the client's PINGs) for many ping periods: whatever the
	// client makes of that, a later Close / EOF must still complete, events fire once, and it can connect again
	for _, cause := range []string{"close", "eof"} {
		scs = append(scs, LifeScenario{Cause: cause, Closers: 1, Flood: true, PingFreqMs: 10, SilentMs: 400, Reconnect: "goroutine", Cycles: 1})
		tags = append(tags, "silent-server-unanswered-pings")
	}
	runScenarios(c, "C07", scs, tags)
}
