package main

import (
	"fmt"
	"strings"
	"sync"
	"time"

	"github.com/fluffle/goirc/client"

	"verif/harness/drv"
)

func init() {
	register("C15", "lines with no, one, several, valueless and present-but-empty tag sections and 0..15 arguments delivered over a real connection to 2..4 foreground and 1..3 background handlers that are chained so that each one first records the line it received, then overwrites every argument, appends to the argument slice, rewrites and adds tags, and only then lets the next handler look; what every invocation saw must equal the parsed event (compared with the real ParseLine of the same bytes); later events must be unaffected; two more handlers (one foreground, one background) keep every *Line they are given and after the session every kept line must still say what it said; non-trivial = every line; distinct by line bytes", c15)
}

func c15(c *Ctx) {
	for s := 0; s < c.Pick(4, 30); s++ {
		nfg, nbg := c.R.Range(2, 4), c.R.Range(1, 3)
		// every third session has exactly one handler in each set (a set with a single handler is a natural place for
		// a shortcut) and no keepers; the others have several scribblers plus the two keepers
		lone := s%3 == 2
		if lone {
			nfg, nbg = 1, 1
		}
		if s%4 == 1 { // many handlers in each set: whatever the dispatcher does between starting one handler and the next has time to go wrong
			nfg, nbg = 16, 16
		}
		c.Journal(fmt.Sprintf("C15 session %d: %d fg + %d bg scribbling handlers receiving tagged and untagged PRIVMSG lines", s, nfg, nbg))
		total := nfg + nbg
		var mu sync.Mutex
		saw := map[string][]string{} // raw -> what each invocation saw
		var turn = map[string]chan struct{}{}
		getTurn := func(raw string) chan struct{} {
			mu.Lock()
			defer mu.Unlock()
			ch, ok := turn[raw]
			if !ok {
				ch = make(chan struct{}, 1)
				ch <- struct{}{}
				turn[raw] = ch
			}
			return ch
		}
		handler := func(_ *client.Conn, l *client.Line) {
			raw := l.Raw
			tk := getTurn(raw)
			<-tk // one at a time: the previous invocation has finished scribbling
			enc := encLine(l)
			mu.Lock()
			saw[raw] = append(saw[raw], enc)
			mu.Unlock()
			for i := range l.Args {
				l.Args[i] = "scribbled"
			}
			l.Args = append(l.Args, "extra")
			if l.Tags != nil {
				for k := range l.Tags {
					l.Tags[k] = "scribbled"
				}
				l.Tags["new-key"] = "x"
			} else {
				l.Tags = map[string]string{"new-key": "x"}
			}
			l.Nick, l.Ident, l.Host, l.Src, l.Cmd, l.Time = "scribbled", "scribbled", "scribbled", "scribbled", "SCRIBBLED", time.Time{}
			tk <- struct{}{}
		}
		// keepers: handlers that change nothing but keep the *Line they were given (with a record of what it said):
		// nothing that happens later - other handlers' edits, the dispatch of later lines - may change a kept line
		type kept struct {
			l   *client.Line
			enc string
		}
		var keptMu sync.Mutex
		var keeps []kept
		keeper := func(_ *client.Conn, l *client.Line) {
			e := encLine(l)
			keptMu.Lock()
			keeps = append(keeps, kept{l, e})
			keptMu.Unlock()
		}
		sess, err := newSession(nil, func(cn *client.Conn) {
			if s%2 == 0 { // the built-in state handlers see the line first: what THEY are given is theirs too
				cn.EnableStateTracking()
			}
			for _, ev := range []string{"PRIVMSG", "CTCP", "ACTION", "353", "MODE", "433"} { // a \x01-wrapped PRIVMSG is delivered as CTCP
				if !lone {
					cn.HandleFunc(ev, keeper)
					cn.HandleBG(ev, client.HandlerFunc(keeper))
				}
				for i := 0; i < nfg; i++ {
					cn.HandleFunc(ev, handler)
				}
				for i := 0; i < nbg; i++ {
					cn.HandleBG(strings.ToLower(ev), client.HandlerFunc(handler))
				}
			}
		})
		if err != nil {
			c.Res.Inconclusive++
			continue
		}
		var raws []string
		for i := 0; i < c.Pick(40, 200); i++ {
			var sb strings.Builder
			switch c.R.N(8) { // tag sections of every shape: absent, full, one tag, present but empty ("@ ", "@;", "@;;"), valueless
			case 0, 1, 2:
				sb.WriteString(fmt.Sprintf("@id=%d;k=v\\swith\\sspace;flag ", i))
			case 3:
				sb.WriteString(fmt.Sprintf("@only=%d ", i))
			case 4:
				sb.WriteString([]string{"@ ", "@; ", "@;; "}[c.R.N(3)])
			case 5:
				sb.WriteString("@flag ")
			}
			if c.R.P(1, 8) {
				// lines the built-in state handlers look at before the user's handlers get their copies: a names reply in
				// the RFC 1459 layout (three parameters), one in the RFC 2812 layout, a channel MODE
				raw := []string{fmt.Sprintf(":irc.test 353 me #chan%d :alice @bob +carol", i), fmt.Sprintf(":irc.test 353 me = #chan%d :alice @bob", i),
					fmt.Sprintf(":op!o@h MODE #chan%d +ov alice bob", i),
					// one the built-in handler chokes on (a 433 without the refused nick: it panics, the panic is recovered and
					// logged): what the recovery does with the line is its own business too
					fmt.Sprintf(":irc.test 433 :Nickname is already in use, please pick another one and try again (%d)", i)}[c.R.N(4)]
				raws = append(raws, raw)
				sess.srv.SendLine(raw)
				continue
			}
			if c.R.P(1, 8) {
				// a line with nothing a copy would have to duplicate: no tags, no parameters - its scalar fields are
				// the handler's own all the same
				raw := fmt.Sprintf(":n%d!u@h PRIVMSG", i)
				raws = append(raws, raw)
				sess.srv.SendLine(raw)
				continue
			}
			sb.WriteString(fmt.Sprintf(":n%d!u@h PRIVMSG", i))
			na := c.R.N(15)
			if c.R.P(1, 4) {
				na = 14 // the most the grammar allows in front of a trailing parameter
			}
			ctcpMiddle := na >= 2 && c.R.P(1, 4) // the parser looks for the CTCP wrapper in the SECOND parameter, wherever the line ends
			for a := 0; a < na; a++ {
				if a == 1 && ctcpMiddle {
					sb.WriteString(" \x01" + c.R.Pick("VERSION", "PING", "ACTION") + "\x01")
					continue
				}
				sb.WriteString(fmt.Sprintf(" a%d", a))
			}
			if c.R.P(1, 5) { // a CTCP: the parser prepends the CTCP verb, so 15 wire parameters become 16 arguments
				sb.WriteString(fmt.Sprintf(" :\x01%s text %d\x01", c.R.Pick("VERSION", "PING", "USERINFO"), i))
			} else {
				sb.WriteString(fmt.Sprintf(" :text %d", i))
			}
			raws = append(raws, sb.String())
			sess.srv.SendLine(sb.String())
		}
		sess.sync(20 * time.Second)
		waitFor(func() bool {
			mu.Lock()
			defer mu.Unlock()
			for _, r := range raws {
				if len(saw[r]) < total {
					return false
				}
			}
			return true
		}, 3*time.Second)
		sess.close()
		c.Res.Traces++
		keptMu.Lock()
		for _, k := range keeps {
			c.Res.Evaluations++
			if now := encLine(k.l); now != k.enc {
				c.SpecFail("spec", fmt.Sprintf("a line kept by a handler after it returned was changed by what happened later (line %q)", trunc(k.l.Raw, 60)), "", "kept: "+k.enc+" ; now: "+now,
					map[string]interface{}{"op": "keep-line", "line_hex": drv.H(k.l.Raw), "fg": nfg, "bg": nbg})
				break
			}
		}
		c.Dist(fmt.Sprintf("kept-lines-checked=%d", len(keeps)/100*100))
		keptMu.Unlock()
		mu.Lock()
		for _, r := range raws {
			want := encLine(client.ParseLine(r))
			c.Res.Evaluations++
			tag := "args"
			if strings.HasPrefix(r, "@") {
				tag = "args+tags"
				if pl := client.ParseLine(r); pl != nil && pl.Tags != nil && len(pl.Tags) == 0 {
					tag = "args+empty-tag-section"
				}
			}
			c.Dist("tag:" + tag)
			k := tag + "|" + r
			if !c.seen[k] {
				c.seen[k] = true
				c.Res.Distinct++
			}
			if len(c.Res.Samples) < 3 {
				c.Res.Samples = append(c.Res.Samples, map[string]interface{}{"case": fmt.Sprintf("%q delivered to %d fg + %d bg scribbling handlers", trunc(r, 80), nfg, nbg), "tag": tag})
			}
			if len(saw[r]) != total {
				c.SpecFail("spec", fmt.Sprintf("line %q: %d of %d handler invocations happened", trunc(r, 60), len(saw[r]), total), "", "", map[string]interface{}{"op": "scribble", "line_hex": drv.H(r)})
				continue
			}
			for i, got := range saw[r] {
				if got != want {
					c.SpecFail("spec", fmt.Sprintf("line %q: invocation #%d (after %d scribbling handlers) received a different line", trunc(r, 60), i, i), "", "saw "+got+" ; parsed event is "+want,
						map[string]interface{}{"op": "scribble", "line_hex": drv.H(r), "invocation": i, "fg": nfg, "bg": nbg})
					break
				}
			}
		}
		mu.Unlock()
	}
}
