package main

import (
	"bytes"
	"context"
	"encoding/json"
	"errors"
	"fmt"
	"os"
	"os/exec"
	"regexp"
	"runtime"
	"strings"
	"sync"
	"sync/atomic"
	"time"

	"github.com/fluffle/goirc/client"

	"verif/harness/memconn"
)

// LifeScenario is one way a connection lives and dies. It runs in a child
// process (a crash or a deadlock of the library must not take the harness down).
type LifeScenario struct {
	Track              bool   `json:"track"`
	PingFreqMs         int    `json:"pingfreq_ms"`
	Flood              bool   `json:"flood"`
	UseCtx             bool   `json:"use_ctx"`
	Cause              string `json:"cause"`   // close | eof | readerr | writeerr | cancel | close+eof | close+writeerr | cancel+eof | close+cancel
	Closers            int    `json:"closers"` // concurrent Close callers
	AfterLines         int    `json:"after_lines"`
	InBacklog          int    `json:"in_backlog"` // server lines still unprocessed when the cause strikes
	InSegments         int    `json:"in_segments"`
	OutBacklog         int    `json:"out_backlog"`   // lines a handler / user goroutine is emitting when the cause strikes
	OutFrom            string `json:"out_from"`      // handler | user
	SlowServer         bool   `json:"slow_server"`   // server does not read: the outgoing queue fills up
	ConnectAgain       string `json:"connect_again"` // "" | early | mid : Connect called again while connected
	Reconnect          string `json:"reconnect"`     // "" | handler | goroutine
	Cycles             int    `json:"cycles"`
	GoMaxProcs         int    `json:"gomaxprocs"`
	BacklogKind        string `json:"backlog_kind"`           // "" (NOTICE lines) | mixed (001 / 433 / JOIN / 352 / MODE: lines whose built-in handlers use Me() and the tracker)
	ConnectDuringClose bool   `json:"connect_during_close"`   // another goroutine calls Connect while Close is waiting for a running handler
	SlowCloseMs        int    `json:"slow_close_ms"`          // closing the socket takes this long (the ping ticker keeps firing meanwhile)
	HandlerAsksFlag    bool   `json:"handler_asks_connected"` // the gated handler calls Connected() once released, i.e. while the teardown is in progress
	HandlerPanics      bool   `json:"handler_panics"`         // the gated handler panics (default LogPanic recovery) once released, i.e. during the teardown
	BgBusy             bool   `json:"bg_busy"`                // a background handler is still at work during the whole teardown (it returns only after DISCONNECTED): teardown must not wait for it
	CloseFromBg        bool   `json:"close_from_bg"`          // the Close of cause "close" is called by a background handler
	CancelEarly        string `json:"cancel_early"`           // "" | before | during : the context given to ConnectContext is cancelled before the call / while the (context-unaware) dialer is at work
	SilentMs           int    `json:"silent_ms"`
	PeerStalled        bool   `json:"peer_stalled"`                  // with slow_server: the peer never reads again (a write in flight returns only when the socket is closed)
	TimeoutMs          int    `json:"timeout_ms"`                    // Config.Timeout (0 = the scenario's default of 3 s): a legal, rarely tuned value
	CloseInDiscHandler bool   `json:"close_in_disconnected_handler"` // the DISCONNECTED handler calls Close itself (a shared shutdown routine): on a client that is not connected that does nothing, and returns
	LivePings          int    `json:"live_pings"`                    // that many server PINGs arrive (and are being answered: nothing gates the event loop) just before the cause; with a peer that no longer reads the answers pile up
	CarelessSender     bool   `json:"careless_sender"`               // with out_from=user: the user goroutine goes on calling Privmsg whether or not the client is connected (it ends up waiting in Raw on the dead connection's full queue: an application goroutine, not one of the connection's)
	OverlapConnect     bool   `json:"overlap_connect"`               // two goroutines call Connect at about the same time while the client is down; the first one's dial takes a while
	HoldMs             int    `json:"hold_ms"`                       // the gated foreground handler keeps working this long after the cause (longer than Timeout, say)              // before the cause the server stays connected but silent for this long, never answering the client's PINGs (Timeout is set to a fifth of it)
}

type LifeResult struct {
	Log            []string `json:"log"`
	Stuck          string   `json:"stuck,omitempty"`           // non-empty: teardown did not complete; holds the wait-for evidence
	ReconnectStuck string   `json:"reconnect_stuck,omitempty"` // non-empty: a Connect made after DISCONNECTED had not returned after 10 s; holds the goroutine evidence
	Leaked         []string `json:"leaked,omitempty"`
	Transcript     []string `json:"transcript,omitempty"` // first lines of the last connection
	Notes          []string `json:"notes,omitempty"`
	Crash          string   `json:"crash,omitempty"`
}

type lifeLog struct {
	mu  sync.Mutex
	evs []string
}

func (l *lifeLog) add(f string, a ...interface{}) {
	l.mu.Lock()
	l.evs = append(l.evs, fmt.Sprintf(f, a...))
	l.mu.Unlock()
}
func (l *lifeLog) count(prefix string) int {
	l.mu.Lock()
	defer l.mu.Unlock()
	n := 0
	for _, e := range l.evs {
		if strings.HasPrefix(e, prefix) {
			n++
		}
	}
	return n
}

func flagStr(b bool) string {
	if b {
		return "1"
	}
	return "0"
}

var libFrame = regexp.MustCompile(`github.com/fluffle/goirc/client\.\(\*Conn\)\.(send|recv|runLoop|ping|Close|closeFor|Raw|write|dispatch|internalConnect)`)

// libGoroutines summarises goroutines that are inside library code: "func [state]".
func libGoroutines() []string {
	buf := make([]byte, 1<<20)
	buf = buf[:runtime.Stack(buf, true)]
	var out []string
	for _, g := range bytes.Split(buf, []byte("\n\n")) {
		lines := strings.Split(string(g), "\n")
		if len(lines) == 0 || !strings.HasPrefix(lines[0], "goroutine ") {
			continue
		}
		state := lines[0]
		if i := strings.Index(state, "["); i >= 0 {
			state = strings.TrimSuffix(state[i:], ":")
		}
		var frames []string
		for _, ln := range lines[1:] {
			if m := libFrame.FindStringSubmatch(ln); m != nil {
				frames = append(frames, m[1])
			}
		}
		if len(frames) > 0 {
			out = append(out, strings.Join(frames, "<")+" "+state)
		}
	}
	return out
}

func waitFor(cond func() bool, d time.Duration) bool {
	deadline := time.Now().Add(d)
	for time.Now().Before(deadline) {
		if cond() {
			return true
		}
		time.Sleep(500 * time.Microsecond)
	}
	return cond()
}

// runLifeScenario executes sc against the real client (child process).
func runLifeScenario(sc LifeScenario) LifeResult {
	if sc.GoMaxProcs > 0 {
		runtime.GOMAXPROCS(sc.GoMaxProcs)
	}
	var res LifeResult
	lg := &lifeLog{}
	url, conns := memconn.Listen()
	cfg := client.NewConfig("me", "ident", "Real")
	cfg.Server, cfg.Proxy = "irc.test", url
	cfg.Flood = sc.Flood
	cfg.PingFreq = time.Duration(sc.PingFreqMs) * time.Millisecond
	cfg.Timeout = 3 * time.Second
	if sc.SilentMs > 0 {
		cfg.Timeout = time.Duration(sc.SilentMs/5) * time.Millisecond
	}
	if sc.TimeoutMs > 0 {
		cfg.Timeout = time.Duration(sc.TimeoutMs) * time.Millisecond
	}
	var gatedEntered, gatedDone int32
	conn := client.Client(cfg)
	if sc.Track {
		conn.EnableStateTracking()
	}
	gate := make(chan struct{})
	var gateOnce sync.Once
	release := func() { gateOnce.Do(func() { close(gate) }) }
	entered := make(chan struct{}, 1024)
	var reconnectSrv *memconn.Conn
	reconnected := make(chan error, 4)
	cycles := sc.Cycles
	attempts := 0 // reconnects the DISCONNECTED handler has decided to make
	var cyc sync.Mutex

	conn.HandleFunc(client.REGISTER, func(c *client.Conn, _ *client.Line) { lg.add("REGISTER flag=%s", flagStr(c.Connected())) })
	conn.HandleFunc(client.CONNECTED, func(c *client.Conn, _ *client.Line) { lg.add("CONNECTED flag=%s", flagStr(c.Connected())) })
	conn.HandleFunc(client.DISCONNECTED, func(c *client.Conn, _ *client.Line) {
		if atomic.LoadInt32(&gatedEntered) > atomic.LoadInt32(&gatedDone) && lg.count("DISCONNECTED") == 0 {
			// nothing of a connection is delivered after its DISCONNECTED, and its handlers have finished by then
			lg.add("stale-handler: DISCONNECTED delivered while a foreground handler of that connection was still running")
		}
		if sc.CloseInDiscHandler {
			c.Close() // must return: the handler logs only afterwards
		}
		lg.add("DISCONNECTED flag=%s", flagStr(c.Connected()))
		cyc.Lock()
		again := sc.Reconnect != "" && cycles > 0
		if again {
			cycles--
			attempts++
		}
		cyc.Unlock()
		if !again {
			return
		}
		do := func() {
			lg.add("connect-call")
			err := c.Connect()
			if err == nil {
				lg.add("connect-ret ok")
			} else {
				lg.add("connect-ret err")
			}
			reconnected <- err
		}
		if sc.Reconnect == "handler" {
			do()
		} else {
			go do()
		}
	})
	conn.HandleFunc("PRIVMSG", func(c *client.Conn, l *client.Line) {
		if l.Text() == "gate" {
			atomic.AddInt32(&gatedEntered, 1)
			defer atomic.AddInt32(&gatedDone, 1)
			entered <- struct{}{}
			<-gate
			if sc.HandlerAsksFlag {
				_ = c.Connected() // a handler may ask at any time (C06 samples it inside handlers); it must not wedge the teardown
			}
			if sc.OutFrom == "handler" {
				for i := 0; i < sc.OutBacklog; i++ {
					c.Privmsg("#c", fmt.Sprintf("out %d", i))
				}
			}
			if sc.HandlerPanics {
				panic("handler panics during teardown")
			}
		}
	})

	bgEntered := make(chan struct{}, 4)
	bgCloseRet := make(chan struct{}, 4)
	conn.HandleBG("PRIVMSG", client.HandlerFunc(func(c *client.Conn, l *client.Line) {
		switch l.Text() {
		case "bgbusy": // a slow background job: ends only once the connection's DISCONNECTED has been delivered (or after 6 s)
			bgEntered <- struct{}{}
			waitFor(func() bool { return lg.count("DISCONNECTED") >= 1 }, 6*time.Second)
		case "bgclose": // e.g. a "!quit" command handled in the background
			bgEntered <- struct{}{}
			c.Close()
			lg.add("close-ret")
			bgCloseRet <- struct{}{}
		}
	}))

	// every backlog line is sent on the first connection: once that connection's DISCONNECTED has been delivered,
	// none of them may reach a handler any more (a later connection starts from empty queues)
	var staleOnce sync.Once
	stale := func(_ *client.Conn, l *client.Line) {
		if lg.count("DISCONNECTED") >= 1 && l.Text() != "gate" {
			staleOnce.Do(func() { lg.add("stale-line dispatched after DISCONNECTED: %s", l.Raw) })
		}
	}
	for _, ev := range []string{"NOTICE", "JOIN", "352", "433", "MODE"} {
		conn.HandleFunc(ev, stale)
	}

	var ctx context.Context = context.Background()
	cancel := func() {}
	if sc.UseCtx || strings.Contains(sc.Cause, "cancel") {
		ctx, cancel = context.WithCancel(context.Background())
	}
	if sc.CancelEarly != "" {
		// the dialer reached through Config.Proxy knows nothing of contexts (x/net/proxy's plain Dialer): the dial
		// succeeds although the context is done. Whatever Connect then returns, the events must agree with it: an error
		// means no event at all; success means REGISTER, and the DISCONNECTED the cancellation brings comes after it.
		ctx, cancel = context.WithCancel(context.Background())
		lg.add("connect-call")
		lg.add("cause cancel") // the context ends before the call or inside it: before REGISTER either way
		if sc.CancelEarly == "before" {
			cancel()
		} else {
			memconn.PresetDialDelay(url, 20*time.Millisecond)
			go func() { time.Sleep(5 * time.Millisecond); cancel() }()
		}
		err := conn.ConnectContext(ctx)
		if err != nil {
			lg.add("connect-ret err")
		} else {
			lg.add("connect-ret ok")
		}
		select {
		case <-conns:
		case <-time.After(time.Second):
		}
		if err == nil {
			waitFor(func() bool { return lg.count("DISCONNECTED") >= 1 }, 4*time.Second)
		}
		time.Sleep(30 * time.Millisecond)
		if conn.Connected() {
			lg.add("cause close")
			conn.Close()
			lg.add("close-ret")
		}
		waitFor(func() bool { return len(libGoroutines()) == 0 }, 500*time.Millisecond)
		res.Leaked = libGoroutines()
		res.Log = lg.evs
		return res
	}
	lg.add("connect-call")
	var err error
	if sc.OverlapConnect {
		// exactly one of the two calls makes the connection, the other is refused; afterwards the client has ONE
		// connection, and it is the one its goroutines read and write and Close closes
		memconn.PresetDialDelay(url, 60*time.Millisecond)
		errs := make(chan error, 2)
		go func() { errs <- conn.ConnectContext(ctx) }()
		time.Sleep(15 * time.Millisecond)
		memconn.PresetDialDelay(url, 0)
		go func() { errs <- conn.ConnectContext(ctx) }()
		e1, e2 := <-errs, <-errs
		switch {
		case e1 != nil && e2 != nil:
			err = e1
		case e1 == nil && e2 == nil:
			lg.add("connect-ret ok")
			lg.add("connect-again ok")
			res.Log = lg.evs
			res.Notes = append(res.Notes, "two overlapping Connect calls both reported success")
			return res
		}
	} else {
		err = conn.ConnectContext(ctx)
	}
	if err != nil {
		lg.add("connect-ret err")
		res.Log = lg.evs
		res.Notes = append(res.Notes, "initial connect failed: "+err.Error())
		return res
	}
	lg.add("connect-ret ok")
	if sc.OverlapConnect {
		lg.add("connect-again refused")
	}
	srv := <-conns
	if sc.OverlapConnect {
		// a second dial may have got through before its Connect was refused: the connection that counts is the one that
		// carries the registration
		select {
		case other := <-conns:
			if !srv.WaitLines(1, 300*time.Millisecond) && other.WaitLines(1, 300*time.Millisecond) {
				srv = other
			}
		case <-time.After(100 * time.Millisecond):
		}
	}
	if sc.SlowCloseMs > 0 {
		srv.SetCloseDelay(time.Duration(sc.SlowCloseMs) * time.Millisecond)
	}
	sess := &session{conn: conn, srv: srv}
	srv.SendLine(":irc.test 001 me :Welcome me!ident@host")
	for i := 0; i < sc.AfterLines; i++ {
		srv.SendLine(fmt.Sprintf(":n!u@h NOTICE me :line %d", i))
	}
	if !sess.sync(3 * time.Second) {
		res.Notes = append(res.Notes, "no sync after welcome")
	}

	// Connect again while connected: must be refused, fire nothing, and leave the connection working
	if sc.ConnectAgain != "" {
		before := len(lg.evs)
		err := conn.Connect()
		if err == nil {
			lg.add("connect-again ok")
		} else {
			lg.add("connect-again refused")
		}
		_ = before
		srv.SendLine(":n!u@h NOTICE me :after connect-again")
		if sess.sync(2 * time.Second) {
			lg.add("alive")
		} else {
			lg.add("not-alive")
		}
	}

	var gw chan struct{}
	if sc.SlowServer {
		gw = srv.GateWrites()
	}
	// backlog
	if sc.InBacklog > 0 || sc.HandlerPanics || sc.HandlerAsksFlag || (sc.OutBacklog > 0 && sc.OutFrom == "handler") {
		srv.SendLine(":n!u@h PRIVMSG me :gate")
		select {
		case <-entered:
		case <-time.After(2 * time.Second):
			res.Notes = append(res.Notes, "gated handler was not entered")
		}
		seg := sc.InSegments
		if seg <= 0 {
			seg = 1
		}
		per := (sc.InBacklog + seg - 1) / seg
		k := 0
		for s := 0; s < seg && k < sc.InBacklog; s++ {
			var sb strings.Builder
			for j := 0; j < per && k < sc.InBacklog; j++ {
				if sc.BacklogKind == "mixed" {
					switch k % 6 {
					case 0:
						sb.WriteString(":irc.test 001 me :Welcome again me!ident@host\r\n")
					case 1:
						sb.WriteString(fmt.Sprintf(":irc.test 433 me taken%d :Nickname is already in use\r\n", k))
					case 2:
						sb.WriteString(fmt.Sprintf(":u%d!i@h JOIN #c\r\n", k))
					case 3:
						sb.WriteString(fmt.Sprintf(":irc.test 352 me #c i h s u%d G :0 real\r\n", k-1))
					case 4:
						sb.WriteString(":me!ident@host JOIN #c\r\n")
					default:
						sb.WriteString(":me MODE me +i\r\n")
					}
				} else if sc.BacklogKind == "pings" { // lines the client answers itself (PONG), whoever has a handler for them
					sb.WriteString(fmt.Sprintf("PING :backlog-%d\r\n", k))
				} else {
					sb.WriteString(fmt.Sprintf(":n!u@h NOTICE me :backlog %d\r\n", k))
				}
				k++
			}
			srv.Send(sb.String())
			time.Sleep(200 * time.Microsecond)
		}
		time.Sleep(2 * time.Millisecond)
	}
	userDone := make(chan struct{})
	if sc.OutBacklog > 0 && sc.OutFrom == "user" {
		go func() {
			defer close(userDone)
			defer func() { recover() }()
			for i := 0; i < sc.OutBacklog; i++ {
				if !conn.Connected() && !sc.CarelessSender {
					return
				}
				conn.Privmsg("#c", fmt.Sprintf("user out %d", i))
			}
		}()
		time.Sleep(2 * time.Millisecond)
	} else {
		close(userDone)
	}
	if sc.OutBacklog > 0 && sc.OutFrom == "handler" {
		release() // the handler starts emitting and blocks on the full queue if the server is slow
		time.Sleep(3 * time.Millisecond)
	}

	// Connect from another goroutine while Close is waiting for a handler that is still running:
	// Connect must wait for the teardown, then succeed; both connections get their events
	if sc.ConnectDuringClose {
		srv.SendLine(":n!u@h PRIVMSG me :gate")
		select {
		case <-entered:
		case <-time.After(2 * time.Second):
			res.Notes = append(res.Notes, "gated handler was not entered")
		}
		lg.add("cause close")
		closed := make(chan struct{})
		go func() { conn.Close(); lg.add("close-ret"); close(closed) }()
		time.Sleep(3 * time.Millisecond)
		connected2 := make(chan error, 1)
		go func() {
			lg.add("connect-call")
			err := conn.Connect()
			if err == nil {
				lg.add("connect-ret ok")
			} else {
				lg.add("connect-ret err")
			}
			connected2 <- err
		}()
		time.Sleep(3 * time.Millisecond)
		release()
		select {
		case <-closed:
		case <-time.After(4 * time.Second):
			res.Stuck = strings.Join(libGoroutines(), " | ")
			res.Log = append([]string(nil), lg.evs...)
			return res
		}
		select {
		case err := <-connected2:
			if err == nil {
				select {
				case srv2 := <-conns:
					s2 := &session{conn: conn, srv: srv2}
					srv2.SendLine(":irc.test 001 me :Welcome me!ident@host")
					if s2.sync(3*time.Second) && conn.Connected() {
						lg.add("fresh-up")
					} else if !conn.Connected() || srv2.Closed() {
						lg.add("fresh-down connected=%v sockclosed=%v", conn.Connected(), srv2.Closed())
					}
				case <-time.After(2 * time.Second):
					res.Notes = append(res.Notes, "no dial for the concurrent connect")
				}
				lg.add("cause close")
				conn.Close()
				lg.add("close-ret")
			}
		case <-time.After(4 * time.Second):
			res.Stuck = strings.Join(libGoroutines(), " | ")
			res.Log = append([]string(nil), lg.evs...)
			return res
		}
		waitFor(func() bool { return lg.count("DISCONNECTED") >= lg.count("REGISTER") }, 4*time.Second)
		time.Sleep(5 * time.Millisecond)
		waitFor(func() bool { return len(libGoroutines()) == 0 }, 500*time.Millisecond)
		res.Leaked = libGoroutines()
		res.Log = lg.evs
		return res
	}

	if sc.BgBusy {
		srv.SendLine(":n!u@h PRIVMSG me :bgbusy")
		select {
		case <-bgEntered:
		case <-time.After(2 * time.Second):
			res.Notes = append(res.Notes, "background handler was not entered")
		}
	}
	if sc.LivePings > 0 {
		var sb strings.Builder
		for k := 0; k < sc.LivePings; k++ {
			sb.WriteString(fmt.Sprintf("PING :live-%d\r\n", k))
		}
		srv.Send(sb.String())
		time.Sleep(40 * time.Millisecond)
	}
	if sc.SilentMs > 0 { // the server says nothing and answers no PING: the link is idle, not dead; whatever the client makes of it, the rest must still work
		time.Sleep(time.Duration(sc.SilentMs) * time.Millisecond)
	}
	// the cause
	lg.add("cause %s", sc.Cause)
	closeRets := make(chan struct{}, 16)
	doClose := func() {
		n := sc.Closers
		if n <= 0 {
			n = 1
		}
		for i := 0; i < n; i++ {
			go func() { conn.Close(); lg.add("close-ret"); closeRets <- struct{}{} }()
		}
	}
	for _, part := range strings.Split(sc.Cause, "+") {
		switch part {
		case "close":
			if sc.CloseFromBg {
				srv.SendLine(":n!u@h PRIVMSG me :bgclose")
			} else {
				doClose()
			}
		case "eof":
			srv.EOF()
		case "readerr":
			srv.ReadError(errors.New("injected read error"))
		case "writeerr":
			srv.FailWriteAfter(1)
			if gw != nil {
				gw <- struct{}{}
			}
			go func() { defer func() { recover() }(); conn.Raw("PING :provoke-write") }()
		case "cancel":
			cancel()
		}
	}
	time.Sleep(time.Millisecond)
	if sc.HoldMs > 0 {
		time.Sleep(time.Duration(sc.HoldMs) * time.Millisecond)
	}
	release()
	if gw != nil && !sc.PeerStalled { // let the slow server read again only after the cause
		go func() {
			for i := 0; i < 1<<15; i++ {
				gw <- struct{}{}
			}
		}()
	}

	// teardown must complete (with flood protection on the send goroutine may be inside a hold of a few seconds
	// that nothing interrupts: allow for it)
	want := 1
	patience := 4 * time.Second
	if !sc.Flood {
		patience = 12 * time.Second
	}
	done := waitFor(func() bool { return lg.count("DISCONNECTED") >= want }, patience)
	if !done {
		gs := libGoroutines()
		res.Stuck = strings.Join(gs, " | ")
		res.Log = append([]string(nil), lg.evs...)
		if os.Getenv("VERIF_FULLDUMP") != "" {
			buf := make([]byte, 1<<20)
			res.Notes = append(res.Notes, string(buf[:runtime.Stack(buf, true)]))
		}
		return res
	}
	// reconnects: handle every attempt the DISCONNECTED handler made
	handled := 0
	for {
		cyc.Lock()
		pending := attempts > handled
		cyc.Unlock()
		if !pending {
			break
		}
		handled++
		var rerr error
		select {
		case rerr = <-reconnected:
		case <-time.After(10 * time.Second):
			res.Notes = append(res.Notes, "reconnect did not return")
			// not a timing verdict by itself: what the library's goroutines are waiting for goes into the result
			res.ReconnectStuck = strings.Join(libGoroutines(), " | ")
			res.Log = lg.evs
			return res // whatever else the scenario would do needs the mutex that Connect is sitting on
		}
		if rerr != nil {
			res.Notes = append(res.Notes, "reconnect failed: "+rerr.Error())
			continue
		}
		reconnectSrv = nil
		select {
		case reconnectSrv = <-conns:
		case <-time.After(2 * time.Second):
			res.Notes = append(res.Notes, "no dial for the reconnect")
		}
		if reconnectSrv == nil {
			continue
		}
		// the fresh connection must register, answer, and stay up until something ends it
		s2 := &session{conn: conn, srv: reconnectSrv}
		reconnectSrv.WaitLines(2, 2*time.Second)
		res.Transcript = reconnectSrv.Lines()

		reconnectSrv.SendLine(":irc.test 001 me :Welcome me!ident@host")
		ok1 := s2.sync(2 * time.Second)
		time.Sleep(60 * time.Millisecond)
		ok2 := s2.sync(2 * time.Second)
		for _, l := range reconnectSrv.Lines() {
			// output queued on the previous connection by handlers (which all returned before its teardown finished):
			// "out N" from the gated handler, MODE / WHO #c from the built-in JOIN handler
			if strings.HasPrefix(l, "PRIVMSG #c :out ") || l == "MODE #c" || l == "WHO #c" {
				lg.add("stale-output on the fresh connection: %s", l)
				break
			}
		}
		switch {
		case !conn.Connected() || reconnectSrv.Closed():
			// nothing has ended this connection, yet it is gone: not a timing verdict
			lg.add("fresh-down sync1=%v sync2=%v connected=%v sockclosed=%v", ok1, ok2, conn.Connected(), reconnectSrv.Closed())
		case ok1 && ok2:
			lg.add("fresh-up")
		default:
			res.Notes = append(res.Notes, "fresh connection is up but slow to answer (inconclusive)")
		}
		if sc.Track {
			if t := conn.StateTracker(); t != nil {
				lg.add("tracker %s", observe(t, []string{"me", "n", "x"}, []string{"#c"}))
			}
		}
		want++
		lg.add("cause close")
		conn.Close()
		lg.add("close-ret")
		if !waitFor(func() bool { return lg.count("DISCONNECTED") >= want }, 4*time.Second) {
			res.Stuck = strings.Join(libGoroutines(), " | ")
			res.Log = append([]string(nil), lg.evs...)
			return res
		}
		time.Sleep(2 * time.Millisecond) // let the DISCONNECTED handler decide about another cycle
	}
	if sc.CarelessSender { // it may be waiting in Raw on the dead connection's queue for good: that is its own business
		select {
		case <-userDone:
		case <-time.After(200 * time.Millisecond):
		}
	} else {
		<-userDone
	}
	// Close on a client that is not connected does nothing: no life-cycle event may fire
	// (other closers' "close-ret" records may still be arriving: only handler events count)
	if conn.Connected() == false {
		evCount := func() int { return lg.count("REGISTER") + lg.count("CONNECTED") + lg.count("DISCONNECTED") }
		n := evCount()
		conn.Close()
		time.Sleep(2 * time.Millisecond)
		if evCount() != n {
			lg.add("close-when-closed fired events")
		}
	}
	time.Sleep(5 * time.Millisecond)
	// goroutines of the connection must be gone
	ownGoroutines := func() []string {
		var out []string
		for _, g := range libGoroutines() {
			if sc.CarelessSender && (strings.HasPrefix(g, "Raw<Privmsg ") || strings.HasPrefix(g, "Raw [chan send]")) { // the application's sender, waiting in Raw
				continue
			}
			out = append(out, g)
		}
		return out
	}
	waitFor(func() bool { return len(ownGoroutines()) == 0 }, 500*time.Millisecond)
	res.Leaked = ownGoroutines()
	res.Log = lg.evs
	return res
}

// runChild re-executes this binary to run one scenario; a crash of the child is data.
func runChild(sc LifeScenario, timeout time.Duration) LifeResult {
	b, _ := json.Marshal(sc)
	cmd := exec.Command(os.Args[0], "-scenario", string(b))
	var out, errb bytes.Buffer
	cmd.Stdout, cmd.Stderr = &out, &errb
	cmd.Env = append(os.Environ(), "GOTRACEBACK=all")
	if err := cmd.Start(); err != nil {
		return LifeResult{Crash: "cannot start child: " + err.Error()}
	}
	done := make(chan error, 1)
	go func() { done <- cmd.Wait() }()
	select {
	case err := <-done:
		var r LifeResult
		if jerr := json.Unmarshal(out.Bytes(), &r); jerr != nil || err != nil {
			tr := errb.String()
			if len(tr) > 3000 {
				tr = tr[:3000]
			}
			r.Crash = fmt.Sprintf("child exited abnormally (%v): %s", err, tr)
		}
		return r
	case <-time.After(timeout):
		cmd.Process.Kill()
		<-done
		return LifeResult{Notes: []string{"child timed out (inconclusive)"}}
	}
}

func childMain(arg string) {
	var sc LifeScenario
	if err := json.Unmarshal([]byte(arg), &sc); err != nil {
		fmt.Fprintln(os.Stderr, err)
		os.Exit(2)
	}
	r := runLifeScenario(sc)
	b, _ := json.Marshal(r)
	os.Stdout.Write(b)
}
