package main

import (
	"fmt"
	"os"
	"strings"
	"time"

	"github.com/fluffle/goirc/client"

	"verif/harness/drv"
	"verif/harness/gen"
)

func init() {
	register("C01", "(b) byte streams with every kind of line ending (LF, CRLF, runs of CR, blank lines, CR and spaces inside lines, a last line without LF before EOF) in reads of 1 / 3 / 7 / 64 / unlimited bytes: what the handlers receive must equal the model's recvFrames of the stream, parsed, in order; (a) messages generated from the Spec's own Msg type (tags with key-only/empty/escaped values, server and nick!user@host sources, letter verbs in mixed case and numerics, 0-14 middles with extra spaces and inner colons, optional trailing incl. empty, spaces, ' :' and clean CTCP payloads), rendered by the Lean driver (so the bytes fed to the real ParseLine are the theorem's `render m`), compared field by field with the Spec's `expected m`; plus a not-well-formed stream (wf=0) compared with the model only; non-trivial = well-formed and using tags, a user source, CTCP rewriting, >=3 parameters or extra spaces; distinct by rendered bytes", c01)
}

type genMsg struct {
	enc   string // words for the driver's render request
	table string // ToUpper table for non-ASCII CTCP verbs
	feats []string
}

const keyAlpha = "abcdefghijklmnopqrstuvwxyz0123456789-/.+"

func genValue(r *gen.R) string {
	switch r.N(6) {
	case 0:
		return ""
	case 1:
		return r.Bytes(r.Range(1, 6), "ab; \\\r\n=:s")
	case 2:
		return r.Bytes(r.Range(1, 4), "\\srn:;")
	case 3:
		return "caf\xc3\xa9 \xe2\x80\xa8x"
	default:
		return r.Bytes(r.Range(1, 8), "abcXYZ019 ;\\")
	}
}

func noSpaceBytes(r *gen.R, n int, alpha string) string {
	return r.Bytes(n, alpha)
}

func genVerb(r *gen.R) string {
	switch r.N(8) {
	case 0, 1:
		return r.Pick("PRIVMSG", "privmsg", "PrivMsg", "NOTICE", "notice", "Notice")
	case 2:
		return fmt.Sprintf("%03d", r.N(1000))
	case 3:
		return r.Pick("JOIN", "part", "Mode", "PING", "CAP", "nick", "ACTION", "CTCP", "ctcpreply", "Kick", "TOPIC", "QUIT", "AUTHENTICATE")
	default:
		return r.Bytes(r.Range(1, 8), "abcdefgxyzABCDEFGXYZ")
	}
}

func genMessage(r *gen.R, wellFormed bool) genMsg {
	var g genMsg
	feat := func(f string) { g.feats = append(g.feats, f) }
	// tags
	tags := "nil"
	if r.P(2, 5) {
		n := r.Range(1, 4)
		var parts []string
		for i := 0; i < n; i++ {
			k := r.Bytes(r.Range(1, 6), keyAlpha)
			if r.P(1, 8) && i > 0 {
				k = "a" // force duplicate keys sometimes
			}
			if !wellFormed && r.P(1, 4) {
				k = r.Bytes(r.N(3), "a;= \\")
			}
			if r.P(1, 3) {
				parts = append(parts, drv.H(k))
			} else {
				parts = append(parts, drv.H(k)+":"+drv.H(genValue(r)))
			}
		}
		tags = strings.Join(parts, ";")
		feat("tags")
	} else if !wellFormed && r.P(1, 10) {
		tags = "empty"
	}
	// source
	src := "nil"
	const srcAlpha = "abcXYZ019-_.[]{}|^~\xc3\xa9"
	switch r.N(5) {
	case 0, 1:
		n, u, h := noSpaceBytes(r, r.Range(0, 6), srcAlpha), noSpaceBytes(r, r.Range(0, 5), srcAlpha+"!"), noSpaceBytes(r, r.Range(0, 8), srcAlpha+"!@:")
		if !wellFormed && r.P(1, 3) {
			n = r.Bytes(r.Range(0, 3), "a!@ \t")
		}
		src = "u:" + drv.H(n) + ":" + drv.H(u) + ":" + drv.H(h)
		feat("usersrc")
	case 2:
		name := r.Pick("irc.example.net", "a@b!c", "nick@host", "x!y", "s", "*.net", "n!u", "@", "!") + ""
		if !wellFormed && r.P(1, 3) {
			name = r.Bytes(r.N(4), "a!@ \t\xc2\x85")
		}
		src = "s:" + drv.H(name)
		feat("serversrc")
	}
	verb := genVerb(r)
	if !wellFormed && r.P(1, 6) {
		verb = r.Bytes(r.N(4), "A1 :\x01\xc5\xbf")
	}
	isMsg := strings.EqualFold(verb, "PRIVMSG") || strings.EqualFold(verb, "NOTICE")
	// middles
	nm := r.N(4)
	if r.P(1, 6) {
		nm = r.Range(4, 14)
	}
	if isMsg && r.P(3, 4) {
		nm = 1
	}
	if !wellFormed && r.P(1, 10) {
		nm = 15
	}
	const midAlpha = "abc#&+!:XYZ019,*=\xc3\xa9\x01\\@"
	var mids []string
	extraSpaces := false
	for i := 0; i < nm; i++ {
		p := noSpaceBytes(r, r.Range(1, 8), midAlpha)
		if p[0] == ':' {
			p = "x" + p
		}
		if i == 0 && r.P(1, 2) {
			p = r.Pick("#chan", "&local", "+modeless", "!safe", "me", "nick")
		}
		if !wellFormed && r.P(1, 8) {
			p = r.Bytes(r.N(3), ": \ta\xc2\xa0")
		}
		k := 0
		if r.P(1, 6) {
			k = r.Range(1, 3)
			extraSpaces = true
		}
		mids = append(mids, fmt.Sprintf("%d:%s", k, drv.H(p)))
	}
	if extraSpaces {
		feat("extra-spaces")
	}
	if nm >= 3 {
		feat("many-params")
	}
	mid := "_"
	if len(mids) > 0 {
		mid = strings.Join(mids, ",")
	}
	// trailing
	trail := "nil"
	if r.P(3, 4) || isMsg {
		var t string
		switch r.N(7) {
		case 0:
			t = ""
		case 1:
			t = "hello :world : again"
		case 2:
			t = r.Bytes(r.Range(1, 12), "ab :\x01\t")
		case 3:
			t = "  leading and trailing  "
		case 4:
			if r.P(1, 8) {
				t = r.Bytes(r.Range(4000, 9000), "abc XYZ:,.!") // longer than the 4096-byte read buffer
			} else {
				t = r.Bytes(r.Range(1, 20), "abc XYZ:,.!\xc3\xa9")
			}
		default:
			t = r.Bytes(r.Range(1, 20), "abc XYZ:,.!\xc3\xa9")
		}
		if isMsg && r.P(1, 2) {
			v := r.Pick("ACTION", "action", "VERSION", "Ping", "X", "dcc", "AcTiOn")
			if r.P(1, 10) {
				v = "\xc5\xbfend" // non-ASCII CTCP verb: ToUpper comes from Go
				g.table = drv.H(v) + ":" + drv.H(strings.ToUpper(v))
			}
			txt := r.Bytes(r.N(10), "abc XYZ:")
			t = "\x01" + v + " " + txt + "\x01"
			feat("ctcp")
			if !wellFormed {
				t = r.Pick("\x01"+v+"\x01", "\x01\x01\x01", "\x01 x\x01", "\x01"+v+" a\x01b\x01", "\x01"+v+" "+txt, "\x01\x01 x\x01")
			}
		}
		k := 0
		if r.P(1, 8) {
			k = r.Range(1, 2)
			feat("extra-spaces")
		}
		trail = fmt.Sprintf("%d:%s", k, drv.H(t))
	}
	if g.table == "" {
		g.table = "_"
	}
	g.enc = fmt.Sprintf("tags=%s src=%s verb=%s mid=%s trail=%s", tags, src, drv.H(verb), mid, trail)
	return g
}

func c01(c *Ctx) {
	c01Messages(c)
	c01Framing(c)
}

func c01Messages(c *Ctx) {
	n := c.Pick(12000, 150000)
	msgs := make([]genMsg, 0, n)
	reqs := make([]string, 0, n)
	for i := 0; i < n; i++ {
		g := genMessage(c.R, c.R.P(4, 5))
		msgs = append(msgs, g)
		reqs = append(reqs, "render "+g.table+" "+g.enc)
	}
	replies, err := drv.Run(reqs)
	if err != nil {
		panic(err)
	}
	var inputs []string
	type rendered struct {
		wf     bool
		bytes  string
		expect string
		g      genMsg
	}
	var rs []rendered
	for i, rep := range replies {
		// wf=1 bytes=<hex> expect=line ...
		parts := strings.SplitN(rep, " ", 3)
		if len(parts) != 3 || !strings.HasPrefix(parts[0], "wf=") {
			panic("bad render reply: " + rep + " for " + reqs[i])
		}
		b, _ := drv.UnH(strings.TrimPrefix(parts[1], "bytes="))
		rs = append(rs, rendered{wf: parts[0] == "wf=1", bytes: b, expect: strings.TrimPrefix(parts[2], "expect="), g: msgs[i]})
		inputs = append(inputs, b)
	}
	cases := parseCases(inputs, nil)
	for i := range cases {
		r := rs[i]
		cs := &cases[i]
		cs.Desc = "render+" + cs.Desc
		if r.wf {
			c.Dist("wf")
			cs.Tag = ""
			if len(r.g.feats) > 0 {
				cs.Tag = "wf/" + strings.Join(dedup(r.g.feats), "+")
			}
			// Spec on the implementation: the parsed line must be exactly `expected m`
			if cs.Impl[0] != r.expect {
				c.SpecFail("spec", cs.Desc+" (well-formed message: "+r.g.enc+")", "", "implementation parsed: "+cs.Impl[0]+" ; Spec expects: "+r.expect,
					map[string]interface{}{"op": "ParseLine", "line_hex": drv.H(r.bytes), "msg": r.g.enc, "impl": cs.Impl[0], "expected": r.expect})
			}
		} else {
			c.Dist("not-wf")
			cs.Tag = "notwf"
		}
	}
	c.flagPanics(cases)
	c.RunCases(cases)

	// over a connection: a foreground handler registered for the verb receives an equal line,
	// whatever the chunking of the byte stream
	type sent struct{ bytes, expect, enc string }
	var wfs []sent
	for _, r := range rs {
		if r.wf && !strings.ContainsAny(r.bytes, "\r\n\x00") {
			wfs = append(wfs, sent{r.bytes, r.expect, r.g.enc})
		}
	}
	per := c.Pick(250, 1500)
	for si, maxRead := range []int{0, 1, 7, 64, 5000} {
		lo := si * per
		if lo >= len(wfs) {
			break
		}
		hi := lo + per
		if hi > len(wfs) {
			hi = len(wfs)
		}
		batch := wfs[lo:hi]
		rec := &recorder{}
		sess, err := newSession(nil, func(conn *client.Conn) {
			cmds := map[string]bool{}
			for _, m := range batch {
				cmds[cmdOfEnc(m.expect)] = true
			}
			for h := range cmds {
				name, _ := drv.UnH(h)
				conn.HandleFunc(name, func(_ *client.Conn, l *client.Line) { rec.add(encLine(l)) })
			}
		})
		if err != nil {
			c.Res.Notes = append(c.Res.Notes, "C01 e2e session: "+err.Error())
			c.Res.Inconclusive++
			continue
		}
		sess.srv.SetMaxRead(maxRead)
		if !sess.sync(10 * time.Second) {
			c.Res.Inconclusive++
			sess.close()
			continue
		}
		var sb strings.Builder
		for _, m := range batch {
			sb.WriteString(m.bytes)
			sb.WriteString("\r\n")
		}
		sess.srv.Send(sb.String())
		ok := sess.sync(30 * time.Second)
		got := rec.list()
		sess.close()
		c.Res.Traces++
		c.Dist(fmt.Sprintf("e2e/maxread=%d", maxRead))
		if !ok {
			c.SpecFail("spec", fmt.Sprintf("connection stopped answering while receiving %d well-formed messages (maxRead=%d)", len(batch), maxRead), "", "no PONG for the sync marker after the batch", nil)
			continue
		}
		// PING-verb messages in the batch are also seen by the handler for "PING" via our sync markers; filter those
		var filtered []string
		for _, g := range got {
			if strings.Contains(g, "raw="+drv.H("PING :sync-")[:20]) {
				continue
			}
			filtered = append(filtered, g)
		}
		n := len(batch)
		if len(filtered) != n {
			c.SpecFail("spec", fmt.Sprintf("over a connection (maxRead=%d): %d well-formed messages sent, handlers received %d lines", maxRead, n, len(filtered)), "", "", nil)
			if len(filtered) < n {
				n = len(filtered)
			}
		}
		for i := 0; i < n; i++ {
			c.Res.Evaluations++
			if filtered[i] != batch[i].expect {
				c.SpecFail("spec", fmt.Sprintf("over a connection (maxRead=%d): handler received a different line for %s", maxRead, batch[i].enc), "",
					"handler saw: "+filtered[i]+" ; Spec expects: "+batch[i].expect,
					map[string]interface{}{"op": "deliver", "line_hex": drv.H(batch[i].bytes), "maxread": maxRead, "handler_saw": filtered[i], "expected": batch[i].expect})
				break
			}
		}
	}
}

// c01Framing: arbitrary byte streams (lines ended by LF, CRLF, several CRs, blank lines, CR and spaces inside lines,
// a last line without LF before EOF) are cut into lines by the real recv loop and by the model's `recvFrames`;
// what the handlers receive must be the model's frames, parsed, in order (lines that do not parse are skipped).
func c01Framing(c *Ctx) {
	verbs := []string{"PRIVMSG", "NOTICE", "X", "123"}
	for si := 0; si < c.Pick(6, 60); si++ {
		var sb strings.Builder
		n := c.R.Range(5, 120)
		for i := 0; i < n; i++ {
			switch c.R.N(10) {
			case 0:
				sb.WriteString(c.R.Pick("", " ", "  ", ":", ": ", "@", "@ ", ":a "))
			default:
				if c.R.P(1, 3) {
					sb.WriteString(c.R.Pick(":n!u@h ", ":srv ", "@k=v :n!u@h ", "\r", "\r\r", " "))
				}
				v := verbs[c.R.N(len(verbs))]
				if c.R.P(1, 6) {
					v = strings.ToLower(v)
				}
				sb.WriteString(v)
				for a := c.R.N(4); a > 0; a-- {
					sb.WriteString(" " + c.R.Bytes(c.R.Range(1, 6), "abc#\r\t"))
				}
				if c.R.Bool() {
					sb.WriteString(" :" + c.R.Bytes(c.R.N(30), "abc d\r:"))
				}
				if c.R.P(1, 40) {
					sb.WriteString(" :" + strings.Repeat("long ", 1000)) // longer than the read buffer
				}
			}
			sb.WriteString(c.R.Pick("\r\n", "\r\n", "\r\n", "\n", "\r\r\n", "\n\n", "\r\n\r\n", " \r\n", "\n\r"))
		}
		partial := ""
		if c.R.Bool() {
			partial = "NOTICE me :never terminated"
		}
		stream := sb.String()
		desc := fmt.Sprintf("byte stream of %d bytes (%d pieces, unterminated tail: %v)", len(stream), n, partial != "")
		c.Journal("C01 framing: " + desc)
		rec := &recorder{}
		disc := make(chan struct{}, 1)
		sess, err := newSession(nil, func(conn *client.Conn) {
			for _, v := range verbs {
				conn.HandleFunc(v, func(_ *client.Conn, l *client.Line) { rec.add(encLine(l)) })
			}
			conn.HandleFunc(client.DISCONNECTED, func(*client.Conn, *client.Line) { disc <- struct{}{} })
		})
		if err != nil {
			c.Res.Inconclusive++
			continue
		}
		maxRead := []int{0, 1, 3, 7, 64}[c.R.N(5)]
		sess.srv.SetMaxRead(maxRead)
		sess.srv.Send(stream)
		synced := sess.sync(30 * time.Second)
		sess.srv.Send(partial)
		time.Sleep(2 * time.Millisecond)
		sess.srv.EOF()
		select {
		case <-disc:
		case <-time.After(5 * time.Second):
		}
		got := rec.list()
		sess.close()
		c.Res.Traces++
		if !synced {
			c.SpecFail("spec", "framing: "+desc, "", "the client stopped answering after the stream", map[string]interface{}{"op": "frame-stream", "stream_hex": drv.H(stream)})
			continue
		}
		// the model: frames, then parse each
		fr, err := drv.Run([]string{"frames " + drv.H(stream+partial)})
		if err != nil || len(fr) != 1 || fr[0] == "bad-op" {
			fmt.Fprintln(os.Stderr, "corr: driver frames:", err, fr)
			os.Exit(3)
		}
		var frames []string
		if fr[0] != "_" {
			for _, h := range strings.Split(fr[0], ",") {
				if h == "-" {
					frames = append(frames, "")
				} else {
					b, _ := drv.UnH(h)
					frames = append(frames, b)
				}
			}
		}
		reqs := make([]string, len(frames))
		for i, f := range frames {
			reqs[i] = "parse " + drv.H(f) + " _"
		}
		var parsed []string
		if len(reqs) > 0 {
			parsed, err = drv.Run(reqs)
			if err != nil {
				fmt.Fprintln(os.Stderr, "corr: driver parse:", err)
				os.Exit(3)
			}
		}
		var want []string
		for _, p := range parsed {
			if p == "nil" {
				continue
			}
			cmd, _ := drv.UnH(cmdOfEnc(p))
			for _, v := range verbs {
				if strings.EqualFold(cmd, v) {
					want = append(want, p)
				}
			}
		}
		c.Res.Evaluations++
		c.Res.Distribution["framing: lines delivered to handlers"] += len(got)
		c.Res.Distribution["framing: frames in the model"] += len(frames)
		tag := fmt.Sprintf("framing/maxread=%d", maxRead)
		c.Dist("tag:" + tag)
		if k := tag + "|" + stream; !c.seen[k] {
			c.seen[k] = true
			c.Res.Distinct++
		}
		rp := map[string]interface{}{"op": "frame-stream", "stream_hex": drv.H(stream), "tail_hex": drv.H(partial), "maxread": maxRead}
		if len(got) != len(want) {
			c.Mismatch("framing: "+desc, "frames "+trunc(drv.H(stream), 200), fmt.Sprintf("%d lines delivered", len(want)), fmt.Sprintf("%d lines delivered", len(got)), rp)
			continue
		}
		for i := range got {
			if got[i] != want[i] {
				c.Mismatch("framing: "+desc+fmt.Sprintf(", delivered line #%d", i), "frames "+trunc(drv.H(stream), 200), want[i], got[i], rp)
				break
			}
		}
	}
}

func dedup(a []string) []string {
	seen := map[string]bool{}
	var out []string
	for _, s := range a {
		if !seen[s] {
			seen[s] = true
			out = append(out, s)
		}
	}
	return out
}
