package main

import (
	"fmt"
	"strings"
	"sync"
	"time"

	"github.com/fluffle/goirc/client"

	"verif/harness/memconn"
)

// session is a real client connected to the harness through memconn.
type session struct {
	conn   *client.Conn
	srv    *memconn.Conn
	url    string
	conns  chan *memconn.Conn
	nsync  int
	cursor int
}

// newSession creates a client (flood protection off, no pings unless mod
// changes it), connects it through the in-memory dialer and returns both ends.
func newSession(mod func(*client.Config), pre func(*client.Conn)) (*session, error) {
	url, conns := memconn.Listen()
	cfg := client.NewConfig("me", "ident", "Real Name")
	cfg.Server = "irc.test"
	cfg.Proxy = url
	cfg.Flood = true
	cfg.PingFreq = 0
	cfg.Timeout = 5 * time.Second
	if mod != nil {
		mod(cfg)
	}
	c := client.Client(cfg)
	if pre != nil {
		pre(c)
	}
	s := &session{conn: c, url: url, conns: conns}
	if err := c.Connect(); err != nil {
		return nil, err
	}
	select {
	case s.srv = <-conns:
	case <-time.After(5 * time.Second):
		return nil, fmt.Errorf("dialer was not called")
	}
	return s, nil
}

// sync sends a PING marker and waits for the matching PONG: when it returns
// true, the internal handlers of every line sent before it have finished.
func (s *session) sync(timeout time.Duration) bool {
	s.nsync++
	tok := fmt.Sprintf("sync-%d", s.nsync)
	s.srv.SendLine("PING :" + tok)
	i := s.srv.WaitLine(s.cursor, func(l string) bool { return l == "PONG :"+tok }, timeout)
	if i < 0 {
		return false
	}
	s.cursor = i + 1
	return true
}

func (s *session) close() bool {
	done := make(chan struct{})
	go func() { s.conn.Close(); close(done) }()
	select {
	case <-done:
		return true
	case <-time.After(10 * time.Second):
		return false
	}
}

// recorder collects what handlers saw, in order.
type recorder struct {
	mu   sync.Mutex
	seen []string
}

func (r *recorder) add(s string) { r.mu.Lock(); r.seen = append(r.seen, s); r.mu.Unlock() }
func (r *recorder) list() []string {
	r.mu.Lock()
	defer r.mu.Unlock()
	return append([]string(nil), r.seen...)
}

func cmdOfEnc(enc string) string {
	for _, f := range strings.Fields(enc) {
		if strings.HasPrefix(f, "cmd=") {
			return strings.TrimPrefix(f, "cmd=")
		}
	}
	return ""
}

func memconnListen() (string, chan *memconn.Conn) { return memconn.Listen() }
