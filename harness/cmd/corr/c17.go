package main

import (
	"fmt"
	"strings"

	"github.com/fluffle/goirc/client"

	"verif/harness/drv"
)

func init() {
	register("C17", "server scripts generated from Spec.NickScript (433 before the welcome, 001 with the same or a different nick, NICK lines confirming / forcing a change, 433 after registration, other users' NICKs to and from look-alike names), state tracking on/off, default / appending / constant nick generators; the lines are produced by the Lean Spec, fed to the real handlers, and Me().Nick, Config().Me and the NICK replies are compared with the Spec's server view and with the model; plus DefaultNewNick on every last byte x lengths 0..4; non-trivial = script contains a collision or a nick change; distinct by script", c17)
}

type nsEvent struct {
	words string // for the driver: "433 <hex>" ...
	desc  string
}

func c17Script(c *Ctx, track bool, gen string) Case {
	r := c.R
	start := r.Pick("me", "bot", "nick9", "z", "A}")
	// mirror of the Spec's server state, only to generate conforming events
	reg, cur := false, start
	genf := func(o string) string {
		switch {
		case gen == "default":
			return client.DefaultNewNick(o)
		case strings.HasPrefix(gen, "append:"):
			x, _ := drv.UnH(strings.TrimPrefix(gen, "append:"))
			return o + x
		default:
			x, _ := drv.UnH(strings.TrimPrefix(gen, "const:"))
			return x
		}
	}
	var evs []nsEvent
	n := r.Range(1, 12)
	for i := 0; i < n; i++ {
		if !reg {
			switch r.N(3) {
			case 0, 1:
				if r.P(2, 3) {
					evs = append(evs, nsEvent{"433 " + drv.H(cur), "433 " + cur})
					cur = genf(cur)
				} else {
					who := r.Pick("x", cur+"_")
					evs = append(evs, nsEvent{"other " + drv.H(who) + " " + drv.H(who+"2"), "other"})
				}
			default:
				nn := cur
				if r.P(1, 3) {
					nn = r.Pick("Guest123", cur+"_", "me", "42XAAAAAB", "ni\xc3\xa9ck") // a TS6 server hands out the UID when it must; not every network keeps to RFC 2812's nick grammar
				}
				if r.P(1, 3) {
					evs = append(evs, nsEvent{"001nomask " + drv.H(nn), "001(no mask) " + nn})
				} else {
					evs = append(evs, nsEvent{"001 " + drv.H(nn), "001 " + nn})
				}
				reg, cur = true, nn
			}
			continue
		}
		switch r.N(5) {
		case 0, 1:
			nn := r.Pick("newnick", cur+"_", "me", "Guest1", strings.ToUpper(cur), "7ABAAAAAC", "0day", "-dash", "n{}|`^[]\\", "\xe5\x90\x8d\xe5\x89\x8d")
			if nn == cur {
				nn = cur + "x"
			}
			evs = append(evs, nsEvent{"nick " + drv.H(nn), "NICK -> " + nn})
			cur = nn
		case 2:
			// the nick the client asked for and did not get: anything but its current one - look-alikes included
			// (a proper prefix, the nick without its first byte, another letter case)
			ref := r.Pick("taken", cur+"1", "x", cur[:len(cur)/2+len(cur)%2], cur[:len(cur)-1], cur[1:], strings.ToUpper(cur), strings.ToLower(cur))
			if ref == cur || ref == "" {
				ref = cur + "1"
			}
			evs = append(evs, nsEvent{"433 " + drv.H(ref), "433 later " + ref})
		default:
			from := r.Pick("other", cur+"_", "_"+cur, strings.ToUpper(cur)+"x")
			to := r.Pick("other2", cur+"__", "y")
			evs = append(evs, nsEvent{"other " + drv.H(from) + " " + drv.H(to), "other " + from + "->" + to})
		}
	}
	// every name that can occur in the script, for the tracker observation
	universe := []string{start}
	for _, e := range evs {
		for _, w := range strings.Fields(e.words)[1:] {
			x, _ := drv.UnH(w)
			universe = append(universe, x, genf(x))
		}
	}
	universe = dedup(universe)
	// phase 1: let the Spec produce the lines and its view of the nick
	reqs := []string{"ns new " + drv.H(start) + " " + gen}
	for _, e := range evs {
		reqs = append(reqs, "ns ev "+e.words)
	}
	reps, err := drv.Run(reqs)
	if err != nil {
		panic(err)
	}
	// in a quarter of the tracked scripts state tracking is switched on only at some point of the script (the client is
	// on no channel throughout, which is when EnableStateTracking may be called), sometimes off and on again
	lateAt := -1
	if track && c.R.P(1, 4) {
		lateAt = c.R.N(len(evs) + 1)
	}
	p := rigParams{nick: start, ident: "id", name: "Real", version: "v", quit: "q", split: 450, sasl: "none", newNick: gen, track: track && lateAt < 0}
	lateNewNick = c.R.P(1, 4)
	rg := newRig(p)
	late := lateNewNick
	lateNewNick = false
	cs := Case{Reqs: []string{p.req()}, Impl: []string{"ok"}}
	var descs []string
	if late && gen != "default" {
		descs = append(descs, "(generator installed through Config() after Client())")
	}
	nontrivial := false
	for i, e := range evs {
		if i == lateAt {
			rg.conn.EnableStateTracking()
			cs.Reqs = append(cs.Reqs, "cl track on")
			cs.Impl = append(cs.Impl, "ok")
			if c.R.P(1, 3) {
				rg.conn.DisableStateTracking()
				rg.conn.EnableStateTracking()
				cs.Reqs = append(cs.Reqs, "cl track off", "cl track on")
				cs.Impl = append(cs.Impl, "ok", "ok")
			}
			descs = append(descs, "(EnableStateTracking)")
		}
		f := map[string]string{}
		for _, w := range strings.Fields(reps[i+1]) {
			kv := strings.SplitN(w, "=", 2)
			if len(kv) == 2 {
				f[kv[0]] = kv[1]
			}
		}
		line, _ := drv.UnH(f["line"])
		want, _ := drv.UnH(f["nick"])
		descs = append(descs, e.desc)
		if strings.Contains(line, " 433 ") && c.R.P(1, 3) {
			// the explanatory text of a numeric is for humans and some servers leave it out: `433 * nick` says the same
			line = strings.TrimSuffix(line, " :Nickname is already in use")
			descs[len(descs)-1] += " (no text)"
		}
		rep := rg.raw(line)
		cs.Reqs = append(cs.Reqs, "cl raw "+drv.H(line))
		cs.Impl = append(cs.Impl, rep)
		obs := rg.obs(nil, universe, nil)
		cs.Reqs = append(cs.Reqs, "cl obs")
		cs.Impl = append(cs.Impl, obs)
		if f["conf"] == "1" {
			// Spec on the implementation
			me := rg.conn.Me()
			where := fmt.Sprintf("script %v (tracking=%v gen=%s) at step %d", descs, track, gen, i)
			rp := map[string]interface{}{"op": "nick-script", "start": start, "tracking": track, "gen": gen, "events": descs}
			if strings.HasPrefix(obs, "menil=1") || me == nil {
				c.SpecFail("spec", where, "", "Me() or Config().Me is nil", rp)
			} else if me.Nick != want {
				c.SpecFail("spec", where, "", fmt.Sprintf("Me().Nick=%q but the server uses %q", me.Nick, want), rp)
			}
			if strings.HasPrefix(e.words, "433") {
				if outOf(rep) != f["reply"] {
					c.SpecFail("spec", where, "", "collision not answered by NICK <generator(refused)>: sent "+outOf(rep)+" want "+f["reply"], rp)
				}
				nontrivial = true
			}
			if strings.HasPrefix(e.words, "nick") || strings.HasPrefix(e.words, "001") {
				nontrivial = true
			}
		} else {
			c.Dist("non-conforming-event")
		}
	}
	if nontrivial {
		cs.Tag = fmt.Sprintf("track=%v/gen=%s/len=%d", track, strings.SplitN(gen, ":", 2)[0], len(evs)/4*4)
	}
	cs.Desc = fmt.Sprintf("nick script start=%s tracking=%v gen=%s: %v", start, track, gen, descs)
	cs.Key = cs.Desc
	cs.Replay = map[string]interface{}{"op": "nick-script", "start": start, "tracking": track, "gen": gen, "events": descs}
	return cs
}

func c17(c *Ctx) {
	var cases []Case
	// DefaultNewNick on every last byte
	for b := 0; b < 256; b++ {
		for _, pre := range []string{"", "a", "ab\xff", "nick", "bot1", "u9", "a10", "Guest499", "z", "Z", "}", "9z"} { // the bytes in front of the last one are none of the generator's business, whatever they are
			old := pre + string([]byte{byte(b)})
			got := client.DefaultNewNick(old)
			cs := Case{Desc: fmt.Sprintf("DefaultNewNick(%q)", old), Reqs: []string{"newnick default " + drv.H(old)}, Impl: []string{drv.H(got)}, Tag: "gen", Key: old,
				Replay: map[string]interface{}{"op": "DefaultNewNick", "old_hex": drv.H(old)}}
			cases = append(cases, cs)
			if len(got) != len(old) || got == old || got[:len(got)-1] != old[:len(old)-1] {
				c.SpecFail("spec", cs.Desc, "", fmt.Sprintf("generator gave %q: not a different nick of the same length differing only in the last byte", got), cs.Replay)
			}
		}
	}
	cases = append(cases, Case{Desc: "DefaultNewNick(\"\")", Reqs: []string{"newnick default -"}, Impl: []string{drv.H(client.DefaultNewNick(""))}})
	for i := 0; i < c.Pick(1500, 20000); i++ {
		gen := c.R.Pick("default", "default", "append:"+drv.H("_"), "const:"+drv.H("zz"))
		cases = append(cases, c17Script(c, c.R.Bool(), gen))
	}
	c.RunCases(cases)
}
