package main

import (
	"context"
	"fmt"
	"strings"
	"time"

	"github.com/fluffle/goirc/client"

	"verif/harness/drv"
	"verif/harness/memconn"
)

func init() {
	register("C18", "real connections through the in-memory dialer over the configuration cross product (negotiation on/off x password none/plain/with space x nick/ident/name variants x server with/without port, IPv4, bracketed IPv6 with port x SSL flag for the dial address) - first lines of the wire transcript and the address seen by the dialer judged by Spec.Register; PING tokens (empty-but-present, spaces, colons, 400 bytes, 4086-4090 / some 5000-8000 / 20000 bytes: lines around and beyond the read buffer) interleaved with other traffic must be answered by PONG with the same token; PingFreq 0 vs 40ms; for every other configuration the link is dropped, Nick() and Privmsg() are called while it is down and the same client reconnects: the new transcript is judged by Spec.Register again; non-trivial = every connection; distinct by configuration / token", c18)
}

func c18(c *Ctx) {
	c18StalePings(c)
	var cases []Case
	servers := []string{"irc.test", "irc.test:7000", "10.0.0.1", "10.0.0.1:6660", "[::1]:6667", "host-name.example.org"}
	nicks := []string{"me", "Nick|away", "n"}
	n := 0
	for _, capNeg := range []bool{false, true} {
		for _, pass := range []string{"", "pw", "p w:x"} {
			for _, server := range servers {
				for _, ssl := range []bool{false, true} {
					n++
					if c.Quick() && n%3 != int(c.Seed%3) && !(server == "irc.test" && !ssl) {
						continue
					}
					nick := nicks[c.R.N(len(nicks))]
					ident := c.R.Pick("ident", "i")
					name := c.R.Pick("Real Name", "x", ":colon name")
					var addr string
					wantCaps := c.R.Bool()
					track := c.R.Bool() // with state tracking on, the client's own record lives in the tracker: it must survive a reconnect too
					sess, err := newSession(func(cfg *client.Config) {
						cfg.Server = server
						cfg.SSL = ssl
						cfg.Pass = pass
						cfg.EnableCapabilityNegotiation = capNeg
						cfg.Me.Nick, cfg.Me.Ident, cfg.Me.Name = nick, ident, name
						if wantCaps { // a list of wanted capabilities is not the switch: only the flag says whether to negotiate
							cfg.Capabilites = []string{"multi-prefix", "away-notify"}
						}
					}, func(cn *client.Conn) {
						if track {
							cn.EnableStateTracking()
						}
					})
					b := func(x bool) string {
						if x {
							return "1"
						}
						return "0"
					}
					desc := fmt.Sprintf("connect server=%q ssl=%v capneg=%v pass=%q nick=%q capabilities-listed=%v", server, ssl, capNeg, pass, nick, wantCaps)
					rp := map[string]interface{}{"op": "connect", "server": server, "ssl": ssl, "capneg": capNeg, "pass": pass, "nick": nick, "ident": ident, "name": name}
					if ssl {
						// the TLS handshake cannot succeed on the in-memory link; only the dial address is observed
						if err == nil {
							sess.close()
						}
						continue
					}
					if err != nil {
						c.SpecFail("spec", desc, "", "Connect failed: "+err.Error(), rp)
						continue
					}
					addr = sess.srv.Addr
					want := 2
					if capNeg {
						want++
					}
					if pass != "" {
						want++
					}
					sess.srv.WaitLines(want, 5*time.Second)
					time.Sleep(2 * time.Millisecond)
					lines := sess.srv.Lines()
					cases = append(cases, Case{
						Desc: desc,
						Reqs: []string{fmt.Sprintf("dialaddr %s %s", b(ssl), drv.H(server))},
						Impl: []string{drv.H(addr)},
						Spec: []string{
							fmt.Sprintf("spec18reg %s %s %s %s %s %s", b(capNeg), drv.H(pass), drv.H(nick), drv.H(ident), drv.H(name), drv.L(lines)),
							fmt.Sprintf("spec18addr %s %s %s", b(ssl), drv.H(server), drv.H(addr)),
						},
						Tag: "connect", Key: desc, Replay: rp,
					})
					c.Res.Traces++
					// PING tokens, interleaved with other traffic
					// every shape RFC 2812 3.7.2 allows: the token as trailing or as first middle parameter, a second
					// parameter (the server the PING is for), a source in front
					type pingCase struct{ wire, tok string }
					var pcs []pingCase
					for _, tok := range []string{"", "tok", "a b c", ":x", "x :y", strings.Repeat("t", 400), "irc.test", "\x01odd\x01"} {
						pcs = append(pcs, pingCase{"PING :" + tok, tok})
					}
					// very long tokens: lines around and beyond the 4096-byte read buffer
					for _, n := range []int{4086, 4087, 4088, 4089, 4090, 5000 + c.R.N(3000), 20000} {
						pcs = append(pcs, pingCase{"PING :" + strings.Repeat("L", n-5) + "-tail", strings.Repeat("L", n-5) + "-tail"})
					}
					for _, tok := range []string{"tok42", "99887766", "irc.test", "a:b", "LAG1234567890"} {
						pcs = append(pcs, pingCase{"PING " + tok, tok}, pingCase{"PING " + tok + " irc.example.org", tok}, pingCase{":hub.example.org PING " + tok + " :leaf.example.org", tok},
							pingCase{"PING " + tok + " :two words", tok}, pingCase{":irc.test PING  " + tok + "  other  :x", tok})
					}
					for _, pc := range pcs {
						tok := pc.tok
						sess.srv.SendLine(":n!u@h PRIVMSG me :noise")
						before := len(sess.srv.Lines())
						sess.srv.SendLine(pc.wire)
						i := sess.srv.WaitLine(before, func(l string) bool { return strings.HasPrefix(l, "PONG") }, 5*time.Second)
						got := "(no PONG)"
						if i >= 0 {
							got = sess.srv.Lines()[i]
						}
						pd := trunc(pc.wire, 60)
						prp := map[string]interface{}{"op": "ping", "line_hex": drv.H(pc.wire), "token_hex": drv.H(tok), "got": got}
						if got != "PONG :"+tok {
							c.SpecFail("spec", pd, "", "answered "+trunc(got, 80)+" ; the token of this PING is "+trunc(tok, 40), prp)
						}
						// the model's answer, and the token must survive re-parsing
						cases = append(cases, Case{Desc: pd,
							Reqs: []string{"cl new nick=6d65 ident=69 name=6e pass=- capneg=0 caps=_ sasl=none version=76 split=450 quit=71 track=0 newnick=default", "cl raw " + drv.H(pc.wire)},
							Impl: []string{"ok", "out=" + drv.L([]string{got}) + " panic=0 connected=0"}, Tag: "ping", Key: pc.wire, Replay: prp})
					}
					// a PING without a token is not answered and does not stop the client
					sess.srv.SendLine("PING")
					if !sess.sync(5 * time.Second) {
						c.SpecFail("spec", "PING without token, then PING :sync", "", "connection stopped answering", nil)
					}
					// "once each", "after dialling": a Connect call on the live connection dials nothing and registers nothing
					err2 := sess.conn.Connect()
					sess.sync(5 * time.Second)
					nNick, nUser := 0, 0
					for _, l := range sess.srv.Lines() {
						if strings.HasPrefix(l, "NICK ") {
							nNick++
						}
						if strings.HasPrefix(l, "USER ") {
							nUser++
						}
					}
					if err2 == nil || nNick != 1 || nUser != 1 {
						c.SpecFail("spec", desc+", then Connect again while connected", "", fmt.Sprintf("the second Connect returned %v; the connection's transcript has %d NICK and %d USER lines", err2, nNick, nUser),
							map[string]interface{}{"op": "connect-while-connected", "config": rp, "transcript": sess.srv.Lines()})
					}
					// the link drops, the application keeps calling command methods while it is down, then reconnects the same
					// client: the new connection starts with the registration lines, once each, and nothing else before them
					if (n/2)%2 == 0 {
						cur := nick // the client's current nick when the link drops
						if nick != "" && !strings.ContainsAny(nick, " :") && c.R.P(1, 3) {
							// the nick it registered with was taken: it asked for the generator's next one and goes by that now
							sess.srv.SendLine(":irc.test 433 * " + nick + " :Nickname is already in use")
							sess.sync(5 * time.Second)
							cur = client.DefaultNewNick(nick)
						}
						if welcomed := c.R.P(2, 3); welcomed && nick != "" && !strings.ContainsAny(nick, " :") {
							// the usual case: the session had been welcomed before the link dropped
							sess.srv.SendLine(":irc.test 001 " + cur + " :Welcome to the network " + cur + "!" + ident + "@host.example")
							sess.sync(5 * time.Second)
						}
						sess.srv.EOF()
						waitFor(func() bool { return !sess.conn.Connected() }, 5*time.Second)
						time.Sleep(time.Millisecond)
						sess.conn.Nick("elsewhere")
						sess.conn.Privmsg("#c", "queued while the link was down")
						rdesc := desc + fmt.Sprintf(", tracking=%v, current nick %q when the link dropped, Nick() and Privmsg() called while down, Connect again", track, cur)
						if err := sess.conn.Connect(); err != nil {
							c.SpecFail("spec", rdesc, "", "reconnect failed: "+err.Error(), rp)
							continue
						}
						select {
						case srv2 := <-sess.conns:
							srv2.WaitLines(want, 5*time.Second)
							time.Sleep(5 * time.Millisecond)
							cases = append(cases, Case{Desc: rdesc,
								Spec: []string{fmt.Sprintf("spec18reg %s %s %s %s %s %s", b(capNeg), drv.H(pass), drv.H(cur), drv.H(ident), drv.H(name), drv.L(srv2.Lines()))},
								Tag:  "reconnect", Key: rdesc, Replay: map[string]interface{}{"op": "reconnect-after-sends-while-down", "config": rp, "transcript": srv2.Lines()}})
							c.Res.Traces++
						case <-time.After(3 * time.Second):
							c.Res.Inconclusive++
						}
					}
					sess.close()
				}
			}
		}
	}
	// SSL dial addresses (the handshake fails afterwards; the dialer has seen the address)
	for _, server := range servers {
		url, conns := memconnListen()
		cfg := client.NewConfig("me")
		cfg.Server, cfg.SSL, cfg.Proxy, cfg.Timeout = server, true, url, time.Second
		cl := client.Client(cfg)
		done := make(chan error, 1)
		go func() { done <- cl.Connect() }()
		select {
		case sc := <-conns:
			addr := sc.Addr
			sc.EOF()
			<-done
			cases = append(cases, Case{Desc: fmt.Sprintf("dial address server=%q ssl=true", server),
				Reqs: []string{"dialaddr 1 " + drv.H(server)}, Impl: []string{drv.H(addr)},
				Spec: []string{fmt.Sprintf("spec18addr 1 %s %s", drv.H(server), drv.H(addr))}, Tag: "dial-ssl", Key: server,
				Replay: map[string]interface{}{"op": "dial", "server": server, "ssl": true, "addr": addr}})
		case <-time.After(3 * time.Second):
			c.Res.Inconclusive++
		}
	}
	// keep-alive: PINGs of its own, periodically, exactly when PingFreq is positive - whether the server is silent, chatty,
	// or pinging the client itself (a link that looks alive is no reason to stop: the property says "periodically")
	for _, freq := range []time.Duration{0, 40 * time.Millisecond} {
		for _, server := range []string{"silent", "chatty", "pinging"} {
			if freq == 0 && server != "silent" && c.Quick() {
				continue
			}
			sess, err := newSession(func(cfg *client.Config) { cfg.PingFreq = freq }, nil)
			if err != nil {
				c.Res.Inconclusive++
				continue
			}
			sess.srv.WaitLines(2, 2*time.Second)
			countPings := func() int {
				n := 0
				for _, l := range sess.srv.Lines() {
					if strings.HasPrefix(l, "PING :") {
						n++
					}
				}
				return n
			}
			// ten periods of 40 ms; on a badly loaded machine up to three seconds until the third PING has been seen
			// (a slow run is never a verdict: only "no PINGs at all after 75 periods" is)
			stop, hard := time.Now().Add(400*time.Millisecond), time.Now().Add(3*time.Second)
			for k := 0; time.Now().Before(stop) || (freq > 0 && countPings() < 3 && time.Now().Before(hard)); k++ {
				switch server {
				case "chatty":
					sess.srv.SendLine(fmt.Sprintf(":n!u@h PRIVMSG #c :chatter %d", k))
				case "pinging":
					sess.srv.SendLine(fmt.Sprintf("PING :srv-%d", k))
				}
				time.Sleep(8 * time.Millisecond)
			}
			pings := countPings()
			sess.close()
			c.Res.Evaluations++
			c.Dist(fmt.Sprintf("pingfreq=%v/%s", freq, server))
			if (freq > 0) != (pings > 0) || (freq > 0 && pings < 3) {
				c.SpecFail("spec", fmt.Sprintf("PingFreq=%v, %s server: %d client PINGs in 0.4 - 3 s", freq, server, pings), "", "client pings must be sent periodically exactly when PingFreq is positive",
					map[string]interface{}{"op": "pingfreq", "freq_ns": int64(freq), "server": server, "pings": pings})
			}
		}
	}
	c.RunCases(cases)
}

// c18StalePings: "PINGs of its own periodically exactly when PingFreq is positive" holds per connection. A first session
// with keep-alive on ends badly - the peer has stopped reading, the output queue is full, keep-alive PINGs have come due
// and are stuck behind it, the context is cancelled, the socket takes a moment to close - and then the same client, with
// PingFreq now 0, connects again: nothing of the first session's keep-alive may show on the second connection.
func c18StalePings(c *Ctx) {
	for round := 0; round < c.Pick(2, 6); round++ {
		desc := "keep-alive on (10 ms), peer stalled with the queue full and PINGs due, context cancelled, slow socket close; then PingFreq = 0 and the same client reconnects"
		c.Journal("C18 " + desc)
		url, conns := memconn.Listen()
		cfg := client.NewConfig("me", "ident", "Real")
		cfg.Server, cfg.Proxy, cfg.Flood, cfg.PingFreq, cfg.Timeout = "irc.test", url, true, 10*time.Millisecond, 3*time.Second
		conn := client.Client(cfg)
		disc := make(chan struct{}, 4)
		conn.HandleFunc(client.DISCONNECTED, func(*client.Conn, *client.Line) { disc <- struct{}{} })
		ctx, cancel := context.WithCancel(context.Background())
		if err := conn.ConnectContext(ctx); err != nil {
			cancel()
			c.Res.Inconclusive++
			continue
		}
		srv := <-conns
		srv.WaitLines(2, 2*time.Second)
		srv.GateWrites() // no tokens are ever handed out: the peer has stopped reading
		srv.SetCloseDelay(5 * time.Millisecond)
		go func() {
			for i := 0; i < 50; i++ {
				conn.Raw(fmt.Sprintf("PRIVMSG #c :filler %d", i))
			}
		}()
		time.Sleep(80 * time.Millisecond)
		cancel()
		select {
		case <-disc:
		case <-time.After(10 * time.Second):
			c.SpecFail("spec", desc, "", "the first connection did not end within 10 s of the cancellation", map[string]interface{}{"op": "stale-pings"})
			continue
		}
		conn.Config().PingFreq = 0
		if err := conn.Connect(); err != nil {
			c.Res.Inconclusive++
			continue
		}
		var srv2 *memconn.Conn
		select {
		case srv2 = <-conns:
		case <-time.After(3 * time.Second):
			c.Res.Inconclusive++
			continue
		}
		time.Sleep(300 * time.Millisecond)
		pings := 0
		for _, l := range srv2.Lines() {
			if strings.HasPrefix(l, "PING :") {
				pings++
			}
		}
		conn.Close()
		c.Res.Traces++
		c.Res.Evaluations++
		c.Dist("stale-pings")
		if pings > 0 {
			c.SpecFail("spec", desc, "", fmt.Sprintf("%d keep-alive PINGs on the second connection within 300 ms although PingFreq is 0", pings), map[string]interface{}{"op": "stale-pings", "wire": srv2.Lines()})
		}
	}
}
