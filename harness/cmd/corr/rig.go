package main

import (
	"fmt"
	"sort"
	"strings"
	"sync"

	sasl "github.com/emersion/go-sasl"
	"github.com/fluffle/goirc/client"

	"verif/harness/drv"
)

// rigParams mirrors the `cl new` request of the driver.
type rigParams struct {
	nick, ident, name, pass, version, quit string
	capNeg                                 bool
	caps                                   []string
	sasl                                   string // "none" | "plain:i:u:p" (hex) | "ext:i"
	saslClient                             sasl.Client
	split                                  int
	track                                  bool
	newNick                                string // "default" | "append:<hex>" | "const:<hex>"
}

func (p rigParams) req() string {
	b := func(x bool) string {
		if x {
			return "1"
		}
		return "0"
	}
	return fmt.Sprintf("cl new nick=%s ident=%s name=%s pass=%s capneg=%s caps=%s sasl=%s version=%s split=%d quit=%s track=%s newnick=%s",
		drv.H(p.nick), drv.H(p.ident), drv.H(p.name), drv.H(p.pass), b(p.capNeg), drv.L(p.caps), p.sasl, drv.H(p.version), p.split, drv.H(p.quit), b(p.track), p.newNick)
}

// rig is a real client whose internal handlers are driven in-process.
type rig struct {
	conn      *client.Conn
	mu        sync.Mutex
	panicked  bool
	connected bool
}

func plainSasl(i, u, p string) (string, sasl.Client) {
	return "plain:" + drv.H(i) + ":" + drv.H(u) + ":" + drv.H(p), sasl.NewPlainClient(i, u, p)
}
func extSasl(i string) (string, sasl.Client) {
	return "ext:" + drv.H(i), sasl.NewExternalClient(i)
}

// lateNewNick: the next rig gets its nick generator through Config() AFTER Client() has been called
var lateNewNick = false

func newRig(p rigParams) *rig {
	r := &rig{}
	cfg := client.NewConfig(p.nick, p.ident, p.name)
	cfg.Me.Ident = p.ident // NewConfig substitutes defaults for empty strings; mirror the request exactly
	cfg.Me.Name = p.name
	cfg.Pass = p.pass
	cfg.Version = p.version
	cfg.QuitMessage = p.quit
	cfg.SplitLen = p.split
	cfg.EnableCapabilityNegotiation = p.capNeg
	cfg.Capabilites = p.caps
	cfg.Sasl = p.saslClient
	cfg.Flood = true
	var gen func(string) string
	switch {
	case strings.HasPrefix(p.newNick, "append:"):
		x, _ := drv.UnH(strings.TrimPrefix(p.newNick, "append:"))
		gen = func(o string) string { return o + x }
	case strings.HasPrefix(p.newNick, "const:"):
		x, _ := drv.UnH(strings.TrimPrefix(p.newNick, "const:"))
		gen = func(string) string { return x }
	}
	if gen != nil && !lateNewNick {
		cfg.NewNick = gen
	}
	cfg.Recover = func(_ *client.Conn, _ *client.Line) {
		if e := recover(); e != nil {
			r.mu.Lock()
			r.panicked = true
			r.mu.Unlock()
		}
	}
	r.conn = client.Client(cfg)
	if gen != nil && lateNewNick { // "the configured generator" is the one in Config() when the collision happens
		r.conn.Config().NewNick = gen
	}
	if p.track {
		r.conn.EnableStateTracking()
	}
	r.conn.HandleFunc(client.CONNECTED, func(*client.Conn, *client.Line) {
		r.mu.Lock()
		r.connected = true
		r.mu.Unlock()
	})
	return r
}

// dispatch runs the internal handler set on line and reports what the model reports.
func (r *rig) dispatch(line *client.Line) string {
	r.mu.Lock()
	r.panicked, r.connected = false, false
	r.mu.Unlock()
	out := client.VerifCapture(r.conn, func() { client.VerifDispatchInternal(r.conn, line) })
	r.mu.Lock()
	defer r.mu.Unlock()
	b := func(x bool) string {
		if x {
			return "1"
		}
		return "0"
	}
	return fmt.Sprintf("out=%s panic=%s connected=%s", drv.L(out), b(r.panicked), b(r.connected))
}

// raw parses a server line with the real parser and dispatches it.
func (r *rig) raw(s string) string {
	l := client.ParseLine(s)
	if l == nil {
		return "rejected"
	}
	return r.dispatch(l)
}

// obs mirrors the driver's `cl obs`.
func (r *rig) obs(capUniverse, nicks, chans []string) string {
	menil := "0"
	if r.conn.Config().Me == nil {
		menil = "1"
	}
	me := r.conn.Me()
	var sup, cur []string
	meStr := "nil"
	if me != nil {
		meStr = fmt.Sprintf("%s,%s,%s,%s", drv.H(me.Nick), drv.H(me.Ident), drv.H(me.Host), drv.H(me.Name))
	}
	for _, c := range capUniverse {
		if r.conn.SupportsCapability(c) {
			sup = append(sup, drv.H(c))
		}
		if r.conn.HasCapability(c) {
			cur = append(cur, drv.H(c))
		}
	}
	sort.Strings(sup)
	sort.Strings(cur)
	tk := "none"
	if t := r.conn.StateTracker(); t != nil {
		if me != nil {
			nicks = dedup(append(append([]string(nil), nicks...), me.Nick))
		}
		tk = observe(t, nicks, chans)
	}
	return fmt.Sprintf("menil=%s me=%s sup=[%s] cur=[%s] tracker=%s", menil, meStr, strings.Join(sup, ";"), strings.Join(cur, ";"), tk)
}
