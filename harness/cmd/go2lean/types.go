package main

import (
	"fmt"
	"go/ast"
	"go/token"
	"strconv"
	"strings"
)

// Types are Go source strings: "string" "byte" "int" "bool" "[]T" "map[string]string" "*S" "S",
// plus "untyped int" / "untyped rune" for constants (they take the type of the other operand).

type param struct{ name, typ string }

type sig struct {
	lean     string  // name of the Lean def: f, or Recv_f for methods
	params   []param // receiver first
	results  []param // names "" unless the results are named
	ext      bool    // takes (ext : UnicodeExt) first: it reaches strings.ToUpper/ToLower
	method   bool    // params[0] is the receiver
	variadic bool    // the last parameter is `x ...T` (a []T inside the function)
	threaded bool    // the method mutates its receiver: it returns the new receiver (main.go, threading)
}

// structCfg: how a struct that carries STATE is rendered.  A struct without a row (Line) gets every
// field of a supported type.  A struct with a row gets only the listed fields; its pointer methods
// may mutate it and then return the new value ("threaded" receiver).
type structCfg struct {
	Type       string
	Fields     []string // ordinary fields translated functions may touch
	ChanFields []string // `chan string` fields rendered as FIFO queues (List Bytes); only `x.f <- v` is supported
	Scalars    bool     // instead of Fields: every field of type string / int / bool
}

var structTable = []structCfg{
	{Type: "Conn", Fields: []string{"cfg"}, ChanFields: []string{"out"}},
	{Type: "Config", Scalars: true, Fields: []string{"Me"}},
	{Type: "state.Nick", Scalars: true}, // from /repo/state: the type of Config.Me
	{Type: "capSet", Fields: []string{"caps"}},
}

func structRow(t string) *structCfg {
	for i := range structTable {
		if structTable[i].Type == strings.TrimPrefix(t, "*") {
			return &structTable[i]
		}
	}
	return nil
}

func has(list []string, x string) bool {
	for _, y := range list {
		if x == y {
			return true
		}
	}
	return false
}

// fieldKind of field f of struct st: "value" (translated), "chan" (a queue), "mutex" (its Lock/Unlock
// calls are dropped: sequential semantics), "" (not translated: any use is UNSUPPORTED).
func (p *pkg) fieldKind(st string, f param) string {
	row := structRow(st)
	switch {
	case f.name == "":
	case f.typ == "sync.Mutex" || f.typ == "sync.RWMutex":
		return "mutex"
	case row == nil && p.leanType(f.typ) != "" && p.zero(f.typ) != "":
		return "value"
	case row == nil:
	case has(row.ChanFields, f.name) && f.typ == "chan string":
		return "chan"
	case row.Scalars && (f.typ == "string" || f.typ == "int" || f.typ == "bool"):
		return "value"
	case has(row.Fields, f.name) && p.leanType(f.typ) != "" && p.fieldZero(f.typ) != "":
		return "value"
	}
	return ""
}

// fieldZero: a pointer-to-struct FIELD of a state struct is rendered as the struct value (never nil)
func (p *pkg) fieldZero(t string) string {
	if strings.HasPrefix(t, "*") && structRow(t) != nil {
		return "{}"
	}
	return p.zero(t)
}

func (p *pkg) isStruct(t string) bool { return p.structs[strings.TrimPrefix(t, "*")] != nil }

// structLean: Lean name of a struct type: no pointer star, no package qualifier (*state.Nick is Nick)
func structLean(t string) string {
	t = strings.TrimPrefix(t, "*")
	return t[strings.LastIndex(t, ".")+1:]
}

// leanType maps a Go type to its Lean rendering ("" = unsupported).  Pointer-to-struct is the struct
// itself (value semantics; alias.go makes sure no pointer is ever copied or written through a parameter).
func (p *pkg) leanType(t string) string {
	switch {
	case t == "string":
		return "Bytes"
	case t == "byte":
		return "UInt8"
	case t == "int":
		return "Int"
	case t == "bool":
		return "Bool"
	case t == "map[string]string":
		return "Option (List (Bytes × Bytes))"
	case t == "map[string]bool":
		return "Option (List (Bytes × Bool))"
	case strings.HasPrefix(t, "[]"):
		// elements must be values: slices of slices / maps / pointers would share memory per element
		if el := p.leanType(t[2:]); el != "" && !strings.HasPrefix(t[2:], "[]") && !strings.HasPrefix(t[2:], "map") && !strings.HasPrefix(t[2:], "*") {
			if strings.Contains(el, " ") {
				el = "(" + el + ")"
			}
			return "List " + el
		}
	case p.isStruct(t):
		return structLean(t)
	}
	return ""
}

// zero is Go's zero value of t (nil slice = empty list, nil map = none).
func (p *pkg) zero(t string) string {
	switch {
	case t == "string" || strings.HasPrefix(t, "[]"):
		return "[]"
	case t == "int" || t == "byte":
		return "0"
	case t == "bool":
		return "false"
	case t == "map[string]string" || t == "map[string]bool":
		return "none"
	case p.isStruct(t) && !strings.HasPrefix(t, "*"):
		return "{}"
	}
	return ""
}

func fieldParams(fl *ast.FieldList) (ps []param) {
	if fl == nil {
		return
	}
	for _, f := range fl.List {
		t := typeStr(f.Type)
		if el, ok := f.Type.(*ast.Ellipsis); ok { // x ...T is a []T inside the function
			t = "[]" + typeStr(el.Elt)
		}
		if len(f.Names) == 0 {
			ps = append(ps, param{"", t})
		}
		for _, n := range f.Names {
			ps = append(ps, param{n.Name, t})
		}
	}
	return
}

func (p *pkg) signature(fd *ast.FuncDecl) (*sig, string) {
	s := &sig{lean: strings.ReplaceAll(fnKey(fd), ".", "_")}
	if fd.Type.TypeParams != nil {
		return nil, "generic function"
	}
	s.params = append(fieldParams(fd.Recv), fieldParams(fd.Type.Params)...)
	s.results = fieldParams(fd.Type.Results)
	s.method = fd.Recv != nil
	if n := fd.Type.Params.NumFields(); n > 0 {
		_, s.variadic = fd.Type.Params.List[len(fd.Type.Params.List)-1].Type.(*ast.Ellipsis)
	}
	for _, q := range append(append([]param{}, s.params...), s.results...) {
		if p.leanType(q.typ) == "" {
			return nil, "unsupported type " + q.typ + " in the signature"
		}
	}
	for _, q := range s.params {
		if q.name == "" || q.name == "_" {
			return nil, "unnamed parameter"
		}
	}
	return s, ""
}

// resultType is the Lean type inside M: pointer results become Option (nil = none).
func (p *pkg) resultType(s *sig) string {
	var ts []string
	if s.threaded { // the new receiver comes first
		ts = append(ts, p.leanType(s.params[0].typ))
	}
	for _, r := range s.results {
		t := p.leanType(r.typ)
		if strings.HasPrefix(r.typ, "*") {
			t = "Option " + t
		}
		ts = append(ts, t)
	}
	switch len(ts) {
	case 0:
		return "Unit"
	case 1:
		if strings.Contains(ts[0], " ") {
			return "(" + ts[0] + ")"
		}
		return ts[0]
	}
	return "(" + strings.Join(ts, " × ") + ")"
}

func bytesLit(s string) string {
	var parts []string
	for i := 0; i < len(s); i++ {
		parts = append(parts, strconv.Itoa(int(s[i])))
	}
	return "[" + strings.Join(parts, ", ") + "]"
}

// comment-safe rendering of a Go literal (a `--` comment ends at the end of the line)
func litComment(src string) string {
	if strings.ContainsAny(src, "\n\r") {
		return strconv.Quote(src)
	}
	return src
}

// constant: value and type of a package constant (only literal values are supported).
func (p *pkg) constant(name string) (lean, typ, comment string, ok bool) {
	lit, isLit := p.consts[name].(*ast.BasicLit)
	if !isLit {
		return
	}
	switch lit.Kind {
	case token.STRING:
		if s, err := strconv.Unquote(lit.Value); err == nil {
			return bytesLit(s), "string", litComment(lit.Value), true
		}
	case token.INT:
		if v, err := strconv.ParseInt(lit.Value, 0, 64); err == nil {
			return strconv.FormatInt(v, 10), "untyped int", "", true
		}
	}
	return
}

// replacerPairs: the (old, new) literal pairs of `var r = strings.NewReplacer("a", "b", ...)`.
// Rt.replace is Go's rule only when every old string is non-empty, so an empty one is refused.
func (p *pkg) replacerPairs(name string) (pairs [][2]string, src string, ok bool) {
	call, isCall := p.vars[name].(*ast.CallExpr)
	if !isCall || typeStr(call.Fun) != "strings.NewReplacer" || len(call.Args)%2 != 0 {
		return
	}
	var vals []string
	for _, a := range call.Args {
		lit, isLit := a.(*ast.BasicLit)
		if !isLit || lit.Kind != token.STRING {
			return
		}
		s, _ := strconv.Unquote(lit.Value)
		vals = append(vals, s)
	}
	for i := 0; i < len(vals); i += 2 {
		if vals[i] == "" {
			return
		}
		pairs = append(pairs, [2]string{vals[i], vals[i+1]})
	}
	return pairs, litComment(typeStr(call)), true
}

// declLean renders a used package-level declaration: constant, replacer variable or struct.
func (p *pkg) declLean(name string) string {
	if lean, typ, c, ok := p.constant(name); ok {
		if typ == "string" {
			return fmt.Sprintf("def %s : Bytes := %s -- %s\n", name, lean, c)
		}
		return fmt.Sprintf("def %s : Int := %s\n", name, lean)
	}
	if pairs, src, ok := p.replacerPairs(name); ok {
		var ps []string
		for _, q := range pairs {
			ps = append(ps, "("+bytesLit(q[0])+", "+bytesLit(q[1])+")")
		}
		return fmt.Sprintf("-- %s\ndef %s : List (Bytes × Bytes) := [%s]\n", src, name, strings.Join(ps, ", "))
	}
	st := p.structs[name]
	var b strings.Builder
	var skipped []string
	fmt.Fprintf(&b, "structure %s where\n", structLean(name))
	for _, f := range fieldParams(st.Fields) {
		switch p.fieldKind(name, f) {
		case "value":
			fmt.Fprintf(&b, "  %s : %s := %s\n", f.name, p.leanType(f.typ), p.fieldZero(f.typ))
		case "chan":
			fmt.Fprintf(&b, "  %s : List Bytes := [] -- %s: the queue, oldest first\n", f.name, f.typ)
		default:
			skipped = append(skipped, f.name+" "+f.typ)
		}
	}
	b.WriteString("deriving DecidableEq, Repr\n")
	if why := " (unsupported type)"; len(skipped) > 0 {
		if structRow(name) != nil {
			why = " (not listed in the translator's struct table, or unsupported type)"
		}
		fmt.Fprintf(&b, "-- fields of %s not translated%s: %s\n", structLean(name), why, strings.Join(skipped, ", "))
	}
	return "\n" + b.String()
}

// structDeps: the structs whose declaration must precede that of struct `name`
func (p *pkg) structDeps(name string) (deps []string) {
	if st := p.structs[name]; st != nil {
		for _, f := range fieldParams(st.Fields) {
			if p.fieldKind(name, f) == "value" && p.isStruct(f.typ) {
				deps = append(deps, strings.TrimPrefix(f.typ, "*"))
			}
		}
	}
	return
}

// fieldType of struct (or pointer-to-struct) type t; "" when absent or not translated.  Channel and
// mutex fields report their Go type (they have no Lean type: only sends / Lock calls may mention them).
func (p *pkg) fieldType(t, field string) string {
	st := p.structs[strings.TrimPrefix(t, "*")]
	if st == nil {
		return ""
	}
	for _, f := range fieldParams(st.Fields) {
		if f.name == field && p.fieldKind(strings.TrimPrefix(t, "*"), f) != "" {
			return f.typ
		}
	}
	return ""
}

// valueField: the Go type of a field that is rendered as a Lean structure field, else ""
func (p *pkg) valueField(t, field string) string {
	if ft := p.fieldType(t, field); p.leanType(ft) != "" {
		return ft
	}
	return ""
}

var leanKeywords = map[string]bool{"at": true, "by": true, "do": true, "end": true, "from": true, "fun": true, "have": true,
	"in": true, "let": true, "match": true, "mut": true, "open": true, "show": true, "then": true, "with": true, "where": true,
	"instance": true, "structure": true, "theorem": true, "def": true, "deriving": true, "using": true, "if": true, "else": true,
	"for": true, "return": true, "try": true, "catch": true, "finally": true, "unless": true, "namespace": true, "section": true,
	"variable": true, "universe": true, "Type": true, "Prop": true, "Sort": true, "ext": true, "pure": true, "some": true, "none": true,
	"true": true, "false": true, "M": true, "Rt": true, "Go": true,
	// names the generated code itself uses: a Go local of that name must not capture them
	"fields": true, "trimSpace": true, "hasPrefix": true, "hasSuffix": true, "toUpper": true, "toLower": true, "join": true,
	"decide": true, "throw": true, "List": true, "Int": true, "Bytes": true, "Option": true,
	// more Lean tokens that are legal Go identifiers
	"prefix": true, "infix": true, "infixl": true, "infixr": true, "postfix": true, "notation": true, "macro": true, "syntax": true,
	"elab": true, "abbrev": true, "example": true, "axiom": true, "private": true, "protected": true, "partial": true, "unsafe": true,
	"noncomputable": true, "local": true, "scoped": true, "attribute": true, "export": true, "mutual": true, "class": true,
	"inductive": true, "extends": true, "nomatch": true, "nofun": true, "forall": true, "exists": true, "sorry": true, "calc": true,
	"suffices": true, "obtain": true, "opaque": true, "lemma": true, "set_option": true, "omit": true, "include": true, "initialize": true}

func leanIdent(name string) string {
	if leanKeywords[name] {
		return name + "_"
	}
	return name
}
