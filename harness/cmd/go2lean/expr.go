package main

import (
	"fmt"
	"go/ast"
	"go/token"
	"strconv"
	"strings"
)

// Expression translation.  Invariants:
//   - expr returns a PURE Lean term that is safe as a function argument (an atom, or parenthesised);
//   - every operation that can panic (index, slice, call of a translated function, store) is emitted
//     as its own `let tN ← …` line before the statement, in Go's evaluation order: operands left to
//     right, operands before the operation.  (Go leaves the order of indexing relative to calls
//     unspecified; left to right is what gc does, and since nothing here has side effects the choice
//     only affects WHICH panic is reported, never whether one is.)
//   - `&&` / `||` whose right operand needs such lines become `let t ← if a then do … else pure false`,
//     so the right operand's panics stay behind the test of the left one.

type binding struct{ lean, typ string }

// scope is a Go scope.  A Go scope that is not a Lean block of its own (the init of `if x := …; c`)
// leaves its names visible in the enclosing Lean block: `leaked` remembers them so that a later
// declaration of the same name gets a fresh Lean name instead of changing meaning.
type scope struct {
	vars      map[string]binding
	leanBlock bool
	leaked    []string
}

type gen struct {
	p       *pkg
	cfg     fnCfg
	fd      *ast.FuncDecl
	sig     *sig
	out     []string
	ind     int
	scopes  []*scope
	ntmp    int
	tmp     string   // prefix of temporaries
	lits    []string // Go literals met since the last emitted line (become its trailing comment)
	uses    map[string]bool
	loop    int             // index into cfg.Fuel
	ctx     []string        // enclosing "range" / "fuel" / "fuel+post" / "switch" statements
	recv    string          // Go name of the receiver when the method is threaded (sig.threaded), else ""
	dropped map[string]bool // variables of dropped `x := runtime.…` assignments (never declared)
	al      *aliases
}

type unsupported struct{ msg string }

func (g *gen) fail(n ast.Node, f string, a ...any) {
	pos := g.p.fset.Position(n.Pos())
	panic(unsupported{fmt.Sprintf("line %d: ", pos.Line) + fmt.Sprintf(f, a...)})
}

func (g *gen) emitL(line string, lits []string) {
	if len(lits) > 0 {
		line += " -- " + strings.Join(lits, ", ")
	}
	g.out = append(g.out, strings.Repeat("  ", g.ind)+line)
}
func (g *gen) emit(line string) { g.emitL(line, g.takeLits()) }
func (g *gen) takeLits() []string {
	l := g.lits
	g.lits = nil
	return l
}

// capture runs f with output redirected, `delta` levels deeper, and returns the lines.
func (g *gen) capture(delta int, f func()) []string {
	saved := g.out
	g.out, g.ind = nil, g.ind+delta
	f()
	lines := g.out
	g.out, g.ind = saved, g.ind-delta
	return lines
}

func (g *gen) newTmp() string { g.ntmp++; return g.tmp + strconv.Itoa(g.ntmp) }

func (g *gen) push(leanBlock bool) {
	g.scopes = append(g.scopes, &scope{vars: map[string]binding{}, leanBlock: leanBlock})
}
func (g *gen) pop() {
	s := g.scopes[len(g.scopes)-1]
	g.scopes = g.scopes[:len(g.scopes)-1]
	if !s.leanBlock && len(g.scopes) > 0 {
		up := g.scopes[len(g.scopes)-1]
		up.leaked = append(up.leaked, s.leaked...)
		for _, b := range s.vars {
			up.leaked = append(up.leaked, b.lean)
		}
	}
}
func (g *gen) lookup(name string) (binding, bool) {
	for i := len(g.scopes) - 1; i >= 0; i-- {
		if b, ok := g.scopes[i].vars[name]; ok {
			return b, true
		}
	}
	return binding{}, false
}

// declare binds a Go variable in the innermost Go scope and picks its Lean name: the Go name, unless
// that name is still visible in Lean (an outer variable, or a leaked one), then name_1, name_2, …
func (g *gen) declare(name, typ string) string {
	visible := map[string]bool{}
	for _, s := range g.scopes {
		for _, b := range s.vars {
			visible[b.lean] = true
		}
		for _, l := range s.leaked {
			visible[l] = true
		}
	}
	lean := leanIdent(name)
	for i := 1; visible[lean]; i++ {
		lean = fmt.Sprintf("%s_%d", leanIdent(name), i)
	}
	g.scopes[len(g.scopes)-1].vars[name] = binding{lean, typ}
	return lean
}

func strip(code string) string { // drop one redundant outer pair of parentheses
	if strings.HasPrefix(code, "(") && strings.HasSuffix(code, ")") {
		depth := 0
		for i, c := range code {
			if c == '(' {
				depth++
			} else if c == ')' {
				depth--
				if depth == 0 && i != len(code)-1 {
					return code
				}
			}
		}
		return code[1 : len(code)-1]
	}
	return code
}

// level: binding strength of the outermost operator of a generated term (operators are always
// written with spaces around them): 30 logic, 50 comparison, 65 arithmetic, 75 prefix, 100
// application, 1000 atom.  Only used to leave out parentheses Lean does not need.
func level(s string) int {
	depth, lv := 0, 1000
	for i, c := range s {
		switch c {
		case '(', '[', '{':
			depth++
		case ')', ']', '}':
			depth--
		case ' ':
			if depth > 0 {
				continue
			}
			op, l := strings.SplitN(s[i+1:]+" ", " ", 2)[0], 100
			switch op {
			case "||", "&&":
				l = 30
			case "==", "!=", "<", ">", "≤", "≥":
				l = 50
			case "+", "-", "++":
				l = 65
			case "*", "/", "%":
				l = 70
			}
			if l < lv {
				lv = l
			}
		}
	}
	if lv > 75 && (strings.HasPrefix(s, "!") || strings.HasPrefix(s, "-")) {
		lv = 75
	}
	return lv
}

// opnd: code as an operand of an operator of the given level
func opnd(code string, parent int) string {
	if in := strip(code); level(in) > parent {
		return in
	}
	return code
}

func untyped(t string) bool { return strings.HasPrefix(t, "untyped") }

// unify: the type of a binary operation's operands (an untyped constant adopts the other side's type)
func (g *gen) unify(n ast.Node, a, b string) string {
	switch {
	case untyped(a) && untyped(b):
		return "untyped int"
	case untyped(a):
		a = b
	case untyped(b):
		b = a
	}
	if a != b {
		g.fail(n, "operands of types %s and %s", a, b)
	}
	return a
}

// expr translates e to a pure term, emitting `let t ← …` lines for whatever can panic.
func (g *gen) expr(e ast.Expr, want string) (string, string) {
	before := g.takeLits() // literals of earlier operands belong to the statement, not to this line
	code, typ, act := g.expr0(e, want)
	if act {
		t := g.newTmp()
		g.emit("let " + t + " ← " + code)
		code = t
	}
	g.lits = append(before, g.lits...)
	return code, typ
}

// expr0 is expr, except that when the outermost operation of e can panic it is returned as a
// monadic action (act = true) for the caller to bind.  want is the expected type ("" = unknown).
func (g *gen) expr0(e ast.Expr, want string) (code, typ string, act bool) {
	switch e := e.(type) {
	case *ast.ParenExpr:
		return g.expr0(e.X, want)
	case *ast.BasicLit:
		switch e.Kind {
		case token.INT:
			if v, err := strconv.ParseInt(e.Value, 0, 64); err == nil {
				return strconv.FormatInt(v, 10), "untyped int", false
			}
		case token.CHAR:
			if r, _, _, err := strconv.UnquoteChar(e.Value[1:len(e.Value)-1], '\''); err == nil {
				g.lits = append(g.lits, litComment(e.Value))
				return strconv.Itoa(int(r)), "untyped rune", false
			}
		case token.STRING:
			if s, err := strconv.Unquote(e.Value); err == nil {
				g.lits = append(g.lits, litComment(e.Value))
				return bytesLit(s), "string", false
			}
		}
		g.fail(e, "literal %s", e.Value)
	case *ast.Ident:
		if b, ok := g.lookup(e.Name); ok {
			return b.lean, b.typ, false
		}
		switch e.Name {
		case "true", "false":
			return e.Name, "bool", false
		case "nil":
			if z := g.p.zero(want); z == "[]" && want != "string" || z == "none" {
				return z, want, false
			}
			g.fail(e, "nil where the type is not known to be a slice or map")
		}
		if _, typ, _, ok := g.p.constant(e.Name); ok {
			g.uses[e.Name] = true
			return e.Name, typ, false
		}
		g.fail(e, "unknown identifier %s", e.Name)
	case *ast.SelectorExpr:
		x, xt := g.expr(e.X, "")
		if ft := g.p.valueField(xt, e.Sel.Name); ft != "" {
			if g.p.isStruct(ft) {
				g.uses[strings.TrimPrefix(ft, "*")] = true
			}
			return x + "." + e.Sel.Name, ft, false // pointers are never nil in the model (see REPORT)
		}
		g.fail(e, "selector %s on type %s", e.Sel.Name, xt)
	case *ast.IndexExpr:
		x, xt := g.expr(e.X, "")
		switch {
		case xt == "map[string]string" || xt == "map[string]bool":
			k, kt := g.expr(e.Index, "string")
			g.unify(e, kt, "string")
			if xt == "map[string]bool" {
				return "(Rt.bmapGet " + x + " " + k + ")", "bool", false
			}
			return "(Rt.mapGet " + x + " " + k + ")", "string", false
		case xt == "string" || strings.HasPrefix(xt, "[]"):
			i, it := g.expr(e.Index, "int")
			g.unify(e, it, "int")
			if xt == "string" {
				return "Rt.idx " + x + " " + i, "byte", true
			}
			return "Rt.idx " + x + " " + i, xt[2:], true
		}
		g.fail(e, "index of type %s", xt)
	case *ast.SliceExpr:
		x, xt := g.expr(e.X, "")
		if e.Slice3 || xt != "string" && !strings.HasPrefix(xt, "[]") {
			g.fail(e, "slice expression on type %s", xt)
		}
		if xt != "string" && e.High != nil {
			// for a slice the upper limit is cap(s), which is not modelled: only s[i:] is exact
			g.fail(e, "s[i:j] with an explicit upper bound on a %s (bound is cap, not len)", xt)
		}
		var lo, hi string
		if e.Low != nil {
			var t string
			lo, t = g.expr(e.Low, "int")
			g.unify(e, t, "int")
		}
		if e.High != nil {
			var t string
			hi, t = g.expr(e.High, "int")
			g.unify(e, t, "int")
		}
		switch {
		case lo != "" && hi != "":
			return "Rt.slice " + x + " " + lo + " " + hi, xt, true
		case lo != "":
			return "Rt.sliceFrom " + x + " " + lo, xt, true
		case hi != "":
			return "Rt.sliceTo " + x + " " + hi, xt, true
		}
		return x, xt, false
	case *ast.UnaryExpr:
		if cl, ok := e.X.(*ast.CompositeLit); ok && e.Op == token.AND {
			c, t := g.composite(cl)
			return c, "*" + t, false
		}
		x, xt := g.expr(e.X, want)
		switch {
		case e.Op == token.NOT && xt == "bool":
			return "(!" + x + ")", "bool", false
		case e.Op == token.SUB && (xt == "int" || xt == "untyped int"):
			return "(-" + x + ")", xt, false
		}
		g.fail(e, "unary %s on %s", e.Op, xt)
	case *ast.BinaryExpr:
		return g.binary(e)
	case *ast.CompositeLit:
		c, t := g.composite(e)
		return c, t, false
	case *ast.CallExpr:
		return g.call(e)
	}
	g.fail(e, "expression %T", e)
	return
}

func (g *gen) binary(e *ast.BinaryExpr) (string, string, bool) {
	if e.Op == token.LAND || e.Op == token.LOR {
		a, at := g.expr(e.X, "bool")
		la := g.takeLits()
		var b, bt string
		sub := g.capture(2, func() { b, bt = g.expr(e.Y, "bool") })
		lb := g.takeLits()
		if at != "bool" || bt != "bool" {
			g.fail(e, "%s on %s, %s", e.Op, at, bt)
		}
		op := map[token.Token]string{token.LAND: " && ", token.LOR: " || "}[e.Op]
		if len(sub) == 0 {
			g.lits = append(la, lb...)
			return "(" + opnd(a, 30) + op + opnd(b, 30) + ")", "bool", false
		}
		// short circuit: the lines b needs run only when a lets b be evaluated
		t := g.newTmp()
		g.emitL("let "+t+" ←", nil)
		g.ind++
		if e.Op == token.LAND {
			g.emitL("if "+strip(a)+" then do", la)
		} else {
			g.emitL("if "+strip(a)+" then pure true", la)
			g.emitL("else do", nil)
		}
		g.out = append(g.out, sub...)
		g.ind++
		g.emitL("pure "+b, lb)
		g.ind--
		if e.Op == token.LAND {
			g.emitL("else pure false", nil)
		}
		g.ind--
		return t, "bool", false
	}
	l, lt := g.expr(e.X, "")
	r, rt := g.expr(e.Y, lt)
	t := g.unify(e, lt, rt)
	num := t == "int" || t == "untyped int"
	switch e.Op {
	case token.ADD:
		if t == "string" {
			return "(" + opnd(l, 65) + " ++ " + opnd(r, 65) + ")", t, false
		}
		fallthrough
	case token.SUB, token.MUL: // Int is unbounded: no 64-bit wrap-around (see REPORT); UInt8 wraps like Go's byte
		if num || t == "byte" {
			return "(" + opnd(l, 65) + " " + e.Op.String() + " " + opnd(r, 65) + ")", t, false
		}
	case token.REM, token.QUO: // only unsigned (no rounding question) and by a non-zero literal (no division panic)
		if lit, ok := e.Y.(*ast.BasicLit); ok && t == "byte" && lit.Kind == token.INT && strings.Trim(lit.Value, "0_xXoObB") != "" {
			return "(" + opnd(l, 70) + " " + e.Op.String() + " " + opnd(r, 70) + ")", t, false
		}
	case token.EQL, token.NEQ:
		if num || t == "string" || t == "byte" || t == "bool" || t == "untyped rune" {
			return "(" + opnd(l, 50) + " " + e.Op.String() + " " + opnd(r, 50) + ")", "bool", false
		}
	case token.LSS, token.LEQ, token.GTR, token.GEQ:
		if num || t == "byte" {
			op := map[token.Token]string{token.LSS: "<", token.LEQ: "≤", token.GTR: ">", token.GEQ: "≥"}[e.Op]
			return "(decide (" + opnd(l, 50) + " " + op + " " + opnd(r, 50) + "))", "bool", false
		}
	}
	g.fail(e, "operator %s on %s", e.Op, t)
	return "", "", false
}

// composite: []T{…} and S{f: v, …} (keyed fields only)
func (g *gen) composite(e *ast.CompositeLit) (string, string) {
	t := typeStr(e.Type)
	if strings.HasPrefix(t, "[]") && g.p.leanType(t) != "" {
		var els []string
		for _, el := range e.Elts {
			if _, kv := el.(*ast.KeyValueExpr); kv {
				g.fail(el, "keyed slice literal")
			}
			c, ct := g.expr(el, t[2:])
			g.unify(el, ct, t[2:])
			els = append(els, strip(c))
		}
		return "[" + strings.Join(els, ", ") + "]", t
	}
	if g.p.isStruct(t) && !strings.HasPrefix(t, "*") {
		g.uses[t] = true
		var fs []string
		for _, el := range e.Elts {
			kv, ok := el.(*ast.KeyValueExpr)
			if !ok {
				g.fail(el, "struct literal without field names")
			}
			f := typeStr(kv.Key)
			ft := g.p.valueField(t, f)
			if ft == "" {
				g.fail(el, "field %s of %s is not translated", f, t)
			}
			c, ct := g.expr(kv.Value, ft)
			g.unify(el, ct, ft)
			fs = append(fs, f+" := "+strip(c))
		}
		return "{ " + strings.Join(fs, ", ") + " }", t // the expected type is always known where this lands
	}
	g.fail(e, "composite literal of type %s", t)
	return "", ""
}

// libFn: a known library function as a pure Lean function.  lit[i] = "nonempty": argument i must be
// a non-empty string constant; "ascii": a constant of ASCII bytes (the Lean definition is Go's
// semantics only then).
type libFn struct {
	lean string
	args []string
	res  string
	lit  map[int]string
	swap bool // Lean takes the arguments in the opposite order
}

var lib = map[string]libFn{
	"strings.Index":     {lean: "Rt.index", args: []string{"string", "string"}, res: "int"},
	"strings.LastIndex": {lean: "Rt.lastIndex", args: []string{"string", "string"}, res: "int"},
	"strings.Split":     {lean: "Rt.split", args: []string{"string", "string"}, res: "[]string", lit: map[int]string{1: "nonempty"}},
	"strings.SplitN":    {lean: "Rt.splitN", args: []string{"string", "string", "int"}, res: "[]string", lit: map[int]string{1: "nonempty"}},
	"strings.Fields":    {lean: "fields", args: []string{"string"}, res: "[]string"},
	"strings.TrimSpace": {lean: "trimSpace", args: []string{"string"}, res: "string"},
	"strings.Trim":      {lean: "Rt.trim", args: []string{"string", "string"}, res: "string", lit: map[int]string{1: "ascii"}},
	"strings.HasPrefix": {lean: "hasPrefix", args: []string{"string", "string"}, res: "bool"},
	"strings.HasSuffix": {lean: "hasSuffix", args: []string{"string", "string"}, res: "bool"},
	"strings.ToUpper":   {lean: "toUpper ext", args: []string{"string"}, res: "string"},
	"strings.ToLower":   {lean: "toLower ext", args: []string{"string"}, res: "string"},
	"strings.Join":      {lean: "join", args: []string{"[]string", "string"}, res: "string", swap: true},
}

// constString: the value of a string literal or string constant
func (g *gen) constString(e ast.Expr) (string, bool) {
	switch e := e.(type) {
	case *ast.BasicLit:
		if e.Kind == token.STRING {
			s, err := strconv.Unquote(e.Value)
			return s, err == nil
		}
	case *ast.Ident:
		if _, shadowed := g.lookup(e.Name); !shadowed {
			if lit, ok := g.p.consts[e.Name].(*ast.BasicLit); ok && lit.Kind == token.STRING {
				s, err := strconv.Unquote(lit.Value)
				return s, err == nil
			}
		}
	}
	return "", false
}

func (g *gen) args(call *ast.CallExpr, types []string) (codes []string) {
	if len(call.Args) != len(types) || call.Ellipsis.IsValid() {
		g.fail(call, "call with %d arguments", len(call.Args))
	}
	for i, a := range call.Args {
		c, t := g.expr(a, types[i])
		g.unify(a, t, types[i])
		codes = append(codes, c)
	}
	return
}

func (g *gen) call(e *ast.CallExpr) (string, string, bool) {
	switch f := e.Fun.(type) {
	case *ast.Ident:
		if _, shadowed := g.lookup(f.Name); shadowed {
			break
		}
		switch f.Name {
		case "len":
			if len(e.Args) == 1 {
				x, xt := g.expr(e.Args[0], "")
				if xt == "string" || strings.HasPrefix(xt, "[]") {
					return "(Rt.len " + x + ")", "int", false
				}
				if xt == "map[string]bool" {
					return "(Rt.bmapLen " + x + ")", "int", false
				}
			}
		case "string": // string(b) of a byte is the UTF-8 encoding of the code point b (two bytes from 0x80 on)
			if len(e.Args) == 1 {
				if x, xt := g.expr(e.Args[0], "byte"); xt == "byte" {
					return "(Rt.byteString " + x + ")", "string", false
				}
			}
		case "append": // value semantics of append is justified by alias.go
			if len(e.Args) >= 1 {
				x, xt := g.expr(e.Args[0], "")
				if !strings.HasPrefix(xt, "[]") {
					break
				}
				if e.Ellipsis.IsValid() && len(e.Args) == 2 {
					y, yt := g.expr(e.Args[1], xt)
					g.unify(e, yt, xt)
					return "(" + opnd(x, 65) + " ++ " + opnd(y, 65) + ")", xt, false
				}
				var els []string
				for _, a := range e.Args[1:] {
					c, ct := g.expr(a, xt[2:])
					g.unify(a, ct, xt[2:])
					els = append(els, strip(c))
				}
				if !e.Ellipsis.IsValid() && len(els) > 0 {
					return "(" + opnd(x, 65) + " ++ [" + strings.Join(els, ", ") + "])", xt, false
				}
			}
		case "make":
			if len(e.Args) >= 1 {
				t := typeStr(e.Args[0])
				if (t == "map[string]string" || t == "map[string]bool") && len(e.Args) <= 2 {
					return "(some [])", t, false
				}
				if strings.HasPrefix(t, "[]") && g.p.leanType(t) != "" && (len(e.Args) == 2 || len(e.Args) == 3) {
					if lit, ok := e.Args[1].(*ast.BasicLit); ok && lit.Value == "0" { // length 0; a capacity is evaluated, then ignored
						if len(e.Args) == 3 { // a negative capacity would panic: only len(…) is accepted
							if c, ok := e.Args[2].(*ast.CallExpr); !ok || typeStr(c.Fun) != "len" {
								break
							}
							g.expr(e.Args[2], "int")
						}
						return "[]", t, false
					}
				}
			}
		default:
			if s := g.p.sigs[f.Name]; s != nil && g.p.funcs[f.Name].Recv == nil {
				return g.callListed(e, s, nil)
			}
		}
	case *ast.SelectorExpr:
		x, isIdent := f.X.(*ast.Ident)
		local := false
		if isIdent {
			_, local = g.lookup(x.Name)
		}
		if isIdent && !local && g.p.imports[x.Name] {
			name := x.Name + "." + f.Sel.Name
			fn, ok := lib[name]
			if !ok {
				break
			}
			for i, kind := range fn.lit {
				s, isConst := g.constString(e.Args[i])
				if !isConst || kind == "nonempty" && s == "" || kind == "ascii" && strings.IndexFunc(s, func(r rune) bool { return r >= 128 }) >= 0 {
					g.fail(e, "%s: argument %d must be a constant (%s) string", name, i+1, kind)
				}
			}
			cs := g.args(e, fn.args)
			if fn.swap {
				cs[0], cs[1] = cs[1], cs[0]
			}
			return "(" + fn.lean + " " + strings.Join(cs, " ") + ")", fn.res, false
		}
		if isIdent && !local && f.Sel.Name == "Replace" {
			if _, _, ok := g.p.replacerPairs(x.Name); ok {
				g.uses[x.Name] = true
				cs := g.args(e, []string{"string"})
				return "(Rt.replace " + x.Name + " " + cs[0] + ")", "string", false
			}
		}
		if isIdent && local { // method of a listed struct type
			b, _ := g.lookup(x.Name)
			key := strings.TrimPrefix(b.typ, "*") + "." + f.Sel.Name
			if s := g.p.sigs[key]; s != nil && g.p.isStruct(b.typ) {
				if s.threaded {
					g.fail(e, "%s mutates its receiver: it can only be called as a statement, on the method's own receiver", key)
				}
				return g.callListed(e, s, f.X)
			}
		}
	}
	g.fail(e, "unknown call %s", typeStr(e.Fun))
	return "", "", false
}

// callListed: call of another translated function; always an action (every def returns M τ).
func (g *gen) callListed(e *ast.CallExpr, s *sig, recv ast.Expr) (string, string, bool) {
	actual := e.Args
	if recv != nil {
		actual = append([]ast.Expr{recv}, actual...)
	}
	n := len(s.params)
	pack := s.variadic && !e.Ellipsis.IsValid() // f(a, b, c) packs the extra arguments, f(a, xs...) passes xs itself
	if pack && len(actual) < n-1 || !pack && len(actual) != n || e.Ellipsis.IsValid() && !s.variadic {
		g.fail(e, "call of %s with %d arguments", s.lean, len(actual))
	}
	code := s.lean
	if s.ext {
		code += " ext"
	}
	var rest []string
	for i, a := range actual {
		want := s.params[min(i, n-1)].typ
		if pack && i >= n-1 {
			want = want[2:]
		}
		c, t := g.expr(a, want)
		g.unify(a, t, want)
		if pack && i >= n-1 {
			rest = append(rest, strip(c))
		} else {
			code += " " + c
		}
	}
	if pack {
		code += " [" + strings.Join(rest, ", ") + "]"
	}
	typ := "()"
	switch len(s.results) {
	case 1:
		typ = s.results[0].typ
	default:
		var ts []string
		for _, r := range s.results {
			ts = append(ts, r.typ)
		}
		typ = "(" + strings.Join(ts, ",") + ")"
	}
	if strings.HasPrefix(typ, "*") {
		g.fail(e, "call of %s: pointer results (Option) are not usable in expressions yet", s.lean)
	}
	return code, typ, true
}
