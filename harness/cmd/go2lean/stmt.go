package main

import (
	"fmt"
	"go/ast"
	"go/parser"
	"go/token"
	"regexp"
	"strings"
)

// translate renders one listed function as a Lean def, or says why it cannot.
func translate(p *pkg, cfg fnCfg) (lean string, uses []string, reason string) {
	defer func() {
		if r := recover(); r != nil {
			u, ok := r.(unsupported)
			if !ok {
				panic(r)
			}
			lean, uses, reason = "", nil, u.msg
		}
	}()
	g := &gen{p: p, cfg: cfg, fd: p.funcs[cfg.Name], sig: p.sigs[cfg.Name], uses: map[string]bool{}, dropped: map[string]bool{}, tmp: "t"}
	ast.Inspect(g.fd, func(n ast.Node) bool { // temporaries t1, t2, … must not collide with Go names
		if id, ok := n.(*ast.Ident); ok && regexp.MustCompile(`^t_*[0-9]+$`).MatchString(id.Name) && len(id.Name) > len(g.tmp) {
			g.tmp = "t" + strings.Repeat("_", len(id.Name))
		}
		return true
	})
	if g.sig.threaded {
		g.recv = g.sig.params[0].name // the state is threaded: mutated here, returned at every exit
	}
	g.al = analyse(g)
	g.push(true)
	head := "def " + g.sig.lean
	if g.sig.ext {
		head += " (ext : UnicodeExt)"
	}
	g.ind = 1
	var muts []string
	for i, q := range g.sig.params {
		if p.isStruct(q.typ) {
			g.uses[strings.TrimPrefix(q.typ, "*")] = true
		}
		name := g.declare(q.name, q.typ)
		head += fmt.Sprintf(" (%s : %s)", name, p.leanType(q.typ))
		// Lean parameters are immutable: re-bind the assigned ones, and the threaded receiver
		if assigned(g.fd.Body, q.name) || i == 0 && g.recv == q.name {
			muts = append(muts, "let mut "+name+" := "+name)
		}
	}
	for _, m := range muts {
		g.emit(m)
	}
	for _, r := range g.sig.results {
		if p.isStruct(r.typ) {
			g.uses[strings.TrimPrefix(r.typ, "*")] = true
		}
		if r.name != "" && r.name != "_" {
			if p.zero(r.typ) == "" {
				g.fail(g.fd, "named result of type %s", r.typ)
			}
			g.emit(fmt.Sprintf("let mut %s : %s := %s", g.declare(r.name, r.typ), p.leanType(r.typ), p.zero(r.typ)))
		}
	}
	g.block(g.fd.Body.List)
	if len(g.sig.results) == 0 {
		g.ret(&ast.ReturnStmt{Return: g.fd.Body.Rbrace})
	}
	if g.loop != len(cfg.Fuel) {
		g.fail(g.fd, "%d fuel expressions configured, %d `for cond` loops found", len(cfg.Fuel), g.loop)
	}
	head += " : Rt.M " + p.resultType(g.sig) + " := do"
	for u := range g.uses {
		uses = append(uses, u)
	}
	return head + "\n" + strings.Join(g.out, "\n") + "\n", uses, ""
}

// assigned: is the variable `name` the target of an assignment / ++ / -- somewhere in body?
func assigned(body ast.Node, name string) (yes bool) {
	is := func(e ast.Expr) bool { id, ok := e.(*ast.Ident); return ok && id.Name == name }
	ast.Inspect(body, func(n ast.Node) bool {
		switch s := n.(type) {
		case *ast.AssignStmt:
			for _, l := range s.Lhs {
				yes = yes || is(l)
			}
		case *ast.IncDecStmt:
			yes = yes || is(s.X)
		}
		return true
	})
	return
}

func (g *gen) block(stmts []ast.Stmt) {
	for _, s := range stmts {
		g.stmt(s)
	}
}

// body: a nested Go block as a nested Lean do-block (its own Go scope and Lean scope)
func (g *gen) body(stmts []ast.Stmt, first ...string) {
	g.push(true)
	g.ind++
	n := len(g.out)
	for _, l := range first {
		g.emit(l)
	}
	g.block(stmts)
	last := "" // the last line that is not a comment
	for _, l := range g.out[n:] {
		if t := strings.TrimSpace(l); !strings.HasPrefix(t, "--") {
			last = t
		}
	}
	if last == "" || strings.HasPrefix(last, "let ") {
		g.emit("pure ()") // a Lean do-block cannot be empty (or comments only) or end in a `let`
	}
	g.ind--
	g.pop()
}

func (g *gen) cond(e ast.Expr) string {
	c, t := g.expr(e, "bool")
	if t != "bool" {
		g.fail(e, "condition of type %s", t)
	}
	return c
}

func (g *gen) isDropped(e ast.Expr) bool { // logging.*(…) and runtime.*(…)
	if c, ok := e.(*ast.CallExpr); ok {
		if s, ok := c.Fun.(*ast.SelectorExpr); ok {
			if x, ok := s.X.(*ast.Ident); ok && (x.Name == "logging" || x.Name == "runtime") && g.p.imports[x.Name] {
				_, local := g.lookup(x.Name)
				return !local
			}
		}
	}
	return false
}

// mutexCall: x.f.Lock() / Unlock() / RLock() / RUnlock() on a field DECLARED sync.Mutex or sync.RWMutex.
// Dropped (sequential semantics: one goroutine, no re-entrant locking); deferred: unlocks only.
func (g *gen) mutexCall(e ast.Expr, deferred bool) bool {
	c, _ := e.(*ast.CallExpr)
	if c == nil || len(c.Args) != 0 {
		return false
	}
	m, _ := c.Fun.(*ast.SelectorExpr)
	if m == nil || !has([]string{"Unlock", "RUnlock"}, m.Sel.Name) && (deferred || !has([]string{"Lock", "RLock"}, m.Sel.Name)) {
		return false
	}
	if f, _ := m.X.(*ast.SelectorExpr); f != nil {
		if x, _ := f.X.(*ast.Ident); x != nil {
			b, _ := g.lookup(x.Name)
			ft := g.p.fieldType(b.typ, f.Sel.Name)
			return ft == "sync.Mutex" || ft == "sync.RWMutex"
		}
	}
	return false
}

// threadedCall: `recv.M(args)` as a statement, M a method that mutates its receiver:  recv ← T_M recv args
func (g *gen) threadedCall(c *ast.CallExpr) bool {
	m, _ := c.Fun.(*ast.SelectorExpr)
	if m == nil {
		return false
	}
	x, _ := m.X.(*ast.Ident)
	if x == nil {
		return false
	}
	b, local := g.lookup(x.Name)
	s := g.p.sigs[strings.TrimPrefix(b.typ, "*")+"."+m.Sel.Name]
	if !local || s == nil || !s.threaded {
		return false
	}
	if x.Name != g.recv || len(s.results) != 0 {
		g.fail(c, "%s mutates its receiver: supported only without results and on the calling method's own receiver", s.lean)
	}
	code, _, _ := g.callListed(c, s, m.X)
	g.emit(b.lean + " ← " + code)
	return true
}

// dropArgs: the arguments of a dropped logging.* / runtime.* call.  Go evaluates them before the
// call, so whatever in them can panic is still evaluated here, in order, for that effect only.  An
// argument that mentions a variable of a dropped `x := runtime.…` assignment is dropped whole: it is
// a method call on an opaque runtime value (fn.Name()), which does not panic.
func (g *gen) dropArgs(call *ast.CallExpr) {
	for _, a := range call.Args {
		opaque := false
		ast.Inspect(a, func(n ast.Node) bool {
			if id, ok := n.(*ast.Ident); ok && g.dropped[id.Name] {
				_, declared := g.lookup(id.Name)
				opaque = opaque || !declared
			}
			return true
		})
		if opaque {
			continue
		}
		g.takeLits()
		if code, _, act := g.expr0(a, ""); act {
			g.emit("let _ ← " + code)
		}
		g.takeLits()
	}
}

func (g *gen) stmt(s ast.Stmt) {
	switch s := s.(type) {
	case *ast.ExprStmt:
		if g.isDropped(s.X) {
			g.dropArgs(s.X.(*ast.CallExpr))
			g.emit("-- dropped: " + litComment(typeStr(s.X)))
			return
		}
		if g.mutexCall(s.X, false) {
			g.emit("-- dropped: " + typeStr(s.X))
			return
		}
		if c, ok := s.X.(*ast.CallExpr); ok {
			if g.threadedCall(c) {
				return
			}
			if code, _, act := g.call(c); act {
				g.emit("let _ ← " + code)
				return
			}
		}
		g.fail(s, "expression statement %s", typeStr(s.X))
	case *ast.DeferStmt: // only `defer x.mu.Unlock()`: with the Lock dropped, running it at exit does nothing
		if !g.mutexCall(s.Call, true) {
			g.fail(s, "defer %s", typeStr(s.Call))
		}
		g.emit("-- dropped: " + typeStr(s))
	case *ast.SendStmt:
		// recv.f <- v on a configured queue field of the threaded receiver: append at the tail.
		// (Go evaluates the channel operand, then the value, then communicates; blocking is not modelled.)
		if sel, _ := s.Chan.(*ast.SelectorExpr); sel != nil {
			x, _ := sel.X.(*ast.Ident)
			if b, _ := g.lookup(g.recv); x != nil && x.Name == g.recv && g.p.fieldType(b.typ, sel.Sel.Name) == "chan string" {
				v, vt := g.expr(s.Value, "string")
				g.unify(s, vt, "string")
				g.emit(fmt.Sprintf("%s := { %s with %s := %s.%s ++ [%s] }", b.lean, b.lean, sel.Sel.Name, b.lean, sel.Sel.Name, strip(v)))
				return
			}
		}
		g.fail(s, "send on %s: only sends on a configured queue field of the receiver are supported", typeStr(s.Chan))
	case *ast.AssignStmt:
		g.assign(s)
	case *ast.IncDecStmt:
		op := map[token.Token]token.Token{token.INC: token.ADD_ASSIGN, token.DEC: token.SUB_ASSIGN}[s.Tok]
		g.assign(&ast.AssignStmt{Lhs: []ast.Expr{s.X}, TokPos: s.TokPos, Tok: op, Rhs: []ast.Expr{&ast.BasicLit{ValuePos: s.TokPos, Kind: token.INT, Value: "1"}}})
	case *ast.DeclStmt:
		gd := s.Decl.(*ast.GenDecl)
		if gd.Tok != token.VAR {
			g.fail(s, "local %s declaration", gd.Tok)
		}
		for _, sp := range gd.Specs {
			vs := sp.(*ast.ValueSpec)
			if len(vs.Values) > 0 { // var x = e  is  x := e
				var lhs []ast.Expr
				for _, n := range vs.Names {
					lhs = append(lhs, n)
				}
				if vs.Type != nil {
					g.fail(s, "var with both a type and a value")
				}
				g.assign(&ast.AssignStmt{Lhs: lhs, TokPos: vs.Pos(), Tok: token.DEFINE, Rhs: vs.Values})
				continue
			}
			t := typeStr(vs.Type)
			if g.p.zero(t) == "" {
				g.fail(s, "var of type %s", t)
			}
			for _, n := range vs.Names {
				g.emit(fmt.Sprintf("let mut %s : %s := %s", g.declare(n.Name, t), g.p.leanType(t), g.p.zero(t)))
			}
		}
	case *ast.ReturnStmt:
		g.ret(s)
	case *ast.IfStmt:
		g.push(false) // scope of the init statement
		if s.Init != nil {
			g.stmt(s.Init)
		}
		g.emit("if " + strip(g.cond(s.Cond)) + " then")
		g.body(s.Body.List)
		g.elseBranch(s.Else)
		g.pop()
	case *ast.SwitchStmt:
		g.switchStmt(s)
	case *ast.RangeStmt:
		g.rangeStmt(s)
	case *ast.ForStmt:
		g.forStmt(s)
	case *ast.BranchStmt:
		// break / continue mean the same in Lean only when the innermost breakable statement is a
		// loop whose rendering keeps them exact (see forStmt).
		if s.Label != nil || s.Tok != token.BREAK && s.Tok != token.CONTINUE {
			g.fail(s, "%s", s.Tok)
		}
		for i := len(g.ctx) - 1; ; i-- {
			switch {
			case i < 0:
				g.fail(s, "%s outside a loop", s.Tok)
			case g.ctx[i] == "switch" && s.Tok == token.BREAK:
				g.fail(s, "break inside switch")
			case g.ctx[i] == "switch":
				continue
			case g.ctx[i] != "range" && s.Tok == token.BREAK:
				g.fail(s, "break inside a fuel loop (the fuel check after the loop would misfire)")
			case g.ctx[i] == "fuel+post" && s.Tok == token.CONTINUE:
				g.fail(s, "continue inside a loop with a post statement")
			}
			break
		}
		g.emit(s.Tok.String())
	case *ast.EmptyStmt:
	default:
		g.fail(s, "statement %T", s)
	}
}

// elseBranch: `else if` stays on one line when the nested if needs no lines in front of it.
func (g *gen) elseBranch(els ast.Stmt) {
	switch e := els.(type) {
	case nil:
	case *ast.BlockStmt:
		g.emit("else")
		g.body(e.List)
	case *ast.IfStmt:
		g.push(true)
		lines := g.capture(1, func() { g.stmt(e) })
		g.pop()
		if strings.HasPrefix(strings.TrimSpace(lines[0]), "if ") {
			g.out = append(g.out, strings.Repeat("  ", g.ind)+"else "+strings.TrimSpace(lines[0]))
			for _, l := range lines[1:] {
				g.out = append(g.out, l[2:]) // one level less deep
			}
		} else {
			g.emit("else")
			g.out = append(g.out, lines...)
		}
	default:
		g.fail(els, "else %T", els)
	}
}

// switchStmt: tagged or tagless switch as an if / else-if chain in source order, default last.
// The tag is evaluated once; case values are compared left to right with `||` (so they short-circuit
// like Go's case matching).
func (g *gen) switchStmt(s *ast.SwitchStmt) {
	g.push(false)
	defer g.pop()
	if s.Init != nil {
		g.stmt(s.Init)
	}
	var tag ast.Expr
	if s.Tag != nil {
		code, typ := g.expr(s.Tag, "")
		g.scopes[len(g.scopes)-1].vars["switch tag"] = binding{code, typ} // not a Go identifier: cannot clash
		tag = &ast.Ident{NamePos: s.Tag.Pos(), Name: "switch tag"}
	}
	var chain ast.Stmt
	var last *ast.IfStmt
	var deflt *ast.BlockStmt
	for _, c := range s.Body.List {
		cc := c.(*ast.CaseClause)
		ast.Inspect(cc, func(n ast.Node) bool {
			if b, ok := n.(*ast.BranchStmt); ok && b.Tok == token.FALLTHROUGH {
				g.fail(b, "fallthrough")
			}
			return true
		})
		blk := &ast.BlockStmt{Lbrace: cc.Colon, List: cc.Body}
		if cc.List == nil {
			deflt = blk
			continue
		}
		var cond ast.Expr
		for _, v := range cc.List {
			var test ast.Expr = v
			if tag != nil {
				test = &ast.BinaryExpr{X: tag, OpPos: v.Pos(), Op: token.EQL, Y: v}
			}
			if cond == nil {
				cond = test
			} else {
				cond = &ast.BinaryExpr{X: cond, OpPos: v.Pos(), Op: token.LOR, Y: test}
			}
		}
		ifs := &ast.IfStmt{If: cc.Pos(), Cond: cond, Body: blk}
		if last == nil {
			chain = ifs
		} else {
			last.Else = ifs
		}
		last = ifs
	}
	g.ctx = append(g.ctx, "switch")
	switch {
	case last == nil && deflt != nil:
		g.block(deflt.List)
	case last != nil:
		if deflt != nil {
			last.Else = deflt
		}
		g.stmt(chain)
	}
	g.ctx = g.ctx[:len(g.ctx)-1]
}

func (g *gen) rangeStmt(s *ast.RangeStmt) {
	x, xt := g.expr(s.X, "")
	if !strings.HasPrefix(xt, "[]") { // strings range over runes, maps in random order
		g.fail(s, "range over %s", xt)
	}
	if s.Tok != token.DEFINE && (s.Key != nil || s.Value != nil) {
		g.fail(s, "range with = instead of :=")
	}
	g.push(true)
	name := func(e ast.Expr, typ string) (string, []string) {
		id, ok := e.(*ast.Ident)
		if e == nil || ok && id.Name == "_" {
			return "_", nil
		}
		if !ok {
			g.fail(s, "range variable %s", typeStr(e))
		}
		n := g.declare(id.Name, typ)
		if assigned(s.Body, id.Name) {
			return n, []string{"let mut " + n + " := " + n}
		}
		return n, nil
	}
	k, m1 := name(s.Key, "int")
	v, m2 := name(s.Value, xt[2:])
	if k == "_" {
		g.emit("for " + v + " in " + strip(x) + " do")
	} else {
		g.emit("for (" + k + ", " + v + ") in Rt.enum " + x + " do")
	}
	g.ctx = append(g.ctx, "range")
	g.al.rangeExprs = append(g.al.rangeExprs, s.X)
	g.body(s.Body.List, append(m1, m2...)...)
	g.al.rangeExprs = g.al.rangeExprs[:len(g.al.rangeExprs)-1]
	g.ctx = g.ctx[:len(g.ctx)-1]
	g.pop()
}

// forStmt: `for cond {}` and `for init; cond; post {}` as a fuel loop:
//
//	init
//	for _ in List.range (Int.toNat fuel) do   -- fuel from the config, evaluated once, here
//	  (lines for cond); if !(cond) then break
//	  body; post
//	(lines for cond); if cond then throw .fuel -- ran out of fuel with the condition still true
//
// Exact as long as .fuel is not reached.  `break` in the body is refused (the check after the loop
// would misfire), `continue` is refused when there is a post statement (it would skip it).
func (g *gen) forStmt(s *ast.ForStmt) {
	if s.Cond == nil {
		g.fail(s, "for without a condition")
	}
	if g.loop >= len(g.cfg.Fuel) {
		g.fail(s, "no fuel expression configured for this loop")
	}
	fuelSrc := g.cfg.Fuel[g.loop]
	g.loop++
	g.push(false)
	defer g.pop()
	if s.Init != nil {
		g.stmt(s.Init)
	}
	fe, err := parser.ParseExpr(fuelSrc)
	if err != nil {
		g.fail(s, "fuel expression %q: %v", fuelSrc, err)
	}
	var fuel, ft string
	if lines := g.capture(0, func() { fuel, ft = g.expr(fe, "int") }); len(lines) > 0 || ft != "int" && ft != "untyped int" {
		g.fail(s, "fuel expression %q must be a panic-free int expression", fuelSrc)
	}
	g.takeLits()
	g.emit("for _ in List.range (Int.toNat " + fuel + ") do")
	kind := "fuel"
	if s.Post != nil {
		kind = "fuel+post"
	}
	g.ctx = append(g.ctx, kind)
	g.push(true)
	g.ind++
	g.emit("if !" + g.cond(s.Cond) + " then break")
	g.block(s.Body.List)
	if s.Post != nil {
		g.stmt(s.Post)
	}
	g.ind--
	g.pop()
	g.ctx = g.ctx[:len(g.ctx)-1]
	g.emit("if " + strip(g.cond(s.Cond)) + " then throw Rt.Panic.fuel")
}

func (g *gen) ret(s *ast.ReturnStmt) {
	rs := g.sig.results
	var vals []string
	switch {
	case len(s.Results) == 0:
		for _, r := range rs {
			b, ok := g.lookup(r.name)
			if !ok {
				g.fail(s, "bare return without named results")
			}
			vals = append(vals, b.lean)
		}
	case len(s.Results) == len(rs):
		for i, e := range s.Results {
			if id, ok := e.(*ast.Ident); ok && id.Name == "nil" && strings.HasPrefix(rs[i].typ, "*") {
				vals = append(vals, "none")
				continue
			}
			c, t := g.expr(e, rs[i].typ)
			g.unify(e, t, rs[i].typ)
			if strings.HasPrefix(rs[i].typ, "*") {
				c = "(some " + c + ")"
			}
			vals = append(vals, c)
		}
	default:
		g.fail(s, "return of %d values for %d results", len(s.Results), len(rs))
	}
	if g.recv != "" { // the current value of the threaded receiver comes first
		b, _ := g.lookup(g.recv)
		vals = append([]string{b.lean}, vals...)
	}
	switch len(vals) {
	case 0:
		g.emit("return ()")
	case 1:
		g.emit("return " + strip(vals[0]))
	default:
		for i := range vals {
			vals[i] = strip(vals[i])
		}
		g.emit("return (" + strings.Join(vals, ", ") + ")")
	}
}

// lval: an assignment target, with its index operand already evaluated (Go evaluates the index
// operands of the left-hand side before the right-hand sides, and stores afterwards).
type lval struct {
	kind  string // blank, new, var, field, elem
	name  string // Go name (new) or Lean name of the root variable
	typ   string // type of the target
	field string // field / elem-of-field: the field
	index string // elem: index or key
	ctyp  string // elem: type of the container
}

var atomRE = regexp.MustCompile(`^([0-9]+|\[\]|true|false|none)$`) // terms no store can change

func (g *gen) lhs(s *ast.AssignStmt, e ast.Expr) lval {
	switch e := e.(type) {
	case *ast.Ident:
		if e.Name == "_" {
			return lval{kind: "blank"}
		}
		if _, here := g.scopes[len(g.scopes)-1].vars[e.Name]; s.Tok == token.DEFINE && !here {
			return lval{kind: "new", name: e.Name}
		}
		if b, ok := g.lookup(e.Name); ok {
			return lval{kind: "var", name: b.lean, typ: b.typ}
		}
	case *ast.SelectorExpr:
		if x, ok := e.X.(*ast.Ident); ok {
			if b, ok := g.lookup(x.Name); ok && g.p.valueField(b.typ, e.Sel.Name) != "" {
				g.al.checkFieldStore(g, s, x.Name)
				return lval{kind: "field", name: b.lean, field: e.Sel.Name, typ: g.p.valueField(b.typ, e.Sel.Name)}
			}
		}
	case *ast.IndexExpr:
		base := g.lhs(s, e.X)
		if base.kind != "var" && base.kind != "field" {
			break
		}
		g.al.checkElemStore(g, s, e)
		lv := lval{kind: "elem", name: base.name, field: base.field, ctyp: base.typ}
		var it string
		switch {
		case base.typ == "map[string]string" || base.typ == "map[string]bool":
			lv.index, it = g.expr(e.Index, "string")
			lv.typ = base.typ[len("map[string]"):]
			g.unify(e, it, "string")
		case strings.HasPrefix(base.typ, "[]"):
			lv.index, it = g.expr(e.Index, "int")
			lv.typ = base.typ[2:]
			g.unify(e, it, "int")
		default:
			g.fail(e, "store into %s", base.typ)
		}
		return lv
	}
	g.fail(e, "assignment to %s", typeStr(e))
	return lval{}
}

// store assigns a value (a pure term, or an action when act) to an evaluated target.
func (g *gen) store(n ast.Node, lv lval, code, typ string, act bool) {
	if lv.kind != "blank" && lv.kind != "new" {
		g.unify(n, lv.typ, typ)
	}
	bind := func() { // the value as a pure term
		if act {
			t := g.newTmp()
			g.emit("let " + t + " ← " + code)
			code, act = t, false
		}
	}
	switch lv.kind {
	case "blank":
		if act {
			g.emit("let _ ← " + code)
		}
	case "new":
		if typ == "untyped int" {
			typ = "int"
		}
		lt := g.p.leanType(typ)
		if lt == "" || strings.HasPrefix(typ, "(") {
			g.fail(n, "variable of type %s", typ)
		}
		arrow := map[bool]string{false: " := ", true: " ← "}[act]
		g.emit("let mut " + g.declare(lv.name, typ) + " : " + lt + arrow + strip(code))
	case "var":
		g.emit(lv.name + map[bool]string{false: " := ", true: " ← "}[act] + strip(code))
	case "field":
		bind()
		g.emit(fmt.Sprintf("%s := { %s with %s := %s }", lv.name, lv.name, lv.field, strip(code)))
	case "elem":
		bind()
		op := "Rt.setIdx "
		if lv.ctyp == "map[string]string" {
			op = "Rt.mapSet "
		} else if lv.ctyp == "map[string]bool" {
			op = "Rt.bmapSet "
		}
		if lv.field == "" {
			g.emit(lv.name + " ← " + op + lv.name + " " + lv.index + " " + code)
		} else {
			t := g.newTmp()
			g.emit(fmt.Sprintf("let %s ← %s%s.%s %s %s", t, op, lv.name, lv.field, lv.index, code))
			g.emit(fmt.Sprintf("%s := { %s with %s := %s }", lv.name, lv.name, lv.field, t))
		}
	}
}

func (g *gen) assign(s *ast.AssignStmt) {
	if g.isDroppedRhs(s) {
		return
	}
	// x op= e  is  x = x op e  (x is a variable or field here: evaluating it twice is harmless)
	if op, ok := map[token.Token]token.Token{token.ADD_ASSIGN: token.ADD, token.SUB_ASSIGN: token.SUB, token.MUL_ASSIGN: token.MUL}[s.Tok]; ok {
		if _, isIdx := s.Lhs[0].(*ast.IndexExpr); isIdx || len(s.Lhs) != 1 {
			g.fail(s, "%s on an element", s.Tok)
		}
		s = &ast.AssignStmt{Lhs: s.Lhs, TokPos: s.TokPos, Tok: token.ASSIGN, Rhs: []ast.Expr{&ast.BinaryExpr{X: s.Lhs[0], OpPos: s.TokPos, Op: op, Y: s.Rhs[0]}}}
	} else if s.Tok != token.ASSIGN && s.Tok != token.DEFINE {
		g.fail(s, "assignment operator %s", s.Tok)
	}
	// a, b, c := f(x): a listed function with several results, into new variables only
	if len(s.Rhs) == 1 && len(s.Lhs) > 1 {
		code, typ, act := g.expr0(s.Rhs[0], "")
		ts := strings.Split(strings.Trim(typ, "()"), ",")
		if !act || !strings.HasPrefix(typ, "(") || len(ts) != len(s.Lhs) {
			g.fail(s, "assignment of %s to %d targets", typ, len(s.Lhs))
		}
		var names []string
		for i, l := range s.Lhs {
			switch lv := g.lhs(s, l); lv.kind {
			case "blank":
				names = append(names, "_")
			case "new":
				names = append(names, g.declare(lv.name, ts[i]))
			default:
				g.fail(s, "multi-value call assigned to existing variable %s", typeStr(l))
			}
		}
		g.emit("let mut (" + strings.Join(names, ", ") + ") ← " + code)
		return
	}
	if len(s.Lhs) != len(s.Rhs) {
		g.fail(s, "assignment of %d values to %d targets", len(s.Rhs), len(s.Lhs))
	}
	// phase 1: index operands on the left, then the right-hand sides, all in source order
	lvs := make([]lval, len(s.Lhs))
	for i, l := range s.Lhs {
		lvs[i] = g.lhs(s, l)
	}
	if len(s.Lhs) == 1 {
		code, typ, act := g.expr0(s.Rhs[0], lvs[0].typ)
		g.store(s, lvs[0], code, typ, act)
		return
	}
	fresh := true // all targets are new variables: no store can change a right-hand side
	for _, lv := range lvs {
		fresh = fresh && (lv.kind == "new" || lv.kind == "blank")
	}
	codes, types, lits := make([]string, len(s.Rhs)), make([]string, len(s.Rhs)), make([][]string, len(s.Rhs))
	for i, r := range s.Rhs {
		code, typ, act := g.expr0(r, lvs[i].typ)
		if act || !fresh && !atomRE.MatchString(code) { // snapshot: later stores must not change this value
			t := g.newTmp()
			g.emit("let " + t + map[bool]string{false: " := ", true: " ← "}[act] + strip(code))
			code = t
		}
		codes[i], types[i], lits[i] = code, typ, g.takeLits()
	}
	// phase 2: the stores, left to right
	for i := range lvs {
		g.lits = lits[i]
		g.store(s, lvs[i], codes[i], types[i], false)
	}
}

// isDroppedRhs: `pc, _, _, _ := runtime.Caller(1)` and the like are dropped with a comment; the
// variables stay undeclared, so any later use of them makes the function unsupported.
func (g *gen) isDroppedRhs(s *ast.AssignStmt) bool {
	if len(s.Rhs) != 1 || !g.isDropped(s.Rhs[0]) {
		return false
	}
	g.dropArgs(s.Rhs[0].(*ast.CallExpr))
	for _, l := range s.Lhs { // the variables stay undeclared; dropArgs lets them appear in other dropped calls
		if id, ok := l.(*ast.Ident); ok && id.Name != "_" {
			g.dropped[id.Name] = true
		}
	}
	g.emit("-- dropped: " + litComment(typeStr(s)))
	return true
}
