package main

import (
	"go/ast"
	"go/token"
	"sort"
	"strings"
)

// Ownership checks.  The Lean rendering gives slices, maps and pointers VALUE semantics.  That is
// what Go computes only while no two live names share what is being mutated.  Mutations are:
//
//	(1) an element / map store  x[i] = v      (must also be whitelisted in the config),
//	(2) append(x, …) with a non-fresh x       (writes into x's spare capacity),
//	(3) a field store  p.f = v  through a pointer.
//
// The analysis is syntactic and flow-insensitive, and errs on the side of refusing:
//   - every assignment `a = b`, `a = b[i:]`, `a = f(b)` (f translated), `a = append(b, …)`,
//     `a := &T{F: b}` links the paths a (or a.F) and b ("x" or "x.f"): they may share memory;
//   - (1) and (2) are accepted only if no path linked to x is rooted in a parameter (the caller's
//     memory), every OTHER path linked to x is dead after the statement (no textual occurrence after
//     it, nor anywhere in an enclosing loop), and no enclosing `range` iterates over a linked path;
//   - (2) must have the form `x = append(x, …)` or `return append(x, …)`;
//   - (3) only through a local `p := &T{…}` that is never copied: every other occurrence of p is
//     `p.f`, `p.m()` or `return p`.  Parameters (receivers) are read-only.
type aliases struct {
	parent     map[string]string
	params     map[string]bool
	owned      map[string]bool            // local pointers that are never copied
	loopOf     map[ast.Node]ast.Node      // statement / append call -> outermost enclosing loop
	appendOK   map[*ast.CallExpr]ast.Node // append with a non-fresh first argument -> its statement
	appends    []*ast.CallExpr            // the same, in source order
	rangeExprs []ast.Expr                 // range expressions of the loops being translated (stmt.go)
	body       *ast.BlockStmt
}

// path of an lvalue-like expression: "x" or "x.f", looking through parentheses and slicing; "" otherwise
func path(e ast.Expr) string {
	switch e := e.(type) {
	case *ast.ParenExpr:
		return path(e.X)
	case *ast.SliceExpr:
		return path(e.X)
	case *ast.Ident:
		return e.Name
	case *ast.SelectorExpr:
		if x, ok := e.X.(*ast.Ident); ok {
			return x.Name + "." + e.Sel.Name
		}
	}
	return ""
}

func root(p string) string { return strings.SplitN(p, ".", 2)[0] }

func (a *aliases) find(p string) string {
	for a.parent[p] != "" && a.parent[p] != p {
		p = a.parent[p]
	}
	return p
}
func (a *aliases) union(p, q string) {
	if p == "" || q == "" || p == "_" {
		return
	}
	for _, x := range []string{p, q} {
		if a.parent[x] == "" {
			a.parent[x] = x
		}
	}
	a.parent[a.find(p)] = a.find(q)
}

// base looks through parentheses and slicing: e, (e), e[i:j] all denote (part of) the same memory
func base(e ast.Expr) ast.Expr {
	for {
		switch x := e.(type) {
		case *ast.ParenExpr:
			e = x.X
		case *ast.SliceExpr:
			e = x.X
		default:
			return e
		}
	}
}

// freshCall: a call whose result shares memory with nothing: a known library function or make
func freshCall(e ast.Expr) bool {
	c, ok := e.(*ast.CallExpr)
	if !ok {
		return false
	}
	_, isLib := lib[typeStr(c.Fun)]
	return isLib || typeStr(c.Fun) == "make"
}

// link records what the assignment lhs = rhs may make share memory.
func (a *aliases) link(g *gen, lhs string, rhs ast.Expr) {
	switch r := base(rhs).(type) {
	case *ast.UnaryExpr:
		a.link(g, lhs, r.X)
	case *ast.CompositeLit:
		for _, el := range r.Elts {
			if kv, ok := el.(*ast.KeyValueExpr); ok {
				a.link(g, lhs+"."+typeStr(kv.Key), kv.Value)
			}
		}
	case *ast.CallExpr:
		if freshCall(r) {
			return
		}
		if sel, ok := r.Fun.(*ast.SelectorExpr); ok { // a method: the result may share with the receiver
			a.union(lhs, path(sel.X))
		}
		for i, arg := range r.Args { // append shares with its first argument, other calls with any
			if i == 0 || typeStr(r.Fun) != "append" {
				a.union(lhs, path(arg))
			}
		}
	default:
		a.union(lhs, path(r))
	}
}

func analyse(g *gen) *aliases {
	a := &aliases{parent: map[string]string{}, params: map[string]bool{}, owned: map[string]bool{},
		loopOf: map[ast.Node]ast.Node{}, appendOK: map[*ast.CallExpr]ast.Node{}, body: g.fd.Body}
	for _, q := range g.sig.params {
		a.params[q.name] = true
	}
	var stack []ast.Node
	notOwned := map[string]bool{}
	ast.Inspect(g.fd.Body, func(n ast.Node) bool {
		if n == nil {
			stack = stack[:len(stack)-1]
			return true
		}
		var up ast.Node
		if len(stack) > 0 {
			up = stack[len(stack)-1]
		}
		for _, s := range stack { // outermost enclosing loop
			if _, ok := s.(*ast.ForStmt); ok && a.loopOf[n] == nil {
				a.loopOf[n] = s
			}
			if _, ok := s.(*ast.RangeStmt); ok && a.loopOf[n] == nil {
				a.loopOf[n] = s
			}
		}
		stack = append(stack, n)
		switch n := n.(type) {
		case *ast.AssignStmt:
			for i, l := range n.Lhs {
				if len(n.Lhs) == len(n.Rhs) {
					a.link(g, path(l), n.Rhs[i])
					u, isAddr := n.Rhs[i].(*ast.UnaryExpr)
					if id, ok := l.(*ast.Ident); ok && n.Tok == token.DEFINE && isAddr && u.Op == token.AND && !notOwned[id.Name] {
						a.owned[id.Name] = true
					} else if ok {
						notOwned[id.Name] = true
					}
				} else {
					a.link(g, path(l), n.Rhs[0])
				}
			}
		case *ast.ValueSpec:
			for i, l := range n.Names {
				if i < len(n.Values) {
					a.link(g, l.Name, n.Values[i])
				}
				notOwned[l.Name] = true
			}
		case *ast.Ident: // any use of a pointer variable other than p.f / p.m() / return p / its := copies it
			switch u := up.(type) {
			case *ast.SelectorExpr:
				if u.X == n || u.Sel == n {
					return true
				}
			case *ast.ReturnStmt:
				return true
			case *ast.AssignStmt:
				for _, l := range u.Lhs {
					if l == n {
						return true
					}
				}
			}
			notOwned[n.Name] = true
		case *ast.CallExpr:
			if typeStr(n.Fun) != "append" || len(n.Args) == 0 {
				break
			}
			if _, lit := base(n.Args[0]).(*ast.CompositeLit); !lit && !freshCall(base(n.Args[0])) {
				if path(n.Args[0]) == "" {
					g.fail(n, "append to %s: not a variable, a field or a fresh value", typeStr(n.Args[0]))
				}
				switch u := up.(type) {
				case *ast.AssignStmt:
					if len(u.Lhs) == 1 && path(u.Lhs[0]) == path(n.Args[0]) && u.Tok == token.ASSIGN {
						a.appendOK[n] = u
					}
				case *ast.ReturnStmt:
					a.appendOK[n] = u
				}
				a.appends = append(a.appends, n)
				if a.appendOK[n] == nil {
					g.fail(n, "append to %s, which stays live under another name: only x = append(x, …) and return append(x, …) keep value semantics", path(n.Args[0]))
				}
			}
		}
		return true
	})
	for name := range notOwned {
		delete(a.owned, name)
	}
	for _, call := range a.appends {
		a.checkMutation(g, a.appendOK[call], path(call.Args[0]), "append")
	}
	return a
}

// uses calls f for every node below n that uses path m ("x" or "x.f"): the selector x.f itself, or a
// bare x (a bare x uses every x.f; x.g does not use x.f; field names are not variables).
func uses(n ast.Node, m string, f func(ast.Node)) {
	ast.Inspect(n, func(k ast.Node) bool {
		switch e := k.(type) {
		case *ast.SelectorExpr:
			if x, ok := e.X.(*ast.Ident); ok {
				if x.Name == root(m) && (m == root(m) || m == x.Name+"."+e.Sel.Name) {
					f(e)
				}
				return false
			}
			uses(e.X, m, f)
			return false
		case *ast.Ident:
			if e.Name == root(m) {
				f(e)
			}
		}
		return true
	})
}

// occurs: is path m used after position `after`, or (when loop != nil) anywhere in loop?
func (a *aliases) occurs(m string, after token.Pos, loop ast.Node) (found bool) {
	uses(a.body, m, func(n ast.Node) {
		if n.Pos() > after || loop != nil && n.Pos() >= loop.Pos() && n.End() <= loop.End() {
			found = true
		}
	})
	return
}

// checkMutation: may `st` mutate what path p refers to, under value semantics?
func (a *aliases) checkMutation(g *gen, st ast.Node, p, what string) {
	// (a threaded receiver is handed back to the caller, who passed it by value: see main.go)
	if a.params[root(p)] && root(p) != g.recv {
		g.fail(st, "%s on %s writes memory owned by the caller", what, p)
	}
	if a.parent[p] == "" {
		a.parent[p] = p
	}
	var members []string
	for m := range a.parent {
		members = append(members, m)
	}
	sort.Strings(members) // deterministic messages
	for _, m := range members {
		if a.find(m) != a.find(p) {
			continue
		}
		if a.params[root(m)] && root(m) != g.recv {
			g.fail(st, "%s on %s, which may share memory with parameter %s", what, p, m)
		}
		for _, r := range a.rangeExprs {
			uses(r, m, func(ast.Node) { g.fail(st, "%s on %s inside a range over %s", what, p, typeStr(r)) })
		}
		if m != p && a.occurs(m, st.End(), a.loopOf[st]) {
			g.fail(st, "%s on %s while %s, which may share its memory, is still used afterwards", what, p, m)
		}
	}
}

func (a *aliases) checkElemStore(g *gen, st *ast.AssignStmt, e *ast.IndexExpr) {
	site := typeStr(e)
	ok := false
	for _, w := range g.cfg.Stores {
		ok = ok || w == site
	}
	if !ok {
		g.fail(e, "store %s = … is not whitelisted for %s", site, g.cfg.Name)
	}
	if path(e.X) == "" {
		g.fail(e, "store into %s", site)
	}
	a.checkMutation(g, st, path(e.X), "store")
}

func (a *aliases) checkFieldStore(g *gen, st *ast.AssignStmt, name string) {
	if b, _ := g.lookup(name); strings.HasPrefix(b.typ, "*") && (!a.owned[name] || a.params[name]) && name != g.recv {
		g.fail(st, "store through pointer %s, which is a parameter or is copied somewhere", name)
	}
}
