// go2lean regenerates Lean 4 definitions (lean/Goirc/Gen/Pure.lean) from a listed set of pure,
// sequential functions of the goirc client package.  Shallow embedding into `Except Go.Rt.Panic`
// with Go's panics explicit; the runtime prelude is lean/Goirc/Go/Rt.lean.
//
// Files: main.go (config table, loading, output), expr.go, stmt.go, alias.go (ownership checks).
// Only go/ast, go/parser, go/token, go/printer are used: the few types needed are inferred from
// declarations, signatures, literals and the table of known library functions in expr.go.
package main

import (
	"bytes"
	"flag"
	"fmt"
	"go/ast"
	"go/parser"
	"go/printer"
	"go/token"
	"os"
	"path/filepath"
	"sort"
	"strings"
)

// fnCfg is one row of the translation list.  Adding a function = adding a row.
type fnCfg struct {
	Name   string   // "ParseLine", or "Line.Text" for a method on *Line
	File   string   // path below -repo; the function must be declared there
	Fuel   []string // one Go expression per `for cond {}` loop, in source order: the iteration bound
	Stores []string // whitelisted `x[i] = v` sites (source text of the left-hand side); see alias.go
	Thread bool     // return the receiver even though the method does not mutate it (uniform handler type)
}

var config = []fnCfg{
	{Name: "cutNewLines", File: "client/commands.go"},
	{Name: "indexFragment", File: "client/commands.go"},
	{Name: "splitMessage", File: "client/commands.go", Fuel: []string{"len(msg)+1"}},
	{Name: "splitArgs", File: "client/commands.go", Fuel: []string{"len(args)+1", "len(args)+1"}},
	{Name: "parseUserHost", File: "client/line.go"},
	{Name: "ParseLine", File: "client/line.go",
		Stores: []string{"line.Tags[tag]", "line.Tags[pair[0]]", "line.Args[1]"}},
	{Name: "Line.Text", File: "client/line.go"},
	{Name: "Line.Target", File: "client/line.go"},
	{Name: "Line.Public", File: "client/line.go"},
	{Name: "hasPort", File: "client/connection.go"},
	// v2: the command methods of *Conn (state threaded, conn.out is a queue: see structTable in types.go)
	{Name: "Conn.Raw", File: "client/commands.go"},
	{Name: "Conn.Pass", File: "client/commands.go"},
	{Name: "Conn.Nick", File: "client/commands.go"},
	{Name: "Conn.User", File: "client/commands.go"},
	{Name: "Conn.Join", File: "client/commands.go"},
	{Name: "Conn.Part", File: "client/commands.go"},
	{Name: "Conn.Kick", File: "client/commands.go"},
	{Name: "Conn.Quit", File: "client/commands.go"},
	{Name: "Conn.Whois", File: "client/commands.go"},
	{Name: "Conn.Who", File: "client/commands.go"},
	{Name: "Conn.Privmsg", File: "client/commands.go"},
	{Name: "Conn.Privmsgln", File: "client/commands.go"},
	{Name: "Conn.Privmsgf", File: "client/commands.go"},
	{Name: "Conn.Notice", File: "client/commands.go"},
	{Name: "Conn.Ctcp", File: "client/commands.go"},
	{Name: "Conn.CtcpReply", File: "client/commands.go"},
	{Name: "Conn.Version", File: "client/commands.go"},
	{Name: "Conn.Action", File: "client/commands.go"},
	{Name: "Conn.Topic", File: "client/commands.go"},
	{Name: "Conn.Mode", File: "client/commands.go"},
	{Name: "Conn.Away", File: "client/commands.go"},
	{Name: "Conn.Invite", File: "client/commands.go"},
	{Name: "Conn.Oper", File: "client/commands.go"},
	{Name: "Conn.VHost", File: "client/commands.go"},
	{Name: "Conn.Ping", File: "client/commands.go"},
	{Name: "Conn.Pong", File: "client/commands.go"},
	{Name: "Conn.Cap", File: "client/commands.go"},
	{Name: "Conn.Authenticate", File: "client/commands.go"},
	{Name: "DefaultNewNick", File: "client/connection.go"},
	{Name: "capSet.Add", File: "client/handlers.go", Stores: []string{"c.caps[cap[1:]]", "c.caps[cap]"}},
	{Name: "capSet.Clear", File: "client/handlers.go"},
	{Name: "capSet.Has", File: "client/handlers.go"},
	{Name: "capSet.Intersect", File: "client/handlers.go"},
	{Name: "capSet.Slice", File: "client/handlers.go"},
	{Name: "capSet.Size", File: "client/handlers.go"},
	// v2.5: the simple built-in handlers
	{Name: "Line.argslen", File: "client/line.go"},
	{Name: "Conn.h_PING", File: "client/handlers.go"},
	{Name: "Conn.h_REGISTER", File: "client/handlers.go"},
	{Name: "Conn.h_410", File: "client/handlers.go", Thread: true},
	{Name: "Conn.h_903", File: "client/handlers.go"},
	{Name: "Conn.h_904", File: "client/handlers.go"},
	{Name: "Conn.h_908", File: "client/handlers.go"},
	{Name: "Conn.h_CTCP", File: "client/handlers.go"},
	{Name: "Conn.handleCapNak", File: "client/handlers.go"},
}

// pkg is what is known about the Go package: declarations only, no type checking.
type pkg struct {
	fset    *token.FileSet
	src     map[string][]byte        // file name -> source
	funcs   map[string]*ast.FuncDecl // "f" or "Recv.f"
	fnFile  map[string]string
	consts  map[string]ast.Expr // package constants with an explicit value
	vars    map[string]ast.Expr // package variables with an initialiser
	structs map[string]*ast.StructType
	pos     map[string]token.Pos // declaration position of consts / vars / structs (output order)
	sigs    map[string]*sig      // signatures of the listed functions
	imports map[string]bool      // imported package names (strings, logging, ...)
}

func fnKey(fd *ast.FuncDecl) string {
	if fd.Recv == nil || len(fd.Recv.List) != 1 {
		return fd.Name.Name
	}
	return strings.TrimPrefix(typeStr(fd.Recv.List[0].Type), "*") + "." + fd.Name.Name
}

// typeStr prints a Go type expression: types are handled as their source text ("[]string", "*Line").
func typeStr(e ast.Node) string {
	var b bytes.Buffer
	printer.Fprint(&b, token.NewFileSet(), e)
	return b.String()
}

func load(repo, dir string) *pkg {
	p := &pkg{fset: token.NewFileSet(), src: map[string][]byte{}, funcs: map[string]*ast.FuncDecl{}, fnFile: map[string]string{},
		consts: map[string]ast.Expr{}, vars: map[string]ast.Expr{}, structs: map[string]*ast.StructType{},
		pos: map[string]token.Pos{}, sigs: map[string]*sig{}, imports: map[string]bool{}}
	names, _ := filepath.Glob(filepath.Join(repo, dir, "*.go"))
	sort.Strings(names)
	for _, name := range names {
		data, err := os.ReadFile(name)
		if err != nil || strings.HasSuffix(name, "_test.go") || bytes.Contains(data, []byte("//go:build")) {
			continue // tests and build-tagged files (verif_hooks.go) are not part of the translated package
		}
		f, err := parser.ParseFile(p.fset, name, data, parser.ParseComments)
		if err != nil {
			fmt.Fprintln(os.Stderr, "go2lean:", err)
			os.Exit(1)
		}
		rel, _ := filepath.Rel(repo, name)
		p.src[rel] = data
		for _, im := range f.Imports {
			path := strings.Trim(im.Path.Value, `"`)
			if im.Name != nil {
				p.imports[im.Name.Name] = true
			} else {
				p.imports[path[strings.LastIndex(path, "/")+1:]] = true
			}
		}
		for _, d := range f.Decls {
			switch d := d.(type) {
			case *ast.FuncDecl:
				p.funcs[fnKey(d)], p.fnFile[fnKey(d)] = d, rel
			case *ast.GenDecl:
				for _, s := range d.Specs {
					switch s := s.(type) {
					case *ast.ValueSpec:
						for i, n := range s.Names {
							if i < len(s.Values) && len(s.Names) == len(s.Values) {
								if d.Tok == token.CONST {
									p.consts[n.Name] = s.Values[i]
								} else {
									p.vars[n.Name] = s.Values[i]
								}
								p.pos[n.Name] = n.Pos()
							}
						}
					case *ast.TypeSpec:
						if st, ok := s.Type.(*ast.StructType); ok {
							p.structs[s.Name.Name], p.pos[s.Name.Name] = st, s.Pos()
						}
					}
				}
			}
		}
	}
	return p
}

// loadStructs registers the struct types of another package as "pkg.Name" (declarations only).
func (p *pkg) loadStructs(repo, dir string) {
	names, _ := filepath.Glob(filepath.Join(repo, dir, "*.go"))
	sort.Strings(names)
	for _, name := range names {
		if f, err := parser.ParseFile(p.fset, name, nil, 0); err == nil && !strings.HasSuffix(name, "_test.go") {
			ast.Inspect(f, func(n ast.Node) bool {
				if ts, ok := n.(*ast.TypeSpec); ok {
					if st, ok := ts.Type.(*ast.StructType); ok {
						p.structs[dir+"."+ts.Name.Name], p.pos[dir+"."+ts.Name.Name] = st, ts.Pos()
					}
				}
				return true
			})
		}
	}
}

// result of translating one function
type outFn struct {
	cfg    fnCfg
	lean   string   // the def, or "" when unsupported
	reason string   // why unsupported
	src    string   // Go source of the function
	calls  []string // listed functions it calls
	uses   []string // constants / package variables / structs it mentions
	ext    bool     // calls ToUpper / ToLower directly
}

func main() {
	repo := flag.String("repo", "/repo", "root of the goirc checkout")
	out := flag.String("out", "lean/Goirc/Gen/Pure.lean", "output file")
	flag.Parse()
	p := load(*repo, "client")
	p.loadStructs(*repo, "state") // struct types of other packages that fields refer to (state.Nick)

	// signatures first (calls between listed functions need them), then `ext` propagation along
	// the call graph, then bodies in dependency order.
	byName := map[string]*outFn{}
	for _, c := range config {
		o := &outFn{cfg: c}
		byName[c.Name] = o
		fd := p.funcs[c.Name]
		if fd == nil || p.fnFile[c.Name] != c.File || fd.Body == nil {
			o.reason = "not declared in " + c.File
			continue
		}
		start, end := p.fset.Position(fd.Pos()).Offset, p.fset.Position(fd.End()).Offset
		o.src = string(p.src[c.File][start:end])
		s, err := p.signature(fd)
		if err != "" {
			o.reason = err
			continue
		}
		p.sigs[c.Name] = s
		o.calls, o.ext = scanCalls(p, fd)
	}
	for changed := true; changed; { // ext: least fixed point over the call graph
		changed = false
		for _, c := range config {
			for _, callee := range byName[c.Name].calls {
				if p.sigs[c.Name] != nil && p.sigs[callee] != nil && (p.sigs[callee].ext || byName[callee].ext) && !p.sigs[c.Name].ext {
					p.sigs[c.Name].ext, changed = true, true
				}
			}
			if byName[c.Name].ext && p.sigs[c.Name] != nil && !p.sigs[c.Name].ext {
				p.sigs[c.Name].ext, changed = true, true
			}
		}
	}
	// threaded: a pointer method of a struct in structTable that mutates its receiver (a queue send, a
	// store through a field) or calls such a method on its receiver returns the new receiver.
	for changed := true; changed; {
		changed = false
		for _, c := range config {
			if s := p.sigs[c.Name]; s != nil && !s.threaded && mutatesRecv(p, p.funcs[c.Name], c.Thread) {
				s.threaded, changed = true, true
			}
		}
	}
	var order []string // callees first, otherwise config order; a cycle = recursion = unsupported
	state := map[string]int{}
	var visit func(n string)
	visit = func(n string) {
		if state[n] == 2 {
			return
		}
		if state[n] == 1 {
			byName[n].reason = "recursion (through " + n + ")"
			return
		}
		state[n] = 1
		for _, c := range byName[n].calls {
			visit(c)
		}
		state[n] = 2
		order = append(order, n)
	}
	for _, c := range config {
		visit(c.Name)
	}
	used := map[string]bool{}
	for _, n := range order {
		o := byName[n]
		if o.reason == "" {
			for _, c := range o.calls {
				if byName[c].lean == "" && !ambiguous(c) {
					o.reason = "calls " + c + ", which is unsupported"
				}
			}
		}
		if o.reason == "" {
			o.lean, o.uses, o.reason = translate(p, o.cfg)
		}
		if o.reason != "" {
			o.lean = ""
			delete(p.sigs, n) // callers then fail with "unknown call"
			continue
		}
		for _, u := range o.uses {
			used[u] = true
		}
	}

	var b strings.Builder
	b.WriteString("/-\nGENERATED by harness/cmd/go2lean from the Go sources of github.com/fluffle/goirc (package client).\nDO NOT EDIT: regenerate with `go2lean -repo /repo -out lean/Goirc/Gen/Pure.lean`.\n")
	b.WriteString("Each `def` is the literal translation of the Go function quoted above it, in `Except Go.Rt.Panic`.\n")
	b.WriteString("Conventions beyond the plain subset (see Goirc/Go/Rt.lean, \"v2 additions\"):\n")
	b.WriteString("* a pointer method that mutates its receiver (struct listed in the translator's struct table) takes the receiver by\n  value and returns the new one: `conn.Raw(x)` is `conn ← Conn_Raw conn x`;\n")
	b.WriteString("* a `chan string` field listed as a queue is a `List Bytes`, oldest first; `conn.out <- v` appends at the tail; blocking\n  on a full channel and the receiving side are not modelled;\n")
	b.WriteString("* `x.mu.Lock()/Unlock()/RLock()/RUnlock()` and `defer x.mu.Unlock()/RUnlock()` on a field declared sync.Mutex or\n  sync.RWMutex are dropped (sequential semantics), leaving a `-- dropped:` comment; so are logging.* / runtime.* calls.\n")
	b.WriteString("* the arguments of a dropped logging.* / runtime.* call that can panic are still evaluated, in order, for that effect\n  (`let _ ← Rt.idx line.Args 1`); an argument that mentions a variable of a dropped `x := runtime.…` is dropped whole;\n")
	b.WriteString("* pointer-typed fields (`conn.cfg`, `cfg.Me`) are rendered as the structure itself: a nil `cfg` / `cfg.Me` is not modelled.\n-/\n")
	b.WriteString("import Goirc.Go.Rt\nset_option linter.unusedVariables false\nopen Go\nnamespace Gen\n\n")
	var decls []string
	for u := range used {
		decls = append(decls, u)
	}
	sort.Slice(decls, func(i, j int) bool {
		a, c := p.fset.Position(p.pos[decls[i]]), p.fset.Position(p.pos[decls[j]])
		return a.Filename < c.Filename || a.Filename == c.Filename && a.Offset < c.Offset
	})
	done := map[string]bool{}
	var emitDecl func(u string)
	emitDecl = func(u string) { // a struct after the structs its fields need
		if !done[u] {
			done[u] = true
			for _, d := range p.structDeps(u) {
				emitDecl(d)
			}
			b.WriteString(p.declLean(u))
		}
	}
	for _, u := range decls {
		emitDecl(u)
	}
	b.WriteString("\n")
	bad := 0
	for _, n := range order {
		o := byName[n]
		if o.lean == "" {
			bad++
			fmt.Fprintf(os.Stderr, "go2lean: UNSUPPORTED %s: %s\n", n, o.reason)
			fmt.Fprintf(&b, "-- UNSUPPORTED %s: %s\n\n", n, o.reason)
			continue
		}
		for _, l := range strings.Split(strings.TrimRight(o.src, "\n"), "\n") {
			b.WriteString(strings.TrimRight("-- | "+strings.ReplaceAll(l, "\t", "    "), " ") + "\n")
		}
		b.WriteString(o.lean + "\n")
	}
	b.WriteString("end Gen\n")
	// manifest: the functions translated this run, as the fact extractor names them (client.ParseLine,
	// client.Line.Text): their fingerprints are replaced by the GenCheck obligations
	var mf strings.Builder
	for _, n := range order {
		if byName[n].lean != "" {
			mf.WriteString("client." + n + "\n")
		}
	}
	if old, err := os.ReadFile(*out + ".manifest"); err != nil || string(old) != mf.String() {
		os.WriteFile(*out+".manifest", []byte(mf.String()), 0o644)
	}
	if old, err := os.ReadFile(*out); err == nil && string(old) == b.String() {
		fmt.Printf("go2lean: %d translated, %d unsupported -> %s (unchanged)\n", len(order)-bad, bad, *out)
		return // keep the file's mtime so that lake does not rebuild
	}
	if err := os.WriteFile(*out, []byte(b.String()), 0o644); err != nil {
		fmt.Fprintln(os.Stderr, "go2lean:", err)
		os.Exit(1)
	}
	fmt.Printf("go2lean: %d translated, %d unsupported -> %s\n", len(order)-bad, bad, *out)
}

// scanCalls lists the listed functions fd calls (by name or as a method on a *Line-like receiver:
// resolved by method name, which is unambiguous among the listed functions) and whether it calls
// strings.ToUpper/ToLower itself.
func scanCalls(p *pkg, fd *ast.FuncDecl) (calls []string, ext bool) {
	seen := map[string]bool{}
	ast.Inspect(fd.Body, func(n ast.Node) bool {
		c, ok := n.(*ast.CallExpr)
		if !ok {
			return true
		}
		name := ""
		switch f := c.Fun.(type) {
		case *ast.Ident:
			name = f.Name
		case *ast.SelectorExpr:
			if x, ok := f.X.(*ast.Ident); ok && x.Name == "strings" && (f.Sel.Name == "ToUpper" || f.Sel.Name == "ToLower") {
				ext = true
			}
			name = "." + f.Sel.Name
		}
		for _, c := range config { // x.M(): every listed T.M (the receiver's type is not known here)
			if (c.Name == name || strings.HasPrefix(name, ".") && strings.HasSuffix(c.Name, name)) && !seen[c.Name] {
				seen[c.Name] = true
				calls = append(calls, c.Name)
			}
		}
		return true
	})
	return
}

// ambiguous: is there another listed method of the same name on a different type?  (scanCalls
// cannot tell them apart, so a failed namesake must not fail the caller.)
func ambiguous(name string) bool {
	n := 0
	if i := strings.Index(name, "."); i >= 0 {
		for _, c := range config {
			if strings.HasSuffix(c.Name, name[i:]) {
				n++
			}
		}
	}
	return n > 1
}

// mutatesRecv: does this pointer method of a struct listed in structTable mutate its receiver r:
// `r.f <- v`, `r.f = v`, `r.f[k] = v`, r.f++, or `r.M(…)` with M already known to?
func mutatesRecv(p *pkg, fd *ast.FuncDecl, force bool) (yes bool) {
	if fd.Recv == nil || len(fd.Recv.List[0].Names) != 1 || !strings.HasPrefix(typeStr(fd.Recv.List[0].Type), "*") || structRow(typeStr(fd.Recv.List[0].Type)) == nil {
		return false
	}
	if force { // config: Thread
		return true
	}
	r, t := fd.Recv.List[0].Names[0].Name, strings.TrimPrefix(typeStr(fd.Recv.List[0].Type), "*")
	rooted := func(e ast.Expr) bool { // r.f, r.f[k], r.f.g …
		for depth := 0; ; depth++ {
			switch x := e.(type) {
			case *ast.SelectorExpr:
				e = x.X
			case *ast.IndexExpr:
				e = x.X
			case *ast.ParenExpr:
				e = x.X
			case *ast.Ident:
				return x.Name == r && depth > 0
			default:
				return false
			}
		}
	}
	ast.Inspect(fd.Body, func(n ast.Node) bool {
		switch n := n.(type) {
		case *ast.SendStmt:
			yes = yes || rooted(n.Chan)
		case *ast.AssignStmt:
			for _, l := range n.Lhs {
				yes = yes || rooted(l)
			}
		case *ast.IncDecStmt:
			yes = yes || rooted(n.X)
		case *ast.CallExpr:
			if m, ok := n.Fun.(*ast.SelectorExpr); ok {
				if x, ok := m.X.(*ast.Ident); ok && x.Name == r && p.sigs[t+"."+m.Sel.Name] != nil && p.sigs[t+"."+m.Sel.Name].threaded {
					yes = true
				}
			}
		}
		return true
	})
	return
}
