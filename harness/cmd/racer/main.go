// Command racer stresses one shared tracker from many goroutines. It is
// built with -race; the race detector's report (exit code 66) is the result.
package main

import (
	"fmt"
	"os"
	"strconv"
	"sync"
	"time"

	"github.com/fluffle/goirc/logging"
	"github.com/fluffle/goirc/state"
)

// fmtLogger formats every record as a real logger would: the tracker hands its internal objects to the
// logger as %s arguments, so anything it logs outside its mutex is read here, under the race detector.
type fmtLogger struct{}

func (fmtLogger) Debug(f string, a ...interface{}) { _ = fmt.Sprintf(f, a...) }
func (fmtLogger) Info(f string, a ...interface{})  { _ = fmt.Sprintf(f, a...) }
func (fmtLogger) Warn(f string, a ...interface{})  { _ = fmt.Sprintf(f, a...) }
func (fmtLogger) Error(f string, a ...interface{}) { _ = fmt.Sprintf(f, a...) }

func main() {
	seed := uint64(1)
	dur := 700 * time.Millisecond
	if len(os.Args) > 1 {
		s, _ := strconv.ParseUint(os.Args[1], 10, 64)
		seed = s
	}
	if len(os.Args) > 2 {
		ms, _ := strconv.Atoi(os.Args[2])
		dur = time.Duration(ms) * time.Millisecond
	}
	logging.SetLogger(fmtLogger{})
	// two clients in one process, each with its own tracker: nothing but the logger is shared between them
	ts := []state.Tracker{state.NewTracker("me"), state.NewTracker("me")}
	nicks := []string{"me", "a", "b", "c", "d"}
	chans := []string{"#x", "#y", "#z"}
	var wg sync.WaitGroup
	stop := time.Now().Add(dur)
	var ops int64
	var mu sync.Mutex
	for g := 0; g < 8; g++ {
		wg.Add(1)
		go func(g int) {
			defer wg.Done()
			t := ts[g%2]
			x := seed*0x9E3779B97F4A7C15 + uint64(g)*0xBF58476D1CE4E5B9 + 1
			next := func(n int) int {
				x ^= x << 13
				x ^= x >> 7
				x ^= x << 17
				return int(x % uint64(n))
			}
			n := 0
			for time.Now().Before(stop) {
				nk, ch := nicks[next(len(nicks))], chans[next(len(chans))]
				switch next(16) {
				case 0:
					t.NewNick(nk)
				case 1:
					if v := t.GetNick(nk); v != nil {
						v.Modes.Bot = true // callers may scribble over what they were given
						for _, p := range v.Channels {
							p.Op = !p.Op
						}
						v.Channels["zz"] = &state.ChanPrivs{}
					}
				case 2:
					t.ReNick(nk, nicks[next(len(nicks))])
				case 3:
					t.DelNick(nk)
				case 4:
					t.NickInfo(nk, "i", "h", "n")
				case 5:
					t.NickModes(nk, []string{"+iw-o", "+iQ-o", "+Yi"}[next(3)])
				case 6:
					t.NewChannel(ch)
				case 7:
					if v := t.GetChannel(ch); v != nil {
						v.Modes.Key = "scribble"
						for _, p := range v.Nicks {
							p.Voice = true
						}
						delete(v.Nicks, nk)
					}
				case 8:
					t.DelChannel(ch)
				case 9:
					t.Topic(ch, "t")
				case 10:
					t.ChannelModes(ch, []string{"+ovk-l", "+oXvk-l", "+Cov"}[next(3)], nk, nk, "key")
				case 11:
					_ = t.Me().Nick
				case 12:
					if p, ok := t.IsOn(ch, nk); ok {
						p.Owner = true
					}
				case 13:
					if p := t.Associate(ch, nk); p != nil {
						p.Admin = true
					}
				case 14:
					t.Dissociate(ch, nk)
				case 15:
					if next(20) == 0 {
						t.Wipe()
					} else {
						_ = t.String()
					}
				}
				n++
			}
			mu.Lock()
			ops += int64(n)
			mu.Unlock()
		}(g)
	}
	wg.Wait()
	fmt.Println(ops)
}
