// Package drv talks to the compiled Lean driver over its line protocol.
package drv

import (
	"bufio"
	"bytes"
	"encoding/hex"
	"fmt"
	"os"
	"os/exec"
	"strings"
)

// Path of the compiled driver; overridable for tests.
var Path = "/verif/lean/.lake/build/bin/driver"

func init() {
	if p := os.Getenv("VERIF_DRIVER"); p != "" {
		Path = p
	}
}

// Run sends every request (one per line) to a fresh driver process and
// returns one reply per request.
func Run(reqs []string) ([]string, error) {
	if len(reqs) == 0 {
		return nil, nil
	}
	cmd := exec.Command(Path)
	var in bytes.Buffer
	for _, r := range reqs {
		if strings.ContainsAny(r, "\r\n") {
			return nil, fmt.Errorf("request contains newline: %q", r)
		}
		in.WriteString(r)
		in.WriteByte('\n')
	}
	cmd.Stdin = &in
	var out bytes.Buffer
	cmd.Stdout = &out
	cmd.Stderr = os.Stderr
	if err := cmd.Run(); err != nil {
		return nil, fmt.Errorf("driver: %v", err)
	}
	var replies []string
	sc := bufio.NewScanner(&out)
	sc.Buffer(make([]byte, 1<<20), 1<<28)
	for sc.Scan() {
		replies = append(replies, sc.Text())
	}
	if len(replies) != len(reqs) {
		return nil, fmt.Errorf("driver: %d replies for %d requests", len(replies), len(reqs))
	}
	return replies, nil
}

// H hex-encodes a byte string for the line protocol ("-" = empty).
func H(s string) string {
	if s == "" {
		return "-"
	}
	return hex.EncodeToString([]byte(s))
}

// L encodes a list of byte strings ("_" = empty list).
func L(l []string) string {
	if len(l) == 0 {
		return "_"
	}
	p := make([]string, len(l))
	for i, s := range l {
		p[i] = H(s)
	}
	return strings.Join(p, ",")
}

// UnH decodes H.
func UnH(s string) (string, error) {
	if s == "-" {
		return "", nil
	}
	b, err := hex.DecodeString(s)
	return string(b), err
}

// UnL decodes L.
func UnL(s string) ([]string, error) {
	if s == "_" {
		return nil, nil
	}
	var out []string
	for _, p := range strings.Split(s, ",") {
		b, err := UnH(p)
		if err != nil {
			return nil, err
		}
		out = append(out, b)
	}
	return out, nil
}
