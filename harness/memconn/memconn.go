// Package memconn is an in-memory connection handed to the real goirc client
// through its public API: a proxy dialer type ("verif") is registered with
// golang.org/x/net/proxy and selected by Config.Proxy = "verif://<id>".
// The harness plays the server: it controls how the byte stream is chunked
// into reads, when EOF or errors strike, and it timestamps every write.
package memconn

import (
	"errors"
	"fmt"
	"io"
	"net"
	"net/url"
	"strings"
	"sync"
	"time"

	"golang.org/x/net/proxy"
)

// Write is one Write call made by the client.
type Write struct {
	Data string
	At   time.Time
}

// Conn is the client's end (a net.Conn) plus the server-side controls.
type Conn struct {
	Addr string // address the client asked the dialer to connect to

	mu   sync.Mutex
	cond *sync.Cond

	toClient   []byte        // bytes the server has sent, not yet read by the client
	maxRead    int           // largest number of bytes one Read returns (0 = no limit)
	eof        bool          // server closed its side: Read returns io.EOF once toClient is drained
	readErr    error         // injected read error (returned once toClient is drained)
	closed     bool          // client called Close
	closedCh   chan struct{} // closed by Close: a Write waiting at the gate returns, as a write on a real socket would
	wdeadline  time.Time     // SetWriteDeadline
	rdeadline  time.Time     // SetReadDeadline: a Read that has nothing to return by then fails with a timeout
	stallN     int           // the next Write takes only this many bytes at first ...
	stallFor   time.Duration // ... and the rest after this long (or fails with a timeout if the write deadline comes first)
	writes     []Write
	wbuf       []byte // bytes written by the client, not yet split into lines
	lines      []string
	lineAt     []time.Time
	writeErrAt int // fail the k-th Write from now (1-based); 0 = never
	nWrites    int
	writeGate  chan struct{} // if non-nil, every Write waits for a token (slow server)
	closeDelay time.Duration
	reads      int
}

func newConn(addr string) *Conn {
	c := &Conn{Addr: addr, closedCh: make(chan struct{})}
	c.cond = sync.NewCond(&c.mu)
	return c
}

type addr string

func (a addr) Network() string { return "mem" }
func (a addr) String() string  { return string(a) }

func (c *Conn) Read(p []byte) (int, error) {
	c.mu.Lock()
	defer c.mu.Unlock()
	for {
		if c.closed {
			return 0, errors.New("memconn: use of closed connection")
		}
		if len(c.toClient) > 0 {
			n := len(p)
			if n > len(c.toClient) {
				n = len(c.toClient)
			}
			if c.maxRead > 0 && n > c.maxRead {
				n = c.maxRead
			}
			copy(p, c.toClient[:n])
			c.toClient = c.toClient[n:]
			c.reads++
			return n, nil
		}
		if c.readErr != nil {
			return 0, c.readErr
		}
		if c.eof {
			return 0, io.EOF
		}
		if dl := c.rdeadline; !dl.IsZero() {
			if !time.Now().Before(dl) {
				return 0, timeoutError{}
			}
			t := time.AfterFunc(time.Until(dl), func() { c.mu.Lock(); c.cond.Broadcast(); c.mu.Unlock() })
			c.cond.Wait()
			t.Stop()
			continue
		}
		c.cond.Wait()
	}
}

func (c *Conn) Write(p []byte) (int, error) {
	c.mu.Lock()
	gate := c.writeGate
	c.mu.Unlock()
	if gate != nil {
		select {
		case <-gate:
		case <-c.closedCh:
		}
	}
	c.mu.Lock()
	if c.stallFor > 0 && c.stallN < len(p) && !c.closed {
		n, d, dl := c.stallN, c.stallFor, c.wdeadline
		c.stallFor = 0
		c.acceptLocked(p[:n])
		c.mu.Unlock()
		wait := d
		timedOut := false
		if !dl.IsZero() && time.Until(dl) < d {
			wait, timedOut = time.Until(dl), true
		}
		if wait > 0 {
			select { // closing the socket releases a write that is blocked on a stalled peer, as on a real socket
			case <-time.After(wait):
			case <-c.closedCh:
				return n, errors.New("memconn: write on closed connection")
			}
		}
		if timedOut {
			return n, timeoutError{}
		}
		c.mu.Lock()
		p = p[n:]
		defer func() { c.mu.Unlock() }()
		if c.closed {
			return n, errors.New("memconn: write on closed connection")
		}
		c.acceptLocked(p)
		return n + len(p), nil
	}
	defer c.mu.Unlock()
	if c.closed {
		return 0, errors.New("memconn: write on closed connection")
	}
	c.nWrites++
	if c.writeErrAt > 0 && c.nWrites >= c.writeErrAt {
		return 0, errors.New("memconn: injected write error")
	}
	c.acceptLocked(p)
	return len(p), nil
}

// acceptLocked records bytes the client has written (c.mu held)
func (c *Conn) acceptLocked(p []byte) {
	now := time.Now()
	c.writes = append(c.writes, Write{string(p), now})
	c.wbuf = append(c.wbuf, p...)
	for {
		i := strings.Index(string(c.wbuf), "\r\n")
		if i < 0 {
			break
		}
		c.lines = append(c.lines, string(c.wbuf[:i]))
		c.lineAt = append(c.lineAt, now)
		c.wbuf = c.wbuf[i+2:]
	}
	c.cond.Broadcast()
}

func (c *Conn) Close() error {
	c.mu.Lock()
	d := c.closeDelay
	c.mu.Unlock()
	if d > 0 { // a close that takes a while (TLS close_notify to a stalled peer, say)
		time.Sleep(d)
	}
	c.mu.Lock()
	defer c.mu.Unlock()
	if !c.closed {
		close(c.closedCh)
	}
	c.closed = true
	c.cond.Broadcast()
	return nil
}

func (c *Conn) LocalAddr() net.Addr  { return addr("client") }
func (c *Conn) RemoteAddr() net.Addr { return addr(c.Addr) }
func (c *Conn) SetDeadline(t time.Time) error {
	c.SetReadDeadline(t)
	return c.SetWriteDeadline(t)
}
func (c *Conn) SetReadDeadline(t time.Time) error {
	c.mu.Lock()
	c.rdeadline = t
	c.cond.Broadcast()
	c.mu.Unlock()
	return nil
}
func (c *Conn) SetWriteDeadline(t time.Time) error {
	c.mu.Lock()
	c.wdeadline = t
	c.mu.Unlock()
	return nil
}

type timeoutError struct{}

func (timeoutError) Error() string   { return "memconn: i/o timeout" }
func (timeoutError) Timeout() bool   { return true }
func (timeoutError) Temporary() bool { return true }

// StallNextWrite makes the next Write behave like a socket whose peer stops reading in mid-line: the first n bytes go
// through, the rest only after d - unless a write deadline expires first, in which case Write returns (n, timeout).
func (c *Conn) StallNextWrite(n int, d time.Duration) {
	c.mu.Lock()
	c.stallN, c.stallFor = n, d
	c.mu.Unlock()
}

// ---- server side ----

// Send makes bytes available to the client's reader.
func (c *Conn) Send(s string) {
	c.mu.Lock()
	c.toClient = append(c.toClient, s...)
	c.cond.Broadcast()
	c.mu.Unlock()
}

// SendLine sends s followed by CRLF.
func (c *Conn) SendLine(s string) { c.Send(s + "\r\n") }

// SetMaxRead bounds the number of bytes a single Read returns.
func (c *Conn) SetMaxRead(n int) { c.mu.Lock(); c.maxRead = n; c.mu.Unlock() }

// EOF closes the server's side: the client sees io.EOF after draining.
func (c *Conn) EOF() { c.mu.Lock(); c.eof = true; c.cond.Broadcast(); c.mu.Unlock() }

// ReadError makes the client's next Read (after draining) fail with err.
func (c *Conn) ReadError(err error) { c.mu.Lock(); c.readErr = err; c.cond.Broadcast(); c.mu.Unlock() }

// FailWriteAfter makes the k-th Write from now fail (k >= 1).
func (c *Conn) FailWriteAfter(k int) { c.mu.Lock(); c.writeErrAt = c.nWrites + k; c.mu.Unlock() }

// SetCloseDelay makes Close take that long.
func (c *Conn) SetCloseDelay(d time.Duration) { c.mu.Lock(); c.closeDelay = d; c.mu.Unlock() }

// GateWrites makes every Write wait for a token from the returned channel.
func (c *Conn) GateWrites() chan struct{} {
	g := make(chan struct{}, 1<<16)
	c.mu.Lock()
	c.writeGate = g
	c.mu.Unlock()
	return g
}

// Closed reports whether the client has closed its end.
func (c *Conn) Closed() bool { c.mu.Lock(); defer c.mu.Unlock(); return c.closed }

// Unread is the number of bytes sent by the server that the client has not read yet.
func (c *Conn) Unread() int { c.mu.Lock(); defer c.mu.Unlock(); return len(c.toClient) }

// Lines returns the complete lines the client has written so far.
func (c *Conn) Lines() []string {
	c.mu.Lock()
	defer c.mu.Unlock()
	return append([]string(nil), c.lines...)
}

// LineTimes returns the time of the Write that completed each line.
func (c *Conn) LineTimes() []time.Time {
	c.mu.Lock()
	defer c.mu.Unlock()
	return append([]time.Time(nil), c.lineAt...)
}

// Raw returns everything the client has written.
func (c *Conn) Raw() string {
	c.mu.Lock()
	defer c.mu.Unlock()
	var sb strings.Builder
	for _, w := range c.writes {
		sb.WriteString(w.Data)
	}
	return sb.String()
}

// WaitLines blocks until the client has written at least n lines, the
// client closed the connection, or the timeout expires.
func (c *Conn) WaitLines(n int, timeout time.Duration) bool {
	deadline := time.Now().Add(timeout)
	timer := time.AfterFunc(timeout, func() { c.mu.Lock(); c.cond.Broadcast(); c.mu.Unlock() })
	defer timer.Stop()
	c.mu.Lock()
	defer c.mu.Unlock()
	for len(c.lines) < n {
		if c.closed || time.Now().After(deadline) {
			return false
		}
		c.cond.Wait()
	}
	return true
}

// WaitLine blocks until some line at index >= from satisfies pred; returns its index.
func (c *Conn) WaitLine(from int, pred func(string) bool, timeout time.Duration) int {
	deadline := time.Now().Add(timeout)
	timer := time.AfterFunc(timeout, func() { c.mu.Lock(); c.cond.Broadcast(); c.mu.Unlock() })
	defer timer.Stop()
	c.mu.Lock()
	defer c.mu.Unlock()
	i := from
	for {
		for ; i < len(c.lines); i++ {
			if pred(c.lines[i]) {
				return i
			}
		}
		if c.closed || time.Now().After(deadline) {
			return -1
		}
		c.cond.Wait()
	}
}

// ---- dialer registration ----

var (
	regOnce    sync.Once
	dmu        sync.Mutex
	waiting    = map[string]chan *Conn{}
	failing    = map[string]error{}
	presetFail = map[string]int{}
	presetGate = map[string]chan struct{}{}
	dialDelay  = map[string]time.Duration{}
	seq        int
)

type dialer struct{ id string }

func (d dialer) Dial(network, address string) (net.Conn, error) {
	dmu.Lock()
	ch := waiting[d.id]
	err := failing[d.id]
	dmu.Unlock()
	if err != nil {
		return nil, err
	}
	if ch == nil {
		return nil, fmt.Errorf("memconn: nobody listening for %q", d.id)
	}
	dmu.Lock()
	dd := dialDelay[d.id]
	dmu.Unlock()
	if dd > 0 {
		time.Sleep(dd) // a dial that takes a while (DNS, a distant server)
	}
	c := newConn(address)
	dmu.Lock()
	if k := presetFail[d.id]; k > 0 {
		c.writeErrAt = k
	}
	if g := presetGate[d.id]; g != nil {
		c.writeGate = g
	}
	dmu.Unlock()
	ch <- c
	return c, nil
}

// Listen returns a fresh Config.Proxy URL and the channel on which the
// server side of every connection dialled through it is delivered.
func Listen() (proxyURL string, conns chan *Conn) {
	regOnce.Do(func() {
		proxy.RegisterDialerType("verif", func(u *url.URL, _ proxy.Dialer) (proxy.Dialer, error) {
			return dialer{u.Host}, nil
		})
	})
	dmu.Lock()
	defer dmu.Unlock()
	seq++
	id := fmt.Sprintf("l%d", seq)
	ch := make(chan *Conn, 16)
	waiting[id] = ch
	return "verif://" + id, ch
}

// PresetFailWrite makes the k-th Write of every connection dialled through proxyURL fail.
func PresetFailWrite(proxyURL string, k int) {
	u, _ := url.Parse(proxyURL)
	dmu.Lock()
	defer dmu.Unlock()
	presetFail[u.Host] = k
}

// PresetGateWrites makes every Write of every connection dialled through proxyURL wait for a token from the
// returned channel, from the very first write on (so the registration lines stay queued until released).
func PresetGateWrites(proxyURL string) chan struct{} {
	u, _ := url.Parse(proxyURL)
	g := make(chan struct{}, 1<<16)
	dmu.Lock()
	defer dmu.Unlock()
	presetGate[u.Host] = g
	return g
}

// PresetDialDelay makes every dial through proxyURL take that long.
func PresetDialDelay(proxyURL string, d time.Duration) {
	u, _ := url.Parse(proxyURL)
	dmu.Lock()
	defer dmu.Unlock()
	dialDelay[u.Host] = d
}

// FailDial makes dials through proxyURL fail with err (nil = succeed again).
func FailDial(proxyURL string, err error) {
	u, _ := url.Parse(proxyURL)
	dmu.Lock()
	defer dmu.Unlock()
	if err == nil {
		delete(failing, u.Host)
	} else {
		failing[u.Host] = err
	}
}
