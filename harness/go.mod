module verif/harness

go 1.21

require (
	github.com/emersion/go-sasl v0.0.0-20220912192320-0145f2c60ead
	github.com/fluffle/goirc v0.0.0
	golang.org/x/net v0.18.0
)

require github.com/golang/mock v1.5.0 // indirect

replace github.com/fluffle/goirc => /repo
