// Package gen: one splitmix64 PRNG from which every random choice derives.
package gen

type R struct{ s uint64 }

func New(seed uint64) *R { return &R{s: seed*0x9E3779B97F4A7C15 + 0x1234567} }

func (r *R) U64() uint64 {
	r.s += 0x9E3779B97F4A7C15
	z := r.s
	z = (z ^ (z >> 30)) * 0xBF58476D1CE4E5B9
	z = (z ^ (z >> 27)) * 0x94D049BB133111EB
	return z ^ (z >> 31)
}

// N returns a number in [0, n).
func (r *R) N(n int) int {
	if n <= 0 {
		return 0
	}
	return int(r.U64() % uint64(n))
}

// Range returns a number in [lo, hi].
func (r *R) Range(lo, hi int) int { return lo + r.N(hi-lo+1) }

func (r *R) Bool() bool { return r.U64()&1 == 1 }

// P is true with probability num/den.
func (r *R) P(num, den int) bool { return r.N(den) < num }

// Pick returns one of the strings.
func (r *R) Pick(xs ...string) string { return xs[r.N(len(xs))] }

// Bytes returns n bytes drawn from alphabet.
func (r *R) Bytes(n int, alphabet string) string {
	b := make([]byte, n)
	for i := range b {
		b[i] = alphabet[r.N(len(alphabet))]
	}
	return string(b)
}

// AnyBytes returns n arbitrary bytes.
func (r *R) AnyBytes(n int) string {
	b := make([]byte, n)
	for i := range b {
		b[i] = byte(r.N(256))
	}
	return string(b)
}

// AnyBytesNoNL returns n arbitrary bytes other than CR and LF.
func (r *R) AnyBytesNoNL(n int) string {
	b := make([]byte, n)
	for i := range b {
		x := byte(r.N(256))
		for x == '\r' || x == '\n' {
			x = byte(r.N(256))
		}
		b[i] = x
	}
	return string(b)
}
