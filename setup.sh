#!/bin/sh
# Builds the framework offline from files on disk: Lean library + driver, Go harness.
set -e
cd "$(dirname "$0")"
export GOFLAGS=-mod=mod GOPROXY=off GOSUMDB=off GOTOOLCHAIN=local
(cd harness && go build -o bin/extract ./cmd/extract && bin/extract -repo /repo -out ../lean/Goirc/Facts.lean)
(cd lean && lake build Goirc Goirc.FactsCheck driver)
(cd harness && go build -tags verif -o bin/corr ./cmd/corr && (go build -race -tags verif -o bin/racer ./cmd/racer || echo "note: race-enabled build unavailable"))
mkdir -p evidence replays
echo setup ok
