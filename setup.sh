#!/bin/sh
# Builds the framework offline from files on disk: Lean library + driver, Go harness.
set -e
cd "$(dirname "$0")"
export GOFLAGS=-mod=mod GOPROXY=off GOSUMDB=off GOTOOLCHAIN=local
(cd harness && go build -o bin/go2lean ./cmd/go2lean && bin/go2lean -repo /repo -out ../lean/Goirc/Gen/Pure.lean)
(cd harness && go build -o bin/extract ./cmd/extract && bin/extract -repo /repo -out ../lean/Goirc/Facts.lean -gen ../lean/Goirc/Gen/Pure.lean.manifest -gencheck ../lean/Goirc/GenCheck)
GEN=$(cd lean && ls Goirc/GenCheck/*.lean 2>/dev/null | sed 's/\.lean$//; s#/#.#g' | tr '\n' ' ')
(cd lean && lake build Goirc Goirc.FactsCheck Goirc.GenCheck Goirc.Gen.Smoke $GEN driver)
(cd harness && go build -tags verif -o bin/corr ./cmd/corr && (go build -race -tags verif -o bin/racer ./cmd/racer || echo "note: race-enabled build unavailable"))
mkdir -p evidence replays
echo setup ok
