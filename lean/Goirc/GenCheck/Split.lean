import Goirc.GenCheck
/-!
# Generated = model: `indexFragment`, `splitMessage`, `splitArgs`
The generated loops carry a fuel bound (`len(msg)+1`, `len(args)+1`); the theorems show the bound is never
reached (`.error .fuel` does not occur), that no slice expression panics, and that the result is the model's.
-/
namespace GenCheck
open Go
set_option linter.unusedVariables false

theorem lastIndexFrom2 (a b : UInt8) (s : Bytes) (i : Nat) (acc : Int) :
    Rt.lastIndexFrom [a, b] s i acc = Go.lastIndex2 a b s i acc := by
  induction s generalizing i acc with
  | nil => simp [Rt.lastIndexFrom, Go.lastIndex2]
  | cons x rest ih =>
    cases rest with
    | nil => simp [Rt.lastIndexFrom, Go.lastIndex2, hasPrefix]
    | cons y rest =>
      rw [Rt.lastIndexFrom, ih, Go.lastIndex2]
      simp [hasPrefix]

theorem lastIndexFrom1 (a : UInt8) (s : Bytes) (i : Nat) (acc : Int) :
    Rt.lastIndexFrom [a] s i acc = Go.lastIndex1 a s i acc := by
  induction s generalizing i acc with
  | nil => simp [Rt.lastIndexFrom, Go.lastIndex1]
  | cons x rest ih =>
      rw [Rt.lastIndexFrom, ih, Go.lastIndex1]
      simp [hasPrefix]

theorem fragLoop (s : Bytes) (l : List UInt8) (m : Int) :
    (forIn (m := Rt.M) (l.map fun p => [p, (32 : UInt8)]) m fun sep __s =>
        have max := __s;
        have idx := Rt.lastIndex s sep;
        if decide (idx > max) = true then
          have max := idx;
          pure (ForInStep.yield max)
        else pure (ForInStep.yield max))
      = .ok (l.foldl (fun m p => if lastIndex2 p 32 s 0 (-1) > m then lastIndex2 p 32 s 0 (-1) else m) m) := by
  induction l generalizing m with
  | nil => rfl
  | cons p l ih =>
    simp only [List.map_cons, List.forIn_cons, List.foldl_cons, Rt.lastIndex, lastIndexFrom2]
    by_cases h : lastIndex2 p 32 s 0 (-1) > m
    · simp only [h, decide_true, if_true]
      exact ih _
    · simp only [h, decide_false, if_false]
      exact ih _

theorem fragTail (m l1 : Int) :
    (do let __s ← (Except.ok m : Rt.M Int)
        if decide (__s > 0) = true then pure (__s + 2)
        else if decide (l1 > 0) = true then pure (l1 + 1) else pure (-1)) =
    (Except.ok (if m > 0 then m + 2 else if l1 > 0 then l1 + 1 else -1) : Rt.M Int) := by
  simp only [bind, Except.bind, pure, Except.pure, decide_eq_true_eq]
  split
  · rfl
  · split <;> rfl

/-- [C11] `indexFragment` as generated from commands.go is the model's -/
theorem gen_indexFragment (s : Bytes) : Gen.indexFragment s = .ok (Go.indexFragment s) := by
  have h := fragLoop s Go.seps (-1)
  simp only [Go.seps, List.map_cons, List.map_nil] at h
  simp only [Gen.indexFragment, Go.indexFragment, Go.fragMax, Go.seps]
  rw [h]
  simp only [Rt.lastIndex, lastIndexFrom1]
  exact fragTail _ _


/-- loop body of the generated `splitMessage` -/
def smBody (splitLen : Int) : Nat → Bytes × List Bytes → Rt.M (ForInStep (Bytes × List Bytes)) :=
  fun x __s =>
          have msg := __s.fst;
          have msgs := __s.snd;
          if (!decide (Rt.len msg > splitLen)) = true then pure (ForInStep.done (msg, msgs))
          else do
            let t1 ← Rt.sliceTo msg (splitLen - 3)
            let idx ← Gen.indexFragment t1
            have __do_jp : Unit → Int → Rt.M (ForInStep (Bytes × List Bytes)) := fun __r idx => do
              let t2 ← Rt.sliceTo msg idx
              have msgs : List Bytes := msgs ++ [t2 ++ [46, 46, 46]]
              let msg ← Rt.sliceFrom msg idx
              pure (ForInStep.yield (msg, msgs))
            if decide (idx < 0) = true then
                have idx := splitLen - 3;
                __do_jp () idx
              else __do_jp () idx

theorem smBody_done (n : Nat) (x : Nat) (msg : Bytes) (msgs : List Bytes) (h : ¬ n < msg.length) :
    smBody n x (msg, msgs) = .ok (.done (msg, msgs)) := by
  have : ¬ (Rt.len msg > (n : Int)) := by simp [Rt.len]; omega
  simp [smBody, this]
  rfl

theorem sliceTo_ok {α : Type} (s : List α) (j : Nat) (h : j ≤ s.length) : Rt.sliceTo s (j : Int) = .ok (s.take j) := by
  have : (0 : Int) ≤ j ∧ (j : Int) ≤ s.length := by omega
  simp only [Rt.sliceTo, this, and_self, if_true, Int.toNat_natCast]
  rfl

theorem sliceFrom_ok {α : Type} (s : List α) (j : Nat) (h : j ≤ s.length) : Rt.sliceFrom s (j : Int) = .ok (s.drop j) := by
  have : (0 : Int) ≤ j ∧ (j : Int) ≤ s.length := by omega
  simp only [Rt.sliceFrom, this, and_self, if_true, Int.toNat_natCast]
  rfl

theorem smBody_step (n : Nat) (hn : 13 ≤ n) (x : Nat) (msg : Bytes) (msgs : List Bytes) (h : n < msg.length) :
    smBody n x (msg, msgs) = .ok (.yield (msg.drop (cutIdx msg n), msgs ++ [msg.take (cutIdx msg n) ++ dots])) := by
  have h1 : (Rt.len msg > (n : Int)) := by simp [Rt.len]; omega
  have h2 : Rt.sliceTo msg ((n : Int) - 3) = .ok (msg.take (n - 3)) := by
    have : ((n : Int) - 3) = ((n - 3 : Nat) : Int) := by omega
    rw [this]; exact sliceTo_ok _ _ (by omega)
  have hb := cutIdx_bound msg n hn h
  have hc : (if Go.indexFragment (msg.take (n - 3)) < 0 then (n : Int) - 3 else Go.indexFragment (msg.take (n - 3))) = (cutIdx msg n : Nat) := by
    unfold cutIdx
    have hb := indexFragment_bound (msg.take (n - 3))
    split
    · omega
    · omega
  simp only [smBody, h1, decide_true, Bool.not_true, Bool.false_eq_true, if_false, h2, gen_indexFragment]
  have e : ((n : Int) - 3) = ((n - 3 : Nat) : Int) := by omega
  have hlen : cutIdx msg n ≤ msg.length := by omega
  by_cases hneg : indexFragment (msg.take (n - 3)) < 0
  · have hcut : cutIdx msg n = n - 3 := by simp [cutIdx, hneg]
    simp only [bind, Except.bind, hneg, decide_true, if_true]
    rw [e, sliceFrom_ok _ _ (by omega), hcut]
    rfl
  · have hi : indexFragment (msg.take (n - 3)) = (cutIdx msg n : Nat) := by simpa [hneg] using hc
    simp only [bind, Except.bind, hneg, decide_false, Bool.false_eq_true, if_false]
    rw [hi, sliceTo_ok _ _ hlen, sliceFrom_ok _ _ hlen]
    rfl

theorem smLoop (n : Nat) (hn : 13 ≤ n) (l : List Nat) (msg : Bytes) (msgs : List Bytes) (hl : msg.length ≤ l.length) :
    ∃ m' ms', forIn l (msg, msgs) (smBody n) = .ok (m', ms') ∧ m'.length ≤ n ∧
      ms' ++ [m'] = msgs ++ splitLoop msg n hn := by
  induction l generalizing msg msgs with
  | nil =>
    have : msg.length ≤ n := by simp only [List.length_nil] at hl; omega
    refine ⟨msg, msgs, rfl, this, ?_⟩
    rw [splitLoop]; simp; omega
  | cons x l ih =>
    by_cases h : n < msg.length
    · have hb := cutIdx_bound msg n hn h
      obtain ⟨m', ms', h1, h2, h3⟩ := ih (msg.drop (cutIdx msg n)) (msgs ++ [msg.take (cutIdx msg n) ++ dots])
        (by simp at hl ⊢; omega)
      refine ⟨m', ms', ?_, h2, ?_⟩
      · rw [List.forIn_cons, smBody_step n hn x msg msgs h]
        exact h1
      · rw [h3, splitLoop.eq_1 msg]; simp [h]
    · refine ⟨msg, msgs, ?_, by omega, ?_⟩
      · rw [List.forIn_cons, smBody_done n x msg msgs h]; rfl
      · rw [splitLoop]; simp [h]

theorem smMain (msg : Bytes) (n : Nat) (hn : 13 ≤ n) :
    (do
      let __s ← forIn (List.range (Rt.len msg + 1).toNat) (msg, ([] : List Bytes)) (smBody n)
      have msg : Bytes := __s.fst
      have msgs : List Bytes := __s.snd
      have __do_jp : Unit → Rt.M (List Bytes) := fun __r => pure (msgs ++ [msg])
      if decide (Rt.len msg > (n : Int)) = true then do
          let __r ← throw Rt.Panic.fuel
          __do_jp __r
        else __do_jp ()) = .ok (splitLoop msg n hn) := by
  obtain ⟨m', ms', h1, h2, h3⟩ := smLoop n hn (List.range (Rt.len msg + 1).toNat) msg [] (by simp [Rt.len])
  rw [h1]
  have : ¬ (Rt.len m' > (n : Int)) := by simp [Rt.len]; omega
  simp only [bind, Except.bind, this, decide_false, Bool.false_eq_true, if_false]
  simp at h3
  rw [← h3]; rfl

/-- [C11] `splitMessage` as generated from commands.go: no panic, the loop ends within its fuel, result = model, for every text and every splitLen -/
theorem gen_splitMessage (msg : Bytes) (splitLen : Int) : Gen.splitMessage msg splitLen = .ok (Go.splitMessage msg splitLen) := by
  unfold Gen.splitMessage Go.splitMessage
  by_cases h : splitLen < 13
  · simp only [h, decide_true, if_true, dite_true, Gen.defaultSplit]
    exact smMain msg 450 (by decide)
  · simp only [h, decide_false, Bool.false_eq_true, if_false, dite_false]
    have e : splitLen = (splitLen.toNat : Int) := by omega
    have := smMain msg splitLen.toNat (by omega)
    rw [← e] at this
    exact this

theorem idx_ok {α : Type} (s : List α) (i : Nat) (h : i < s.length) : Rt.idx s (i : Int) = .ok s[i] := by
  have h0 : (0 : Int) ≤ i := by omega
  simp only [Rt.idx, h0, if_true, Int.toNat_natCast, List.getElem?_eq_getElem h]
  rfl

/-- inner loop body of the generated `splitArgs` -/
def saInner (args : List Bytes) (maxLen : Int) : Nat → Int × Bytes → Rt.M (ForInStep (Int × Bytes)) :=
  fun x __s =>
                have i := __s.fst;
                have currArg := __s.snd;
                have __do_jp := fun t2 =>
                  if (!t2) = true then pure (ForInStep.done (i, currArg))
                  else do
                    let t3 ← Rt.idx args i
                    have currArg : Bytes := currArg ++ ([32] ++ t3)
                    have i : Int := i + 1
                    pure (ForInStep.yield (i, currArg));
                if decide (i < Rt.len args) = true then do
                  let t1 ← Rt.idx args i
                  let t2 ← pure (decide (Rt.len currArg + Rt.len t1 + 1 < maxLen))
                  __do_jp t2
                else do
                  let t2 ← pure false
                  __do_jp t2

/-- outer loop body of the generated `splitArgs` -/
def saOuter (args : List Bytes) (maxLen : Int) : Nat → List Bytes × Int → Rt.M (ForInStep (List Bytes × Int)) :=
  fun x __s =>
        have res := __s.fst;
        have i := __s.snd;
        if (!decide (i < Rt.len args)) = true then pure (ForInStep.done (res, i))
        else do
          let currArg ← Rt.idx args i
          have i : Int := i + 1
          let __s ← forIn (List.range (Rt.len args + 1).toNat) (i, currArg) (saInner args maxLen)
          have i : Int := __s.fst
          have currArg : Bytes := __s.snd
          have __do_jp : Bool → Rt.M (ForInStep (List Bytes × Int)) := fun t5 =>
            have __do_jp := fun __r =>
              have res := res ++ [currArg];
              pure (ForInStep.yield (res, i));
            if t5 = true then do
              let __r ← throw Rt.Panic.fuel
              __do_jp __r
            else __do_jp ()
          if decide (i < Rt.len args) = true then do
              let t4 ← Rt.idx args i
              let t5 ← pure (decide (Rt.len currArg + Rt.len t4 + 1 < maxLen))
              __do_jp t5
            else do
              let t5 ← pure false
              __do_jp t5

theorem splitArgs_unfold (args : List Bytes) (maxLen : Int) : Gen.splitArgs args maxLen =
  (do
  let __s ← forIn (List.range (Rt.len args + 1).toNat) (([] : List Bytes), (0 : Int)) (saOuter args maxLen)
  have res : List Bytes := __s.fst
  have i : Int := __s.snd
  have __do_jp : Unit → Rt.M (List Bytes) := fun __r => pure res
  if decide (i < Rt.len args) = true then do
      let __r ← throw Rt.Panic.fuel
      __do_jp __r
    else __do_jp ()) := rfl

theorem saInner_end (args : List Bytes) (maxLen : Int) (x : Nat) (i : Nat) (c : Bytes) (h : ¬ i < args.length) :
    saInner args maxLen x ((i : Int), c) = .ok (.done ((i : Int), c)) := by
  have ht : ¬ ((i : Int) < (args.length : Int)) := by omega
  simp only [saInner, Rt.len, ht, decide_false, Bool.false_eq_true, if_false]
  rfl

theorem saInner_stop (args : List Bytes) (maxLen : Int) (x : Nat) (i : Nat) (c : Bytes) (h : i < args.length)
    (hc : ¬ ((c.length : Int) + (args[i].length : Int) + 1 < maxLen)) :
    saInner args maxLen x ((i : Int), c) = .ok (.done ((i : Int), c)) := by
  have ht : ((i : Int) < (args.length : Int)) := by omega
  simp only [saInner, Rt.len, ht, decide_true, if_true, idx_ok args i h, bind, Except.bind, pure, Except.pure, hc, decide_false]
  rfl

theorem saInner_step (args : List Bytes) (maxLen : Int) (x : Nat) (i : Nat) (c : Bytes) (h : i < args.length)
    (hc : ((c.length : Int) + (args[i].length : Int) + 1 < maxLen)) :
    saInner args maxLen x ((i : Int), c) = .ok (.yield (((i + 1 : Nat) : Int), c ++ [SP] ++ args[i])) := by
  have ht : ((i : Int) < (args.length : Int)) := by omega
  simp only [saInner, Rt.len, ht, decide_true, if_true, idx_ok args i h, bind, Except.bind, pure, Except.pure, hc]
  simp [SP]

theorem saInnerLoop (args : List Bytes) (maxLen : Int) (l : List Nat) (i : Nat) (c : Bytes)
    (hi : i ≤ args.length) (hl : args.length - i ≤ l.length) :
    ∃ (i' : Nat) (c' : Bytes), forIn l ((i : Int), c) (saInner args maxLen) = .ok ((i' : Int), c') ∧
      i ≤ i' ∧ i' ≤ args.length ∧
      (∀ h : i' < args.length, ¬ ((c'.length : Int) + (args[i'].length : Int) + 1 < maxLen)) ∧
      splitArgsAux maxLen (some c) (args.drop i) = c' :: splitArgsAux maxLen none (args.drop i') := by
  induction l generalizing i c with
  | nil =>
    have : ¬ i < args.length := by simp only [List.length_nil] at hl; omega
    refine ⟨i, c, rfl, Nat.le_refl _, hi, fun h => absurd h this, ?_⟩
    rw [List.drop_of_length_le (by omega)]; rfl
  | cons x l ih =>
    by_cases h : i < args.length
    · by_cases hc : ((c.length : Int) + (args[i].length : Int) + 1 < maxLen)
      · obtain ⟨i', c', h1, h2, h3, h4, h5⟩ := ih (i + 1) (c ++ [SP] ++ args[i]) (by omega)
          (by simp only [List.length_cons] at hl; omega)
        refine ⟨i', c', ?_, by omega, h3, h4, ?_⟩
        · rw [List.forIn_cons, saInner_step args maxLen x i c h hc]; exact h1
        · rw [← h5, List.drop_eq_getElem_cons h]
          simp only [splitArgsAux, hc, if_true]
      · refine ⟨i, c, ?_, Nat.le_refl _, hi, fun _ => hc, ?_⟩
        · rw [List.forIn_cons, saInner_stop args maxLen x i c h hc]; rfl
        · rw [List.drop_eq_getElem_cons h]
          simp only [splitArgsAux, hc, if_false]
    · refine ⟨i, c, ?_, Nat.le_refl _, hi, fun h' => absurd h' h, ?_⟩
      · rw [List.forIn_cons, saInner_end args maxLen x i c h]; rfl
      · rw [List.drop_of_length_le (by omega)]; rfl

theorem saOuter_end (args : List Bytes) (maxLen : Int) (x : Nat) (i : Nat) (res : List Bytes) (h : ¬ i < args.length) :
    saOuter args maxLen x (res, (i : Int)) = .ok (.done (res, (i : Int))) := by
  have ht : ¬ ((i : Int) < (args.length : Int)) := by omega
  simp only [saOuter, Rt.len, ht, decide_false, Bool.not_false, if_true]
  rfl

theorem saOuter_step (args : List Bytes) (maxLen : Int) (x : Nat) (i : Nat) (res : List Bytes) (h : i < args.length) :
    ∃ (i' : Nat) (c' : Bytes), saOuter args maxLen x (res, (i : Int)) = .ok (.yield (res ++ [c'], (i' : Int))) ∧
      i < i' ∧ i' ≤ args.length ∧
      splitArgsAux maxLen none (args.drop i) = c' :: splitArgsAux maxLen none (args.drop i') := by
  obtain ⟨i', c', h1, h2, h3, h4, h5⟩ := saInnerLoop args maxLen (List.range (Rt.len args + 1).toNat) (i + 1) args[i]
    (by omega) (by simp [Rt.len]; omega)
  refine ⟨i', c', ?_, by omega, h3, ?_⟩
  · have ht : ((i : Int) < (args.length : Int)) := by omega
    have e : ((i : Int) + 1) = ((i + 1 : Nat) : Int) := by omega
    simp only [saOuter, idx_ok args i h, bind, Except.bind]
    rw [e, h1]
    simp only [Rt.len, ht, decide_true, Bool.not_true, Bool.false_eq_true, if_false]
    by_cases h6 : i' < args.length
    · have ht' : ((i' : Int) < (args.length : Int)) := by omega
      simp only [ht', decide_true, if_true, idx_ok args i' h6, pure, Except.pure, h4 h6, decide_false, Bool.false_eq_true, if_false]
    · have ht' : ¬ ((i' : Int) < (args.length : Int)) := by omega
      simp only [ht', decide_false, Bool.false_eq_true, if_false, pure, Except.pure]
  · rw [← h5, List.drop_eq_getElem_cons h]; rfl

theorem saOuterLoop (args : List Bytes) (maxLen : Int) (l : List Nat) (i : Nat) (res : List Bytes)
    (hi : i ≤ args.length) (hl : args.length - i ≤ l.length) :
    forIn l (res, (i : Int)) (saOuter args maxLen) =
      .ok (res ++ splitArgsAux maxLen none (args.drop i), (args.length : Int)) := by
  induction l generalizing i res with
  | nil =>
    have : i = args.length := by simp only [List.length_nil] at hl; omega
    subst this
    rw [List.drop_of_length_le (Nat.le_refl _)]
    simp only [splitArgsAux, List.append_nil]
    rfl
  | cons x l ih =>
    by_cases h : i < args.length
    · obtain ⟨i', c', h1, h2, h3, h4⟩ := saOuter_step args maxLen x i res h
      rw [List.forIn_cons, h1]
      show forIn l (res ++ [c'], (i' : Int)) (saOuter args maxLen) = _
      rw [ih i' (res ++ [c']) h3 (by simp only [List.length_cons] at hl; omega), h4]
      simp
    · have : i = args.length := by omega
      subst this
      rw [List.forIn_cons, saOuter_end args maxLen x _ res h, List.drop_of_length_le (Nat.le_refl _)]
      simp only [splitArgsAux, List.append_nil]
      rfl

/-- [C08,C19] `splitArgs` as generated from commands.go: no panic, both loops end within their fuel, result = model -/
theorem gen_splitArgs (args : List Bytes) (maxLen : Int) : Gen.splitArgs args maxLen = .ok (Go.splitArgs args maxLen) := by
  rw [splitArgs_unfold]
  have := saOuterLoop args maxLen (List.range (Rt.len args + 1).toNat) 0 [] (Nat.zero_le _) (by simp [Rt.len])
  simp only [Int.natCast_zero] at this
  rw [this]
  simp only [bind, Except.bind, Rt.len, Int.lt_irrefl, decide_false, Bool.false_eq_true, if_false]
  simp [Go.splitArgs]
  rfl
end GenCheck
