import Goirc.GenCheck
import Goirc.GenCheck.Small
import Goirc.GenCheck.ParseLemmas
/-!
# Generated = model: `parseUserHost`, `ParseLine`
The central obligation: the parser as generated from line.go - with every `s[i]`, `s[i:j]`, `a[i] = v` a checked
operation - never panics on any byte string and computes exactly the readable model `Go.parseLine` that
`Props.C01.parse_render` (round trip) and `Props.C02` are stated about.

Plan of the proof: `Gen.ParseLine` is cut into its blocks (`parseLineK`: tag section; `tagBodyK`: body of the loop over
`strings.Split(rawTags, ";")`; `sourceK`: source section; `restK`: verb and arguments; `ctcpK`: the CTCP block), each a
do-block with the same text as the generated code.  `ParseLine_eq_K : Gen.ParseLine ext s = parseLineK ext s` holds by
`rfl` (so it fails when the generated code changes), and each block is proved equal to the model function of the same
stage (`parseTags`/`addTag`, `parseSource`/`withSource`, `parseRest`, `ctcpRewrite`).  The bridge lemmas between the
runtime prelude `Go.Rt` and the model's primitives are in `Goirc.GenCheck.ParseLemmas`.
-/
namespace GenCheck
open Go

section Helpers
open Gen ParseLemmas
set_option linter.unusedVariables false

/-- the CTCP block of `ParseLine` up to `return line` -/
def ctcpK (ext : UnicodeExt) (line : Gen.Line) : Rt.M (Option Gen.Line) := do
  let mut line := line
  let t17 ←
    if (line.Cmd == Gen.PRIVMSG || line.Cmd == Gen.NOTICE) && decide (Rt.len line.Args > 1) then do
      let t16 ← Rt.idx line.Args 1
      pure (decide (Rt.len t16 > 2))
    else pure false
  let t19 ←
    if t17 then do
      let t18 ← Rt.idx line.Args 1
      pure (hasPrefix t18 [1]) -- "\001"
    else pure false
  let t21 ←
    if t19 then do
      let t20 ← Rt.idx line.Args 1
      pure (hasSuffix t20 [1]) -- "\001"
    else pure false
  if t21 then
    let t22 ← Rt.idx line.Args 1
    let mut t : List Bytes := Rt.splitN (Rt.trim t22 [1]) [32] 2 -- "\001", " "
    if decide (Rt.len t > 1) then
      let t23 ← Rt.idx t 1
      let t24 ← Rt.setIdx line.Args 1 t23
      line := { line with Args := t24 }
    let t25 ← Rt.idx t 0
    let mut c : Bytes := toUpper ext t25
    if c == Gen.ACTION && line.Cmd == Gen.PRIVMSG then
      line := { line with Cmd := c }
    else
      if line.Cmd == Gen.PRIVMSG then
        line := { line with Cmd := Gen.CTCP }
      else
        line := { line with Cmd := Gen.CTCPREPLY }
      line := { line with Args := [c] ++ line.Args }
  return some line

def restK (ext : UnicodeExt) (s : Bytes) (line : Gen.Line) : Rt.M (Option Gen.Line) := do
  let mut line := line
  let mut args : List Bytes := Rt.splitN s [32, 58] 2 -- " :"
  if decide (Rt.len args > 1) then
    let t11 ← Rt.idx args 0
    let t12 ← Rt.idx args 1
    args := fields t11 ++ [t12]
  else
    let t13 ← Rt.idx args 0
    args := fields t13
  if Rt.len args == 0 then
    return none
  let t14 ← Rt.idx args 0
  line := { line with Cmd := toUpper ext t14 }
  if decide (Rt.len args > 1) then
    let t15 ← Rt.sliceFrom args 1
    line := { line with Args := t15 }
  ctcpK ext line

def sourceK (ext : UnicodeExt) (s : Bytes) (line : Gen.Line) : Rt.M (Option Gen.Line) := do
  let mut s := s
  let mut line := line
  if s == [] then -- ""
    return none
  let t8 ← Rt.idx s 0
  if t8 == 58 then -- ':'
    let mut idx : Int := Rt.index s [32] -- " "
    if idx != -1 then
      let t9 ← Rt.slice s 1 idx
      let t10 ← Rt.sliceFrom s (idx + 1)
      line := { line with Src := t9 }
      s := t10
    else
      return none
    line := { line with Host := line.Src }
    let mut (n, i, h, ok) ← parseUserHost line.Src
    if ok then
      line := { line with Nick := n }
      line := { line with Ident := i }
      line := { line with Host := h }
  restK ext s line

def tagBodyK (tag : Bytes) (line : Gen.Line) : Rt.M (ForInStep Gen.Line) := do
  let mut line := line
  if tag == [] then -- ""
    return ForInStep.yield line
  let mut pair : List Bytes := Rt.splitN (Rt.replace tagsReplacer tag) [61] 2 -- "="
  if decide (Rt.len pair < 2) then
    let t4 ← Rt.mapSet line.Tags tag [] -- ""
    line := { line with Tags := t4 }
  else
    let t5 ← Rt.idx pair 0
    let t6 ← Rt.idx pair 1
    let t7 ← Rt.mapSet line.Tags t5 t6
    line := { line with Tags := t7 }
  return ForInStep.yield line

def parseLineK (ext : UnicodeExt) (s : Bytes) : Rt.M (Option Gen.Line) := do
  let mut s := s
  let mut line : Gen.Line := { Raw := s }
  if s == [] then -- ""
    return none
  let t1 ← Rt.idx s 0
  if t1 == 64 then -- '@'
    let mut rawTags : Bytes := []
    line := { line with Tags := some [] }
    let mut idx : Int := Rt.index s [32] -- " "
    if idx != -1 then
      let t2 ← Rt.slice s 1 idx
      let t3 ← Rt.sliceFrom s (idx + 1)
      rawTags := t2
      s := t3
    else
      return none
    line ← forIn (Rt.split rawTags [59]) line (fun tag l => tagBodyK tag l)
  sourceK ext s line

theorem ParseLine_eq_K (ext : UnicodeExt) (s : Bytes) : Gen.ParseLine ext s = parseLineK ext s := rfl

theorem parseUserHost_eq (uh : Bytes) :
    Gen.parseUserHost uh = .ok (match Go.parseUserHost uh with
      | some (n, i, h) => (n, i, h, true)
      | none => ([], [], [], false)) := by
  unfold Gen.parseUserHost Go.parseUserHost
  simp only [rt_index_single]
  rcases hn : indexByte (trimSpace uh) 33 with _ | nidx <;> rcases hu : indexByte (trimSpace uh) 64 with _ | uidx
  · simp
  · simp
  · simp
  · by_cases hlt : uidx < nidx
    · simp [hlt]
    · obtain ⟨hn1, hn2⟩ := LineGo.indexByte_spec _ _ _ hn
      obtain ⟨hu1, hu2⟩ := LineGo.indexByte_spec _ _ _ hu
      have hne : nidx ≠ uidx := by
        intro e; subst e; rw [hn2] at hu2; exact absurd hu2 (by decide)
      have e1 : ((nidx : Int) + 1) = ((nidx + 1 : Nat) : Int) := by omega
      have e2 : ((uidx : Int) + 1) = ((uidx + 1 : Nat) : Int) := by omega
      have c1 : ((uidx : Int) == -1) = false := by simp
      have c2 : ((nidx : Int) == -1) = false := by simp
      have c3 : decide ((uidx : Int) < (nidx : Int)) = false := by simp; omega
      simp only [c1, c2, c3, e1, e2, sliceTo_nat (trimSpace uh) nidx (by omega), slice_nat (trimSpace uh) (nidx + 1) uidx (by omega) (by omega),
        sliceFrom_nat (trimSpace uh) (uidx + 1) (by omega), hlt]
      simp

theorem ctcpK_eq (ext : UnicodeExt) (line : Gen.Line) :
    (ctcpK ext line).map (Option.map toModel) = .ok (some (ctcpRewrite ext (toModel line))) := by
  obtain ⟨tags, nick, ident, host, src, cmd, raw, args⟩ := line
  unfold ctcpK ctcpRewrite ctcpCmdArgs toModel
  simp only [PRIVMSG_eq, NOTICE_eq, ACTION_eq, CTCP_eq, CTCPREPLY_eq]
  by_cases h1 : (cmd == Go.PRIVMSG || cmd == Go.NOTICE) = true
  · simp only [h1]
    rcases args with _ | ⟨a0, _ | ⟨a1, more⟩⟩
    · simp [Rt.len]
    · simp [Rt.len]
    · have hlen : decide (Rt.len (a0 :: a1 :: more) > 1) = true := by simp [Rt.len]; omega
      simp only [hlen, Bool.and_true, if_true, idx_cons_one, ok_bind, pure_eq_ok]
      by_cases h2 : a1.length > 2
      · by_cases h3 : hasPrefix a1 [1] = true
        · by_cases h4 : hasSuffix a1 [1] = true
          · have h2' : decide (Rt.len a1 > 2) = true := by simp [Rt.len]; omega
            simp only [h2', h2, h3, h4, rt_splitN2, rt_trim_single]
            obtain ⟨t0, o, hc⟩ : ∃ t0 o, cut (trimByte 1 a1) [32] = (t0, o) := ⟨_, _, rfl⟩
            rcases o with _ | t
            · by_cases hp : cmd = Go.PRIVMSG <;> by_cases ha : toUpper ext t0 = Go.ACTION <;>
                simp [hc, Rt.len, hp, ha]
            · by_cases hp : cmd = Go.PRIVMSG <;> by_cases ha : toUpper ext t0 = Go.ACTION <;>
                simp [hc, Rt.len, setIdx_cons_one, hp, ha]
          · have h2' : decide (Rt.len a1 > 2) = true := by simp [Rt.len]; omega
            simp [h2', h2, h3, h4]
        · have h2' : decide (Rt.len a1 > 2) = true := by simp [Rt.len]; omega
          simp [h2', h2, h3]
      · have h2' : decide (Rt.len a1 > 2) = false := by simp [Rt.len]; omega
        simp [h2', h2]
  · simp [h1]

theorem restK_eq (ext : UnicodeExt) (s : Bytes) (line : Gen.Line) (hargs : line.Args = []) :
    (restK ext s line).map (Option.map toModel) = .ok (parseRest ext (toModel line) s) := by
  unfold restK parseRest restArgs
  simp only [rt_splitN2]
  obtain ⟨a, o, hc⟩ : ∃ a o, cut s [32, 58] = (a, o) := ⟨_, _, rfl⟩
  have key : ∀ args : List Bytes,
      Except.map (Option.map toModel)
        (if (Rt.len args == 0) = true then pure none
          else do
            let t14 ← Rt.idx args 0
            if decide (Rt.len args > 1) = true then do
                let t15 ← Rt.sliceFrom args 1
                ctcpK ext
                    { Tags := line.Tags, Nick := line.Nick, Ident := line.Ident, Host := line.Host, Src := line.Src,
                      Cmd := toUpper ext t14, Raw := line.Raw, Args := t15 }
              else
                ctcpK ext
                  { Tags := line.Tags, Nick := line.Nick, Ident := line.Ident, Host := line.Host, Src := line.Src,
                    Cmd := toUpper ext t14, Raw := line.Raw, Args := line.Args }) =
      Except.ok (match args with
        | [] => none
        | c :: rest => some (ctcpRewrite ext { toModel line with cmd := toUpper ext c, args := rest })) := by
    intro args
    rcases args with _ | ⟨c, _ | ⟨d, rest⟩⟩
    · rfl
    · have hl1 : decide (Rt.len [c] > 1) = false := by simp [Rt.len]
      have hl0 : (Rt.len [c] == 0) = false := by simp [Rt.len]
      simp only [hl0, hl1, idx_cons_zero, ok_bind, hargs]
      exact ctcpK_eq ext _
    · have hl1 : decide (Rt.len (c :: d :: rest) > 1) = true := by simp [Rt.len]; omega
      have hl0 : (Rt.len (c :: d :: rest) == 0) = false := by simp [Rt.len]; omega
      simp only [hl0, hl1, idx_cons_zero, ok_bind, sliceFrom_cons_one]
      exact ctcpK_eq ext _
  rcases o with _ | t
  · have hl : decide (Rt.len [a] > 1) = false := by simp [Rt.len]
    simp only [hc, hl, idx_cons_zero, ok_bind]
    exact key _
  · have hl : decide (Rt.len [a, t] > 1) = true := by simp [Rt.len]
    simp only [hc, hl, idx_cons_zero, idx_cons_one, ok_bind]
    exact key _

theorem sourceK_eq (ext : UnicodeExt) (s : Bytes) (line : Gen.Line) (hargs : line.Args = []) :
    (sourceK ext s line).map (Option.map toModel) = .ok (parseSource ext (toModel line) s) := by
  unfold sourceK parseSource
  rcases s with _ | ⟨x, s⟩
  · rfl
  · have hne : ((x :: s) == []) = false := by simp
    simp only [hne, idx_cons_zero, ok_bind]
    by_cases hx : x = 58
    · subst hx
      simp only [rt_index_single]
      rcases hi : indexByte (58 :: s) 32 with _ | i
      · rfl
      · have h1 := LineGo.indexByte_lt _ _ _ hi
        have h2 := LineGo.indexByte_cons_pos _ _ _ _ (by decide) hi
        have c1 : ((i : Int) != -1) = true := by simp
        have e1 : ((i : Int) + 1) = ((i + 1 : Nat) : Int) := by omega
        have e0 : (1 : Int) = ((1 : Nat) : Int) := rfl
        simp only [c1, e1]
        rw [e0, slice_nat (58 :: s) 1 i h2 (Nat.le_of_lt h1), sliceFrom_nat (58 :: s) (i + 1) (by omega)]
        simp only [ok_bind, parseUserHost_eq, withSource]
        rcases Go.parseUserHost (List.drop 1 (List.take i (58 :: s))) with _ | ⟨n, id, h⟩
        · exact restK_eq ext _ _ hargs
        · exact restK_eq ext _ _ hargs
    · have : (x == 58) = false := by simp [hx]
      simp only [this, Bool.false_eq_true, if_false]
      rw [restK_eq ext _ _ hargs]
      congr 1
      split
      · rename_i heq; simp at heq
      · rename_i heq; simp at heq; exact absurd heq.1 hx
      · rfl

theorem tagBodyK_eq (tag : Bytes) (line : Gen.Line) (m : List (Bytes × Bytes)) (hm : line.Tags = some m) :
    tagBodyK tag line = .ok (ForInStep.yield { line with Tags := some (addTag m tag) }) := by
  obtain ⟨tags, nick, ident, host, src, cmd, raw, args⟩ := line
  simp only at hm
  subst hm
  unfold tagBodyK addTag
  cases tag with
  | nil => rfl
  | cons b tag =>
    have hne : ((b :: tag) == []) = false := by simp
    simp only [hne, rt_replace_tags, rt_splitN2, List.isEmpty_cons, Bool.false_eq_true, if_false]
    rcases hc : cut (unescapeTag (b :: tag)) [61] with ⟨a, _ | v⟩
    · have hl : decide (Rt.len [a] < 2) = true := by simp [Rt.len]
      simp only [hl, if_true, Rt.mapSet, rt_mapInsert_eq, ok_bind, pure_eq_ok]
    · have hl : decide (Rt.len [a, v] < 2) = false := by simp [Rt.len]
      simp only [hl, Bool.false_eq_true, if_false, idx_cons_zero, idx_cons_one, Rt.mapSet, rt_mapInsert_eq, ok_bind, pure_eq_ok]

theorem tagLoop_eq (l : List Bytes) (line : Gen.Line) (m : List (Bytes × Bytes)) (hm : line.Tags = some m) :
    forIn l line (fun tag l => tagBodyK tag l) = (.ok { line with Tags := some (l.foldl addTag m) } : Rt.M Gen.Line) := by
  induction l generalizing line m with
  | nil => simp [← hm]
  | cons tag l ih =>
    rw [List.forIn_cons, tagBodyK_eq tag line m hm]
    simp only [ok_bind]
    rw [ih _ (addTag m tag) rfl]
    rfl

theorem parseLineK_eq (ext : UnicodeExt) (s : Bytes) :
    (parseLineK ext s).map (Option.map toModel) = .ok (Go.parseLine ext s) := by
  unfold parseLineK parseLine
  rcases s with _ | ⟨x, s⟩
  · rfl
  · have hne : ((x :: s) == []) = false := by simp
    simp only [hne, idx_cons_zero, ok_bind, Bool.false_eq_true, if_false]
    by_cases hx : x = 64
    · subst hx
      simp only [rt_index_single]
      rcases hi : indexByte (64 :: s) 32 with _ | i
      · rfl
      · have h1 := LineGo.indexByte_lt _ _ _ hi
        have h2 := LineGo.indexByte_cons_pos _ _ _ _ (by decide) hi
        have c1 : ((i : Int) != -1) = true := by simp
        have e1 : ((i : Int) + 1) = ((i + 1 : Nat) : Int) := by omega
        have e0 : (1 : Int) = ((1 : Nat) : Int) := rfl
        simp only [c1, e1]
        rw [e0, slice_nat (64 :: s) 1 i h2 (Nat.le_of_lt h1), sliceFrom_nat (64 :: s) (i + 1) (by omega)]
        simp only [ok_bind, rt_split_single]
        rw [tagLoop_eq _ _ [] rfl]
        simp only [ok_bind]
        exact sourceK_eq ext _ _ rfl
    · have : (x == 64) = false := by simp [hx]
      simp only [this, Bool.false_eq_true, if_false]
      rw [sourceK_eq ext _ _ rfl]
      congr 1
      split
      · rename_i heq; simp at heq
      · rename_i heq; simp at heq; exact absurd heq.1 hx
      · rfl

end Helpers

/-- [C01,C02] `parseUserHost` as generated from line.go never panics and is the model's -/
theorem gen_parseUserHost (uh : Bytes) :
    Gen.parseUserHost uh = .ok (match Go.parseUserHost uh with
      | some (n, i, h) => (n, i, h, true)
      | none => ([], [], [], false)) := by
  exact parseUserHost_eq uh

/-- [C01,C02] `ParseLine` as generated from line.go: for every byte string and every behaviour of ToUpper on
non-ASCII input, no index or slice expression panics and the result is the model's `parseLine` -/
theorem gen_ParseLine (ext : UnicodeExt) (s : Bytes) :
    (Gen.ParseLine ext s).map (Option.map toModel) = .ok (Go.parseLine ext s) := by
  rw [ParseLine_eq_K]
  exact parseLineK_eq ext s


/-- [C01,C02] corollary, stated outright: on no byte string and for no behaviour of ToUpper does the parser generated from
line.go reach an index, slice or nil-map panic (C02's first clause, about the code as it is now) -/
theorem gen_ParseLine_never_panics (ext : UnicodeExt) (s : Bytes) : ∃ r, Gen.ParseLine ext s = .ok r := by
  have h := gen_ParseLine ext s
  cases hr : Gen.ParseLine ext s with
  | ok r => exact ⟨r, rfl⟩
  | error e => rw [hr] at h; simp [Except.map] at h

/-- [C01,C02] the accessors generated from line.go never panic on what the generated parser returns (nor on any other line) -/
theorem gen_accessors_never_panic (l : Gen.Line) :
    (∃ t, Gen.Line_Text l = .ok t) ∧ (∃ p, Gen.Line_Public l = .ok p) ∧ (∃ t, Gen.Line_Target l = .ok t) :=
  ⟨⟨_, gen_Line_Text l⟩, ⟨_, gen_Line_Public l⟩, ⟨_, gen_Line_Target l⟩⟩

end GenCheck
