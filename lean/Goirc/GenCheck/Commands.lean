import Goirc.GenCheck
import Goirc.GenCheck.Small
import Goirc.GenCheck.Split
/-!
# Generated = model: the command methods of `*Conn` (client/commands.go)
go2lean renders the receiver as an explicit state (`Gen.Conn`: the configuration fields the methods read and the outgoing
queue `out`, a FIFO list); a method returns the new state. Each theorem says: for every state and every argument the
generated method returns no panic and appends to the queue exactly the lines the hand-written command model `Go.exec`
produces - the model `Props.C08` (no CR/LF, right verb) and `Props.C11Ext` (one line per piece) are stated about.
-/
namespace GenCheck
open Go

def toCfg (c : Gen.Config) : Go.CmdCfg := ⟨c.SplitLen, c.QuitMessage⟩

/-- the state after a command: the model's lines appended to the queue, nothing else changed -/
def queued (ext : UnicodeExt) (conn : Gen.Conn) (c : Go.Cmd) : Gen.Conn :=
  { conn with out := conn.out ++ Go.exec ext (toCfg conn.cfg) c }


set_option linter.unusedSimpArgs false

/-! ### helpers (untagged) -/

/-- `Raw` never panics and queues the line cut at the first CR or LF -/
theorem raw_ok (conn : Gen.Conn) (l : Bytes) :
    Gen.Conn_Raw conn l = .ok { conn with out := conn.out ++ [Go.cutNewLines l] } := by
  simp only [Gen.Conn_Raw, gen_cutNewLines, bind, Except.bind, pure, Except.pure]

/-- a `for s in xs do conn.Raw(..s..)` loop: every body queues one line, so the loop queues `xs.map h` -/
theorem rawLoop (h : Bytes → Bytes) (g : Bytes → Gen.Conn → Rt.M (ForInStep Gen.Conn))
    (hg : ∀ s c, g s c = .ok (.yield { c with out := c.out ++ [h s] }))
    (xs : List Bytes) (conn : Gen.Conn) :
    forIn xs conn g = .ok { conn with out := conn.out ++ xs.map h } := by
  induction xs generalizing conn with
  | nil => simp [pure, Except.pure]
  | cons x xs ih =>
    simp only [List.forIn_cons, hg, bind, Except.bind, ih, List.map_cons]
    simp

theorem V_PASS : V.PASS = Gen.PASS := by decide
theorem V_NICK : V.NICK = Gen.NICK := by decide
theorem V_USER : V.USER = Gen.USER := by decide
theorem V_JOIN : V.JOIN = Gen.JOIN := by decide
theorem V_PART : V.PART = Gen.PART := by decide
theorem V_KICK : V.KICK = Gen.KICK := by decide
theorem V_QUIT : V.QUIT = Gen.QUIT := by decide
theorem V_WHOIS : V.WHOIS = Gen.WHOIS := by decide
theorem V_WHO : V.WHO = Gen.WHO := by decide
theorem V_PRIVMSG : V.PRIVMSG = Gen.PRIVMSG := by decide
theorem V_NOTICE : V.NOTICE = Gen.NOTICE := by decide
theorem V_VERSION : V.VERSION = Gen.VERSION := by decide
theorem V_ACTION : V.ACTION = Gen.ACTION := by decide
theorem V_TOPIC : V.TOPIC = Gen.TOPIC := by decide
theorem V_MODE : V.MODE = Gen.MODE := by decide
theorem V_AWAY : V.AWAY = Gen.AWAY := by decide
theorem V_INVITE : V.INVITE = Gen.INVITE := by decide
theorem V_OPER : V.OPER = Gen.OPER := by decide
theorem V_VHOST : V.VHOST = Gen.VHOST := by decide
theorem V_PING : V.PING = Gen.PING := by decide
theorem V_PONG : V.PONG = Gen.PONG := by decide
theorem V_CAP : V.CAP = Gen.CAP := by decide
theorem V_AUTHENTICATE : V.AUTHENTICATE = Gen.AUTHENTICATE := by decide
theorem lit_user : lit " 12 * :" = [32, 49, 50, 32, 42, 32, 58] := by decide

/-- the simp set that unfolds one single-line method and the model's side -/
macro "cmd_simp" "[" ls:Lean.Parser.Tactic.simpLemma,* "]" : tactic =>
  `(tactic| simp [$ls,*, raw_ok, queued, toCfg, exec, rawArgs, optTrail, SP, lit_user, bind, Except.bind, pure, Except.pure,
      V_PASS, V_NICK, V_USER, V_JOIN, V_PART, V_KICK, V_QUIT, V_WHOIS, V_WHO, V_PRIVMSG, V_NOTICE, V_VERSION, V_ACTION,
      V_TOPIC, V_MODE, V_AWAY, V_INVITE, V_OPER, V_VHOST, V_PING, V_PONG, V_CAP, V_AUTHENTICATE])

/-! ### the obligations -/

/-- [C08,C09] `Conn.Raw` as generated from commands.go queues exactly the model's lines -/
theorem gen_Conn_Raw (ext : UnicodeExt) (conn : Gen.Conn) (l : Bytes) :
    Gen.Conn_Raw conn l = .ok (queued ext conn (.raw l)) := by
  simp [raw_ok, queued, exec, rawArgs]

/-- [C08,C18] `Conn.Pass` as generated from commands.go queues exactly the model's lines -/
theorem gen_Conn_Pass (ext : UnicodeExt) (conn : Gen.Conn) (p : Bytes) :
    Gen.Conn_Pass conn p = .ok (queued ext conn (.pass p)) := by
  cmd_simp [Gen.Conn_Pass]

/-- [C08,C17,C18] `Conn.Nick` as generated from commands.go queues exactly the model's lines -/
theorem gen_Conn_Nick (ext : UnicodeExt) (conn : Gen.Conn) (n : Bytes) :
    Gen.Conn_Nick conn n = .ok (queued ext conn (.nick n)) := by
  cmd_simp [Gen.Conn_Nick]

/-- [C08,C18] `Conn.User` as generated from commands.go queues exactly the model's lines -/
theorem gen_Conn_User (ext : UnicodeExt) (conn : Gen.Conn) (i n : Bytes) :
    Gen.Conn_User conn i n = .ok (queued ext conn (.user i n)) := by
  cmd_simp [Gen.Conn_User]

/-- [C08] `Conn.Join` as generated from commands.go queues exactly the model's lines -/
theorem gen_Conn_Join (ext : UnicodeExt) (conn : Gen.Conn) (ch : Bytes) (key : List Bytes) :
    Gen.Conn_Join conn ch key = .ok (queued ext conn (.join ch key)) := by
  cases key <;> cmd_simp [Gen.Conn_Join, Rt.len, idx_zero_cons]

/-- [C08] `Conn.Part` as generated from commands.go queues exactly the model's lines -/
theorem gen_Conn_Part (ext : UnicodeExt) (conn : Gen.Conn) (ch : Bytes) (m : List Bytes) :
    Gen.Conn_Part conn ch m = .ok (queued ext conn (.part ch m)) := by
  by_cases h : join [32] m = [] <;> cmd_simp [Gen.Conn_Part, h]

/-- [C08] `Conn.Kick` as generated from commands.go queues exactly the model's lines -/
theorem gen_Conn_Kick (ext : UnicodeExt) (conn : Gen.Conn) (ch n : Bytes) (m : List Bytes) :
    Gen.Conn_Kick conn ch n m = .ok (queued ext conn (.kick ch n m)) := by
  by_cases h : join [32] m = [] <;> cmd_simp [Gen.Conn_Kick, h]

/-- [C08] `Conn.Quit` as generated from commands.go queues exactly the model's lines -/
theorem gen_Conn_Quit (ext : UnicodeExt) (conn : Gen.Conn) (m : List Bytes) :
    Gen.Conn_Quit conn m = .ok (queued ext conn (.quit m)) := by
  by_cases h : join [32] m = [] <;> cmd_simp [Gen.Conn_Quit, h]

/-- [C08] `Conn.Whois` as generated from commands.go queues exactly the model's lines -/
theorem gen_Conn_Whois (ext : UnicodeExt) (conn : Gen.Conn) (n : Bytes) :
    Gen.Conn_Whois conn n = .ok (queued ext conn (.whois n)) := by
  cmd_simp [Gen.Conn_Whois]

/-- [C08] `Conn.Who` as generated from commands.go queues exactly the model's lines -/
theorem gen_Conn_Who (ext : UnicodeExt) (conn : Gen.Conn) (n : Bytes) :
    Gen.Conn_Who conn n = .ok (queued ext conn (.who n)) := by
  cmd_simp [Gen.Conn_Who]

/-- [C08,C11] `Conn.Privmsg` as generated from commands.go queues exactly the model's lines -/
theorem gen_Conn_Privmsg (ext : UnicodeExt) (conn : Gen.Conn) (t m : Bytes) :
    Gen.Conn_Privmsg conn t m = .ok (queued ext conn (.privmsg t m)) := by
  simp only [Gen.Conn_Privmsg, gen_splitMessage, bind, Except.bind]
  rw [rawLoop (fun s => Go.cutNewLines (Gen.PRIVMSG ++ [32] ++ t ++ [32, 58] ++ s))]
  · cmd_simp [List.map_map, Function.comp_def]
  · intro s c; simp only [raw_ok, pure, Except.pure]

/-- [C08,C11] `Conn.Notice` as generated from commands.go queues exactly the model's lines -/
theorem gen_Conn_Notice (ext : UnicodeExt) (conn : Gen.Conn) (t m : Bytes) :
    Gen.Conn_Notice conn t m = .ok (queued ext conn (.notice t m)) := by
  simp only [Gen.Conn_Notice, gen_splitMessage, bind, Except.bind]
  rw [rawLoop (fun s => Go.cutNewLines (Gen.NOTICE ++ [32] ++ t ++ [32, 58] ++ s))]
  · cmd_simp [List.map_map, Function.comp_def]
  · intro s c; simp only [raw_ok, pure, Except.pure]

/-- [C08] `Conn.Topic` as generated from commands.go queues exactly the model's lines -/
theorem gen_Conn_Topic (ext : UnicodeExt) (conn : Gen.Conn) (ch : Bytes) (tp : List Bytes) :
    Gen.Conn_Topic conn ch tp = .ok (queued ext conn (.topic ch tp)) := by
  by_cases h : join [32] tp = [] <;> cmd_simp [Gen.Conn_Topic, h]

/-- [C08] `Conn.Mode` as generated from commands.go queues exactly the model's lines -/
theorem gen_Conn_Mode (ext : UnicodeExt) (conn : Gen.Conn) (t : Bytes) (ms : List Bytes) :
    Gen.Conn_Mode conn t ms = .ok (queued ext conn (.mode t ms)) := by
  by_cases h : join [32] ms = [] <;> cmd_simp [Gen.Conn_Mode, h]

/-- [C08] `Conn.Away` as generated from commands.go queues exactly the model's lines -/
theorem gen_Conn_Away (ext : UnicodeExt) (conn : Gen.Conn) (m : List Bytes) :
    Gen.Conn_Away conn m = .ok (queued ext conn (.away m)) := by
  by_cases h : join [32] m = [] <;> cmd_simp [Gen.Conn_Away, h]

/-- [C08] `Conn.Invite` as generated from commands.go queues exactly the model's lines -/
theorem gen_Conn_Invite (ext : UnicodeExt) (conn : Gen.Conn) (n ch : Bytes) :
    Gen.Conn_Invite conn n ch = .ok (queued ext conn (.invite n ch)) := by
  cmd_simp [Gen.Conn_Invite]

/-- [C08] `Conn.Oper` as generated from commands.go queues exactly the model's lines -/
theorem gen_Conn_Oper (ext : UnicodeExt) (conn : Gen.Conn) (u p : Bytes) :
    Gen.Conn_Oper conn u p = .ok (queued ext conn (.oper u p)) := by
  cmd_simp [Gen.Conn_Oper]

/-- [C08] `Conn.VHost` as generated from commands.go queues exactly the model's lines -/
theorem gen_Conn_VHost (ext : UnicodeExt) (conn : Gen.Conn) (u p : Bytes) :
    Gen.Conn_VHost conn u p = .ok (queued ext conn (.vhost u p)) := by
  cmd_simp [Gen.Conn_VHost]

/-- [C08,C18] `Conn.Ping` as generated from commands.go queues exactly the model's lines -/
theorem gen_Conn_Ping (ext : UnicodeExt) (conn : Gen.Conn) (m : Bytes) :
    Gen.Conn_Ping conn m = .ok (queued ext conn (.ping m)) := by
  cmd_simp [Gen.Conn_Ping]

/-- [C08,C09,C18] `Conn.Pong` as generated from commands.go queues exactly the model's lines -/
theorem gen_Conn_Pong (ext : UnicodeExt) (conn : Gen.Conn) (m : Bytes) :
    Gen.Conn_Pong conn m = .ok (queued ext conn (.pong m)) := by
  cmd_simp [Gen.Conn_Pong]

/-- [C08,C19] `Conn.Cap` as generated from commands.go queues exactly the model's lines -/
theorem gen_Conn_Cap (ext : UnicodeExt) (conn : Gen.Conn) (sub : Bytes) (caps : List Bytes) :
    Gen.Conn_Cap conn sub caps = .ok (queued ext conn (.cap sub caps)) := by
  cases caps with
  | nil => cmd_simp [Gen.Conn_Cap, Rt.len]
  | cons a as =>
    have h0 : (Rt.len (a :: as) == 0) = false := by simp [Rt.len]; omega
    simp only [Gen.Conn_Cap, gen_splitArgs, h0, bind, Except.bind]
    rw [rawLoop (fun s => Go.cutNewLines (Gen.CAP ++ [32] ++ sub ++ [32, 58] ++ s))]
    · cmd_simp [List.map_map, Function.comp_def, Gen.defaultSplit, Rt.len]
    · intro s c; simp only [raw_ok, pure, Except.pure]

/-- [C08,C19] `Conn.Authenticate` as generated from commands.go queues exactly the model's lines -/
theorem gen_Conn_Authenticate (ext : UnicodeExt) (conn : Gen.Conn) (m : Bytes) :
    Gen.Conn_Authenticate conn m = .ok (queued ext conn (.authenticate m)) := by
  cmd_simp [Gen.Conn_Authenticate]

/-- [C08,C11] `Conn.Ctcp` as generated from commands.go queues exactly the model's lines (for every behaviour of ToUpper on non-ASCII input) -/
theorem gen_Conn_Ctcp (ext : UnicodeExt) (conn : Gen.Conn) (t c : Bytes) (arg : List Bytes) :
    Gen.Conn_Ctcp ext conn t c arg = .ok (queued ext conn (.ctcp t c arg)) := by
  simp only [Gen.Conn_Ctcp, gen_splitMessage, bind, Except.bind]
  rw [rawLoop (fun s => Go.cutNewLines (Gen.PRIVMSG ++ [32] ++ t ++ [32, 58, 1] ++ toUpper ext c
        ++ (if s == [] then [] else [32] ++ s) ++ [1]))]
  · cmd_simp [List.map_map, Function.comp_def]
  · intro s c; by_cases h : s = [] <;> simp [h, raw_ok, pure, Except.pure]

/-- [C08,C11] `Conn.CtcpReply` as generated from commands.go queues exactly the model's lines (for every behaviour of ToUpper on non-ASCII input) -/
theorem gen_Conn_CtcpReply (ext : UnicodeExt) (conn : Gen.Conn) (t c : Bytes) (arg : List Bytes) :
    Gen.Conn_CtcpReply ext conn t c arg = .ok (queued ext conn (.ctcpReply t c arg)) := by
  simp only [Gen.Conn_CtcpReply, gen_splitMessage, bind, Except.bind]
  rw [rawLoop (fun s => Go.cutNewLines (Gen.NOTICE ++ [32] ++ t ++ [32, 58, 1] ++ toUpper ext c
        ++ (if s == [] then [] else [32] ++ s) ++ [1]))]
  · cmd_simp [List.map_map, Function.comp_def]
  · intro s c; by_cases h : s = [] <;> simp [h, raw_ok, pure, Except.pure]

/-- [C08,C11] `Conn.Version` as generated from commands.go queues exactly the model's lines (for every behaviour of ToUpper on non-ASCII input) -/
theorem gen_Conn_Version (ext : UnicodeExt) (conn : Gen.Conn) (t : Bytes) :
    Gen.Conn_Version ext conn t = .ok (queued ext conn (.version t)) := by
  simp only [Gen.Conn_Version, gen_Conn_Ctcp ext, bind, Except.bind, pure, Except.pure]
  cmd_simp [join]

/-- [C08,C11] `Conn.Action` as generated from commands.go queues exactly the model's lines (for every behaviour of ToUpper on non-ASCII input) -/
theorem gen_Conn_Action (ext : UnicodeExt) (conn : Gen.Conn) (t m : Bytes) :
    Gen.Conn_Action ext conn t m = .ok (queued ext conn (.action t m)) := by
  simp only [Gen.Conn_Action, gen_Conn_Ctcp ext, bind, Except.bind, pure, Except.pure]
  cmd_simp [join]

end GenCheck
