import Goirc.GenCheck
import Goirc.GenCheck.Commands
import Goirc.Model.Client
/-!
# Generated = model: the simple built-in handlers (`h_PING`, `h_REGISTER`, `h_410`, `h_903`, `h_904`, `h_908`, `h_CTCP`, `handleCapNak`) and `Line.argslen`
The client model (`Goirc/Model/Client.lean`) gives a handler as `Client → Line → HR` (new client, queued lines, `panicked`).
The generated handler threads the generated connection state and returns `.error` where Go panics. `toClient` reads a model
client off a generated state (the configuration fields the handlers use; `cfg.Me` is never nil in the generated code, which is
the convention go2lean states in its header). `agrees` says: the generated handler fails exactly when the model handler
panics, and otherwise queues exactly the model's lines and changes nothing else.
-/
namespace GenCheck
open Go Go.Client

/-- the model client that a generated connection state stands for -/
def toClient (ext : UnicodeExt) (newNick : Bytes → Bytes) (conn : Gen.Conn) : Client :=
  { cfg := { meNil := false, meNick := conn.cfg.Me.Nick, meIdent := conn.cfg.Me.Ident, meHost := conn.cfg.Me.Host, meName := conn.cfg.Me.Name,
             pass := conn.cfg.Pass, capNeg := conn.cfg.EnableCapabilityNegotiation, version := conn.cfg.Version,
             cmd := ⟨conn.cfg.SplitLen, conn.cfg.QuitMessage⟩ },
    newNick := newNick, ext := ext }

/-- result of a generated handler vs result of the model handler -/
def agrees (conn : Gen.Conn) (got : Rt.M Gen.Conn) (want : HR) : Prop :=
  match got with
  | .ok c' => want.panicked = false ∧ c' = { conn with out := conn.out ++ want.out }
  | .error _ => want.panicked = true

/-! ### bridge lemmas -/

theorem idx_nat {α : Type} (xs : List α) (i : Nat) :
    Rt.idx xs (i : Int) = match xs[i]? with | some v => .ok v | none => .error (.index i xs.length) := by
  simp only [Rt.idx, Int.natCast_nonneg, if_true, Int.toNat_natCast]
  cases xs[i]? <;> rfl

theorem idx0 {α : Type} (xs : List α) :
    Rt.idx xs 0 = match xs[0]? with | some v => .ok v | none => .error (.index 0 xs.length) := idx_nat xs 0
theorem idx1 {α : Type} (xs : List α) :
    Rt.idx xs 1 = match xs[1]? with | some v => .ok v | none => .error (.index 1 xs.length) := idx_nat xs 1
theorem idx2 {α : Type} (xs : List α) :
    Rt.idx xs 2 = match xs[2]? with | some v => .ok v | none => .error (.index 2 xs.length) := idx_nat xs 2

theorem C_VERSION : Go.Client.VERSION = Gen.VERSION := by decide
theorem C_PING : Go.Client.PINGv = Gen.PING := by decide
theorem PING_ne_VERSION : ¬ Gen.PING = Gen.VERSION := by decide
theorem C_CAP_LS : Go.Client.CAP_LS = Gen.CAP_LS := by decide
theorem C_CAP_END : Go.Client.CAP_END = Gen.CAP_END := by decide

theorem toClient_cmd (ext : UnicodeExt) (nn : Bytes → Bytes) (conn : Gen.Conn) :
    (toClient ext nn conn).cfg.cmd = toCfg conn.cfg := rfl

theorem emit_toClient (ext : UnicodeExt) (nn : Bytes → Bytes) (conn : Gen.Conn) (c : Cmd) :
    emit (toClient ext nn conn) c = exec ext (toCfg conn.cfg) c := rfl

theorem agrees_queued (ext : UnicodeExt) (conn : Gen.Conn) (c : Cmd) (cl : Client) :
    agrees conn (.ok (queued ext conn c)) { c := cl, out := exec ext (toCfg conn.cfg) c } := by
  simp [agrees, queued]

/-- [C02,C16] `Line.argslen` as generated from line.go: never panics, true exactly when there are more than `minlen` arguments -/
theorem gen_Line_argslen (l : Gen.Line) (minlen : Int) : Gen.Line_argslen l minlen = .ok (decide ((l.Args.length : Int) > minlen)) := by
  simp only [Gen.Line_argslen, Rt.len]
  by_cases h : (l.Args.length : Int) ≤ minlen
  · have h' : ¬ ((l.Args.length : Int) > minlen) := by omega
    simp [h, h']; rfl
  · have h' : (l.Args.length : Int) > minlen := by omega
    simp [h, h']; rfl

/-- [C02,C09,C18] `h_PING` as generated from handlers.go: panics exactly on a PING without parameters, otherwise queues `PONG :<first parameter>` -/
theorem gen_Conn_h_PING (ext : UnicodeExt) (nn : Bytes → Bytes) (conn : Gen.Conn) (l : Gen.Line) :
    agrees conn (Gen.Conn_h_PING conn l) (h_PING (toClient ext nn conn) (toModel l)) := by
  simp only [Gen.Conn_h_PING, h_PING, arg, toModel, idx0]
  cases h : l.Args[0]? with
  | none => simp [agrees, bind, Except.bind]
  | some a =>
    simp only [bind, Except.bind, gen_Conn_Pong ext, emit_toClient]
    exact agrees_queued ext conn _ _

/-- [C18,C20] `h_REGISTER` as generated from handlers.go queues CAP LS (if negotiating), PASS (if a password is set), NICK, USER - the model's lines, in that order -/
theorem gen_Conn_h_REGISTER (ext : UnicodeExt) (nn : Bytes → Bytes) (conn : Gen.Conn) (l : Gen.Line) :
    agrees conn (Gen.Conn_h_REGISTER conn l) (h_REGISTER (toClient ext nn conn) (toModel l)) := by
  simp only [Gen.Conn_h_REGISTER, h_REGISTER, emit_toClient, C_CAP_LS]
  simp only [toClient]
  by_cases hc : conn.cfg.EnableCapabilityNegotiation = true <;> by_cases hp : conn.cfg.Pass = [] <;>
    simp [hc, hp, agrees, bind, Except.bind, gen_Conn_Cap ext, gen_Conn_Pass ext, gen_Conn_Nick ext,
      gen_Conn_User ext, queued, List.append_assoc]

/-- [C02,C19] `h_410` as generated from handlers.go: panics exactly on a line with fewer than two parameters, queues nothing -/
theorem gen_Conn_h_410 (ext : UnicodeExt) (nn : Bytes → Bytes) (conn : Gen.Conn) (l : Gen.Line) :
    agrees conn (Gen.Conn_h_410 conn l) (h_410 (toClient ext nn conn) (toModel l)) := by
  simp only [Gen.Conn_h_410, h_410, arg, toModel, idx1]
  cases h : l.Args[1]? with
  | none => simp [agrees, bind, Except.bind]
  | some a => simp [agrees, bind, Except.bind, pure, Except.pure]

/-- [C19] `h_903` as generated from handlers.go ends the negotiation -/
theorem gen_Conn_h_903 (ext : UnicodeExt) (nn : Bytes → Bytes) (conn : Gen.Conn) (l : Gen.Line) :
    agrees conn (Gen.Conn_h_903 conn l) (h_903 (toClient ext nn conn) (toModel l)) := by
  simp only [Gen.Conn_h_903, h_903, gen_Conn_Cap ext, emit_toClient, C_CAP_END]
  exact agrees_queued ext conn _ _

/-- [C19] `handleCapNak` as generated from handlers.go: CAP END, and the client - the capabilities it holds included - is left as it was -/
theorem gen_Conn_handleCapNak (ext : UnicodeExt) (nn : Bytes → Bytes) (conn : Gen.Conn) (caps : List Bytes) :
    agrees conn (Gen.Conn_handleCapNak conn caps) (handleCapNak (toClient ext nn conn) caps) := by
  simp only [Gen.Conn_handleCapNak, handleCapNak, gen_Conn_Cap ext, emit_toClient, C_CAP_END]
  exact agrees_queued ext conn _ _

/-- [C19] `h_904` as generated from handlers.go ends the negotiation -/
theorem gen_Conn_h_904 (ext : UnicodeExt) (nn : Bytes → Bytes) (conn : Gen.Conn) (l : Gen.Line) :
    agrees conn (Gen.Conn_h_904 conn l) (h_904 (toClient ext nn conn) (toModel l)) := by
  simp only [Gen.Conn_h_904, h_904, gen_Conn_Cap ext, emit_toClient, C_CAP_END]
  exact agrees_queued ext conn _ _

/-- [C02,C19] `h_908` as generated from handlers.go: panics exactly on a line with fewer than two parameters, otherwise ends the negotiation -/
theorem gen_Conn_h_908 (ext : UnicodeExt) (nn : Bytes → Bytes) (conn : Gen.Conn) (l : Gen.Line) :
    agrees conn (Gen.Conn_h_908 conn l) (h_908 (toClient ext nn conn) (toModel l)) := by
  simp only [Gen.Conn_h_908, h_908, arg, toModel, idx1]
  cases h : l.Args[1]? with
  | none => simp [agrees, bind, Except.bind]
  | some a =>
    simp only [bind, Except.bind, gen_Conn_Cap ext, emit_toClient, C_CAP_END]
    exact agrees_queued ext conn _ _

/-- [C02,C08,C11] `h_CTCP` as generated from handlers.go: VERSION is answered with the configured version, PING with its third parameter (when there is one), anything else with nothing; panics exactly on a CTCP event without parameters -/
theorem gen_Conn_h_CTCP (ext : UnicodeExt) (nn : Bytes → Bytes) (conn : Gen.Conn) (l : Gen.Line) :
    agrees conn (Gen.Conn_h_CTCP ext conn l) (h_CTCP (toClient ext nn conn) (toModel l)) := by
  simp only [Gen.Conn_h_CTCP, h_CTCP, arg, idx0, idx2, gen_Line_argslen, emit_toClient, C_VERSION, C_PING]
  simp only [toModel]
  cases h0 : l.Args[0]? with
  | none => simp [agrees, bind, Except.bind]
  | some a0 =>
    by_cases hv : a0 = Gen.VERSION
    · simp [hv, agrees, bind, Except.bind, pure, Except.pure, gen_Conn_CtcpReply ext, queued, toClient]
    · by_cases hpg : a0 = Gen.PING
      · subst hpg
        cases h2 : l.Args[2]? with
        | none =>
          have hl : ¬ ((l.Args.length : Int) > 2) := by
            have := List.getElem?_eq_none_iff.mp h2; omega
          simp [PING_ne_VERSION, hl, agrees, bind, Except.bind, pure, Except.pure]
        | some a2 =>
          have hl : (l.Args.length : Int) > 2 := by
            have := (List.getElem?_eq_some_iff.mp h2).1; omega
          simp [PING_ne_VERSION, hl, agrees, bind, Except.bind, pure, Except.pure, gen_Conn_CtcpReply ext, queued]
      · simp [hv, hpg, agrees, bind, Except.bind, pure, Except.pure]

end GenCheck
