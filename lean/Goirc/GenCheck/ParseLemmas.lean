import Goirc.GenCheck
import Goirc.Proofs.C02
/-!
# Bridge lemmas between the runtime prelude `Go.Rt` and the model's primitives (for `GenCheck.Parse`)
-/
namespace GenCheck.ParseLemmas
open Go

/-! ### `Except` plumbing -/

@[simp] theorem ok_bind {α β : Type} (a : α) (f : α → Rt.M β) : (Except.ok a : Rt.M α) >>= f = f a := rfl
@[simp] theorem pure_eq_ok {α : Type} (a : α) : (pure a : Rt.M α) = Except.ok a := rfl

/-! ### checked operations -/

@[simp] theorem idx_cons_zero {α : Type} (a : α) (s : List α) : Rt.idx (a :: s) 0 = .ok a := by
  simp [Rt.idx]

@[simp] theorem idx_cons_one {α : Type} (a b : α) (s : List α) : Rt.idx (a :: b :: s) 1 = .ok b := by
  simp [Rt.idx]

theorem slice_nat {α : Type} (s : List α) (i j : Nat) (h1 : i ≤ j) (h2 : j ≤ s.length) :
    Rt.slice s (i : Int) (j : Int) = .ok ((s.take j).drop i) := by
  unfold Rt.slice
  rw [if_pos ⟨by omega, by omega, by omega⟩]
  simp

theorem sliceFrom_nat {α : Type} (s : List α) (i : Nat) (h : i ≤ s.length) :
    Rt.sliceFrom s (i : Int) = .ok (s.drop i) := by
  unfold Rt.sliceFrom
  rw [if_pos ⟨by omega, by omega⟩]
  simp

theorem sliceTo_nat {α : Type} (s : List α) (j : Nat) (h : j ≤ s.length) :
    Rt.sliceTo s (j : Int) = .ok (s.take j) := by
  unfold Rt.sliceTo
  rw [if_pos ⟨by omega, by omega⟩]
  simp

/-! ### `strings.Index` with a one-byte separator -/

theorem indexFrom_single (c : UInt8) (s : Bytes) (k : Nat) : indexFrom [c] s k = indexByteFrom c s k := by
  induction s generalizing k with
  | nil => simp [indexFrom, indexByteFrom]
  | cons x s ih => simp [indexFrom, indexByteFrom, hasPrefix, ih]

theorem index_single (s : Bytes) (c : UInt8) : Go.index s [c] = indexByte s c :=
  indexFrom_single c s 0

theorem rt_index_single (s : Bytes) (c : UInt8) :
    Rt.index s [c] = match indexByte s c with | some i => (i : Int) | none => -1 := by
  unfold Rt.index
  rw [index_single]
  cases indexByte s c <;> rfl

theorem indexFrom_succ (sep s : Bytes) (k : Nat) : indexFrom sep s (k + 1) = (indexFrom sep s k).map (· + 1) := by
  induction s generalizing k with
  | nil => simp [indexFrom]
  | cons x s ih =>
    simp only [indexFrom]
    split
    · simp
    · rw [ih]

/-! ### `strings.Split` with a one-byte separator -/

def prependHead (p : Bytes) : List Bytes → List Bytes
  | [] => [p]
  | h :: t => (p ++ h) :: t

theorem prependHead_prependHead (p q : Bytes) (l : List Bytes) :
    prependHead p (prependHead q l) = prependHead (p ++ q) l := by
  cases l <;> simp [prependHead]

theorem splitByte_acc (c : UInt8) (acc s : Bytes) :
    splitByte c acc s = prependHead acc.reverse (splitByte c [] s) := by
  induction s generalizing acc with
  | nil => simp [splitByte, prependHead]
  | cons b rest ih =>
    simp only [splitByte]
    split
    · simp [prependHead]
    · rw [ih (b :: acc), ih [b], prependHead_prependHead]
      simp

theorem index_cons_single (x c : UInt8) (s : Bytes) :
    Go.index (x :: s) [c] = if x == c then some 0 else (Go.index s [c]).map (· + 1) := by
  unfold Go.index
  simp [indexFrom, hasPrefix, indexFrom_succ]

theorem cut_cons_single (x c : UInt8) (s : Bytes) :
    cut (x :: s) [c] = if x == c then ([], some s) else ((x :: (cut s [c]).1), (cut s [c]).2) := by
  unfold cut
  rw [index_cons_single]
  by_cases h : (x == c) = true
  · simp [h]
  · simp only [h]
    cases Go.index s [c] <;> simp

theorem cut_nil_single (c : UInt8) : cut [] [c] = ([], none) := by
  simp [cut, Go.index, indexFrom]

theorem splitFuel_cons_single (k : Nat) (x c : UInt8) (s : Bytes) :
    Rt.splitFuel (k + 1) (x :: s) [c] =
      if x == c then [] :: Rt.splitFuel k s [c] else prependHead [x] (Rt.splitFuel (k + 1) s [c]) := by
  simp only [Rt.splitFuel]
  rw [cut_cons_single]
  by_cases h : (x == c) = true
  · simp [h]
  · simp only [h]
    rcases cut s [c] with ⟨a, _ | b⟩ <;> simp [prependHead]

theorem splitFuel_single (c : UInt8) (s : Bytes) (k : Nat) (h : s.length ≤ k) :
    Rt.splitFuel k s [c] = splitByte c [] s := by
  induction s generalizing k with
  | nil =>
    cases k with
    | zero => rfl
    | succ k => simp [Rt.splitFuel, cut_nil_single, splitByte]
  | cons x s ih =>
    cases k with
    | zero => simp at h
    | succ k =>
      rw [splitFuel_cons_single]
      simp only [splitByte]
      simp only [List.length_cons] at h
      split
      · rw [ih k (by omega)]; rfl
      · rw [ih (k + 1) (by omega), splitByte_acc c [x] s]; rfl

theorem rt_split_single (s : Bytes) (c : UInt8) : Rt.split s [c] = splitByte c [] s :=
  splitFuel_single c s _ (Nat.le_refl _)

/-! ### `strings.SplitN(_, _, 2)` -/

theorem rt_splitN2 (s sep : Bytes) :
    Rt.splitN s sep 2 = match cut s sep with
      | (a, some b) => [a, b]
      | (a, none) => [a] := by
  show Rt.splitFuel 1 s sep = _
  unfold Rt.splitFuel
  rcases cut s sep with ⟨a, _ | b⟩ <;> simp [Rt.splitFuel]

/-! ### `strings.Trim` with a one-byte cutset -/

theorem rt_trim_single (s : Bytes) (c : UInt8) : Rt.trim s [c] = trimByte c s := by
  unfold Rt.trim trimByte
  have : (fun b : UInt8 => [c].contains b) = (fun b => b == c) := by
    funext b
    cases h : b == c <;> simp_all
  rw [this]

/-! ### the tags replacer -/

theorem replaceFind_tags (x y : UInt8) (xs : Bytes) :
    Rt.replaceFind Gen.tagsReplacer (x :: y :: xs) =
      if x == 92 then (match unesc1 y with | some c => some ([92, y], [c]) | none => none) else none := by
  by_cases hx : x = 92
  · subst hx
    by_cases h1 : y = 58
    · subst h1; simp [Rt.replaceFind, Gen.tagsReplacer, hasPrefix, unesc1]
    by_cases h2 : y = 115
    · subst h2; simp [Rt.replaceFind, Gen.tagsReplacer, hasPrefix, unesc1]
    by_cases h3 : y = 92
    · subst h3; simp [Rt.replaceFind, Gen.tagsReplacer, hasPrefix, unesc1]
    by_cases h4 : y = 114
    · subst h4; simp [Rt.replaceFind, Gen.tagsReplacer, hasPrefix, unesc1]
    by_cases h5 : y = 110
    · subst h5; simp [Rt.replaceFind, Gen.tagsReplacer, hasPrefix, unesc1]
    simp [Rt.replaceFind, Gen.tagsReplacer, hasPrefix, unesc1, h1, h2, h3, h4, h5]
  · simp [Rt.replaceFind, Gen.tagsReplacer, hasPrefix, hx]

theorem replaceFind_tags_single (x : UInt8) : Rt.replaceFind Gen.tagsReplacer [x] = none := by
  simp [Rt.replaceFind, Gen.tagsReplacer, hasPrefix]

theorem replaceAux_nil (k : Nat) : Rt.replaceAux Gen.tagsReplacer k [] = [] := by cases k <;> rfl

theorem replaceAux_tags (k : Nat) (s : Bytes) (h : s.length ≤ k) :
    Rt.replaceAux Gen.tagsReplacer k s = unescapeTag s := by
  induction k using Nat.strongRecOn generalizing s with
  | _ k ih =>
    match s, k with
    | [], 0 => rfl
    | [], _ + 1 => rfl
    | _ :: _, 0 => simp at h
    | [x], k + 1 =>
      simp only [Rt.replaceAux, replaceFind_tags_single, replaceAux_nil, unescapeTag]
    | x :: y :: xs, k + 1 =>
      simp only [List.length_cons] at h
      have ih1 := ih k (by omega) (y :: xs) (by simp; omega)
      have ih2 := ih k (by omega) xs (by omega)
      simp only [Rt.replaceAux, replaceFind_tags, unescapeTag]
      by_cases hx : (x == 92) = true
      · simp only [hx, if_true]
        have hx' : x = 92 := by simpa using hx
        subst hx'
        cases hu : unesc1 y with
        | none => simp [ih1]
        | some c => simp [ih2]
      · simp only [hx]
        simp [ih1]

theorem rt_replace_tags (s : Bytes) : Rt.replace Gen.tagsReplacer s = unescapeTag s :=
  replaceAux_tags _ s (Nat.le_refl _)

/-! ### misc -/

@[simp] theorem map_ok {α β : Type} (f : α → β) (a : α) : (Except.ok a : Rt.M α).map f = .ok (f a) := rfl

theorem setIdx_cons_one {α : Type} (a b v : α) (s : List α) : Rt.setIdx (a :: b :: s) 1 v = .ok (a :: v :: s) := by
  unfold Rt.setIdx
  rw [if_pos ⟨by omega, by simp only [List.length_cons]; omega⟩]
  rfl

theorem sliceFrom_cons_one {α : Type} (a : α) (s : List α) : Rt.sliceFrom (a :: s) 1 = .ok s := by
  unfold Rt.sliceFrom
  rw [if_pos ⟨by omega, by simp only [List.length_cons]; omega⟩]
  rfl

theorem PRIVMSG_eq : Gen.PRIVMSG = Go.PRIVMSG := by decide
theorem NOTICE_eq : Gen.NOTICE = Go.NOTICE := by decide
theorem ACTION_eq : Gen.ACTION = Go.ACTION := by decide
theorem CTCP_eq : Gen.CTCP = Go.CTCP := by decide
theorem CTCPREPLY_eq : Gen.CTCPREPLY = Go.CTCPREPLY := by decide
theorem rt_mapInsert_eq : @Rt.mapInsert = @Go.mapInsert := rfl

end GenCheck.ParseLemmas
