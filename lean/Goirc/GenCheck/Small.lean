import Goirc.GenCheck
/-!
# Generated = model: the small functions (`cutNewLines`, `hasPort`, `Text`, `Public`, `Target`)
Helper lemmas first (untagged); the tagged theorems are the obligations the check audits.
-/
namespace GenCheck
open Go

/-! ### `Rt.idx` -/

theorem idx_zero_cons {α : Type} (x : α) (xs : List α) : Rt.idx (x :: xs) 0 = .ok x := by
  simp [Rt.idx, pure, Except.pure]

theorem idx_one_cons {α : Type} (x y : α) (xs : List α) : Rt.idx (x :: y :: xs) 1 = .ok y := by
  simp [Rt.idx, pure, Except.pure]

theorem idx_last {α : Type} (l : List α) (d : α) (h : l ≠ []) :
    Rt.idx l (Rt.len l - 1) = .ok (l.getLast?.getD d) := by
  have hpos : 0 < l.length := List.length_pos_iff.mpr h
  have h0 : (0 : Int) ≤ Rt.len l - 1 := by simp only [Rt.len]; omega
  have h1 : (Rt.len l - 1).toNat = l.length - 1 := by simp only [Rt.len]; omega
  have h2 : l.length - 1 < l.length := by omega
  simp only [Rt.idx, h0, if_true, h1, List.getLast?_eq_getElem?, List.getElem?_eq_getElem h2,
    Option.getD_some, pure, Except.pure]

/-! ### `SplitN(s, [c], 2)[0]` is `beforeByte c s` -/

theorem hasPrefix_single (x c : UInt8) (s : Bytes) : hasPrefix (x :: s) [c] = (x == c) := by
  cases s <;> simp [hasPrefix]

theorem indexFrom_single (c : UInt8) (s : Bytes) (k : Nat) :
    (match indexFrom [c] s k with
      | some i => k ≤ i ∧ s.take (i - k) = beforeByte c s
      | none => beforeByte c s = s) := by
  induction s generalizing k with
  | nil => simp [indexFrom, beforeByte]
  | cons x s ih =>
    simp only [indexFrom, hasPrefix_single, beforeByte]
    by_cases hx : (x == c) = true
    · simp [hx]
    · simp only [hx, if_false, Bool.false_eq_true]
      have := ih (k + 1)
      split at this
      · rename_i i hi
        obtain ⟨h1, h2⟩ := this
        refine ⟨by omega, ?_⟩
        have : i - k = (i - (k + 1)) + 1 := by omega
        rw [this, List.take_succ_cons, h2]
      · simp only [this]

theorem cut_single_fst (c : UInt8) (s : Bytes) : (cut s [c]).1 = beforeByte c s := by
  have := indexFrom_single c s 0
  unfold cut index
  split at this
  · rename_i i hi
    simp only [hi]
    simpa using this.2
  · rename_i hi
    simp only [hi, this]

theorem splitN2_head (c : UInt8) (s : Bytes) :
    Rt.idx (Rt.splitN s [c] 2) 0 = .ok (beforeByte c s) := by
  have h : Rt.splitN s [c] 2 = Rt.splitFuel 1 s [c] := by
    simp [Rt.splitN]
  rw [h, ← cut_single_fst]
  unfold Rt.splitFuel
  split
  · rename_i a b hc
    simp only [hc, idx_zero_cons]
  · rename_i a hc
    simp only [hc, idx_zero_cons]

/-- [C08,C09,C11,C19] `cutNewLines` as generated from commands.go is the model's: never panics, cuts at the first CR or LF -/
theorem gen_cutNewLines (s : Bytes) : Gen.cutNewLines s = .ok (Go.cutNewLines s) := by
  have h1 := splitN2_head 13 s
  have h2 := splitN2_head 10 (beforeByte 13 s)
  simp only [Gen.cutNewLines, h1, h2, bind, Except.bind]
  rfl

/-! ### `LastIndex(s, [c])` -/

/-- Go's `int` reading of an optional index -/
def optInt : Option Nat → Int
  | some i => (i : Int)
  | none => -1

theorem lastIndexFrom_single (c : UInt8) (s : Bytes) (i : Nat) (acc : Option Nat) :
    Rt.lastIndexFrom [c] s i (optInt acc) = optInt (lastIndexByte.go c s i acc) := by
  induction s generalizing i acc with
  | nil => simp [Rt.lastIndexFrom, lastIndexByte.go]
  | cons x s ih =>
    simp only [Rt.lastIndexFrom, lastIndexByte.go, hasPrefix_single]
    rw [← ih]
    by_cases hx : (x == c) = true <;> simp [hx, optInt]

theorem lastIndex_single (c : UInt8) (s : Bytes) :
    Rt.lastIndex s [c] = optInt (lastIndexByte s c) :=
  lastIndexFrom_single c s 0 none

/-- [C18] `hasPort` as generated from connection.go is the Spec's -/
theorem gen_hasPort (s : Bytes) : Gen.hasPort s = .ok (Spec.Register.hasPort s) := by
  simp only [Gen.hasPort, Spec.Register.hasPort, lastIndex_single, pure, Except.pure]
  simp only [optInt]
  rfl

/-! ### the `Line` accessors -/

theorem PRIVMSG_eq : Gen.PRIVMSG = Go.PRIVMSG := by decide
theorem NOTICE_eq : Gen.NOTICE = Go.NOTICE := by decide
theorem ACTION_eq : Gen.ACTION = Go.ACTION := by decide
theorem CTCP_eq : Gen.CTCP = Go.CTCP := by decide
theorem CTCPREPLY_eq : Gen.CTCPREPLY = Go.CTCPREPLY := by decide

/-- [C01,C02] `Line.Text` as generated from line.go never panics and is the model's accessor -/
theorem gen_Line_Text (l : Gen.Line) : Gen.Line_Text l = .ok (toModel l).text := by
  rcases l with ⟨tags, nick, ident, host, src, cmd, raw, args⟩
  simp only [Gen.Line_Text, toModel, Line.text]
  by_cases h : args = []
  · subst h; simp [Rt.len, pure, Except.pure]
  · have hpos : 0 < args.length := List.length_pos_iff.mpr h
    have : Rt.len args > 0 := by simp only [Rt.len]; omega
    simp only [this, decide_true, if_true, idx_last args [] h, pure, Except.pure]

theorem ok_ite (c : Bool) : (if c = true then (pure true : Rt.M Bool) else pure false) = .ok c := by
  cases c <;> rfl

theorem len_lt_one_nil {α : Type} : decide (Rt.len ([] : List α) < 1) = true := by
  simp [Rt.len]
theorem len_lt_one_cons {α : Type} (x : α) (xs : List α) : decide (Rt.len (x :: xs) < 1) = false :=
  decide_eq_false (by simp only [Rt.len, List.length_cons]; omega)
theorem len_lt_two_nil {α : Type} : decide (Rt.len ([] : List α) < 2) = true := by
  simp [Rt.len]
theorem len_lt_two_one {α : Type} (x : α) : decide (Rt.len [x] < 2) = true := by
  simp [Rt.len]
theorem len_lt_two_cons {α : Type} (x y : α) (xs : List α) : decide (Rt.len (x :: y :: xs) < 2) = false :=
  decide_eq_false (by simp only [Rt.len, List.length_cons]; omega)

/-- the `case PRIVMSG, NOTICE, ACTION` arm of `Public` -/
theorem public_arm0 (args : List Bytes) :
    (do
      let t2 ←
        if decide (Rt.len args < 1) then pure true
        else do
          let t1 ← Rt.idx args 0
          pure (t1 == [])
      if t2 then
        return false
      let t3 ← Rt.idx args 0
      let t4 ← Rt.idx t3 0
      if ((t4 == 35 || t4 == 38) || t4 == 43) || t4 == 33 then
        return true
      return false : Rt.M Bool) =
    .ok (match args with
      | (b :: _) :: _ => isChanPrefix b
      | _ => false) := by
  rcases args with _ | ⟨(_ | ⟨b, a0⟩), rest⟩
  · rfl
  · rfl
  · simp only [len_lt_one_cons, idx_zero_cons, bind, Except.bind, pure, Except.pure]
    exact ok_ite _

/-- the `case CTCP, CTCPREPLY` arm of `Public` -/
theorem public_arm1 (args : List Bytes) :
    (do
      let t6 ←
        if decide (Rt.len args < 2) then pure true
        else do
          let t5 ← Rt.idx args 1
          pure (t5 == [])
      if t6 then
        return false
      let t7 ← Rt.idx args 1
      let t8 ← Rt.idx t7 0
      if ((t8 == 35 || t8 == 38) || t8 == 43) || t8 == 33 then
        return true
      return false : Rt.M Bool) =
    .ok (match args with
      | _ :: (b :: _) :: _ => isChanPrefix b
      | _ => false) := by
  rcases args with _ | ⟨a0, (_ | ⟨(_ | ⟨b, a1⟩), rest⟩)⟩
  · rfl
  · rfl
  · rfl
  · simp only [len_lt_two_cons, idx_one_cons, idx_zero_cons, bind, Except.bind, pure, Except.pure]
    exact ok_ite _

/-- [C01,C02] `Line.Public` as generated from line.go never panics and is the model's accessor -/
theorem gen_Line_Public (l : Gen.Line) : Gen.Line_Public l = .ok (toModel l).public := by
  rcases l with ⟨tags, nick, ident, host, src, cmd, raw, args⟩
  have a0 := public_arm0 args
  have a1 := public_arm1 args
  simp only [Gen.Line_Public, toModel, Line.public, PRIVMSG_eq, NOTICE_eq, ACTION_eq, CTCP_eq, CTCPREPLY_eq]
  by_cases h1 : (cmd == PRIVMSG || cmd == NOTICE || cmd == ACTION) = true
  · simp only [h1, if_true]
    exact a0
  · simp only [h1]
    by_cases h2 : (cmd == CTCP || cmd == CTCPREPLY) = true
    · simp only [h2, if_true]
      exact a1
    · simp only [h2]
      rfl

/-- the code after the `switch` of `Target` -/
theorem target_tail (args : List Bytes) :
    (do
      if decide (Rt.len args > 0) then
        let t4 ← Rt.idx args 0
        return t4
      return [] : Rt.M Bytes) = .ok (args.head?.getD []) := by
  rcases args with _ | ⟨a0, rest⟩
  · rfl
  · have : Rt.len (a0 :: rest) > 0 := by simp only [Rt.len, List.length_cons]; omega
    simp only [this, decide_true, if_true, idx_zero_cons, pure, Except.pure]
    rfl

/-- [C01,C02] `Line.Target` as generated from line.go never panics, for ANY line (not only parser output), and is the model's accessor -/
theorem gen_Line_Target (l : Gen.Line) : Gen.Line_Target l = .ok (toModel l).target := by
  rcases l with ⟨tags, nick, ident, host, src, cmd, raw, args⟩
  have hp := gen_Line_Public ⟨tags, nick, ident, host, src, cmd, raw, args⟩
  have ht := target_tail args
  simp only [toModel] at hp
  generalize hq : Line.public _ = q at hp
  simp only [Gen.Line_Target, hp, toModel, Line.target, hq, PRIVMSG_eq, NOTICE_eq, ACTION_eq, CTCP_eq,
    CTCPREPLY_eq, bind, Except.bind]
  by_cases h1 : (cmd == PRIVMSG || cmd == NOTICE || cmd == ACTION) = true
  · simp only [h1, if_true]
    cases q
    · rfl
    · exact ht
  · simp only [h1]
    by_cases h2 : (cmd == CTCP || cmd == CTCPREPLY) = true
    · simp only [h2, if_true]
      cases q
      · rfl
      · simp only [Line.public, h1, h2, if_true] at hq
        rcases args with _ | ⟨a0, (_ | ⟨(_ | ⟨b, a1⟩), rest⟩)⟩
        · simp at hq
        · simp at hq
        · simp at hq
        · simp only [idx_one_cons]
          rfl
    · simp only [h2]
      exact ht

end GenCheck
