import Goirc.GenCheck
import Goirc.Model.Client
/-!
# Generated = model: `DefaultNewNick` and the capability set (`capSet.Add / Clear / Has / Size`)
The model keeps a capability set as an association list with unique keys (`Go.Client.capAdd` inserts with `AL.insert`); the
generated code uses the translator's insertion-ordered map with replace-in-place. On lists with unique keys the two agree.
-/
namespace GenCheck
open Go Go.Client

theorem hasPrefix_one (x c : UInt8) (s : Bytes) : hasPrefix (x :: s) [c] = (x == c) := by
  cases s <;> simp [hasPrefix]

theorem nick_byte_lt (c : UInt8) :
    (if 48 ≤ c ∧ c ≤ 57 then 48 + (((c - 48) + 1) % 10)
      else if 65 ≤ c ∧ c ≤ 125 then 65 + (((c - 65) + 1) % 61) else (95 : UInt8)) < 128 := by
  split
  · rename_i h
    rw [UInt8.le_iff_toNat_le, UInt8.le_iff_toNat_le] at h
    rw [UInt8.lt_iff_toNat_lt, UInt8.toNat_add, UInt8.toNat_mod, UInt8.toNat_add, UInt8.toNat_sub]
    simp only [UInt8.toNat_ofNat, Nat.reducePow, Nat.reduceMod] at h ⊢
    omega
  · split
    · rename_i h
      rw [UInt8.le_iff_toNat_le, UInt8.le_iff_toNat_le] at h
      rw [UInt8.lt_iff_toNat_lt, UInt8.toNat_add, UInt8.toNat_mod, UInt8.toNat_add, UInt8.toNat_sub]
      simp only [UInt8.toNat_ofNat, Nat.reducePow, Nat.reduceMod] at h ⊢
      omega
    · decide

theorem DefaultNewNick_concat (L : Bytes) (b : UInt8) :
    Gen.DefaultNewNick (L ++ [b]) = .ok (defaultNewNick (L ++ [b])) := by
  have hlen : Rt.len (L ++ [b]) = (L.length : Int) + 1 := by simp [Rt.len]
  have hne : ((L.length : Int) + 1 == 0) = false := by
    simp only [beq_eq_false_iff_ne, ne_eq]; omega
  have hidx : Rt.idx (L ++ [b]) ((L.length : Int) + 1 - 1) = .ok b := by
    simp [Rt.idx, pure, Except.pure]
  have hsl : Rt.sliceTo (L ++ [b]) ((L.length : Int) + 1 - 1) = .ok L := by
    simp [Rt.sliceTo, pure, Except.pure]; omega
  have hb := nick_byte_lt b
  unfold Gen.DefaultNewNick defaultNewNick
  simp only [hlen, hne, hidx, hsl]
  simp only [Bool.false_eq_true, if_false, bind, Except.bind, pure, Except.pure, List.getLast?_append, List.getLast?_singleton,
    List.dropLast_concat, Option.some_or, ge_iff_le, Bool.and_eq_true, decide_eq_true_eq]
  split
  · rename_i h; rw [if_pos h] at hb; simp [Rt.byteString, hb]
  · rename_i h; rw [if_neg h] at hb
    split
    · rename_i h2; rw [if_pos h2] at hb; simp [Rt.byteString, hb]
    · simp [Rt.byteString]


/-- [C17] `DefaultNewNick` as generated from connection.go never panics and is the model's generator -/
theorem gen_DefaultNewNick (old : Bytes) : Gen.DefaultNewNick old = .ok (defaultNewNick old) := by
  rcases List.eq_nil_or_concat old with e | ⟨L, b, e⟩
  · subst e; rfl
  · subst e; rw [List.concat_eq_append]; exact DefaultNewNick_concat L b

theorem map_of_not_mem (m : List (Bytes × Bool)) (k : Bytes) (v : Bool) (h : k ∉ AL.keys m) :
    m.map (fun p => if p.1 == k then (k, v) else p) = m := by
  induction m with
  | nil => rfl
  | cons p rest ih =>
    simp only [AL.keys, List.map_cons, List.mem_cons, not_or] at h
    have hne : (p.1 == k) = false := by
      simp only [beq_eq_false_iff_ne, ne_eq]; exact fun e => h.1 e.symm
    simp only [List.map_cons, hne, Bool.false_eq_true, if_false]
    rw [ih h.2]

theorem bmapInsert_eq_insert (m : List (Bytes × Bool)) (k : Bytes) (v : Bool) (h : (AL.keys m).Nodup) :
    Rt.bmapInsert m k v = AL.insert m k v := by
  induction m with
  | nil => rfl
  | cons p rest ih =>
    obtain ⟨k', v'⟩ := p
    simp only [AL.keys, List.map_cons, List.nodup_cons] at h
    by_cases hk : k' = k
    · subst hk
      have h1 : k' ∉ AL.keys rest := h.1
      simp only [Rt.bmapInsert, List.any_cons, BEq.rfl, Bool.true_or, if_true, List.map_cons, AL.insert]
      rw [map_of_not_mem rest k' v h1]
    · have hne : (k' == k) = false := by simpa using hk
      have ih' := ih h.2
      simp only [Rt.bmapInsert] at ih'
      simp only [Rt.bmapInsert, List.any_cons, hne, Bool.false_or, List.map_cons, Bool.false_eq_true, if_false, AL.insert, if_neg hk]
      rw [← ih']
      split <;> simp

theorem AL_keys_insert_nodup (m : List (Bytes × Bool)) (k : Bytes) (v : Bool) (h : (AL.keys m).Nodup) :
    (AL.keys (AL.insert m k v)).Nodup := by
  induction m with
  | nil => simp [AL.insert, AL.keys]
  | cons p rest ih =>
    obtain ⟨k', v'⟩ := p
    simp only [AL.keys, List.map_cons, List.nodup_cons] at h
    by_cases hk : k' = k
    · subst hk
      simpa [AL.insert, AL.keys] using h
    · have : ∀ x, x ∈ AL.keys (AL.insert rest k v) → x = k ∨ x ∈ AL.keys rest := by
        intro x
        clear ih h
        induction rest with
        | nil => simp [AL.insert, AL.keys]
        | cons q r ihr =>
          obtain ⟨a, b⟩ := q
          by_cases ha : a = k
          · subst ha; simp [AL.insert, AL.keys]
          · simp only [AL.insert, if_neg ha, AL.keys, List.map_cons, List.mem_cons]
            rintro (e | e)
            · exact Or.inr (Or.inl e)
            · rcases ihr e with e | e
              · exact Or.inl e
              · exact Or.inr (Or.inr e)
      simp only [AL.insert, if_neg hk, AL.keys, List.map_cons, List.nodup_cons]
      refine ⟨?_, ih h.2⟩
      intro hm
      rcases this _ hm with e | e
      · exact hk e
      · exact h.1 e

/-- (helper, untagged) adding capabilities keeps the keys unique -/
theorem capAdd_nodup (m : List (Bytes × Bool)) (caps : List Bytes) (h : (AL.keys m).Nodup) : (AL.keys (capAdd m caps)).Nodup := by
  induction caps generalizing m with
  | nil => exact h
  | cons c rest ih =>
    unfold capAdd
    split
    · exact ih _ (AL_keys_insert_nodup _ _ _ h)
    · exact ih _ (AL_keys_insert_nodup _ _ _ h)

def capStep (m : List (Bytes × Bool)) (cap : Bytes) : List (Bytes × Bool) :=
  match cap with
  | 45 :: name => AL.insert m name false
  | _ => AL.insert m cap true

theorem capAdd_cons (m : List (Bytes × Bool)) (cap : Bytes) (rest : List Bytes) :
    capAdd m (cap :: rest) = capAdd (capStep m cap) rest := by
  unfold capStep
  conv => lhs; unfold capAdd
  split
  · rfl
  · rename_i hno
    split
    · rename_i name; exact absurd rfl (hno name)
    · rfl

theorem capStep_nodup (m : List (Bytes × Bool)) (cap : Bytes) (h : (AL.keys m).Nodup) : (AL.keys (capStep m cap)).Nodup := by
  unfold capStep
  split <;> exact AL_keys_insert_nodup _ _ _ h

theorem forIn_capAdd (f : Bytes → Gen.capSet → Rt.M (ForInStep Gen.capSet))
    (hf : ∀ cap m, (AL.keys m).Nodup → f cap { caps := some m } = .ok (.yield { caps := some (capStep m cap) }))
    (caps : List Bytes) (m : List (Bytes × Bool)) (h : (AL.keys m).Nodup) :
    forIn caps ({ caps := some m } : Gen.capSet) f = .ok { caps := some (capAdd m caps) } := by
  induction caps generalizing m with
  | nil => rfl
  | cons cap rest ih =>
    rw [List.forIn_cons, hf cap m h, capAdd_cons]
    exact ih _ (capStep_nodup m cap h)

/-- [C19] `capSet.Add` as generated from handlers.go is the model's `capAdd` (on a set with unique keys, which is what `capabilitySet()` and `Add` / `Clear` produce) -/
theorem gen_capSet_Add (m : List (Bytes × Bool)) (caps : List Bytes) (h : (AL.keys m).Nodup) :
    Gen.capSet_Add { caps := some m } caps = .ok { caps := some (capAdd m caps) } := by
  unfold Gen.capSet_Add
  dsimp only
  rw [forIn_capAdd _ _ caps m h]
  · rfl
  · intro cap m hm
    cases cap with
    | nil =>
      simp only [hasPrefix, Bool.false_eq_true, if_false, Rt.bmapSet, capStep, bind, Except.bind, pure, Except.pure,
        bmapInsert_eq_insert _ _ _ hm]
    | cons x name =>
      by_cases hx : x = 45
      · subst hx
        have hs : Rt.sliceFrom ((45 : UInt8) :: name) 1 = .ok name := by
          simp [Rt.sliceFrom, pure, Except.pure]; omega
        simp only [hasPrefix_one, BEq.rfl, if_true, hs, Rt.bmapSet, capStep, bind, Except.bind, pure, Except.pure,
          bmapInsert_eq_insert _ _ _ hm]
      · have hne : (x == 45) = false := by simpa using hx
        have hst : capStep m (x :: name) = AL.insert m (x :: name) true := by
          unfold capStep
          split
          · rename_i e; exact absurd (List.cons.inj e).1 hx
          · rfl
        simp only [hasPrefix_one, hne, Bool.false_eq_true, if_false, Rt.bmapSet, hst, bind, Except.bind, pure, Except.pure,
          bmapInsert_eq_insert _ _ _ hm]

/-- [C19] `capSet.Has` as generated from handlers.go is the model's `capHas` -/
theorem gen_capSet_Has (m : List (Bytes × Bool)) (cap : Bytes) : Gen.capSet_Has { caps := some m } cap = .ok (capHas m cap) := by
  simp only [Gen.capSet_Has, Rt.bmapGet, capHas, pure, Except.pure]
  congr 1
  induction m with
  | nil => rfl
  | cons p rest ih =>
    obtain ⟨k, v⟩ := p
    by_cases hk : k = cap
    · subst hk; simp [AL.lookup]
    · have hne : (k == cap) = false := by simpa using hk
      simp only [List.find?_cons, hne, AL.lookup, if_neg hk]
      exact ih

/-- [C19] `capSet.Clear` (run by `initialise` at every connect) as generated from handlers.go leaves the empty set -/
theorem gen_capSet_Clear (c : Gen.capSet) : Gen.capSet_Clear c = .ok { caps := some [] } := by
  rfl

/-- [C19] `capSet.Size` as generated from handlers.go counts the entries -/
theorem gen_capSet_Size (m : List (Bytes × Bool)) : Gen.capSet_Size { caps := some m } = .ok (m.length : Int) := by
  rfl
end GenCheck
