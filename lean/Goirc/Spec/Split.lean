import Goirc.Go.Bytes
/-!
# Spec for C11: what a correct split of `text` with limit `splitLen` looks like.

Executable (`Bool`) so that the driver can evaluate it on the *implementation's* output.
-/
namespace Spec.Split
open Go

def dots : Bytes := [46, 46, 46]

/-- the limit actually in force: 450 when SplitLen is unset or below 13 -/
def effLen (splitLen : Int) : Nat := if splitLen < 13 then 450 else splitLen.toNat

/-- Strip the continuation marker from every piece but the last and concatenate. -/
def rejoin : List Bytes → Bytes
  | [] => []
  | [p] => p
  | p :: ps => p.take (p.length - 3) ++ rejoin ps


/-- every piece but the last ends in the continuation marker -/
def markersOk : List Bytes → Bool
  | [] => true
  | [_] => true
  | p :: ps => hasSuffix p dots && markersOk ps

/-- C11 as a predicate on (SplitLen, text, pieces) -/
def ok (splitLen : Int) (text : Bytes) (ps : List Bytes) : Bool :=
  !ps.isEmpty                                             -- a finite, non-empty sequence
  && rejoin ps == text                                    -- lossless
  && ps.all (fun p => p.length ≤ effLen splitLen)         -- bounded
  && markersOk ps                                         -- all but the last end in "..."
  && (ps.length ≤ 1 || ps.all (fun p => !p.isEmpty))      -- no piece of a split text is empty
  && (decide (text.length ≤ effLen splitLen) → ps.length == 1 : Bool) -- short texts are not split

end Spec.Split
