import Goirc.Model.Client
/-!
# Spec for C17: a scripted server's view of the client's nick

The server sends lines; `Srv.nick` is the nick it uses for the client (after the welcome) or the
nick the client last asked for (before it).  `conforms` says when a server may send an event.
-/
namespace Spec.NickScript
open Go

structure Srv where
  registered : Bool := false
  nick : Bytes
deriving Repr

inductive Ev
  | s433 (refused : Bytes)        -- ERR_NICKNAMEINUSE for `refused`
  | s001 (nick : Bytes) (mask : Bool)  -- welcome, addressing the client as `nick`; its text may or may not end in nick!user@host
  | sNick (new : Bytes)           -- NICK line for the client itself: confirmation or forced change
  | sOther (frm to : Bytes)       -- NICK line of another user
deriving Repr

/-- what a protocol-conformant server may send in state `s` -/
def conforms (s : Srv) : Ev → Bool
  | .s433 r => if s.registered then r != s.nick else r == s.nick
  | .s001 n _ => !s.registered && !n.isEmpty
  | .sNick new => s.registered && !new.isEmpty && new != s.nick
  | .sOther frm to => frm != s.nick && to != s.nick && !frm.isEmpty

/-- the server's state after the event (`gen` is the client's configured nick generator: before the
welcome a collision makes the client ask for `gen refused`, which becomes the pending nick) -/
def step (gen : Bytes → Bytes) (s : Srv) : Ev → Srv
  | .s433 r => if s.registered then s else { s with nick := gen r }
  | .s001 n _ => { registered := true, nick := n }
  | .sNick new => { s with nick := new }
  | .sOther _ _ => s

/-- the line the server puts on the wire for the event -/
def lineOf (s : Srv) : Ev → Bytes
  | .s433 r => lit ":irc.test 433 " ++ (if s.registered then s.nick else [42]) ++ [32] ++ r ++ lit " :Nickname is already in use"
  | .s001 n true => lit ":irc.test 001 " ++ n ++ lit " :Welcome to the network " ++ n ++ lit "!ident@host.example"
  | .s001 n false => lit ":irc.test 001 " ++ n ++ lit " :Welcome to the Internet Relay Network " ++ n
  | .sNick new => [58] ++ s.nick ++ lit "!ident@host.example NICK " ++ new
  | .sOther frm to => [58] ++ frm ++ lit "!o@other.example NICK :" ++ to

/-- what the client must send in reply: a collision is always answered by `NICK (gen refused)` -/
def replyOf (gen : Bytes → Bytes) : Ev → List Bytes
  | .s433 r => [lit "NICK " ++ gen r]
  | _ => []

end Spec.NickScript
