import Goirc.Model.Dispatch
/-!
# Spec for C03 / C05 on observable delivery histories (harness logs and the LTS ghost log)
-/
namespace Spec.Dispatch
open Go.Dispatch

/-- position of an event in wire order: (line, 0) for CONNECTED delivery nested in the welcome line,
(line, 1) for that line's own foreground handlers; `none` for events the order does not constrain -/
def rank : Obs → Option (Nat × Nat)
  | .fgEnter k _ _ => some (k, 1)
  | .fgExit k _ _ => some (k, 1)
  | .connEnter k _ => some (k, 0)
  | .connExit k _ => some (k, 0)
  | _ => none

def le2 (a b : Nat × Nat) : Bool := a.1 < b.1 || (a.1 == b.1 && a.2 ≤ b.2)

/-- foreground delivery is in wire order and one line at a time: ranks never decrease along the history
(so every handler event of line a precedes every handler event of line b > a, and CONNECTED handlers of
the welcome line come before its own foreground handlers and before any later line) -/
def serial : List Obs → Option (Nat × Nat) → Bool
  | [], _ => true
  | o :: rest, last =>
    match rank o, last with
    | some r, some l => le2 l r && serial rest (some r)
    | some r, none => serial rest (some r)
    | none, _ => serial rest last

/-- CONNECTED handlers only after the welcome line has been applied -/
def connAfterWelcome : List Obs → List Nat → Bool
  | [], _ => true
  | .welcomeApplied k :: rest, seen => connAfterWelcome rest (k :: seen)
  | .connEnter k _ :: rest, seen => seen.contains k && connAfterWelcome rest seen
  | _ :: rest, seen => connAfterWelcome rest seen

/-- DISCONNECTED only after every foreground (and CONNECTED) handler invocation has finished: no such event follows it -/
def nothingAfterDisc : List Obs → Bool → Bool
  | [], _ => true
  | .discEnter :: rest, _ => nothingAfterDisc rest true
  | o :: rest, d => (!d || (rank o).isNone) && nothingAfterDisc rest d

/-- C05: a foreground handler of line k sees exactly lines 0..k applied (at entry and at exit); a background
handler sees at least those -/
def trackerTiming : List Obs → Bool
  | [] => true
  | .fgEnter k _ a :: rest => a == k + 1 && trackerTiming rest
  | .fgExit k _ a :: rest => a == k + 1 && trackerTiming rest
  | .bgEnter k _ a :: rest => decide (k + 1 ≤ a) && trackerTiming rest
  | _ :: rest => trackerTiming rest

def ok (log : List Obs) : Bool :=
  serial log none && connAfterWelcome log [] && nothingAfterDisc log false && trackerTiming log

end Spec.Dispatch
