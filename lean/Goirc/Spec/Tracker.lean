import Goirc.Model.Tracker
/-!
# Spec for C12: the plain relational model of nicks, channels and memberships

A set of nicks and a set of channels with their attributes, keyed by name, plus a membership
relation `(channel, nick) ↦ privileges`, and the name of the client's own nick.  No ids, no
two-way maps, no sharing.  The mode-letter tables (`applyChanFlag`, `applyPriv`,
`nickParseModes`) are shared with the model: they are tables, not structure.
Left unspecified by the property and fixed here as the code does it: a privilege change naming a
nick that is not on the channel consumes no argument, and `-k` consumes no argument.
-/
namespace Spec.Tracker
open Go.Tracker

structure SNick where
  ident : Bytes := []
  host : Bytes := []
  name : Bytes := []
  modes : NickMode := {}
deriving Repr

structure SChan where
  topic : Bytes := []
  modes : ChanMode := {}
deriving Repr

structure S where
  nicks : List (Bytes × SNick) := []
  chans : List (Bytes × SChan) := []
  mem : List ((Bytes × Bytes) × ChanPrivs) := []   -- (channel, nick) ↦ privileges
  me : Bytes
deriving Repr

def new (me : Bytes) : S := { nicks := [(me, {})], me := me }

def nickSnap (s : S) (n : Bytes) : NickSnap :=
  let r := (AL.lookup s.nicks n).getD {}
  { nick := n, ident := r.ident, host := r.host, name := r.name, modes := r.modes,
    channels := (s.mem.filter (fun m => m.1.2 == n)).map fun m => (m.1.1, m.2) }

def chanSnap (s : S) (c : Bytes) : ChanSnap :=
  let r := (AL.lookup s.chans c).getD {}
  { name := c, topic := r.topic, modes := r.modes,
    nicks := (s.mem.filter (fun m => m.1.1 == c)).map fun m => (m.1.2, m.2) }

def memberships (s : S) (n : Bytes) : List ((Bytes × Bytes) × ChanPrivs) := s.mem.filter (fun m => m.1.2 == n)

/-- forget nick `n` and all its memberships (never the client itself) -/
def dropNick (s : S) (n : Bytes) : S :=
  if n == s.me then s else
  { s with nicks := AL.erase s.nicks n, mem := s.mem.filter (fun m => m.1.2 != n) }

/-- forget channel `c`, its memberships, and every other nick left with no membership -/
def dropChan (s : S) (c : Bytes) : S :=
  let members := (s.mem.filter (fun m => m.1.1 == c)).map (·.1.2)
  let s1 := { s with chans := AL.erase s.chans c, mem := s.mem.filter (fun m => m.1.1 != c) }
  members.foldl (fun st n => if (memberships st n).isEmpty && n != st.me then dropNick st n else st) s1

/-- channel mode strings over the relational state -/
def parseModes (s : S) (c : Bytes) : Bool → Bytes → List Bytes → S
  | _, [], _ => s
  | op, m :: rest, args =>
    if m == 43 then parseModes s c true rest args
    else if m == 45 then parseModes s c false rest args
    else
      let r := (AL.lookup s.chans c).getD {}
      match applyChanFlag r.modes op m with
      | some md => parseModes { s with chans := AL.insert s.chans c { r with modes := md } } c op rest args
      | none =>
        if m == 107 then
          match op, args with
          | true, a :: more => parseModes { s with chans := AL.insert s.chans c { r with modes := { r.modes with key := a } } } c op rest more
          | false, _ => parseModes { s with chans := AL.insert s.chans c { r with modes := { r.modes with key := [] } } } c op rest args
          | true, [] => parseModes s c op rest args
        else if m == 108 then
          match op, args with
          | true, a :: more => parseModes { s with chans := AL.insert s.chans c { r with modes := { r.modes with limit := Go.atoi a } } } c op rest more
          | false, _ => parseModes { s with chans := AL.insert s.chans c { r with modes := { r.modes with limit := 0 } } } c op rest args
          | true, [] => parseModes s c op rest args
        else if isPrivChar m then
          match args with
          | a :: more =>
            match AL.lookup s.mem (c, a) with
            | some p => parseModes { s with mem := AL.insert s.mem (c, a) (applyPriv p op m) } c op rest more
            | none => parseModes s c op rest args
          | [] => parseModes s c op rest args
        else if m == 98 || m == 101 || m == 73 then parseModes s c op rest args.tail
        else parseModes s c op rest args

def step (s : S) : Op → S × Ret
  | .newNick n =>
    if n.isEmpty || AL.has s.nicks n then (s, .nick none)
    else
      let s1 := { s with nicks := AL.insert s.nicks n {} }
      (s1, .nick (some (nickSnap s1 n)))
  | .getNick n => if AL.has s.nicks n then (s, .nick (some (nickSnap s n))) else (s, .nick none)
  | .reNick old neu =>
    match AL.lookup s.nicks old with
    | none => (s, .nick none)
    | some r =>
      if AL.has s.nicks neu then (s, .nick none)
      else
        let s1 : S := { s with
          nicks := AL.insert (AL.erase s.nicks old) neu r
          mem := s.mem.map (fun m => if m.1.2 == old then ((m.1.1, neu), m.2) else m)
          me := if s.me == old then neu else s.me }
        (s1, .nick (some (nickSnap s1 neu)))
  | .delNick n =>
    match AL.lookup s.nicks n with
    | none => (s, .nick none)
    | some r =>
      if n == s.me then (s, .nick none)
      else (dropNick s n, .nick (some { nick := n, ident := r.ident, host := r.host, name := r.name, modes := r.modes, channels := [] }))
  | .nickInfo n ident host name =>
    match AL.lookup s.nicks n with
    | none => (s, .nick none)
    | some r =>
      let s1 := { s with nicks := AL.insert s.nicks n { r with ident := ident, host := host, name := name } }
      (s1, .nick (some (nickSnap s1 n)))
  | .nickModes n modes =>
    match AL.lookup s.nicks n with
    | none => (s, .nick none)
    | some r =>
      let s1 := { s with nicks := AL.insert s.nicks n { r with modes := nickParseModes r.modes false modes } }
      (s1, .nick (some (nickSnap s1 n)))
  | .newChannel c =>
    if c.isEmpty || AL.has s.chans c then (s, .chan none)
    else
      let s1 := { s with chans := AL.insert s.chans c {} }
      (s1, .chan (some (chanSnap s1 c)))
  | .getChannel c => if AL.has s.chans c then (s, .chan (some (chanSnap s c))) else (s, .chan none)
  | .delChannel c =>
    match AL.lookup s.chans c with
    | none => (s, .chan none)
    | some r => (dropChan s c, .chan (some { name := c, topic := r.topic, modes := r.modes, nicks := [] }))
  | .topic c t =>
    match AL.lookup s.chans c with
    | none => (s, .chan none)
    | some r =>
      let s1 := { s with chans := AL.insert s.chans c { r with topic := t } }
      (s1, .chan (some (chanSnap s1 c)))
  | .channelModes c modes args =>
    if AL.has s.chans c then
      let s1 := parseModes s c false modes args
      (s1, .chan (some (chanSnap s1 c)))
    else (s, .chan none)
  | .me => (s, .nick (some (nickSnap s s.me)))
  | .isOn c n =>
    if AL.has s.nicks n && AL.has s.chans c then
      match AL.lookup s.mem (c, n) with
      | some p => (s, .privs (some p) true)
      | none => (s, .privs none false)
    else (s, .privs none false)
  | .associate c n =>
    if AL.has s.chans c && AL.has s.nicks n && !AL.has s.mem (c, n) then
      ({ s with mem := AL.insert s.mem (c, n) {} }, .assoc (some {}))
    else (s, .assoc none)
  | .dissociate c n =>
    if AL.has s.chans c && AL.has s.nicks n && AL.has s.mem (c, n) then
      if n == s.me then (dropChan s c, .unit)
      else
        let s1 := { s with mem := AL.erase s.mem (c, n) }
        if (memberships s1 n).isEmpty then (dropNick s1 n, .unit) else (s1, .unit)
    else (s, .unit)
  | .wipe => ((AL.keys s.chans).foldl (fun st c => dropChan st c) s, .unit)

end Spec.Tracker
