/-!
# Spec for C06 / C07 on observable lifecycle histories

An observation log, as recorded by handlers and API callers (harness) or produced by the LTS model
(ghost log): REGISTER / CONNECTED / DISCONNECTED handler entries with the value of `Connected()`
sampled at entry, returns of `Connect` (ok / error), a second `Connect` while connected, liveness
probes, the moment the harness injects a disconnect cause, and checks on a fresh connection.
-/
namespace Spec.Life

inductive Ev
  | register (flag : Bool)
  | connected (flag : Bool)
  | disconnected (flag : Bool)
  | connectCall      -- Connect is about to be called (not for a Connect on a connected client: see againOk / againRefused)
  | connectOk
  | connectErr
  | againOk          -- Connect while connected returned nil
  | againRefused     -- Connect while connected returned an error
  | alive            -- the existing connection still answers
  | dead             -- the existing connection stopped answering
  | cause            -- something that ends the current connection has been set in motion
  | closeRet
  | freshUp          -- a reconnected client registered, answers and stays up
  | freshDown        -- ... or was torn down without cause
  | closedFired      -- Close on a client that is not connected fired an event
deriving DecidableEq, Repr

structure Acc where
  regs : Nat := 0        -- REGISTER dispatches
  oks : Nat := 0         -- successful Connect returns
  discs : Nat := 0       -- DISCONNECTED dispatches
  calls : Nat := 0       -- Connect calls issued
  errs : Nat := 0        -- Connect calls that returned an error
  causeInGen : Bool := false   -- a cause was injected since the last REGISTER
  ok : Bool := true

def stepAcc (a : Acc) : Ev → Acc
  -- `Connected()` is true in a REGISTER handler "while no disconnect has begun": if the link dropped while Connect was
  -- still on its way to dispatching REGISTER (a cause since the call, or this connection's DISCONNECTED already
  -- delivered), the flag may be false - the property leaves the relative order of the two events open in that case
  | .register f => { a with regs := a.regs + 1, causeInGen := false,
                            ok := a.ok && (f || a.causeInGen || a.discs > a.regs) && a.regs == a.oks }
  | .connectOk => { a with oks := a.oks + 1, ok := a.ok && a.regs == a.oks + 1 }
  | .connected f => { a with ok := a.ok && (f || a.causeInGen) }
  | .connectCall => { a with calls := a.calls + 1 }
  | .connectErr => { a with errs := a.errs + 1 }
  -- `Connected()` is false in a DISCONNECTED handler - unless the client has been connected again meanwhile: a
  -- newer connection's REGISTER is already in the history, or a Connect call is in flight (it sets the flag
  -- before it dispatches REGISTER). This is `Props.C06.disconnected_flag`: flag = true only if a later Connect succeeded.
  | .disconnected f => { a with discs := a.discs + 1,
                                ok := a.ok && (!f || a.discs + 1 < a.regs || a.regs + a.errs < a.calls) &&
                                  -- after its REGISTER - or before it, while the Connect call that made the connection
                                  -- is still in flight (it has not dispatched REGISTER yet)
                                  (a.discs < a.regs || (a.discs == a.regs && a.oks + a.errs < a.calls)) }
  | .cause => { a with causeInGen := true }
  | .againOk => { a with ok := false }
  | .dead => { a with ok := false }
  | .freshDown => { a with ok := false }
  | .closedFired => { a with ok := false }
  | _ => a

/-- safety part: holds of every prefix of every history -/
def okPrefix (log : List Ev) : Bool := (log.foldl stepAcc {}).ok

/-- a complete history (every connection has been ended and torn down): each established connection
got exactly one REGISTER and exactly one DISCONNECTED -/
def okFinal (log : List Ev) : Bool :=
  let a := log.foldl stepAcc {}
  a.ok && a.regs == a.oks && a.discs == a.regs

end Spec.Life
