import Goirc.Go.Bytes
/-!
# Spec for C08: what the wire may carry for one API call with verb `verb`.
-/
namespace Spec.Wire
open Go

/-- one queued line: no CR or LF inside, begins with the verb -/
def lineOk (verb : Bytes) (l : Bytes) : Bool :=
  !l.contains 13 && !l.contains 10 && hasPrefix l verb

def ok (verb : Bytes) (lines : List Bytes) : Bool := lines.all (lineOk verb)

/-- split a byte stream at every CRLF; the last element is what follows the final CRLF -/
def splitCRLF : Bytes → Bytes → List Bytes
  | acc, [] => [acc.reverse]
  | acc, 13 :: 10 :: rest => acc.reverse :: splitCRLF [] rest
  | acc, x :: rest => splitCRLF (x :: acc) rest

/-- the bytes on the wire consist solely of CRLF-terminated lines, each `lineOk` -/
def bytesOk (verb : Bytes) (wire : Bytes) : Bool :=
  match (splitCRLF [] wire).reverse with
  | [] => false
  | last :: initRev => last.isEmpty && initRev.all (lineOk verb)

end Spec.Wire
