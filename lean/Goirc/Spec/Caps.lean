import Goirc.Model.Client
/-!
# Spec for C19: capability negotiation, as predicates on what the client sends and reports
-/
namespace Spec.Caps
open Go Go.Client

def CAPEND : Bytes := lit "CAP END"
def REQPFX : Bytes := lit "CAP REQ :"

/-- wanted = configured capabilities, plus sasl when SASL is configured -/
def wanted (caps : List Bytes) (sasl : Bool) : List Bytes := (if sasl then [saslCap] else []) ++ caps

def subset (a b : List Bytes) : Bool := a.all (b.contains ·)
def sameSet (a b : List Bytes) : Bool := subset a b && subset b a

/-- the capability words carried by a list of `CAP REQ :…` lines; `none` if some line is not a REQ -/
def reqWords : List Bytes → Option (List Bytes)
  | [] => some []
  | l :: rest =>
    if hasPrefix l REQPFX then (reqWords rest).map fun ws => (splitByte 32 [] (l.drop REQPFX.length)).filter (· != []) ++ ws
    else none

def nodup : List Bytes → Bool
  | [] => true
  | x :: xs => !xs.contains x && nodup xs

/-- after `CAP * LS :advertised`: END on an empty intersection, otherwise REQ lines that together
name exactly wanted ∩ advertised, once each, every line within 450 bytes -/
def okAfterLS (caps : List Bytes) (sasl : Bool) (advertised : List Bytes) (out : List Bytes) : Bool :=
  let inter := (wanted caps sasl).filter (advertised.contains ·)
  if inter.isEmpty then out == [CAPEND]
  else match reqWords out with
    | some ws => !out.isEmpty && sameSet ws inter && nodup ws && out.all (fun l => l.length ≤ 450)
    | none => false

/-- capability reported as held ⇔ the latest acknowledgement naming it enabled it -/
def heldAfter (acks : List Bytes) (cap : Bytes) : Bool :=
  acks.foldl (fun h a => if a == cap then true else if a == 45 :: cap then false else h) false

/-- after `CAP * ACK :caps`: starts SASL (AUTHENTICATE mech, no END) iff sasl is configured and
acknowledged, else END -/
def okAfterACK (sasl : Option Sasl) (acked : List Bytes) (out : List Bytes) : Bool :=
  match sasl with
  | some s => if acked.contains saslCap then out.all (· == lit "AUTHENTICATE " ++ (saslStart s).1) && !out.isEmpty else out == [CAPEND]
  | none => out == [CAPEND]

/-- the SASL payload the mechanism prescribes: PLAIN = base64(authzid NUL user NUL pass),
EXTERNAL = base64(identity), and `+` for an empty payload -/
def payload : Sasl → Bytes
  | .plain i u p => lit "AUTHENTICATE " ++ b64encode (i ++ [0] ++ u ++ [0] ++ p)
  | .external i => lit "AUTHENTICATE " ++ (if i.isEmpty then [43] else b64encode i)

end Spec.Caps
