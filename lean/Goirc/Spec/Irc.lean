import Goirc.Model.Line
/-!
# Spec for C01: the message grammar (RFC 2812 §2.3.1 + IRCv3 message-tags), its renderer, and the
line a correct parser must produce for it.

`Msg` is the *sent* message in components; `render` puts it on the wire; `expected` is the
right-hand side of the property.  `WF` is the decidable well-formedness predicate the property's
quantifier describes.  Nothing here mentions the parser's code.
-/
namespace Spec.Irc
open Go

inductive Source
  | server (name : Bytes)
  | user (nick ident host : Bytes)
deriving DecidableEq, Repr

structure Msg where
  tags : Option (List (Bytes × Option Bytes)) := none   -- `none`: no tag section; value `none`: key-only tag
  source : Option Source := none
  verb : Bytes
  middles : List (Nat × Bytes) := []          -- (extra spaces before it beyond the mandatory one, parameter)
  trailing : Option (Nat × Bytes) := none     -- (extra spaces before " :", text)
deriving Repr

/-- the five IRCv3 tag-value escapes -/
def esc1 (x : UInt8) : Bytes :=
  if x == 59 then [92, 58] else if x == 32 then [92, 115] else if x == 92 then [92, 92]
  else if x == 13 then [92, 114] else if x == 10 then [92, 110] else [x]

def escapeTag : Bytes → Bytes
  | [] => []
  | x :: xs => esc1 x ++ escapeTag xs

def renderTag : Bytes × Option Bytes → Bytes
  | (k, none) => k
  | (k, some v) => k ++ [61] ++ escapeTag v

def Source.render : Source → Bytes
  | .server n => n
  | .user n u h => n ++ [33] ++ u ++ [64] ++ h

def renderMiddles : List (Nat × Bytes) → Bytes
  | [] => []
  | (k, p) :: rest => List.replicate (k + 1) 32 ++ p ++ renderMiddles rest

def render (m : Msg) : Bytes :=
  (match m.tags with | none => [] | some ts => [64] ++ join [59] (ts.map renderTag) ++ [32]) ++
  (match m.source with | none => [] | some s => [58] ++ s.render ++ [32]) ++
  m.verb ++ renderMiddles m.middles ++
  (match m.trailing with | none => [] | some (k, t) => List.replicate k 32 ++ [32, 58] ++ t)

/-! ### well-formedness -/

def noSpaceRune : Bytes → Bool
  | [] => true
  | b :: rest => spaceWidth (b :: rest) == 0 && noSpaceRune rest

def isLetter (b : UInt8) : Bool := (65 ≤ b && b ≤ 90) || (97 ≤ b && b ≤ 122)
def isDigit (b : UInt8) : Bool := 48 ≤ b && b ≤ 57

def keyOk (k : Bytes) : Bool :=
  !k.isEmpty && k.all (fun b => b != 59 && b != 61 && b != 32 && b != 92)

def Source.wf : Source → Bool
  | .server n => !n.isEmpty && noSpaceRune n &&
      -- not of the nick!user@host form
      (match indexByte n 33, indexByte n 64 with
       | some i, some j => j < i
       | _, _ => true)
  | .user n u h => noSpaceRune n && noSpaceRune u && noSpaceRune h &&
      !n.contains 33 && !n.contains 64 && !u.contains 64

def verbOk (v : Bytes) : Bool :=
  (!v.isEmpty && v.all isLetter) || (v.length == 3 && v.all isDigit)

def middleOk (p : Bytes) : Bool :=
  !p.isEmpty && p.head? != some 58 && noSpaceRune p

def params (m : Msg) : List Bytes := m.middles.map (·.2) ++ (match m.trailing with | none => [] | some (_, t) => [t])

/-- does the parameter look like a CTCP payload to the client: longer than 2, wrapped in \x01 -/
def looksCtcp (p : Bytes) : Bool := p.length > 2 && hasPrefix p [1] && hasSuffix p [1]

/-- the clean CTCP shape `\x01VERB SP text\x01` as (VERB, text) -/
def ctcpParts (p : Bytes) : Option (Bytes × Bytes) :=
  match p with
  | 1 :: rest =>
    match rest.getLast? with
    | some 1 =>
      let inner := rest.dropLast
      match indexByte inner 32 with
      | some i =>
        let v := inner.take i
        let t := inner.drop (i + 1)
        if !v.isEmpty && !v.contains 1 && !t.contains 1 then some (v, t) else none
      | none => none
    | _ => none
  | _ => none

def isMsgVerb (v : Bytes) : Bool := toUpperAscii v == PRIVMSG || toUpperAscii v == NOTICE

def Msg.wf (m : Msg) : Bool :=
  (match m.tags with
   | none => true
   | some ts => !ts.isEmpty && ts.all (fun t => keyOk t.1)) &&
  (match m.source with | none => true | some s => s.wf) &&
  verbOk m.verb &&
  m.middles.length ≤ 14 && m.middles.all (fun p => middleOk p.2) &&
  (if isMsgVerb m.verb then
     match params m with
     | _ :: p1 :: _ => !looksCtcp p1 || (ctcpParts p1).isSome
     | _ => true
   else true)

/-! ### the line a correct parser produces -/

def expectedTags (ts : List (Bytes × Option Bytes)) : List (Bytes × Bytes) :=
  ts.foldl (fun m t => mapInsert m t.1 (t.2.getD [])) []

def expected (ext : UnicodeExt) (m : Msg) : Line :=
  let base : Line := {
    tags := m.tags.map expectedTags
    raw := render m
    src := match m.source with | none => [] | some s => s.render
    nick := match m.source with | some (.user n _ _) => n | _ => []
    ident := match m.source with | some (.user _ u _) => u | _ => []
    host := match m.source with | some (.user _ _ h) => h | some (.server n) => n | none => []
    cmd := toUpperAscii m.verb
    args := params m }
  if isMsgVerb m.verb then
    match params m with
    | p0 :: p1 :: more =>
      if looksCtcp p1 then
        match ctcpParts p1 with
        | some (v, t) =>
          if toUpper ext v == ACTION && toUpperAscii m.verb == PRIVMSG then
            { base with cmd := ACTION, args := p0 :: t :: more }
          else
            { base with cmd := (if toUpperAscii m.verb == PRIVMSG then CTCP else CTCPREPLY),
                        args := toUpper ext v :: p0 :: t :: more }
        | none => base
      else base
    | _ => base
  else base

/-! ### accessor consistency (last sentence of the property) -/

/-- Text = the last parameter or ""; Public ⇔ the target parameter starts with one of `#&+!`;
Target = that parameter if public, else the sender's nick, for the five message events, and
the first parameter (or "") otherwise. -/
def accessorsOk (l : Line) (text : Bytes) (pub : Bool) (target : Bytes) : Bool :=
  let isMsg := l.cmd == PRIVMSG || l.cmd == NOTICE || l.cmd == ACTION
  let isCtcp := l.cmd == CTCP || l.cmd == CTCPREPLY
  let tparam : Option Bytes := if isCtcp then (l.args.drop 1).head? else l.args.head?
  let startsChan := match tparam with | some (b :: _) => isChanPrefix b | _ => false
  text == (l.args.getLast?.getD []) &&
  pub == ((isMsg || isCtcp) && startsChan) &&
  target == (if isMsg || isCtcp then (if pub then tparam.getD [] else l.nick) else l.args.head?.getD [])

/-- order-insensitive equality of two lines (tag maps compared as finite maps) -/
def sortTags (m : List (Bytes × Bytes)) : List (Bytes × Bytes) :=
  m.foldl (fun acc p => (acc.takeWhile (fun q => decide (q.1 < p.1))) ++ [p] ++ (acc.dropWhile (fun q => decide (q.1 < p.1)))) []

end Spec.Irc
