import Goirc.Model.Flood
/-!
# Spec for C10 (Hybrid's penalty rule), executable on implementation observations
-/
namespace Spec.Flood
open Go.Flood

/-- One `rateLimit` call observed from outside: `chars`, the badness before, an interval
`[lo, hi]` known to contain the elapsed time the call computed, and what it returned /
left in `badness`.  True iff some elapsed time in the interval explains the observation under
the rule "charge 2 s + chars/120 s; penalty' = max 0 (penalty + charge − elapsed); hold the line
for its own charge exactly when penalty' > 10 s". -/
def okCall (chars : Nat) (b0 lo hi ret b' : Int) : Bool :=
  let c := 2 * 1000000000 + (chars : Int) * 1000000000 / 120
  decide (0 ≤ b') &&
  (if b' > 0 then decide (lo ≤ b0 + c - b' ∧ b0 + c - b' ≤ hi) else decide (b0 + c - hi ≤ 0)) &&
  (ret == if b' > 10 * 1000000000 then c else 0)

/-- The window bound on observed write times: for every run i..j of consecutive lines,
total charge ≤ (w_j − w_i) + 10 s + charge_i + charge_{i+1}. Input: (chars, write time) per line. -/
def chargeOf (chars : Nat) : Int := 2 * 1000000000 + (chars : Int) * 1000000000 / 120

def windowFrom : List (Nat × Int) → Bool
  | [] => true
  | (c1, w1) :: rest =>
    let extra : Int := chargeOf c1 + (match rest with | [] => 0 | (c2, _) :: _ => chargeOf c2)
    let rec go (acc : Int) : List (Nat × Int) → Bool
      | [] => true
      | (c, w) :: more => decide (acc + chargeOf c ≤ (w - w1) + 10 * 1000000000 + extra) && go (acc + chargeOf c) more
    go (chargeOf c1) rest

def windowOk : List (Nat × Int) → Bool
  | [] => true
  | x :: rest => windowFrom (x :: rest) && windowOk rest

end Spec.Flood
