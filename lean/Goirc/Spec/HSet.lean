import Goirc.Model.HSet
/-!
# Spec for C04: handlers per (lower-cased) name, in registration order
-/
namespace Spec.HSet
open Go.HSet

/-- name ↦ registered (node id, handler) pairs, oldest first; no entry for a name with no handlers -/
abbrev S := List (Bytes × List (Id × Nat))

def add (ext : Go.UnicodeExt) (s : S) (ev0 : Bytes) (id : Id) (h : Nat) : S :=
  let ev := Go.toLower ext ev0
  AL.insert s ev ((AL.lookup s ev).getD [] ++ [(id, h)])

def remove (s : S) (id : Id) : S :=
  (s.map fun (k, l) => (k, l.filter (·.1 != id))).filter (fun p => !p.2.isEmpty)

/-- the handlers an event named `cmd` must invoke, once each -/
def handlersFor (ext : Go.UnicodeExt) (s : S) (cmd : Bytes) : List Nat :=
  ((AL.lookup s (Go.toLower ext cmd)).getD []).map (·.2)

inductive Op
  | add (ev : Bytes) (h : Nat)
  | remove (k : Nat)      -- remove the k-th Remover handed out so far (index into the add history)

end Spec.HSet
