import Goirc.Model.Client
/-!
# Spec for C18 (registration order, dial address, PONG) and C20 (log masking)
-/
namespace Spec.Register
open Go

/-- CAP LS (only with negotiation), PASS (only with a password), NICK, USER — once each, in this order -/
def expected (capNeg : Bool) (pass nick ident name : Bytes) : List Bytes :=
  (if capNeg then [lit "CAP LS"] else []) ++ (if pass != [] then [lit "PASS " ++ pass] else []) ++
  [lit "NICK " ++ nick, lit "USER " ++ ident ++ lit " 12 * :" ++ name]

/-- the address to dial: the configured one, with :6667 (:6697 with SSL) added only when it has no port.
`hasExplicitPort` is the Spec's notion for the configurations the property names
(`host`, `host:port`, `[v6]:port`). -/
def hasExplicitPort (server : Bytes) : Bool :=
  match lastIndexByte server 58 with
  | none => false
  | some i => match lastIndexByte server 93 with
    | none => true
    | some j => j < i

def expectedAddr (ssl : Bool) (server : Bytes) : Bytes :=
  if hasExplicitPort server then server else server ++ [58] ++ (if ssl then lit "6697" else lit "6667")

/-- `hasPort` (connection.go:479-481): `LastIndex(s, ":") > LastIndex(s, "]")` on Go ints -/
def hasPort (s : Bytes) : Bool :=
  let li (c : UInt8) : Int := match lastIndexByte s c with | some i => (i : Int) | none => -1
  decide (li 58 > li 93)

/-- `net.JoinHostPort` -/
def joinHostPort (host port : Bytes) : Bytes :=
  if host.contains 58 || host.contains 37 then [91] ++ host ++ [93, 58] ++ port else host ++ [58] ++ port

/-- model of the address computation in `internalConnect` -/
def dialAddr (ssl : Bool) (server : Bytes) : Bytes :=
  if hasPort server then server else joinHostPort server (if ssl then lit "6697" else lit "6667")

/-! ### C20: what `write` hands to the logger for an outgoing line -/

def MASK : Bytes := lit "PASS **************"

/-- `write`: `if strings.HasPrefix(line, "PASS") { line = "PASS **************" }; logging.Debug("-> %s", line)` -/
def logOf (line : Bytes) : Bytes := if hasPrefix line (lit "PASS") then MASK else line

/-- does `needle` occur in `hay`? -/
def occurs (needle hay : Bytes) : Bool := (index hay needle).isSome

end Spec.Register
