import Goirc.Spec.Tracker
/-!
# Spec for C13: a model IRC network and what it discloses to one client

`Net` holds the server's ground truth (every user, every channel with its members' *full*
privilege sets, topics, modes) and `view`: what the protocol has disclosed to our client so far,
shaped like the relational tracker Spec (`Spec.Tracker.S`) so that it can be compared with the
tracker directly.  `serverStep` performs an event and returns the lines a server sends to our
client for it (RFC 2812 shapes: JOIN / 332 / 353 / 366 on our join, PART, KICK, QUIT, NICK, TOPIC,
MODE, 324, 352 / 315).  The `view` is maintained by its own rules - never by calling tracker code.
Channel modes are the alphabet `ChanMode` / `ChanPrivs` can represent.
-/
namespace Spec.Net
open Go Go.Tracker Spec.Tracker

structure NUser where
  ident : Bytes
  host : Bytes
  real : Bytes
deriving Repr

structure NChan where
  topic : Bytes := []
  modes : ChanMode := {}
  members : List (Bytes × ChanPrivs) := []     -- nick ↦ full privilege set, in join order
deriving Repr

structure Net where
  me : Bytes
  users : List (Bytes × NUser) := []
  chans : List (Bytes × NChan) := []
  view : S
deriving Repr

inductive ModeChange
  | flag (add : Bool) (letter : UInt8)            -- one of i m n p r s t z Z O
  | key (add : Bool) (k : Bytes)
  | limit (add : Bool) (n : Nat)
  | priv (add : Bool) (letter : UInt8) (nick : Bytes)   -- one of q a o h v
  | ban (add : Bool) (mask : Bytes)               -- a list mode (+b mask): real, takes an argument, but not part of ChanMode
deriving Repr

inductive Event
  | join (u c : Bytes)
  | part (u c : Bytes)
  | kick (by_ c victim : Bytes)
  | quit (u : Bytes)
  | nick (u new : Bytes)
  | topic (u c t : Bytes)
  | mode (u c : Bytes) (changes : List ModeChange)
  | answerMode (c : Bytes)        -- the 324 reply to the client's MODE request
  | answerWho (c : Bytes)         -- the 352* / 315 replies to the client's WHO request
  | umode (add : Bool) (letter : UInt8)   -- the client's own user mode changes (B i o w x z)
deriving Repr

def userMask (n : Net) (u : Bytes) : Bytes :=
  match AL.lookup n.users u with
  | some x => u ++ [33] ++ x.ident ++ [64] ++ x.host
  | none => u

def onChan (n : Net) (u c : Bytes) : Bool :=
  match AL.lookup n.chans c with
  | some ch => AL.has ch.members u
  | none => false

def sharesWithMe (n : Net) (u : Bytes) : Bool :=
  n.chans.any fun (_, ch) => AL.has ch.members u && AL.has ch.members n.me

def isFlag (l : UInt8) : Bool := [105, 109, 110, 112, 114, 115, 116, 122, 90, 79].contains l
def isPriv (l : UInt8) : Bool := [113, 97, 111, 104, 118].contains l

def nameOk (s : Bytes) : Bool := !s.isEmpty && s.all (fun b => 33 < b && b < 127 && b != 58 && b != 44 && b != 64 && b != 33)
def chanOk (s : Bytes) : Bool := s.head? == some 35 && nameOk s
def textOk (s : Bytes) : Bool := s.all (fun b => 32 ≤ b && b < 127)

def changeOk (n : Net) (c : Bytes) : ModeChange → Bool
  | .flag _ l => isFlag l
  | .key true k => nameOk k
  | .key false _ => true
  | .limit _ k => k < 100000 && k > 0
  | .priv _ l u => isPriv l && onChan n u c
  | .ban _ m => nameOk m

/-- a key removal takes no further argument-taking change after it (outside the claim) -/
def keyRemovalLast : List ModeChange → Bool
  | [] => true
  | .key false _ :: rest => rest.all (fun ch => match ch with | .flag _ _ => true | .limit false _ => true | _ => false)
  | _ :: rest => keyRemovalLast rest

/-- what a conformant server can do in state `n` -/
def conforms (n : Net) : Event → Bool
  | .join u c => AL.has n.users u && chanOk c && !onChan n u c
  | .part u c => onChan n u c
  | .kick k c v => onChan n k c && onChan n v c
  | .quit u => u != n.me && AL.has n.users u
  | .nick u nw => AL.has n.users u && !AL.has n.users nw && nameOk nw
  | .topic u c t => onChan n u c && textOk t   -- an empty text clears the topic (`TOPIC #c :`)
  | .mode u c chs => onChan n u c && !chs.isEmpty && chs.all (changeOk n c) && keyRemovalLast chs
  | .answerMode c => onChan n n.me c
  | .answerWho c => onChan n n.me c
  | .umode _ l => [66, 105, 111, 119, 120, 122].contains l

/-! ### rendering -/

def prefixOf (p : ChanPrivs) : Bytes :=
  if p.owner then [126] else if p.admin then [38] else if p.op then [64] else if p.halfOp then [37] else if p.voice then [43] else []

/-- the privilege NAMES discloses: only the highest one -/
def highest (p : ChanPrivs) : ChanPrivs :=
  if p.owner then { owner := true } else if p.admin then { admin := true } else if p.op then { op := true }
  else if p.halfOp then { halfOp := true } else if p.voice then { voice := true } else {}

def natBytes (k : Nat) : Bytes := lit (toString k)

def modeLetters (m : ChanMode) : Bytes :=
  (if m.priv then [112] else []) ++ (if m.secret then [115] else []) ++ (if m.protectedTopic then [116] else []) ++
  (if m.noExternalMsg then [110] else []) ++ (if m.moderated then [109] else []) ++ (if m.inviteOnly then [105] else []) ++
  (if m.operOnly then [79] else []) ++ (if m.sslOnly then [122] else []) ++ (if m.registered then [114] else []) ++
  (if m.allSSL then [90] else []) ++ (if m.key != [] then [107] else []) ++ (if m.limit != 0 then [108] else [])

def modeArgs (m : ChanMode) : List Bytes :=
  (if m.key != [] then [m.key] else []) ++ (if m.limit != 0 then [lit (toString m.limit)] else [])

def changeLetters : List ModeChange → Option Bool → Bytes
  | [], _ => []
  | ch :: rest, cur =>
    let (add, l) := match ch with
      | .flag a l => (a, l) | .key a _ => (a, 107) | .limit a _ => (a, 108) | .priv a l _ => (a, l) | .ban a _ => (a, 98)
    (if cur == some add then [] else [if add then 43 else 45]) ++ [l] ++ changeLetters rest (some add)

def changeArgs : List ModeChange → List Bytes
  | [] => []
  | .flag _ _ :: rest => changeArgs rest
  | .key true k :: rest => k :: changeArgs rest
  | .key false _ :: rest => changeArgs rest
  | .limit true k :: rest => natBytes k :: changeArgs rest
  | .limit false _ :: rest => changeArgs rest
  | .priv _ _ u :: rest => u :: changeArgs rest
  | .ban _ m :: rest => m :: changeArgs rest

def joinSp : List Bytes → Bytes
  | [] => []
  | [a] => a
  | a :: rest => a ++ [32] ++ joinSp rest

def chunk (k : Nat) : Nat → List Bytes → List (List Bytes)
  | _, [] => []
  | 0, l => [l]
  | fuel + 1, l => if l.length ≤ k then [l] else l.take k :: chunk k fuel (l.drop k)

def srv : Bytes := lit ":irc.test "

/-! ### ground truth updates -/

def setChan (n : Net) (c : Bytes) (ch : NChan) : Net := { n with chans := AL.insert n.chans c ch }

def applyFlag (m : ChanMode) (add : Bool) (l : UInt8) : ChanMode := (applyChanFlag m add l).getD m

def applyChange (ch : NChan) : ModeChange → NChan
  | .flag a l => { ch with modes := applyFlag ch.modes a l }
  | .key a k => { ch with modes := { ch.modes with key := if a then k else [] } }
  | .limit a k => { ch with modes := { ch.modes with limit := if a then (k : Int) else 0 } }
  | .priv a l u => match AL.lookup ch.members u with
    | some p => { ch with members := AL.insert ch.members u (applyPriv p a l) }
    | none => ch
  | .ban _ _ => ch

/-- remove user u from channel c on the server; the channel disappears with its last member -/
def leave (n : Net) (u c : Bytes) : Net :=
  match AL.lookup n.chans c with
  | some ch =>
    let ms := AL.erase ch.members u
    if ms.isEmpty then { n with chans := AL.erase n.chans c } else setChan n c { ch with members := ms }
  | none => n

/-! ### what is disclosed to the client (the expected tracker contents) -/

def viewDropNickIfAlone (v : S) (u : Bytes) : S :=
  if u != v.me && (v.mem.filter (fun m => m.1.2 == u)).isEmpty then { v with nicks := AL.erase v.nicks u } else v

/-- the client leaves / is removed from c: the channel and everybody only seen there are forgotten -/
def viewLeaveMe (v : S) (c : Bytes) : S :=
  let others := (v.mem.filter (fun m => m.1.1 == c)).map (·.1.2)
  let v1 := { v with chans := AL.erase v.chans c, mem := v.mem.filter (fun m => m.1.1 != c) }
  others.foldl viewDropNickIfAlone v1

def viewLeave (v : S) (u c : Bytes) : S :=
  if u == v.me then viewLeaveMe v c
  else viewDropNickIfAlone { v with mem := AL.erase v.mem (c, u) } u

def viewApplyChange (v : S) (c : Bytes) : ModeChange → S
  | .flag a l => match AL.lookup v.chans c with
    | some r => { v with chans := AL.insert v.chans c { r with modes := applyFlag r.modes a l } }
    | none => v
  | .key a k => match AL.lookup v.chans c with
    | some r => { v with chans := AL.insert v.chans c { r with modes := { r.modes with key := if a then k else [] } } }
    | none => v
  | .limit a k => match AL.lookup v.chans c with
    | some r => { v with chans := AL.insert v.chans c { r with modes := { r.modes with limit := if a then (k : Int) else 0 } } }
    | none => v
  | .priv a l u => match AL.lookup v.mem (c, u) with
    | some p => { v with mem := AL.insert v.mem (c, u) (applyPriv p a l) }
    | none => v
  | .ban _ _ => v

def mergeModes (seen actual : ChanMode) : ChanMode :=
  { priv := seen.priv || actual.priv, secret := seen.secret || actual.secret, protectedTopic := seen.protectedTopic || actual.protectedTopic,
    noExternalMsg := seen.noExternalMsg || actual.noExternalMsg, moderated := seen.moderated || actual.moderated,
    inviteOnly := seen.inviteOnly || actual.inviteOnly, operOnly := seen.operOnly || actual.operOnly, sslOnly := seen.sslOnly || actual.sslOnly,
    registered := seen.registered || actual.registered, allSSL := seen.allSSL || actual.allSSL,
    key := if actual.key != [] then actual.key else seen.key, limit := if actual.limit != 0 then actual.limit else seen.limit }

/-! ### the server -/

def serverStep (n : Net) : Event → Net × List Bytes
  | .join u c =>
    let existed := AL.has n.chans c
    let ch0 := (AL.lookup n.chans c).getD {}
    let ch := { ch0 with members := ch0.members ++ [(u, if existed then {} else { op := true })] }
    let n1 := setChan n c ch
    if u == n.me then
      -- JOIN, 332 (if a topic is set), 353 (highest prefix only, split over several lines), 366
      let names := ch.members.map fun (m, p) => prefixOf p ++ m
      let l353 := (chunk 4 (names.length + 1) names).map fun g => srv ++ lit "353 " ++ n.me ++ lit " = " ++ c ++ lit " :" ++ joinSp g
      let lines := [[58] ++ userMask n u ++ lit " JOIN " ++ c] ++
        (if ch.topic != [] then [srv ++ lit "332 " ++ n.me ++ [32] ++ c ++ lit " :" ++ ch.topic] else []) ++ l353 ++
        [srv ++ lit "366 " ++ n.me ++ [32] ++ c ++ lit " :End of /NAMES list."]
      let v := n1.view
      let v1 : S := { v with chans := AL.insert v.chans c { topic := ch.topic } }
      let v2 := ch.members.foldl (fun (acc : S) (mp : Bytes × ChanPrivs) =>
        let acc1 := if AL.has acc.nicks mp.1 then acc else { acc with nicks := AL.insert acc.nicks mp.1 {} }
        { acc1 with mem := AL.insert acc1.mem (c, mp.1) (highest mp.2) }) v1
      ({ n1 with view := v2 }, lines)
    else if onChan n n.me c then
      let v := n1.view
      let x := (AL.lookup n.users u).getD ⟨[], [], []⟩
      let v1 := if AL.has v.nicks u then v else { v with nicks := AL.insert v.nicks u { ident := x.ident, host := x.host } }
      ({ n1 with view := { v1 with mem := AL.insert v1.mem (c, u) {} } }, [[58] ++ userMask n u ++ lit " JOIN " ++ c])
    else (n1, [])
  | .part u c =>
    let vis := onChan n n.me c
    let n1 := leave n u c
    if vis then ({ n1 with view := viewLeave n1.view u c }, [[58] ++ userMask n u ++ lit " PART " ++ c])
    else (n1, [])
  | .kick k c v =>
    let vis := onChan n n.me c
    let n1 := leave n v c
    if vis then ({ n1 with view := viewLeave n1.view v c }, [[58] ++ userMask n k ++ lit " KICK " ++ c ++ [32] ++ v ++ lit " :bye"])
    else (n1, [])
  | .quit u =>
    let vis := sharesWithMe n u
    let line := [58] ++ userMask n u ++ lit " QUIT :gone"
    let n1 := (AL.keys n.chans).foldl (fun acc c => if onChan acc u c then leave acc u c else acc) n
    let n2 := { n1 with users := AL.erase n1.users u }
    if vis then
      let v := n2.view
      ({ n2 with view := { v with nicks := AL.erase v.nicks u, mem := v.mem.filter (fun m => m.1.2 != u) } }, [line])
    else (n2, [])
  | .nick u nw =>
    let vis := u == n.me || sharesWithMe n u
    let line := [58] ++ userMask n u ++ lit " NICK " ++ nw
    let x := (AL.lookup n.users u).getD ⟨[], [], []⟩
    let n1 := { n with users := AL.insert (AL.erase n.users u) nw x,
                       chans := n.chans.map fun (c, ch) => (c, { ch with members := ch.members.map fun (m, p) => (if m == u then nw else m, p) }),
                       me := if u == n.me then nw else n.me }
    if vis then
      let v := n1.view
      match AL.lookup v.nicks u with
      | some r =>
        ({ n1 with view := { v with nicks := AL.insert (AL.erase v.nicks u) nw r,
                                    mem := v.mem.map (fun m => if m.1.2 == u then ((m.1.1, nw), m.2) else m),
                                    me := if v.me == u then nw else v.me } }, [line])
      | none => (n1, [line])
    else (n1, [])
  | .topic u c t =>
    match AL.lookup n.chans c with
    | some ch =>
      let n1 := setChan n c { ch with topic := t }
      if onChan n n.me c then
        let v := n1.view
        let r := (AL.lookup v.chans c).getD {}
        ({ n1 with view := { v with chans := AL.insert v.chans c { r with topic := t } } }, [[58] ++ userMask n u ++ lit " TOPIC " ++ c ++ lit " :" ++ t])
      else (n1, [])
    | none => (n, [])
  | .mode u c chs =>
    match AL.lookup n.chans c with
    | some ch =>
      let n1 := setChan n c (chs.foldl applyChange ch)
      if onChan n n.me c then
        let args := changeArgs chs
        ({ n1 with view := chs.foldl (fun v chg => viewApplyChange v c chg) n1.view },
         [[58] ++ userMask n u ++ lit " MODE " ++ c ++ [32] ++ changeLetters chs none ++ (if args.isEmpty then [] else [32] ++ joinSp args)])
      else (n1, [])
    | none => (n, [])
  | .answerMode c =>
    match AL.lookup n.chans c with
    | some ch =>
      let args := modeArgs ch.modes
      let v := n.view
      let r := (AL.lookup v.chans c).getD {}
      ({ n with view := { v with chans := AL.insert v.chans c { r with modes := mergeModes r.modes ch.modes } } },
       [srv ++ lit "324 " ++ n.me ++ [32] ++ c ++ lit " +" ++ modeLetters ch.modes ++ (if args.isEmpty then [] else [32] ++ joinSp args)])
    | none => (n, [])
  | .answerWho c =>
    match AL.lookup n.chans c with
    | some ch =>
      let lines := ch.members.map fun (m, p) =>
        let x := (AL.lookup n.users m).getD ⟨[], [], []⟩
        srv ++ lit "352 " ++ n.me ++ [32] ++ c ++ [32] ++ x.ident ++ [32] ++ x.host ++ lit " irc.test " ++ m ++ lit " G" ++ prefixOf p ++ lit " :0 " ++ x.real
      let v := n.view
      let v1 := ch.members.foldl (fun (acc : S) (mp : Bytes × ChanPrivs) =>
        if mp.1 == acc.me then acc else
        match AL.lookup acc.nicks mp.1, AL.lookup n.users mp.1 with
        | some r, some x => { acc with nicks := AL.insert acc.nicks mp.1 { r with ident := x.ident, host := x.host, name := x.real } }
        | _, _ => acc) v
      ({ n with view := v1 }, lines ++ [srv ++ lit "315 " ++ n.me ++ [32] ++ c ++ lit " :End of /WHO list."])
    | none => (n, [])
  | .umode add l =>
    let v := n.view
    let r := (AL.lookup v.nicks v.me).getD {}
    ({ n with view := { v with nicks := AL.insert v.nicks v.me { r with modes := applyNickMode r.modes add l } } },
     [[58] ++ n.me ++ lit " MODE " ++ n.me ++ [32] ++ [if add then 43 else 45, l]])

/-- a network with the client registered as `me` (ident/host as the welcome line told it) and some other users -/
def start (me ident host real : Bytes) (others : List (Bytes × NUser)) : Net :=
  { me := me, users := (me, ⟨ident, host, real⟩) :: others,
    view := { nicks := [(me, { ident := ident, host := host, name := real })], me := me } }

end Spec.Net
