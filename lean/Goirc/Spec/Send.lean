import Goirc.Model.Send
/-!
# Spec for C09 on a wire transcript: for every sender, its lines appear exactly once each, in the
order they were issued (sequence numbers 0,1,2,… with no gap, repeat or swap); `complete` adds that
all `issued s` lines of every listed sender have arrived.
-/
namespace Spec.Send
open Go.Send

def isRange : List Nat → Nat → Bool
  | [], _ => true
  | x :: xs, k => x == k && isRange xs (k + 1)

/-- per-sender order, no duplicates, no gaps on what has been written so far -/
def okPrefix (senders : List Sender) (wire : List Item) : Bool :=
  senders.all (fun s => isRange (seqsOf s wire) 0) && wire.all (fun i => senders.contains i.sender)

/-- the transcript is complete: every sender's `n` lines are all there -/
def okComplete (issued : List (Sender × Nat)) (wire : List Item) : Bool :=
  okPrefix (issued.map (·.1)) wire && issued.all (fun p => (seqsOf p.1 wire).length == p.2)

end Spec.Send
