import Goirc.Proofs.C13Ops
import Goirc.Proofs.C13Sim
namespace Proofs.C13
open Go Go.Client Go.Tracker Spec.Tracker Spec.Net

theorem has_insert_s {κ ν : Type} [DecidableEq κ] (m : List (κ × ν)) (k : κ) (v : ν) (k' : κ) :
    AL.has (AL.insert m k v) k' = (decide (k = k') || AL.has m k') := by
  simp only [AL.has_eq, AL.lookup_insert]; split <;> simp [*]

theorem has_insert_of_has_s {κ ν : Type} [DecidableEq κ] (m : List (κ × ν)) (k : κ) (v : ν) (k' : κ)
    (h : AL.has m k = true) : AL.has (AL.insert m k v) k' = AL.has m k' := by
  rw [has_insert_s]; grind

theorem has_of_lookup_s {κ ν : Type} [DecidableEq κ] {m : List (κ × ν)} {k : κ} {v : ν}
    (h : AL.lookup m k = some v) : AL.has m k = true := by simp [AL.has_eq, h]

/-! newNick -/
theorem newNick_nicks (S : TS) (n u : Bytes) :
    AL.has (sx S (.newNick n)).nicks u = (AL.has S.nicks u || (!n.isEmpty && decide (n = u))) := by
  simp only [sx, Spec.Tracker.step]
  split
  · grind
  · simp only [has_insert_s]; grind
theorem newNick_chans (S : TS) (n : Bytes) : (sx S (.newNick n)).chans = S.chans := by
  simp only [sx, Spec.Tracker.step]; split <;> rfl
theorem newNick_mem (S : TS) (n : Bytes) : (sx S (.newNick n)).mem = S.mem := by
  simp only [sx, Spec.Tracker.step]; split <;> rfl
theorem newNick_me (S : TS) (n : Bytes) : (sx S (.newNick n)).me = S.me := by
  simp only [sx, Spec.Tracker.step]; split <;> rfl

/-! newChannel -/
theorem newChannel_chans (S : TS) (c k : Bytes) :
    AL.has (sx S (.newChannel c)).chans k = (AL.has S.chans k || (!c.isEmpty && decide (c = k))) := by
  simp only [sx, Spec.Tracker.step]
  split
  · grind
  · simp only [has_insert_s]; grind
theorem newChannel_nicks (S : TS) (n : Bytes) : (sx S (.newChannel n)).nicks = S.nicks := by
  simp only [sx, Spec.Tracker.step]; split <;> rfl
theorem newChannel_mem (S : TS) (n : Bytes) : (sx S (.newChannel n)).mem = S.mem := by
  simp only [sx, Spec.Tracker.step]; split <;> rfl
theorem newChannel_me (S : TS) (n : Bytes) : (sx S (.newChannel n)).me = S.me := by
  simp only [sx, Spec.Tracker.step]; split <;> rfl

/-! nickInfo -/
theorem nickInfo_nicks (S : TS) (n i h nm u : Bytes) :
    AL.has (sx S (.nickInfo n i h nm)).nicks u = AL.has S.nicks u := by
  simp only [sx, Spec.Tracker.step]
  split
  · rfl
  · rename_i r hr; exact has_insert_of_has_s _ _ _ _ (has_of_lookup_s hr)
theorem nickInfo_chans (S : TS) (n i h nm : Bytes) : (sx S (.nickInfo n i h nm)).chans = S.chans := by
  simp only [sx, Spec.Tracker.step]; split <;> rfl
theorem nickInfo_mem (S : TS) (n i h nm : Bytes) : (sx S (.nickInfo n i h nm)).mem = S.mem := by
  simp only [sx, Spec.Tracker.step]; split <;> rfl
theorem nickInfo_me (S : TS) (n i h nm : Bytes) : (sx S (.nickInfo n i h nm)).me = S.me := by
  simp only [sx, Spec.Tracker.step]; split <;> rfl

/-! nickModes -/
theorem nickModes_nicks (S : TS) (n m u : Bytes) :
    AL.has (sx S (.nickModes n m)).nicks u = AL.has S.nicks u := by
  simp only [sx, Spec.Tracker.step]
  split
  · rfl
  · rename_i r hr; exact has_insert_of_has_s _ _ _ _ (has_of_lookup_s hr)
theorem nickModes_chans (S : TS) (n m : Bytes) : (sx S (.nickModes n m)).chans = S.chans := by
  simp only [sx, Spec.Tracker.step]; split <;> rfl
theorem nickModes_mem (S : TS) (n m : Bytes) : (sx S (.nickModes n m)).mem = S.mem := by
  simp only [sx, Spec.Tracker.step]; split <;> rfl
theorem nickModes_me (S : TS) (n m : Bytes) : (sx S (.nickModes n m)).me = S.me := by
  simp only [sx, Spec.Tracker.step]; split <;> rfl

/-! topic -/
theorem topic_chans (S : TS) (c t k : Bytes) :
    AL.has (sx S (.topic c t)).chans k = AL.has S.chans k := by
  simp only [sx, Spec.Tracker.step]
  split
  · rfl
  · rename_i r hr; exact has_insert_of_has_s _ _ _ _ (has_of_lookup_s hr)
theorem topic_nicks (S : TS) (c t : Bytes) : (sx S (.topic c t)).nicks = S.nicks := by
  simp only [sx, Spec.Tracker.step]; split <;> rfl
theorem topic_mem (S : TS) (c t : Bytes) : (sx S (.topic c t)).mem = S.mem := by
  simp only [sx, Spec.Tracker.step]; split <;> rfl
theorem topic_me (S : TS) (c t : Bytes) : (sx S (.topic c t)).me = S.me := by
  simp only [sx, Spec.Tracker.step]; split <;> rfl

/-! associate -/
theorem associate_mem (S : TS) (c n : Bytes) (k : Bytes × Bytes) :
    AL.has (sx S (.associate c n)).mem k =
      (AL.has S.mem k || (AL.has S.chans c && AL.has S.nicks n && decide ((c, n) = k))) := by
  simp only [sx, Spec.Tracker.step]
  split
  · simp only [has_insert_s]; grind
  · grind
theorem associate_nicks (S : TS) (c n : Bytes) : (sx S (.associate c n)).nicks = S.nicks := by
  simp only [sx, Spec.Tracker.step]; split <;> rfl
theorem associate_chans (S : TS) (c n : Bytes) : (sx S (.associate c n)).chans = S.chans := by
  simp only [sx, Spec.Tracker.step]; split <;> rfl
theorem associate_me (S : TS) (c n : Bytes) : (sx S (.associate c n)).me = S.me := by
  simp only [sx, Spec.Tracker.step]; split <;> rfl

/-! channelModes -/
theorem channelModes_chans (S : TS) (c m : Bytes) (a : List Bytes) (k : Bytes) :
    AL.has (sx S (.channelModes c m a)).chans k = AL.has S.chans k := by
  simp only [sx, Spec.Tracker.step]
  split
  · rename_i h; exact parseModes_has_chans S c false m a h k
  · rfl
theorem channelModes_mem (S : TS) (c m : Bytes) (a : List Bytes) (k : Bytes × Bytes) :
    AL.has (sx S (.channelModes c m a)).mem k = AL.has S.mem k := by
  simp only [sx, Spec.Tracker.step]
  split
  · exact parseModes_has_mem S c false m a k
  · rfl
theorem channelModes_nicks (S : TS) (c m : Bytes) (a : List Bytes) : (sx S (.channelModes c m a)).nicks = S.nicks := by
  simp only [sx, Spec.Tracker.step]
  split
  · exact parseModes_nicks S c false m a
  · rfl
theorem channelModes_me (S : TS) (c m : Bytes) (a : List Bytes) : (sx S (.channelModes c m a)).me = S.me := by
  simp only [sx, Spec.Tracker.step]
  split
  · exact parseModes_me S c false m a
  · rfl

theorem lookup_none_iff_has {κ ν : Type} [DecidableEq κ] (m : List (κ × ν)) (k : κ) :
    AL.lookup m k = none ↔ AL.has m k = false := (AL.has_false_iff m k).symm

theorem has_congr {κ ν : Type} [DecidableEq κ] {m m' : List (κ × ν)} {k k' : κ}
    (h : AL.lookup m k = AL.lookup m' k') : AL.has m k = AL.has m' k' := by simp [AL.has_eq, h]

theorem SafeS_dropChan (S : TS) (c : Bytes) (h : SafeS S) : SafeS (dropChan S c) := by
  obtain ⟨hme, hcm, hnc, hw⟩ := h
  have hM : ∀ k u, AL.has (dropChan S c).mem (k, u) = (AL.has S.mem (k, u) && decide (k ≠ c)) := by
    intro k u; simp only [AL.has_eq, dropChan_mem]; split <;> simp [*]
  have hC : ∀ k, AL.has (dropChan S c).chans k = (AL.has S.chans k && decide (k ≠ c)) := by
    intro k; simp only [AL.has_eq, dropChan_chans]; split <;> grind
  have hE := dropChan_me S c
  have hN1 : ∀ u, Lone S c u → AL.has (dropChan S c).nicks u = false := by
    intro u hl; simp [AL.has_eq, dropChan_nicks_lone S c u hl]
  have hN2 : ∀ u, ¬ Lone S c u → AL.has (dropChan S c).nicks u = AL.has S.nicks u := by
    intro u hl; simp [AL.has_eq, dropChan_nicks_other S c u hl]
  have hmeL : ¬ Lone S c S.me := fun hl => hl.2.1 rfl
  refine ⟨?_, ?_, ?_, ?_⟩
  · rw [hE, hN2 _ hmeL]; exact hme
  · intro k hk; rw [hE, hM]; rw [hC] at hk; grind
  · intro u hu
    by_cases hl : Lone S c u
    · rw [hN1 u hl] at hu; cases hu
    · rw [hN2 u hl] at hu
      rw [hE]
      rcases hnc u hu with h1 | ⟨c0, h1⟩
      · exact Or.inl h1
      · by_cases hu : u = S.me
        · exact Or.inl hu
        · right
          by_cases hc0 : c0 = c
          · subst hc0
            have : ¬ ∀ k, k ≠ c0 → AL.lookup S.mem (k, u) = none := fun hh => hl ⟨h1, hu, hh⟩
            simp only [Classical.not_forall] at this
            obtain ⟨k, hk, hk2⟩ := this
            refine ⟨k, ?_⟩
            rw [hM]; simp only [lookup_none_iff_has] at hk2; grind
          · exact ⟨c0, by rw [hM]; grind⟩
  · intro k u hku
    rw [hM] at hku
    have hk : k ≠ c := by grind
    have h1 : AL.has S.mem (k, u) = true := by grind
    have := hw k u h1
    refine ⟨by rw [hC]; grind, ?_⟩
    rw [hN2]; exact this.2
    intro hl
    have := hl.2.2 k hk
    simp only [lookup_none_iff_has] at this; grind

theorem SafeS_dissociate (S : TS) (c n : Bytes) (h : SafeS S) : SafeS (sx S (.dissociate c n)) := by
  cases hh : (AL.has S.chans c && AL.has S.nicks n && AL.has S.mem (c, n))
  · rw [sx_dissociate_noop S c n hh]; exact h
  · by_cases hn : n = S.me
    · subst hn; rw [sx_dissociate_me S c hh]; exact SafeS_dropChan S c h
    · obtain ⟨hme, hcm, hnc, hw⟩ := h
      have hC := dissociate_chans S c n hh hn
      have hE := dissociate_me S c n hh hn
      have hM : ∀ k u, AL.has (sx S (.dissociate c n)).mem (k, u) = (AL.has S.mem (k, u) && !decide ((c, n) = (k, u))) := by
        intro k u; simp only [AL.has_eq, dissociate_mem S c n hh hn]; split <;> simp [*]
      by_cases hl : ∀ k, k ≠ c → AL.lookup S.mem (k, n) = none
      · have hN : ∀ u, AL.has (sx S (.dissociate c n)).nicks u = (AL.has S.nicks u && !decide (n = u)) := by
          intro u; simp only [AL.has_eq, dissociate_nicks_last S c n hh hn hl]; split <;> simp [*]
        simp only [lookup_none_iff_has] at hl
        refine ⟨?_, ?_, ?_, ?_⟩
        · grind
        · grind
        · intro u hu
          rw [hN] at hu
          rcases hnc u (by grind) with h1 | ⟨c0, h1⟩
          · grind
          · right; exact ⟨c0, by grind⟩
        · intro k u hku
          have := hw k u (by grind)
          grind
      · have hN := dissociate_nicks_more S c n hh hn hl
        simp only [Classical.not_forall, lookup_none_iff_has] at hl
        obtain ⟨k0, hk0, hk1⟩ := hl
        refine ⟨?_, ?_, ?_, ?_⟩
        · grind
        · grind
        · intro u hu
          rw [hN] at hu
          rcases hnc u hu with h1 | ⟨c0, h1⟩
          · grind
          · right
            by_cases hx : (c, n) = (c0, u)
            · exact ⟨k0, by grind⟩
            · exact ⟨c0, by grind⟩
        · intro k u hku
          have := hw k u (by grind)
          grind

theorem SafeS_delNick (S : TS) (n : Bytes) (h : SafeS S) : SafeS (sx S (.delNick n)) := by
  simp only [sx, Spec.Tracker.step]
  split
  · exact h
  · split
    · exact h
    · rename_i r hr hn
      have hn : n ≠ S.me := by simpa using hn
      show SafeS (dropNick S n)
      obtain ⟨hme, hcm, hnc, hw⟩ := h
      have hC := dropNick_chans S n
      have hE := dropNick_me S n
      have hM : ∀ k u, AL.has (dropNick S n).mem (k, u) = (AL.has S.mem (k, u) && !decide (u = n)) := by
        intro k u; simp only [AL.has_eq, dropNick_mem S n k u hn]; split <;> simp [*]
      have hN : ∀ u, AL.has (dropNick S n).nicks u = (AL.has S.nicks u && !decide (n = u)) := by
        intro u; simp only [AL.has_eq, dropNick_nicks S n u hn]; split <;> simp [*]
      refine ⟨?_, ?_, ?_, ?_⟩
      · grind
      · grind
      · intro u hu
        rw [hN] at hu
        rcases hnc u (by grind) with h1 | ⟨c0, h1⟩
        · grind
        · right; exact ⟨c0, by grind⟩
      · intro k u hku
        have := hw k u (by grind)
        grind

theorem SafeS_reNick (S : TS) (old neu : Bytes) (h : SafeS S) : SafeS (sx S (.reNick old neu)) := by
  cases h1 : AL.lookup S.nicks old with
  | none => rw [sx_reNick_noop S old neu (Or.inl h1)]; exact h
  | some r =>
    cases h2 : AL.has S.nicks neu with
    | true => rw [sx_reNick_noop S old neu (Or.inr h2)]; exact h
    | false =>
      obtain ⟨hme, hcm, hnc, hw⟩ := h
      have hC := reNick_chans S old neu r h1 h2
      have hE := reNick_me S old neu r h1 h2
      have hM : ∀ k u, AL.has (sx S (.reNick old neu)).mem (k, u) =
          if u = neu then AL.has S.mem (k, old) else if u = old then false else AL.has S.mem (k, u) := by
        intro k u; simp only [AL.has_eq, reNick_mem S old neu r h1 h2 hw k u]; split <;> (try split) <;> simp [*]
      have hN : ∀ u, AL.has (sx S (.reNick old neu)).nicks u =
          if neu = u then true else if old = u then false else AL.has S.nicks u := by
        intro u; simp only [AL.has_eq, reNick_nicks S old neu r h1 h2 u]; split <;> (try split) <;> simp [*]
      have hold : AL.has S.nicks old = true := has_of_lookup_s h1
      refine ⟨?_, ?_, ?_, ?_⟩
      · grind
      · intro k hk
        have := hcm k (by grind)
        grind
      · intro u hu
        rw [hN] at hu
        by_cases hun : u = neu
        · subst hun
          rcases hnc old hold with h3 | ⟨c0, h3⟩
          · grind
          · right; exact ⟨c0, by grind⟩
        · rcases hnc u (by grind) with h3 | ⟨c0, h3⟩
          · grind
          · right; exact ⟨c0, by grind⟩
      · intro k u hku
        rw [hM] at hku
        by_cases hun : u = neu
        · have := hw k old (by grind); grind
        · have := hw k u (by grind); grind

/-- operations that change no key set -/
theorem SafeS_of_keys {S T : TS} (h : SafeS S)
    (hN : ∀ u, AL.has T.nicks u = AL.has S.nicks u) (hC : ∀ c, AL.has T.chans c = AL.has S.chans c)
    (hM : ∀ k, AL.has T.mem k = AL.has S.mem k) (hE : T.me = S.me) : SafeS T := by
  obtain ⟨hme, hcm, hnc, hw⟩ := h
  refine ⟨?_, ?_, ?_, ?_⟩
  · grind
  · grind
  · intro u hu
    rcases hnc u (by grind) with h3 | ⟨c0, h3⟩
    · grind
    · right; exact ⟨c0, by grind⟩
  · intro k u hku
    have := hw k u (by grind)
    grind

theorem SafeS_nickInfo (S : TS) (n i h' nm : Bytes) (h : SafeS S) : SafeS (sx S (.nickInfo n i h' nm)) :=
  SafeS_of_keys h (nickInfo_nicks S n i h' nm) (by rw [nickInfo_chans]; simp) (by rw [nickInfo_mem]; simp) (nickInfo_me ..)
theorem SafeS_nickModes (S : TS) (n m : Bytes) (h : SafeS S) : SafeS (sx S (.nickModes n m)) :=
  SafeS_of_keys h (nickModes_nicks S n m) (by rw [nickModes_chans]; simp) (by rw [nickModes_mem]; simp) (nickModes_me ..)
theorem SafeS_topic (S : TS) (c t : Bytes) (h : SafeS S) : SafeS (sx S (.topic c t)) :=
  SafeS_of_keys h (by rw [topic_nicks]; simp) (topic_chans S c t) (by rw [topic_mem]; simp) (topic_me ..)
theorem SafeS_channelModes (S : TS) (c m : Bytes) (a : List Bytes) (h : SafeS S) : SafeS (sx S (.channelModes c m a)) :=
  SafeS_of_keys h (by rw [channelModes_nicks]; simp) (channelModes_chans S c m a) (channelModes_mem S c m a) (channelModes_me ..)

theorem SafeS_t_001 (S : TS) (l : Line) (h : SafeS S) : SafeS (t_001 S l) := by
  unfold t_001
  apply SafeS_reNick
  split
  · exact SafeS_nickInfo _ _ _ _ _ h
  · exact h

theorem SafeS_t_433 (nn : Bytes → Bytes) (S : TS) (l : Line) (h : SafeS S) : SafeS (t_433 nn S l) := by
  unfold t_433
  split
  · exact h
  · split
    · exact SafeS_reNick _ _ _ h
    · exact h

theorem SafeS_t_STNICK (S : TS) (l : Line) (h : SafeS S) : SafeS (t_STNICK S l) := by
  unfold t_STNICK
  split
  · exact h
  · exact SafeS_reNick _ _ _ h

theorem SafeS_t_PART (S : TS) (l : Line) (h : SafeS S) : SafeS (t_PART S l) := by
  unfold t_PART
  split
  · exact h
  · exact SafeS_dissociate _ _ _ h

theorem SafeS_t_KICK (S : TS) (l : Line) (h : SafeS S) : SafeS (t_KICK S l) := by
  unfold t_KICK
  split
  · exact SafeS_dissociate _ _ _ h
  · exact h

theorem SafeS_t_QUIT (S : TS) (l : Line) (h : SafeS S) : SafeS (t_QUIT S l) := SafeS_delNick _ _ h

theorem SafeS_t_MODE (S : TS) (l : Line) (h : SafeS S) : SafeS (t_MODE S l) := by
  unfold t_MODE
  split
  · split
    · exact SafeS_channelModes _ _ _ _ h
    · split
      · split
        · exact SafeS_nickModes _ _ _ h
        · exact h
      · exact h
  · exact h

theorem SafeS_t_TOPIC (S : TS) (l : Line) (h : SafeS S) : SafeS (t_TOPIC S l) := by
  unfold t_TOPIC
  split
  · split
    · exact SafeS_topic _ _ _ h
    · exact h
  · exact h

theorem SafeS_t_311 (S : TS) (l : Line) (h : SafeS S) : SafeS (t_311 S l) := by
  unfold t_311
  split
  · split
    · split
      · exact SafeS_nickInfo _ _ _ _ _ h
      · exact h
    · exact h
  · exact h

theorem SafeS_t_324 (S : TS) (l : Line) (h : SafeS S) : SafeS (t_324 S l) := by
  unfold t_324
  split
  · split
    · exact SafeS_channelModes _ _ _ _ h
    · exact h
  · exact h

theorem SafeS_t_332 (S : TS) (l : Line) (h : SafeS S) : SafeS (t_332 S l) := by
  unfold t_332
  split
  · split
    · exact SafeS_topic _ _ _ h
    · exact h
  · exact h

theorem SafeS_t_671 (S : TS) (l : Line) (h : SafeS S) : SafeS (t_671 S l) := by
  unfold t_671
  split
  · split
    · exact SafeS_nickModes _ _ _ h
    · exact h
  · exact h

theorem SafeS_ite {p : Prop} [Decidable p] {A B : TS} (ha : SafeS A) (hb : SafeS B) : SafeS (if p then A else B) := by
  split <;> assumption

theorem SafeS_t_352 (S : TS) (l : Line) (h : SafeS S) : SafeS (t_352 S l) := by
  unfold t_352
  split
  · split
    · exact h
    · split
      · exact h
      · split
        · exact h
        · split
          · exact SafeS_nickInfo _ _ _ _ _ h
          · dsimp only
            refine SafeS_ite (SafeS_nickModes _ _ _ ?_) ?_ <;>
            refine SafeS_ite (SafeS_nickModes _ _ _ ?_) ?_ <;>
            refine SafeS_ite (SafeS_nickModes _ _ _ ?_) ?_ <;> exact SafeS_nickInfo _ _ _ _ _ h
  · exact h

/-- a state that extends `S` by at most one channel `c` (with the client on it) and one nick `n` (on `c`) -/
theorem SafeS_extend {S T : TS} (c n : Bytes) (h : SafeS S) (hE : T.me = S.me)
    (hN1 : ∀ u, AL.has S.nicks u = true → AL.has T.nicks u = true)
    (hC1 : ∀ k, AL.has S.chans k = true → AL.has T.chans k = true)
    (hM1 : ∀ k, AL.has S.mem k = true → AL.has T.mem k = true)
    (hN2 : ∀ u, AL.has T.nicks u = true → AL.has S.nicks u = true ∨ (u = n ∧ AL.has T.mem (c, n) = true))
    (hC2 : ∀ k, AL.has T.chans k = true → AL.has S.chans k = true ∨ (k = c ∧ AL.has T.mem (c, S.me) = true))
    (hM2 : ∀ k u, AL.has T.mem (k, u) = true → AL.has S.mem (k, u) = true ∨ (AL.has T.chans k = true ∧ AL.has T.nicks u = true)) :
    SafeS T := by
  obtain ⟨hme, hcm, hnc, hw⟩ := h
  refine ⟨?_, ?_, ?_, ?_⟩
  · grind
  · intro k hk
    rcases hC2 k hk with h1 | h1
    · rw [hE]; exact hM1 _ (hcm k h1)
    · grind
  · intro u hu
    rcases hN2 u hu with h1 | h1
    · rcases hnc u h1 with h3 | ⟨c0, h3⟩
      · grind
      · right; exact ⟨c0, hM1 _ h3⟩
    · right; exact ⟨c, by grind⟩
  · intro k u hku
    rcases hM2 k u hku with h1 | h1
    · have := hw k u h1; grind
    · exact h1

theorem SafeS_t_JOIN (S : TS) (l : Line) (h : SafeS S) : SafeS (t_JOIN S l) := by
  unfold t_JOIN
  split
  · exact h
  · rename_i chn _
    split
    · exact h
    · rename_i hc
      have hw := h.wfs
      dsimp only
      apply SafeS_extend chn l.nick h
      all_goals (split <;> split)
      all_goals simp only [associate_me, associate_nicks, associate_chans, associate_mem,
          nickInfo_me, nickInfo_nicks, nickInfo_chans, nickInfo_mem,
          newNick_me, newNick_nicks, newNick_chans, newNick_mem,
          newChannel_me, newChannel_nicks, newChannel_chans, newChannel_mem]
      all_goals grind

theorem tName_chans (chn : Bytes) (S : TS) (w : Bytes) (k : Bytes) :
    AL.has (tName chn S w).chans k = AL.has S.chans k := by
  unfold tName
  split
  · rfl
  · rename_i b tl
    dsimp only
    generalize (if (prefixMode b).isSome = true then tl else b :: tl) = nick
    have key : AL.has (if sIsOn (if (!AL.has S.nicks nick) = true then sx S (Op.newNick nick) else S) chn nick = true then
          if (!AL.has S.nicks nick) = true then sx S (Op.newNick nick) else S
        else sx (if (!AL.has S.nicks nick) = true then sx S (Op.newNick nick) else S) (Op.associate chn nick)).chans k
        = AL.has S.chans k := by
      split <;> split <;> simp only [associate_chans, newNick_chans]
    split
    · rw [channelModes_chans]; exact key
    · exact key

theorem SafeS_tName (chn : Bytes) (S : TS) (w : Bytes) (h : SafeS S) (hc : AL.has S.chans chn = true) :
    SafeS (tName chn S w) := by
  unfold tName
  split
  · exact h
  · rename_i b tl
    dsimp only
    generalize (if (prefixMode b).isSome = true then tl else b :: tl) = nick
    have key : SafeS (if sIsOn (if (!AL.has S.nicks nick) = true then sx S (Op.newNick nick) else S) chn nick = true then
          if (!AL.has S.nicks nick) = true then sx S (Op.newNick nick) else S
        else sx (if (!AL.has S.nicks nick) = true then sx S (Op.newNick nick) else S) (Op.associate chn nick)) := by
      have hw := h.wfs chn nick
      have hcm := h.chan_me chn hc
      apply SafeS_extend chn nick h
      all_goals (split <;> split)
      all_goals simp only [associate_me, associate_nicks, associate_chans, associate_mem,
          newNick_me, newNick_nicks, newNick_chans, newNick_mem, sIsOn] at *
      all_goals grind
    split
    · exact SafeS_channelModes _ _ _ _ key
    · exact key

theorem SafeS_tNames (chn : Bytes) (ws : List Bytes) (S : TS) (h : SafeS S) (hc : AL.has S.chans chn = true) :
    SafeS (tNames chn S ws) := by
  unfold tNames
  induction ws generalizing S with
  | nil => exact h
  | cons w ws ih =>
    rw [List.foldl_cons]
    exact ih _ (SafeS_tName chn S w h hc) (by rw [tName_chans]; exact hc)

theorem SafeS_t_353 (S : TS) (l : Line) (h : SafeS S) : SafeS (t_353 S l) := by
  unfold t_353
  split
  · split
    · exact SafeS_tNames _ _ _ h ‹_›
    · exact h
  · exact h

end Proofs.C13
