import Goirc.Proofs.C13Defs
import Goirc.Proofs.AList
import Goirc.Proofs.C13InvAuxView
import Goirc.Proofs.C13InvAuxGround
/-!
# C13: the invariant of the model network is established by `start` and kept by `serverStep`

`NetInv` is split into a ground-truth part `GInv` (C13InvAuxGround.lean) and a view part `VInv`
over the abstract membership relation `onChan n` (C13InvAuxView.lean); every event is a
ground-truth update described by its effect on `onChan`, and the matching view update.
-/
namespace Proofs.C13
open Go Go.Client Go.Tracker Spec.Tracker Spec.Net

/-- sharing a channel with the client, said with `onChan` -/
theorem sharesWithMe_iff (n : Net) (hnd : (AL.keys n.chans).Nodup) (u : Bytes) :
    sharesWithMe n u = true ↔ ∃ c, onChan n u c = true ∧ onChan n n.me c = true :=
  sharesWithMe_iff' n hnd u

theorem NetInv_start (me ident host real : Bytes) (others : List (Bytes × NUser))
    (hme : nickOk me = true ∧ nameOk ident = true ∧ nameOk host = true ∧ textOk real = true)
    (hothers : ∀ u ∈ others, nickOk u.1 = true ∧ nameOk u.2.ident = true ∧ nameOk u.2.host = true ∧ textOk u.2.real = true) :
    NetInv (start me ident host real others) := by
  refine ⟨rfl, ?_, ?_, List.nodup_nil, (fun c ch hl => by cases hl), fun c => rfl, fun c u => rfl, fun u => ?_, List.nodup_nil⟩
  · show AL.has ((me, _) :: others) me = true
    rw [has_cons]; simp
  · intro u x hl
    change AL.lookup ((me, (⟨ident, host, real⟩ : NUser)) :: others) u = some x at hl
    rcases List.mem_cons.1 (AL.mem_of_lookup hl) with h | h
    · cases h; exact hme
    · exact hothers _ h
  · show AL.has [(me, _)] u = (u == me || false)
    rw [has_cons, has_nil]
    by_cases h : me = u
    · subst h; simp
    · have : ¬ u = me := fun h1 => h h1.symm
      simp [h, this]

/-! ## assembling -/

theorem NetInv.mk_view {n1 : Net} {v : S} (hg : GInv n1) (hv : VInv n1.me (onChan n1) v) :
    NetInv { n1 with view := v } :=
  NetInv.of (hg.of_eq rfl rfl rfl) hv

theorem VInv.on_eq {me : Bytes} {on on' : Bytes → Bytes → Bool} {v : S} (h : VInv me on v)
    (he : ∀ w c, on' w c = on w c) : VInv me on' v :=
  h.congr (fun _ => he _ _) (fun _ _ _ => he _ _)

/-! ## the events -/

theorem NetInv_join (n : Net) (u c : Bytes) (hi : NetInv n) (hc : conforms n (.join u c) = true) :
    NetInv (serverStep n (.join u c)).1 := by
  have hg := hi.ground
  have hv := hi.vinv
  simp only [conforms, Bool.and_eq_true, Bool.not_eq_true'] at hc
  obtain ⟨⟨hu, hok⟩, hn⟩ := hc
  obtain ⟨g1, g2, g3⟩ := join_ground hg hu hok hn (if AL.has n.chans c then {} else {op := true})
  simp only [serverStep]
  split
  · rename_i hme
    have hme : u = n.me := beq_iff_eq.1 hme
    subst hme
    refine NetInv.mk_view g1 (VInv.join_me hv _ _ ?_ hn (fun w c' => onChan_setChan _ _ _ _ _))
    rw [g2]; simp
  · rename_i hme
    have hme : u ≠ n.me := fun h => hme (beq_iff_eq.2 h)
    split
    · rename_i hvis
      exact NetInv.mk_view g1 (VInv.join_other hv hvis hme _ _ g3)
    · rename_i hvis
      refine NetInv.of g1 (hv.congr (fun c' => ?_) (fun w c' hc' => ?_))
      · show onChan (setChan n c _) n.me c' = _
        rw [g3]; simp [Ne.symm hme]
      · show onChan (setChan n c _) w c' = _
        rw [g3]
        have : c' ≠ c := by intro h; subst h; exact hvis hc'
        simp [this]

/-- `.part` and `.kick` -/
theorem NetInv_leave_core (n : Net) (u c line : Bytes) (hi : NetInv n) :
    NetInv (if onChan n n.me c then ({ leave n u c with view := viewLeave (leave n u c).view u c }, [line])
      else (leave n u c, [])).1 := by
  have hg := hi.ground
  have hv := hi.vinv
  split
  · rename_i hvis
    refine NetInv.mk_view (hg.leave u c) ?_
    rw [leave_me, leave_view_v]
    exact VInv.leave hv hvis (onChan_leave n u c)
  · rename_i hvis
    refine NetInv.of (hg.leave u c) ?_
    show VInv (leave n u c).me (onChan (leave n u c)) (leave n u c).view
    rw [leave_me, leave_view_v]
    refine hv.congr (fun c' => ?_) (fun w c' hc' => ?_)
    · rw [onChan_leave]; grind
    · rw [onChan_leave]; grind

theorem NetInv_part (n : Net) (u c : Bytes) (hi : NetInv n) : NetInv (serverStep n (.part u c)).1 :=
  NetInv_leave_core n u c _ hi

theorem NetInv_kick (n : Net) (k c v : Bytes) (hi : NetInv n) : NetInv (serverStep n (.kick k c v)).1 :=
  NetInv_leave_core n v c _ hi

theorem NetInv_quit_core {n n1 : Net} (hi : NetInv n) {u line : Bytes} (hu : u ≠ n.me)
    (q1 : GInv { n1 with users := AL.erase n1.users u }) (q2 : n1.me = n.me) (q3 : n1.view = n.view)
    (q4 : ∀ w c', onChan n1 w c' = (onChan n w c' && !decide (w = u))) :
    NetInv (if sharesWithMe n u then
        ({ n1 with users := AL.erase n1.users u,
                   view := { n1.view with nicks := AL.erase n1.view.nicks u, mem := n1.view.mem.filter (fun m => m.1.2 != u) } }, [line])
      else ({ n1 with users := AL.erase n1.users u }, [])).1 := by
  have hg := hi.ground
  have hv := hi.vinv
  obtain ⟨me1, users1, chans1, view1⟩ := n1
  simp only at q2 q3
  subst q2 q3
  split
  · exact NetInv.mk_view q1 (VInv.quit hv hu q4)
  · rename_i hvis
    rw [Bool.not_eq_true, ← Bool.not_eq_true, sharesWithMe_iff' n hg.chans_nodup] at hvis
    refine NetInv.of q1 (hv.congr (fun c' => ?_) (fun w c' hc' => ?_))
    · show onChan ⟨n.me, users1, chans1, n.view⟩ n.me c' = _
      rw [q4]; simp [Ne.symm hu]
    · show onChan ⟨n.me, users1, chans1, n.view⟩ w c' = _
      rw [q4]
      by_cases h : w = u
      · subst h
        cases h1 : onChan n w c' with
        | false => rfl
        | true => exact absurd ⟨c', h1, hc'⟩ hvis
      · simp [h]

theorem NetInv_quit (n : Net) (u : Bytes) (hi : NetInv n) (hc : conforms n (.quit u) = true) :
    NetInv (serverStep n (.quit u)).1 := by
  simp only [conforms, Bool.and_eq_true, bne_iff_ne, ne_eq] at hc
  obtain ⟨q1, q2, q3, q4⟩ := quit_ground hi.ground hc.1
  exact NetInv_quit_core hi hc.1 q1 q2 q3 q4

theorem NetInv_nick_core (n : Net) (u nw line : Bytes) (hi : NetInv n) (hu : AL.has n.users u = true)
    (hnw : AL.has n.users nw = false) (hok : nickOk nw = true) :
    NetInv (if (u == n.me || sharesWithMe n u) then
        (match AL.lookup n.view.nicks u with
         | some r =>
           ({ nickNet n u nw with
                view := { n.view with nicks := AL.insert (AL.erase n.view.nicks u) nw r,
                                      mem := n.view.mem.map (fun m => if m.1.2 == u then ((m.1.1, nw), m.2) else m),
                                      me := if n.view.me == u then nw else n.view.me } }, [line])
         | none => (nickNet n u nw, [line]))
      else (nickNet n u nw, [])).1 := by
  have hg := hi.ground
  have hv := hi.vinv
  obtain ⟨g1, g2⟩ := nick_ground hg hu hnw hok
  have hne : u ≠ nw := by intro h1; subst h1; rw [hu] at hnw; cases hnw
  have hnm : nw ≠ n.me := by intro h1; subst h1; rw [hg.me_user] at hnw; cases hnw
  have hfresh : ∀ c, onChan n nw c = false := by
    intro c
    cases h : onChan n nw c with
    | false => rfl
    | true => rw [onChan_users hg h] at hnw; cases hnw
  have hvn := hv.nicks u
  rw [← sharesWithMe_iff' n hg.chans_nodup] at hvn
  split
  · rename_i hvis
    simp only [Bool.or_eq_true, beq_iff_eq] at hvis
    have hr := hvn.2 hvis
    split
    · rename_i r hl
      refine NetInv.mk_view g1 ?_
      have := VInv.nick (r := r) hv hne hfresh hnm hr g2
      rw [hv.me_eq] at this ⊢
      exact this
    · rename_i hl
      rw [AL.has_eq, hl] at hr; cases hr
  · rename_i hvis
    simp only [Bool.or_eq_true, beq_iff_eq, not_or] at hvis
    rw [sharesWithMe_iff' n hg.chans_nodup] at hvis
    have hme : (nickNet n u nw).me = n.me := by
      show (if u == n.me then nw else n.me) = n.me
      have : (u == n.me) = false := by simp [hvis.1]
      rw [this]; rfl
    refine NetInv.of g1 ?_
    show VInv (nickNet n u nw).me (onChan (nickNet n u nw)) n.view
    rw [hme]
    have hns : ∀ c, onChan n n.me c = true → onChan n u c = false := by
      intro c hc'
      cases h1 : onChan n u c with
      | false => rfl
      | true => exact absurd ⟨c, h1, hc'⟩ hvis.2
    refine hv.congr (fun c' => ?_) (fun w c' hc' => ?_)
    · rw [g2]; have := hvis.1; grind
    · rw [g2]; have := hns c' hc'; have := hfresh c'; grind

theorem NetInv_nick (n : Net) (u nw : Bytes) (hi : NetInv n) (hc : conforms n (.nick u nw) = true)
    (he : nickHeadOk nw = true) : NetInv (serverStep n (.nick u nw)).1 := by
  simp only [conforms, Bool.and_eq_true, Bool.not_eq_true'] at hc
  exact NetInv_nick_core n u nw _ hi hc.1.1 hc.1.2 (by simp only [nickOk, hc.2, he]; rfl)

theorem NetInv_topic (n : Net) (u c t : Bytes) (hi : NetInv n) (hc : conforms n (.topic u c t) = true) :
    NetInv (serverStep n (.topic u c t)).1 := by
  have hg := hi.ground
  have hv := hi.vinv
  simp only [conforms, Bool.and_eq_true] at hc
  simp only [serverStep]
  split
  · rename_i ch hl
    have hci := hg.chan_inv c ch hl
    have g1 : GInv (setChan n c { ch with topic := t }) :=
      hg.setChan ⟨hci.name, hc.2, hci.key, hci.limit, hci.members_nodup, hci.members_users⟩
    have g2 : ∀ w c', onChan (setChan n c { ch with topic := t }) w c' = onChan n w c' :=
      onChan_setChan_same hl (fun _ => rfl)
    split
    · rename_i hvis
      refine NetInv.mk_view g1 ((hv.on_eq g2).sameKeys (SameKeys.set_chan _ _ _ ?_))
      rw [hv.chans]; exact hvis
    · exact NetInv.of g1 (hv.on_eq g2)
  · exact hi

theorem NetInv_mode (n : Net) (u c : Bytes) (chs : List ModeChange) (hi : NetInv n)
    (hc : conforms n (.mode u c chs) = true) : NetInv (serverStep n (.mode u c chs)).1 := by
  have hg := hi.ground
  have hv := hi.vinv
  simp only [conforms, Bool.and_eq_true] at hc
  simp only [serverStep]
  split
  · rename_i ch hl
    obtain ⟨s1, s2⟩ := foldl_applyChange_spec chs (hg.chan_inv c ch hl) hc.1.2
    have g1 : GInv (setChan n c (chs.foldl applyChange ch)) := hg.setChan s1
    have g2 : ∀ w c', onChan (setChan n c (chs.foldl applyChange ch)) w c' = onChan n w c' :=
      onChan_setChan_same hl s2
    split
    · exact NetInv.mk_view g1 ((hv.on_eq g2).sameKeys (SameKeys.foldl_viewApplyChange c chs _))
    · exact NetInv.of g1 (hv.on_eq g2)
  · exact hi

theorem NetInv_answerMode (n : Net) (c : Bytes) (hi : NetInv n) (hc : conforms n (.answerMode c) = true) :
    NetInv (serverStep n (.answerMode c)).1 := by
  have hg := hi.ground
  have hv := hi.vinv
  simp only [conforms] at hc
  simp only [serverStep]
  split
  · refine NetInv.mk_view hg (hv.sameKeys (SameKeys.set_chan _ _ _ ?_))
    rw [hv.chans]; exact hc
  · exact hi

theorem NetInv_answerWho (n : Net) (c : Bytes) (hi : NetInv n) :
    NetInv (serverStep n (.answerWho c)).1 := by
  have hg := hi.ground
  have hv := hi.vinv
  simp only [serverStep]
  split
  · exact NetInv.mk_view hg (hv.sameKeys (SameKeys.foldl_who n.users _ _))
  · exact hi

theorem NetInv_umode (n : Net) (add : Bool) (l : UInt8) (hi : NetInv n) :
    NetInv (serverStep n (.umode add l)).1 := by
  have hg := hi.ground
  have hv := hi.vinv
  simp only [serverStep]
  refine NetInv.mk_view hg (hv.sameKeys (SameKeys.set_nick _ _ _ ?_))
  rw [hv.me_eq, hv.nicks]; exact Or.inl rfl

theorem NetInv_step (n : Net) (e : Event) (hi : NetInv n) (hc : conforms n e = true) (he : evOk e) :
    NetInv (serverStep n e).1 := by
  cases e with
  | join u c => exact NetInv_join n u c hi hc
  | part u c => exact NetInv_part n u c hi
  | kick k c v => exact NetInv_kick n k c v hi
  | quit u => exact NetInv_quit n u hi hc
  | nick u nw => exact NetInv_nick n u nw hi hc he
  | topic u c t => exact NetInv_topic n u c t hi hc
  | mode u c chs => exact NetInv_mode n u c chs hi hc
  | answerMode c => exact NetInv_answerMode n c hi hc
  | answerWho c => exact NetInv_answerWho n c hi
  | umode add l => exact NetInv_umode n add l hi

end Proofs.C13
