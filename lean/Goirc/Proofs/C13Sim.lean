import Goirc.Proofs.C13Defs
/-!
# C13: the client's handlers over the heap tracker are simulated by their relational twins
-/
namespace Proofs.C13
open Go Go.Client Go.Tracker Spec.Tracker Spec.Net

set_option linter.unusedSimpArgs false

/-! ## basic lemmas: `tk`, `refreshMe`, `setMeFrom` -/

theorem tk_some {c : Client} {st : St} (h : c.st = some st) (op : Op) :
    tk c op = ({ c with st := some (Go.Tracker.step st op).1 }, (Go.Tracker.step st op).2) := by
  simp only [tk, h]

/-- one tracker call of a handler, on both sides -/
theorem tk_cases {ext : UnicodeExt} {nn : Bytes → Bytes} {c : Client} {S : TS} (h : CRx ext nn c S) (op : Op) :
    ∃ c' r, tk c op = (c', r) ∧ CRx ext nn c' (sx S op) ∧ RetSim r (Spec.Tracker.step S op).2 := by
  obtain ⟨he, hn, st, hst, hr⟩ := h
  have hs := Spec.Tracker.step_sim hr op
  exact ⟨_, _, tk_some hst op, ⟨he, hn, _, rfl, hs.1⟩, hs.2⟩

theorem tk_fst {ext : UnicodeExt} {nn : Bytes → Bytes} {c : Client} {S : TS} (h : CRx ext nn c S) (op : Op) :
    CRx ext nn (tk c op).1 (sx S op) := by
  obtain ⟨c', r, e, h', _⟩ := tk_cases h op
  rw [e]; exact h'

theorem refreshMe_sim {ext : UnicodeExt} {nn : Bytes → Bytes} {c : Client} {S : TS} (h : CRx ext nn c S) :
    CRx ext nn (refreshMe c) S := by
  obtain ⟨he, hn, st, hst, hr⟩ := h
  simp only [refreshMe, hst]
  exact ⟨he, hn, st, rfl, hr⟩

theorem setMeFrom_sim {ext : UnicodeExt} {nn : Bytes → Bytes} {c : Client} {S : TS} (h : CRx ext nn c S)
    (n : NickSnap) : CRx ext nn (setMeFrom c n) S := h

theorem refreshMe_cfg {ext : UnicodeExt} {nn : Bytes → Bytes} {c : Client} {S : TS} (h : CRx ext nn c S) :
    (refreshMe c).cfg.meNil = false ∧ (refreshMe c).cfg.meNick = S.me ∧ (refreshMe c).cfg.meName = meName S := by
  obtain ⟨he, hn, st, hst, hr⟩ := h
  have hs := Spec.Tracker.nickSnap_sim hr hr.2.me
  simp only [refreshMe, hst]
  exact ⟨trivial, hs.1, hs.2.2.2.1⟩

/-! ## queries do not change the relational state -/

@[simp] theorem sx_getNick_m (S : TS) (n : Bytes) : sx S (.getNick n) = S := by
  simp only [sx, Spec.Tracker.step]; split <;> rfl

@[simp] theorem sx_getChannel_m (S : TS) (n : Bytes) : sx S (.getChannel n) = S := by
  simp only [sx, Spec.Tracker.step]; split <;> rfl

@[simp] theorem sx_isOn_m (S : TS) (c n : Bytes) : sx S (.isOn c n) = S := by
  simp only [sx, Spec.Tracker.step]; split
  · split <;> rfl
  · rfl

/-! ## observations -/

theorem obs_getNick {S : TS} {n : Bytes} {r : Ret} (h : RetSim r (Spec.Tracker.step S (.getNick n)).2) :
    (retNick r).isSome = AL.has S.nicks n ∧ (retNick r).isNone = !AL.has S.nicks n ∧
      ∀ nk, retNick r = some nk → nk.nick = n := by
  simp only [Spec.Tracker.step] at h
  split at h
  · rename_i hh
    cases r <;> simp only [RetSim] at h
    rename_i o; cases o <;> simp only [RetSim] at h
    simp only [retNick, hh, Option.isSome_some, Option.isNone_some, Bool.not_true, true_and]
    intro nk e; cases e; exact h.1
  · rename_i hh
    cases r <;> simp only [RetSim] at h
    rename_i o; cases o <;> simp only [RetSim] at h
    simp [retNick, hh]

theorem obs_getChannel {S : TS} {n : Bytes} {r : Ret} (h : RetSim r (Spec.Tracker.step S (.getChannel n)).2) :
    (retChan r).isSome = AL.has S.chans n ∧ (retChan r).isNone = !AL.has S.chans n ∧
      ∀ ch, retChan r = some ch → ch.name = n := by
  simp only [Spec.Tracker.step] at h
  split at h
  · rename_i hh
    cases r <;> simp only [RetSim] at h
    rename_i o; cases o <;> simp only [RetSim] at h
    simp only [retChan, hh, Option.isSome_some, Option.isNone_some, Bool.not_true, true_and]
    intro nk e; cases e; exact h.1
  · rename_i hh
    cases r <;> simp only [RetSim] at h
    rename_i o; cases o <;> simp only [RetSim] at h
    simp [retChan, hh]

/-- `conn.Me().Equals(nk)` for the answer of `GetNick(n)` -/
theorem isMe_eq {ext : UnicodeExt} {nn : Bytes → Bytes} {c : Client} {S : TS} (h : CRx ext nn c S)
    {n : Bytes} {r : Ret} (hr : RetSim r (Spec.Tracker.step S (.getNick n)).2) :
    isMe c (retNick r) = (AL.has S.nicks n && n == S.me) := by
  obtain ⟨h1, _, h3⟩ := obs_getNick hr
  unfold isMe
  cases hq : retNick r with
  | none => rw [hq] at h1; simp [← h1]
  | some nk =>
    rw [hq] at h1
    simp only [(refreshMe_cfg h).2.1, h3 nk hq, ← h1, Option.isSome_some, Bool.true_and]

/-! ## the internal handlers that use the tracker -/

section
variable {ext : UnicodeExt} {nn : Bytes → Bytes} {c : Client} {S : TS}

theorem sim_001 (h : CRx ext nn c S) (l : Line) : CRx ext nn (h_001 c l).c (t_001 S l) := by
  have hr := refreshMe_sim h
  obtain ⟨m1, m2, m3⟩ := refreshMe_cfg h
  obtain ⟨st, hst, _⟩ := hr.2.2
  unfold h_001 t_001
  simp only [m1, m2, m3, hst, Bool.false_eq_true, if_false]
  cases huh : parseUserHost (lastWord l.text) with
  | none =>
    obtain ⟨c2, r, e, h2, _⟩ := tk_cases hr (.reNick S.me l.target)
    simp only [e]
    split <;> exact h2
  | some t =>
    obtain ⟨a, ident, host⟩ := t
    obtain ⟨c1, r1, e1, h1, _⟩ := tk_cases hr (.nickInfo S.me ident host (meName S))
    obtain ⟨c2, r, e, h2, _⟩ := tk_cases h1 (.reNick S.me l.target)
    simp only [e1, e]
    split <;> exact h2

theorem sim_433 (h : CRx ext nn c S) (l : Line) : CRx ext nn (h_433 c l).c (t_433 nn S l) := by
  have hr := refreshMe_sim h
  obtain ⟨m1, m2, m3⟩ := refreshMe_cfg h
  obtain ⟨st, hst, _⟩ := hr.2.2
  unfold h_433 t_433
  simp only [m1, m2, hst, hr.2.1, Bool.false_eq_true, if_false]
  cases ha : arg l 1 with
  | none => exact hr
  | some refused =>
    simp only []
    by_cases hm : (refused == S.me) = true
    · simp only [hm, if_true]
      obtain ⟨c2, r, e, h2, _⟩ := tk_cases hr (.reNick S.me (nn refused))
      simp only [e]
      split <;> exact h2
    · simp only [hm, if_false]
      exact hr

theorem sim_STNICK (h : CRx ext nn c S) (l : Line) : CRx ext nn (h_STNICK c l).c (t_STNICK S l) := by
  unfold h_STNICK t_STNICK
  cases ha : arg l 0 with
  | none => exact h
  | some a => exact tk_fst h _

end

/-! ## the state handlers -/

/-- close a goal `CRx ext nn (tk (tk .. ..).1 ..).1 (sx (sx .. ..) ..)` from a hypothesis in the context -/
macro "crx_close" : tactic =>
  `(tactic| repeat (first | assumption | apply tk_fst | apply refreshMe_sim))

section
variable {ext : UnicodeExt} {nn : Bytes → Bytes} {c : Client} {S : TS}

theorem sim_JOIN (h : CRx ext nn c S) (l : Line) : CRx ext nn (h_JOIN c l).c (t_JOIN S l) := by
  unfold h_JOIN t_JOIN
  cases ha : arg l 0 with
  | none => exact h
  | some chn =>
    obtain ⟨c1, rc, e1, h1, o1⟩ := tk_cases h (.getChannel chn)
    rw [sx_getChannel_m] at h1
    obtain ⟨c2, rn, e2, h2, o2⟩ := tk_cases h1 (.getNick l.nick)
    rw [sx_getNick_m] at h2
    have oc := obs_getChannel o1
    have on := obs_getNick o2
    simp only [e1, e2, isMe_eq h2 o2, oc.2.1, on.2.1]
    by_cases hc : AL.has S.chans chn = true <;> by_cases hn : AL.has S.nicks l.nick = true <;>
      by_cases hm : (l.nick == S.me) = true <;>
      simp only [hc, hn, hm, Bool.not_true, Bool.not_false, Bool.true_and, Bool.false_and, Bool.and_true, Bool.and_false,
        Bool.false_eq_true, if_true, if_false] <;>
      crx_close

theorem sim_PART (h : CRx ext nn c S) (l : Line) : CRx ext nn (h_PART c l).c (t_PART S l) := by
  unfold h_PART t_PART
  cases ha : arg l 0 with
  | none => exact h
  | some a => exact tk_fst h _

theorem sim_KICK (h : CRx ext nn c S) (l : Line) : CRx ext nn (h_KICK c l).c (t_KICK S l) := by
  unfold h_KICK t_KICK
  rcases h0 : arg l 0 with _ | a <;> rcases h1 : arg l 1 with _ | b <;> try exact h
  exact tk_fst h _

theorem sim_QUIT (h : CRx ext nn c S) (l : Line) : CRx ext nn (h_QUIT c l).c (t_QUIT S l) := tk_fst h _

end

section
variable {ext : UnicodeExt} {nn : Bytes → Bytes} {c : Client} {S : TS}

theorem sim_MODE (h : CRx ext nn c S) (l : Line) : CRx ext nn (h_MODE c l).c (t_MODE S l) := by
  unfold h_MODE t_MODE
  rcases h0 : arg l 0 with _ | t <;> rcases h1 : arg l 1 with _ | m <;> try exact h
  obtain ⟨c1, rc, e1, h1, o1⟩ := tk_cases h (.getChannel t)
  rw [sx_getChannel_m] at h1
  obtain ⟨c2, rn, e2, h2, o2⟩ := tk_cases h1 (.getNick t)
  rw [sx_getNick_m] at h2
  have oc := obs_getChannel o1
  have on := obs_getNick o2
  simp only [e1, e2, isMe_eq h2 o2, oc.1, on.1]
  by_cases hc : AL.has S.chans t = true <;> by_cases hn : AL.has S.nicks t = true <;>
    by_cases hm : (t == S.me) = true <;>
    simp only [hc, hn, hm, Bool.not_true, Bool.not_false, Bool.true_and, Bool.false_and, Bool.and_true, Bool.and_false,
      Bool.false_eq_true, if_true, if_false] <;>
    crx_close

theorem sim_TOPIC (h : CRx ext nn c S) (l : Line) : CRx ext nn (h_TOPIC c l).c (t_TOPIC S l) := by
  unfold h_TOPIC t_TOPIC
  rcases h0 : arg l 0 with _ | t <;> rcases h1 : arg l 1 with _ | m <;> try exact h
  obtain ⟨c1, rc, e1, h1, o1⟩ := tk_cases h (.getChannel t)
  rw [sx_getChannel_m] at h1
  simp only [e1, (obs_getChannel o1).1]
  by_cases hc : AL.has S.chans t = true <;> simp only [hc, Bool.false_eq_true, if_true, if_false] <;> crx_close

theorem sim_311 (h : CRx ext nn c S) (l : Line) : CRx ext nn (h_311 c l).c (t_311 S l) := by
  unfold h_311 t_311
  rcases h1 : arg l 1 with _ | n <;> rcases h2 : arg l 2 with _ | i <;> rcases h3 : arg l 3 with _ | ho <;>
    rcases h5 : arg l 5 with _ | name <;> try exact h
  obtain ⟨c1, rn, e1, h1, o1⟩ := tk_cases h (.getNick n)
  rw [sx_getNick_m] at h1
  simp only [e1, isMe_eq h1 o1, (obs_getNick o1).1]
  by_cases hn : AL.has S.nicks n = true <;> by_cases hm : (n == S.me) = true <;>
    simp only [hn, hm, bne, Bool.not_true, Bool.not_false, Bool.true_and, Bool.false_and, Bool.and_true, Bool.and_false,
      Bool.false_eq_true, if_true, if_false] <;>
    crx_close

theorem sim_324 (h : CRx ext nn c S) (l : Line) : CRx ext nn (h_324 c l).c (t_324 S l) := by
  unfold h_324 t_324
  rcases h0 : arg l 1 with _ | t <;> rcases h1 : arg l 2 with _ | m <;> try exact h
  obtain ⟨c1, rc, e1, h1, o1⟩ := tk_cases h (.getChannel t)
  rw [sx_getChannel_m] at h1
  simp only [e1, (obs_getChannel o1).1]
  by_cases hc : AL.has S.chans t = true <;> simp only [hc, Bool.false_eq_true, if_true, if_false] <;> crx_close

theorem sim_332 (h : CRx ext nn c S) (l : Line) : CRx ext nn (h_332 c l).c (t_332 S l) := by
  unfold h_332 t_332
  rcases h0 : arg l 1 with _ | t <;> rcases h1 : arg l 2 with _ | m <;> try exact h
  obtain ⟨c1, rc, e1, h1, o1⟩ := tk_cases h (.getChannel t)
  rw [sx_getChannel_m] at h1
  simp only [e1, (obs_getChannel o1).1]
  by_cases hc : AL.has S.chans t = true <;> simp only [hc, Bool.false_eq_true, if_true, if_false] <;> crx_close

theorem sim_671 (h : CRx ext nn c S) (l : Line) : CRx ext nn (h_671 c l).c (t_671 S l) := by
  unfold h_671 t_671
  rcases h0 : arg l 1 with _ | n
  · exact h
  obtain ⟨c1, rn, e1, h1, o1⟩ := tk_cases h (.getNick n)
  rw [sx_getNick_m] at h1
  obtain ⟨on1, _, on3⟩ := obs_getNick o1
  simp only [e1]
  cases hq : retNick rn with
  | none =>
    rw [hq] at on1
    simp only [← on1, Option.isSome_none, Bool.false_eq_true, if_false]
    exact h1
  | some nk =>
    rw [hq] at on1
    simp only [← on1, on3 nk hq, Option.isSome_some, if_true]
    crx_close

end

section
variable {ext : UnicodeExt} {nn : Bytes → Bytes} {c : Client} {S : TS}

theorem sim_352 (h : CRx ext nn c S) (l : Line) : CRx ext nn (h_352 c l).c (t_352 S l) := by
  unfold h_352 t_352
  rcases h2 : arg l 2 with _ | ident <;> rcases h3 : arg l 3 with _ | host <;> rcases h5 : arg l 5 with _ | n <;>
    try exact h
  obtain ⟨c1, rn, e1, h1, o1⟩ := tk_cases h (.getNick n)
  rw [sx_getNick_m] at h1
  obtain ⟨on1, _, on3⟩ := obs_getNick o1
  have hme := isMe_eq h1 o1
  simp only [e1]
  cases hq : retNick rn with
  | none =>
    rw [hq] at on1
    simp only [← on1, Option.isSome_none, Bool.not_false, if_true]
    exact h1
  | some nk =>
    rw [hq] at on1 hme
    have hnk := on3 nk hq
    simp only [← on1, Option.isSome_some, Bool.true_and] at hme
    simp only [hme, hnk, ← on1, Option.isSome_some, Bool.not_true, Bool.false_eq_true, if_false]
    by_cases hm : (n == S.me) = true
    · simp only [hm, if_true]; crx_close
    · simp only [hm, if_false]
      rcases hc : cut (l.args.getLast?.getD []) [32] with ⟨x, _ | real⟩
      · simp only []; crx_close
      · simp only []
        rcases h6 : arg l 6 with _ | flags
        · simp only []; crx_close
        · simp only []
          by_cases f1 : Go.Client.contains flags 42 = true <;> by_cases f2 : Go.Client.contains flags 66 = true <;>
            by_cases f3 : Go.Client.contains flags 72 = true <;>
            simp only [f1, f2, f3, Bool.false_eq_true, if_true, if_false] <;> crx_close

theorem obs_isOn {c n : Bytes} {r : Ret} (h : RetSim r (Spec.Tracker.step S (.isOn c n)).2) :
    (∃ p, r = .privs p true ∧ sIsOn S c n = true) ∨ ((∀ p, r ≠ .privs p true) ∧ sIsOn S c n = false) := by
  simp only [Spec.Tracker.step] at h
  unfold sIsOn
  rw [AL.has_eq S.mem]
  split at h
  · rename_i hh
    split at h
    · rename_i p hp
      cases r <;> simp only [RetSim] at h
      left; obtain ⟨rfl, rfl⟩ := h
      exact ⟨_, rfl, by simp [hh, hp]⟩
    · rename_i hp
      cases r <;> simp only [RetSim] at h
      right; obtain ⟨rfl, rfl⟩ := h
      exact ⟨by simp, by simp [hp]⟩
  · rename_i hh
    cases r <;> simp only [RetSim] at h
    right; obtain ⟨rfl, rfl⟩ := h
    exact ⟨by simp, by simp [hh]⟩

end

section
variable {ext : UnicodeExt} {nn : Bytes → Bytes}

/-- one word of a NAMES reply, after the nick has been looked up -/
theorem sim_name_step {c : Client} {S : TS} (h : CRx ext nn c S) (chn nick : Bytes) (pm : Option Bytes) (rest : List Bytes)
    (ih : ∀ {c : Client} {S : TS}, CRx ext nn c S → CRx ext nn (names353 c chn rest) (tNames chn S rest)) :
    CRx ext nn
      (match tk c (.getNick nick) with
        | (c1, rn) =>
          let c2 := if (retNick rn).isNone then (tk c1 (.newNick nick)).1 else c1
          match tk c2 (.isOn chn nick) with
          | (c3, ro) =>
            let c4 := match ro with
              | .privs _ true => c3
              | _ => (tk c3 (.associate chn nick)).1
            let c5 := match pm with
              | some m => (tk c4 (.channelModes chn m [nick])).1
              | none => c4
            names353 c5 chn rest)
      (tNames chn
        (let S2 := if !AL.has S.nicks nick then sx S (.newNick nick) else S
         let S4 := if sIsOn S2 chn nick then S2 else sx S2 (.associate chn nick)
         match pm with
         | some m => sx S4 (.channelModes chn m [nick])
         | none => S4) rest) := by
  obtain ⟨c1, rn, e1, h1, o1⟩ := tk_cases h (.getNick nick)
  rw [sx_getNick_m] at h1
  simp only [e1, (obs_getNick o1).2.1]
  have h2 : CRx ext nn (if (!AL.has S.nicks nick) = true then (tk c1 (.newNick nick)).1 else c1)
      (if (!AL.has S.nicks nick) = true then sx S (.newNick nick) else S) := by
    split <;> crx_close
  generalize (if (!AL.has S.nicks nick) = true then (tk c1 (.newNick nick)).1 else c1) = c2 at h2 ⊢
  generalize (if (!AL.has S.nicks nick) = true then sx S (.newNick nick) else S) = S2 at h2 ⊢
  obtain ⟨c3, ro, e3, h3, o3⟩ := tk_cases h2 (.isOn chn nick)
  rw [sx_isOn_m] at h3
  simp only [e3]
  apply ih
  rcases obs_isOn o3 with ⟨p, rfl, hs⟩ | ⟨hne, hs⟩
  · simp only [hs, if_true]
    cases pm <;> simp only [] <;> crx_close
  · simp only [hs, Bool.false_eq_true, if_false]
    cases ro with
    | privs p ok =>
      cases ok
      · cases pm <;> simp only [] <;> crx_close
      · exact absurd rfl (hne p)
    | _ => cases pm <;> simp only [] <;> crx_close

theorem sim_names (chn : Bytes) (ws : List Bytes) : ∀ {c : Client} {S : TS}, CRx ext nn c S →
    CRx ext nn (names353 c chn ws) (tNames chn S ws) := by
  induction ws with
  | nil => intro c S h; exact h
  | cons w rest ih =>
    intro c S h
    cases w with
    | nil => exact ih h
    | cons b tl => exact sim_name_step h chn _ (prefixMode b) rest ih

theorem sim_353 {c : Client} {S : TS} (h : CRx ext nn c S) (l : Line) : CRx ext nn (h_353 c l).c (t_353 S l) := by
  unfold h_353 t_353
  rcases h0 : arg l 2 with _ | chn
  · exact h
  obtain ⟨c1, rc, e1, h1, o1⟩ := tk_cases h (.getChannel chn)
  rw [sx_getChannel_m] at h1
  obtain ⟨on1, _, on3⟩ := obs_getChannel o1
  simp only [e1]
  cases hq : retChan rc with
  | none =>
    rw [hq] at on1
    simp only [← on1, Option.isSome_none, Bool.false_eq_true, if_false]
    exact h1
  | some ch =>
    rw [hq] at on1
    simp only [← on1, on3 ch hq, Option.isSome_some, if_true]
    exact sim_names chn _ h1

end

/-! ## the internal handlers that do not touch the tracker -/

/-- the handler left the tracker, the case tables and the nick generator alone -/
def Keep (c c' : Client) : Prop := c'.st = c.st ∧ c'.ext = c.ext ∧ c'.newNick = c.newNick

theorem Keep.rfl' {c : Client} : Keep c c := ⟨rfl, rfl, rfl⟩

theorem Keep.crx {ext : UnicodeExt} {nn : Bytes → Bytes} {c c' : Client} {S : TS} (k : Keep c c')
    (h : CRx ext nn c S) : CRx ext nn c' S := by
  obtain ⟨k1, k2, k3⟩ := k
  unfold CRx
  rw [k1, k2, k3]; exact h

theorem keep_REGISTER (c : Client) (l : Line) : Keep c (h_REGISTER c l).c := by
  unfold h_REGISTER; simp only []; split <;> exact Keep.rfl'

theorem keep_CTCP (c : Client) (l : Line) : Keep c (h_CTCP c l).c := by
  unfold h_CTCP
  split
  · exact Keep.rfl'
  · split
    · exact Keep.rfl'
    · split
      · split <;> exact Keep.rfl'
      · exact Keep.rfl'

theorem keep_NICK (c : Client) (l : Line) : Keep c (h_NICK c l).c := by
  unfold h_NICK
  split
  · exact Keep.rfl'
  · split
    · exact Keep.rfl'
    · split
      · split <;> exact Keep.rfl'
      · exact Keep.rfl'

theorem keep_PING (c : Client) (l : Line) : Keep c (h_PING c l).c := by
  unfold h_PING; split <;> exact Keep.rfl'

theorem keep_negotiate (c : Client) (adv : List Bytes) : Keep c (negotiate c adv).c := by
  unfold negotiate; simp only []; split <;> exact Keep.rfl'

theorem keep_capAckLoop : ∀ (caps : List Bytes) (c : Client) (out : List Bytes) (got : Bool),
    Keep c (capAckLoop c caps out got).1
  | [], c, out, got => Keep.rfl'
  | cap :: rest, c, out, got => by
    simp only [capAckLoop]
    split
    · split
      · exact keep_capAckLoop rest _ _ _
      · exact keep_capAckLoop rest _ _ _
    · exact keep_capAckLoop rest _ _ _

theorem keep_handleCapAck (c : Client) (caps : List Bytes) : Keep c (handleCapAck c caps).c := by
  unfold handleCapAck
  have := keep_capAckLoop caps c [] false
  revert this
  rcases capAckLoop c caps [] false with ⟨c1, out, got⟩
  intro this
  simp only []
  split <;> exact this

theorem keep_CAP (c : Client) (l : Line) : Keep c (h_CAP c l).c := by
  unfold h_CAP
  split
  · exact Keep.rfl'
  · simp only []
    split
    · exact keep_negotiate _ _
    · split
      · exact keep_handleCapAck _ _
      · split <;> exact Keep.rfl'

theorem keep_410 (c : Client) (l : Line) : Keep c (h_410 c l).c := by
  unfold h_410; split <;> exact Keep.rfl'

theorem keep_AUTHENTICATE (c : Client) (l : Line) : Keep c (h_AUTHENTICATE c l).c := by
  unfold h_AUTHENTICATE
  split
  · exact Keep.rfl'
  · split
    · exact Keep.rfl'
    · split <;> exact Keep.rfl'

theorem keep_903 (c : Client) (l : Line) : Keep c (h_903 c l).c := Keep.rfl'
theorem keep_904 (c : Client) (l : Line) : Keep c (h_904 c l).c := Keep.rfl'
theorem keep_908 (c : Client) (l : Line) : Keep c (h_908 c l).c := by
  unfold h_908; split <;> exact Keep.rfl'

/-! ## dispatch -/

section
variable {ext : UnicodeExt} {nn : Bytes → Bytes}

theorem int_keep (ev : Bytes) (hd : Client → Line → HR) (hh : intHandler ev = some hd)
    (h1 : (ev == lit "001") = false) (h2 : (ev == lit "433") = false) (c : Client) (l : Line) :
    Keep c (hd c l).c := by
  unfold intHandler at hh
  simp only [h1, h2, Bool.false_eq_true, if_false] at hh
  split at hh
  · cases hh; exact keep_REGISTER c l
  split at hh
  · cases hh; exact keep_CTCP c l
  split at hh
  · cases hh; exact keep_NICK c l
  split at hh
  · cases hh; exact keep_PING c l
  split at hh
  · cases hh; exact keep_CAP c l
  split at hh
  · cases hh; exact keep_410 c l
  split at hh
  · cases hh; exact keep_AUTHENTICATE c l
  split at hh
  · cases hh; exact keep_903 c l
  split at hh
  · cases hh; exact keep_904 c l
  split at hh
  · cases hh; exact keep_908 c l
  · cases hh

/-- the `intHandlers` part of the dispatch -/
theorem int_sim {c : Client} {S : TS} (h : CRx ext nn c S) (ev : Bytes) (l : Line) :
    CRx ext nn (match intHandler ev with
        | some hd => hd c l
        | none => { c := c }).c
      (if ev == lit "001" then t_001 S l else if ev == lit "433" then t_433 nn S l else S) := by
  by_cases h1 : (ev == lit "001") = true
  · have := eq_of_beq h1; subst this
    exact sim_001 h l
  by_cases h2 : (ev == lit "433") = true
  · have := eq_of_beq h2; subst this
    exact sim_433 h l
  simp only [h1, h2, Bool.false_eq_true, if_false]
  cases hh : intHandler ev with
  | none => exact h
  | some hd => exact (int_keep ev hd hh (by simpa using h1) (by simpa using h2) c l).crx h

/-- the `stHandlers` part of the dispatch -/
theorem st_sim (ev : Bytes) :
    (stHandler ev = none ∧ stTwin ev = none) ∨
    ∃ hd t, stHandler ev = some hd ∧ stTwin ev = some t ∧
      ∀ (c : Client) (S : TS) (l : Line), CRx ext nn c S → CRx ext nn (hd c l).c (t S l) := by
  unfold stHandler stTwin
  by_cases e1 : (ev == lit "join") = true
  · simp only [e1, if_true]; exact .inr ⟨_, _, rfl, rfl, fun _ _ l h => sim_JOIN h l⟩
  by_cases e2 : (ev == lit "kick") = true
  · simp only [e1, e2, if_true, if_false]; exact .inr ⟨_, _, rfl, rfl, fun _ _ l h => sim_KICK h l⟩
  by_cases e3 : (ev == lit "mode") = true
  · simp only [e1, e2, e3, if_true, if_false]; exact .inr ⟨_, _, rfl, rfl, fun _ _ l h => sim_MODE h l⟩
  by_cases e4 : (ev == lit "nick") = true
  · simp only [e1, e2, e3, e4, if_true, if_false]; exact .inr ⟨_, _, rfl, rfl, fun _ _ l h => sim_STNICK h l⟩
  by_cases e5 : (ev == lit "part") = true
  · simp only [e1, e2, e3, e4, e5, if_true, if_false]; exact .inr ⟨_, _, rfl, rfl, fun _ _ l h => sim_PART h l⟩
  by_cases e6 : (ev == lit "quit") = true
  · simp only [e1, e2, e3, e4, e5, e6, if_true, if_false]
    exact .inr ⟨_, _, rfl, rfl, fun _ _ l h => sim_QUIT h l⟩
  by_cases e7 : (ev == lit "topic") = true
  · simp only [e1, e2, e3, e4, e5, e6, e7, if_true, if_false]
    exact .inr ⟨_, _, rfl, rfl, fun _ _ l h => sim_TOPIC h l⟩
  by_cases e8 : (ev == lit "311") = true
  · simp only [e1, e2, e3, e4, e5, e6, e7, e8, if_true, if_false]
    exact .inr ⟨_, _, rfl, rfl, fun _ _ l h => sim_311 h l⟩
  by_cases e9 : (ev == lit "324") = true
  · simp only [e1, e2, e3, e4, e5, e6, e7, e8, e9, if_true, if_false]
    exact .inr ⟨_, _, rfl, rfl, fun _ _ l h => sim_324 h l⟩
  by_cases e10 : (ev == lit "332") = true
  · simp only [e1, e2, e3, e4, e5, e6, e7, e8, e9, e10, if_true, if_false]
    exact .inr ⟨_, _, rfl, rfl, fun _ _ l h => sim_332 h l⟩
  by_cases e11 : (ev == lit "352") = true
  · simp only [e1, e2, e3, e4, e5, e6, e7, e8, e9, e10, e11, if_true, if_false]
    exact .inr ⟨_, _, rfl, rfl, fun _ _ l h => sim_352 h l⟩
  by_cases e12 : (ev == lit "353") = true
  · simp only [e1, e2, e3, e4, e5, e6, e7, e8, e9, e10, e11, e12, if_true, if_false]
    exact .inr ⟨_, _, rfl, rfl, fun _ _ l h => sim_353 h l⟩
  by_cases e13 : (ev == lit "671") = true
  · simp only [e1, e2, e3, e4, e5, e6, e7, e8, e9, e10, e11, e12, e13, if_true, if_false]
    exact .inr ⟨_, _, rfl, rfl, fun _ _ l h => sim_671 h l⟩
  · simp only [e1, e2, e3, e4, e5, e6, e7, e8, e9, e10, e11, e12, e13, Bool.false_eq_true, if_false]
    exact .inl ⟨trivial, trivial⟩

end

/-- one call of the internal handler set -/
theorem CRx_dispatch {ext : UnicodeExt} {nn : Bytes → Bytes} {c : Client} {S : TS} (h : CRx ext nn c S) (l : Line) :
    CRx ext nn (dispatchInternal c l).c (tDispatch ext nn S l) := by
  unfold dispatchInternal tDispatch
  rw [h.1]
  simp only []
  generalize toLower ext l.cmd = ev
  have hr1 := int_sim h ev l
  generalize (if ev == lit "001" then t_001 S l else if ev == lit "433" then t_433 nn S l else S) = S1 at hr1 ⊢
  have key : ∀ r1 : HR, CRx ext nn r1.c S1 →
      CRx ext nn (match r1.c.st, stHandler ev with
        | some _, some h =>
          let r2 := h r1.c l
          ({ c := r2.c, out := r1.out ++ r2.out, panicked := r1.panicked || r2.panicked,
             connected := r1.connected || r2.connected } : HR)
        | _, _ => r1).c
      (match stTwin ev with
        | some t => t S1 l
        | none => S1) := by
    intro r1 hr1
    obtain ⟨st1, hst1, _⟩ := hr1.2.2
    rcases st_sim (ext := ext) (nn := nn) ev with ⟨e1, e2⟩ | ⟨hd, t, e1, e2, hs⟩
    · simp only [e1, e2, hst1]; exact hr1
    · simp only [e1, e2, hst1]; exact hs _ _ l hr1
  cases hi : intHandler ev with
  | none => rw [hi] at hr1; exact key _ hr1
  | some hd => rw [hi] at hr1; exact key _ hr1

theorem CRx_feed {ext : UnicodeExt} {nn : Bytes → Bytes} {c : Client} {S : TS} (h : CRx ext nn c S) (ls : List Bytes) :
    CRx ext nn (feed c ls) (tFeed ext nn S ls) := by
  induction ls generalizing c S with
  | nil => exact h
  | cons l ls ih =>
    simp only [feed, tFeed, h.1]
    cases parseLine ext l with
    | none => exact ih h
    | some ln => exact ih (CRx_dispatch h ln)

/-- `EnableStateTracking` -/
theorem CRx_enable (c : Client) (h : c.st = none) :
    CRx c.ext c.newNick (enableTracking c)
      (sx (Spec.Tracker.new c.cfg.meNick) (.nickInfo c.cfg.meNick c.cfg.meIdent c.cfg.meHost c.cfg.meName)) := by
  unfold enableTracking
  simp only [h]
  apply refreshMe_sim
  exact ⟨rfl, rfl, _, rfl, (Spec.Tracker.step_sim (Spec.Tracker.R_new _) _).1⟩

/-- the tracker's answers are the relational answers -/
theorem CRx_query {ext : UnicodeExt} {nn : Bytes → Bytes} {c : Client} {S : TS} (h : CRx ext nn c S) :
    ∃ st, c.st = some st ∧ R st S := h.2.2

end Proofs.C13
