import Goirc.Proofs.C13EvJoinAux
/-!
# C13: a JOIN (ours, with its 332 / 353 / 366 replies, or somebody else's) brings the relational state to the new view
-/
namespace Proofs.C13
open Go Go.Client Go.Tracker Spec.Tracker Spec.Net

theorem nameOk_of_chanOk (c : Bytes) (h : chanOk c = true) : nameOk c = true := by
  simp only [chanOk, Bool.and_eq_true] at h; exact h.2

theorem nameOk_of_nickOk (c : Bytes) (h : nickOk c = true) : nameOk c = true := by
  simp only [nickOk, Bool.and_eq_true] at h; exact h.1

/-- the client's own JOIN line -/
theorem feed_join_me (ext : UnicodeExt) (nn : Bytes → Bytes) (n : Net) (c : Bytes) (hi : NetInv n)
    (hcok : chanOk c = true) (hnot : onChan n n.me c = false) :
    tFeed ext nn n.view [[58] ++ userMask n n.me ++ lit " JOIN " ++ c] =
      { n.view with chans := AL.insert n.view.chans c {}, mem := AL.insert n.view.mem (c, n.me) {} } := by
  obtain ⟨x, hx⟩ := (AL.has_true_iff _ _).1 hi.me_user
  obtain ⟨hu, hid, hho, _⟩ := hi.users_ok n.me x hx
  have hun := nameOk_of_nickOk _ hu
  have hcn := nameOk_of_chanOk c hcok
  have hmask : userMask n n.me = n.me ++ [33] ++ x.ident ++ [64] ++ x.host := by simp only [userMask, hx]
  rw [hmask, tFeed_JOIN ext nn _ _ _ _ _ _ _ (parse_JOIN ext n.me x.ident x.host hun hid hho c hcn)]
  have hvc : AL.has n.view.chans c = false := by rw [hi.view_chans, hnot]
  have hvm : AL.has n.view.mem (c, n.me) = false := by rw [hi.view_mem, hnot]; rfl
  have hvn : AL.has n.view.nicks n.me = true := by rw [hi.view_nicks]; simp
  have hvme : (n.me == n.view.me) = true := by rw [hi.me_view]; simp
  simp only [tFeed, t_JOIN, arg, List.getElem?_cons_zero, hvc, hvn, hvme, Bool.not_false, Bool.not_true, Bool.and_self,
    Bool.and_false, Bool.false_eq_true, if_false, if_true]
  rw [sx_newChannel_j _ c (nameOk_ne_nil c hcn) hvc]
  rw [sx_associate_j]
  case h1 => simp [AL.has_eq, AL.lookup_insert]
  case h2 => exact hvn
  case h3 => exact hvm

/-- the 332 line, if any -/
theorem feed_topic (ext : UnicodeExt) (nn : Bytes → Bytes) (S : TS) (me c t : Bytes)
    (hm : nameOk me = true) (hc : nameOk c = true) (hS : AL.lookup S.chans c = some {}) :
    ∃ S', tFeed ext nn S (if (t != []) = true then [srv ++ lit "332 " ++ me ++ [32] ++ c ++ lit " :" ++ t] else []) = S' ∧
      S'.nicks = S.nicks ∧ S'.mem = S.mem ∧ S'.me = S.me ∧
      ∀ k, AL.lookup S'.chans k = if c = k then some { topic := t } else AL.lookup S.chans k := by
  by_cases ht : t = []
  · subst ht
    refine ⟨S, by simp [tFeed], rfl, rfl, rfl, ?_⟩
    intro k
    split
    · rename_i e; subst e; exact hS
    · rfl
  · have : (t != []) = true := by simpa using ht
    simp only [this, if_true]
    rw [tFeed_332 ext nn S _ _ _ _ _ _ (parse_332 ext me c hm hc t)]
    have hh : AL.has S.chans c = true := by rw [AL.has_eq, hS]; rfl
    simp only [tFeed, t_332, arg, List.getElem?_cons_succ, List.getElem?_cons_zero, hh, if_true]
    rw [sx_topic_j S c t {} hS]
    exact ⟨_, rfl, rfl, rfl, rfl, fun k => by simp only [AL.lookup_insert]⟩

theorem ev_join_me (ext : UnicodeExt) (nn : Bytes → Bytes) (n : Net) (c t : Bytes) (ms0 : List (Bytes × ChanPrivs))
    (p : ChanPrivs) (hi : NetInv n) (hcok : chanOk c = true) (hnot : onChan n n.me c = false)
    (hnd : (AL.keys ms0).Nodup) (hok : ∀ m ∈ AL.keys ms0, nickOk m = true) (hme : n.me ∉ AL.keys ms0) :
    Eqv (tFeed ext nn n.view
          ((([[58] ++ userMask n n.me ++ lit " JOIN " ++ c] ++
            (if (t != []) = true then [srv ++ lit "332 " ++ n.me ++ [32] ++ c ++ lit " :" ++ t] else [])) ++
            (chunk 4 (((ms0 ++ [(n.me, p)]).map fun mp => prefixOf mp.2 ++ mp.1).length + 1)
                ((ms0 ++ [(n.me, p)]).map fun mp => prefixOf mp.2 ++ mp.1)).map
              (fun g => srv ++ lit "353 " ++ n.me ++ lit " = " ++ c ++ lit " :" ++ joinSp g)) ++
            [srv ++ lit "366 " ++ n.me ++ [32] ++ c ++ lit " :End of /NAMES list."]))
      ((ms0 ++ [(n.me, p)]).foldl (vstep c) { n.view with chans := AL.insert n.view.chans c { topic := t } }) := by
  obtain ⟨x, hx⟩ := (AL.has_true_iff _ _).1 hi.me_user
  obtain ⟨hu, _, _, _⟩ := hi.users_ok n.me x hx
  have hun := nameOk_of_nickOk _ hu
  have hcn := nameOk_of_chanOk c hcok
  have hokall : ∀ m ∈ AL.keys (ms0 ++ [(n.me, p)]), nickOk m = true := by
    intro m hm
    simp only [AL.keys, List.map_append, List.mem_append, List.map_cons, List.map_nil, List.mem_singleton] at hm
    rcases hm with hm | hm
    · exact hok m hm
    · subst hm; exact hu
  rw [tFeed_append, tFeed_append, tFeed_append, feed_join_me ext nn n c hi hcok hnot]
  obtain ⟨A2, hA2, h2n, h2m, h2me, h2c⟩ := feed_topic ext nn
    { n.view with chans := AL.insert n.view.chans c {}, mem := AL.insert n.view.mem (c, n.me) {} } n.me c t hun hcn
    (by simp [AL.lookup_insert])
  rw [hA2]
  have h2cc : AL.has A2.chans c = true := by rw [AL.has_eq, h2c]; simp
  rw [feed_353_lines ext nn n.me c hun hcn _ A2 h2cc, chunk_flatten]
  · rw [tFeed_366 ext nn _ _ _ _ _ _ _ (parse_366 ext n.me c hun hcn)]
    simp only [tFeed]
    have hvm : ∀ m, AL.lookup n.view.mem (c, m) = none := by
      intro m; rw [← AL.has_false_iff, hi.view_mem, hnot]; rfl
    have hmem : n.me ∈ AL.keys (ms0 ++ [(n.me, p)]) := by simp [AL.keys]
    refine names_loop c n.me (ms0 ++ [(n.me, p)]) A2 _ ?_ hokall ?_ ?_ ?_ h2cc ?_ ?_ ?_
    · simp only [AL.keys, List.map_append, List.map_cons, List.map_nil]
      rw [List.nodup_append]
      refine ⟨hnd, by simp, ?_⟩
      intro a ha b hb
      simp only [List.mem_singleton] at hb
      subst hb
      intro e; subst e; exact hme ha
    · intro k; rw [h2n]
    · intro k; rw [h2c]; simp only [AL.lookup_insert]; split <;> rfl
    · rw [h2me]
    · intro k hk
      have hne : ¬ (c, n.me) = k := fun e => hk e.symm hmem
      rw [h2m]; simp only [AL.lookup_insert, if_neg hne]
    · intro _
      rw [h2m, h2n]
      refine ⟨by simp [AL.lookup_insert], ?_⟩
      rw [hi.view_nicks]; simp
    · intro m _ hmne
      rw [h2m]
      simp only [AL.lookup_insert]
      rw [if_neg (by intro e; injection e with _ e2; exact hmne e2.symm)]
      exact hvm m
  · intro g hg w hw
    have := chunk_mem _ _ _ g hg w hw
    obtain ⟨mp, hmp, rfl⟩ := List.mem_map.1 this
    have hk : mp.1 ∈ AL.keys (ms0 ++ [(n.me, p)]) := List.mem_map.2 ⟨mp, hmp, rfl⟩
    have h1 := nameOk_no32 _ (nameOk_of_nickOk _ (hokall _ hk))
    intro hmem
    rcases List.mem_append.1 hmem with h | h
    · rcases pfx_cases mp.2 with ⟨hp, _⟩ | ⟨x, y, hp, hx, hy, _⟩
      · rw [hp] at h; cases h
      · rw [hp] at h
        simp only [List.mem_singleton] at h
        subst h
        simp [prefixMode] at hx
    · exact h1 h

/-- somebody else joins a channel the client is on -/
theorem ev_join_other (ext : UnicodeExt) (nn : Bytes → Bytes) (n : Net) (u c : Bytes) (x : NUser) (hi : NetInv n)
    (hx : AL.lookup n.users u = some x) (hcok : chanOk c = true) (hnot : onChan n u c = false)
    (hon : onChan n n.me c = true) :
    Eqv (tFeed ext nn n.view [[58] ++ userMask n u ++ lit " JOIN " ++ c])
      (let v := n.view
       let v1 := if AL.has v.nicks u then v else { v with nicks := AL.insert v.nicks u { ident := x.ident, host := x.host } }
       { v1 with mem := AL.insert v1.mem (c, u) {} }) := by
  obtain ⟨hu, hid, hho, _⟩ := hi.users_ok u x hx
  have hun : nameOk u = true := by simp only [nickOk, Bool.and_eq_true] at hu; exact hu.1
  have hcn := nameOk_of_chanOk c hcok
  have hmask : userMask n u = u ++ [33] ++ x.ident ++ [64] ++ x.host := by simp only [userMask, hx]
  rw [hmask, tFeed_JOIN ext nn _ _ _ _ _ _ _ (parse_JOIN ext u x.ident x.host hun hid hho c hcn)]
  have hvc : AL.has n.view.chans c = true := by rw [hi.view_chans, hon]
  have hvm : AL.has n.view.mem (c, u) = false := by rw [hi.view_mem, hon, hnot]; rfl
  simp only [tFeed, t_JOIN, arg, List.getElem?_cons_zero, hvc, Bool.not_true, Bool.false_and, Bool.false_eq_true, if_false]
  cases hvn : AL.has n.view.nicks u
  · simp only [Bool.not_false, if_true, Bool.false_eq_true, if_false]
    rw [sx_newNick_j _ u (nameOk_ne_nil u hun) hvn]
    rw [sx_nickInfo_j _ u _ _ _ {} (by simp [AL.lookup_insert])]
    dsimp only
    rw [sx_associate_j]
    case h1 => exact hvc
    case h2 => simp [AL.has_eq, AL.lookup_insert]
    case h3 => exact hvm
    refine ⟨?_, fun k => rfl, fun k => rfl, rfl⟩
    intro k
    simp only [AL.lookup_insert]
    split <;> rfl
  · simp only [Bool.not_true, Bool.false_eq_true, if_false, if_true]
    rw [sx_associate_j _ c u hvc hvn hvm]
    exact Eqv.refl _

theorem ev_join (ext : UnicodeExt) (nn : Bytes → Bytes) (n : Net) (u c : Bytes) (hi : NetInv n)
    (hc : conforms n (.join u c) = true) :
    Eqv (tFeed ext nn n.view (serverStep n (.join u c)).2) (serverStep n (.join u c)).1.view := by
  simp only [conforms, Bool.and_eq_true, Bool.not_eq_true'] at hc
  obtain ⟨⟨hu, hcok⟩, hnot⟩ := hc
  obtain ⟨x, hx⟩ := (AL.has_true_iff _ _).1 hu
  simp only [serverStep]
  by_cases hme : u = n.me
  · subst hme
    simp only [beq_self_eq_true, if_true]
    have hch : (AL.keys ((AL.lookup n.chans c).getD {}).members).Nodup ∧
        (∀ m ∈ AL.keys ((AL.lookup n.chans c).getD {}).members, nickOk m = true) ∧
        n.me ∉ AL.keys ((AL.lookup n.chans c).getD {}).members := by
      cases hl : AL.lookup n.chans c with
      | none => simp
      | some ch =>
        have ci := hi.chan_inv c ch hl
        simp only [Option.getD_some]
        refine ⟨ci.members_nodup, ?_, ?_⟩
        · intro m hm
          have h1 := ci.members_users m ((AL.has_iff_mem_keys _ _).2 hm)
          obtain ⟨y, hy⟩ := (AL.has_true_iff _ _).1 h1
          exact (hi.users_ok m y hy).1
        · intro hm
          have h1 := (AL.has_iff_mem_keys _ _).2 hm
          simp only [onChan, hl] at hnot
          rw [hnot] at h1
          cases h1
    exact ev_join_me ext nn n c _ _ _ hi hcok hnot hch.1 hch.2.1 hch.2.2
  · have : (u == n.me) = false := by simpa using hme
    simp only [this, Bool.false_eq_true, if_false]
    cases hon : onChan n n.me c
    · simp only [Bool.false_eq_true, if_false, tFeed, setChan]
      exact Eqv.refl _
    · simp only [if_true, setChan, hx, Option.getD_some]
      exact ev_join_other ext nn n u c x hi hx hcok hnot hon

end Proofs.C13

