import Goirc.Proofs.C13Defs
import Goirc.Proofs.ParseRender
/-!
# C13: how the client parses each line the model network sends

Every line of `Spec.Net.serverStep` is the `render` of a well-formed `Spec.Irc.Msg` (with no bound
on the number of parameters: the parser has none), so `parseLine` yields the expected fields.
-/
namespace Proofs.C13
open Go Go.Client Go.Tracker Spec.Tracker Spec.Net

/-- `raw` parses to a line with these fields (the other fields are not read by the handlers) -/
def ParsesTo (ext : UnicodeExt) (raw nick ident host cmd : Bytes) (args : List Bytes) : Prop :=
  ∃ L : Line, parseLine ext raw = some L ∧ L.nick = nick ∧ L.ident = ident ∧ L.host = host ∧ L.cmd = cmd ∧ L.args = args

/-- a parameter that survives `strings.Fields`: not empty, no leading colon, no white space -/
def midOk (p : Bytes) : Bool := !p.isEmpty && p.head? != some 58 && p.all (fun b => 32 < b && b < 127)

theorem midOk_of_nameOk (s : Bytes) (h : nameOk s = true) : midOk s = true := by
  simp only [nameOk, Bool.and_eq_true, Bool.not_eq_true', List.isEmpty_eq_false_iff, List.all_eq_true,
    decide_eq_true_eq, bne_iff_ne, ne_eq] at h
  obtain ⟨h1, h2⟩ := h
  simp only [midOk, Bool.and_eq_true, Bool.not_eq_true', List.isEmpty_eq_false_iff, List.all_eq_true,
    decide_eq_true_eq, bne_iff_ne, ne_eq]
  refine ⟨⟨h1, ?_⟩, ?_⟩
  · cases s with
    | nil => exact absurd rfl h1
    | cons x s =>
      have := h2 x (by simp)
      simp only [List.head?_cons, Option.some.injEq]
      exact this.1.1.1.2
  · intro x hx
    have := h2 x hx
    refine ⟨?_, this.1.1.1.1.2⟩
    have := this.1.1.1.1.1
    exact UInt8.lt_trans (by decide) this

open Spec.Irc in
/-- `parse_render_eq` for a message without tags and an ordinary verb, with no bound on the number of
parameters (the proof of `Go.parse_render_eq` never uses that bound) -/
theorem parse_render_eq' (ext : UnicodeExt) (m : Msg) (htags : m.tags = none)
    (hsrc : (match m.source with | none => true | some s => s.wf) = true)
    (hverb : verbOk m.verb = true) (hmid : m.middles.all (fun p => middleOk p.2) = true)
    (hnm : isMsgVerb m.verb = false) :
    parseLine ext (render m) = some (baseLine m) := by
  have hctcp' : ctcpWf m.verb (params m) = true := by simp [ctcpWf, hnm]
  have hexp : expected ext m = baseLine m := by
    rw [expected_eq]; simp [expCmdArgs, hnm, baseLine]
  obtain ⟨x, s, hxs, hx58, hx64⟩ := restPart_head m hverb
  have hsource : ∀ l : Line, l.raw = render m → l.tags = m.tags.map expectedTags →
      l.nick = [] → l.ident = [] → l.host = [] → l.src = [] →
      parseSource ext l (srcPart m.source ++ restPart m) = some (expected ext m) := by
    intro l hraw htg hn hi hh hs
    cases hsm : m.source with
    | none =>
      simp only [srcPart, List.nil_append]
      rw [hxs, parseSource_plain ext l x s hx58, ← hxs, parseRest_render ext l m hverb hmid]
      congr 1
      apply ctcpRewrite_expected ext m _ hctcp'
      cases l
      simp only at hraw htg hn hi hh hs
      simp [baseLine, hsm, hraw, htg, hn, hi, hh, hs]
    | some src =>
      rw [hsm] at hsrc
      simp only at hsrc
      simp only [srcPart, List.cons_append, List.append_assoc, List.nil_append]
      rw [parseSource_colon ext l _ _ (source_not_mem src hsrc), parseRest_render ext _ m hverb hmid]
      congr 1
      apply ctcpRewrite_expected ext m _ hctcp'
      cases l
      simp only at hraw htg hn hi hh hs
      cases src with
      | server n =>
        simp [baseLine, hsm, withSource, Source.render, parseUserHost_server n hsrc, hraw, htg, hn, hi]
      | user n u hh' =>
        have := parseUserHost_user n u hh' hsrc
        simp [baseLine, hsm, withSource, this, hraw, htg]
  rw [← hexp, render_eq, htags]
  simp only [tagPart, List.nil_append]
  have hhead : ∃ y t, srcPart m.source ++ restPart m = y :: t ∧ y ≠ 64 := by
    cases m.source with
    | none => exact ⟨x, s, by simp [srcPart, hxs], hx64⟩
    | some src => exact ⟨58, _, rfl, by decide⟩
  obtain ⟨y, t, hyt, hy⟩ := hhead
  rw [hyt, parseLine_plain ext y t hy, ← hyt]
  apply hsource
  · simp [render_eq, htags, tagPart]
  · simp [htags]
  all_goals rfl

/-! ### the generic line -/

theorem noSpaceRune_of_print (s : Bytes) (h : ∀ b ∈ s, 32 < b ∧ b < 127) : Spec.Irc.noSpaceRune s = true := by
  induction s with
  | nil => rfl
  | cons x s ih =>
    have hx := h x (by simp)
    apply noSpaceRune_low _ _ _ _ _ (ih (fun b hb => h b (by simp [hb])))
    · exact UInt8.lt_trans hx.2 (by decide)
    · intro e; subst e; exact absurd hx.1 (by decide)
    · intro e; exact absurd (UInt8.lt_of_lt_of_le hx.1 e.2) (by decide)

theorem midOk_print (s : Bytes) (h : midOk s = true) : ∀ b ∈ s, 32 < b ∧ b < 127 := by
  simp only [midOk, Bool.and_eq_true, List.all_eq_true, decide_eq_true_eq] at h
  exact h.2

theorem middleOk_of_midOk (s : Bytes) (h : midOk s = true) : Spec.Irc.middleOk s = true := by
  have hp := noSpaceRune_of_print s (midOk_print s h)
  simp only [midOk, Bool.and_eq_true] at h
  simp only [Spec.Irc.middleOk, Bool.and_eq_true]
  exact ⟨h.1, hp⟩

theorem nameOk_print (s : Bytes) (h : nameOk s = true) : ∀ b ∈ s, 32 < b ∧ b < 127 :=
  midOk_print s (midOk_of_nameOk s h)

theorem nameOk_not_mem (s : Bytes) (h : nameOk s = true) : (33 : UInt8) ∉ s ∧ (64 : UInt8) ∉ s := by
  simp only [nameOk, Bool.and_eq_true, List.all_eq_true, decide_eq_true_eq, bne_iff_ne, ne_eq] at h
  exact ⟨fun e => (h.2 _ e).2 rfl, fun e => (h.2 _ e).1.2 rfl⟩

theorem midOk_cons (x : UInt8) (s : Bytes) (hx : 32 < x ∧ x < 127) (hx2 : x ≠ 58) (hs : ∀ b ∈ s, 32 < b ∧ b < 127) :
    midOk (x :: s) = true := by
  simp only [midOk, Bool.and_eq_true, List.all_eq_true, decide_eq_true_eq, List.mem_cons]
  refine ⟨⟨by simp, by simpa using hx2⟩, ?_⟩
  intro b hb
  rcases hb with rfl | hb
  · exact hx
  · exact hs b hb

theorem user_wf (u i h : Bytes) (hu : nameOk u = true) (hi : nameOk i = true) (hh : nameOk h = true) :
    (Spec.Irc.Source.user u i h).wf = true := by
  have h1 := noSpaceRune_of_print u (nameOk_print u hu)
  have h2 := noSpaceRune_of_print i (nameOk_print i hi)
  have h3 := noSpaceRune_of_print h (nameOk_print h hh)
  have h4 := nameOk_not_mem u hu
  have h5 := nameOk_not_mem i hi
  simp [Spec.Irc.Source.wf, h1, h2, h3, h4.1, h4.2, h5.2]

theorem indexByteFrom_none (c : UInt8) (s : Bytes) (k : Nat) (h : c ∉ s) : indexByteFrom c s k = none := by
  induction s generalizing k with
  | nil => rfl
  | cons x s ih =>
    have hx : x ≠ c := fun e => h (by simp [e])
    simp [indexByteFrom, hx, ih (k + 1) (fun e => h (by simp [e]))]

theorem server_wf (n : Bytes) (hn : nameOk n = true) : (Spec.Irc.Source.server n).wf = true := by
  have h1 := noSpaceRune_of_print n (nameOk_print n hn)
  have h4 := nameOk_not_mem n hn
  have h5 : n ≠ [] := by
    intro e; subst e; simp [nameOk] at hn
  simp [Spec.Irc.Source.wf, h1, h5, indexByte, indexByteFrom_none _ _ _ h4.1]

/-- the parameters, each preceded by one space -/
def spMids : List Bytes → Bytes
  | [] => []
  | a :: rest => 32 :: (a ++ spMids rest)

def trPart : Option Bytes → Bytes
  | none => []
  | some t => 32 :: 58 :: t

theorem renderMiddles_spMids (l : List Bytes) : Spec.Irc.renderMiddles (l.map (fun a => (0, a))) = spMids l := by
  induction l with
  | nil => rfl
  | cons a l ih => simp [Spec.Irc.renderMiddles, spMids, ih]

theorem joinSp_spMids (l : List Bytes) : (if l.isEmpty then [] else [32] ++ joinSp l) = spMids l := by
  induction l with
  | nil => rfl
  | cons a l ih =>
    cases l with
    | nil => simp [joinSp, spMids]
    | cons b l =>
      simp only [List.isEmpty_cons, Bool.false_eq_true, if_false] at ih ⊢
      simp only [joinSp, spMids]
      simp only [spMids] at ih
      rw [← ih]
      simp

theorem map_snd_pair (l : List Bytes) : l.map ((fun x : Nat × Bytes => x.snd) ∘ fun a => (0, a)) = l := by
  induction l with
  | nil => rfl
  | cons a l ih => simpa using ih

def srcNick : Spec.Irc.Source → Bytes | .user n _ _ => n | .server _ => []
def srcIdent : Spec.Irc.Source → Bytes | .user _ i _ => i | .server _ => []
def srcHost : Spec.Irc.Source → Bytes | .user _ _ h => h | .server n => n

/-- any line `:source VERB p1 .. pk [:trailing]` -/
theorem parse_gen (ext : UnicodeExt) (src : Spec.Irc.Source) (hs : src.wf = true) (verb : Bytes)
    (hv : Spec.Irc.verbOk verb = true) (hnm : Spec.Irc.isMsgVerb verb = false) (hup : toUpperAscii verb = verb)
    (mids : List Bytes) (hm : ∀ a ∈ mids, midOk a = true) (tr : Option Bytes) :
    ParsesTo ext (58 :: (src.render ++ 32 :: (verb ++ (spMids mids ++ trPart tr))))
      (srcNick src) (srcIdent src) (srcHost src) verb (mids ++ tr.toList) := by
  let m : Spec.Irc.Msg := { source := some src, verb := verb, middles := mids.map (fun a => (0, a)),
                            trailing := tr.map (fun t => (0, t)) }
  have hmid : m.middles.all (fun p => Spec.Irc.middleOk p.2) = true := by
    simp only [m, List.all_eq_true, List.mem_map]
    intro p hp
    obtain ⟨a, ha, rfl⟩ := hp
    exact middleOk_of_midOk a (hm a ha)
  have hr : Spec.Irc.render m = 58 :: (src.render ++ 32 :: (verb ++ (spMids mids ++ trPart tr))) := by
    simp only [Spec.Irc.render, m, renderMiddles_spMids]
    cases tr <;> simp [trPart]
  have := parse_render_eq' ext m rfl hs hv hmid hnm
  rw [hr] at this
  refine ⟨_, this, ?_, ?_, ?_, ?_, ?_⟩
  · cases src <;> rfl
  · cases src <;> rfl
  · cases src <;> rfl
  · exact hup
  · have e := map_snd_pair mids
    simp only [baseLine, Spec.Irc.params, m]
    cases tr <;> simp [e]

/-! ### lines from a user (`:nick!ident@host ...`) -/

section
variable (ext : UnicodeExt) (u i h : Bytes) (hu : nameOk u = true) (hi : nameOk i = true) (hh : nameOk h = true)
include hu hi hh

theorem parse_JOIN (c : Bytes) (hc : nameOk c = true) :
    ParsesTo ext ([58] ++ (u ++ [33] ++ i ++ [64] ++ h) ++ lit " JOIN " ++ c) u i h (lit "JOIN") [c] := by
  have e : [58] ++ (u ++ [33] ++ i ++ [64] ++ h) ++ lit " JOIN " ++ c =
      58 :: ((Spec.Irc.Source.user u i h).render ++ 32 :: (lit "JOIN" ++ (spMids [c] ++ trPart none))) := by
    have : lit " JOIN " = [32] ++ lit "JOIN" ++ [32] := by decide
    simp [Spec.Irc.Source.render, spMids, trPart, this]
  rw [e]
  exact parse_gen ext (.user u i h) (user_wf u i h hu hi hh) (lit "JOIN") (by decide) (by decide) (by decide) [c]
    (by simp [midOk_of_nameOk _ hc]) none

theorem parse_PART (c : Bytes) (hc : nameOk c = true) :
    ParsesTo ext ([58] ++ (u ++ [33] ++ i ++ [64] ++ h) ++ lit " PART " ++ c) u i h (lit "PART") [c] := by
  have e : [58] ++ (u ++ [33] ++ i ++ [64] ++ h) ++ lit " PART " ++ c =
      58 :: ((Spec.Irc.Source.user u i h).render ++ 32 :: (lit "PART" ++ (spMids [c] ++ trPart none))) := by
    have : lit " PART " = [32] ++ lit "PART" ++ [32] := by decide
    simp [Spec.Irc.Source.render, spMids, trPart, this]
  rw [e]
  exact parse_gen ext (.user u i h) (user_wf u i h hu hi hh) (lit "PART") (by decide) (by decide) (by decide) [c]
    (by simp [midOk_of_nameOk _ hc]) none

theorem parse_KICK (c v : Bytes) (hc : nameOk c = true) (hv : nameOk v = true) :
    ParsesTo ext ([58] ++ (u ++ [33] ++ i ++ [64] ++ h) ++ lit " KICK " ++ c ++ [32] ++ v ++ lit " :bye") u i h (lit "KICK")
      [c, v, lit "bye"] := by
  have e : [58] ++ (u ++ [33] ++ i ++ [64] ++ h) ++ lit " KICK " ++ c ++ [32] ++ v ++ lit " :bye" =
      58 :: ((Spec.Irc.Source.user u i h).render ++ 32 :: (lit "KICK" ++ (spMids [c, v] ++ trPart (some (lit "bye"))))) := by
    have : lit " KICK " = [32] ++ lit "KICK" ++ [32] := by decide
    have h2 : lit " :bye" = [32, 58] ++ lit "bye" := by decide
    simp [Spec.Irc.Source.render, spMids, trPart, this, h2]
  rw [e]
  exact parse_gen ext (.user u i h) (user_wf u i h hu hi hh) (lit "KICK") (by decide) (by decide) (by decide) [c, v]
    (by simp [midOk_of_nameOk _ hc, midOk_of_nameOk _ hv]) (some (lit "bye"))

theorem parse_QUIT :
    ParsesTo ext ([58] ++ (u ++ [33] ++ i ++ [64] ++ h) ++ lit " QUIT :gone") u i h (lit "QUIT") [lit "gone"] := by
  have e : [58] ++ (u ++ [33] ++ i ++ [64] ++ h) ++ lit " QUIT :gone" =
      58 :: ((Spec.Irc.Source.user u i h).render ++ 32 :: (lit "QUIT" ++ (spMids [] ++ trPart (some (lit "gone"))))) := by
    have : lit " QUIT :gone" = [32] ++ lit "QUIT" ++ [32, 58] ++ lit "gone" := by decide
    simp [Spec.Irc.Source.render, spMids, trPart, this]
  rw [e]
  exact parse_gen ext (.user u i h) (user_wf u i h hu hi hh) (lit "QUIT") (by decide) (by decide) (by decide) []
    (by simp) (some (lit "gone"))

theorem parse_NICK (nw : Bytes) (hn : nameOk nw = true) :
    ParsesTo ext ([58] ++ (u ++ [33] ++ i ++ [64] ++ h) ++ lit " NICK " ++ nw) u i h (lit "NICK") [nw] := by
  have e : [58] ++ (u ++ [33] ++ i ++ [64] ++ h) ++ lit " NICK " ++ nw =
      58 :: ((Spec.Irc.Source.user u i h).render ++ 32 :: (lit "NICK" ++ (spMids [nw] ++ trPart none))) := by
    have : lit " NICK " = [32] ++ lit "NICK" ++ [32] := by decide
    simp [Spec.Irc.Source.render, spMids, trPart, this]
  rw [e]
  exact parse_gen ext (.user u i h) (user_wf u i h hu hi hh) (lit "NICK") (by decide) (by decide) (by decide) [nw]
    (by simp [midOk_of_nameOk _ hn]) none

/-- the topic text is arbitrary -/
theorem parse_TOPIC (c t : Bytes) (hc : nameOk c = true) :
    ParsesTo ext ([58] ++ (u ++ [33] ++ i ++ [64] ++ h) ++ lit " TOPIC " ++ c ++ lit " :" ++ t) u i h (lit "TOPIC") [c, t] := by
  have e : [58] ++ (u ++ [33] ++ i ++ [64] ++ h) ++ lit " TOPIC " ++ c ++ lit " :" ++ t =
      58 :: ((Spec.Irc.Source.user u i h).render ++ 32 :: (lit "TOPIC" ++ (spMids [c] ++ trPart (some t)))) := by
    have : lit " TOPIC " = [32] ++ lit "TOPIC" ++ [32] := by decide
    have h2 : lit " :" = [32, 58] := by decide
    simp [Spec.Irc.Source.render, spMids, trPart, this, h2]
  rw [e]
  exact parse_gen ext (.user u i h) (user_wf u i h hu hi hh) (lit "TOPIC") (by decide) (by decide) (by decide) [c]
    (by simp [midOk_of_nameOk _ hc]) (some t)

theorem parse_MODE (c letters : Bytes) (args : List Bytes) (hc : nameOk c = true) (hl : midOk letters = true)
    (ha : ∀ a ∈ args, midOk a = true) :
    ParsesTo ext ([58] ++ (u ++ [33] ++ i ++ [64] ++ h) ++ lit " MODE " ++ c ++ [32] ++ letters ++
        (if args.isEmpty then [] else [32] ++ joinSp args)) u i h (lit "MODE") (c :: letters :: args) := by
  have e : [58] ++ (u ++ [33] ++ i ++ [64] ++ h) ++ lit " MODE " ++ c ++ [32] ++ letters ++
        (if args.isEmpty then [] else [32] ++ joinSp args) =
      58 :: ((Spec.Irc.Source.user u i h).render ++ 32 :: (lit "MODE" ++ (spMids (c :: letters :: args) ++ trPart none))) := by
    have : lit " MODE " = [32] ++ lit "MODE" ++ [32] := by decide
    rw [joinSp_spMids]
    simp [Spec.Irc.Source.render, spMids, trPart, this]
  rw [e]
  have := parse_gen ext (.user u i h) (user_wf u i h hu hi hh) (lit "MODE") (by decide) (by decide) (by decide)
    (c :: letters :: args) (by simpa [midOk_of_nameOk _ hc, hl] using ha) none
  simpa [srcNick, srcIdent, srcHost] using this
end

/-! ### lines from the server -/

/-- the client's own user-mode change comes from its bare nick -/
theorem parse_UMODE (ext : UnicodeExt) (me : Bytes) (hm : nameOk me = true) (sign l : UInt8)
    (hs : sign = 43 ∨ sign = 45) (hl : 32 < l ∧ l < 127) :
    ParsesTo ext ([58] ++ me ++ lit " MODE " ++ me ++ [32] ++ [sign, l]) [] [] me (lit "MODE") [me, [sign, l]] := by
  have e : [58] ++ me ++ lit " MODE " ++ me ++ [32] ++ [sign, l] =
      58 :: ((Spec.Irc.Source.server me).render ++ 32 :: (lit "MODE" ++ (spMids [me, [sign, l]] ++ trPart none))) := by
    have : lit " MODE " = [32] ++ lit "MODE" ++ [32] := by decide
    simp [Spec.Irc.Source.render, spMids, trPart, this]
  rw [e]
  have hsl : midOk [sign, l] = true := by
    apply midOk_cons
    · rcases hs with rfl | rfl <;> decide
    · rcases hs with rfl | rfl <;> decide
    · intro b hb; simp at hb; subst hb; exact hl
  exact parse_gen ext (.server me) (server_wf me hm) (lit "MODE") (by decide) (by decide) (by decide) [me, [sign, l]]
    (by simp [midOk_of_nameOk _ hm, hsl]) none

theorem srvSrc_wf : (Spec.Irc.Source.server (lit "irc.test")).wf = true := by decide

section
variable (ext : UnicodeExt) (me c : Bytes) (hm : nameOk me = true) (hc : nameOk c = true)
include hm hc

theorem parse_332 (t : Bytes) :
    ParsesTo ext (srv ++ lit "332 " ++ me ++ [32] ++ c ++ lit " :" ++ t) [] [] (lit "irc.test") (lit "332") [me, c, t] := by
  have e : srv ++ lit "332 " ++ me ++ [32] ++ c ++ lit " :" ++ t =
      58 :: ((Spec.Irc.Source.server (lit "irc.test")).render ++ 32 :: (lit "332" ++ (spMids [me, c] ++ trPart (some t)))) := by
    have : srv ++ lit "332 " = [58] ++ lit "irc.test" ++ [32] ++ lit "332" ++ [32] := by decide
    have h2 : lit " :" = [32, 58] := by decide
    simp [Spec.Irc.Source.render, spMids, trPart, this, h2]
  rw [e]
  exact parse_gen ext _ srvSrc_wf (lit "332") (by decide) (by decide) (by decide) [me, c]
    (by simp [midOk_of_nameOk _ hm, midOk_of_nameOk _ hc]) (some t)

theorem parse_353 (t : Bytes) :
    ParsesTo ext (srv ++ lit "353 " ++ me ++ lit " = " ++ c ++ lit " :" ++ t) [] [] (lit "irc.test") (lit "353")
      [me, lit "=", c, t] := by
  have e : srv ++ lit "353 " ++ me ++ lit " = " ++ c ++ lit " :" ++ t =
      58 :: ((Spec.Irc.Source.server (lit "irc.test")).render ++ 32 :: (lit "353" ++ (spMids [me, lit "=", c] ++ trPart (some t)))) := by
    have : srv ++ lit "353 " = [58] ++ lit "irc.test" ++ [32] ++ lit "353" ++ [32] := by decide
    have h2 : lit " :" = [32, 58] := by decide
    have h3 : lit " = " = [32] ++ lit "=" ++ [32] := by decide
    simp [Spec.Irc.Source.render, spMids, trPart, this, h2, h3]
  rw [e]
  exact parse_gen ext _ srvSrc_wf (lit "353") (by decide) (by decide) (by decide) [me, lit "=", c]
    (by simp [midOk_of_nameOk _ hm, midOk_of_nameOk _ hc, show midOk (lit "=") = true by decide]) (some t)

theorem parse_366 :
    ParsesTo ext (srv ++ lit "366 " ++ me ++ [32] ++ c ++ lit " :End of /NAMES list.") [] [] (lit "irc.test") (lit "366")
      [me, c, lit "End of /NAMES list."] := by
  have e : srv ++ lit "366 " ++ me ++ [32] ++ c ++ lit " :End of /NAMES list." =
      58 :: ((Spec.Irc.Source.server (lit "irc.test")).render ++ 32 :: (lit "366" ++ (spMids [me, c] ++
        trPart (some (lit "End of /NAMES list."))))) := by
    have : srv ++ lit "366 " = [58] ++ lit "irc.test" ++ [32] ++ lit "366" ++ [32] := by decide
    have h2 : lit " :End of /NAMES list." = [32, 58] ++ lit "End of /NAMES list." := by decide
    simp [Spec.Irc.Source.render, spMids, trPart, this, h2]
  rw [e]
  exact parse_gen ext _ srvSrc_wf (lit "366") (by decide) (by decide) (by decide) [me, c]
    (by simp [midOk_of_nameOk _ hm, midOk_of_nameOk _ hc]) (some (lit "End of /NAMES list."))

theorem parse_315 :
    ParsesTo ext (srv ++ lit "315 " ++ me ++ [32] ++ c ++ lit " :End of /WHO list.") [] [] (lit "irc.test") (lit "315")
      [me, c, lit "End of /WHO list."] := by
  have e : srv ++ lit "315 " ++ me ++ [32] ++ c ++ lit " :End of /WHO list." =
      58 :: ((Spec.Irc.Source.server (lit "irc.test")).render ++ 32 :: (lit "315" ++ (spMids [me, c] ++
        trPart (some (lit "End of /WHO list."))))) := by
    have : srv ++ lit "315 " = [58] ++ lit "irc.test" ++ [32] ++ lit "315" ++ [32] := by decide
    have h2 : lit " :End of /WHO list." = [32, 58] ++ lit "End of /WHO list." := by decide
    simp [Spec.Irc.Source.render, spMids, trPart, this, h2]
  rw [e]
  exact parse_gen ext _ srvSrc_wf (lit "315") (by decide) (by decide) (by decide) [me, c]
    (by simp [midOk_of_nameOk _ hm, midOk_of_nameOk _ hc]) (some (lit "End of /WHO list."))

theorem parse_324 (letters : Bytes) (args : List Bytes) (hl : ∀ b ∈ letters, 32 < b ∧ b < 127)
    (ha : ∀ a ∈ args, midOk a = true) :
    ParsesTo ext (srv ++ lit "324 " ++ me ++ [32] ++ c ++ lit " +" ++ letters ++
        (if args.isEmpty then [] else [32] ++ joinSp args)) [] [] (lit "irc.test") (lit "324")
      (me :: c :: ([43] ++ letters) :: args) := by
  have e : srv ++ lit "324 " ++ me ++ [32] ++ c ++ lit " +" ++ letters ++
        (if args.isEmpty then [] else [32] ++ joinSp args) =
      58 :: ((Spec.Irc.Source.server (lit "irc.test")).render ++ 32 :: (lit "324" ++
        (spMids (me :: c :: (43 :: letters) :: args) ++ trPart none))) := by
    have : srv ++ lit "324 " = [58] ++ lit "irc.test" ++ [32] ++ lit "324" ++ [32] := by decide
    have h2 : lit " +" = [32, 43] := by decide
    rw [joinSp_spMids]
    simp [Spec.Irc.Source.render, spMids, trPart, this, h2]
  rw [e]
  have hpl : midOk (43 :: letters) = true := midOk_cons 43 letters (by decide) (by decide) hl
  have := parse_gen ext _ srvSrc_wf (lit "324") (by decide) (by decide) (by decide)
    (me :: c :: (43 :: letters) :: args) (by simpa [midOk_of_nameOk _ hm, midOk_of_nameOk _ hc, hpl] using ha) none
  simpa [srcNick, srcIdent, srcHost] using this

theorem parse_352 (ident host m pfx real : Bytes) (hi : nameOk ident = true) (hh : nameOk host = true)
    (hn : nameOk m = true) (hp : ∀ b ∈ pfx, 32 < b ∧ b < 127) :
    ParsesTo ext (srv ++ lit "352 " ++ me ++ [32] ++ c ++ [32] ++ ident ++ [32] ++ host ++ lit " irc.test " ++ m ++
        lit " G" ++ pfx ++ lit " :0 " ++ real) [] [] (lit "irc.test") (lit "352")
      [me, c, ident, host, lit "irc.test", m, [71] ++ pfx, lit "0 " ++ real] := by
  have e : srv ++ lit "352 " ++ me ++ [32] ++ c ++ [32] ++ ident ++ [32] ++ host ++ lit " irc.test " ++ m ++
        lit " G" ++ pfx ++ lit " :0 " ++ real =
      58 :: ((Spec.Irc.Source.server (lit "irc.test")).render ++ 32 :: (lit "352" ++
        (spMids [me, c, ident, host, lit "irc.test", m, 71 :: pfx] ++ trPart (some (lit "0 " ++ real))))) := by
    have : srv ++ lit "352 " = [58] ++ lit "irc.test" ++ [32] ++ lit "352" ++ [32] := by decide
    have h2 : lit " irc.test " = [32] ++ lit "irc.test" ++ [32] := by decide
    have h3 : lit " G" = [32, 71] := by decide
    have h4 : lit " :0 " = [32, 58] ++ lit "0 " := by decide
    simp [Spec.Irc.Source.render, spMids, trPart, this, h2, h3, h4]
  rw [e]
  have hpl : midOk (71 :: pfx) = true := midOk_cons 71 pfx (by decide) (by decide) hp
  have := parse_gen ext _ srvSrc_wf (lit "352") (by decide) (by decide) (by decide)
    [me, c, ident, host, lit "irc.test", m, 71 :: pfx]
    (by simp [midOk_of_nameOk _ hm, midOk_of_nameOk _ hc, midOk_of_nameOk _ hi, midOk_of_nameOk _ hh,
          midOk_of_nameOk _ hn, hpl, show midOk (lit "irc.test") = true by decide]) (some (lit "0 " ++ real))
  simpa [srcNick, srcIdent, srcHost] using this
end

/-- the welcome line of `startClient` -/
theorem parse_001 (ext : UnicodeExt) (me ident host : Bytes) (hm : nameOk me = true) :
    ParsesTo ext (lit ":irc.test 001 " ++ me ++ lit " :Welcome " ++ me ++ [33] ++ ident ++ [64] ++ host) [] [] (lit "irc.test")
      (lit "001") [me, lit "Welcome " ++ me ++ [33] ++ ident ++ [64] ++ host] := by
  have e : lit ":irc.test 001 " ++ me ++ lit " :Welcome " ++ me ++ [33] ++ ident ++ [64] ++ host =
      58 :: ((Spec.Irc.Source.server (lit "irc.test")).render ++ 32 :: (lit "001" ++
        (spMids [me] ++ trPart (some (lit "Welcome " ++ me ++ [33] ++ ident ++ [64] ++ host))))) := by
    have : lit ":irc.test 001 " = [58] ++ lit "irc.test" ++ [32] ++ lit "001" ++ [32] := by decide
    have h2 : lit " :Welcome " = [32, 58] ++ lit "Welcome " := by decide
    simp [Spec.Irc.Source.render, spMids, trPart, this, h2]
  rw [e]
  exact parse_gen ext _ srvSrc_wf (lit "001") (by decide) (by decide) (by decide) [me]
    (by simp [midOk_of_nameOk _ hm]) (some (lit "Welcome " ++ me ++ [33] ++ ident ++ [64] ++ host))

/-! ### the verbs, lower-cased by `dispatchInternal` -/

theorem toLower_verbs (ext : UnicodeExt) :
    toLower ext (lit "JOIN") = lit "join" ∧ toLower ext (lit "PART") = lit "part" ∧ toLower ext (lit "KICK") = lit "kick" ∧
    toLower ext (lit "QUIT") = lit "quit" ∧ toLower ext (lit "NICK") = lit "nick" ∧ toLower ext (lit "TOPIC") = lit "topic" ∧
    toLower ext (lit "MODE") = lit "mode" ∧ toLower ext (lit "332") = lit "332" ∧ toLower ext (lit "353") = lit "353" ∧
    toLower ext (lit "366") = lit "366" ∧ toLower ext (lit "315") = lit "315" ∧ toLower ext (lit "324") = lit "324" ∧
    toLower ext (lit "352") = lit "352" ∧ toLower ext (lit "001") = lit "001" := by
  have hh : ∀ s : Bytes, isAscii s = true → toLower ext s = toLowerAscii s := by
    intro s hs; simp [toLower, hs]
  refine ⟨?_, ?_, ?_, ?_, ?_, ?_, ?_, ?_, ?_, ?_, ?_, ?_, ?_, ?_⟩ <;>
    (rw [hh _ (by decide)]; decide)

end Proofs.C13
