import Goirc.Spec.Net
import Goirc.Model.Client
import Goirc.Proofs.TrackerSim
import Goirc.Props.C12
/-!
# C13: definitions shared by the proof files

* relational twins of the state handlers: the same sequence of `Spec.Tracker.step` calls and the
  same branching as `Go.Client.h_*`, acting on `Spec.Tracker.S`;
* `CRx`: the client's heap tracker is related by `R` to a relational state;
* `Eqv`: two relational states are the same finite maps;
* `NetInv`: the invariant of the model network.
-/
namespace Proofs.C13
open Go Go.Client Go.Tracker Spec.Tracker Spec.Net

/-- the relational tracker state -/
abbrev TS := Spec.Tracker.S

/-- state after one relational operation -/
abbrev sx (S : TS) (o : Op) : TS := (Spec.Tracker.step S o).1

/-- `cfg.Me.Name` after `refreshMe`, on the relational side -/
def meName (S : TS) : Bytes := ((AL.lookup S.nicks S.me).getD {}).name

/-- what `IsOn` reports -/
def sIsOn (S : TS) (c n : Bytes) : Bool := AL.has S.nicks n && AL.has S.chans c && AL.has S.mem (c, n)

/-! ## twins -/

def t_001 (S : TS) (l : Line) : TS :=
  let S1 := match parseUserHost (lastWord l.text) with
    | some (_, ident, host) => sx S (.nickInfo S.me ident host (meName S))
    | none => S
  sx S1 (.reNick S.me l.target)

def t_433 (nn : Bytes → Bytes) (S : TS) (l : Line) : TS :=
  match arg l 1 with
  | none => S
  | some refused => if refused == S.me then sx S (.reNick S.me (nn refused)) else S

def t_STNICK (S : TS) (l : Line) : TS :=
  match arg l 0 with
  | none => S
  | some a => sx S (.reNick l.nick a)

def t_JOIN (S : TS) (l : Line) : TS :=
  match arg l 0 with
  | none => S
  | some chn =>
    if !AL.has S.chans chn && !(AL.has S.nicks l.nick && l.nick == S.me) then S
    else
      let S3 := if !AL.has S.chans chn then sx S (.newChannel chn) else S
      let S4 := if !AL.has S.nicks l.nick then sx (sx S3 (.newNick l.nick)) (.nickInfo l.nick l.ident l.host []) else S3
      sx S4 (.associate chn l.nick)

def t_PART (S : TS) (l : Line) : TS :=
  match arg l 0 with
  | none => S
  | some chn => sx S (.dissociate chn l.nick)

def t_KICK (S : TS) (l : Line) : TS :=
  match arg l 0, arg l 1 with
  | some chn, some who => sx S (.dissociate chn who)
  | _, _ => S

def t_QUIT (S : TS) (l : Line) : TS := sx S (.delNick l.nick)

def t_MODE (S : TS) (l : Line) : TS :=
  match arg l 0, arg l 1 with
  | some t, some m =>
    if AL.has S.chans t then sx S (.channelModes t m (l.args.drop 2))
    else if AL.has S.nicks t then (if t == S.me then sx S (.nickModes t m) else S)
    else S
  | _, _ => S

def t_TOPIC (S : TS) (l : Line) : TS :=
  match arg l 0, arg l 1 with
  | some chn, some t => if AL.has S.chans chn then sx S (.topic chn t) else S
  | _, _ => S

def t_311 (S : TS) (l : Line) : TS :=
  match arg l 1, arg l 2, arg l 3, arg l 5 with
  | some n, some i, some h, some name =>
    if AL.has S.nicks n then (if n != S.me then sx S (.nickInfo n i h name) else S) else S
  | _, _, _, _ => S

def t_324 (S : TS) (l : Line) : TS :=
  match arg l 1, arg l 2 with
  | some chn, some m => if AL.has S.chans chn then sx S (.channelModes chn m (l.args.drop 3)) else S
  | _, _ => S

def t_332 (S : TS) (l : Line) : TS :=
  match arg l 1, arg l 2 with
  | some chn, some t => if AL.has S.chans chn then sx S (.topic chn t) else S
  | _, _ => S

def t_352 (S : TS) (l : Line) : TS :=
  match arg l 2, arg l 3, arg l 5 with
  | some ident, some host, some n =>
    if !AL.has S.nicks n then S
    else if n == S.me then S
    else
      match cut (l.args.getLast?.getD []) [32] with
      | (_, none) => S
      | (_, some real) =>
        let S2 := sx S (.nickInfo n ident host real)
        match arg l 6 with
        | none => S2
        | some flags =>
          let S3 := if Go.Client.contains flags 42 then sx S2 (.nickModes n (lit "+o")) else S2
          let S4 := if Go.Client.contains flags 66 then sx S3 (.nickModes n (lit "+B")) else S3
          let S5 := if Go.Client.contains flags 72 then sx S4 (.nickModes n (lit "+i")) else S4
          S5
  | _, _, _ => S

/-- one word of a NAMES reply -/
def tName (chn : Bytes) (S : TS) (w : Bytes) : TS :=
  match w with
  | [] => S
  | b :: tl =>
    let nick := if (prefixMode b).isSome then tl else w
    let S2 := if !AL.has S.nicks nick then sx S (.newNick nick) else S
    let S4 := if sIsOn S2 chn nick then S2 else sx S2 (.associate chn nick)
    match prefixMode b with
    | some m => sx S4 (.channelModes chn m [nick])
    | none => S4

def tNames (chn : Bytes) (S : TS) (ws : List Bytes) : TS := ws.foldl (tName chn) S

def t_353 (S : TS) (l : Line) : TS :=
  match arg l 2 with
  | some chn => if AL.has S.chans chn then tNames chn S (splitByte 32 [] (l.args.getLast?.getD [])) else S
  | none => S

def t_671 (S : TS) (l : Line) : TS :=
  match arg l 1 with
  | some n => if AL.has S.nicks n then sx S (.nickModes n (lit "+z")) else S
  | none => S

def stTwin (ev : Bytes) : Option (TS → Line → TS) :=
  if ev == lit "join" then some t_JOIN
  else if ev == lit "kick" then some t_KICK
  else if ev == lit "mode" then some t_MODE
  else if ev == lit "nick" then some t_STNICK
  else if ev == lit "part" then some t_PART
  else if ev == lit "quit" then some t_QUIT
  else if ev == lit "topic" then some t_TOPIC
  else if ev == lit "311" then some t_311
  else if ev == lit "324" then some t_324
  else if ev == lit "332" then some t_332
  else if ev == lit "352" then some t_352
  else if ev == lit "353" then some t_353
  else if ev == lit "671" then some t_671
  else none

/-- the twin of `dispatchInternal` while tracking is on -/
def tDispatch (ext : UnicodeExt) (nn : Bytes → Bytes) (S : TS) (l : Line) : TS :=
  let ev := toLower ext l.cmd
  let S1 := if ev == lit "001" then t_001 S l else if ev == lit "433" then t_433 nn S l else S
  match stTwin ev with
  | some t => t S1 l
  | none => S1

/-- the twin of `Props.C13.feed` -/
def tFeed (ext : UnicodeExt) (nn : Bytes → Bytes) : S → List Bytes → S
  | S, [] => S
  | S, l :: ls => match parseLine ext l with
    | some ln => tFeed ext nn (tDispatch ext nn S ln) ls
    | none => tFeed ext nn S ls

/-! ## relations -/

/-- the client tracks, its tracker refines `S`, and it has the given case tables and nick generator -/
def CRx (ext : UnicodeExt) (nn : Bytes → Bytes) (c : Client) (S : TS) : Prop :=
  c.ext = ext ∧ c.newNick = nn ∧ ∃ st, c.st = some st ∧ R st S

/-- equal as finite maps -/
structure Eqv (A B : TS) : Prop where
  nicks : ∀ k, AL.lookup A.nicks k = AL.lookup B.nicks k
  chans : ∀ k, AL.lookup A.chans k = AL.lookup B.chans k
  mem : ∀ k, AL.lookup A.mem k = AL.lookup B.mem k
  me : A.me = B.me

/-- memberships only relate known channels and known nicks -/
def WFS (S : TS) : Prop := ∀ c u, AL.has S.mem (c, u) = true → AL.has S.chans c = true ∧ AL.has S.nicks u = true

/-! ## names -/

/-- a nickname does not start with a channel prefix (`#`) or a membership prefix (`~ & @ % +`) -/
def nickHeadOk (s : Bytes) : Bool :=
  match s.head? with
  | some b => !([35, 126, 38, 64, 37, 43].contains b)
  | none => true

def nickOk (s : Bytes) : Bool := nameOk s && nickHeadOk s

/-! ## the invariant of the model network -/

structure ChanInv (n : Net) (c : Bytes) (ch : NChan) : Prop where
  name : chanOk c = true
  topic : textOk ch.topic = true
  key : ch.modes.key = [] ∨ nameOk ch.modes.key = true
  limit : 0 ≤ ch.modes.limit ∧ ch.modes.limit < 100000
  members_nodup : (AL.keys ch.members).Nodup
  members_users : ∀ u, AL.has ch.members u = true → AL.has n.users u = true

structure NetInv (n : Net) : Prop where
  me_view : n.view.me = n.me
  me_user : AL.has n.users n.me = true
  users_ok : ∀ u x, AL.lookup n.users u = some x →
    nickOk u = true ∧ nameOk x.ident = true ∧ nameOk x.host = true ∧ textOk x.real = true
  chans_nodup : (AL.keys n.chans).Nodup
  chan_inv : ∀ c ch, AL.lookup n.chans c = some ch → ChanInv n c ch
  view_chans : ∀ c, AL.has n.view.chans c = onChan n n.me c
  view_mem : ∀ c u, AL.has n.view.mem (c, u) = (onChan n n.me c && onChan n u c)
  view_nicks : ∀ u, AL.has n.view.nicks u = (u == n.me || sharesWithMe n u)
  view_mem_nodup : (AL.keys n.view.mem).Nodup

/-- what the session theorem asks of an event beyond `conforms`: a new nickname is a nickname -/
def evOk : Event → Prop
  | .nick _ nw => nickHeadOk nw = true
  | _ => True

/-! ## copies of the definitions of `Goirc/Props/C13.lean` (which imports the proof files) -/

def feed (c : Client) : List Bytes → Client
  | [] => c
  | l :: ls => match parseLine c.ext l with
    | some ln => feed (dispatchInternal c ln).c ls
    | none => feed c ls

def runNet : Net → Client → List Event → Net × Client
  | n, c, [] => (n, c)
  | n, c, e :: es =>
    if conforms n e then runNet (serverStep n e).1 (feed c (serverStep n e).2) es
    else runNet n c es

def Holds (st : St) (view : TS) : Prop :=
  (∀ name, Props.C12.RetEq (Go.Tracker.step st (.getNick name)).2 (Spec.Tracker.step view (.getNick name)).2) ∧
  (∀ name, Props.C12.RetEq (Go.Tracker.step st (.getChannel name)).2 (Spec.Tracker.step view (.getChannel name)).2) ∧
  (∀ c n, Props.C12.RetEq (Go.Tracker.step st (.isOn c n)).2 (Spec.Tracker.step view (.isOn c n)).2) ∧
  Props.C12.RetEq (Go.Tracker.step st .me).2 (Spec.Tracker.step view .me).2

def Safe (st : St) : Prop :=
  (∃ n, (Go.Tracker.step st .me).2 = .nick (some n) ∧ ∃ m, (Go.Tracker.step st (.getNick n.nick)).2 = .nick (some m)) ∧
  (∀ c cs, (Go.Tracker.step st (.getChannel c)).2 = .chan (some cs) →
     ∃ n, (Go.Tracker.step st .me).2 = .nick (some n) ∧ ∃ p, (Go.Tracker.step st (.isOn c n.nick)).2 = .privs p true) ∧
  (∀ u us, (Go.Tracker.step st (.getNick u)).2 = .nick (some us) →
     (∃ n, (Go.Tracker.step st .me).2 = .nick (some n) ∧ n.nick = u) ∨ us.channels ≠ [])

/-- the relational counterpart of `Safe` -/
structure SafeS (S : TS) : Prop where
  me : AL.has S.nicks S.me = true
  chan_me : ∀ c, AL.has S.chans c = true → AL.has S.mem (c, S.me) = true
  nick_chan : ∀ u, AL.has S.nicks u = true → u = S.me ∨ ∃ c, AL.has S.mem (c, u) = true
  wfs : WFS S

end Proofs.C13
