import Goirc.Proofs.C13Ops
import Goirc.Proofs.C13Sim
import Goirc.Proofs.C13SafeAux
/-!
# C13, second sentence: whatever lines arrive, the tracker stays safe
-/
namespace Proofs.C13
open Go Go.Client Go.Tracker Spec.Tracker Spec.Net

theorem ite_some_eq {α : Type} {b : Bool} {x : α} {r : Option α} {t : α}
    (h : (if b = true then some x else r) = some t) : x = t ∨ r = some t := by
  cases b
  · exact Or.inr h
  · exact Or.inl (Option.some.inj h)

/-- every state handler twin keeps `SafeS` -/
theorem SafeS_stTwin (ev : Bytes) (t : TS → Line → TS) (ht : stTwin ev = some t) (S : TS) (l : Line)
    (h : SafeS S) : SafeS (t S l) := by
  unfold stTwin at ht
  rcases ite_some_eq ht with rfl | ht; exact SafeS_t_JOIN S l h
  rcases ite_some_eq ht with rfl | ht; exact SafeS_t_KICK S l h
  rcases ite_some_eq ht with rfl | ht; exact SafeS_t_MODE S l h
  rcases ite_some_eq ht with rfl | ht; exact SafeS_t_STNICK S l h
  rcases ite_some_eq ht with rfl | ht; exact SafeS_t_PART S l h
  rcases ite_some_eq ht with rfl | ht; exact SafeS_t_QUIT S l h
  rcases ite_some_eq ht with rfl | ht; exact SafeS_t_TOPIC S l h
  rcases ite_some_eq ht with rfl | ht; exact SafeS_t_311 S l h
  rcases ite_some_eq ht with rfl | ht; exact SafeS_t_324 S l h
  rcases ite_some_eq ht with rfl | ht; exact SafeS_t_332 S l h
  rcases ite_some_eq ht with rfl | ht; exact SafeS_t_352 S l h
  rcases ite_some_eq ht with rfl | ht; exact SafeS_t_353 S l h
  rcases ite_some_eq ht with rfl | ht; exact SafeS_t_671 S l h
  cases ht

/-- every twin handler keeps the relational safety invariant, whatever the line -/
theorem SafeS_tDispatch (ext : UnicodeExt) (nn : Bytes → Bytes) (S : TS) (l : Line) (h : SafeS S) :
    SafeS (tDispatch ext nn S l) := by
  unfold tDispatch
  dsimp only
  have h1 : SafeS (if (toLower ext l.cmd == lit "001") = true then t_001 S l
      else if (toLower ext l.cmd == lit "433") = true then t_433 nn S l else S) :=
    SafeS_ite (SafeS_t_001 S l h) (SafeS_ite (SafeS_t_433 nn S l h) h)
  split
  · rename_i t ht; exact SafeS_stTwin _ t ht _ l h1
  · exact h1

theorem SafeS_tFeed (ext : UnicodeExt) (nn : Bytes → Bytes) (S : TS) (ls : List Bytes) (h : SafeS S) :
    SafeS (tFeed ext nn S ls) := by
  induction ls generalizing S with
  | nil => exact h
  | cons l ls ih =>
    simp only [tFeed]
    split
    · exact ih _ (SafeS_tDispatch ext nn S _ h)
    · exact ih _ h

theorem SafeS_new (me : Bytes) : SafeS (Spec.Tracker.new me) := by
  refine ⟨?_, ?_, ?_, ?_⟩
  · simp [Spec.Tracker.new, AL.has_eq, AL.lookup_cons]
  · intro c hc; simp [Spec.Tracker.new, AL.has_eq] at hc
  · intro u hu
    left
    simp only [Spec.Tracker.new, AL.has_eq, AL.lookup_cons] at hu ⊢
    split at hu
    · rename_i e; exact e.symm
    · simp at hu
  · intro c u hcu; simp [Spec.Tracker.new, AL.has_eq] at hcu

/-- the tracker right after `EnableStateTracking` -/
theorem SafeS_start (me ident host name : Bytes) :
    SafeS (sx (Spec.Tracker.new me) (.nickInfo me ident host name)) :=
  SafeS_nickInfo _ _ _ _ _ (SafeS_new me)

theorem RetSim_nick_some {x : Ret} {b : NickSnap} (h : RetSim x (.nick (some b))) :
    ∃ a, x = .nick (some a) ∧ NSEq a b := by
  cases x with
  | nick o => cases o with
    | none => simp [RetSim] at h
    | some a => exact ⟨a, rfl, h⟩
  | _ => simp [RetSim] at h

theorem RetSim_nick_none {x : Ret} (h : RetSim x (.nick none)) : x = .nick none := by
  cases x with
  | nick o => cases o with
    | none => rfl
    | some a => simp [RetSim] at h
  | _ => simp [RetSim] at h

theorem RetSim_chan_none {x : Ret} (h : RetSim x (.chan none)) : x = .chan none := by
  cases x with
  | chan o => cases o with
    | none => rfl
    | some a => simp [RetSim] at h
  | _ => simp [RetSim] at h

theorem RetSim_privs {x : Ret} {q : Option ChanPrivs} {ok : Bool} (h : RetSim x (.privs q ok)) : x = .privs q ok := by
  cases x with
  | privs p ok' => simp only [RetSim] at h; rw [h.1, h.2]
  | _ => simp [RetSim] at h

/-- relational safety, seen through the heap tracker's own queries -/
theorem Safe_of_SafeS {st : St} {S : TS} (r : R st S) (h : SafeS S) : Safe st := by
  have hme : ∃ a, (Go.Tracker.step st .me).2 = .nick (some a) ∧ a.nick = S.me := by
    have := (step_sim r .me).2
    simp only [Spec.Tracker.step] at this
    obtain ⟨a, ha, hab⟩ := RetSim_nick_some this
    exact ⟨a, ha, hab.1⟩
  have hgn : ∀ u, (AL.has S.nicks u = true ∧ ∃ a, (Go.Tracker.step st (.getNick u)).2 = .nick (some a) ∧ NSEq a (nickSnap S u)) ∨
      (AL.has S.nicks u = false ∧ (Go.Tracker.step st (.getNick u)).2 = .nick none) := by
    intro u
    have := (step_sim r (.getNick u)).2
    simp only [Spec.Tracker.step] at this
    cases hu : AL.has S.nicks u
    · right; rw [hu] at this; exact ⟨rfl, RetSim_nick_none this⟩
    · left; rw [hu] at this; exact ⟨rfl, RetSim_nick_some this⟩
  have hgc : ∀ c, AL.has S.chans c = false → (Go.Tracker.step st (.getChannel c)).2 = .chan none := by
    intro c hc
    have := (step_sim r (.getChannel c)).2
    simp only [Spec.Tracker.step, hc] at this
    exact RetSim_chan_none this
  have hio : ∀ c n p, AL.has S.nicks n = true → AL.has S.chans c = true → AL.lookup S.mem (c, n) = some p →
      (Go.Tracker.step st (.isOn c n)).2 = .privs (some p) true := by
    intro c n p h1 h2 h3
    have := (step_sim r (.isOn c n)).2
    simp only [Spec.Tracker.step, h1, h2, h3] at this
    exact RetSim_privs this
  obtain ⟨a, ha, hame⟩ := hme
  refine ⟨⟨a, ha, ?_⟩, ?_, ?_⟩
  · rcases hgn a.nick with ⟨_, m, hm, _⟩ | ⟨h1, _⟩
    · exact ⟨m, hm⟩
    · rw [hame, h.me] at h1; cases h1
  · intro c cs hcs
    cases hc : AL.has S.chans c
    · rw [hgc c hc] at hcs; cases hcs
    · have h1 := h.chan_me c hc
      obtain ⟨p, hp⟩ := (AL.has_true_iff _ _).1 h1
      exact ⟨a, ha, some p, by rw [hame]; exact hio c S.me p h.me hc hp⟩
  · intro u us hus
    rcases hgn u with ⟨hu, m, hm, hms⟩ | ⟨_, h1⟩
    · rw [hm] at hus
      injection hus with hus; injection hus with hus; subst hus
      rcases h.nick_chan u hu with h2 | ⟨c, h2⟩
      · left; exact ⟨a, ha, by rw [hame, h2]⟩
      · right
        obtain ⟨p, hp⟩ := (AL.has_true_iff _ _).1 h2
        have hmem := AL.mem_of_lookup hp
        have hperm := hms.2.2.2.2.2
        intro he
        rw [he] at hperm
        have := hperm.symm.eq_nil
        simp only [Spec.Tracker.nickSnap, List.map_eq_nil_iff, List.filter_eq_nil_iff] at this
        have := this _ hmem
        simp at this
    · rw [h1] at hus; cases hus

theorem safety_core (me ident real : Bytes) (ext : UnicodeExt) (lines : List Bytes) :
    let c0 : Client := { cfg := { meNick := me, meIdent := ident, meName := real }, newNick := defaultNewNick, ext := ext }
    ∃ st, (feed (enableTracking c0) lines).st = some st ∧ Safe st := by
  intro c0
  have h0 := CRx_enable c0 rfl
  have h1 := CRx_feed h0 lines
  obtain ⟨st, hst, r⟩ := CRx_query h1
  exact ⟨st, hst, Safe_of_SafeS r (SafeS_tFeed _ _ _ _ (SafeS_start _ _ _ _))⟩

end Proofs.C13
