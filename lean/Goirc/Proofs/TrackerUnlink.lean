import Goirc.Proofs.Tracker
import Goirc.Proofs.TrackerSpec
/-! Removing one membership (`ch.delNick(nk)` + `nk.delChannel(ch)`) and what is built from it:
`delNick`, `delChannel`, `Dissociate`, `Wipe`. -/
namespace Spec.Tracker
open Go.Tracker AL

/-- remove nick `n` from channel `c` in both directions -/
def unlink (st : St) (c n : Id) : St := nickDelChannel (chanDelNick st c n) n c

theorem unlink_comm (st : St) (c n : Id) : chanDelNick (nickDelChannel st n c) c n = unlink st c n := by
  unfold unlink nickDelChannel chanDelNick
  cases h1 : AL.has (getN st n).chans c <;> cases h2 : AL.has (getC st c).nicks n <;>
    simp [h1, h2, setN, setC]

theorem unlink_of_not_on {st : St} {c n : Id} (h1 : AL.lookup (getN st n).chans c = none)
    (h2 : AL.lookup (getC st c).nicks n = none) : unlink st c n = st := by
  unfold unlink nickDelChannel chanDelNick
  simp [has_eq, h1, h2]

theorem unlink_of_on {st : St} {c n : Id} {cell cell' : Id} (h1 : AL.lookup (getN st n).chans c = some cell)
    (h2 : AL.lookup (getC st c).nicks n = some cell') :
    unlink st c n = setN (setC st c { getC st c with nicks := AL.erase (getC st c).nicks n,
                                                     lookup := AL.erase (getC st c).lookup (getN st n).nick }) n
      { getN st n with chans := AL.erase (getN st n).chans c,
                       lookup := AL.erase (getN st n).lookup (getC st c).name } := by
  unfold unlink nickDelChannel chanDelNick
  simp [has_eq, h1, h2]

section frame
variable (st : St) (c n : Id)

@[simp] theorem unlink_nicks : (unlink st c n).nicks = st.nicks := by
  unfold unlink nickDelChannel chanDelNick
  cases h1 : AL.has (getC st c).nicks n <;> simp [h1] <;> split <;> rfl
@[simp] theorem unlink_chans : (unlink st c n).chans = st.chans := by
  unfold unlink nickDelChannel chanDelNick
  cases h1 : AL.has (getC st c).nicks n <;> simp [h1] <;> split <;> rfl
@[simp] theorem unlink_me : (unlink st c n).me = st.me := by
  unfold unlink nickDelChannel chanDelNick
  cases h1 : AL.has (getC st c).nicks n <;> simp [h1] <;> split <;> rfl
@[simp] theorem unlink_fresh : (unlink st c n).fresh = st.fresh := by
  unfold unlink nickDelChannel chanDelNick
  cases h1 : AL.has (getC st c).nicks n <;> simp [h1] <;> split <;> rfl
@[simp] theorem unlink_getP (j : Id) : getP (unlink st c n) j = getP st j := by
  unfold unlink nickDelChannel chanDelNick
  cases h1 : AL.has (getC st c).nicks n <;> simp [h1] <;> split <;> rfl
@[simp] theorem unlink_nick (j : Id) : (getN (unlink st c n) j).nick = (getN st j).nick := by
  unfold unlink nickDelChannel chanDelNick
  cases h1 : AL.has (getC st c).nicks n <;> simp [h1] <;> split <;> simp <;> split <;> simp_all
@[simp] theorem unlink_name (j : Id) : (getC (unlink st c n) j).name = (getC st j).name := by
  unfold unlink nickDelChannel chanDelNick
  cases h1 : AL.has (getC st c).nicks n <;> simp [h1] <;> split <;> simp <;> split <;> simp_all
theorem unlink_absN (j : Id) : absN (getN (unlink st c n) j) = absN (getN st j) := by
  unfold unlink nickDelChannel chanDelNick
  cases h1 : AL.has (getC st c).nicks n <;> simp [h1] <;> split <;> simp <;> split <;> simp_all [absN]
theorem unlink_absC (j : Id) : absC (getC (unlink st c n) j) = absC (getC st j) := by
  unfold unlink nickDelChannel chanDelNick
  cases h1 : AL.has (getC st c).nicks n <;> simp [h1] <;> split <;> simp <;> split <;> simp_all [absC]
theorem unlink_getN_other (j : Id) (h : n ≠ j) : getN (unlink st c n) j = getN st j := by
  unfold unlink nickDelChannel chanDelNick
  cases h1 : AL.has (getC st c).nicks n <;> simp [h1] <;> split <;> simp [h]
theorem unlink_getC_other (j : Id) (h : c ≠ j) : getC (unlink st c n) j = getC st j := by
  unfold unlink nickDelChannel chanDelNick
  cases h1 : AL.has (getC st c).nicks n <;> simp [h1] <;> split <;> simp [h]
theorem unlink_nchans_self : (getN (unlink st c n) n).chans = AL.erase (getN st n).chans c := by
  unfold unlink nickDelChannel chanDelNick
  cases h1 : AL.has (getC st c).nicks n <;> cases h2 : AL.has (getN st n).chans c <;>
    simp [h1, h2] <;> exact (erase_of_lookup_none ((has_false_iff _ _).1 h2)).symm
theorem unlink_cnicks_self : (getC (unlink st c n) c).nicks = AL.erase (getC st c).nicks n := by
  unfold unlink nickDelChannel chanDelNick
  cases h1 : AL.has (getC st c).nicks n <;> cases h2 : AL.has (getN st n).chans c <;>
    simp [h1, h2] <;> exact (erase_of_lookup_none ((has_false_iff _ _).1 h1)).symm
theorem unlink_set_nicks (x : List (Bytes × Id)) :
    unlink { st with nicks := x } c n = { unlink st c n with nicks := x } := by
  unfold unlink nickDelChannel chanDelNick
  cases h1 : AL.has (getC st c).nicks n <;> cases h2 : AL.has (getN st n).chans c <;>
    simp [h1, h2, setN, setC]
theorem unlink_set_chans (x : List (Bytes × Id)) :
    unlink { st with chans := x } c n = { unlink st c n with chans := x } := by
  unfold unlink nickDelChannel chanDelNick
  cases h1 : AL.has (getC st c).nicks n <;> cases h2 : AL.has (getN st n).chans c <;>
    simp [h1, h2, setN, setC]
end frame

theorem _root_.Go.Tracker.WF.on_iff {st : St} (w : WF st) {c n : Id} (lc : LiveC st c) (ln : LiveN st n) (cell : Id) :
    AL.lookup (getN st n).chans c = some cell ↔ AL.lookup (getC st c).nicks n = some cell :=
  ⟨fun h => (w.nk_ch n ln c cell h).2, fun h => (w.ch_nk c lc n cell h).2⟩

theorem _root_.Go.Tracker.WF.on_none_iff {st : St} (w : WF st) {c n : Id} (lc : LiveC st c) (ln : LiveN st n) :
    AL.lookup (getN st n).chans c = none ↔ AL.lookup (getC st c).nicks n = none := by
  constructor
  · intro h
    cases h2 : AL.lookup (getC st c).nicks n with
    | none => rfl
    | some cell => rw [(w.on_iff lc ln cell).2 h2] at h; cases h
  · intro h
    cases h2 : AL.lookup (getN st n).chans c with
    | none => rfl
    | some cell => rw [(w.on_iff lc ln cell).1 h2] at h; cases h

theorem R_unlink {st : St} {S : S} (r : R st S) {cn a : Bytes} {c n : Id} (hc : AL.lookup st.chans cn = some c)
    (hn : AL.lookup st.nicks a = some n) :
    R (unlink st c n) { S with mem := AL.erase S.mem (cn, a) } := by
  obtain ⟨w, ab⟩ := r
  have lc := w.liveC hc
  have ln := w.liveN hn
  have hnn := w.nick_name a n hn
  have hcn := w.chan_name cn c hc
  cases h1 : AL.lookup (getN st n).chans c with
  | none =>
    have h2 := (w.on_none_iff lc ln).1 h1
    rw [unlink_of_not_on h1 h2]
    have : AL.lookup S.mem (cn, a) = none := by rw [ab.mem, hc, hn]; simp [h1]
    rw [erase_of_lookup_none this]
    exact ⟨w, ab⟩
  | some cell0 =>
  have h2 := (w.on_iff lc ln cell0).1 h1
  generalize hs : unlink st c n = s
  rw [unlink_of_on h1 h2] at hs
  have e1 : s.nicks = st.nicks := by subst hs; rfl
  have e2 : s.chans = st.chans := by subst hs; rfl
  have e3 : s.me = st.me := by subst hs; rfl
  have e4 : s.fresh = st.fresh := by subst hs; rfl
  have e5 : ∀ j, getP s j = getP st j := by intro j; subst hs; rfl
  have e6 : ∀ j, (getN s j).nick = (getN st j).nick := by
    intro j; subst hs; simp only [getN_setN]; split <;> simp_all
  have e7 : ∀ j, (getC s j).name = (getC st j).name := by
    intro j; subst hs; simp only [getC_setN, getC_setC]; split <;> simp_all
  have e8 : ∀ j d, AL.lookup (getN s j).chans d =
      if n = j ∧ c = d then none else AL.lookup (getN st j).chans d := by
    intro j d; subst hs; simp only [getN_setN]
    by_cases hj : n = j
    · subst hj; simp only [if_true, lookup_erase, true_and]
    · simp [hj]
  have e9 : ∀ d j, AL.lookup (getC s d).nicks j =
      if n = j ∧ c = d then none else AL.lookup (getC st d).nicks j := by
    intro d j; subst hs; simp only [getC_setN, getC_setC]
    by_cases hd : c = d
    · subst hd; simp only [if_true, lookup_erase, and_true]
    · simp [hd]
  have e10 : ∀ d b, AL.lookup (getC s d).lookup b =
      if c = d ∧ a = b then none else AL.lookup (getC st d).lookup b := by
    intro d b; subst hs; simp only [getC_setN, getC_setC]
    by_cases hd : c = d
    · subst hd; simp only [if_true, lookup_erase, true_and, hnn]
    · simp [hd]
  have e11 : ∀ j, absN (getN s j) = absN (getN st j) := by
    intro j; subst hs; simp only [getN_setN]; split
    · subst_vars; rfl
    · rfl
  have e12 : ∀ j, absC (getC s j) = absC (getC st j) := by
    intro j; subst hs; simp only [getC_setN, getC_setC]; split
    · subst_vars; rfl
    · rfl
  have e13 : ∀ j, n ≠ j → (getN s j).chans = (getN st j).chans := by
    intro j hj; subst hs; simp [hj]
  have e14 : (getN s n).chans = AL.erase (getN st n).chans c := by
    subst hs; simp
  have e15 : ∀ j, c ≠ j → (getC s j).nicks = (getC st j).nicks := by
    intro j hj; subst hs; simp [hj]
  have e16 : (getC s c).nicks = AL.erase (getC st c).nicks n := by
    subst hs; simp
  clear hs
  have lN : ∀ j, LiveN s j ↔ LiveN st j := by intro j; simp only [LiveN, e1, e6]
  have lC : ∀ j, LiveC s j ↔ LiveC st j := by intro j; simp only [LiveC, e2, e7]
  constructor
  · constructor
    · simp only [e1, e6]; exact w.nick_name
    · simp only [e2, e7]; exact w.chan_name
    · simp only [lN, e3]; exact w.me_live
    · intro i hi; rw [lN] at hi
      by_cases h : n = i
      · subst h; rw [e14]; exact nodup_erase (w.nk_nodup _ hi) _
      · rw [e13 i h]; exact w.nk_nodup i hi
    · intro i hi; rw [lC] at hi
      by_cases h : c = i
      · subst h; rw [e16]; exact nodup_erase (w.ch_nodup _ hi) _
      · rw [e15 i h]; exact w.ch_nodup i hi
    · intro i hi d cell hx
      rw [lN] at hi; rw [e8] at hx; rw [lC, e9]
      split at hx
      · cases hx
      · rename_i h; rw [if_neg h]; exact w.nk_ch i hi d cell hx
    · intro d hd i cell hx
      rw [lC] at hd; rw [e9] at hx; rw [lN, e8]
      split at hx
      · cases hx
      · rename_i h; rw [if_neg h]; exact w.ch_nk d hd i cell hx
    · intro d hd b i
      rw [lC] at hd
      have hw := w.ch_lookup d hd
      simp only [has_eq] at hw
      rw [e10, e6, has_eq, e9]
      by_cases hdc : c = d
      · subst hdc
        by_cases ha : a = b
        · subst ha
          simp only [true_and, if_true, and_true]
          constructor
          · intro h; cases h
          · rintro ⟨h3, h4⟩
            split at h3
            · cases h3
            · rename_i hne
              obtain ⟨cell, hcell⟩ := Option.isSome_iff_exists.1 h3
              have := (w.ch_nk _ hd i cell hcell).1
              unfold LiveN at this; rw [h4, hn] at this; cases this; exact absurd rfl hne
        · simp only [ha, and_false, if_false, and_true]
          rw [hw]
          have : ∀ (h4 : (getN st i).nick = b), n ≠ i := by
            intro h4 h; subst h; exact ha (hnn.symm.trans h4)
          constructor
          · rintro ⟨h3, h4⟩
            simp [this h4, h3, h4]
          · rintro ⟨h3, h4⟩
            simp only [this h4, if_false] at h3; exact ⟨h3, h4⟩
      · simp only [hdc, false_and, and_false, if_false]
        exact hw b i
    · intro i hi j hj d d' cell hx hy
      rw [lN] at hi hj; rw [e8] at hx hy
      split at hx
      · cases hx
      · split at hy
        · cases hy
        · exact w.cell_inj i hi j hj d d' cell hx hy
    · rw [e1, e4]; exact w.fresh_nick
    · rw [e2, e4]; exact w.fresh_chan
    · intro i hi d cell hx
      rw [lN] at hi; rw [e8] at hx; rw [e4]
      split at hx
      · cases hx
      · exact w.fresh_cell i hi d _ hx
  · constructor
    · simp only [e1, e11]; exact ab.nicks
    · simp only [e2, e12]; exact ab.chans
    · intro dn b
      simp only [lookup_erase, e1, e2, Prod.mk.injEq]
      split
      · rename_i h; obtain ⟨rfl, rfl⟩ := h
        simp [hc, hn, e8]
      · rename_i hne
        rw [ab.mem]
        cases hd : AL.lookup st.chans dn with
        | none => rfl
        | some d =>
          cases hj : AL.lookup st.nicks b with
          | none => rfl
          | some j =>
            simp only [Option.bind_some, e8]
            have : ¬ (n = j ∧ c = d) := by
              rintro ⟨rfl, rfl⟩; exact hne ⟨w.chan_inj hc hd, w.nick_inj hn hj⟩
            rw [if_neg this]
            congr 1; funext x; exact (e5 x).symm
    · exact nodup_erase ab.mem_nodup _
    · rw [e1, e3]; exact ab.me
    · rw [e2]; exact ab.chan_keys

/-- forgetting a nick that is on no channel -/
theorem R_removeNick {st : St} {S : S} (r : R st S) {a : Bytes} {n : Id} (hn : AL.lookup st.nicks a = some n)
    (hme : n ≠ st.me) (hemp : ∀ c, AL.lookup (getN st n).chans c = none) :
    R { st with nicks := AL.erase st.nicks a } { S with nicks := AL.erase S.nicks a } := by
  obtain ⟨w, ab⟩ := r
  have ln := w.liveN hn
  have hnn := w.nick_name a n hn
  generalize hs : ({ st with nicks := AL.erase st.nicks a } : St) = s
  have e1 : ∀ b, AL.lookup s.nicks b = if a = b then none else AL.lookup st.nicks b := by
    intro b; subst hs; exact lookup_erase _ _ _
  have e2 : s.chans = st.chans := by subst hs; rfl
  have e3 : s.me = st.me := by subst hs; rfl
  have e4 : s.fresh = st.fresh := by subst hs; rfl
  have e5 : ∀ j, getP s j = getP st j := by intro j; subst hs; rfl
  have e6 : ∀ j, getN s j = getN st j := by intro j; subst hs; rfl
  have e7 : ∀ j, getC s j = getC st j := by intro j; subst hs; rfl
  clear hs
  have lN : ∀ j, LiveN s j ↔ (LiveN st j ∧ j ≠ n) := by
    intro j; simp only [LiveN, e1, e6]
    constructor
    · intro h
      split at h
      · cases h
      · rename_i hne
        refine ⟨h, ?_⟩
        intro hj; subst hj; exact hne hnn.symm
    · rintro ⟨h, hne⟩
      rw [if_neg]
      · exact h
      · intro ha; rw [← ha, hn] at h; cases h; exact hne rfl
  have lC : ∀ j, LiveC s j ↔ LiveC st j := by intro j; simp only [LiveC, e2, e7]
  constructor
  · constructor
    · intro b i h; rw [e1] at h; rw [e6]
      split at h
      · cases h
      · exact w.nick_name b i h
    · simp only [e2, e7]; exact w.chan_name
    · rw [lN, e3]; exact ⟨w.me_live, fun h => hme h.symm⟩
    · intro i hi; rw [lN] at hi; rw [e6]; exact w.nk_nodup i hi.1
    · intro i hi; rw [lC] at hi; rw [e7]; exact w.ch_nodup i hi
    · intro i hi c cell hx
      rw [lN] at hi; rw [e6] at hx; rw [lC, e7]
      exact w.nk_ch i hi.1 c cell hx
    · intro c hc i cell hx
      rw [lC] at hc; rw [e7] at hx; rw [lN, e6]
      have := w.ch_nk c hc i cell hx
      refine ⟨⟨this.1, ?_⟩, this.2⟩
      intro h; subst h; rw [hemp] at this; cases this.2
    · intro c hc b i
      rw [lC] at hc; rw [e7, e6]
      exact w.ch_lookup c hc b i
    · intro i hi j hj c d cell hx hy
      rw [lN] at hi hj; rw [e6] at hx hy
      exact w.cell_inj i hi.1 j hj.1 c d cell hx hy
    · intro b i h; rw [e1] at h; rw [e4]
      split at h
      · cases h
      · exact w.fresh_nick b i h
    · rw [e2, e4]; exact w.fresh_chan
    · intro i hi c cell hx
      rw [lN] at hi; rw [e6] at hx; rw [e4]
      exact w.fresh_cell i hi.1 c cell hx
  · constructor
    · intro b
      simp only [lookup_erase, e1, e6]
      split
      · rfl
      · exact ab.nicks b
    · simp only [e2, e7]; exact ab.chans
    · intro cn b
      simp only [e1, e2, e5, e6]
      rw [ab.mem]
      split
      · subst_vars
        cases hc : AL.lookup st.chans cn with
        | none => rfl
        | some c => simp [hn, hemp]
      · congr 1; funext c; congr 1; funext i; congr 1; funext x; exact (e5 x).symm
    · exact ab.mem_nodup
    · rw [e1, e3, if_neg]
      · exact ab.me
      · intro h; have := ab.me; rw [← h, hn] at this; cases this; exact hme rfl
    · rw [e2]; exact ab.chan_keys

/-- forgetting a channel that has no members -/
theorem R_removeChan {st : St} {S : S} (r : R st S) {a : Bytes} {c : Id} (hc : AL.lookup st.chans a = some c)
    (hemp : ∀ i, AL.lookup (getC st c).nicks i = none) :
    R { st with chans := AL.erase st.chans a } { S with chans := AL.erase S.chans a } := by
  obtain ⟨w, ab⟩ := r
  have lc := w.liveC hc
  have hcn := w.chan_name a c hc
  generalize hs : ({ st with chans := AL.erase st.chans a } : St) = s
  have e1 : ∀ b, AL.lookup s.chans b = if a = b then none else AL.lookup st.chans b := by
    intro b; subst hs; exact lookup_erase _ _ _
  have e2 : s.nicks = st.nicks := by subst hs; rfl
  have e3 : s.me = st.me := by subst hs; rfl
  have e4 : s.fresh = st.fresh := by subst hs; rfl
  have e5 : ∀ j, getP s j = getP st j := by intro j; subst hs; rfl
  have e6 : ∀ j, getN s j = getN st j := by intro j; subst hs; rfl
  have e7 : ∀ j, getC s j = getC st j := by intro j; subst hs; rfl
  have e8 : s.chans = AL.erase st.chans a := by subst hs; rfl
  clear hs
  have lC : ∀ j, LiveC s j ↔ (LiveC st j ∧ j ≠ c) := by
    intro j; simp only [LiveC, e1, e7]
    constructor
    · intro h
      split at h
      · cases h
      · rename_i hne
        refine ⟨h, ?_⟩
        intro hj; subst hj; exact hne hcn.symm
    · rintro ⟨h, hne⟩
      rw [if_neg]
      · exact h
      · intro ha; rw [← ha, hc] at h; cases h; exact hne rfl
  have lN : ∀ j, LiveN s j ↔ LiveN st j := by intro j; simp only [LiveN, e2, e6]
  constructor
  · constructor
    · simp only [e2, e6]; exact w.nick_name
    · intro b i h; rw [e1] at h; rw [e7]
      split at h
      · cases h
      · exact w.chan_name b i h
    · rw [lN, e3]; exact w.me_live
    · intro i hi; rw [lN] at hi; rw [e6]; exact w.nk_nodup i hi
    · intro i hi; rw [lC] at hi; rw [e7]; exact w.ch_nodup i hi.1
    · intro i hi d cell hx
      rw [lN] at hi; rw [e6] at hx; rw [lC, e7]
      have := w.nk_ch i hi d cell hx
      refine ⟨⟨this.1, ?_⟩, this.2⟩
      intro h; subst h; rw [hemp] at this; cases this.2
    · intro d hd i cell hx
      rw [lC] at hd; rw [e7] at hx; rw [lN, e6]
      exact w.ch_nk d hd.1 i cell hx
    · intro d hd b i
      rw [lC] at hd; rw [e7, e6]
      exact w.ch_lookup d hd.1 b i
    · simp only [lN, e6]; exact w.cell_inj
    · rw [e2, e4]; exact w.fresh_nick
    · intro b i h; rw [e1] at h; rw [e4]
      split at h
      · cases h
      · exact w.fresh_chan b i h
    · simp only [lN, e6, e4]; exact w.fresh_cell
  · constructor
    · simp only [e2, e6]; exact ab.nicks
    · intro b
      simp only [lookup_erase, e1, e7]
      split
      · rfl
      · exact ab.chans b
    · intro cn b
      simp only [e1, e2, e6]
      rw [ab.mem]
      split
      · subst_vars
        rw [hc]
        simp only [Option.bind_some, Option.bind_none]
        cases hb : AL.lookup st.nicks b with
        | none => rfl
        | some i =>
          simp only [Option.bind_some]
          cases hx : AL.lookup (getN st i).chans c with
          | none => rfl
          | some cell => have := (w.nk_ch i (w.liveN hb) c cell hx).2; rw [hemp] at this; cases this
      · congr 1; funext c; congr 1; funext i; congr 1; funext x; exact (e5 x).symm
    · exact ab.mem_nodup
    · rw [e2, e3]; exact ab.me
    · rw [e8]; simp only [keys_erase, ab.chan_keys]

end Spec.Tracker
