import Goirc.Proofs.Line
import Goirc.Model.LineGo
/-! Helper lemmas for C02: the Go-literal parser (checked indexing) agrees with the readable model. -/
namespace Go.LineGo
open Go

/-! ### checked operations -/

theorem idx_of_lt {α : Type} [Inhabited α] (s : List α) (i : Nat) (h : i < s.length) :
    idx s i = .ok s[i] := by
  simp [idx, h]

@[simp] theorem idx_cons_zero {α : Type} [Inhabited α] (a : α) (s : List α) : idx (a :: s) 0 = .ok a := by
  simp [idx]

@[simp] theorem idx_cons_one {α : Type} [Inhabited α] (a b : α) (s : List α) : idx (a :: b :: s) 1 = .ok b := by
  simp [idx]

theorem slice_of_le {α : Type} (s : List α) (i j : Nat) (h1 : i ≤ j) (h2 : j ≤ s.length) :
    slice s i j = .ok ((s.take j).drop i) := by
  simp [slice, h1, h2]

theorem sliceFrom_of_le {α : Type} (s : List α) (i : Nat) (h : i ≤ s.length) :
    sliceFrom s i = .ok (s.drop i) := by
  simp [sliceFrom, h]

/-! ### `indexByte` -/

theorem indexByteFrom_spec (c : UInt8) (s : Bytes) (k i : Nat) (h : indexByteFrom c s k = some i) :
    k ≤ i ∧ ∃ hlt : i - k < s.length, s[i - k] = c := by
  induction s generalizing k with
  | nil => simp [indexByteFrom] at h
  | cons x s ih =>
    simp only [indexByteFrom] at h
    split at h
    · rename_i hx
      simp at h hx
      subst h
      simp [hx]
    · obtain ⟨h1, h2, h3⟩ := ih (k + 1) h
      refine ⟨by omega, by simp; omega, ?_⟩
      have : i - k = (i - (k + 1)) + 1 := by omega
      simp [this, h3]

theorem indexByte_spec (s : Bytes) (c : UInt8) (i : Nat) (h : indexByte s c = some i) :
    ∃ hlt : i < s.length, s[i] = c := by
  simpa using (indexByteFrom_spec c s 0 i h).2

theorem indexByte_lt (s : Bytes) (c : UInt8) (i : Nat) (h : indexByte s c = some i) : i < s.length :=
  (indexByte_spec s c i h).1

theorem indexByte_cons_pos (x : UInt8) (s : Bytes) (c : UInt8) (i : Nat) (hx : x ≠ c)
    (h : indexByte (x :: s) c = some i) : 1 ≤ i := by
  obtain ⟨hlt, hc⟩ := indexByte_spec _ _ _ h
  cases i with
  | zero => simp at hc; exact absurd hc hx
  | succ n => omega

/-! ### accessors -/

theorem textGo_eq (l : Line) : textGo l = .ok l.text := by
  unfold textGo Line.text
  split
  · rename_i h
    rw [idx_of_lt _ _ (by omega)]
    rw [List.getLast?_eq_getElem?]
    simp [List.getElem?_eq_getElem (show l.args.length - 1 < l.args.length by omega)]
  · rename_i h
    have : l.args = [] := by
      cases hl : l.args with
      | nil => rfl
      | cons a b => simp [hl] at h
    simp [this]

theorem publicGo_eq (l : Line) : publicGo l = .ok l.public := by
  unfold publicGo Line.public
  split
  · rcases hl : l.args with _ | ⟨a, rest⟩
    · simp
    · cases a with
      | nil => simp <;> rfl
      | cons b a' => simp <;> rfl
  · split
    · rcases hl : l.args with _ | ⟨a0, rest⟩
      · simp
      · rcases rest with _ | ⟨a, rest'⟩
        · simp
        · cases a with
          | nil => simp <;> rfl
          | cons b a' => simp <;> rfl
    · rfl

theorem targetGo_eq (l : Line) : targetGo l = .ok l.target := by
  unfold targetGo Line.target
  rw [publicGo_eq]
  split
  · cases hp : l.public
    · simp <;> rfl
    · rcases hl : l.args with _ | ⟨a, rest⟩
      · simp <;> rfl
      · simp <;> rfl
  · rename_i h1
    split
    · rename_i h2
      cases hp : l.public
      · simp <;> rfl
      · have : ∃ a0 b a' rest, l.args = a0 :: (b :: a') :: rest := by
          unfold Line.public at hp
          rw [if_neg h1, if_pos h2] at hp
          split at hp
          · rename_i a0 b a' rest hl
            exact ⟨_, _, _, _, hl⟩
          · simp at hp
        obtain ⟨a0, b, a', rest, hl⟩ := this
        simp [hl] <;> rfl
    · rcases hl : l.args with _ | ⟨a, rest⟩
      · simp <;> rfl
      · simp <;> rfl

/-! ### the parser, stage by stage -/

@[simp] theorem ok_bind {α β : Type} (a : α) (f : α → M β) : (Except.ok a : M α) >>= f = f a := rfl
@[simp] theorem ok_map {α β : Type} (a : α) (f : α → β) : f <$> (Except.ok a : M α) = Except.ok (f a) := rfl
@[simp] theorem pure_eq_ok {α : Type} (a : α) : (pure a : M α) = Except.ok a := rfl

theorem addTagGo_eq (m : List (Bytes × Bytes)) (tag : Bytes) : addTagGo m tag = .ok (addTag m tag) := by
  unfold addTagGo addTag splitN2
  split
  · rfl
  · rcases hc : cut (unescapeTag tag) [61] with ⟨a, _ | b⟩
    · simp
    · simp

theorem foldlM_ok {α β : Type} (f : β → α → M β) (g : β → α → β) (h : ∀ b a, f b a = .ok (g b a))
    (l : List α) (init : β) : l.foldlM f init = .ok (l.foldl g init) := by
  induction l generalizing init with
  | nil => rfl
  | cons a l ih => simp [List.foldlM, h, ih]

theorem parseTagsGo_eq (r : Bytes) : parseTagsGo r = .ok (parseTags r) :=
  foldlM_ok _ _ addTagGo_eq _ _

theorem parseUserHostGo_eq (u : Bytes) : parseUserHostGo u = .ok (parseUserHost u) := by
  unfold parseUserHostGo parseUserHost
  simp only
  rcases hn : indexByte (trimSpace u) 33 with _ | nidx
  · rfl
  rcases hu : indexByte (trimSpace u) 64 with _ | uidx
  · rfl
  simp only
  split
  · rfl
  · rename_i hlt
    obtain ⟨hn1, hn2⟩ := indexByte_spec _ _ _ hn
    obtain ⟨hu1, hu2⟩ := indexByte_spec _ _ _ hu
    have hne : nidx ≠ uidx := by
      intro e; subst e; rw [hn2] at hu2; exact absurd hu2 (by decide)
    rw [slice_of_le _ _ _ (by omega) (by omega), slice_of_le _ _ _ (by omega) (by omega),
      sliceFrom_of_le _ _ (by omega)]
    simp

theorem ctcpGo_eq (ext : UnicodeExt) (line : Line) : ctcpGo ext line = .ok (ctcpRewrite ext line) := by
  obtain ⟨tags, nick, ident, host, src, cmd, raw, args⟩ := line
  unfold ctcpGo ctcpRewrite ctcpCmdArgs
  by_cases h1 : (cmd == PRIVMSG || cmd == NOTICE) = true
  · simp only [h1]
    rcases args with _ | ⟨a0, _ | ⟨a1, more⟩⟩
    · simp
    · simp
    · simp only [List.length_cons, idx_cons_one, ok_bind]
      by_cases h2 : a1.length > 2
      · by_cases h3 : hasPrefix a1 [1] = true
        · by_cases h4 : hasSuffix a1 [1] = true
          · simp only [h2, h3, h4, splitN2]
            obtain ⟨t0, o, hc⟩ : ∃ t0 o, cut (trimByte 1 a1) [32] = (t0, o) := ⟨_, _, rfl⟩
            rcases o with _ | t
            · simp [hc]
              split <;> simp
            · simp [hc, setIdx]
              split <;> simp
          · simp [h2, h3, h4]
        · simp [h2, h3]
      · simp [h2]
  · simp [h1]

theorem restGo_eq (ext : UnicodeExt) (line : Line) (s : Bytes) :
    restGo ext line s = .ok (parseRest ext line s) := by
  unfold restGo parseRest restArgs splitN2
  obtain ⟨a, o, hc⟩ : ∃ a o, cut s [32, 58] = (a, o) := ⟨_, _, rfl⟩
  rcases o with _ | t
  · simp only [hc, idx_cons_zero, ok_bind, List.length_cons, List.length_nil]
    generalize fields a = args
    rcases args with _ | ⟨c, _ | ⟨d, rest⟩⟩
    · rfl
    · simp [ctcpGo_eq]
    · simp [ctcpGo_eq, sliceFrom]
  · simp only [hc, idx_cons_zero, ok_bind, List.length_cons, List.length_nil, idx_cons_one]
    generalize fields a ++ [t] = args
    rcases args with _ | ⟨c, _ | ⟨d, rest⟩⟩
    · rfl
    · simp [ctcpGo_eq]
    · simp [ctcpGo_eq, sliceFrom]

theorem sourceGo_eq (ext : UnicodeExt) (line : Line) (s : Bytes) :
    sourceGo ext line s = .ok (parseSource ext line s) := by
  unfold sourceGo parseSource
  rcases s with _ | ⟨x, s⟩
  · rfl
  · by_cases hx : x = 58
    · subst hx
      simp only [List.isEmpty_cons, idx_cons_zero, ok_bind]
      rcases hi : indexByte (58 :: s) 32 with _ | i
      · rfl
      · have h1 := indexByte_lt _ _ _ hi
        have h2 := indexByte_cons_pos _ _ _ _ (by decide) hi
        simp only [slice_of_le _ _ _ h2 (Nat.le_of_lt h1), sliceFrom_of_le _ _ h1, parseUserHostGo_eq, restGo_eq,
          withSource, ok_bind]
        rcases parseUserHost (List.drop 1 (List.take i (58 :: s))) with _ | ⟨n, id, h⟩ <;> rfl
    · have : (x == 58) = false := by simp [hx]
      simp only [List.isEmpty_cons, idx_cons_zero, ok_bind, this, restGo_eq, Bool.false_eq_true, if_false]
      congr 1
      split
      · rename_i heq; simp at heq
      · rename_i heq; simp at heq; exact absurd heq.1 hx
      · rfl

theorem parseLineGo_eq (ext : UnicodeExt) (s : Bytes) :
    parseLineGo ext s = .ok (parseLine ext s) := by
  unfold parseLineGo parseLine
  rcases s with _ | ⟨x, s⟩
  · rfl
  · by_cases hx : x = 64
    · subst hx
      simp only [List.isEmpty_cons, idx_cons_zero, ok_bind]
      rcases hi : indexByte (64 :: s) 32 with _ | i
      · rfl
      · have h1 := indexByte_lt _ _ _ hi
        have h2 := indexByte_cons_pos _ _ _ _ (by decide) hi
        simp [slice_of_le _ _ _ h2 (Nat.le_of_lt h1), sliceFrom_of_le _ _ h1, parseTagsGo_eq, sourceGo_eq]
    · have : (x == 64) = false := by simp [hx]
      simp only [List.isEmpty_cons, idx_cons_zero, ok_bind, this, sourceGo_eq, Bool.false_eq_true, if_false]
      congr 1
      split
      · rename_i heq; simp at heq
      · rename_i heq; simp at heq; exact absurd heq.1 hx
      · rfl

end Go.LineGo

