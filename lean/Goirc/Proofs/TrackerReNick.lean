import Goirc.Proofs.Tracker
/-! `ReNick`: renaming a nick in `st.nicks`, in the nick object, and in the `lookup` map of every
channel it is on, against the relational rename of the spec. -/
namespace Spec.Tracker
open Go.Tracker AL

/-! ## Folding an update of channel objects over a duplicate-free list of channel ids -/

structure FoldC (f : ChanObj → ChanObj) (l : List Id) (s s' : St) : Prop where
  nicks : s'.nicks = s.nicks
  chans : s'.chans = s.chans
  me : s'.me = s.me
  fresh : s'.fresh = s.fresh
  getN : ∀ j, getN s' j = getN s j
  getP : ∀ j, getP s' j = getP s j
  getC : ∀ d, getC s' d = if d ∈ l then f (getC s d) else getC s d

theorem foldl_setC (f : ChanObj → ChanObj) (l : List Id) (nd : l.Nodup) (s : St) :
    FoldC f l s (l.foldl (fun st c => setC st c (f (getC st c))) s) := by
  induction l generalizing s with
  | nil => constructor <;> intros <;> simp
  | cons a l ih =>
    rw [List.nodup_cons] at nd
    have h := ih nd.2 (setC s a (f (getC s a)))
    simp only [List.foldl_cons]
    constructor
    · rw [h.nicks]; rfl
    · rw [h.chans]; rfl
    · rw [h.me]; rfl
    · rw [h.fresh]; rfl
    · intro j; rw [h.getN]; rfl
    · intro j; rw [h.getP]; rfl
    · intro d
      rw [h.getC, getC_setC]
      by_cases hd : d ∈ l
      · have : a ≠ d := by intro e; subst e; exact nd.1 hd
        simp [hd, this]
      · by_cases had : a = d
        · subst had; simp [hd]
        · have : ¬ d = a := fun e => had e.symm
          simp [hd, had, this]

/-! ## Renaming the second component of the keys of an association list -/

def renKey (old neu : Bytes) (m : (Bytes × Bytes) × ChanPrivs) : (Bytes × Bytes) × ChanPrivs :=
  if m.1.2 == old then ((m.1.1, neu), m.2) else m

theorem lookup_renKey {old neu : Bytes} (hne : old ≠ neu) (m : List ((Bytes × Bytes) × ChanPrivs))
    (hfree : ∀ e ∈ m, e.1.2 ≠ neu) (cn a : Bytes) :
    AL.lookup (m.map (renKey old neu)) (cn, a) =
      if a = neu then AL.lookup m (cn, old) else if a = old then none else AL.lookup m (cn, a) := by
  induction m with
  | nil => simp
  | cons e m ih =>
    obtain ⟨⟨c', n'⟩, v⟩ := e
    have h1 : n' ≠ neu := hfree ((c', n'), v) (by simp)
    have ih := ih (fun e he => hfree e (List.mem_cons_of_mem _ he))
    simp only [List.map_cons, renKey, beq_iff_eq]
    by_cases h2 : n' = old
    · subst h2
      simp only [if_true, lookup_cons, Prod.mk.injEq, ih]
      grind
    · simp only [h2, if_false, lookup_cons, Prod.mk.injEq, ih]
      grind

theorem nodup_renKey {old neu : Bytes} (m : List ((Bytes × Bytes) × ChanPrivs))
    (hfree : ∀ e ∈ m, e.1.2 ≠ neu) (nd : (AL.keys m).Nodup) :
    (AL.keys (m.map (renKey old neu))).Nodup := by
  unfold AL.keys
  rw [List.map_map]
  apply nodup_map_of_keys _ nd
  intro x hx y hy hxy
  obtain ⟨⟨c1, n1⟩, v1⟩ := x
  obtain ⟨⟨c2, n2⟩, v2⟩ := y
  have f1 : n1 ≠ neu := hfree _ hx
  have f2 : n2 ≠ neu := hfree _ hy
  simp only [Function.comp, renKey, beq_iff_eq] at hxy
  by_cases h1 : n1 = old <;> by_cases h2 : n2 = old <;> simp [h1, h2] at hxy <;> grind


/-! ## The state after `ReNick` succeeded -/

def renameChan (old neu : Bytes) (i : Id) (co : ChanObj) : ChanObj :=
  { co with lookup := AL.insert (AL.erase co.lookup old) neu i }

def reNicked (st : St) (old neu : Bytes) (i : Id) : St :=
  (AL.keys (getN st i).chans).foldl (fun st c => setC st c (renameChan old neu i (getC st c)))
    { setN st i { getN st i with nick := neu } with nicks := AL.insert (AL.erase st.nicks old) neu i }

theorem foldl_setC_nicks (f : ChanObj → ChanObj) (l : List Id) (s : St) :
    (l.foldl (fun st c => setC st c (f (getC st c))) s).nicks = s.nicks := by
  induction l generalizing s with
  | nil => rfl
  | cons a l ih => simp only [List.foldl_cons]; rw [ih]; rfl

theorem reNicked_nicks (st : St) (old neu : Bytes) (i : Id) :
    (reNicked st old neu i).nicks = AL.insert (AL.erase st.nicks old) neu i := by
  unfold reNicked; rw [foldl_setC_nicks]

theorem step_reNick {st : St} {old neu : Bytes} {i : Id} (h1 : AL.lookup st.nicks old = some i)
    (h2 : AL.has st.nicks neu = false) :
    Go.Tracker.step st (.reNick old neu) =
      (reNicked st old neu i, .nick (some (Go.Tracker.nickSnap (reNicked st old neu i) i))) := by
  simp [Go.Tracker.step, h1, h2, reNicked, renameChan]

theorem R_reNick {st : St} {S : S} (r : R st S) {old neu : Bytes} {i : Id}
    (hold : AL.lookup st.nicks old = some i) (hneu : AL.lookup st.nicks neu = none) :
    R (reNicked st old neu i)
      { S with nicks := AL.insert (AL.erase S.nicks old) neu (absN (getN st i)),
               mem := S.mem.map (renKey old neu),
               me := if S.me == old then neu else S.me } := by
  obtain ⟨w, ab⟩ := r
  have li := w.liveN hold
  have hnn := w.nick_name old i hold
  have hne : old ≠ neu := by intro h; subst h; rw [hold] at hneu; cases hneu
  have hon : ∀ d, LiveC st d → (d ∈ AL.keys (getN st i).chans ↔ AL.has (getC st d).nicks i = true) := by
    intro d hd
    rw [← has_iff_mem_keys, has_true_iff, has_true_iff]
    constructor
    · rintro ⟨cell, h⟩; exact ⟨cell, (w.nk_ch i li d cell h).2⟩
    · rintro ⟨cell, h⟩; exact ⟨cell, (w.ch_nk d hd i cell h).2⟩
  have hfree : ∀ e ∈ S.mem, e.1.2 ≠ neu := by
    intro e he h
    obtain ⟨⟨cn, a⟩, p⟩ := e
    simp only at h; subst h
    have := lookup_of_mem ab.mem_nodup he
    rw [ab.mem, hneu] at this
    cases hc : AL.lookup st.chans cn <;> simp [hc] at this
  generalize hs : reNicked st old neu i = s
  have fc := foldl_setC (renameChan old neu i) (AL.keys (getN st i).chans) (w.nk_nodup i li)
    { setN st i { getN st i with nick := neu } with nicks := AL.insert (AL.erase st.nicks old) neu i }
  change FoldC _ _ _ (reNicked st old neu i) at fc
  rw [hs] at fc
  have e1 : ∀ b, AL.lookup s.nicks b =
      if neu = b then some i else if old = b then none else AL.lookup st.nicks b := by
    intro b; rw [fc.nicks]; simp only [lookup_insert, lookup_erase]
  have e2 : s.chans = st.chans := by rw [fc.chans]; rfl
  have e3 : s.me = st.me := by rw [fc.me]; rfl
  have e4 : s.fresh = st.fresh := by rw [fc.fresh]; rfl
  have e5 : ∀ j, getP s j = getP st j := by intro j; rw [fc.getP]; rfl
  have e6 : ∀ j, (getN s j).nick = if i = j then neu else (getN st j).nick := by
    intro j; rw [fc.getN]; simp only [getN_mk, hgetN_proj, getN_setN]; split <;> rfl
  have e7 : ∀ j, (getN s j).chans = (getN st j).chans := by
    intro j; rw [fc.getN]; simp only [getN_mk, hgetN_proj, getN_setN]; split
    · subst_vars; rfl
    · rfl
  have e8 : ∀ j, absN (getN s j) = absN (getN st j) := by
    intro j; rw [fc.getN]; simp only [getN_mk, hgetN_proj, getN_setN]; split
    · subst_vars; rfl
    · rfl
  have e9 : ∀ d, (getC s d).name = (getC st d).name := by
    intro d; rw [fc.getC]; split <;> rfl
  have e10 : ∀ d, (getC s d).nicks = (getC st d).nicks := by
    intro d; rw [fc.getC]; split <;> rfl
  have e11 : ∀ d, absC (getC s d) = absC (getC st d) := by
    intro d; rw [fc.getC]; split <;> rfl
  have e12 : ∀ d b, AL.lookup (getC s d).lookup b =
      if d ∈ AL.keys (getN st i).chans then
        (if neu = b then some i else if old = b then none else AL.lookup (getC st d).lookup b)
      else AL.lookup (getC st d).lookup b := by
    intro d b; rw [fc.getC]; split
    · simp only [renameChan, lookup_insert, lookup_erase]; rfl
    · rfl
  clear hs fc
  have lC : ∀ j, LiveC s j ↔ LiveC st j := by intro j; simp only [LiveC, e2, e9]
  have lN : ∀ j, LiveN s j ↔ LiveN st j := by
    intro j
    simp only [LiveN, e1, e6]
    by_cases hij : i = j
    · subst hij; simp only [if_true]; exact ⟨fun _ => li, fun _ => trivial⟩
    · simp only [hij, if_false]
      by_cases h1 : neu = (getN st j).nick
      · rw [if_pos h1, ← h1, hneu]
        constructor
        · intro h; cases h; exact absurd rfl hij
        · intro h; cases h
      · rw [if_neg h1]
        by_cases h2 : old = (getN st j).nick
        · rw [if_pos h2, ← h2, hold]
          constructor
          · intro h; cases h
          · intro h; cases h; exact absurd rfl hij
        · rw [if_neg h2]
  constructor
  · constructor
    · -- nick_name
      intro a j h
      rw [e1] at h; rw [e6]
      split at h
      · cases h; subst_vars; simp
      · split at h
        · cases h
        · rename_i h1 h2
          have : i ≠ j := by intro hij; subst hij; exact h2 (w.nick_inj hold h)
          rw [if_neg this]; exact w.nick_name a j h
    · simp only [e2, e9]; exact w.chan_name
    · simp only [lN, e3]; exact w.me_live
    · simp only [lN, e7]; exact w.nk_nodup
    · simp only [lC, e10]; exact w.ch_nodup
    · simp only [lN, lC, e7, e10]; exact w.nk_ch
    · simp only [lN, lC, e7, e10]; exact w.ch_nk
    · -- ch_lookup
      intro c hc a j
      rw [lC] at hc
      have hw := w.ch_lookup c hc
      have live_of_on : ∀ j, AL.has (getC st c).nicks j = true → LiveN st j := by
        intro j hj
        obtain ⟨cell, hcell⟩ := (has_true_iff _ _).1 hj
        exact (w.ch_nk c hc j cell hcell).1
      rw [e12, e10, e6]
      by_cases honc : c ∈ AL.keys (getN st i).chans
      · have hi := (hon c hc).1 honc
        rw [if_pos honc]
        by_cases h1 : neu = a
        · subst h1
          rw [if_pos rfl]
          constructor
          · intro h; cases h; simp [hi]
          · rintro ⟨h3, h4⟩
            by_cases hij : i = j
            · rw [hij]
            · rw [if_neg hij] at h4
              have := live_of_on j h3
              unfold LiveN at this; rw [h4, hneu] at this; cases this
        · rw [if_neg h1]
          by_cases h2 : old = a
          · subst h2
            rw [if_pos rfl]
            constructor
            · intro h; cases h
            · rintro ⟨h3, h4⟩
              by_cases hij : i = j
              · rw [if_pos hij] at h4; exact absurd h4.symm hne
              · rw [if_neg hij] at h4
                have := live_of_on j h3
                unfold LiveN at this; rw [h4, hold] at this; cases this; exact absurd rfl hij
          · rw [if_neg h2, hw]
            by_cases hij : i = j
            · subst hij
              rw [if_pos rfl, hnn]
              constructor
              · rintro ⟨_, h4⟩; exact absurd h4 h2
              · rintro ⟨_, h4⟩; exact absurd h4 h1
            · rw [if_neg hij]
      · have hi : ¬ AL.has (getC st c).nicks i = true := fun h => honc ((hon c hc).2 h)
        rw [if_neg honc, hw]
        by_cases hij : i = j
        · subst hij
          constructor
          · rintro ⟨h3, _⟩; exact absurd h3 hi
          · rintro ⟨h3, _⟩; exact absurd h3 hi
        · rw [if_neg hij]
    · simp only [lN, e7]; exact w.cell_inj
    · -- fresh_nick
      intro a j h
      rw [e1] at h; rw [e4]
      split at h
      · cases h; exact w.fresh_nick old i hold
      · split at h
        · cases h
        · exact w.fresh_nick a j h
    · rw [e2, e4]; exact w.fresh_chan
    · simp only [lN, e7, e4]; exact w.fresh_cell
  · constructor
    · -- nicks
      intro a
      simp only [lookup_insert, lookup_erase, e1]
      split
      · simp only [Option.map_some, e8]
      · split
        · rfl
        · rw [ab.nicks]
          cases h : AL.lookup st.nicks a with
          | none => rfl
          | some j => simp only [Option.map_some, e8]
    · simp only [e2, e11]; exact ab.chans
    · -- mem
      intro cn a
      simp only [e2, e7]
      rw [lookup_renKey hne S.mem hfree, e1]
      by_cases h1 : a = neu
      · subst h1
        rw [if_pos rfl, if_pos rfl, ab.mem, hold]
        simp only [Option.bind_some]
        congr 1; funext c; congr 1; funext x; exact (e5 x).symm
      · have h1' : ¬ neu = a := fun h => h1 h.symm
        rw [if_neg h1, if_neg h1']
        by_cases h2 : a = old
        · subst h2
          rw [if_pos rfl, if_pos rfl]
          cases AL.lookup st.chans cn <;> rfl
        · have h2' : ¬ old = a := fun h => h2 h.symm
          rw [if_neg h2, if_neg h2', ab.mem]
          congr 1; funext c; congr 1; funext j; congr 1; funext x; exact (e5 x).symm
    · exact nodup_renKey S.mem hfree ab.mem_nodup
    · -- me
      have hme := ab.me
      simp only [e3, beq_iff_eq]
      by_cases h : S.me = old
      · rw [if_pos h, e1, if_pos rfl]
        rw [h, hold] at hme; exact hme
      · rw [if_neg h, e1]
        have h1 : ¬ neu = S.me := by intro h1; rw [← h1, hneu] at hme; cases hme
        have h2 : ¬ old = S.me := fun h2 => h h2.symm
        rw [if_neg h1, if_neg h2]; exact hme
    · rw [e2]; exact ab.chan_keys

theorem sim_reNick {st : St} {S : S} (r : R st S) (old neu : Bytes) : Sim st S (.reNick old neu) := by
  unfold Sim
  have hS := r.2.nicks old
  cases h : AL.lookup st.nicks old with
  | none =>
    rw [h] at hS
    simp only [Go.Tracker.step, Spec.Tracker.step, h, hS, Option.map_none]
    exact ⟨r, trivial⟩
  | some i =>
    rw [h] at hS
    simp only [Option.map_some] at hS
    cases hh : AL.has st.nicks neu with
    | true =>
      simp only [Go.Tracker.step, Spec.Tracker.step, h, hS, r.2.has_nicks, hh, if_true]
      exact ⟨r, trivial⟩
    | false =>
      rw [step_reNick h hh]
      simp only [Spec.Tracker.step, hS, r.2.has_nicks, hh, Bool.false_eq_true, if_false]
      have r' := R_reNick r h ((has_false_iff _ _).1 hh)
      refine ⟨r', nickSnap_sim r' ?_⟩
      rw [reNicked_nicks]
      exact (lookup_insert _ _ _ _).trans (if_pos rfl)

end Spec.Tracker
