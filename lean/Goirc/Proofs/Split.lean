import Goirc.Model.Split
import Goirc.Spec.Split
/-! Helper lemmas for C11. -/
namespace Go
open Spec.Split (rejoin markersOk effLen)

theorem splitLoop_ne_nil (msg : Bytes) (n : Nat) (h : 13 ≤ n) : splitLoop msg n h ≠ [] := by
  unfold splitLoop; split <;> simp

theorem splitLoop_lossless (msg : Bytes) (n : Nat) (h : 13 ≤ n) : rejoin (splitLoop msg n h) = msg := by
  fun_induction splitLoop msg n h with
  | case1 msg hl ih =>
    have hne := splitLoop_ne_nil (msg.drop (cutIdx msg n)) n h
    match hs : splitLoop (msg.drop (cutIdx msg n)) n h with
    | [] => exact absurd hs hne
    | q :: qs =>
      rw [hs] at ih
      simp only [rejoin]
      rw [ih]
      simp [Go.dots]
  | case2 msg hl => simp [rejoin]

theorem splitLoop_bounded (msg : Bytes) (n : Nat) (h : 13 ≤ n) : ∀ p ∈ splitLoop msg n h, p.length ≤ n := by
  fun_induction splitLoop msg n h with
  | case1 msg hl ih =>
    intro p hp
    simp only [List.mem_cons] at hp
    rcases hp with rfl | hp
    · have := cutIdx_bound msg n h hl
      simp [Go.dots]; omega
    · exact ih p hp
  | case2 msg hl => intro p hp; simp at hp; subst hp; omega

theorem hasSuffix_append_self (a b : Bytes) : hasSuffix (a ++ b) b = true := by
  unfold hasSuffix
  rw [List.reverse_append]
  generalize b.reverse = r
  generalize a.reverse = q
  induction r with
  | nil => cases q <;> simp [hasPrefix]
  | cons x r ih => simp [hasPrefix, ih]

theorem splitLoop_markers (msg : Bytes) (n : Nat) (h : 13 ≤ n) : markersOk (splitLoop msg n h) = true := by
  fun_induction splitLoop msg n h with
  | case1 msg hl ih =>
    have hne := splitLoop_ne_nil (msg.drop (cutIdx msg n)) n h
    match hs : splitLoop (msg.drop (cutIdx msg n)) n h with
    | [] => exact absurd hs hne
    | q :: qs =>
      rw [hs] at ih
      simp only [markersOk, Bool.and_eq_true]
      exact ⟨hasSuffix_append_self _ _, ih⟩
  | case2 msg hl => simp [markersOk]

/-- every piece is non-empty as soon as the text is (so: whenever a split happens at all) -/
theorem splitLoop_nonempty (msg : Bytes) (n : Nat) (h : 13 ≤ n) (hm : msg ≠ []) :
    ∀ p ∈ splitLoop msg n h, p ≠ [] := by
  fun_induction splitLoop msg n h with
  | case1 msg hl ih =>
    intro p hp
    simp only [List.mem_cons] at hp
    rcases hp with rfl | hp
    · simp [Go.dots]
    · have hb := cutIdx_bound msg n h hl
      refine ih ?_ p hp
      intro hd
      have : (msg.drop (cutIdx msg n)).length = 0 := by rw [hd]; rfl
      simp [List.length_drop] at this
      omega
  | case2 msg hl => intro p hp; simp at hp; subst hp; exact hm

theorem splitLoop_short (msg : Bytes) (n : Nat) (h : 13 ≤ n) (hs : msg.length ≤ n) :
    splitLoop msg n h = [msg] := by
  unfold splitLoop; simp; omega

theorem splitLoop_long (msg : Bytes) (n : Nat) (h : 13 ≤ n) (hs : n < msg.length) :
    2 ≤ (splitLoop msg n h).length := by
  rw [splitLoop]; simp [hs]
  have := splitLoop_ne_nil (msg.drop (cutIdx msg n)) n h
  cases hq : splitLoop (msg.drop (cutIdx msg n)) n h with
  | nil => exact absurd hq this
  | cons => simp

end Go
