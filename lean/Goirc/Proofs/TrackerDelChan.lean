import Goirc.Proofs.TrackerDel
/-! `delChannel`: removing the members of a channel one at a time (`dissoc1`, `dissocAll`), then forgetting it. -/
namespace Spec.Tracker
open Go.Tracker AL

/-- remove one membership; forget the nick if that was its last channel (never the client) -/
def dissoc1 (st : St) (c n : Id) : St :=
  if (getN (unlink st c n) n).chans.isEmpty && n != (unlink st c n).me then delNickObj (unlink st c n) n
  else unlink st c n

theorem delNickObj_of_empty {st : St} {n : Id} (h : (getN st n).chans.isEmpty = true) (hme : n ≠ st.me) :
    delNickObj st n = { st with nicks := AL.erase st.nicks (getN st n).nick } := by
  rw [delNickObj_eq st n hme]
  have : (getN st n).chans = [] := by simpa using h
  rw [this]; rfl

theorem dissoc1_eq (st : St) (c n : Id) :
    dissoc1 st c n =
      if (getN (unlink st c n) n).chans.isEmpty && n != st.me then
        { unlink st c n with nicks := AL.erase st.nicks (getN st n).nick }
      else unlink st c n := by
  unfold dissoc1
  simp only [unlink_me]
  split
  · rename_i h
    simp only [Bool.and_eq_true, bne_iff_ne, ne_eq] at h
    rw [delNickObj_of_empty h.1 (by simpa using h.2)]
    simp
  · rfl

theorem memberships_isEmpty {st : St} {S : S} (r : R st S) {a : Bytes} {n : Id}
    (hn : AL.lookup st.nicks a = some n) :
    (memberships S a).isEmpty = (getN st n).chans.isEmpty := by
  obtain ⟨w, ab⟩ := r
  have ln := w.liveN hn
  rw [Bool.eq_iff_iff]
  simp only [memberships, List.isEmpty_iff, List.filter_eq_nil_iff, beq_iff_eq]
  constructor
  · intro h
    cases hch : (getN st n).chans with
    | nil => rfl
    | cons e rest =>
      exfalso
      obtain ⟨c, cell⟩ := e
      have hlk : AL.lookup (getN st n).chans c = some cell := by rw [hch, lookup_cons]; simp
      have lc := (w.nk_ch n ln c cell hlk).1
      have : AL.lookup S.mem ((getC st c).name, a) = some (getP st cell) := by
        rw [ab.mem_iff]; exact ⟨c, n, cell, lc, hn, hlk, rfl⟩
      exact h _ (mem_of_lookup this) rfl
  · intro h m hm ha
    obtain ⟨⟨cn, a'⟩, p⟩ := m
    simp only at ha; subst ha
    have := lookup_of_mem ab.mem_nodup hm
    rw [ab.mem_iff] at this
    obtain ⟨c, i, cell, h1, h2, h3, _⟩ := this
    rw [hn] at h2; cases h2
    rw [h] at h3; cases h3

theorem R_dissoc1 {st : St} {S : S} (r : R st S) {cn a : Bytes} {c n : Id} (hc : AL.lookup st.chans cn = some c)
    (hn : AL.lookup st.nicks a = some n) : R (dissoc1 st c n) (sdissoc1 S cn a) := by
  have r1 := R_unlink r hc hn
  have hn1 : AL.lookup (unlink st c n).nicks a = some n := by simpa using hn
  have e1 := memberships_isEmpty r1 hn1
  unfold dissoc1 sdissoc1
  simp only [e1]
  have e2 : (n != (unlink st c n).me) = (a != S.me) := by
    rw [Bool.eq_iff_iff]
    simp only [bne_iff_ne, ne_eq, unlink_me]
    exact not_congr (Abs.me_iff r.1 r.2 hn)
  simp only [e2]
  split
  · rename_i h
    simp only [Bool.and_eq_true, bne_iff_ne, ne_eq] at h
    refine R_delNickObj r1 hn1 ?_
    intro hme
    apply h.2
    exact (Abs.me_iff r.1 r.2 hn).1 (by simpa using hme)
  · exact r1

section
variable (st : St) (c n : Id)
@[simp] theorem dissoc1_chans : (dissoc1 st c n).chans = st.chans := by
  rw [dissoc1_eq]; split <;> simp
@[simp] theorem dissoc1_me : (dissoc1 st c n).me = st.me := by
  rw [dissoc1_eq]; split <;> simp
@[simp] theorem dissoc1_nick (j : Id) : (getN (dissoc1 st c n) j).nick = (getN st j).nick := by
  rw [dissoc1_eq]; split <;> simp
@[simp] theorem dissoc1_name (j : Id) : (getC (dissoc1 st c n) j).name = (getC st j).name := by
  rw [dissoc1_eq]; split <;> simp
theorem dissoc1_absC (j : Id) : absC (getC (dissoc1 st c n) j) = absC (getC st j) := by
  rw [dissoc1_eq]; split <;> simp [unlink_absC]
theorem dissoc1_cnicks_self : (getC (dissoc1 st c n) c).nicks = AL.erase (getC st c).nicks n := by
  rw [dissoc1_eq]; split <;> simp [unlink_cnicks_self]
theorem dissoc1_liveN {j : Id} (hn : LiveN st n) (hj : LiveN st j) (hne : j ≠ n) : LiveN (dissoc1 st c n) j := by
  unfold LiveN
  rw [dissoc1_nick, dissoc1_eq]
  split
  · simp only [lookup_erase]
    rw [if_neg]
    · exact hj
    · intro h; exact hne (hj.eq_of_nick hn h.symm)
  · simp only [unlink_nicks]; exact hj
theorem dissoc1_set_chans (x : List (Bytes × Id)) :
    dissoc1 { st with chans := x } c n = { dissoc1 st c n with chans := x } := by
  have hc : ((getN (unlink { st with chans := x } c n) n).chans.isEmpty && n != ({ st with chans := x } : St).me)
      = ((getN (unlink st c n) n).chans.isEmpty && n != st.me) := by rw [unlink_set_chans]; rfl
  rw [dissoc1_eq, dissoc1_eq]
  by_cases h : ((getN (unlink st c n) n).chans.isEmpty && n != st.me) = true
  · rw [if_pos h, if_pos (by rw [hc]; exact h), unlink_set_chans]; rfl
  · rw [if_neg h, if_neg (by rw [hc]; exact h), unlink_set_chans]
end

/-- remove all nicks in `l` from channel `c` -/
def dissocAll (st : St) (c : Id) (l : List Id) : St := l.foldl (fun s n => dissoc1 s c n) st

@[simp] theorem dissocAll_nil (st : St) (c : Id) : dissocAll st c [] = st := rfl
@[simp] theorem dissocAll_cons (st : St) (c n : Id) (l : List Id) :
    dissocAll st c (n :: l) = dissocAll (dissoc1 st c n) c l := rfl

theorem dissocAll_set_chans (l : List Id) : ∀ (st : St) (c : Id) (x : List (Bytes × Id)),
    dissocAll { st with chans := x } c l = { dissocAll st c l with chans := x } := by
  induction l with
  | nil => intros; rfl
  | cons n l ih =>
    intro st c x
    show dissocAll (dissoc1 { st with chans := x } c n) c l = _
    rw [dissoc1_set_chans, ih]; rfl

section
variable (c : Id)
@[simp] theorem dissocAll_chans (l : List Id) : ∀ st : St, (dissocAll st c l).chans = st.chans := by
  induction l with
  | nil => intro; rfl
  | cons n l ih => intro st; simp [ih]
@[simp] theorem dissocAll_name (l : List Id) : ∀ (st : St) (j : Id), (getC (dissocAll st c l) j).name = (getC st j).name := by
  induction l with
  | nil => intros; rfl
  | cons n l ih => intro st j; simp [ih]
theorem dissocAll_absC (l : List Id) : ∀ (st : St) (j : Id), absC (getC (dissocAll st c l) j) = absC (getC st j) := by
  induction l with
  | nil => intros; rfl
  | cons n l ih => intro st j; simp [ih, dissoc1_absC]
theorem dissocAll_cnicks_self (l : List Id) : ∀ (st : St),
    (getC (dissocAll st c l) c).nicks = l.foldl (fun m n => AL.erase m n) (getC st c).nicks := by
  induction l with
  | nil => intros; rfl
  | cons n l ih => intro st; simp [ih, dissoc1_cnicks_self]
end

theorem delChanObj_eq (st : St) (c : Id) :
    delChanObj st c = { dissocAll st c (AL.keys (getC st c).nicks) with
                          chans := AL.erase st.chans (getC st c).name } := by
  unfold delChanObj
  exact dissocAll_set_chans _ _ _ _

theorem R_dissocAll {cn : Bytes} {c : Id} (l : List Id) : ∀ (st : St) (S : S), R st S →
    AL.lookup st.chans cn = some c → l.Nodup → (∀ n ∈ l, LiveN st n) →
    R (dissocAll st c l) ((l.map fun n => (getN st n).nick).foldl (fun T a => sdissoc1 T cn a) S) := by
  induction l with
  | nil => intro st S r _ _ _; exact r
  | cons n l ih =>
    intro st S r hc nd hl
    have hn : LiveN st n := hl n (by simp)
    have r1 := R_dissoc1 r hc hn
    rw [List.nodup_cons] at nd
    have := ih (dissoc1 st c n) _ r1 (by simpa using hc) nd.2 (by
      intro j hj
      exact dissoc1_liveN st c n hn (hl j (by simp [hj])) (by intro h; subst h; exact nd.1 hj))
    simpa using this

theorem R_delChanObj {st : St} {S : S} (r : R st S) {cn : Bytes} {c : Id} (hc : AL.lookup st.chans cn = some c) :
    R (delChanObj st c) (dropChan S cn) := by
  have w := r.1
  have ab := r.2
  have lc := w.liveC hc
  have hcn := w.chan_name cn c hc
  have hl : ∀ n ∈ AL.keys (getC st c).nicks, LiveN st n := by
    intro n hn
    obtain ⟨cell, hcell⟩ := (has_true_iff _ _).1 ((has_iff_mem_keys _ _).2 hn)
    exact (w.ch_nk c lc n cell hcell).1
  have r1 := R_dissocAll (cn := cn) (c := c) _ st S r hc (w.ch_nodup c lc) hl
  have hemp : ∀ i, AL.lookup (getC (dissocAll st c (AL.keys (getC st c).nicks)) c).nicks i = none := by
    intro i
    rw [dissocAll_cnicks_self, foldl_erase_keys_nil _ _ (fun k hk => hk)]
    rfl
  have r2 := R_removeChan r1 (a := cn) (c := c) (by simpa using hc) hemp
  rw [delChanObj_eq st c, hcn]
  rw [dropChan_eq_fold S cn ((AL.keys (getC st c).nicks).map fun n => (getN st n).nick)]
  · simpa using r2
  · intro b
    constructor
    · intro hb
      obtain ⟨i, hi, hib⟩ := List.mem_map.1 hb
      obtain ⟨cell, hcell⟩ := (has_true_iff _ _).1 ((has_iff_mem_keys _ _).2 hi)
      have := w.ch_nk c lc i cell hcell
      refine ⟨getP st cell, mem_of_lookup ?_⟩
      rw [ab.mem_iff]
      refine ⟨c, i, cell, hc, ?_, this.2, rfl⟩
      rw [← hib]; exact this.1
    · rintro ⟨p, hm⟩
      have := lookup_of_mem ab.mem_nodup hm
      rw [ab.mem_iff] at this
      obtain ⟨c', i, cell, h1, h2, h3, _⟩ := this
      rw [hc] at h1; cases h1
      have := (w.nk_ch i (w.liveN h2) c cell h3).2
      exact List.mem_map.2 ⟨i, (has_iff_mem_keys _ _).1 ((has_true_iff _ _).2 ⟨cell, this⟩), w.nick_name _ _ h2⟩

end Spec.Tracker
