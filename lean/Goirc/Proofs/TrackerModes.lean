import Goirc.Proofs.Tracker
/-!
# `ChannelModes`: the heap model's `chanParseModes` simulates the spec's `parseModes`
-/
namespace Spec.Tracker
open Go.Tracker AL

/-- the spec's view of the channel record is the abstraction of the live channel object -/
theorem Abs.chan_getD {st : St} {S : S} (ab : Abs st S) {c : Bytes} {ci : Id}
    (h : AL.lookup st.chans c = some ci) : (AL.lookup S.chans c).getD {} = absC (getC st ci) := by
  rw [ab.chans, h]; rfl

/-- setting the mode record of a live channel -/
theorem R_chanModes {st : St} {S : S} (r : R st S) {c : Bytes} {ci : Id}
    (h : AL.lookup st.chans c = some ci) (m : ChanMode) :
    R (setC st ci { getC st ci with modes := m })
      { S with chans := AL.insert S.chans c { (AL.lookup S.chans c).getD {} with modes := m } } := by
  rw [r.2.chan_getD h]
  exact R_chanAttr r h { getC st ci with modes := m } rfl rfl rfl

/-- under the invariant, the channel's name→nick map and the membership relation agree (hit) -/
theorem lookup_some_mem {st : St} {S : S} (r : R st S) {c a : Bytes} {ci n : Id}
    (h : AL.lookup st.chans c = some ci) (hn : AL.lookup (getC st ci).lookup a = some n) :
    ∃ cell, AL.lookup (getC st ci).nicks n = some cell ∧ AL.lookup st.nicks a = some n ∧
      AL.lookup (getN st n).chans ci = some cell ∧ AL.lookup S.mem (c, a) = some (getP st cell) := by
  obtain ⟨w, ab⟩ := r
  have lc := w.liveC h
  obtain ⟨h1, h2⟩ := (w.ch_lookup ci lc a n).1 hn
  obtain ⟨cell, hcell⟩ := (has_true_iff _ _).1 h1
  obtain ⟨ln, hnk⟩ := w.ch_nk ci lc n cell hcell
  have hna : AL.lookup st.nicks a = some n := by
    unfold LiveN at ln; rw [h2] at ln; exact ln
  refine ⟨cell, hcell, hna, hnk, ?_⟩
  rw [ab.mem_iff]
  exact ⟨ci, n, cell, h, hna, hnk, rfl⟩

/-- under the invariant, the channel's name→nick map and the membership relation agree (miss) -/
theorem lookup_none_mem {st : St} {S : S} (r : R st S) {c a : Bytes} {ci : Id}
    (h : AL.lookup st.chans c = some ci) (hn : AL.lookup (getC st ci).lookup a = none) :
    AL.lookup S.mem (c, a) = none := by
  obtain ⟨w, ab⟩ := r
  have lc := w.liveC h
  cases hm : AL.lookup S.mem (c, a) with
  | none => rfl
  | some p =>
    exfalso
    obtain ⟨c', i, cell, h1, h2, h3, _⟩ := (ab.mem_iff c a p).1 hm
    rw [h] at h1; cases h1
    have h4 := (w.nk_ch i (w.liveN h2) ci cell h3).2
    have h5 : AL.lookup (getC st ci).lookup a = some i :=
      (w.ch_lookup ci lc a i).2 ⟨(has_true_iff _ _).2 ⟨cell, h4⟩, w.nick_name a i h2⟩
    rw [hn] at h5; cases h5

theorem parseModes_sim {c : Bytes} {ci : Id} : ∀ (modes : Bytes) (st : St) (S : S) (op : Bool) (args : List Bytes),
    R st S → AL.lookup st.chans c = some ci →
    R (chanParseModes st ci op modes args) (parseModes S c op modes args) ∧
    (chanParseModes st ci op modes args).chans = st.chans := by
  intro modes
  induction modes with
  | nil =>
    intro st S op args r _
    simp only [chanParseModes, parseModes]
    exact ⟨r, trivial⟩
  | cons x rest ih =>
    intro st S op args r h
    -- the two ways a step continues: on a channel with a new mode record, or unchanged
    have stepC : ∀ (m : ChanMode) (op' : Bool) (args' : List Bytes),
        R (chanParseModes (setC st ci { getC st ci with modes := m }) ci op' rest args')
          (parseModes { S with chans := AL.insert S.chans c { (AL.lookup S.chans c).getD {} with modes := m } } c op' rest args') ∧
        (chanParseModes (setC st ci { getC st ci with modes := m }) ci op' rest args').chans = st.chans := by
      intro m op' args'
      exact ih _ _ op' args' (R_chanModes r h m) h
    have hmodes : ((AL.lookup S.chans c).getD {}).modes = (getC st ci).modes := by
      rw [r.2.chan_getD h]; rfl
    simp only [chanParseModes, parseModes]
    by_cases h43 : x == 43
    · simp only [h43, if_true]; exact ih st S true args r h
    simp only [h43, Bool.false_eq_true, if_false]
    by_cases h45 : x == 45
    · simp only [h45, if_true]; exact ih st S false args r h
    simp only [h45, Bool.false_eq_true, if_false]
    rw [hmodes]
    cases hf : applyChanFlag (getC st ci).modes op x with
    | some m => simp only []; exact stepC m op args
    | none =>
      simp only []
      by_cases h107 : x == 107
      · simp only [h107, if_true]
        cases op with
        | false =>
          simp only [Bool.false_and, Bool.false_eq_true, if_false, Bool.not_false, if_true]
          rw [← hmodes]; exact stepC _ false args
        | true =>
          cases args with
          | nil =>
            simp only [List.isEmpty_nil, Bool.not_true, Bool.and_false, Bool.false_eq_true, if_false]
            exact ih st S true [] r h
          | cons a more =>
            simp only [List.isEmpty_cons, Bool.not_false, Bool.and_self, if_true, List.tail_cons]
            rw [← hmodes]; exact stepC _ true more
      simp only [h107, Bool.false_eq_true, if_false]
      by_cases h108 : x == 108
      · simp only [h108, if_true]
        cases op with
        | false =>
          simp only [Bool.false_and, Bool.false_eq_true, if_false, Bool.not_false, if_true]
          rw [← hmodes]; exact stepC _ false args
        | true =>
          cases args with
          | nil =>
            simp only [List.isEmpty_nil, Bool.not_true, Bool.and_false, Bool.false_eq_true, if_false]
            exact ih st S true [] r h
          | cons a more =>
            simp only [List.isEmpty_cons, Bool.not_false, Bool.and_self, if_true, List.tail_cons]
            rw [← hmodes]; exact stepC _ true more
      simp only [h108, Bool.false_eq_true, if_false]
      by_cases hp : isPrivChar x = true
      · simp only [hp, if_true]
        cases args with
        | nil => simp only []; exact ih st S op [] r h
        | cons a more =>
          simp only []
          cases hl : AL.lookup (getC st ci).lookup a with
          | none =>
            simp only [lookup_none_mem r h hl]
            exact ih st S op (a :: more) r h
          | some n =>
            obtain ⟨cell, h1, h2, h3, h4⟩ := lookup_some_mem r h hl
            simp only [h1, h4]
            exact ih _ _ op more (R_setP r h h2 h3 _) h
      · simp only [hp, Bool.false_eq_true, if_false]
        -- list modes b, e, I: untracked, but they consume one argument
        by_cases hl : (x == 98 || x == 101 || x == 73) = true
        · simp only [hl, if_true]; exact ih st S op args.tail r h
        · simp only [hl, Bool.false_eq_true, if_false]; exact ih st S op args r h

theorem sim_channelModes {st : St} {S : S} (r : R st S) (c modes : Bytes) (args : List Bytes) :
    Sim st S (.channelModes c modes args) := by
  unfold Sim
  simp only [Go.Tracker.step, Spec.Tracker.step, r.2.has_chans, has_eq]
  cases h : AL.lookup st.chans c with
  | none => exact ⟨r, trivial⟩
  | some ci =>
    obtain ⟨r', hch⟩ := parseModes_sim (c := c) (ci := ci) modes st S false args r h
    simp only [Option.isSome_some, if_true]
    refine ⟨r', chanSnap_sim r' ?_⟩
    rw [hch]; exact h

end Spec.Tracker
