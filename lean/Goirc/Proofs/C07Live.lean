import Goirc.Model.Life
import Goirc.Proofs.C07
import Goirc.Proofs.C07Cancel
/-!
# C07: inevitability - after a cancellation the teardown begins on EVERY maximal run of the connection's own steps,
and a teardown that has begun is finished on every maximal run of teardown steps

`Proofs.C07Cancel.cancel_progress` says a closer step is enabled; this file adds that the connection's own steps cannot
go on for ever, so every maximal run of them gets to the test-and-clear (no fairness assumption needed, environment and
new API calls quiet).
-/
namespace Proofs.C07Live
open Go.Life Proofs.C07 Proofs.C07Cancel

/-- one step the connection takes on its own while it is up and its context is cancelled -/
def OwnStep (s' s : St) : Prop :=
  Reach s ∧ s.connected = true ∧ s.g.cancelled = true ∧ ∃ l, isOwn l = true ∧ step s l = some s'

/-! ## the measure -/

def vSend : SendPc → Nat | .gone => 0 | .idle => 1 | .writing => 2
def vLoop : LoopPc → Nat | .gone => 0 | .select => 1 | .hRun f => 4 * f + 2 | .hSend f => 4 * f + 5
def vPing : PingPc → Nat | .gone => 0 | .absent => 0 | .idle f => 4 * f + 1 | .sending f => 4 * f + 4

/-- remaining work of the goroutines once the number of unconsumed lines is fixed (the socket may still be open) -/
def gB (g : G) : Nat := 2 * g.avail + wRecv g.recv + vSend g.send + vLoop g.loop + vPing g.ping + 2 * g.outQ

def wW : Bool → Nat | true => 3 | false => 0

/-- remaining steps of a thread that is inside Connect / closeFor, while the connection stays up -/
def wT : TPc → Nat
  | .idle => 0
  | .cWant => 2
  | .cLocked => 1
  | .cRegister _ => 2
  | .cRet _ => 1
  | .xWant _ => 2
  | .xLocked _ => 1
  | .xDrain _ => 0
  | .xFire _ => 1

/-- sum of the thread weights below a bound -/
def tw (f : Nat → TPc) : Nat → Nat
  | 0 => 0
  | n + 1 => tw f n + wT (f n)

theorem tw_idle {f : Nat → TPc} {N : Nat} (h : ∀ t, N ≤ t → f t = .idle) : ∀ M, N ≤ M → tw f M = tw f N := by
  intro M hM
  induction M with
  | zero => have : N = 0 := by omega
            subst this; rfl
  | succ M ih =>
    by_cases e : N = M + 1
    · subst e; rfl
    · have h1 : N ≤ M := by omega
      simp only [tw]
      rw [ih h1, h M h1]
      simp [wT]

theorem tw_ext {f g : Nat → TPc} : ∀ N, (∀ t, t < N → f t = g t) → tw f N = tw g N := by
  intro N
  induction N with
  | zero => intro _; rfl
  | succ N ih =>
    intro h
    simp only [tw]
    rw [ih (fun t ht => h t (by omega)), h N (by omega)]

theorem tw_set {f : Nat → TPc} {t : Nat} {p : TPc} : ∀ N, t < N →
    tw (fun u => if u = t then p else f u) N + wT (f t) = tw f N + wT p := by
  intro N
  induction N with
  | zero => intro h; omega
  | succ N ih =>
    intro h
    simp only [tw]
    by_cases e : t = N
    · subst e
      have : tw (fun u => if u = t then p else f u) t = tw f t :=
        tw_ext t (fun u hu => by have : u ≠ t := by omega
                                 simp [this])
      rw [this]
      simp
      omega
    · have h1 : t < N := by omega
      have := ih h1
      have e' : ¬ N = t := fun x => e x.symm
      simp only [e', if_false]
      omega

def mB2 (s : St) (N : Nat) : Nat := 3 * gB s.g + wW s.g.watch + tw s.thr N

theorem own_key {s s' : St} {l : Label} (inv : Inv s) (hc : s.connected = true) (hx : s.g.cancelled = true)
    (ho : isOwn l = true) (hs : step s l = some s') :
    (s'.connected = false ∧ Draining s') ∨
    (s'.connected = true ∧ s'.g.cancelled = true ∧
      ((s'.thr = s.thr ∧
          (mA s'.g < mA s.g ∨ (mA s'.g = mA s.g ∧ 3 * gB s'.g + wW s'.g.watch < 3 * gB s.g + wW s.g.watch))) ∨
       (∃ t p, s'.thr = setThr s t p ∧
          (mA s'.g < mA s.g ∨
            (mA s'.g = mA s.g ∧ 3 * gB s'.g + wW s'.g.watch + wT p < 3 * gB s.g + wW s.g.watch + wT (s.thr t)))))) := by
  have hnd : ∀ t g, s.thr t ≠ .xDrain g := fun t g h => by
    have := (inv.drain t g h).2.1
    simp [hc] at this
  cases l <;> simp only [isOwn] at ho <;> simp only [step] at hs <;> (try split at hs) <;> (try split at hs) <;>
    simp at hs <;> (try subst hs) <;>
    first
    | (exact absurd ‹_› (hnd _ _))
    | (simp_all; done)
    | (refine Or.inr ⟨hc, hx, Or.inl ⟨rfl, ?_⟩⟩
       simp [mA, gB, wW, wRecv, vSend, vLoop, vPing, *] <;> omega)
    | (refine Or.inr ⟨hc, hx, Or.inr ⟨_, _, rfl, ?_⟩⟩
       simp [mA, gB, wW, wT, wRecv, vSend, vLoop, vPing, *] <;> omega)
    | (exact Or.inl ⟨rfl, _, _, if_pos rfl⟩)

theorem not_connected_acc {s : St} (h : s.connected = false) : Acc OwnStep s := by
  constructor
  intro s' h'
  have := h'.2.1
  simp [h] at this

theorem own_acc : ∀ (p : Nat × Nat) (s : St) (N : Nat), (∀ t, N ≤ t → s.thr t = .idle) → (mA s.g, mB2 s N) = p →
    Acc OwnStep s := by
  intro p
  induction p using (Prod.lex Nat.lt_wfRel Nat.lt_wfRel).wf.induction with
  | _ p ih =>
    intro s N hN hp
    subst hp
    constructor
    intro s' h
    obtain ⟨hr, hc, hx, l, ho, hs⟩ := h
    rcases own_key (reach_inv hr) hc hx ho hs with ⟨hc', -⟩ | ⟨-, -, ⟨hthr, hm⟩ | ⟨t, q, hthr, hm⟩⟩
    · exact not_connected_acc hc'
    · refine ih (mA s'.g, mB2 s' N) ?_ s' N (by rw [hthr]; exact hN) rfl
      rcases hm with hm | ⟨h1, h2⟩
      · exact Prod.Lex.left _ _ hm
      · rw [h1]
        refine Prod.Lex.right _ ?_
        show mB2 s' N < mB2 s N
        unfold mB2
        rw [hthr]
        omega
    · have hN' : ∀ u, max N (t + 1) ≤ u → s'.thr u = .idle := by
        intro u hu
        have h1 : N ≤ u := Nat.le_trans (Nat.le_max_left _ _) hu
        have h2 : t + 1 ≤ u := Nat.le_trans (Nat.le_max_right _ _) hu
        have h3 : u ≠ t := by omega
        rw [hthr]
        simp [setThr, h3, hN u h1]
      refine ih (mA s'.g, mB2 s' (max N (t + 1))) ?_ s' _ hN' rfl
      rcases hm with hm | ⟨h1, h2⟩
      · exact Prod.Lex.left _ _ hm
      · rw [h1]
        refine Prod.Lex.right _ ?_
        show mB2 s' (max N (t + 1)) < mB2 s N
        unfold mB2
        rw [hthr]
        have e1 : tw s.thr (max N (t + 1)) = tw s.thr N := tw_idle hN _ (Nat.le_max_left _ _)
        have e2 : tw (setThr s t q) (max N (t + 1)) + wT (s.thr t) = tw s.thr (max N (t + 1)) + wT q :=
          tw_set (f := s.thr) (t := t) (p := q) (max N (t + 1))
            (Nat.lt_of_lt_of_le (Nat.lt_succ_self t) (Nat.le_max_right _ _))
        omega

/-- such steps cannot go on for ever -/
theorem own_terminates : ∀ s, Acc OwnStep s := by
  intro s
  constructor
  intro s' h
  obtain ⟨N, hN⟩ := (reach_inv h.1).fin
  exact (own_acc (mA s.g, mB2 s N) s N hN rfl).inv h

/-- `P` holds now, or some step of kind `k` is enabled and `P` is inevitable after every enabled step of kind `k` -/
inductive Inevitable (k : Label → Bool) (P : St → Prop) : St → Prop
  | now {s} : P s → Inevitable k P s
  | later {s} : (∃ l s', k l = true ∧ step s l = some s') →
      (∀ l s', k l = true → step s l = some s' → Inevitable k P s') → Inevitable k P s

theorem closer_own {l : Label} (h : isCloser l = true) : isOwn l = true := by
  cases l <;> simp [isCloser] at h <;> rfl

/-- **after a cancellation the teardown begins, on every maximal run of the connection's own steps** -/
theorem cancel_inevitable {s : St} (h : Reach s) (hc : s.connected = true) (hx : s.g.cancelled = true) :
    Inevitable isOwn (fun s => s.connected = false ∧ Draining s) s := by
  have hacc := own_terminates s
  induction hacc with
  | intro s _ ih =>
    refine Inevitable.later ?_ ?_
    · obtain ⟨l, s', hl, hs⟩ := cancel_progress h hc hx
      exact ⟨l, s', closer_own hl, hs⟩
    · intro l s' hl hs
      rcases own_key (reach_inv h) hc hx hl hs with hd | ⟨hc', hx', -⟩
      · exact Inevitable.now hd
      · exact ih s' ⟨h, hc, hx, l, hl, hs⟩ (Reach.step h hs) hc' hx'

/-- one teardown step: a step of a teardown label taken while somebody is draining -/
def TStep (s' s : St) : Prop := Reach s ∧ Draining s ∧ ∃ l, isTeardown l = true ∧ step s l = some s'

/-- **a teardown that has begun is finished on every maximal run of teardown steps**: the drainer gets to `xFinish`
(after which nobody is draining) -/
theorem teardown_inevitable {s : St} (h : Reach s) (hd : Draining s) :
    Inevitable isTeardown (fun s => ¬ Draining s) s := by
  have hacc := acc_of TStep (fun _ _ h => h) s
  induction hacc with
  | intro s _ ih =>
    refine Inevitable.later (teardown_progress h hd) ?_
    intro l s' hl hs
    by_cases hd' : Draining s'
    · exact ih s' ⟨h, hd, l, hl, hs⟩ (Reach.step h hs) hd'
    · exact Inevitable.now hd'

end Proofs.C07Live
