import Goirc.Go.Bytes
/-! Lemmas about the byte-string library. -/
namespace Go

@[simp] theorem hasPrefix_nil (s : Bytes) : hasPrefix s [] = true := by cases s <;> rfl

theorem hasPrefix_append_left (p s : Bytes) : hasPrefix (p ++ s) p = true := by
  induction p with
  | nil => simp
  | cons x p ih => simp [hasPrefix, ih]

theorem hasPrefix_iff (s p : Bytes) : hasPrefix s p = true ↔ ∃ t, s = p ++ t := by
  induction p generalizing s with
  | nil => simp
  | cons y p ih =>
    cases s with
    | nil => simp [hasPrefix]
    | cons x s =>
      simp only [hasPrefix, Bool.and_eq_true, beq_iff_eq, List.cons_append, List.cons.injEq, ih]
      constructor
      · rintro ⟨rfl, t, rfl⟩; exact ⟨t, rfl, rfl⟩
      · rintro ⟨t, rfl, rfl⟩; exact ⟨rfl, t, rfl⟩

theorem beforeByte_not_mem (c : UInt8) (s : Bytes) : c ∉ beforeByte c s := by
  induction s with
  | nil => simp [beforeByte]
  | cons x s ih =>
    simp only [beforeByte]
    split
    · simp
    · rename_i h
      simp only [List.mem_cons, not_or]
      exact ⟨fun e => h (by simp [e]), ih⟩

theorem beforeByte_subset (c : UInt8) (s : Bytes) : ∀ x ∈ beforeByte c s, x ∈ s := by
  induction s with
  | nil => simp [beforeByte]
  | cons y s ih =>
    intro x hx
    simp only [beforeByte] at hx
    split at hx
    · simp at hx
    · simp only [List.mem_cons] at hx ⊢
      rcases hx with h | h
      · exact Or.inl h
      · exact Or.inr (ih x h)

/-- cutting at `c` keeps a prefix that is free of `c` -/
theorem beforeByte_append_of_not_mem (c : UInt8) (p s : Bytes) (h : c ∉ p) :
    beforeByte c (p ++ s) = p ++ beforeByte c s := by
  induction p with
  | nil => rfl
  | cons x p ih =>
    simp only [List.mem_cons, not_or] at h
    have hx : (x == c) = false := by
      cases hxc : x == c with
      | false => rfl
      | true => exact absurd (by simpa using hxc : x = c).symm h.1
    simp [beforeByte, hx, ih h.2]

/-- `beforeByte` returns the longest prefix free of `c`: it is a prefix, and what follows starts with `c` -/
theorem beforeByte_spec (c : UInt8) (s : Bytes) :
    ∃ t, s = beforeByte c s ++ t ∧ (t = [] ∨ ∃ t', t = c :: t') := by
  induction s with
  | nil => exact ⟨[], rfl, Or.inl rfl⟩
  | cons x s ih =>
    simp only [beforeByte]
    split
    · rename_i h
      exact ⟨x :: s, rfl, Or.inr ⟨s, by simp at h; rw [h]⟩⟩
    · obtain ⟨t, ht, hc⟩ := ih
      exact ⟨t, by simp [← ht], hc⟩

end Go
