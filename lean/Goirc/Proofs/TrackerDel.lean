import Goirc.Proofs.TrackerUnlink
/-! `delNick`: removing a nick from all its channels (`unlinkAll`), then forgetting it. -/
namespace Spec.Tracker
open Go.Tracker AL

/-- remove nick `n` from all channels in `l` -/
def unlinkAll (st : St) (n : Id) (l : List Id) : St := l.foldl (fun s c => unlink s c n) st

@[simp] theorem unlinkAll_nil (st : St) (n : Id) : unlinkAll st n [] = st := rfl
@[simp] theorem unlinkAll_cons (st : St) (n c : Id) (l : List Id) :
    unlinkAll st n (c :: l) = unlinkAll (unlink st c n) n l := rfl

theorem unlinkAll_set_nicks (l : List Id) : ∀ (st : St) (n : Id) (x : List (Bytes × Id)),
    unlinkAll { st with nicks := x } n l = { unlinkAll st n l with nicks := x } := by
  induction l with
  | nil => intros; rfl
  | cons c l ih =>
    intro st n x
    show unlinkAll (unlink { st with nicks := x } c n) n l = _
    rw [unlink_set_nicks, ih]; rfl

theorem unlinkAll_set_chans (l : List Id) : ∀ (st : St) (n : Id) (x : List (Bytes × Id)),
    unlinkAll { st with chans := x } n l = { unlinkAll st n l with chans := x } := by
  induction l with
  | nil => intros; rfl
  | cons c l ih =>
    intro st n x
    show unlinkAll (unlink { st with chans := x } c n) n l = _
    rw [unlink_set_chans, ih]; rfl

section
variable (n : Id)
@[simp] theorem unlinkAll_nicks (l : List Id) : ∀ st : St, (unlinkAll st n l).nicks = st.nicks := by
  induction l with
  | nil => intro; rfl
  | cons c l ih => intro st; simp [ih]
@[simp] theorem unlinkAll_chans (l : List Id) : ∀ st : St, (unlinkAll st n l).chans = st.chans := by
  induction l with
  | nil => intro; rfl
  | cons c l ih => intro st; simp [ih]
@[simp] theorem unlinkAll_me (l : List Id) : ∀ st : St, (unlinkAll st n l).me = st.me := by
  induction l with
  | nil => intro; rfl
  | cons c l ih => intro st; simp [ih]
@[simp] theorem unlinkAll_nick (l : List Id) : ∀ (st : St) (j : Id), (getN (unlinkAll st n l) j).nick = (getN st j).nick := by
  induction l with
  | nil => intros; rfl
  | cons c l ih => intro st j; simp [ih]
@[simp] theorem unlinkAll_name (l : List Id) : ∀ (st : St) (j : Id), (getC (unlinkAll st n l) j).name = (getC st j).name := by
  induction l with
  | nil => intros; rfl
  | cons c l ih => intro st j; simp [ih]
theorem unlinkAll_absN (l : List Id) : ∀ (st : St) (j : Id), absN (getN (unlinkAll st n l) j) = absN (getN st j) := by
  induction l with
  | nil => intros; rfl
  | cons c l ih => intro st j; simp [ih, unlink_absN]
theorem unlinkAll_absC (l : List Id) : ∀ (st : St) (j : Id), absC (getC (unlinkAll st n l) j) = absC (getC st j) := by
  induction l with
  | nil => intros; rfl
  | cons c l ih => intro st j; simp [ih, unlink_absC]
theorem unlinkAll_nchans_self (l : List Id) : ∀ (st : St),
    (getN (unlinkAll st n l) n).chans = l.foldl (fun m c => AL.erase m c) (getN st n).chans := by
  induction l with
  | nil => intros; rfl
  | cons c l ih => intro st; simp [ih, unlink_nchans_self]
end

theorem delNickObj_eq (st : St) (n : Id) (h : n ≠ st.me) :
    delNickObj st n = { unlinkAll st n (AL.keys (getN st n).chans) with
                          nicks := AL.erase st.nicks (getN st n).nick } := by
  unfold delNickObj
  rw [if_neg h]
  have : (fun (s : St) c => chanDelNick (nickDelChannel s n c) c n) = fun s c => unlink s c n := by
    funext s c; exact unlink_comm s c n
  simp only [this]
  exact unlinkAll_set_nicks _ _ _ _

theorem R_unlinkAll {a : Bytes} {n : Id} (l : List Id) : ∀ (st : St) (S : S), R st S →
    AL.lookup st.nicks a = some n → (∀ c ∈ l, LiveC st c) →
    R (unlinkAll st n l)
      { S with mem := (l.map fun c => (getC st c).name).foldl (fun m cn => AL.erase m (cn, a)) S.mem } := by
  induction l with
  | nil => intro st S r _ _; exact r
  | cons c l ih =>
    intro st S r hn hl
    have hc : LiveC st c := hl c (by simp)
    have r1 := R_unlink r hc hn
    have := ih (unlink st c n) _ r1 (by simpa using hn) (by
      intro d hd; have := hl d (by simp [hd]); simpa [LiveC] using this)
    simpa using this

theorem R_delNickObj {st : St} {S : S} (r : R st S) {a : Bytes} {n : Id} (hn : AL.lookup st.nicks a = some n)
    (hme : n ≠ st.me) : R (delNickObj st n) (dropNick S a) := by
  have w := r.1
  have ab := r.2
  have ln := w.liveN hn
  have hnn := w.nick_name a n hn
  have hme' : a ≠ S.me := by
    intro h; have := ab.me; rw [← h, hn] at this; cases this; exact hme rfl
  have hl : ∀ c ∈ AL.keys (getN st n).chans, LiveC st c := by
    intro c hc
    obtain ⟨cell, hcell⟩ := (has_true_iff _ _).1 ((has_iff_mem_keys _ _).2 hc)
    exact (w.nk_ch n ln c cell hcell).1
  have r1 := R_unlinkAll (a := a) (n := n) _ st S r hn hl
  have hemp : ∀ c, AL.lookup (getN (unlinkAll st n (AL.keys (getN st n).chans)) n).chans c = none := by
    intro c
    rw [unlinkAll_nchans_self, foldl_erase_keys_nil _ _ (fun k hk => hk)]
    rfl
  have r2 := R_removeNick r1 (a := a) (n := n) (by simpa using hn) (by simpa using hme) hemp
  rw [delNickObj_eq st n hme, hnn]
  rw [dropNick_eq_fold S a ((AL.keys (getN st n).chans).map fun c => (getC st c).name) hme']
  · simpa using r2
  · intro cn p hm
    have := lookup_of_mem ab.mem_nodup hm
    rw [ab.mem_iff] at this
    obtain ⟨c, i, cell, h1, h2, h3, _⟩ := this
    rw [hn] at h2; cases h2
    exact List.mem_map.2 ⟨c, (has_iff_mem_keys _ _).1 ((has_true_iff _ _).2 ⟨cell, h3⟩), w.chan_name _ _ h1⟩

theorem Abs.me_iff {st : St} {S : S} (w : WF st) (ab : Abs st S) {a : Bytes} {n : Id}
    (hn : AL.lookup st.nicks a = some n) : n = st.me ↔ a = S.me := by
  constructor
  · intro h; subst h; exact w.nick_inj hn ab.me
  · intro h; subst h; have := ab.me; rw [hn] at this; cases this; rfl

theorem delNickObj_snap {st : St} {n : Id} (hme : n ≠ st.me) :
    (getN (delNickObj st n) n).nick = (getN st n).nick ∧
    absN (getN (delNickObj st n) n) = absN (getN st n) ∧
    (getN (delNickObj st n) n).chans = [] := by
  rw [delNickObj_eq st n hme]
  refine ⟨?_, ?_, ?_⟩
  · simp
  · simp [unlinkAll_absN]
  · simp only [getN_mk, hgetN_proj]
    rw [unlinkAll_nchans_self, foldl_erase_keys_nil _ _ (fun k hk => hk)]

theorem sim_delNick {st : St} {S : S} (r : R st S) (n : Bytes) : Sim st S (.delNick n) := by
  unfold Sim
  simp only [Go.Tracker.step, Spec.Tracker.step]
  have hS := r.2.nicks n
  cases h : AL.lookup st.nicks n with
  | none => rw [h] at hS; simp only [hS, Option.map_none]; exact ⟨r, trivial⟩
  | some i =>
    rw [h] at hS; simp only [hS, Option.map_some]
    by_cases hme : i = st.me
    · have := (Abs.me_iff r.1 r.2 h).1 hme
      simp only [hme, this, if_true, beq_self_eq_true]
      exact ⟨r, trivial⟩
    · have hme2 : ¬ n = S.me := fun h2 => hme ((Abs.me_iff r.1 r.2 h).2 h2)
      simp only [hme, if_false, beq_iff_eq, hme2]
      refine ⟨R_delNickObj r h hme, ?_⟩
      obtain ⟨h1, h2, h3⟩ := delNickObj_snap (st := st) (n := i) hme
      simp only [absN, SNick.mk.injEq] at h2
      refine ⟨?_, h2.1, h2.2.1, h2.2.2.1, h2.2.2.2, ?_⟩
      · exact h1.trans (r.1.nick_name n i h)
      · simp only [Go.Tracker.nickSnap, h3, List.map_nil]; exact List.Perm.refl _

end Spec.Tracker
