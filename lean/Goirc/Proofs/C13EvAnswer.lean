import Goirc.Proofs.C13Ops
import Goirc.Proofs.C13Parse
import Goirc.Proofs.C13Inv
import Goirc.Proofs.C13Decimal
/-!
# C13: the 324 and 352/315 replies bring the relational state to the new view
-/
namespace Proofs.C13
open Go Go.Client Go.Tracker Spec.Tracker Spec.Net

theorem AL_insert_insert {κ ν : Type} [DecidableEq κ] (m : List (κ × ν)) (k : κ) (v v' : ν) :
    AL.insert (AL.insert m k v) k v' = AL.insert m k v' := by
  induction m with
  | nil => simp [AL.insert]
  | cons e m ih =>
    obtain ⟨a, b⟩ := e
    simp only [AL.insert]
    split <;> simp_all [AL.insert]

theorem AL_insert_self {κ ν : Type} [DecidableEq κ] (m : List (κ × ν)) (k : κ) (v : ν)
    (h : AL.lookup m k = some v) : AL.insert m k v = m := by
  induction m with
  | nil => simp at h
  | cons e m ih =>
    obtain ⟨a, b⟩ := e
    simp only [AL.insert]
    rw [AL.lookup_cons] at h
    split <;> simp_all

/-- `S` with channel `c` set to topic `t` and modes `md` -/
def stM (S : TS) (c t : Bytes) (md : ChanMode) : TS :=
  { S with chans := AL.insert S.chans c { topic := t, modes := md } }

theorem stM_lookup (S : TS) (c t : Bytes) (md : ChanMode) :
    (AL.lookup (stM S c t md).chans c).getD {} = { topic := t, modes := md } := by
  simp [stM, AL.lookup_insert]

theorem stM_stM (S : TS) (c t : Bytes) (md md' : ChanMode) :
    ({ stM S c t md with chans := AL.insert (stM S c t md).chans c { topic := t, modes := md' } } : TS) = stM S c t md' := by
  simp [stM, AL_insert_insert]

/-- one optional flag letter -/
theorem pm_flag (S : TS) (c t : Bytes) (md md' : ChanMode) (x : UInt8) (hp : x ≠ 43) (hm : x ≠ 45)
    (h : applyChanFlag md true x = some md') (b : Bool) (rest : Bytes) (args : List Bytes) :
    parseModes (stM S c t md) c true ((if b then [x] else []) ++ rest) args
      = parseModes (stM S c t (if b then md' else md)) c true rest args := by
  cases b
  · simp
  · simp only [if_true, List.singleton_append]
    rw [parseModes.eq_def]
    simp only [beq_iff_eq, hp, hm, if_false, stM_lookup, h, stM_stM]

theorem applyChanFlag_k (md : ChanMode) (op : Bool) : applyChanFlag md op 107 = none := by rfl
theorem applyChanFlag_l (md : ChanMode) (op : Bool) : applyChanFlag md op 108 = none := by rfl

/-- the optional key letter with its argument -/
theorem pm_key (S : TS) (c t : Bytes) (md : ChanMode) (b : Bool) (k : Bytes) (rest : Bytes) (args : List Bytes) :
    parseModes (stM S c t md) c true ((if b then [107] else []) ++ rest) ((if b then [k] else []) ++ args)
      = parseModes (stM S c t (if b then { md with key := k } else md)) c true rest args := by
  cases b
  · simp
  · simp only [if_true, List.singleton_append]
    rw [parseModes.eq_def]
    simp [stM_lookup, applyChanFlag_k, stM_stM]

/-- the optional limit letter with its argument, last -/
theorem pm_limit (S : TS) (c t : Bytes) (md : ChanMode) (b : Bool) (k : Bytes) :
    parseModes (stM S c t md) c true (if b then [108] else []) (if b then [k] else [])
      = stM S c t (if b then { md with limit := Go.atoi k } else md) := by
  cases b
  · simp [parseModes]
  · simp only [if_true]
    rw [parseModes.eq_def]
    simp [stM_lookup, applyChanFlag_l, stM_stM, parseModes]

theorem pm_priv (S : TS) (c t : Bytes) (a1 a2 a3 a4 a5 a6 a7 a8 a9 a10 : Bool) (a11 : Bytes) (a12 : Int) (b : Bool)
    (rest : Bytes) (args : List Bytes) :
    parseModes (stM S c t ⟨a1, a2, a3, a4, a5, a6, a7, a8, a9, a10, a11, a12⟩) c true ((if b then [112] else []) ++ rest) args
      = parseModes (stM S c t ⟨(a1 || b), a2, a3, a4, a5, a6, a7, a8, a9, a10, a11, a12⟩) c true rest args := by
  rw [pm_flag S c t ⟨a1, a2, a3, a4, a5, a6, a7, a8, a9, a10, a11, a12⟩ ⟨true, a2, a3, a4, a5, a6, a7, a8, a9, a10, a11, a12⟩ 112 (by decide) (by decide) rfl]
  cases b <;> simp

theorem pm_secret (S : TS) (c t : Bytes) (a1 a2 a3 a4 a5 a6 a7 a8 a9 a10 : Bool) (a11 : Bytes) (a12 : Int) (b : Bool)
    (rest : Bytes) (args : List Bytes) :
    parseModes (stM S c t ⟨a1, a2, a3, a4, a5, a6, a7, a8, a9, a10, a11, a12⟩) c true ((if b then [115] else []) ++ rest) args
      = parseModes (stM S c t ⟨a1, (a2 || b), a3, a4, a5, a6, a7, a8, a9, a10, a11, a12⟩) c true rest args := by
  rw [pm_flag S c t ⟨a1, a2, a3, a4, a5, a6, a7, a8, a9, a10, a11, a12⟩ ⟨a1, true, a3, a4, a5, a6, a7, a8, a9, a10, a11, a12⟩ 115 (by decide) (by decide) rfl]
  cases b <;> simp

theorem pm_protectedTopic (S : TS) (c t : Bytes) (a1 a2 a3 a4 a5 a6 a7 a8 a9 a10 : Bool) (a11 : Bytes) (a12 : Int) (b : Bool)
    (rest : Bytes) (args : List Bytes) :
    parseModes (stM S c t ⟨a1, a2, a3, a4, a5, a6, a7, a8, a9, a10, a11, a12⟩) c true ((if b then [116] else []) ++ rest) args
      = parseModes (stM S c t ⟨a1, a2, (a3 || b), a4, a5, a6, a7, a8, a9, a10, a11, a12⟩) c true rest args := by
  rw [pm_flag S c t ⟨a1, a2, a3, a4, a5, a6, a7, a8, a9, a10, a11, a12⟩ ⟨a1, a2, true, a4, a5, a6, a7, a8, a9, a10, a11, a12⟩ 116 (by decide) (by decide) rfl]
  cases b <;> simp

theorem pm_noExternalMsg (S : TS) (c t : Bytes) (a1 a2 a3 a4 a5 a6 a7 a8 a9 a10 : Bool) (a11 : Bytes) (a12 : Int) (b : Bool)
    (rest : Bytes) (args : List Bytes) :
    parseModes (stM S c t ⟨a1, a2, a3, a4, a5, a6, a7, a8, a9, a10, a11, a12⟩) c true ((if b then [110] else []) ++ rest) args
      = parseModes (stM S c t ⟨a1, a2, a3, (a4 || b), a5, a6, a7, a8, a9, a10, a11, a12⟩) c true rest args := by
  rw [pm_flag S c t ⟨a1, a2, a3, a4, a5, a6, a7, a8, a9, a10, a11, a12⟩ ⟨a1, a2, a3, true, a5, a6, a7, a8, a9, a10, a11, a12⟩ 110 (by decide) (by decide) rfl]
  cases b <;> simp

theorem pm_moderated (S : TS) (c t : Bytes) (a1 a2 a3 a4 a5 a6 a7 a8 a9 a10 : Bool) (a11 : Bytes) (a12 : Int) (b : Bool)
    (rest : Bytes) (args : List Bytes) :
    parseModes (stM S c t ⟨a1, a2, a3, a4, a5, a6, a7, a8, a9, a10, a11, a12⟩) c true ((if b then [109] else []) ++ rest) args
      = parseModes (stM S c t ⟨a1, a2, a3, a4, (a5 || b), a6, a7, a8, a9, a10, a11, a12⟩) c true rest args := by
  rw [pm_flag S c t ⟨a1, a2, a3, a4, a5, a6, a7, a8, a9, a10, a11, a12⟩ ⟨a1, a2, a3, a4, true, a6, a7, a8, a9, a10, a11, a12⟩ 109 (by decide) (by decide) rfl]
  cases b <;> simp

theorem pm_inviteOnly (S : TS) (c t : Bytes) (a1 a2 a3 a4 a5 a6 a7 a8 a9 a10 : Bool) (a11 : Bytes) (a12 : Int) (b : Bool)
    (rest : Bytes) (args : List Bytes) :
    parseModes (stM S c t ⟨a1, a2, a3, a4, a5, a6, a7, a8, a9, a10, a11, a12⟩) c true ((if b then [105] else []) ++ rest) args
      = parseModes (stM S c t ⟨a1, a2, a3, a4, a5, (a6 || b), a7, a8, a9, a10, a11, a12⟩) c true rest args := by
  rw [pm_flag S c t ⟨a1, a2, a3, a4, a5, a6, a7, a8, a9, a10, a11, a12⟩ ⟨a1, a2, a3, a4, a5, true, a7, a8, a9, a10, a11, a12⟩ 105 (by decide) (by decide) rfl]
  cases b <;> simp

theorem pm_operOnly (S : TS) (c t : Bytes) (a1 a2 a3 a4 a5 a6 a7 a8 a9 a10 : Bool) (a11 : Bytes) (a12 : Int) (b : Bool)
    (rest : Bytes) (args : List Bytes) :
    parseModes (stM S c t ⟨a1, a2, a3, a4, a5, a6, a7, a8, a9, a10, a11, a12⟩) c true ((if b then [79] else []) ++ rest) args
      = parseModes (stM S c t ⟨a1, a2, a3, a4, a5, a6, (a7 || b), a8, a9, a10, a11, a12⟩) c true rest args := by
  rw [pm_flag S c t ⟨a1, a2, a3, a4, a5, a6, a7, a8, a9, a10, a11, a12⟩ ⟨a1, a2, a3, a4, a5, a6, true, a8, a9, a10, a11, a12⟩ 79 (by decide) (by decide) rfl]
  cases b <;> simp

theorem pm_sslOnly (S : TS) (c t : Bytes) (a1 a2 a3 a4 a5 a6 a7 a8 a9 a10 : Bool) (a11 : Bytes) (a12 : Int) (b : Bool)
    (rest : Bytes) (args : List Bytes) :
    parseModes (stM S c t ⟨a1, a2, a3, a4, a5, a6, a7, a8, a9, a10, a11, a12⟩) c true ((if b then [122] else []) ++ rest) args
      = parseModes (stM S c t ⟨a1, a2, a3, a4, a5, a6, a7, (a8 || b), a9, a10, a11, a12⟩) c true rest args := by
  rw [pm_flag S c t ⟨a1, a2, a3, a4, a5, a6, a7, a8, a9, a10, a11, a12⟩ ⟨a1, a2, a3, a4, a5, a6, a7, true, a9, a10, a11, a12⟩ 122 (by decide) (by decide) rfl]
  cases b <;> simp

theorem pm_registered (S : TS) (c t : Bytes) (a1 a2 a3 a4 a5 a6 a7 a8 a9 a10 : Bool) (a11 : Bytes) (a12 : Int) (b : Bool)
    (rest : Bytes) (args : List Bytes) :
    parseModes (stM S c t ⟨a1, a2, a3, a4, a5, a6, a7, a8, a9, a10, a11, a12⟩) c true ((if b then [114] else []) ++ rest) args
      = parseModes (stM S c t ⟨a1, a2, a3, a4, a5, a6, a7, a8, (a9 || b), a10, a11, a12⟩) c true rest args := by
  rw [pm_flag S c t ⟨a1, a2, a3, a4, a5, a6, a7, a8, a9, a10, a11, a12⟩ ⟨a1, a2, a3, a4, a5, a6, a7, a8, true, a10, a11, a12⟩ 114 (by decide) (by decide) rfl]
  cases b <;> simp

theorem pm_allSSL (S : TS) (c t : Bytes) (a1 a2 a3 a4 a5 a6 a7 a8 a9 a10 : Bool) (a11 : Bytes) (a12 : Int) (b : Bool)
    (rest : Bytes) (args : List Bytes) :
    parseModes (stM S c t ⟨a1, a2, a3, a4, a5, a6, a7, a8, a9, a10, a11, a12⟩) c true ((if b then [90] else []) ++ rest) args
      = parseModes (stM S c t ⟨a1, a2, a3, a4, a5, a6, a7, a8, a9, (a10 || b), a11, a12⟩) c true rest args := by
  rw [pm_flag S c t ⟨a1, a2, a3, a4, a5, a6, a7, a8, a9, a10, a11, a12⟩ ⟨a1, a2, a3, a4, a5, a6, a7, a8, a9, true, a11, a12⟩ 90 (by decide) (by decide) rfl]
  cases b <;> simp

theorem pm_letters (S : TS) (c t : Bytes) (md m : ChanMode) (h0 : 0 ≤ m.limit) (h1 : m.limit < 100000) :
    parseModes (stM S c t md) c false ([43] ++ modeLetters m) (modeArgs m) = stM S c t (mergeModes md m) := by
  obtain ⟨a1, a2, a3, a4, a5, a6, a7, a8, a9, a10, a11, a12⟩ := md
  rw [List.singleton_append, parseModes.eq_def]
  simp only [beq_self_eq_true, if_true, modeLetters, modeArgs, List.append_assoc]
  rw [pm_priv, pm_secret, pm_protectedTopic, pm_noExternalMsg, pm_moderated, pm_inviteOnly, pm_operOnly,
    pm_sslOnly, pm_registered, pm_allSSL, pm_key, pm_limit, atoi_toString_int _ h0 h1]
  congr 1
  by_cases hk : (m.key != []) = true <;> by_cases hl : (m.limit != 0) = true <;>
    simp only [mergeModes, hk, hl, if_true] <;> simp


/-! ## feeding one line -/

theorem tDispatch_324 (ext : UnicodeExt) (nn : Bytes → Bytes) (S : TS) (L : Line) (hc : L.cmd = lit "324") :
    tDispatch ext nn S L = t_324 S L := by
  obtain ⟨-, -, -, -, -, -, -, -, -, -, -, h324, -, -⟩ := toLower_verbs ext
  unfold tDispatch
  rw [hc, h324]
  rfl

theorem tDispatch_352 (ext : UnicodeExt) (nn : Bytes → Bytes) (S : TS) (L : Line) (hc : L.cmd = lit "352") :
    tDispatch ext nn S L = t_352 S L := by
  obtain ⟨-, -, -, -, -, -, -, -, -, -, -, -, h352, -⟩ := toLower_verbs ext
  unfold tDispatch
  rw [hc, h352]
  rfl

theorem tDispatch_315 (ext : UnicodeExt) (nn : Bytes → Bytes) (S : TS) (L : Line) (hc : L.cmd = lit "315") :
    tDispatch ext nn S L = S := by
  obtain ⟨-, -, -, -, -, -, -, -, -, -, h315, -, -, -⟩ := toLower_verbs ext
  unfold tDispatch
  rw [hc, h315]
  rfl

theorem sx_channelModes_a (S : TS) (c m : Bytes) (a : List Bytes) (h : AL.has S.chans c = true) :
    sx S (.channelModes c m a) = parseModes S c false m a := by
  simp [sx, Spec.Tracker.step, h]

theorem modeLetters_printable (m : ChanMode) : ∀ b ∈ modeLetters m, 32 < b ∧ b < 127 := by
  intro b hb
  simp only [modeLetters, List.mem_append] at hb
  have aux : ∀ (p : Bool) (x : UInt8), (32 < x ∧ x < 127) → b ∈ (if p then [x] else []) → 32 < b ∧ b < 127 := by
    intro p x hx hm
    cases p <;> simp at hm
    subst hm; exact hx
  rcases hb with ((((((((((((h | h) | h) | h) | h) | h) | h) | h) | h) | h) | h) | h)) <;>
    exact aux _ _ (by decide) h

theorem modeArgs_midOk (m : ChanMode) (hk : m.key = [] ∨ nameOk m.key = true) (h0 : 0 ≤ m.limit) :
    ∀ a ∈ modeArgs m, midOk a = true := by
  intro a ha
  simp only [modeArgs, List.mem_append] at ha
  rcases ha with ha | ha
  · split at ha
    · rename_i hne
      simp only [List.mem_singleton] at ha
      subst ha
      rcases hk with hk | hk
      · simp [hk] at hne
      · exact midOk_of_nameOk _ hk
    · simp at ha
  · split at ha
    · simp only [List.mem_singleton] at ha
      subst ha
      exact toString_int_midOk _ h0
    · simp at ha

theorem nameOk_me {n : Net} (hi : NetInv n) : nameOk n.me = true := by
  obtain ⟨x, hx⟩ := (AL.has_true_iff _ _).1 hi.me_user
  have := (hi.users_ok _ _ hx).1
  simp only [nickOk, Bool.and_eq_true] at this
  exact this.1

theorem nameOk_chan {n : Net} (hi : NetInv n) {c : Bytes} {ch : NChan} (h : AL.lookup n.chans c = some ch) :
    nameOk c = true := by
  have := (hi.chan_inv c ch h).name
  simp only [chanOk, Bool.and_eq_true] at this
  exact this.2

theorem ev_answerMode (ext : UnicodeExt) (nn : Bytes → Bytes) (n : Net) (c : Bytes) (hi : NetInv n)
    (hc : conforms n (.answerMode c) = true) :
    Eqv (tFeed ext nn n.view (serverStep n (.answerMode c)).2) (serverStep n (.answerMode c)).1.view := by
  have hon : onChan n n.me c = true := hc
  have hv : AL.has n.view.chans c = true := by rw [hi.view_chans]; exact hon
  obtain ⟨r, hr⟩ := (AL.has_true_iff _ _).1 hv
  unfold onChan at hon
  cases hch : AL.lookup n.chans c with
  | none => simp [hch] at hon
  | some ch =>
    have hci := hi.chan_inv c ch hch
    obtain ⟨L, hp, -, -, -, hcmd, hargs⟩ := parse_324 ext n.me c (nameOk_me hi) (nameOk_chan hi hch)
      (modeLetters ch.modes) (modeArgs ch.modes) (modeLetters_printable _)
      (modeArgs_midOk _ hci.key hci.limit.1)
    simp only [serverStep, hch, tFeed, hp, tDispatch_324 ext nn _ L hcmd]
    have e : t_324 n.view L = parseModes n.view c false ([43] ++ modeLetters ch.modes) (modeArgs ch.modes) := by
      simp [t_324, arg, hargs, hv, sx_channelModes_a]
    rw [e, hr]
    have e2 : n.view = stM n.view c r.topic r.modes := by
      simp only [stM]
      rw [AL_insert_self _ _ _ hr]
    rw [e2, pm_letters _ _ _ _ _ hci.limit.1 hci.limit.2]
    simp only [stM, Option.getD_some, AL_insert_insert]
    exact Eqv.refl _

/-! ## the WHO replies -/

theorem cut_zero (real : Bytes) : cut (lit "0 " ++ real) [32] = ([48], some real) := by
  simp [cut, index, indexFrom, hasPrefix, lit]

theorem contains_G (p : ChanPrivs) (b : UInt8) (hb : b = 42 ∨ b = 66 ∨ b = 72) :
    Go.Client.contains ([71] ++ prefixOf p) b = false := by
  unfold prefixOf Go.Client.contains
  rcases hb with hb | hb | hb <;> subst hb <;> (repeat' split) <;> decide

theorem prefixOf_printable (p : ChanPrivs) : ∀ b ∈ prefixOf p, 32 < b ∧ b < 127 := by
  intro b hb
  unfold prefixOf at hb
  (repeat' split at hb) <;> simp at hb <;> subst hb <;> decide

theorem t_352_eval (S : TS) (L : Line) (me c ident host m real : Bytes) (p : ChanPrivs)
    (ha : L.args = [me, c, ident, host, lit "irc.test", m, [71] ++ prefixOf p, lit "0 " ++ real]) :
    t_352 S L = if !AL.has S.nicks m then S else if m == S.me then S else sx S (.nickInfo m ident host real) := by
  have e1 := contains_G p 42 (Or.inl rfl)
  have e2 := contains_G p 66 (Or.inr (Or.inl rfl))
  have e3 := contains_G p 72 (Or.inr (Or.inr rfl))
  simp only [List.singleton_append] at e1 e2 e3
  simp [t_352, arg, ha, cut_zero, e1, e2, e3]

/-- the view's step for one WHO reply line -/
def whoStep (n : Net) (acc : S) (mp : Bytes × ChanPrivs) : S :=
  if mp.1 == acc.me then acc else
  match AL.lookup acc.nicks mp.1, AL.lookup n.users mp.1 with
  | some r, some x => { acc with nicks := AL.insert acc.nicks mp.1 { r with ident := x.ident, host := x.host, name := x.real } }
  | _, _ => acc

def whoLine (n : Net) (c : Bytes) (mp : Bytes × ChanPrivs) : Bytes :=
  let x := (AL.lookup n.users mp.1).getD ⟨[], [], []⟩
  srv ++ lit "352 " ++ n.me ++ [32] ++ c ++ [32] ++ x.ident ++ [32] ++ x.host ++ lit " irc.test " ++ mp.1 ++ lit " G" ++
    prefixOf mp.2 ++ lit " :0 " ++ x.real

theorem who_step {A B : TS} (h : Eqv A B) (n : Net) (m : Bytes) (p : ChanPrivs) (x : NUser)
    (hx : AL.lookup n.users m = some x) :
    Eqv (if !AL.has A.nicks m then A else if m == A.me then A else sx A (.nickInfo m x.ident x.host x.real))
      (whoStep n B (m, p)) := by
  have hl := h.nicks m
  have hme := h.me
  cases hA : AL.lookup A.nicks m with
  | none =>
    rw [hA] at hl
    simp only [whoStep, hx, AL.has_eq, hA, ← hl]
    simpa using h
  | some r =>
    rw [hA] at hl
    simp only [whoStep, hx, AL.has_eq, sx, Spec.Tracker.step, hA, ← hl, ← hme]
    by_cases hm : m = A.me
    · simpa [hm] using h
    · simp only [Option.isSome_some, Bool.not_true, Bool.false_eq_true, if_false, beq_iff_eq, hm]
      exact ⟨fun k => by simp only [AL.lookup_insert, h.nicks k], h.chans, h.mem, rfl⟩

theorem who_loop (ext : UnicodeExt) (nn : Bytes → Bytes) (n : Net) (hi : NetInv n) (c : Bytes) (hcn : nameOk c = true)
    (tail : List Bytes) (ms : List (Bytes × ChanPrivs)) (hms : ∀ mp ∈ ms, AL.has n.users mp.1 = true) :
    ∀ A B, Eqv A B → ∃ A', Eqv A' (ms.foldl (whoStep n) B) ∧
      tFeed ext nn A (ms.map (whoLine n c) ++ tail) = tFeed ext nn A' tail := by
  induction ms with
  | nil => intro A B h; exact ⟨A, h, rfl⟩
  | cons mp ms ih =>
    intro A B h
    obtain ⟨m, p⟩ := mp
    obtain ⟨x, hx⟩ := (AL.has_true_iff _ _).1 (hms (m, p) (List.mem_cons_self ..))
    have hok := hi.users_ok m x hx
    have hmn : nameOk m = true := by
      have := hok.1
      simp only [nickOk, Bool.and_eq_true] at this
      exact this.1
    obtain ⟨L, hp, -, -, -, hcmd, hargs⟩ := parse_352 ext n.me c (nameOk_me hi) hcn x.ident x.host m (prefixOf p) x.real
      hok.2.1 hok.2.2.1 hmn (prefixOf_printable p)
    obtain ⟨A', hA', hf⟩ := ih (fun mp h => hms mp (List.mem_cons_of_mem _ h)) _ _ (who_step h n m p x hx)
    refine ⟨A', hA', ?_⟩
    rw [← hf]
    simp only [List.map_cons, List.cons_append, whoLine, hx, Option.getD_some, tFeed, hp,
      tDispatch_352 ext nn _ L hcmd, t_352_eval _ L _ _ _ _ _ _ _ hargs]

theorem ev_answerWho (ext : UnicodeExt) (nn : Bytes → Bytes) (n : Net) (c : Bytes) (hi : NetInv n)
    (hc : conforms n (.answerWho c) = true) :
    Eqv (tFeed ext nn n.view (serverStep n (.answerWho c)).2) (serverStep n (.answerWho c)).1.view := by
  have hon : onChan n n.me c = true := hc
  unfold onChan at hon
  cases hch : AL.lookup n.chans c with
  | none => simp [hch] at hon
  | some ch =>
    have hci := hi.chan_inv c ch hch
    have hcn := nameOk_chan hi hch
    obtain ⟨L, hp, -, -, -, hcmd, -⟩ := parse_315 ext n.me c (nameOk_me hi) hcn
    have hms : ∀ mp ∈ ch.members, AL.has n.users mp.1 = true := by
      intro mp hmp
      apply hci.members_users
      rw [AL.has_iff_mem_keys]
      exact AL.mem_keys_of_mem (v := mp.2) hmp
    obtain ⟨A', hA', hf⟩ := who_loop ext nn n hi c hcn
      [srv ++ lit "315 " ++ n.me ++ [32] ++ c ++ lit " :End of /WHO list."] ch.members hms _ _ (Eqv.refl n.view)
    simp only [serverStep, hch]
    have e : tFeed ext nn A' [srv ++ lit "315 " ++ n.me ++ [32] ++ c ++ lit " :End of /WHO list."] = A' := by
      simp only [tFeed, hp, tDispatch_315 ext nn _ L hcmd]
    rw [e] at hf
    have hf' : tFeed ext nn n.view (List.map (fun (x : Bytes × ChanPrivs) =>
        match x with
        | (m, p) =>
          let x := (AL.lookup n.users m).getD ⟨[], [], []⟩
          srv ++ lit "352 " ++ n.me ++ [32] ++ c ++ [32] ++ x.ident ++ [32] ++ x.host ++ lit " irc.test " ++ m ++ lit " G" ++
            prefixOf p ++ lit " :0 " ++ x.real) ch.members ++
        [srv ++ lit "315 " ++ n.me ++ [32] ++ c ++ lit " :End of /WHO list."]) = A' := hf
    rw [hf']
    exact hA'

end Proofs.C13
