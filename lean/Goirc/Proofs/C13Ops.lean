import Goirc.Proofs.C13Defs
import Goirc.Proofs.TrackerSpec
/-!
# C13: what the relational operations do, as finite maps

Lookup-level semantics of the bulk operations of `Spec.Tracker` (`dropNick`, `dropChan`,
`dissociate`, `reNick`, `parseModes`), preservation of `WFS`, and congruence of every operation
(hence of the twins) for `Eqv`.
-/
namespace Proofs.C13
open Go Go.Client Go.Tracker Spec.Tracker Spec.Net

/-! ## `Eqv` is an equivalence -/

theorem Eqv.refl (A : TS) : Eqv A A := ⟨fun _ => rfl, fun _ => rfl, fun _ => rfl, rfl⟩
theorem Eqv.symm {A B : TS} (h : Eqv A B) : Eqv B A :=
  ⟨fun k => (h.nicks k).symm, fun k => (h.chans k).symm, fun k => (h.mem k).symm, h.me.symm⟩
theorem Eqv.trans {A B C : TS} (h1 : Eqv A B) (h2 : Eqv B C) : Eqv A C :=
  ⟨fun k => (h1.nicks k).trans (h2.nicks k), fun k => (h1.chans k).trans (h2.chans k),
   fun k => (h1.mem k).trans (h2.mem k), h1.me.trans h2.me⟩

theorem Eqv.has_nicks {A B : TS} (h : Eqv A B) (k : Bytes) : AL.has A.nicks k = AL.has B.nicks k := by
  rw [AL.has_eq, AL.has_eq, h.nicks]
theorem Eqv.has_chans {A B : TS} (h : Eqv A B) (k : Bytes) : AL.has A.chans k = AL.has B.chans k := by
  rw [AL.has_eq, AL.has_eq, h.chans]
theorem Eqv.has_mem {A B : TS} (h : Eqv A B) (k : Bytes × Bytes) : AL.has A.mem k = AL.has B.mem k := by
  rw [AL.has_eq, AL.has_eq, h.mem]

theorem WFS_of_R {st : St} {S : TS} (r : R st S) : WFS S := by
  intro c u h
  have hm := r.2.mem c u
  have hn := r.2.nicks u
  have hc := r.2.chans c
  rw [AL.has_eq] at h ⊢
  rw [AL.has_eq, hn, hc]
  rw [hm] at h
  cases h1 : AL.lookup st.chans c with
  | none => rw [h1] at h; simp at h
  | some ci =>
    cases h2 : AL.lookup st.nicks u with
    | none => rw [h1, h2] at h; simp at h
    | some ni => simp

/-! ## general helpers -/

/-- `n` has no membership iff no `(k, n)` is a key of `mem` -/
theorem memberships_isEmpty_iff (T : TS) (n : Bytes) :
    (memberships T n).isEmpty = true ↔ ∀ k, AL.lookup T.mem (k, n) = none := by
  simp only [memberships, List.isEmpty_iff, List.filter_eq_nil_iff, beq_iff_eq]
  constructor
  · intro h k
    rw [AL.lookup_eq_none_iff]
    intro hk
    obtain ⟨e, he, hek⟩ := List.mem_map.1 hk
    exact h e he (by rw [hek])
  · intro h e he hn
    have := (AL.lookup_eq_none_iff _ _).1 (h e.1.1)
    apply this
    exact List.mem_map.2 ⟨e, he, by rw [← hn]⟩

theorem lookup_filter_mem (m : List ((Bytes × Bytes) × ChanPrivs)) (p : Bytes × Bytes → Bool) (k : Bytes × Bytes) :
    AL.lookup (m.filter (fun e => p e.1)) k = if p k then AL.lookup m k else none :=
  AL.lookup_filter_key m p k

/-! ## `dropNick` -/

theorem dropNick_nicks (S : TS) (n k : Bytes) (h : n ≠ S.me) :
    AL.lookup (dropNick S n).nicks k = if n = k then none else AL.lookup S.nicks k := by
  have hne : (n == S.me) = false := by simpa using h
  simp only [dropNick, hne, Bool.false_eq_true, if_false, AL.lookup_erase]
theorem dropNick_mem (S : TS) (n c u : Bytes) (h : n ≠ S.me) :
    AL.lookup (dropNick S n).mem (c, u) = if u = n then none else AL.lookup S.mem (c, u) := by
  have hne : (n == S.me) = false := by simpa using h
  simp only [dropNick, hne, Bool.false_eq_true, if_false]
  have := AL.lookup_filter_key S.mem (fun k => k.2 != n) (c, u)
  simp only at this
  rw [this]
  by_cases hu : u = n <;> simp [hu]
theorem dropNick_chans (S : TS) (n : Bytes) : (dropNick S n).chans = S.chans := by
  unfold dropNick; split <;> rfl
theorem dropNick_me (S : TS) (n : Bytes) : (dropNick S n).me = S.me := by
  unfold dropNick; split <;> rfl

/-! ## `dropChan` -/

private theorem filter_true' {α : Type} (l : List α) : l.filter (fun _ => true) = l :=
  List.filter_eq_self.2 (fun _ _ => rfl)

private theorem dropNick_of_empty (T : TS) (n : Bytes) (h : (memberships T n).isEmpty = true)
    (hme : (n != T.me) = true) :
    dropNick T n = { T with nicks := T.nicks.filter (fun e => decide (e.1 ≠ n)) } := by
  have hne : (n == T.me) = false := by simpa using hme
  have hmem : T.mem.filter (fun m => m.1.2 != n) = T.mem := by
    rw [List.filter_eq_self]
    intro m hm
    simp only [memberships, List.isEmpty_iff, List.filter_eq_nil_iff] at h
    have := h m hm
    simpa using this
  simp only [dropNick, hne, Bool.false_eq_true, if_false, hmem, AL.erase_eq_filter]

private theorem condfold_eq (l : List Bytes) (T : TS) :
    l.foldl (fun st n => if (memberships st n).isEmpty && n != st.me then dropNick st n else st) T
      = { T with nicks := T.nicks.filter (fun e => !(l.contains e.1 && ((memberships T e.1).isEmpty && e.1 != T.me))) } := by
  induction l generalizing T with
  | nil => simp [filter_true']
  | cons n l ih =>
    rw [List.foldl_cons]
    by_cases hc : ((memberships T n).isEmpty && n != T.me) = true
    · have h1 : (memberships T n).isEmpty = true := by
        rw [Bool.and_eq_true] at hc; exact hc.1
      have h2 : (n != T.me) = true := by
        rw [Bool.and_eq_true] at hc; exact hc.2
      rw [if_pos hc, dropNick_of_empty T n h1 h2, ih]
      simp only [memberships, List.filter_filter, Spec.Tracker.S.mk.injEq, and_true]
      apply List.filter_congr
      intro e he
      simp only [memberships] at h1
      by_cases hen : e.1 = n
      · simp [hen, h1, h2]
      · simp [hen]
    · rw [if_neg hc, ih]
      simp only [Spec.Tracker.S.mk.injEq, and_true]
      apply List.filter_congr
      intro e he
      by_cases hen : e.1 = n
      · have hc' : ((memberships T n).isEmpty && n != T.me) = false := by simpa using hc
        simp [hen, hc']
      · simp [hen]

/-- the state `dropChan` starts its sweep from -/
def dropChan1 (S : TS) (c : Bytes) : TS :=
  { S with chans := AL.erase S.chans c, mem := S.mem.filter (fun m => m.1.1 != c) }

/-- closed form of `dropChan` -/
theorem dropChan_closed (S : TS) (c : Bytes) :
    dropChan S c = { dropChan1 S c with
      nicks := S.nicks.filter (fun e =>
        !(((S.mem.filter (fun m => m.1.1 == c)).map (·.1.2)).contains e.1 &&
          ((memberships (dropChan1 S c) e.1).isEmpty && e.1 != S.me))) } := by
  simp only [dropChan]
  rw [condfold_eq]
  rfl

/-- `u` is on `c`, on no other channel, and is not the client -/
def Lone (S : TS) (c u : Bytes) : Prop :=
  AL.has S.mem (c, u) = true ∧ u ≠ S.me ∧ ∀ k, k ≠ c → AL.lookup S.mem (k, u) = none

theorem dropChan1_mem (S : TS) (c k u : Bytes) :
    AL.lookup (dropChan1 S c).mem (k, u) = if k = c then none else AL.lookup S.mem (k, u) := by
  have := AL.lookup_filter_key S.mem (fun x => x.1 != c) (k, u)
  simp only [dropChan1]
  simp only at this
  rw [this]
  by_cases hk : k = c <;> simp [hk]

private theorem dropChan_pred (S : TS) (c u : Bytes) :
    (((S.mem.filter (fun m => m.1.1 == c)).map (·.1.2)).contains u &&
          ((memberships (dropChan1 S c) u).isEmpty && u != S.me)) = true ↔ Lone S c u := by
  simp only [Bool.and_eq_true, Lone]
  have e1 : ((S.mem.filter (fun m => m.1.1 == c)).map (·.1.2)).contains u = true ↔ AL.has S.mem (c, u) = true := by
    rw [AL.has_iff_mem_keys]
    simp only [List.contains_iff_mem, List.mem_map, List.mem_filter, beq_iff_eq, AL.keys]
    constructor
    · rintro ⟨⟨⟨x, y⟩, p⟩, ⟨hm, hx⟩, hy⟩
      simp only at hx hy
      subst hx; subst hy
      exact ⟨_, hm, rfl⟩
    · rintro ⟨⟨⟨x, y⟩, p⟩, hm, hxy⟩
      simp only [Prod.mk.injEq] at hxy
      obtain ⟨hx, hy⟩ := hxy
      subst hx; subst hy
      exact ⟨_, ⟨hm, rfl⟩, rfl⟩
  have e2 : (memberships (dropChan1 S c) u).isEmpty = true ↔ ∀ k, k ≠ c → AL.lookup S.mem (k, u) = none := by
    rw [memberships_isEmpty_iff]
    simp only [dropChan1_mem]
    constructor
    · intro h k hk; have := h k; rwa [if_neg hk] at this
    · intro h k; by_cases hk : k = c
      · rw [if_pos hk]
      · rw [if_neg hk]; exact h k hk
  rw [e1, e2, bne_iff_ne]
  exact ⟨fun ⟨a, b, d⟩ => ⟨a, d, b⟩, fun ⟨a, b, d⟩ => ⟨a, d, b⟩⟩

theorem dropChan_nicks_lone (S : TS) (c u : Bytes) (h : Lone S c u) : AL.lookup (dropChan S c).nicks u = none := by
  rw [dropChan_closed]
  have := AL.lookup_filter_key S.nicks (fun x => !(((S.mem.filter (fun m => m.1.1 == c)).map (·.1.2)).contains x &&
          ((memberships (dropChan1 S c) x).isEmpty && x != S.me))) u
  simp only at this ⊢
  rw [this, (dropChan_pred S c u).2 h]
  rfl
theorem dropChan_nicks_other (S : TS) (c u : Bytes) (h : ¬ Lone S c u) :
    AL.lookup (dropChan S c).nicks u = AL.lookup S.nicks u := by
  rw [dropChan_closed]
  have := AL.lookup_filter_key S.nicks (fun x => !(((S.mem.filter (fun m => m.1.1 == c)).map (·.1.2)).contains x &&
          ((memberships (dropChan1 S c) x).isEmpty && x != S.me))) u
  simp only at this ⊢
  rw [this]
  have hf : (((S.mem.filter (fun m => m.1.1 == c)).map (·.1.2)).contains u &&
          ((memberships (dropChan1 S c) u).isEmpty && u != S.me)) = false := by
    rw [← Bool.not_eq_true]; exact fun hp => h ((dropChan_pred S c u).1 hp)
  rw [hf]
  rfl
theorem dropChan_chans (S : TS) (c k : Bytes) :
    AL.lookup (dropChan S c).chans k = if c = k then none else AL.lookup S.chans k := by
  rw [dropChan_closed]
  simp only [dropChan1, AL.lookup_erase]
theorem dropChan_mem (S : TS) (c k u : Bytes) :
    AL.lookup (dropChan S c).mem (k, u) = if k = c then none else AL.lookup S.mem (k, u) := by
  rw [dropChan_closed]
  exact dropChan1_mem S c k u
theorem dropChan_me (S : TS) (c : Bytes) : (dropChan S c).me = S.me := by
  rw [dropChan_closed]; rfl

/-! ## `dissociate` -/

theorem sx_dissociate_noop (S : TS) (c n : Bytes)
    (h : (AL.has S.chans c && AL.has S.nicks n && AL.has S.mem (c, n)) = false) :
    sx S (.dissociate c n) = S := by
  simp only [sx, Spec.Tracker.step, h, Bool.false_eq_true, if_false]

theorem sx_dissociate_me (S : TS) (c : Bytes)
    (h : (AL.has S.chans c && AL.has S.nicks S.me && AL.has S.mem (c, S.me)) = true) :
    sx S (.dissociate c S.me) = dropChan S c := by
  simp only [sx, Spec.Tracker.step, h, if_true, beq_self_eq_true]

/-- after erasing `(c, n)`, `n` has no membership iff it had none outside `c` -/
theorem memberships_erase_isEmpty_iff (S : TS) (c n : Bytes) :
    (memberships { S with mem := AL.erase S.mem (c, n) } n).isEmpty = true ↔
      ∀ k, k ≠ c → AL.lookup S.mem (k, n) = none := by
  rw [memberships_isEmpty_iff]
  simp only [AL.lookup_erase, Prod.mk.injEq, and_true]
  constructor
  · intro h k hk
    have := h k
    rwa [if_neg (fun e => hk e.symm)] at this
  · intro h k
    by_cases hk : c = k
    · rw [if_pos hk]
    · rw [if_neg hk]; exact h k (fun e => hk e.symm)

/-- `dissociate` of somebody else, unfolded -/
theorem sx_dissociate_other (S : TS) (c n : Bytes)
    (h : (AL.has S.chans c && AL.has S.nicks n && AL.has S.mem (c, n)) = true) (hn : n ≠ S.me) :
    sx S (.dissociate c n) =
      if (memberships { S with mem := AL.erase S.mem (c, n) } n).isEmpty
      then dropNick { S with mem := AL.erase S.mem (c, n) } n
      else { S with mem := AL.erase S.mem (c, n) } := by
  have hne : (n == S.me) = false := by simpa using hn
  simp only [sx, Spec.Tracker.step, h, if_true, hne, Bool.false_eq_true, if_false]
  split <;> rfl

section
variable (S : TS) (c n : Bytes) (h : (AL.has S.chans c && AL.has S.nicks n && AL.has S.mem (c, n)) = true) (hn : n ≠ S.me)
include h hn

/-- `n` leaves its last channel: it is forgotten -/
theorem dissociate_nicks_last (hl : ∀ k, k ≠ c → AL.lookup S.mem (k, n) = none) (u : Bytes) :
    AL.lookup (sx S (.dissociate c n)).nicks u = if n = u then none else AL.lookup S.nicks u := by
  rw [sx_dissociate_other S c n h hn, if_pos ((memberships_erase_isEmpty_iff S c n).2 hl)]
  rw [dropNick_nicks _ _ _ (by exact hn)]
theorem dissociate_nicks_more (hl : ¬ ∀ k, k ≠ c → AL.lookup S.mem (k, n) = none) :
    (sx S (.dissociate c n)).nicks = S.nicks := by
  rw [sx_dissociate_other S c n h hn, if_neg (fun e => hl ((memberships_erase_isEmpty_iff S c n).1 e))]
theorem dissociate_chans : (sx S (.dissociate c n)).chans = S.chans := by
  rw [sx_dissociate_other S c n h hn]
  split
  · rw [dropNick_chans]
  · rfl
theorem dissociate_mem (k u : Bytes) :
    AL.lookup (sx S (.dissociate c n)).mem (k, u) = if (c, n) = (k, u) then none else AL.lookup S.mem (k, u) := by
  rw [sx_dissociate_other S c n h hn]
  split
  · rename_i he
    have hl := (memberships_erase_isEmpty_iff S c n).1 he
    rw [dropNick_mem _ _ _ _ (by exact hn)]
    simp only [AL.lookup_erase]
    by_cases hu : u = n
    · subst hu
      rw [if_pos rfl]
      by_cases hk : c = k
      · subst hk; rw [if_pos rfl]
      · rw [if_neg (by simp [hk]), hl k (fun e => hk e.symm)]
    · rw [if_neg hu]
  · simp only [AL.lookup_erase]
theorem dissociate_me : (sx S (.dissociate c n)).me = S.me := by
  rw [sx_dissociate_other S c n h hn]
  split
  · rw [dropNick_me]
  · rfl
end

/-! ## `reNick` -/

theorem sx_reNick_noop (S : TS) (old neu : Bytes)
    (h : AL.lookup S.nicks old = none ∨ AL.has S.nicks neu = true) : sx S (.reNick old neu) = S := by
  simp only [sx, Spec.Tracker.step]
  cases ho : AL.lookup S.nicks old with
  | none => rfl
  | some r =>
    rcases h with h | h
    · rw [ho] at h; cases h
    · simp only [h, if_true]

/-- `reNick` that succeeds, unfolded -/
theorem sx_reNick_eq (S : TS) (old neu : Bytes) (r : SNick) (h1 : AL.lookup S.nicks old = some r)
    (h2 : AL.has S.nicks neu = false) :
    sx S (.reNick old neu) =
      { S with nicks := AL.insert (AL.erase S.nicks old) neu r
               mem := S.mem.map (renKey old neu)
               me := if S.me == old then neu else S.me } := by
  simp only [sx, Spec.Tracker.step, h1, h2, Bool.false_eq_true, if_false]
  rfl

section
variable (S : TS) (old neu : Bytes) (r : SNick) (h1 : AL.lookup S.nicks old = some r) (h2 : AL.has S.nicks neu = false)
include h1 h2
theorem reNick_nicks (k : Bytes) :
    AL.lookup (sx S (.reNick old neu)).nicks k =
      if neu = k then some r else if old = k then none else AL.lookup S.nicks k := by
  rw [sx_reNick_eq S old neu r h1 h2]
  simp only [AL.lookup_insert, AL.lookup_erase]
theorem reNick_chans : (sx S (.reNick old neu)).chans = S.chans := by
  rw [sx_reNick_eq S old neu r h1 h2]
theorem reNick_me : (sx S (.reNick old neu)).me = if S.me = old then neu else S.me := by
  rw [sx_reNick_eq S old neu r h1 h2]
  simp only [beq_iff_eq]
theorem reNick_mem (w : WFS S) (c u : Bytes) :
    AL.lookup (sx S (.reNick old neu)).mem (c, u) =
      if u = neu then AL.lookup S.mem (c, old) else if u = old then none else AL.lookup S.mem (c, u) := by
  rw [sx_reNick_eq S old neu r h1 h2]
  have hne : old ≠ neu := by
    intro e; subst e
    rw [AL.has_eq, h1] at h2; cases h2
  have hfree : ∀ e ∈ S.mem, e.1.2 ≠ neu := by
    intro e he hn
    obtain ⟨⟨cn, a⟩, p⟩ := e
    simp only at hn; subst hn
    have hk : AL.has S.mem (cn, a) = true := (AL.has_iff_mem_keys _ _).2 (AL.mem_keys_of_mem he)
    rw [(w cn a hk).2] at h2; cases h2
  exact lookup_renKey hne S.mem hfree c u
end

/-! ## `parseModes`: what it leaves alone -/

/-- induction principle: a property kept by the two kinds of update `parseModes` performs -/
theorem parseModes_ind (P : TS → Prop) (c : Bytes)
    (hc : ∀ T v, P T → P { T with chans := AL.insert T.chans c v })
    (hm : ∀ T a p v, AL.lookup T.mem (c, a) = some p → P T → P { T with mem := AL.insert T.mem (c, a) v })
    (S : TS) (op : Bool) (ms : Bytes) (args : List Bytes) (h : P S) : P (parseModes S c op ms args) := by
  fun_induction parseModes S c op ms args
  all_goals first
    | exact h
    | (rename_i ih; exact ih h)
    | (rename_i ih; exact ih (hc _ _ h))
    | (rename_i hl ih; exact ih (hm _ _ _ _ hl h))

theorem parseModes_nicks (S : TS) (c : Bytes) (op : Bool) (ms : Bytes) (args : List Bytes) :
    (parseModes S c op ms args).nicks = S.nicks :=
  parseModes_ind (fun T => T.nicks = S.nicks) c (fun _ _ h => h) (fun _ _ _ _ _ h => h) S op ms args rfl
theorem parseModes_me (S : TS) (c : Bytes) (op : Bool) (ms : Bytes) (args : List Bytes) :
    (parseModes S c op ms args).me = S.me :=
  parseModes_ind (fun T => T.me = S.me) c (fun _ _ h => h) (fun _ _ _ _ _ h => h) S op ms args rfl
theorem parseModes_chans_other (S : TS) (c : Bytes) (op : Bool) (ms : Bytes) (args : List Bytes) (k : Bytes) (hk : k ≠ c) :
    AL.lookup (parseModes S c op ms args).chans k = AL.lookup S.chans k :=
  parseModes_ind (fun T => AL.lookup T.chans k = AL.lookup S.chans k) c
    (fun T v h => by simp only [AL.lookup_insert]; rw [if_neg (fun e => hk e.symm)]; exact h)
    (fun _ _ _ _ _ h => h) S op ms args rfl
theorem parseModes_has_chans (S : TS) (c : Bytes) (op : Bool) (ms : Bytes) (args : List Bytes)
    (hc : AL.has S.chans c = true) (k : Bytes) :
    AL.has (parseModes S c op ms args).chans k = AL.has S.chans k :=
  parseModes_ind (fun T => ∀ k, AL.has T.chans k = AL.has S.chans k) c
    (fun T v h k => by
      simp only [AL.has_eq, AL.lookup_insert]
      by_cases e : c = k
      · subst e; rw [if_pos rfl, ← AL.has_eq, hc]; rfl
      · rw [if_neg e, ← AL.has_eq, ← AL.has_eq]; exact h k)
    (fun _ _ _ _ _ h => h) S op ms args (fun _ => rfl) k
theorem parseModes_mem_other (S : TS) (c : Bytes) (op : Bool) (ms : Bytes) (args : List Bytes) (k u : Bytes) (hk : k ≠ c) :
    AL.lookup (parseModes S c op ms args).mem (k, u) = AL.lookup S.mem (k, u) :=
  parseModes_ind (fun T => AL.lookup T.mem (k, u) = AL.lookup S.mem (k, u)) c
    (fun _ _ h => h)
    (fun T a p v _ h => by
      simp only [AL.lookup_insert]
      rw [if_neg (by simp only [Prod.mk.injEq]; exact fun e => hk e.1.symm)]; exact h)
    S op ms args rfl
theorem parseModes_has_mem (S : TS) (c : Bytes) (op : Bool) (ms : Bytes) (args : List Bytes) (k : Bytes × Bytes) :
    AL.has (parseModes S c op ms args).mem k = AL.has S.mem k :=
  parseModes_ind (fun T => ∀ k, AL.has T.mem k = AL.has S.mem k) c
    (fun _ _ h => h)
    (fun T a p v hl h k => by
      simp only [AL.has_eq, AL.lookup_insert]
      by_cases e : (c, a) = k
      · subst e; rw [if_pos rfl, ← AL.has_eq, ← h (c, a), AL.has_eq, hl]; rfl
      · rw [if_neg e, ← AL.has_eq, ← AL.has_eq]; exact h k)
    S op ms args (fun _ => rfl) k

/-! ## which operations the twins use -/

def usedOp : Op → Bool
  | .delChannel _ => false
  | .wipe => false
  | _ => true

/-! ## operations that leave the state alone -/

theorem sx_getNick (S : TS) (n : Bytes) : sx S (.getNick n) = S := by
  simp only [sx, Spec.Tracker.step]; split <;> rfl
theorem sx_getChannel (S : TS) (c : Bytes) : sx S (.getChannel c) = S := by
  simp only [sx, Spec.Tracker.step]; split <;> rfl
theorem sx_me (S : TS) : sx S .me = S := rfl
theorem sx_isOn (S : TS) (c n : Bytes) : sx S (.isOn c n) = S := by
  simp only [sx, Spec.Tracker.step]
  split
  · split <;> rfl
  · rfl

/-! ## simple operations as structure updates -/

theorem sx_newNick (S : TS) (n : Bytes) :
    sx S (.newNick n) = if n.isEmpty || AL.has S.nicks n then S else { S with nicks := AL.insert S.nicks n {} } := by
  simp only [sx, Spec.Tracker.step]; split <;> rfl
theorem sx_newChannel (S : TS) (c : Bytes) :
    sx S (.newChannel c) = if c.isEmpty || AL.has S.chans c then S else { S with chans := AL.insert S.chans c {} } := by
  simp only [sx, Spec.Tracker.step]; split <;> rfl
theorem sx_nickInfo (S : TS) (n i h name : Bytes) :
    sx S (.nickInfo n i h name) = match AL.lookup S.nicks n with
      | none => S
      | some r => { S with nicks := AL.insert S.nicks n { r with ident := i, host := h, name := name } } := by
  simp only [sx, Spec.Tracker.step]; cases AL.lookup S.nicks n <;> rfl
theorem sx_nickModes (S : TS) (n m : Bytes) :
    sx S (.nickModes n m) = match AL.lookup S.nicks n with
      | none => S
      | some r => { S with nicks := AL.insert S.nicks n { r with modes := nickParseModes r.modes false m } } := by
  simp only [sx, Spec.Tracker.step]; cases AL.lookup S.nicks n <;> rfl
theorem sx_topic (S : TS) (c t : Bytes) :
    sx S (.topic c t) = match AL.lookup S.chans c with
      | none => S
      | some r => { S with chans := AL.insert S.chans c { r with topic := t } } := by
  simp only [sx, Spec.Tracker.step]; cases AL.lookup S.chans c <;> rfl
theorem sx_channelModes (S : TS) (c m : Bytes) (args : List Bytes) :
    sx S (.channelModes c m args) = if AL.has S.chans c then parseModes S c false m args else S := by
  simp only [sx, Spec.Tracker.step]; split <;> rfl
theorem sx_associate (S : TS) (c n : Bytes) :
    sx S (.associate c n) =
      if AL.has S.chans c && AL.has S.nicks n && !AL.has S.mem (c, n) then { S with mem := AL.insert S.mem (c, n) {} }
      else S := by
  simp only [sx, Spec.Tracker.step]; split <;> rfl
theorem sx_delNick (S : TS) (n : Bytes) :
    sx S (.delNick n) = if AL.has S.nicks n && n != S.me then dropNick S n else S := by
  cases hl : AL.lookup S.nicks n with
  | none => simp only [sx, Spec.Tracker.step, AL.has_eq, hl]; rfl
  | some r =>
    by_cases hn : n = S.me
    · subst hn; simp [sx, Spec.Tracker.step, AL.has_eq, hl]
    · simp [sx, Spec.Tracker.step, AL.has_eq, hl, hn]

theorem has_insert {κ ν : Type} [DecidableEq κ] (m : List (κ × ν)) (k : κ) (v : ν) (x : κ) :
    AL.has (AL.insert m k v) x = if k = x then true else AL.has m x := by
  simp only [AL.has_eq, AL.lookup_insert]; split <;> rfl

/-! ## `WFS` is kept -/

theorem WFS.insert_nicks {S : TS} (w : WFS S) (k : Bytes) (v : SNick) : WFS { S with nicks := AL.insert S.nicks k v } := by
  intro c u h
  have := w c u h
  simp only [has_insert]
  exact ⟨this.1, by split <;> simp [this.2]⟩
theorem WFS.insert_chans {S : TS} (w : WFS S) (k : Bytes) (v : SChan) : WFS { S with chans := AL.insert S.chans k v } := by
  intro c u h
  have := w c u h
  simp only [has_insert]
  exact ⟨by split <;> simp [this.1], this.2⟩
theorem WFS.insert_mem {S : TS} (w : WFS S) (c n : Bytes) (v : ChanPrivs) (hc : AL.has S.chans c = true)
    (hn : AL.has S.nicks n = true) : WFS { S with mem := AL.insert S.mem (c, n) v } := by
  intro k u h
  simp only [has_insert, Prod.mk.injEq] at h
  split at h
  · rename_i e; rw [← e.1, ← e.2]; exact ⟨hc, hn⟩
  · exact w k u h

theorem WFS_dropNick (S : TS) (n : Bytes) (w : WFS S) : WFS (dropNick S n) := by
  by_cases hn : n = S.me
  · have : (n == S.me) = true := by simpa using hn
    simp only [dropNick, this, if_true]; exact w
  · intro c u h
    rw [AL.has_eq, dropNick_mem S n c u hn] at h
    rw [AL.has_eq, AL.has_eq, dropNick_chans, dropNick_nicks S n u hn]
    by_cases hu : u = n
    · rw [if_pos hu] at h; cases h
    · rw [if_neg hu, ← AL.has_eq] at h
      rw [if_neg (fun e => hu e.symm), ← AL.has_eq, ← AL.has_eq]
      exact w c u h

theorem WFS_dropChan (S : TS) (c : Bytes) (w : WFS S) : WFS (dropChan S c) := by
  intro k u h
  rw [AL.has_eq, dropChan_mem] at h
  by_cases hk : k = c
  · rw [if_pos hk] at h; cases h
  · rw [if_neg hk, ← AL.has_eq] at h
    have hw := w k u h
    have hl : ¬ Lone S c u := by
      intro hl
      have := hl.2.2 k hk
      rw [AL.has_eq, this] at h; cases h
    rw [AL.has_eq, AL.has_eq, dropChan_chans, dropChan_nicks_other S c u hl, if_neg (fun e => hk e.symm),
      ← AL.has_eq, ← AL.has_eq]
    exact hw

theorem WFS_parseModes (S : TS) (c : Bytes) (op : Bool) (ms : Bytes) (args : List Bytes)
    (hc : AL.has S.chans c = true) (w : WFS S) : WFS (parseModes S c op ms args) := by
  intro k u h
  rw [parseModes_has_mem] at h
  rw [parseModes_has_chans S c op ms args hc, parseModes_nicks]
  exact w k u h

/-- every operation the handlers use keeps memberships between known channels and known nicks -/
theorem WFS_sx (S : TS) (op : Op) (hu : usedOp op = true) (w : WFS S) : WFS (sx S op) := by
  cases op with
  | newNick n => rw [sx_newNick]; split; exact w; exact w.insert_nicks _ _
  | getNick n => rw [sx_getNick]; exact w
  | reNick old neu =>
    cases h1 : AL.lookup S.nicks old with
    | none => rw [sx_reNick_noop S old neu (Or.inl h1)]; exact w
    | some r =>
      cases h2 : AL.has S.nicks neu with
      | true => rw [sx_reNick_noop S old neu (Or.inr h2)]; exact w
      | false =>
        intro c u h
        rw [AL.has_eq, reNick_mem S old neu r h1 h2 w] at h
        rw [AL.has_eq, AL.has_eq, reNick_chans S old neu r h1 h2, reNick_nicks S old neu r h1 h2]
        by_cases hu1 : u = neu
        · rw [if_pos hu1, ← AL.has_eq] at h
          rw [if_pos hu1.symm, ← AL.has_eq]
          exact ⟨(w c old h).1, rfl⟩
        · rw [if_neg hu1] at h
          by_cases hu2 : u = old
          · rw [if_pos hu2] at h; cases h
          · rw [if_neg hu2, ← AL.has_eq] at h
            rw [if_neg (fun e => hu1 e.symm), if_neg (fun e => hu2 e.symm), ← AL.has_eq, ← AL.has_eq]
            exact w c u h
  | delNick n => rw [sx_delNick]; split; exact WFS_dropNick S n w; exact w
  | nickInfo n i h name => rw [sx_nickInfo]; split; exact w; exact w.insert_nicks _ _
  | nickModes n m => rw [sx_nickModes]; split; exact w; exact w.insert_nicks _ _
  | newChannel c => rw [sx_newChannel]; split; exact w; exact w.insert_chans _ _
  | getChannel c => rw [sx_getChannel]; exact w
  | delChannel c => cases hu
  | topic c t => rw [sx_topic]; split; exact w; exact w.insert_chans _ _
  | channelModes c m args =>
    rw [sx_channelModes]; split
    · rename_i hc; exact WFS_parseModes S c false m args hc w
    · exact w
  | me => exact w
  | isOn c n => rw [sx_isOn]; exact w
  | associate c n =>
    rw [sx_associate]; split
    · rename_i hg
      simp only [Bool.and_eq_true] at hg
      exact w.insert_mem c n _ hg.1.1 hg.1.2
    · exact w
  | dissociate c n =>
    cases hg : (AL.has S.chans c && AL.has S.nicks n && AL.has S.mem (c, n)) with
    | false => rw [sx_dissociate_noop S c n hg]; exact w
    | true =>
      by_cases hn : n = S.me
      · subst hn; rw [sx_dissociate_me S c hg]; exact WFS_dropChan S c w
      · intro k u h
        rw [AL.has_eq, dissociate_mem S c n hg hn] at h
        rw [AL.has_eq, AL.has_eq, dissociate_chans S c n hg hn]
        by_cases hk : (c, n) = (k, u)
        · rw [if_pos hk] at h; cases h
        · rw [if_neg hk, ← AL.has_eq] at h
          have hw := w k u h
          rw [← AL.has_eq]
          refine ⟨hw.1, ?_⟩
          by_cases hl : ∀ k, k ≠ c → AL.lookup S.mem (k, n) = none
          · rw [dissociate_nicks_last S c n hg hn hl]
            by_cases hnu : n = u
            · subst hnu
              have hkc : k ≠ c := by intro e; subst e; exact hk rfl
              rw [AL.has_eq, hl k hkc] at h; cases h
            · rw [if_neg hnu, ← AL.has_eq]; exact hw.2
          · rw [dissociate_nicks_more S c n hg hn hl, ← AL.has_eq]; exact hw.2
  | wipe => cases hu

/-! ## `Eqv` is kept -/

theorem Eqv.insert_nicks {A B : TS} (h : Eqv A B) (k : Bytes) (v : SNick) :
    Eqv { A with nicks := AL.insert A.nicks k v } { B with nicks := AL.insert B.nicks k v } :=
  ⟨fun x => by simp only [AL.lookup_insert, h.nicks], h.chans, h.mem, h.me⟩
theorem Eqv.insert_chans {A B : TS} (h : Eqv A B) (k : Bytes) (v : SChan) :
    Eqv { A with chans := AL.insert A.chans k v } { B with chans := AL.insert B.chans k v } :=
  ⟨h.nicks, fun x => by simp only [AL.lookup_insert, h.chans], h.mem, h.me⟩
theorem Eqv.insert_mem {A B : TS} (h : Eqv A B) (k : Bytes × Bytes) (v : ChanPrivs) :
    Eqv { A with mem := AL.insert A.mem k v } { B with mem := AL.insert B.mem k v } :=
  ⟨h.nicks, h.chans, fun x => by simp only [AL.lookup_insert, h.mem], h.me⟩

theorem Eqv_parseModes {A B : TS} (h : Eqv A B) (c : Bytes) (op : Bool) (ms : Bytes) (args : List Bytes) :
    Eqv (parseModes A c op ms args) (parseModes B c op ms args) := by
  induction ms generalizing A B op args with
  | nil => simpa [parseModes] using h
  | cons m rest ih =>
    simp only [parseModes]
    rw [h.chans c]
    simp only [h.mem]
    repeat' split
    all_goals first
      | exact ih h _ _
      | exact ih (h.insert_chans _ _) _ _
      | exact ih (h.insert_mem _ _) _ _

theorem Eqv_dropNick {A B : TS} (h : Eqv A B) (n : Bytes) : Eqv (dropNick A n) (dropNick B n) := by
  by_cases hn : n = A.me
  · have e1 : (n == A.me) = true := by simpa using hn
    have e2 : (n == B.me) = true := by rw [← h.me]; exact e1
    simp only [dropNick, e1, e2, if_true]; exact h
  · have hn' : n ≠ B.me := by rw [← h.me]; exact hn
    refine ⟨fun k => ?_, fun k => ?_, fun k => ?_, ?_⟩
    · rw [dropNick_nicks A n k hn, dropNick_nicks B n k hn', h.nicks]
    · rw [dropNick_chans, dropNick_chans, h.chans]
    · obtain ⟨c, u⟩ := k
      rw [dropNick_mem A n c u hn, dropNick_mem B n c u hn', h.mem]
    · rw [dropNick_me, dropNick_me, h.me]

theorem Lone_congr {A B : TS} (h : Eqv A B) (c u : Bytes) : Lone A c u ↔ Lone B c u := by
  simp only [Lone, h.has_mem, h.me, h.mem]

theorem Eqv_dropChan {A B : TS} (h : Eqv A B) (c : Bytes) : Eqv (dropChan A c) (dropChan B c) := by
  refine ⟨fun k => ?_, fun k => ?_, fun k => ?_, ?_⟩
  · by_cases hl : Lone A c k
    · rw [dropChan_nicks_lone A c k hl, dropChan_nicks_lone B c k ((Lone_congr h c k).1 hl)]
    · rw [dropChan_nicks_other A c k hl, dropChan_nicks_other B c k (fun e => hl ((Lone_congr h c k).2 e)), h.nicks]
  · rw [dropChan_chans, dropChan_chans, h.chans]
  · obtain ⟨x, u⟩ := k
    rw [dropChan_mem, dropChan_mem, h.mem]
  · rw [dropChan_me, dropChan_me, h.me]

theorem sx_dissociate_me' (S : TS) (c n : Bytes) (hn : n = S.me)
    (h : (AL.has S.chans c && AL.has S.nicks n && AL.has S.mem (c, n)) = true) :
    sx S (.dissociate c n) = dropChan S c := by
  subst hn; exact sx_dissociate_me S c h

/-- every operation the handlers use is a function of the finite maps -/
theorem Eqv_sx {A B : TS} (op : Op) (hu : usedOp op = true) (h : Eqv A B) (wa : WFS A) (wb : WFS B) :
    Eqv (sx A op) (sx B op) := by
  cases op with
  | newNick n => rw [sx_newNick, sx_newNick, h.has_nicks]; split; exact h; exact h.insert_nicks _ _
  | getNick n => rw [sx_getNick, sx_getNick]; exact h
  | reNick old neu =>
    cases h1 : AL.lookup A.nicks old with
    | none =>
      rw [sx_reNick_noop A old neu (Or.inl h1), sx_reNick_noop B old neu (Or.inl (by rw [← h.nicks]; exact h1))]
      exact h
    | some r =>
      cases h2 : AL.has A.nicks neu with
      | true =>
        rw [sx_reNick_noop A old neu (Or.inr h2), sx_reNick_noop B old neu (Or.inr (by rw [← h.has_nicks]; exact h2))]
        exact h
      | false =>
        have h1' : AL.lookup B.nicks old = some r := by rw [← h.nicks]; exact h1
        have h2' : AL.has B.nicks neu = false := by rw [← h.has_nicks]; exact h2
        refine ⟨fun k => ?_, fun k => ?_, fun k => ?_, ?_⟩
        · rw [reNick_nicks A old neu r h1 h2, reNick_nicks B old neu r h1' h2', h.nicks]
        · rw [reNick_chans A old neu r h1 h2, reNick_chans B old neu r h1' h2', h.chans]
        · obtain ⟨c, u⟩ := k
          rw [reNick_mem A old neu r h1 h2 wa, reNick_mem B old neu r h1' h2' wb, h.mem, h.mem]
        · rw [reNick_me A old neu r h1 h2, reNick_me B old neu r h1' h2', h.me]
  | delNick n =>
    rw [sx_delNick, sx_delNick, h.has_nicks, h.me]; split; exact Eqv_dropNick h n; exact h
  | nickInfo n i ho name =>
    rw [sx_nickInfo, sx_nickInfo, h.nicks]; split; exact h; exact h.insert_nicks _ _
  | nickModes n m =>
    rw [sx_nickModes, sx_nickModes, h.nicks]; split; exact h; exact h.insert_nicks _ _
  | newChannel c => rw [sx_newChannel, sx_newChannel, h.has_chans]; split; exact h; exact h.insert_chans _ _
  | getChannel c => rw [sx_getChannel, sx_getChannel]; exact h
  | delChannel c => cases hu
  | topic c t =>
    rw [sx_topic, sx_topic, h.chans]; split; exact h; exact h.insert_chans _ _
  | channelModes c m args =>
    rw [sx_channelModes, sx_channelModes, h.has_chans]; split; exact Eqv_parseModes h _ _ _ _; exact h
  | me => exact h
  | isOn c n => rw [sx_isOn, sx_isOn]; exact h
  | associate c n =>
    rw [sx_associate, sx_associate, h.has_chans, h.has_nicks, h.has_mem]; split; exact h.insert_mem _ _; exact h
  | dissociate c n =>
    cases hg : (AL.has A.chans c && AL.has A.nicks n && AL.has A.mem (c, n)) with
    | false =>
      have hg' := hg
      rw [h.has_chans, h.has_nicks, h.has_mem] at hg'
      rw [sx_dissociate_noop A c n hg, sx_dissociate_noop B c n hg']; exact h
    | true =>
      have hg' := hg
      rw [h.has_chans, h.has_nicks, h.has_mem] at hg'
      by_cases hn : n = A.me
      · rw [sx_dissociate_me' A c n hn hg, sx_dissociate_me' B c n (by rw [← h.me]; exact hn) hg']
        exact Eqv_dropChan h c
      · have hn' : n ≠ B.me := by rw [← h.me]; exact hn
        refine ⟨fun k => ?_, fun k => ?_, fun k => ?_, ?_⟩
        · by_cases hl : ∀ k, k ≠ c → AL.lookup A.mem (k, n) = none
          · have hl' : ∀ k, k ≠ c → AL.lookup B.mem (k, n) = none := by
              intro k hk; rw [← h.mem]; exact hl k hk
            rw [dissociate_nicks_last A c n hg hn hl, dissociate_nicks_last B c n hg' hn' hl', h.nicks]
          · have hl' : ¬ ∀ k, k ≠ c → AL.lookup B.mem (k, n) = none := by
              intro e; apply hl; intro k hk; rw [h.mem]; exact e k hk
            rw [dissociate_nicks_more A c n hg hn hl, dissociate_nicks_more B c n hg' hn' hl', h.nicks]
        · rw [dissociate_chans A c n hg hn, dissociate_chans B c n hg' hn', h.chans]
        · obtain ⟨x, u⟩ := k
          rw [dissociate_mem A c n hg hn, dissociate_mem B c n hg' hn', h.mem]
        · rw [dissociate_me A c n hg hn, dissociate_me B c n hg' hn', h.me]
  | wipe => cases hu

/-! ## the twins -/

/-- equal as finite maps, and both well formed -/
def EW (A B : TS) : Prop := Eqv A B ∧ WFS A ∧ WFS B

theorem EW.rfl' {S : TS} (w : WFS S) : EW S S := ⟨Eqv.refl S, w, w⟩

theorem EW.sx {A B : TS} {oa ob : Op} (h : EW A B) (e : oa = ob) (hu : usedOp oa = true) :
    EW (sx A oa) (sx B ob) := by
  subst e
  exact ⟨Eqv_sx oa hu h.1 h.2.1 h.2.2, WFS_sx A oa hu h.2.1, WFS_sx B oa hu h.2.2⟩

theorem EW_sx' {A B : TS} {oa ob : Op} (e : oa = ob) (hu : usedOp oa = true) (h : EW A B) :
    EW (sx A oa) (sx B ob) := h.sx e hu

theorem EW.ite {A B A' B' : TS} {ca cb : Bool} (e : ca = cb) (h1 : EW A B) (h2 : EW A' B') :
    EW (if ca then A else A') (if cb then B else B') := by
  subst e; cases ca
  · exact h2
  · exact h1

theorem meName_congr {A B : TS} (h : Eqv A B) : meName A = meName B := by
  simp only [meName, h.nicks, h.me]

theorem sIsOn_congr {A B : TS} (h : Eqv A B) (c n : Bytes) : sIsOn A c n = sIsOn B c n := by
  simp only [sIsOn, h.has_nicks, h.has_chans, h.has_mem]

theorem sIsOn_congr' {A B : TS} (h : EW A B) (c n : Bytes) : sIsOn A c n = sIsOn B c n := sIsOn_congr h.1 c n

/-- guards and operation arguments agree across `Eqv` -/
local macro "gd " h:term : tactic =>
  `(tactic| first
    | rfl
    | focus (simp only [Eqv.has_chans (And.left $h), Eqv.has_nicks (And.left $h), Eqv.has_mem (And.left $h),
        Eqv.me (And.left $h), meName_congr (And.left $h)]; done))

local syntax "ew " term : tactic
local macro_rules
  | `(tactic| ew $h) => `(tactic| repeat' first
      | assumption
      | exact $h
      | (refine EW_sx' ?_ rfl ?_; gd $h)
      | (refine EW.ite ?_ ?_ ?_; gd $h)
      | refine EW.ite (sIsOn_congr' ?_ _ _) ?_ ?_
      | split)

section
variable {A B : TS} (h : EW A B) (l : Line)
include h

theorem EW_t_001 : EW (t_001 A l) (t_001 B l) := by simp only [t_001]; ew h
theorem EW_t_433 (nn : Bytes → Bytes) : EW (t_433 nn A l) (t_433 nn B l) := by simp only [t_433]; ew h
theorem EW_t_STNICK : EW (t_STNICK A l) (t_STNICK B l) := by simp only [t_STNICK]; ew h
theorem EW_t_JOIN : EW (t_JOIN A l) (t_JOIN B l) := by simp only [t_JOIN]; ew h
theorem EW_t_PART : EW (t_PART A l) (t_PART B l) := by simp only [t_PART]; ew h
theorem EW_t_KICK : EW (t_KICK A l) (t_KICK B l) := by simp only [t_KICK]; ew h
theorem EW_t_QUIT : EW (t_QUIT A l) (t_QUIT B l) := by simp only [t_QUIT]; ew h
theorem EW_t_MODE : EW (t_MODE A l) (t_MODE B l) := by simp only [t_MODE]; ew h
theorem EW_t_TOPIC : EW (t_TOPIC A l) (t_TOPIC B l) := by simp only [t_TOPIC]; ew h
theorem EW_t_311 : EW (t_311 A l) (t_311 B l) := by simp only [t_311]; ew h
theorem EW_t_324 : EW (t_324 A l) (t_324 B l) := by simp only [t_324]; ew h
theorem EW_t_332 : EW (t_332 A l) (t_332 B l) := by simp only [t_332]; ew h
theorem EW_t_352 : EW (t_352 A l) (t_352 B l) := by simp only [t_352]; ew h
theorem EW_t_671 : EW (t_671 A l) (t_671 B l) := by simp only [t_671]; ew h
theorem EW_tName (chn w : Bytes) : EW (tName chn A w) (tName chn B w) := by simp only [tName]; ew h
end

theorem EW_tNames {A B : TS} (h : EW A B) (chn : Bytes) (ws : List Bytes) : EW (tNames chn A ws) (tNames chn B ws) := by
  induction ws generalizing A B with
  | nil => exact h
  | cons w ws ih => exact ih (EW_tName h chn w)

theorem EW_t_353 {A B : TS} (h : EW A B) (l : Line) : EW (t_353 A l) (t_353 B l) := by
  simp only [t_353]
  split
  · refine EW.ite (by gd h) (EW_tNames h _ _) h
  · exact h

theorem EW_stTwin {ev : Bytes} {t : TS → Line → TS} (ht : stTwin ev = some t) {A B : TS} (h : EW A B) (l : Line) :
    EW (t A l) (t B l) := by
  unfold stTwin at ht
  by_cases c0 : (ev == lit "join") = true
  · rw [if_pos c0] at ht; cases ht; exact EW_t_JOIN h l
  rw [if_neg c0] at ht
  by_cases c1 : (ev == lit "kick") = true
  · rw [if_pos c1] at ht; cases ht; exact EW_t_KICK h l
  rw [if_neg c1] at ht
  by_cases c2 : (ev == lit "mode") = true
  · rw [if_pos c2] at ht; cases ht; exact EW_t_MODE h l
  rw [if_neg c2] at ht
  by_cases c3 : (ev == lit "nick") = true
  · rw [if_pos c3] at ht; cases ht; exact EW_t_STNICK h l
  rw [if_neg c3] at ht
  by_cases c4 : (ev == lit "part") = true
  · rw [if_pos c4] at ht; cases ht; exact EW_t_PART h l
  rw [if_neg c4] at ht
  by_cases c5 : (ev == lit "quit") = true
  · rw [if_pos c5] at ht; cases ht; exact EW_t_QUIT h l
  rw [if_neg c5] at ht
  by_cases c6 : (ev == lit "topic") = true
  · rw [if_pos c6] at ht; cases ht; exact EW_t_TOPIC h l
  rw [if_neg c6] at ht
  by_cases c7 : (ev == lit "311") = true
  · rw [if_pos c7] at ht; cases ht; exact EW_t_311 h l
  rw [if_neg c7] at ht
  by_cases c8 : (ev == lit "324") = true
  · rw [if_pos c8] at ht; cases ht; exact EW_t_324 h l
  rw [if_neg c8] at ht
  by_cases c9 : (ev == lit "332") = true
  · rw [if_pos c9] at ht; cases ht; exact EW_t_332 h l
  rw [if_neg c9] at ht
  by_cases c10 : (ev == lit "352") = true
  · rw [if_pos c10] at ht; cases ht; exact EW_t_352 h l
  rw [if_neg c10] at ht
  by_cases c11 : (ev == lit "353") = true
  · rw [if_pos c11] at ht; cases ht; exact EW_t_353 h l
  rw [if_neg c11] at ht
  by_cases c12 : (ev == lit "671") = true
  · rw [if_pos c12] at ht; cases ht; exact EW_t_671 h l
  rw [if_neg c12] at ht
  cases ht

theorem EW_tDispatch (ext : UnicodeExt) (nn : Bytes → Bytes) {A B : TS} (h : EW A B) (l : Line) :
    EW (tDispatch ext nn A l) (tDispatch ext nn B l) := by
  have h1 : EW (if toLower ext l.cmd == lit "001" then t_001 A l else if toLower ext l.cmd == lit "433" then t_433 nn A l else A)
      (if toLower ext l.cmd == lit "001" then t_001 B l else if toLower ext l.cmd == lit "433" then t_433 nn B l else B) :=
    EW.ite rfl (EW_t_001 h l) (EW.ite rfl (EW_t_433 h l nn) h)
  simp only [tDispatch]
  cases ht : stTwin (toLower ext l.cmd) with
  | none => exact h1
  | some t => exact EW_stTwin ht h1 l

theorem EW_tFeed (ext : UnicodeExt) (nn : Bytes → Bytes) {A B : TS} (h : EW A B) (ls : List Bytes) :
    EW (tFeed ext nn A ls) (tFeed ext nn B ls) := by
  induction ls generalizing A B with
  | nil => exact h
  | cons x ls ih =>
    simp only [tFeed]
    cases parseLine ext x with
    | none => exact ih h
    | some ln => exact ih (EW_tDispatch ext nn h ln)

theorem WFS_tDispatch (ext : UnicodeExt) (nn : Bytes → Bytes) (S : TS) (l : Line) (w : WFS S) :
    WFS (tDispatch ext nn S l) := (EW_tDispatch ext nn (EW.rfl' w) l).2.1

theorem Eqv_tDispatch (ext : UnicodeExt) (nn : Bytes → Bytes) {A B : TS} (l : Line)
    (h : Eqv A B) (wa : WFS A) (wb : WFS B) : Eqv (tDispatch ext nn A l) (tDispatch ext nn B l) :=
  (EW_tDispatch ext nn ⟨h, wa, wb⟩ l).1

theorem WFS_tFeed (ext : UnicodeExt) (nn : Bytes → Bytes) (S : TS) (ls : List Bytes) (w : WFS S) :
    WFS (tFeed ext nn S ls) := (EW_tFeed ext nn (EW.rfl' w) ls).2.1

theorem Eqv_tFeed (ext : UnicodeExt) (nn : Bytes → Bytes) {A B : TS} (ls : List Bytes)
    (h : Eqv A B) (wa : WFS A) (wb : WFS B) : Eqv (tFeed ext nn A ls) (tFeed ext nn B ls) :=
  (EW_tFeed ext nn ⟨h, wa, wb⟩ ls).1

end Proofs.C13
