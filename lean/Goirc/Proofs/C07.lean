import Goirc.Model.Life
/-!
# Helper lemmas for C07 (connection life cycle LTS: teardown progress and termination)
-/
namespace Proofs.C07
open Go.Life

/-- program counters at which a thread holds `conn.mu` -/
def holds : TPc → Bool
  | .cLocked | .xLocked _ | .xDrain _ => true
  | _ => false

structure Inv (s : St) : Prop where
  /-- whoever is at a "holds the mutex" program counter is the recorded holder (hence unique) -/
  holder : ∀ t, holds (s.thr t) = true → s.mu = some t
  /-- the wait group counts the goroutines that have not left -/
  wg : s.g.wg = (if s.g.recv = .gone then 0 else 1) + (if s.g.send = .gone then 0 else 1) +
         (if s.g.loop = .gone then 0 else 1) + (if s.g.ping = .gone ∨ s.g.ping = .absent then 0 else 1)
  /-- a drainer drains the current generation, with the flag clear, the socket closed, the context cancelled -/
  drain : ∀ t g, s.thr t = .xDrain g →
    g = s.cur ∧ s.connected = false ∧ s.g.sockClosed = true ∧ s.g.cancelled = true
  /-- all but finitely many threads are idle -/
  fin : ∃ N, ∀ t, N ≤ t → s.thr t = .idle

theorem inv_init : Inv {} := by
  constructor <;> simp [holds]

/-- a step changes the program counter of at most one thread -/
theorem step_thr' {s s' l} (hs : step s l = some s') : s'.thr = s.thr ∨ ∃ t p, s'.thr = setThr s t p := by
  cases l <;> simp only [step] at hs <;> (try split at hs) <;> (try split at hs) <;>
    simp at hs <;> subst hs <;>
    first | exact Or.inl rfl | exact Or.inr ⟨_, _, rfl⟩

theorem step_thr {s s' l} (hs : step s l = some s') : ∃ t, ∀ u, u ≠ t → s'.thr u = s.thr u := by
  rcases step_thr' hs with h | ⟨t, p, h⟩
  · exact ⟨0, fun u _ => by rw [h]⟩
  · exact ⟨t, fun u hu => by rw [h]; simp [setThr, hu]⟩

theorem step_fin {s s' l} (hs : step s l = some s') (h : ∃ N, ∀ t, N ≤ t → s.thr t = .idle) :
    ∃ N, ∀ t, N ≤ t → s'.thr t = .idle := by
  obtain ⟨N, hN⟩ := h
  obtain ⟨t0, ht0⟩ := step_thr hs
  refine ⟨max N (t0 + 1), fun t ht => ?_⟩
  have h1 : N ≤ t := Nat.le_trans (Nat.le_max_left _ _) ht
  have h2 : t0 + 1 ≤ t := Nat.le_trans (Nat.le_max_right _ _) ht
  have h3 : t ≠ t0 := by intro e; subst e; exact Nat.not_succ_le_self _ h2
  rw [ht0 t h3]
  exact hN t h1

theorem step_holder {s s' l} (hs : step s l = some s') (hh : ∀ t, holds (s.thr t) = true → s.mu = some t) :
    ∀ t, holds (s'.thr t) = true → s'.mu = some t := by
  cases l <;> simp only [step] at hs <;> (try split at hs) <;> (try split at hs) <;>
    simp at hs <;> subst hs <;> intro u hu <;> simp only [setThr] at hu ⊢ <;> grind [holds]

def WgOk (g : G) : Prop :=
  g.wg = (if g.recv = .gone then 0 else 1) + (if g.send = .gone then 0 else 1) +
         (if g.loop = .gone then 0 else 1) + (if g.ping = .gone ∨ g.ping = .absent then 0 else 1)

theorem step_wg {s s' l} (hs : step s l = some s') (hw : WgOk s.g) : WgOk s'.g := by
  unfold WgOk at hw ⊢
  cases l <;> simp only [step] at hs <;> (try split at hs) <;> (try split at hs) <;>
    simp at hs <;> subst hs <;> grind

def DrainOk (s : St) : Prop :=
  ∀ t g, s.thr t = .xDrain g →
    g = s.cur ∧ s.connected = false ∧ s.g.sockClosed = true ∧ s.g.cancelled = true

theorem step_drain {s s' l} (hs : step s l = some s') (hh : ∀ t, holds (s.thr t) = true → s.mu = some t)
    (hd : DrainOk s) : DrainOk s' := by
  unfold DrainOk at hd ⊢
  cases l <;> simp only [step] at hs <;> (try split at hs) <;> (try split at hs) <;>
    simp at hs <;> subst hs <;> intro u gu hu <;> simp only [setThr] at hu ⊢ <;> grind [holds]

theorem inv_step {s s' l} (h : Inv s) (hs : step s l = some s') : Inv s' :=
  ⟨step_holder hs h.holder, step_wg hs h.wg, step_drain hs h.holder h.drain, step_fin hs h.fin⟩

theorem reach_inv {s} (h : Reach s) : Inv s := by
  induction h with
  | init => exact inv_init
  | step _ hs ih => exact inv_step ih hs

/-! ## progress -/

theorem ex_step {s : St} (l : Label) (hl : isTeardown l = true) (h : (step s l).isSome = true) :
    ∃ l s', isTeardown l = true ∧ step s l = some s' := by
  cases hs : step s l with
  | none => simp [hs] at h
  | some s' => exact ⟨l, s', hl, hs⟩

theorem teardown_progress {s : St} (h : Reach s) (hd : Draining s) :
    ∃ l s', isTeardown l = true ∧ step s l = some s' := by
  have inv := reach_inv h
  obtain ⟨t, g, ht⟩ := hd
  obtain ⟨-, -, hsock, hcan⟩ := inv.drain t g ht
  obtain ⟨N, hN⟩ := inv.fin
  have hidle : s.thr N = .idle := hN N (Nat.le_refl _)
  have hw := inv.wg
  by_cases hwg : s.g.wg = 0
  · exact ex_step (.xFinish t) rfl (by simp [step, ht, hwg])
  · -- some goroutine has not left
    by_cases hr : s.g.recv = .gone
    · by_cases hsd : s.g.send = .gone
      · by_cases hl : s.g.loop = .gone
        · -- ping is live
          cases hp : s.g.ping with
          | absent => simp [hr, hsd, hl, hp] at hw; exact absurd hw hwg
          | gone => simp [hr, hsd, hl, hp] at hw; exact absurd hw hwg
          | idle f => exact ex_step (.pingExit) rfl (by simp [step, hp, hcan])
          | sending f =>
            by_cases ho : s.g.outQ < cap
            · exact ex_step (.pingPut) rfl (by simp [step, hp, ho])
            · have : s.g.outQ > 0 := by simp [cap] at ho; omega
              exact ex_step (.xDrainOut t) rfl (by simp [step, ht, this])
        · cases hp : s.g.loop with
          | gone => exact absurd hp hl
          | select => exact ex_step (.loopExit N) rfl (by simp [step, hp, hcan, hidle])
          | hRun f => exact ex_step (.hDone) rfl (by simp [step, hp])
          | hSend f =>
            by_cases ho : s.g.outQ < cap
            · exact ex_step (.hPut) rfl (by simp [step, hp, ho])
            · have : s.g.outQ > 0 := by simp [cap] at ho; omega
              exact ex_step (.xDrainOut t) rfl (by simp [step, ht, this])
      · cases hp : s.g.send with
        | gone => exact absurd hp hsd
        | idle => exact ex_step (.sendCancel N) rfl (by simp [step, hp, hcan, hidle])
        | writing => exact ex_step (.sendFail N) rfl (by simp [step, hp, hsock, hidle])
    · cases hp : s.g.recv with
      | gone => exact absurd hp hr
      | reading =>
        by_cases ha : s.g.avail = 0
        · exact ex_step (.recvExit N) rfl (by simp [step, hp, ha, hsock, hidle])
        · exact ex_step (.recvTake) rfl (by simp [step, hp]; omega)
      | holding =>
        by_cases ho : s.g.inQ < cap
        · exact ex_step (.recvPut) rfl (by simp [step, hp, ho])
        · have : s.g.inQ > 0 := by simp [cap] at ho; omega
          exact ex_step (.xDrainIn t) rfl (by simp [step, ht, this])

/-! ## termination -/

/-- lines not yet consumed: unread, held by recv, or queued in conn.in -/
def mA (g : G) : Nat := g.avail + g.inQ + (if g.recv = .holding then 1 else 0)

def wRecv : RecvPc → Nat | .gone => 0 | .reading => 1 | .holding => 2
def wSend : SendPc → Nat | .gone => 0 | .writing => 1 | .idle => 2
def wLoop : LoopPc → Nat | .gone => 0 | .select => 1 | .hRun f => 3 * f + 2 | .hSend f => 3 * f + 4
def wPing : PingPc → Nat | .gone => 0 | .absent => 0 | .idle f => 3 * f + 1 | .sending f => 3 * f + 3

/-- remaining work of the goroutines once the number of unconsumed lines is fixed -/
def mB (g : G) : Nat := 2 * g.avail + wRecv g.recv + wSend g.send + wLoop g.loop + wPing g.ping + g.outQ

def mu (s : St) : Nat × Nat := (mA s.g, mB s.g)

/-- every teardown step other than the final `xFinish`, taken while the socket is closed, lowers the measure -/
theorem step_decreases {s s' l} (hs : step s l = some s') (hl : isTeardown l = true) (hf : ∀ t, l ≠ .xFinish t)
    (hsock : s.g.sockClosed = true) : Prod.Lex (· < ·) (· < ·) (mu s') (mu s) := by
  have key : mA s'.g < mA s.g ∨ (mA s'.g = mA s.g ∧ mB s'.g < mB s.g) := by
    cases l <;> simp [isTeardown] at hl <;> simp only [step] at hs <;> (try split at hs) <;> (try split at hs) <;>
      simp at hs <;> (try subst hs) <;> simp [mA, mB, wRecv, wSend, wLoop, wPing, *] <;>
      first | omega | exact (hf _ rfl).elim | simp_all
  rcases key with h | ⟨h1, h2⟩
  · exact Prod.Lex.left _ _ h
  · unfold mu; rw [h1]; exact Prod.Lex.right _ h2

/-- after `xFinish` nobody is draining any more (the drainer held the mutex, so it was the only one) -/
theorem finish_not_draining {s s' t} (inv : Inv s) (hs : step s (.xFinish t) = some s') : ¬ Draining s' := by
  intro ⟨u, g, hu⟩
  simp only [step] at hs
  split at hs
  · rename_i g0 ht
    split at hs
    · simp at hs; subst hs
      have hmt : s.mu = some t := inv.holder t (by simp [ht, holds])
      simp only [setThr] at hu
      by_cases e : u = t
      · simp [e] at hu
      · simp [e] at hu
        have hmu : s.mu = some u := inv.holder u (by simp [hu, holds])
        rw [hmt] at hmu; simp at hmu; exact e hmu.symm
    · simp at hs
  · simp at hs

/-- termination, for any relation contained in "teardown step from a reachable draining state" -/
theorem acc_of (R : St → St → Prop)
    (hR : ∀ s' s, R s' s → Reach s ∧ Draining s ∧ ∃ l, isTeardown l = true ∧ step s l = some s') :
    ∀ s, Acc R s := by
  have wf : WellFounded (InvImage (Prod.Lex (· < ·) (· < ·)) mu) :=
    InvImage.wf mu (Prod.lex Nat.lt_wfRel Nat.lt_wfRel).wf
  intro s
  induction s using wf.induction with
  | _ s ih =>
    constructor
    intro s' hT
    obtain ⟨hr, hd, l, hl, hs⟩ := hR s' s hT
    have inv := reach_inv hr
    by_cases hf : ∃ t, l = .xFinish t
    · obtain ⟨t, rfl⟩ := hf
      constructor
      intro s'' hT'
      exact absurd (hR s'' s' hT').2.1 (finish_not_draining inv hs)
    · obtain ⟨t, g, ht⟩ := hd
      have hsock := (inv.drain t g ht).2.2.1
      exact ih s' (step_decreases hs hl (fun t e => hf ⟨t, e⟩) hsock)

/-! ## the remaining C07 properties -/

theorem no_goroutine_left {s s' : St} (h : Reach s) {t : Tid} {g : Gen} (ht : s.thr t = .xDrain g)
    (hs : step s (.xFinish t) = some s') :
    s.g.wg = 0 ∧ s.g.recv = .gone ∧ s.g.send = .gone ∧ s.g.loop = .gone ∧ (s.g.ping = .gone ∨ s.g.ping = .absent) := by
  have hw := (reach_inv h).wg
  have h0 : s.g.wg = 0 := by
    simp only [step, ht] at hs
    split at hs
    · assumption
    · simp at hs
  rw [h0] at hw
  refine ⟨h0, ?_⟩
  by_cases h1 : s.g.recv = .gone <;> by_cases h2 : s.g.send = .gone <;> by_cases h3 : s.g.loop = .gone <;>
    by_cases h4 : (s.g.ping = .gone ∨ s.g.ping = .absent) <;> simp [h1, h2, h3, h4] at hw ⊢

theorem reconnect_fresh {s s' : St} {t : Tid} {g' : Gen} (ht : s.thr t = .xLocked (some g')) (hne : g' ≠ s.cur)
    (hs : step s (.xTest t) = some s') :
    s'.connected = s.connected ∧ s'.cur = s.cur ∧ s'.g.sockClosed = s.g.sockClosed ∧ s'.g.cancelled = s.g.cancelled ∧
    s'.g.wg = s.g.wg ∧ s'.g.inQ = s.g.inQ ∧ s'.g.outQ = s.g.outQ ∧
    s'.g.recv = s.g.recv ∧ s'.g.send = s.g.send ∧ s'.g.loop = s.g.loop ∧ s'.g.ping = s.g.ping := by
  simp only [step, ht] at hs
  split at hs
  · simp at hs; subst hs; simp
  · rename_i hn
    exact absurd (Or.inr ⟨g', rfl, hne⟩) hn

theorem can_reconnect {s : St} {t : Tid} {ping : Option Nat} (ht : s.thr t = .cLocked) (hc : s.connected = false) :
    ∃ s', step s (.cSucceed t ping) = some s' ∧ s'.cur = s.cur + 1 ∧ s'.connected = true ∧ s'.g.inQ = 0 ∧ s'.g.outQ = 0 ∧
      s'.g.recv = .reading ∧ s'.g.send = .idle ∧ s'.g.loop = .select ∧ s'.g.sockClosed = false ∧ s'.g.cancelled = false := by
  cases hs : step s (.cSucceed t ping) with
  | none => simp [step, ht, hc] at hs
  | some s' =>
    simp only [step, ht, hc, and_self, if_true, Option.some.injEq] at hs
    subst hs
    simp

end Proofs.C07
