import Goirc.Spec.Register
import Goirc.Proofs.Bytes
import Goirc.Proofs.Commands
/-! Helper lemmas for C18 (registration order, dial address, PONG). -/
namespace Go

/-! ### `lastIndexByte` -/

theorem lastIndexByte_go_append (c : UInt8) (s t : Bytes) (i : Nat) (acc : Option Nat) :
    lastIndexByte.go c (s ++ t) i acc = lastIndexByte.go c t (i + s.length) (lastIndexByte.go c s i acc) := by
  induction s generalizing i acc with
  | nil => simp [lastIndexByte.go]
  | cons x s ih =>
    simp only [List.cons_append, lastIndexByte.go, ih, List.length_cons]
    congr 1; omega

theorem lastIndexByte_go_not_mem (c : UInt8) (s : Bytes) (i : Nat) (acc : Option Nat) (h : c ∉ s) :
    lastIndexByte.go c s i acc = acc := by
  induction s generalizing i acc with
  | nil => simp [lastIndexByte.go]
  | cons x s ih =>
    simp only [List.mem_cons, not_or] at h
    have hx : (x == c) = false := by
      cases hxc : x == c with
      | false => rfl
      | true => exact absurd (by simpa using hxc : x = c).symm h.1
    simp [lastIndexByte.go, hx, ih _ _ h.2]

theorem lastIndexByte_go_bound (c : UInt8) (s : Bytes) (i : Nat) (acc : Option Nat) (j : Nat)
    (h : lastIndexByte.go c s i acc = some j) : acc = some j ∨ (i ≤ j ∧ j < i + s.length) := by
  induction s generalizing i acc with
  | nil => simp [lastIndexByte.go] at h; exact Or.inl h
  | cons x s ih =>
    simp only [lastIndexByte.go] at h
    rcases ih _ _ h with h' | h'
    · split at h'
      · simp only [Option.some.injEq] at h'; subst h'
        right; simp
      · exact Or.inl h'
    · right; simp only [List.length_cons]; omega

theorem lastIndexByte_not_mem (c : UInt8) (s : Bytes) (h : c ∉ s) : lastIndexByte s c = none :=
  lastIndexByte_go_not_mem c s 0 none h

theorem lastIndexByte_lt (c : UInt8) (s : Bytes) (j : Nat) (h : lastIndexByte s c = some j) : j < s.length := by
  rcases lastIndexByte_go_bound c s 0 none j h with h' | h'
  · cases h'
  · omega

/-- the last `c` of `s ++ c :: t`, when `t` has none, is the one shown -/
theorem lastIndexByte_append_cons (c : UInt8) (s t : Bytes) (h : c ∉ t) :
    lastIndexByte (s ++ c :: t) c = some s.length := by
  unfold lastIndexByte
  rw [lastIndexByte_go_append]
  simp [lastIndexByte.go, lastIndexByte_go_not_mem c t _ _ h]

theorem lastIndexByte_append_not_mem (c : UInt8) (s t : Bytes) (h : c ∉ t) :
    lastIndexByte (s ++ t) c = lastIndexByte s c := by
  unfold lastIndexByte
  rw [lastIndexByte_go_append, lastIndexByte_go_not_mem c t _ _ h]

/-! ### `cutNewLines` on clean strings -/

theorem beforeByte_of_not_mem (c : UInt8) (s : Bytes) (h : c ∉ s) : beforeByte c s = s := by
  have := beforeByte_append_of_not_mem c s [] h
  simpa [beforeByte] using this

theorem cutNewLines_clean (s : Bytes) (h1 : CR ∉ s) (h2 : LF ∉ s) : cutNewLines s = s := by
  unfold cutNewLines
  rw [beforeByte_of_not_mem CR s h1, beforeByte_of_not_mem LF s h2]

theorem cutNewLines_append_clean (a b : Bytes) (ha : CR ∉ a ∧ LF ∉ a) (hb : CR ∉ b ∧ LF ∉ b) :
    cutNewLines (a ++ b) = a ++ b :=
  cutNewLines_clean _ (by simp [ha.1, hb.1]) (by simp [ha.2, hb.2])

/-! ### what the registration commands put on the queue -/

theorem exec_pass (ext : UnicodeExt) (cfg : CmdCfg) (p : Bytes) (h : CR ∉ p ∧ LF ∉ p) :
    exec ext cfg (.pass p) = [lit "PASS " ++ p] := by
  show [cutNewLines (lit "PASS " ++ p)] = _
  rw [cutNewLines_append_clean _ _ (by decide) h]

theorem exec_nick (ext : UnicodeExt) (cfg : CmdCfg) (n : Bytes) (h : CR ∉ n ∧ LF ∉ n) :
    exec ext cfg (.nick n) = [lit "NICK " ++ n] := by
  show [cutNewLines (lit "NICK " ++ n)] = _
  rw [cutNewLines_append_clean _ _ (by decide) h]

theorem exec_user (ext : UnicodeExt) (cfg : CmdCfg) (i n : Bytes) (hi : CR ∉ i ∧ LF ∉ i) (hn : CR ∉ n ∧ LF ∉ n) :
    exec ext cfg (.user i n) = [lit "USER " ++ i ++ lit " 12 * :" ++ n] := by
  show [cutNewLines (lit "USER " ++ i ++ lit " 12 * :" ++ n)] = _
  have h1 : CR ∉ lit "USER " ++ i ∧ LF ∉ lit "USER " ++ i := by
    have : CR ∉ lit "USER " ∧ LF ∉ lit "USER " := by decide
    exact ⟨by rw [List.mem_append, not_or]; exact ⟨this.1, hi.1⟩, by rw [List.mem_append, not_or]; exact ⟨this.2, hi.2⟩⟩
  have h2 : CR ∉ lit "USER " ++ i ++ lit " 12 * :" ∧ LF ∉ lit "USER " ++ i ++ lit " 12 * :" := by
    have : CR ∉ lit " 12 * :" ∧ LF ∉ lit " 12 * :" := by decide
    exact ⟨by rw [List.mem_append, not_or]; exact ⟨h1.1, this.1⟩, by rw [List.mem_append, not_or]; exact ⟨h1.2, this.2⟩⟩
  rw [cutNewLines_append_clean _ _ h2 hn]

theorem exec_cap_ls (ext : UnicodeExt) (cfg : CmdCfg) : exec ext cfg (.cap (lit "LS") []) = [lit "CAP LS"] := by
  show [cutNewLines (lit "CAP LS")] = _
  have : cutNewLines (lit "CAP LS") = lit "CAP LS" := by decide
  rw [this]

/-! ### parsing `VERB :token` -/

/-- parsing `VERB :tok` for a four-letter upper-case verb that is not PRIVMSG/NOTICE: the token,
whatever bytes it has, comes back as the only argument -/
theorem parse_verb4 (ext : UnicodeExt) (a b c d : UInt8) (tok : Bytes)
    (hv : toUpper ext [a,b,c,d] = [a,b,c,d]) (hs : fields [a,b,c,d] = [[a,b,c,d]])
    (ha : a ≠ 64 ∧ a ≠ 58) (hn : a ≠ 32 ∧ b ≠ 32 ∧ c ≠ 32 ∧ d ≠ 32)
    (hc : ([a,b,c,d] == PRIVMSG || [a,b,c,d] == NOTICE) = false) :
    parseLine ext (a :: b :: c :: d :: 32 :: 58 :: tok) =
      some { raw := a :: b :: c :: d :: 32 :: 58 :: tok, cmd := [a,b,c,d], args := [tok] } := by
  have hcut : cut (a :: b :: c :: d :: 32 :: 58 :: tok) [32,58] = ([a,b,c,d], some tok) := by
    simp [cut, index, indexFrom, hasPrefix, hn]
  have h64 : a ≠ 64 := ha.1
  have h58 : a ≠ 58 := ha.2
  unfold parseLine
  split
  · rename_i h; simp at h
  · rename_i h; simp at h; exact absurd h.1 h64
  · unfold parseSource
    split
    · rename_i h; simp at h
    · rename_i h; simp at h; exact absurd h.1 h58
    · simp only [parseRest, restArgs, hcut, hs, List.singleton_append, hv]
      simp [ctcpRewrite, ctcpCmdArgs, hc]

theorem parse_ping (ext : UnicodeExt) (tok : Bytes) :
    parseLine ext (lit "PING :" ++ tok) =
      some { raw := lit "PING :" ++ tok, cmd := lit "PING", args := [tok] } :=
  parse_verb4 ext 80 73 78 71 tok rfl (by decide) (by decide) (by decide) (by decide)

theorem parse_pong (ext : UnicodeExt) (tok : Bytes) :
    parseLine ext (lit "PONG :" ++ tok) =
      some { raw := lit "PONG :" ++ tok, cmd := lit "PONG", args := [tok] } :=
  parse_verb4 ext 80 79 78 71 tok rfl (by decide) (by decide) (by decide) (by decide)

open Go.Client in
/-- the internal handler set answers a `PING` event whose first argument is `tok` with `PONG :tok` -/
theorem dispatch_ping (c : Client) (raw tok : Bytes) (h : CR ∉ tok ∧ LF ∉ tok) :
    (dispatchInternal c { raw := raw, cmd := lit "PING", args := [tok] }).out = [lit "PONG :" ++ tok] := by
  have hev : toLower c.ext (lit "PING") = lit "ping" := rfl
  have hi : intHandler (lit "ping") = some h_PING := rfl
  have hs : stHandler (lit "ping") = none := rfl
  have hclean : cutNewLines (lit "PONG :" ++ tok) = lit "PONG :" ++ tok :=
    cutNewLines_append_clean _ _ (by decide) h
  have hraw : V.PONG ++ [SP, 58] ++ tok = lit "PONG :" ++ tok := rfl
  simp only [dispatchInternal, hev, hi, hs]
  split
  · rename_i h; simp at h
  · simp [h_PING, arg, Client.emit, exec, rawArgs, hraw, hclean]

end Go
