import Goirc.Proofs.ParseRender
import Goirc.Proofs.Commands
import Goirc.Proofs.Flood
import Goirc.Proofs.Split
import Goirc.Spec.Flood
import Goirc.Props.C10
/-! Helper lemmas for Props/Extra1 (framing, window predicate, command lines). -/
namespace Go.Extra
open Go

/-! ## framing -/

theorem dropWhile_self {α} (p : α → Bool) (l : List α) (h : ∀ x ∈ l, p x = false) : l.dropWhile p = l := by
  cases l with
  | nil => rfl
  | cons x l => simp [List.dropWhile, h x (by simp)]

theorem trimCRLF_line (l : Bytes) (h13 : (13 : UInt8) ∉ l) (h10 : (10 : UInt8) ∉ l) :
    trimCRLF (l ++ [13, 10]) = l := by
  have hp : ∀ x ∈ l, (x == 13 || x == 10) = false := by
    intro x hx
    have a : x ≠ 13 := fun e => h13 (e ▸ hx)
    have b : x ≠ 10 := fun e => h10 (e ▸ hx)
    simp [a, b]
  unfold trimCRLF
  cases l with
  | nil => simp [List.dropWhile]
  | cons x l =>
    have hx := hp x (by simp)
    have h1 : (x :: l ++ [13, 10]).dropWhile (fun b => b == 13 || b == 10) = x :: l ++ [13, 10] := by
      simp [hx]
    rw [h1]
    have h2 : (x :: l ++ [13, 10]).reverse = 10 :: 13 :: (x :: l).reverse := by simp
    rw [h2]
    have h3 : (10 :: 13 :: (x :: l).reverse).dropWhile (fun b => b == 13 || b == 10) = (x :: l).reverse := by
      simp only [List.dropWhile, beq_self_eq_true, Bool.or_true, Bool.true_or]
      apply dropWhile_self
      intro y hy
      exact hp y (List.mem_reverse.1 hy)
    rw [h3, List.reverse_reverse]

theorem recvFramesAux_line (acc l rest : Bytes) (h10 : (10 : UInt8) ∉ l) :
    recvFramesAux acc (l ++ 13 :: 10 :: rest) = recvTrim (acc.reverse ++ l ++ [13, 10]) :: recvFramesAux [] rest := by
  induction l generalizing acc with
  | nil =>
    rw [List.nil_append, recvFramesAux.eq_3 _ _ _ (by decide), recvFramesAux.eq_2]
    simp
  | cons x l ih =>
    simp only [List.mem_cons, not_or] at h10
    have hx : x ≠ 10 := fun e => h10.1 e.symm
    rw [List.cons_append, recvFramesAux.eq_3 _ _ _ (fun e => hx e), ih _ h10.2]
    simp

theorem recvFrames_lines (ls : List Bytes) (h : ∀ l ∈ ls, (13 : UInt8) ∉ l ∧ (10 : UInt8) ∉ l) :
    recvFrames (ls.flatMap fun l => l ++ [13, 10]) = ls := by
  unfold recvFrames
  induction ls with
  | nil => simp [recvFramesAux]
  | cons l ls ih =>
    have hl := h l (by simp)
    have := recvFramesAux_line [] l (ls.flatMap fun l => l ++ [13, 10]) hl.2
    simp only [List.flatMap_cons, List.append_assoc, List.cons_append, List.nil_append, List.reverse_nil] at this ⊢
    rw [this, ih (fun l' hl' => h l' (by simp [hl']))]
    have ht := trimCRLF_line l hl.1 hl.2
    simp only [recvTrim]
    rw [ht]

/-! ## the executable window predicate -/
open Go.Flood

theorem chargeOf_eq (c : Nat) : Spec.Flood.chargeOf c = charge c := rfl

theorem totalCharge_snoc (es : List Ev) (e : Ev) : totalCharge (es ++ [e]) = totalCharge es + charge e.chars := by
  simp [totalCharge]

theorem lastW_snoc (pw : Int) (es : List Ev) (e : Ev) : lastW pw (es ++ [e]) = e.w := by
  induction es generalizing pw with
  | nil => rfl
  | cons x es ih => simp [lastW, ih]

theorem headCharge_append_cons (pre post : List Ev) (e : Ev) :
    headCharge (pre ++ e :: post) = headCharge (pre ++ [e]) := by
  cases pre <;> rfl

/-- `go` checks the window bound of every run `e1 :: pre ++ [e]` as `e` moves along `post` -/
theorem go_ok (s : St) (pw : Int) (hI : Inv s pw) (e1 : Ev) (pre post : List Ev) (x : Int)
    (hx : x = headCharge (pre ++ post))
    (hv : Valid s pw (e1 :: (pre ++ post))) :
    Spec.Flood.windowFrom.go e1.w (Spec.Flood.chargeOf e1.chars + x) (totalCharge (e1 :: pre))
      (post.map fun e => (e.chars, e.w)) = true := by
  induction post generalizing pre with
  | nil => simp [Spec.Flood.windowFrom.go]
  | cons e post ih =>
    have hv' : Valid s pw ((e1 :: (pre ++ [e])) ++ post) := by
      simpa [List.append_assoc] using hv
    have hpre := ((valid_append s pw _ _).1 hv').1
    have hb := Props.C10.window_bound_from s pw hI e1 (pre ++ [e]) hpre
    have htc : totalCharge (e1 :: (pre ++ [e])) = totalCharge (e1 :: pre) + charge e.chars := by
      rw [← List.cons_append, totalCharge_snoc]
    rw [lastW_snoc, htc, ← headCharge_append_cons pre post e, ← hx] at hb
    rw [List.map_cons, Spec.Flood.windowFrom.go.eq_2, Bool.and_eq_true]
    refine ⟨?_, ?_⟩
    · simp only [chargeOf_eq]
      simp only [second] at hb
      apply decide_eq_true
      omega
    · have := ih (pre ++ [e]) (by simpa [List.append_assoc] using hx) (by simpa [List.append_assoc] using hv)
      rw [htc] at this
      exact this

theorem windowFrom_ok (s : St) (pw : Int) (hI : Inv s pw) (es : List Ev) (hv : Valid s pw es) :
    Spec.Flood.windowFrom (es.map fun e => (e.chars, e.w)) = true := by
  cases es with
  | nil => rfl
  | cons e1 rest =>
    have := go_ok s pw hI e1 [] rest (headCharge rest) rfl hv
    have htc : totalCharge [e1] = Spec.Flood.chargeOf e1.chars := by simp [totalCharge, chargeOf_eq]
    rw [htc] at this
    cases rest with
    | nil => rfl
    | cons e2 rest => exact this

theorem windowOk_of_inv (s : St) (pw : Int) (hI : Inv s pw) (es : List Ev) (hv : Valid s pw es) :
    Spec.Flood.windowOk (es.map fun e => (e.chars, e.w)) = true := by
  induction es generalizing s pw with
  | nil => rfl
  | cons e es ih =>
    have h1 := windowFrom_ok s pw hI (e :: es) hv
    obtain ⟨a, b, c, d⟩ := hv
    have h2 := ih (next s e) e.w (inv_next s pw e hI a b c) d
    simp only [List.map_cons] at h1 ⊢
    simp only [Spec.Flood.windowOk, Bool.and_eq_true]
    exact ⟨h1, h2⟩

/-! ## command lines -/

theorem cutNewLines_of_clean (s : Bytes) (h : CR ∉ s ∧ LF ∉ s) : cutNewLines s = s := by
  have h1 := beforeByte_append_of_not_mem CR s [] h.1
  have h2 := beforeByte_append_of_not_mem LF s [] h.2
  simp only [List.append_nil, beforeByte] at h1 h2
  unfold cutNewLines
  rw [h1, h2]

theorem splitLoop_bytes (msg : Bytes) (n : Nat) (h : 13 ≤ n) :
    ∀ p ∈ splitLoop msg n h, ∀ b ∈ p, b ∈ msg ∨ b = 46 := by
  fun_induction splitLoop msg n h with
  | case1 msg hl ih =>
    intro p hp b hb
    simp only [List.mem_cons] at hp
    rcases hp with rfl | hp
    · simp only [List.mem_append, dots] at hb
      rcases hb with hb | hb
      · exact Or.inl (List.mem_of_mem_take hb)
      · right; simpa using hb
    · rcases ih p hp b hb with h | h
      · exact Or.inl (List.mem_of_mem_drop h)
      · exact Or.inr h
  | case2 msg hl => intro p hp b hb; simp at hp; subst hp; exact Or.inl hb

theorem splitMessage_clean (m : Bytes) (n : Int) (hm : CR ∉ m ∧ LF ∉ m) :
    ∀ p ∈ splitMessage m n, CR ∉ p ∧ LF ∉ p := by
  intro p hp
  have hb : ∀ b ∈ p, b ∈ m ∨ b = 46 := by
    unfold splitMessage at hp
    split at hp
    · exact splitLoop_bytes _ _ _ p hp
    · exact splitLoop_bytes _ _ _ p hp
  constructor
  · intro hc
    rcases hb _ hc with h | h
    · exact hm.1 h
    · revert h; decide
  · intro hc
    rcases hb _ hc with h | h
    · exact hm.2 h
    · revert h; decide

theorem clean_append {a b : Bytes} (ha : CR ∉ a ∧ LF ∉ a) (hb : CR ∉ b ∧ LF ∉ b) :
    CR ∉ a ++ b ∧ LF ∉ a ++ b := by
  simp [ha.1, ha.2, hb.1, hb.2]

theorem map_cutNewLines_clean (f : Bytes → Bytes) (ps : List Bytes)
    (h : ∀ p ∈ ps, CR ∉ f p ∧ LF ∉ f p) : (ps.map f).map cutNewLines = ps.map f := by
  rw [List.map_map]
  apply List.map_congr_left
  intro p hp
  exact cutNewLines_of_clean _ (h p hp)

end Go.Extra
