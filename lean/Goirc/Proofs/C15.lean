import Goirc.Model.Copy
import Goirc.Proofs.AList
/-! Helper lemmas for C15 (each handler invocation gets its own copy of the line). -/
namespace Go.Copy

/-- `omega` does not look through the abbreviation `Ref := Nat` -/
local macro "omegaR" : tactic => `(tactic| ((try dsimp only at *); (try unfold Ref at *); omega))

/-- every stored reference is below the allocation pointer -/
def Bounded (h : Heap) : Prop := ∀ r o, (r, o) ∈ h.objs → r < h.next

theorem lookup_append_single (m : List (Ref × Obj)) (k : Ref) (o : Obj) (r : Ref) :
    AL.lookup (m ++ [(k, o)]) r =
      match AL.lookup m r with
      | some v => some v
      | none => if k = r then some o else none := by
  induction m with
  | nil => simp [AL.lookup_cons]
  | cons e m ih =>
    obtain ⟨a, b⟩ := e
    simp only [List.cons_append, AL.lookup_cons]
    split
    · rfl
    · exact ih

theorem read_none_of_bounded {h : Heap} (hb : Bounded h) {r : Ref} (hr : h.next ≤ r) : read h r = none := by
  unfold read
  rw [AL.lookup_eq_none_iff]
  intro hmem
  obtain ⟨e, he, rfl⟩ := List.mem_map.1 hmem
  have := hb e.1 e.2 he
  omegaR

theorem read_alloc {h : Heap} (hb : Bounded h) (o : Obj) (r : Ref) :
    read (alloc h o).1 r = if r = h.next then some o else read h r := by
  show AL.lookup (h.objs ++ [(h.next, o)]) r = _
  rw [lookup_append_single]
  by_cases hr : r = h.next
  · subst hr
    have := read_none_of_bounded hb (Nat.le_refl h.next)
    unfold read at this
    simp [this]
  · have hr' : ¬ h.next = r := fun e => hr e.symm
    unfold read
    cases AL.lookup h.objs r <;> simp [hr, hr']

theorem bounded_alloc {h : Heap} (hb : Bounded h) (o : Obj) : Bounded (alloc h o).1 := by
  intro r o' hm
  have hm : (r, o') ∈ h.objs ++ [(h.next, o)] := hm
  show r < h.next + 1
  rcases List.mem_append.1 hm with hm | hm
  · have := hb r o' hm; omegaR
  · simp only [List.mem_singleton, Prod.mk.injEq] at hm
    omegaR

@[simp] theorem alloc_next (h : Heap) (o : Obj) : (alloc h o).1.next = h.next + 1 := rfl
@[simp] theorem alloc_ref (h : Heap) (o : Obj) : (alloc h o).2 = h.next := rfl

theorem WF.bounded {h : Heap} {l : LineV} (hw : WF h l) : Bounded h := hw.2.2.2

/-- what one `Line.Copy()` does to the heap and what it returns -/
theorem copyLine_spec (h : Heap) (l : LineV) (hw : WF h l) :
    WF (copyLine h l).1 l ∧
    h.next < (copyLine h l).1.next ∧
    (∀ r, r < h.next → read (copyLine h l).1 r = read h r) ∧
    (∀ r ∈ refs (copyLine h l).2, h.next ≤ r ∧ r < (copyLine h l).1.next) ∧
    (refs (copyLine h l).2).Nodup ∧
    contents (copyLine h l).1 (copyLine h l).2 = contents h l := by
  obtain ⟨⟨es, hes⟩, hlt, htags, hb⟩ := hw
  have hb : Bounded h := hb
  obtain ⟨scalars, args, tags⟩ := l
  cases tags with
  | none =>
    have hc : copyLine h ⟨scalars, args, none⟩ =
        ((alloc h (.arr es)).1, ⟨scalars, h.next, none⟩) := by
      simp only [copyLine, hes]; rfl
    rw [hc]
    have hb1 := bounded_alloc hb (.arr es)
    have hpres : ∀ r, r < h.next → read (alloc h (.arr es)).1 r = read h r := by
      intro r hr
      rw [read_alloc hb]
      have : r ≠ h.next := by omegaR
      simp [this]
    refine ⟨⟨⟨es, ?_⟩, ?_, ?_, hb1⟩, ?_, hpres, ?_, ?_, ?_⟩
    · rw [hpres _ hlt]; exact hes
    · simp only [alloc_next]; omegaR
    · intro t ht; cases ht
    · simp
    · intro r hr
      simp only [refs, Option.toList_none, List.mem_singleton] at hr
      subst hr
      simp
    · simp [refs]
    · simp only [contents, Option.bind_none]
      rw [read_alloc hb]
      simp [hes]
  | some t =>
    obtain ⟨⟨m, hm⟩, htlt, htne⟩ := htags t rfl
    have hc : copyLine h ⟨scalars, args, some t⟩ =
        ((alloc (alloc h (.arr es)).1 (.map m)).1, ⟨scalars, h.next, some (h.next + 1)⟩) := by
      simp only [copyLine, hes, hm]; rfl
    rw [hc]
    have hb1 := bounded_alloc hb (.arr es)
    have hb2 := bounded_alloc hb1 (.map m)
    have hpres : ∀ r, r < h.next → read (alloc (alloc h (.arr es)).1 (.map m)).1 r = read h r := by
      intro r hr
      rw [read_alloc hb1, read_alloc hb]
      have h1 : r ≠ h.next := by omegaR
      have h2 : r ≠ h.next + 1 := by omegaR
      simp [h1, h2]
    refine ⟨⟨⟨es, ?_⟩, ?_, ?_, hb2⟩, ?_, hpres, ?_, ?_, ?_⟩
    · rw [hpres _ hlt]; exact hes
    · simp only [alloc_next]; omegaR
    · intro t' ht'
      cases ht'
      refine ⟨⟨m, ?_⟩, ?_, htne⟩
      · rw [hpres _ htlt]; exact hm
      · simp only [alloc_next]; omegaR
    · simp only [alloc_next]; omegaR
    · intro r hr
      simp only [refs, Option.toList_some, List.mem_cons, List.not_mem_nil, or_false] at hr
      simp only [alloc_next]
      omegaR
    · simp [refs]
    · simp only [contents, Option.bind_some]
      rw [read_alloc hb1, read_alloc hb1, read_alloc hb]
      simp [hes, hm]

/-- the facts about the whole loop -/
theorem dispatchCopies_spec (n : Nat) : ∀ (h : Heap) (l : LineV), WF h l →
    WF (dispatchCopies h l n).1 l ∧
    h.next ≤ (dispatchCopies h l n).1.next ∧
    (∀ r, r < h.next → read (dispatchCopies h l n).1 r = read h r) ∧
    (∀ c ∈ (dispatchCopies h l n).2, ∀ r ∈ refs c, h.next ≤ r ∧ r < (dispatchCopies h l n).1.next) ∧
    ((dispatchCopies h l n).2.flatMap refs).Nodup ∧
    (∀ c ∈ (dispatchCopies h l n).2, contents (dispatchCopies h l n).1 c = contents h l) := by
  induction n with
  | zero =>
    intro h l hw
    refine ⟨hw, Nat.le_refl _, fun _ _ => rfl, ?_, ?_, ?_⟩ <;> simp [dispatchCopies]
  | succ n ih =>
    intro h l hw
    obtain ⟨hw1, hlt1, hpres1, hrefs1, hnd1, hcont1⟩ := copyLine_spec h l hw
    obtain ⟨hw2, hle2, hpres2, hrefs2, hnd2, hcont2⟩ := ih (copyLine h l).1 l hw1
    have hd : dispatchCopies h l (n + 1) =
        ((dispatchCopies (copyLine h l).1 l n).1,
          (copyLine h l).2 :: (dispatchCopies (copyLine h l).1 l n).2) := rfl
    rw [hd]
    refine ⟨hw2, by omegaR, ?_, ?_, ?_, ?_⟩
    · intro r hr
      rw [hpres2 r (by omegaR), hpres1 r hr]
    · intro c hc r hr
      rcases List.mem_cons.1 hc with hc | hc
      · subst hc
        have := hrefs1 r hr
        omegaR
      · have := hrefs2 c hc r hr
        omegaR
    · simp only [List.flatMap_cons]
      rw [List.nodup_append]
      refine ⟨hnd1, hnd2, ?_⟩
      intro a ha b hb hab
      subst hab
      obtain ⟨c, hc, hac⟩ := List.mem_flatMap.1 hb
      have h1 := hrefs1 a ha
      have h2 := hrefs2 c hc a hac
      omegaR
    · intro c hc
      rcases List.mem_cons.1 hc with hc | hc
      · subst hc
        rw [← hcont1]
        have hargs := hrefs1 (copyLine h l).2.args (by simp [refs])
        simp only [contents]
        rw [hpres2 _ hargs.2]
        congr 2
        cases ht : (copyLine h l).2.tags with
        | none => rfl
        | some t =>
          have := hrefs1 t (by simp [refs, ht])
          simp only [Option.bind_some]
          rw [hpres2 _ this.2]
      · rw [hcont2 c hc]
        simp only [contents]
        rw [hpres1 _ hw.2.1]
        congr 2
        cases ht : l.tags with
        | none => rfl
        | some t =>
          simp only [Option.bind_some]
          rw [hpres1 _ (hw.2.2.1 t ht).2.1]

/-! ### writes -/

theorem read_applyWrites (ws : List Write) : ∀ (h : Heap) (r : Ref), (∀ w ∈ ws, w.ref ≠ r) →
    read (applyWrites h ws) r = read h r := by
  induction ws with
  | nil => intro h r _; rfl
  | cons w ws ih =>
    intro h r hne
    simp only [applyWrites]
    rw [ih _ r (fun w' hw' => hne w' (List.mem_cons_of_mem _ hw'))]
    show AL.lookup (AL.insert h.objs w.ref w.val) r = AL.lookup h.objs r
    rw [AL.lookup_insert]
    simp [hne w (by simp)]

theorem contents_applyWrites (ws : List Write) (h : Heap) (l : LineV)
    (hne : ∀ w ∈ ws, w.ref ∉ refs l) : contents (applyWrites h ws) l = contents h l := by
  simp only [contents]
  rw [read_applyWrites ws h l.args (fun w hw e => hne w hw (by simp [refs, e]))]
  congr 2
  cases ht : l.tags with
  | none => rfl
  | some t =>
    simp only [Option.bind_some]
    rw [read_applyWrites ws h t (fun w hw e => hne w hw (by simp [refs, ht, e]))]

/-- distinct positions of a list whose flattened images are duplicate-free have disjoint images -/
theorem disjoint_of_nodup_flatMap {α β : Type} (f : α → List β) :
    ∀ (L : List α), (L.flatMap f).Nodup → ∀ (i j : Nat) (a b : α), i ≠ j →
      L[i]? = some a → L[j]? = some b → ∀ x ∈ f a, x ∉ f b := by
  intro L
  induction L with
  | nil => intro _ i j a b _ hi; simp at hi
  | cons e L ih =>
    intro hnd i j a b hij hi hj x hxa hxb
    simp only [List.flatMap_cons] at hnd
    rw [List.nodup_append] at hnd
    obtain ⟨_, hndL, hdis⟩ := hnd
    cases i with
    | zero =>
      cases j with
      | zero => exact hij rfl
      | succ j =>
        simp only [List.getElem?_cons_zero, Option.some.injEq] at hi
        simp only [List.getElem?_cons_succ] at hj
        subst hi
        exact hdis x hxa x (List.mem_flatMap.2 ⟨b, List.mem_of_getElem? hj, hxb⟩) rfl
    | succ i =>
      cases j with
      | zero =>
        simp only [List.getElem?_cons_zero, Option.some.injEq] at hj
        simp only [List.getElem?_cons_succ] at hi
        subst hj
        exact hdis x hxb x (List.mem_flatMap.2 ⟨a, List.mem_of_getElem? hi, hxa⟩) rfl
      | succ j =>
        simp only [List.getElem?_cons_succ] at hi hj
        exact ih hndL i j a b (by omegaR) hi hj x hxa hxb

end Go.Copy
