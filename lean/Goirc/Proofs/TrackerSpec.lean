import Goirc.Proofs.AList
import Goirc.Spec.Tracker
/-!
# Facts about the relational tracker spec itself

`dropChan` and `dropNick` (bulk removals) are the same as removing memberships one at a time.
All equalities are exact structure equalities: every operation is a filter of the original lists.
-/
namespace Spec.Tracker
open Go.Tracker

/-- remove one membership; forget the nick if that was its last one (never the client itself) -/
def sdissoc1 (S : S) (c a : Bytes) : Spec.Tracker.S :=
  let S1 : Spec.Tracker.S := { S with mem := AL.erase S.mem (c, a) }
  if (memberships S1 a).isEmpty && a != S1.me then dropNick S1 a else S1

/-- `a` has no membership outside `c`, and is not the client -/
private def lone (S : S) (c a : Bytes) : Bool :=
  (S.mem.filter (fun m => m.1.2 == a && m.1.1 != c)).isEmpty && a != S.me

private theorem filter_true' {α : Type} (l : List α) : l.filter (fun _ => true) = l :=
  List.filter_eq_self.2 (fun _ _ => rfl)

private theorem dropNick_of_empty (T : S) (n : Bytes) (h : (memberships T n).isEmpty = true)
    (hme : (n != T.me) = true) :
    dropNick T n = { T with nicks := T.nicks.filter (fun e => decide (e.1 ≠ n)) } := by
  have hne : (n == T.me) = false := by simpa using hme
  have hmem : T.mem.filter (fun m => m.1.2 != n) = T.mem := by
    rw [List.filter_eq_self]
    intro m hm
    simp only [memberships, List.isEmpty_iff, List.filter_eq_nil_iff] at h
    have := h m hm
    simpa using this
  simp only [dropNick, hne, Bool.false_eq_true, if_false, hmem, AL.erase_eq_filter]

private theorem condfold_eq (l : List Bytes) (T : S) :
    l.foldl (fun st n => if (memberships st n).isEmpty && n != st.me then dropNick st n else st) T
      = { T with nicks := T.nicks.filter (fun e => !(l.contains e.1 && ((memberships T e.1).isEmpty && e.1 != T.me))) } := by
  induction l generalizing T with
  | nil => simp [filter_true']
  | cons n l ih =>
    rw [List.foldl_cons]
    by_cases hc : ((memberships T n).isEmpty && n != T.me) = true
    · have h1 : (memberships T n).isEmpty = true := by
        rw [Bool.and_eq_true] at hc; exact hc.1
      have h2 : (n != T.me) = true := by
        rw [Bool.and_eq_true] at hc; exact hc.2
      rw [if_pos hc, dropNick_of_empty T n h1 h2, ih]
      simp only [memberships, List.filter_filter, Spec.Tracker.S.mk.injEq, and_true]
      apply List.filter_congr
      intro e he
      simp only [memberships] at h1
      by_cases hen : e.1 = n
      · simp [hen, h1, h2]
      · simp [hen]
    · rw [if_neg hc, ih]
      simp only [Spec.Tracker.S.mk.injEq, and_true]
      apply List.filter_congr
      intro e he
      by_cases hen : e.1 = n
      · have hc' : ((memberships T n).isEmpty && n != T.me) = false := by simpa using hc
        simp [hen, hc']
      · simp [hen]

private theorem sdissoc1_eq (S : S) (c a : Bytes) :
    sdissoc1 S c a = { S with mem := S.mem.filter (fun m => decide (m.1 ≠ (c, a))),
                              nicks := S.nicks.filter (fun e => !(e.1 == a && lone S c a)) } := by
  have hl : ((memberships { S with mem := AL.erase S.mem (c, a) } a).isEmpty && a != S.me)
      = lone S c a := by
    simp only [memberships, lone, AL.erase_eq_filter, List.filter_filter]
    congr 2
    apply List.filter_congr
    intro m hm
    obtain ⟨⟨x, y⟩, p⟩ := m
    grind
  simp only [sdissoc1]
  rw [hl]
  by_cases hc : lone S c a = true
  · rw [if_pos hc]
    have hc' := hc
    rw [← hl, Bool.and_eq_true] at hc'
    rw [dropNick_of_empty _ a hc'.1 hc'.2]
    simp only [AL.erase_eq_filter, Spec.Tracker.S.mk.injEq, and_true]
    apply List.filter_congr
    intro e he
    rw [hc]
    grind
  · rw [if_neg hc]
    have hc' : lone S c a = false := by simpa using hc
    simp [hc', AL.erase_eq_filter, filter_true']

private theorem lone_sdissoc1 (S : S) (c a b : Bytes) : lone (sdissoc1 S c a) c b = lone S c b := by
  rw [sdissoc1_eq]
  simp only [lone, List.filter_filter]
  congr 2
  apply List.filter_congr
  intro m hm
  obtain ⟨⟨x, y⟩, p⟩ := m
  grind

private theorem fold_sdissoc1_eq (c : Bytes) (names : List Bytes) (S : S) :
    names.foldl (fun T a => sdissoc1 T c a) S =
      { S with mem := S.mem.filter (fun m => !(m.1.1 == c && names.contains m.1.2)),
               nicks := S.nicks.filter (fun e => !(names.contains e.1 && lone S c e.1)) } := by
  induction names generalizing S with
  | nil => simp [filter_true']
  | cons a rest ih =>
    rw [List.foldl_cons, ih]
    have hl : ∀ b, lone (sdissoc1 S c a) c b = lone S c b := lone_sdissoc1 S c a
    simp only [hl]
    rw [sdissoc1_eq]
    simp only [List.filter_filter, Spec.Tracker.S.mk.injEq, and_true, true_and]
    constructor
    · apply List.filter_congr
      intro e he
      cases hla : lone S c a <;> grind
    · apply List.filter_congr
      intro m hm
      obtain ⟨⟨x, y⟩, p⟩ := m
      grind

/-- `dropChan` removes the members of `c` one at a time, in any order, then the channel -/
theorem dropChan_eq_fold (S : S) (c : Bytes) (names : List Bytes)
    (h : ∀ b, b ∈ names ↔ ∃ p, ((c, b), p) ∈ S.mem) :
    dropChan S c =
      { (names.foldl (fun T a => sdissoc1 T c a) S) with
          chans := AL.erase (names.foldl (fun T a => sdissoc1 T c a) S).chans c } := by
  rw [fold_sdissoc1_eq]
  simp only [dropChan]
  rw [condfold_eq]
  simp only [memberships, List.filter_filter, Spec.Tracker.S.mk.injEq, and_true, true_and]
  constructor
  · apply List.filter_congr
    intro e he
    have : ((List.map (fun x => x.1.2) (List.filter (fun m => m.1.1 == c) S.mem)).contains e.1)
        = names.contains e.1 := by
      rw [Bool.eq_iff_iff]
      simp only [List.contains_iff_mem, List.mem_map, List.mem_filter, h]
      constructor
      · rintro ⟨⟨⟨x, y⟩, p⟩, ⟨hm, hx⟩, hy⟩
        simp only [beq_iff_eq] at hx
        simp only at hy
        subst hx; subst hy
        exact ⟨p, hm⟩
      · rintro ⟨p, hm⟩
        exact ⟨((c, e.1), p), ⟨hm, by simp⟩, rfl⟩
    rw [this]
    simp [lone]
  · apply List.filter_congr
    intro m hm
    obtain ⟨⟨x, y⟩, p⟩ := m
    by_cases hx : x = c
    · subst hx
      have : y ∈ names := (h y).2 ⟨p, hm⟩
      simp [this]
    · grind

private theorem foldl_erase_pair (a : Bytes) {ν : Type} (cs : List Bytes) (m : List ((Bytes × Bytes) × ν)) :
    cs.foldl (fun m cn => AL.erase m (cn, a)) m
      = m.filter (fun e => !(cs.contains e.1.1 && e.1.2 == a)) := by
  induction cs generalizing m with
  | nil => simp [filter_true']
  | cons x cs ih =>
    rw [List.foldl_cons, ih, AL.erase_eq_filter, List.filter_filter]
    apply List.filter_congr
    intro e he
    obtain ⟨⟨u, v⟩, p⟩ := e
    grind

/-- `dropNick` removes the memberships of `a` one at a time, then the nick -/
theorem dropNick_eq_fold (S : S) (a : Bytes) (cs : List Bytes) (hme : a ≠ S.me)
    (h : ∀ cn p, ((cn, a), p) ∈ S.mem → cn ∈ cs) :
    dropNick S a = { S with nicks := AL.erase S.nicks a,
                            mem := cs.foldl (fun m cn => AL.erase m (cn, a)) S.mem } := by
  have hne : (a == S.me) = false := by simpa using hme
  rw [foldl_erase_pair]
  simp only [dropNick, hne, Bool.false_eq_true, if_false, Spec.Tracker.S.mk.injEq, and_true, true_and]
  apply List.filter_congr
  intro e he
  obtain ⟨⟨u, v⟩, p⟩ := e
  by_cases hv : v = a
  · subst hv
    have := h u p he
    simp [this]
  · grind

/-- dropping a channel that is not there and has no members changes nothing -/
theorem dropChan_absent (S : S) (c : Bytes) (h1 : AL.lookup S.chans c = none)
    (h2 : ∀ b p, ((c, b), p) ∉ S.mem) : dropChan S c = S := by
  have hn : ∀ b, b ∈ ([] : List Bytes) ↔ ∃ p, ((c, b), p) ∈ S.mem := by
    intro b
    constructor
    · intro hb; cases hb
    · rintro ⟨p, hp⟩; exact absurd hp (h2 b p)
  rw [dropChan_eq_fold S c [] hn]
  simp only [List.foldl_nil, AL.erase_of_lookup_none h1]

end Spec.Tracker
