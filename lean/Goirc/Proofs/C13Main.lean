import Goirc.Proofs.C13Ops
import Goirc.Proofs.C13Parse
import Goirc.Proofs.C13Inv
import Goirc.Proofs.C13Sim
import Goirc.Proofs.C13EvJoin
import Goirc.Proofs.C13EvLeave
import Goirc.Proofs.C13EvNick
import Goirc.Proofs.C13EvMode
import Goirc.Proofs.C13EvAnswer
import Goirc.Proofs.C18
/-!
# C13, first sentence: assembly

Per event the twins bring the view to the new view (`C13Ev*`); the twins respect `Eqv`
(`C13Ops`); the handlers are simulated by the twins (`C13Sim`); the network invariant is kept
(`C13Inv`).  Induction over the session, then the tracker's answers are read off through `R`.
-/
namespace Proofs.C13
open Go Go.Client Go.Tracker Spec.Tracker Spec.Net

/-! ## every event -/

theorem ev_view (ext : UnicodeExt) (nn : Bytes → Bytes) (n : Net) (e : Event) (hi : NetInv n)
    (hc : conforms n e = true) :
    Eqv (tFeed ext nn n.view (serverStep n e).2) (serverStep n e).1.view := by
  cases e with
  | join u c => exact ev_join ext nn n u c hi hc
  | part u c => exact ev_part ext nn n u c hi hc
  | kick k c v => exact ev_kick ext nn n k c v hi hc
  | quit u => exact ev_quit ext nn n u hi hc
  | nick u nw => exact ev_nick ext nn n u nw hi hc
  | topic u c t => exact ev_topic ext nn n u c t hi hc
  | mode u c chs => exact ev_mode ext nn n u c chs hi hc
  | answerMode c => exact ev_answerMode ext nn n c hi hc
  | answerWho c => exact ev_answerWho ext nn n c hi hc
  | umode a l => exact ev_umode ext nn n a l hi hc

theorem WFS_view {n : Net} (hi : NetInv n) : WFS n.view := by
  intro c u h
  rw [hi.view_mem, Bool.and_eq_true] at h
  refine ⟨by rw [hi.view_chans]; exact h.1, ?_⟩
  rw [hi.view_nicks, Bool.or_eq_true]
  by_cases hu : u = n.me
  · left; simp [hu]
  · right
    exact (sharesWithMe_iff n hi.chans_nodup u).2 ⟨c, h.2, h.1⟩

/-! ## the session -/

theorem session_ind (ext : UnicodeExt) (nn : Bytes → Bytes) (evs : List Event) :
    ∀ (n : Net) (c : Client) (S : TS), NetInv n → CRx ext nn c S → Eqv S n.view → (∀ e ∈ evs, evOk e) →
      ∃ S', CRx ext nn (runNet n c evs).2 S' ∧ Eqv S' (runNet n c evs).1.view ∧ NetInv (runNet n c evs).1 := by
  induction evs with
  | nil => intro n c S hi hc he _; exact ⟨S, hc, he, hi⟩
  | cons e es ih =>
    intro n c S hi hc he hok
    have hok' : ∀ e ∈ es, evOk e := fun x hx => hok x (List.mem_cons_of_mem _ hx)
    simp only [runNet]
    by_cases hcf : conforms n e = true
    · rw [if_pos hcf]
      obtain ⟨st, hst, r⟩ := hc.2.2
      refine ih _ _ (tFeed ext nn S (serverStep n e).2) (NetInv_step n e hi hcf (hok e (by simp)))
        (CRx_feed hc _) ?_ hok'
      exact (Eqv_tFeed ext nn _ he (WFS_of_R r) (WFS_view hi)).trans (ev_view ext nn n e hi hcf)
    · rw [if_neg hcf]
      exact ih n c S hi hc he hok'

/-! ## reading the tracker through `R` -/

theorem perm_of_lookup_eq {κ ν : Type} [DecidableEq κ] {A B : List (κ × ν)} (ha : (AL.keys A).Nodup)
    (hb : (AL.keys B).Nodup) (h : ∀ k, AL.lookup A k = AL.lookup B k) : A.Perm B := by
  have na : A.Nodup := List.Pairwise.of_map (fun e => e.1) (fun a b hab e => hab (e ▸ rfl)) ha
  have nb : B.Nodup := List.Pairwise.of_map (fun e => e.1) (fun a b hab e => hab (e ▸ rfl)) hb
  rw [List.perm_ext_iff_of_nodup na nb]
  intro e
  obtain ⟨k, v⟩ := e
  rw [AL.mem_iff_lookup ha, AL.mem_iff_lookup hb, h]

theorem RetEq_trans {a b c : Ret} (h1 : Props.C12.RetEq a b) (h2 : Props.C12.RetEq b c) : Props.C12.RetEq a c := by
  cases a with
  | nick x =>
    cases b with
    | nick y =>
      cases c with
      | nick z =>
        cases x <;> cases y <;> cases z <;> simp only [Props.C12.RetEq] at h1 h2 ⊢ <;> try trivial
        rename_i x y z
        obtain ⟨a1, a2, a3, a4, a5, a6⟩ := h1
        obtain ⟨b1, b2, b3, b4, b5, b6⟩ := h2
        exact ⟨a1.trans b1, a2.trans b2, a3.trans b3, a4.trans b4, a5.trans b5, a6.trans b6⟩
      | _ => cases y <;> simp [Props.C12.RetEq] at h2
    | _ => cases x <;> simp [Props.C12.RetEq] at h1
  | chan x =>
    cases b with
    | chan y =>
      cases c with
      | chan z =>
        cases x <;> cases y <;> cases z <;> simp only [Props.C12.RetEq] at h1 h2 ⊢ <;> try trivial
        rename_i x y z
        obtain ⟨a1, a2, a3, a4⟩ := h1
        obtain ⟨b1, b2, b3, b4⟩ := h2
        exact ⟨a1.trans b1, a2.trans b2, a3.trans b3, a4.trans b4⟩
      | _ => cases y <;> simp [Props.C12.RetEq] at h2
    | _ => cases x <;> simp [Props.C12.RetEq] at h1
  | privs p ok =>
    cases b <;> try (simp [Props.C12.RetEq] at h1; done)
    cases c <;> try (simp [Props.C12.RetEq] at h2; done)
    simp only [Props.C12.RetEq] at h1 h2 ⊢
    exact ⟨h1.1.trans h2.1, h1.2.trans h2.2⟩
  | assoc p =>
    cases b <;> try (simp [Props.C12.RetEq] at h1; done)
    cases c <;> try (simp [Props.C12.RetEq] at h2; done)
    simp only [Props.C12.RetEq] at h1 h2 ⊢
    exact h1.trans h2
  | unit =>
    cases b <;> try (simp [Props.C12.RetEq] at h1; done)
    cases c <;> try (simp [Props.C12.RetEq] at h2; done)
    trivial

/-- the four queries give equal answers on equivalent relational states -/
theorem query_eqv {A B : TS} (h : Eqv A B) (na : (AL.keys A.mem).Nodup) (nb : (AL.keys B.mem).Nodup) :
    (∀ name, Props.C12.RetEq (Spec.Tracker.step A (.getNick name)).2 (Spec.Tracker.step B (.getNick name)).2) ∧
    (∀ name, Props.C12.RetEq (Spec.Tracker.step A (.getChannel name)).2 (Spec.Tracker.step B (.getChannel name)).2) ∧
    (∀ c n, Props.C12.RetEq (Spec.Tracker.step A (.isOn c n)).2 (Spec.Tracker.step B (.isOn c n)).2) ∧
    Props.C12.RetEq (Spec.Tracker.step A .me).2 (Spec.Tracker.step B .me).2 := by
  have hp : A.mem.Perm B.mem := perm_of_lookup_eq na nb h.mem
  have hns : ∀ name, Props.C12.NickSnapEq (Spec.Tracker.nickSnap A name) (Spec.Tracker.nickSnap B name) := by
    intro name
    simp only [Props.C12.NickSnapEq, Spec.Tracker.nickSnap, h.nicks name, true_and]
    exact (hp.filter _).map _
  have hcs : ∀ name, Props.C12.ChanSnapEq (Spec.Tracker.chanSnap A name) (Spec.Tracker.chanSnap B name) := by
    intro name
    simp only [Props.C12.ChanSnapEq, Spec.Tracker.chanSnap, h.chans name, true_and]
    exact (hp.filter _).map _
  refine ⟨?_, ?_, ?_, ?_⟩
  · intro name
    simp only [Spec.Tracker.step, h.has_nicks name]
    split
    · exact hns name
    · trivial
  · intro name
    simp only [Spec.Tracker.step, h.has_chans name]
    split
    · exact hcs name
    · trivial
  · intro c n
    simp only [Spec.Tracker.step, h.has_nicks n, h.has_chans c, h.mem (c, n)]
    split
    · split <;> simp [Props.C12.RetEq]
    · simp [Props.C12.RetEq]
  · simp only [Spec.Tracker.step, h.me]
    exact hns _

theorem Holds_of {st : St} {S V : TS} (r : R st S) (h : Eqv S V) (nv : (AL.keys V.mem).Nodup) : Holds st V := by
  obtain ⟨q1, q2, q3, q4⟩ := query_eqv h r.2.mem_nodup nv
  refine ⟨?_, ?_, ?_, ?_⟩
  · intro name
    exact RetEq_trans (Props.C12.retEq_of_retSim (step_sim r (.getNick name)).2) (q1 name)
  · intro name
    exact RetEq_trans (Props.C12.retEq_of_retSim (step_sim r (.getChannel name)).2) (q2 name)
  · intro c n
    exact RetEq_trans (Props.C12.retEq_of_retSim (step_sim r (.isOn c n)).2) (q3 c n)
  · exact RetEq_trans (Props.C12.retEq_of_retSim (step_sim r .me).2) q4

/-! ## the start -/

def startClient (me ident host real : Bytes) (ext : UnicodeExt) : Client :=
  let c : Client := { cfg := { meNick := me, meIdent := ident, meName := real }, newNick := defaultNewNick, ext := ext }
  feed (enableTracking c) [lit ":irc.test 001 " ++ me ++ lit " :Welcome " ++ me ++ [33] ++ ident ++ [64] ++ host]

theorem nameOk_spec (s : Bytes) (h : nameOk s = true) :
    s ≠ [] ∧ ∀ b ∈ s, 33 < b ∧ b < 127 ∧ b ≠ 58 ∧ b ≠ 44 ∧ b ≠ 64 ∧ b ≠ 33 := by
  simp only [nameOk, Bool.and_eq_true, Bool.not_eq_true', List.isEmpty_eq_false_iff, List.all_eq_true,
    decide_eq_true_eq, bne_iff_ne, ne_eq] at h
  refine ⟨h.1, fun b hb => ?_⟩
  have := h.2 b hb
  exact ⟨this.1.1.1.1.1, this.1.1.1.1.2, this.1.1.1.2, this.1.1.2, this.1.2, this.2⟩

theorem noSpaceRune_of_nameOk (s : Bytes) (h : nameOk s = true) : Spec.Irc.noSpaceRune s = true := by
  have hs := (nameOk_spec s h).2
  clear h
  induction s with
  | nil => rfl
  | cons x s ih =>
    have hx := hs x (by simp)
    apply Go.noSpaceRune_low x s
    · exact Nat.lt_trans (UInt8.lt_iff_toNat_lt.1 hx.2.1) (by decide)
    · intro e; subst e; exact absurd hx.1 (by decide)
    · intro e
      have h1 := UInt8.lt_iff_toNat_lt.1 hx.1
      have h2 := UInt8.le_iff_toNat_le.1 e.2
      simp at h1 h2
      omega
    · exact ih (fun b hb => hs b (List.mem_cons_of_mem _ hb))

theorem start_related (me ident host real : Bytes) (ext : UnicodeExt) (others : List (Bytes × NUser))
    (hm : nameOk me = true) (hi : nameOk ident = true) (hh : nameOk host = true) :
    ∃ S, CRx ext defaultNewNick (startClient me ident host real ext) S ∧
      Eqv S (start me ident host real others).view := by
  let c0 : Client := { cfg := { meNick := me, meIdent := ident, meName := real }, newNick := defaultNewNick, ext := ext }
  have h0 : CRx ext defaultNewNick (enableTracking c0) (sx (Spec.Tracker.new me) (.nickInfo me ident [] real)) :=
    CRx_enable c0 rfl
  have h1 := CRx_feed h0 [lit ":irc.test 001 " ++ me ++ lit " :Welcome " ++ me ++ [33] ++ ident ++ [64] ++ host]
  refine ⟨_, h1, ?_⟩
  obtain ⟨L, hp, hn, hid, hho, hcmd, hargs⟩ := parse_001 ext me ident host hm
  have hlow : toLower ext (lit "001") = lit "001" := (toLower_verbs ext).2.2.2.2.2.2.2.2.2.2.2.2.2
  have htext : L.text = lit "Welcome " ++ me ++ [33] ++ ident ++ [64] ++ host := by
    simp [Line.text, hargs]
  have htarget : L.target = me := by
    have e1 : (lit "001" == PRIVMSG) = false := by decide
    have e2 : (lit "001" == NOTICE) = false := by decide
    have e3 : (lit "001" == ACTION) = false := by decide
    have e4 : (lit "001" == CTCP) = false := by decide
    have e5 : (lit "001" == CTCPREPLY) = false := by decide
    simp [Line.target, hcmd, hargs, e1, e2, e3, e4, e5]
  have hlast : lastWord L.text = me ++ [33] ++ ident ++ [64] ++ host := by
    rw [htext]
    have hnm : (32 : UInt8) ∉ me ++ [33] ++ ident ++ [64] ++ host := by
      have a1 := Go.noSpaceRune_not_mem _ (noSpaceRune_of_nameOk _ hm)
      have a2 := Go.noSpaceRune_not_mem _ (noSpaceRune_of_nameOk _ hi)
      have a3 := Go.noSpaceRune_not_mem _ (noSpaceRune_of_nameOk _ hh)
      simp only [List.mem_append, List.mem_singleton, not_or]
      exact ⟨⟨⟨⟨a1, by decide⟩, a2⟩, by decide⟩, a3⟩
    have e : lit "Welcome " ++ me ++ [33] ++ ident ++ [64] ++ host
        = lit "Welcome" ++ 32 :: (me ++ [33] ++ ident ++ [64] ++ host) := by
      have : lit "Welcome " = lit "Welcome" ++ [32] := by decide
      rw [this]; simp
    rw [e]
    simp only [lastWord, Go.lastIndexByte_append_cons 32 _ _ hnm]
    have : (lit "Welcome").length + 1 = (lit "Welcome" ++ [32]).length := by simp
    rw [this]
    have e2 : lit "Welcome" ++ 32 :: (me ++ [33] ++ ident ++ [64] ++ host)
        = (lit "Welcome" ++ [32]) ++ (me ++ [33] ++ ident ++ [64] ++ host) := by simp
    rw [e2, List.drop_left]
  have huh : parseUserHost (lastWord L.text) = some (me, ident, host) := by
    rw [hlast]
    have hw : (Spec.Irc.Source.user me ident host).wf = true := by
      have n1 := nameOk_spec _ hm
      have n2 := nameOk_spec _ hi
      simp only [Spec.Irc.Source.wf, noSpaceRune_of_nameOk _ hm, noSpaceRune_of_nameOk _ hi,
        noSpaceRune_of_nameOk _ hh, Bool.and_eq_true, Bool.not_eq_true', true_and, List.contains_eq_mem,
        decide_eq_false_iff_not]
      exact ⟨⟨fun hb => (n1.2 _ hb).2.2.2.2.2 rfl, fun hb => (n1.2 _ hb).2.2.2.2.1 rfl⟩,
        fun hb => (n2.2 _ hb).2.2.2.2.1 rfl⟩
    have := Go.parseUserHost_user me ident host hw
    simpa [Spec.Irc.Source.render] using this
  have hst : stTwin (lit "001") = none := by decide
  have e1 : (lit "001" == lit "001") = true := by decide
  simp only [tFeed, hp, tDispatch, hcmd, hlow, e1, if_true, hst]
  -- the twin of the welcome handler on the fresh state
  have hS : t_001 (sx (Spec.Tracker.new me) (.nickInfo me ident [] real)) L = (start me ident host real others).view := by
    simp only [t_001, huh, htarget]
    simp [sx, Spec.Tracker.step, Spec.Tracker.new, AL.lookup, AL.insert, AL.has, meName, start]
  rw [hS]
  exact Eqv.refl _

/-! ## the theorem -/

theorem session_core (me ident host real : Bytes) (others : List (Bytes × NUser)) (ext : UnicodeExt) (evs : List Event)
    (hme : nickOk me = true ∧ nameOk ident = true ∧ nameOk host = true ∧ textOk real = true)
    (hothers : ∀ u ∈ others, nickOk u.1 = true ∧ nameOk u.2.ident = true ∧ nameOk u.2.host = true ∧ textOk u.2.real = true)
    (hevs : ∀ e ∈ evs, evOk e) :
    ∃ st, (runNet (start me ident host real others) (startClient me ident host real ext) evs).2.st = some st ∧
      Holds st (runNet (start me ident host real others) (startClient me ident host real ext) evs).1.view := by
  have hm : nameOk me = true := by
    have := hme.1; simp only [nickOk, Bool.and_eq_true] at this; exact this.1
  obtain ⟨S0, hc0, he0⟩ := start_related me ident host real ext others hm hme.2.1 hme.2.2.1
  obtain ⟨S', hc, he, hi⟩ := session_ind ext defaultNewNick evs _ _ S0 (NetInv_start me ident host real others hme hothers) hc0 he0 hevs
  obtain ⟨st, hst, r⟩ := hc.2.2
  exact ⟨st, hst, Holds_of r he hi.view_mem_nodup⟩

end Proofs.C13
