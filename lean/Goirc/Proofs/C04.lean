import Goirc.Spec.HSet
import Goirc.Proofs.AList
/-! Helper lemmas for C04: the handler set refines "name ↦ list in registration order". -/
namespace Go.HSet
open Spec.HSet

/-! ## the node heap -/

theorem getNode_setNode (hs : HS) (i : Id) (nd : Node) (j : Id) :
    getNode (setNode hs i nd) j = if i = j then nd else getNode hs j := by
  unfold getNode setNode
  simp only [AL.lookup_insert]
  split <;> simp

@[simp] theorem setNode_set (hs : HS) (i : Id) (nd : Node) : (setNode hs i nd).set = hs.set := rfl
@[simp] theorem setNode_fresh (hs : HS) (i : Id) (nd : Node) : (setNode hs i nd).fresh = hs.fresh := rfl

theorem keys_setNode_of_mem (hs : HS) (i : Id) (nd : Node) (h : i ∈ AL.keys hs.nodes) :
    AL.keys (setNode hs i nd).nodes = AL.keys hs.nodes := by
  simp [setNode, AL.keys_insert, h]

@[simp] theorem getNode_withSet (hs : HS) (x : List (Bytes × HL)) (i : Id) :
    getNode { hs with set := x } i = getNode hs i := rfl


theorem Node.ext' {a b : Node} (h1 : a.next = b.next) (h2 : a.prev = b.prev) (h3 : a.live = b.live)
    (h4 : a.event = b.event) (h5 : a.handler = b.handler) : a = b := by
  cases a; cases b; simp_all

/-! ## effect of `remove` on the heap -/

/-- the node heap after `remove hs k` (when `k`'s list exists) -/
theorem getNode_remove (hs : HS) (k : Id) (l : HL) (hl : AL.lookup hs.set (getNode hs k).event = some l) (i : Id) :
    getNode (remove hs k) i =
      if i = k then { getNode hs k with next := none, prev := none, live := false }
      else { getNode hs i with
               next := if (getNode hs k).prev = some i then (getNode hs k).next else (getNode hs i).next,
               prev := if (getNode hs k).next = some i then (getNode hs k).prev else (getNode hs i).prev } := by
  unfold remove
  simp only [hl]
  cases hn : (getNode hs k).next <;> cases hp : (getNode hs k).prev <;> simp only [] <;>
    split <;> simp only [getNode_withSet, getNode_setNode] <;> apply Node.ext' <;> grind

/-! ## doubly linked lists in the heap -/

/-- `ids` is the doubly linked list `l` in the heap -/
structure DL (hs : HS) (l : HL) (ids : List Id) : Prop where
  start : l.start = ids[0]?
  «end» : ∀ j, ids.length = j + 1 → l.«end» = ids[j]?
  next : ∀ j i, ids[j]? = some i → (getNode hs i).next = ids[j+1]?
  prev : ∀ j i, ids[j+1]? = some i → (getNode hs i).prev = ids[j]?
  prev0 : ∀ i, ids[0]? = some i → (getNode hs i).prev = none

theorem walkFwd_eq (hs : HS) (ids : List Id)
    (hn : ∀ j i, ids[j]? = some i → (getNode hs i).next = ids[j+1]?) :
    ∀ fuel j, ids.length ≤ fuel + j → walkFwd hs fuel ids[j]? = ids.drop j := by
  intro fuel
  induction fuel with
  | zero => intro j h; simp [walkFwd]; omega
  | succ f ih =>
    intro j h
    cases hj : ids[j]? with
    | none => simp [walkFwd]; grind
    | some i =>
      simp only [walkFwd]
      rw [hn j i hj, ih (j+1) (by omega)]
      obtain ⟨hlt, rfl⟩ := List.getElem?_eq_some_iff.1 hj
      exact (List.drop_eq_getElem_cons hlt).symm

theorem walkBwd_eq (hs : HS) (ids : List Id)
    (hp : ∀ j i, ids[j+1]? = some i → (getNode hs i).prev = ids[j]?)
    (hp0 : ∀ i, ids[0]? = some i → (getNode hs i).prev = none) :
    ∀ j fuel, j < ids.length → j < fuel → walkBwd hs fuel ids[j]? = (ids.take (j+1)).reverse := by
  intro j
  induction j with
  | zero =>
    intro fuel h1 h2
    obtain ⟨f, rfl⟩ : ∃ f, fuel = f + 1 := ⟨fuel - 1, by omega⟩
    have : ids[0]? = some ids[0] := by simp [h1]
    rw [this]; simp only [walkBwd, hp0 _ this]
    have e : ids.take 1 = [ids[0]] := by
      cases ids with
      | nil => simp at h1
      | cons a t => simp
    cases f <;> simp [walkBwd, e]
  | succ j ih =>
    intro fuel h1 h2
    obtain ⟨f, rfl⟩ : ∃ f, fuel = f + 1 := ⟨fuel - 1, by omega⟩
    have : ids[j+1]? = some ids[j+1] := by simp [h1]
    rw [this]; simp only [walkBwd, hp _ _ this]
    rw [ih f (by omega) (by omega)]
    rw [List.take_add_one (i := j+1), this]
    simp only [Option.toList_some, List.reverse_append, List.reverse_cons, List.reverse_nil, List.nil_append, List.singleton_append]

theorem nodup_idx {ids : List Id} (nd : ids.Nodup) {a b : Nat} {x : Id} (ha : ids[a]? = some x) (hb : ids[b]? = some x) : a = b := by
  obtain ⟨h1, h2⟩ := List.getElem?_eq_some_iff.1 ha
  exact (List.getElem?_inj h1 nd).1 (ha.trans hb.symm)

theorem DL_remove {hs hs' : HS} {l : HL} {ids : List Id} {k : Id} {m : Nat} (nd : ids.Nodup) (h : DL hs l ids)
    (hm : ids[m]? = some k)
    (hnx : ∀ i, i ≠ k → (getNode hs' i).next = if (getNode hs k).prev = some i then (getNode hs k).next else (getNode hs i).next)
    (hpv : ∀ i, i ≠ k → (getNode hs' i).prev = if (getNode hs k).next = some i then (getNode hs k).prev else (getNode hs i).prev) :
    DL hs' ⟨if (getNode hs k).prev = none then (getNode hs k).next else l.start,
            if (getNode hs k).next = none then (getNode hs k).prev else l.«end»⟩ (ids.eraseIdx m) := by
  have hkn : (getNode hs k).next = ids[m+1]? := h.next m k hm
  have hkp0 : m = 0 → (getNode hs k).prev = none := by
    intro h0; subst h0; exact h.prev0 k hm
  have hkp1 : ∀ m', m = m' + 1 → (getNode hs k).prev = ids[m']? := by
    intro m' h0; subst h0; exact h.prev m' k hm
  have hlen : m < ids.length := (List.getElem?_eq_some_iff.1 hm).1
  have inj := @nodup_idx ids nd
  have hne : ∀ (j : Nat) (i : Id), (ids.eraseIdx m)[j]? = some i → i ≠ k := by
    intro j i hj hik
    subst hik
    rw [List.getElem?_eraseIdx] at hj
    split at hj
    · have := inj hj hm; omega
    · have := inj hj hm; omega
  have lt_of_some : ∀ {j : Nat} {x : Id}, ids[j]? = some x → j < ids.length :=
    fun hx => (List.getElem?_eq_some_iff.1 hx).1
  have some_of_lt : ∀ j, j < ids.length → ∃ x, ids[j]? = some x := fun j hj => ⟨ids[j], by simp [hj]⟩
  have none_of_ge : ∀ j, ids.length ≤ j → ids[j]? = none := fun j hj => by simp [hj]
  refine ⟨?_, ?_, ?_, ?_, ?_⟩
  · show (if (getNode hs k).prev = none then (getNode hs k).next else l.start) = _
    rw [List.getElem?_eraseIdx, hkn, h.start]
    cases m with
    | zero => simp [hkp0 rfl]
    | succ m =>
      obtain ⟨x, hx⟩ := some_of_lt m (by omega)
      simp [hkp1 m rfl, hx]
  · intro j hj
    show (if (getNode hs k).next = none then (getNode hs k).prev else l.«end») = _
    rw [List.length_eraseIdx_of_lt hlen] at hj
    rw [List.getElem?_eraseIdx, hkn, h.end (j+1) (by omega)]
    by_cases hl : m + 1 < ids.length
    · obtain ⟨x, hx⟩ := some_of_lt _ hl
      have : ¬ j < m := by omega
      simp [hx, this]
    · have hmj : m = j + 1 := by omega
      rw [none_of_ge _ (by omega)]
      simp [hkp1 j hmj, hmj]
  · intro j i hj
    rw [hnx i (hne j i hj), hkn]
    rw [List.getElem?_eraseIdx] at hj ⊢
    by_cases h1 : j < m
    · rw [if_pos h1] at hj
      rw [h.next j i hj]
      by_cases h2 : j + 1 < m
      · rw [if_pos h2]
        have : (getNode hs k).prev ≠ some i := by
          obtain ⟨m', rfl⟩ : ∃ m', m = m' + 1 := ⟨m - 1, by omega⟩
          rw [hkp1 m' rfl]; intro hc
          have := inj hc hj; omega
        rw [if_neg this]
      · have hmj : m = j + 1 := by omega
        rw [if_neg h2, hkp1 j hmj, hj, if_pos rfl, hmj]
    · rw [if_neg h1] at hj
      rw [if_neg (show ¬ j + 1 < m by omega), h.next _ i hj]
      have : (getNode hs k).prev ≠ some i := by
        cases m with
        | zero => rw [hkp0 rfl]; simp
        | succ m' =>
          rw [hkp1 m' rfl]; intro hc
          have := inj hc hj; omega
      rw [if_neg this]
  · intro j i hj
    rw [hpv i (hne _ i hj), hkn]
    rw [List.getElem?_eraseIdx] at hj ⊢
    by_cases h1 : j + 1 < m
    · rw [if_pos h1] at hj
      rw [if_pos (show j < m by omega), h.prev j i hj]
      have : ids[m+1]? ≠ some i := by
        intro hc; have := inj hc hj; omega
      rw [if_neg this]
    · rw [if_neg h1] at hj
      by_cases h2 : j < m
      · have hmj : m = j + 1 := by omega
        rw [if_pos h2, hmj, hj, if_pos rfl, hkp1 j hmj]
      · rw [if_neg h2, h.prev _ i hj]
        have : ids[m+1]? ≠ some i := by
          intro hc; have := inj hc hj; omega
        rw [if_neg this]
  · intro i hj
    rw [hpv i (hne _ i hj), hkn]
    rw [List.getElem?_eraseIdx] at hj
    by_cases h1 : 0 < m
    · rw [if_pos h1] at hj
      have : ids[m+1]? ≠ some i := by
        intro hc; have := inj hc hj; omega
      rw [if_neg this, h.prev0 i hj]
    · have hm0 : m = 0 := by omega
      rw [if_neg h1] at hj
      rw [hm0, hj, if_pos rfl, hkp0 hm0]

theorem getElem?_concat (ids : List Id) (n : Id) (j : Nat) :
    (ids ++ [n])[j]? = if j < ids.length then ids[j]? else if j = ids.length then some n else none := by
  rw [List.getElem?_append]
  split
  · rfl
  · split
    · rename_i h; simp [h]
    · have : j - ids.length ≠ 0 := by omega
      cases hh : j - ids.length with
      | zero => omega
      | succ q => simp

theorem DL_single {hs' : HS} {n : Id} (h1 : (getNode hs' n).next = none) (h2 : (getNode hs' n).prev = none) :
    DL hs' ⟨some n, some n⟩ [n] := by
  refine ⟨rfl, ?_, ?_, ?_, ?_⟩
  · intro j hj; simp at hj; subst hj; rfl
  · intro j i hj
    cases j with
    | zero => simp at hj; subst hj; simpa using h1
    | succ j => simp at hj
  · intro j i hj; simp at hj
  · intro i hj; simp at hj; subst hj; exact h2

theorem DL_add {hs hs' : HS} {l : HL} {ids : List Id} {n : Id} (hn : n ∉ ids) (hne : ids ≠ []) (nd : ids.Nodup) (h : DL hs l ids)
    (hnx : ∀ i, i ≠ n → (getNode hs' i).next = if l.«end» = some i then some n else (getNode hs i).next)
    (hpv : ∀ i, i ≠ n → (getNode hs' i).prev = (getNode hs i).prev)
    (h1 : (getNode hs' n).next = none) (h2 : (getNode hs' n).prev = l.«end») :
    DL hs' ⟨l.start, some n⟩ (ids ++ [n]) := by
  have inj := @nodup_idx ids nd
  have hmem : ∀ {j : Nat} {i : Id}, ids[j]? = some i → i ≠ n := by
    intro j i hj hc; subst hc; exact hn (List.mem_of_getElem? hj)
  have lt_of_some : ∀ {j : Nat} {x : Id}, ids[j]? = some x → j < ids.length :=
    fun hx => (List.getElem?_eq_some_iff.1 hx).1
  obtain ⟨q, hq⟩ : ∃ q, ids.length = q + 1 := by
    cases ids with
    | nil => exact absurd rfl hne
    | cons a t => exact ⟨t.length, rfl⟩
  have hend := h.end q hq
  refine ⟨?_, ?_, ?_, ?_, ?_⟩
  · show l.start = _
    rw [getElem?_concat, if_pos (by omega), h.start]
  · intro j hj
    show some n = _
    simp at hj
    rw [getElem?_concat, if_neg (by omega), if_pos (by omega)]
  · intro j i hj
    rw [getElem?_concat] at hj ⊢
    by_cases hlt : j < ids.length
    · rw [if_pos hlt] at hj
      rw [hnx i (hmem hj), hend, h.next j i hj]
      by_cases hjq : j = q
      · subst hjq
        rw [hj, if_pos rfl, if_neg (by omega), if_pos (by omega)]
      · have : ids[q]? ≠ some i := fun hc => hjq (inj hj hc)
        rw [if_neg this, if_pos (by omega)]
    · rw [if_neg hlt] at hj
      split at hj
      · cases hj
        rw [h1, if_neg (by omega), if_neg (by omega)]
      · cases hj
  · intro j i hj
    rw [getElem?_concat] at hj ⊢
    by_cases hlt : j + 1 < ids.length
    · rw [if_pos hlt] at hj
      rw [hpv i (hmem hj), h.prev j i hj, if_pos (by omega)]
    · rw [if_neg hlt] at hj
      split at hj
      · cases hj
        have : j = q := by omega
        subst this
        rw [h2, hend, if_pos (by omega)]
      · cases hj
  · intro i hj
    rw [getElem?_concat, if_pos (by omega)] at hj
    rw [hpv i (hmem hj), h.prev0 i hj]
/-! ## effect of `remove` and `add` on map, keys, fresh -/

theorem keys_setNode (hs : HS) (i : Id) (nd : Node) :
    AL.keys (setNode hs i nd).nodes = if i ∈ AL.keys hs.nodes then AL.keys hs.nodes else AL.keys hs.nodes ++ [i] := by
  simp [setNode, AL.keys_insert]

theorem remove_set (hs : HS) (k : Id) (l : HL) (hl : AL.lookup hs.set (getNode hs k).event = some l) :
    (remove hs k).set =
      let l2 : HL := ⟨if (getNode hs k).prev = none then (getNode hs k).next else l.start,
                      if (getNode hs k).next = none then (getNode hs k).prev else l.«end»⟩
      if l2.start.isNone || l2.«end».isNone then AL.erase hs.set (getNode hs k).event
      else AL.insert hs.set (getNode hs k).event l2 := by
  unfold remove
  simp only [hl]
  cases hn : (getNode hs k).next <;> cases hp : (getNode hs k).prev <;> simp only [] <;>
    split <;> simp_all

theorem remove_fresh (hs : HS) (k : Id) : (remove hs k).fresh = hs.fresh := by
  unfold remove
  cases hl : AL.lookup hs.set (getNode hs k).event <;> simp only [hl]
  · cases hn : (getNode hs k).next <;> cases hp : (getNode hs k).prev <;> simp only [] <;>
      split <;> simp

theorem remove_keys (hs : HS) (k : Id) (hk : k ∈ AL.keys hs.nodes)
    (h1 : ∀ i, (getNode hs k).next = some i → i ∈ AL.keys hs.nodes)
    (h2 : ∀ i, (getNode hs k).prev = some i → i ∈ AL.keys hs.nodes) :
    AL.keys (remove hs k).nodes = AL.keys hs.nodes := by
  unfold remove
  cases hl : AL.lookup hs.set (getNode hs k).event <;> simp only [hl]
  · cases hn : (getNode hs k).next <;> cases hp : (getNode hs k).prev <;> simp only [] <;>
      (simp only [hn, hp, Option.some.injEq, forall_eq', reduceCtorEq, false_implies, implies_true] at h1 h2) <;>
      split <;> simp [keys_setNode, hk, h1, h2]

theorem getNode_mk (hs : HS) (s : List (Bytes × HL)) (f : Id) (i : Id) :
    getNode { nodes := hs.nodes, set := s, fresh := f } i = getNode hs i := rfl

theorem add_none (ext : Go.UnicodeExt) (hs : HS) (ev0 : Bytes) (h : Nat)
    (hl : AL.lookup hs.set (Go.toLower ext ev0) = none) :
    (add ext hs ev0 h).1 =
      { nodes := AL.insert hs.nodes hs.fresh { event := Go.toLower ext ev0, handler := h },
        set := AL.insert hs.set (Go.toLower ext ev0) ⟨some hs.fresh, some hs.fresh⟩,
        fresh := hs.fresh + 1 } := by
  unfold add
  simp [hl, setNode]

theorem add_some_set (ext : Go.UnicodeExt) (hs : HS) (ev0 : Bytes) (h : Nat) (l : HL)
    (hl : AL.lookup hs.set (Go.toLower ext ev0) = some l) :
    (add ext hs ev0 h).1.set = AL.insert hs.set (Go.toLower ext ev0) ⟨l.start, some hs.fresh⟩ ∧
    (add ext hs ev0 h).1.fresh = hs.fresh + 1 := by
  unfold add
  simp only [hl]
  cases l.«end» <;> simp

theorem add_some_node (ext : Go.UnicodeExt) (hs : HS) (ev0 : Bytes) (h : Nat) (l : HL) (e : Id)
    (hl : AL.lookup hs.set (Go.toLower ext ev0) = some l) (he : l.«end» = some e) (hne : e ≠ hs.fresh) (i : Id) :
    getNode (add ext hs ev0 h).1 i =
      if i = hs.fresh then { event := Go.toLower ext ev0, handler := h, prev := some e }
      else if i = e then { getNode hs e with next := some hs.fresh }
      else getNode hs i := by
  unfold add
  simp only [hl, he, getNode_setNode, getNode_mk]
  apply Node.ext' <;> grind

theorem add_some_keys (ext : Go.UnicodeExt) (hs : HS) (ev0 : Bytes) (h : Nat) (l : HL) (e : Id)
    (hl : AL.lookup hs.set (Go.toLower ext ev0) = some l) (he : l.«end» = some e)
    (hk : e ∈ AL.keys hs.nodes) (hf : hs.fresh ∉ AL.keys hs.nodes) :
    AL.keys (add ext hs ev0 h).1.nodes = AL.keys hs.nodes ++ [hs.fresh] := by
  unfold add
  simp only [hl, he, keys_setNode]
  simp [hf, hk]
end Go.HSet

/-! ## the Spec side -/
namespace Spec.HSet
open Go.HSet

theorem lookup_remove_none (s : S) (k : Id) (name : Bytes) (h : AL.lookup s name = none) :
    AL.lookup (remove s k) name = none := by
  rw [AL.lookup_eq_none_iff] at h ⊢
  intro hc; apply h
  unfold remove AL.keys at hc
  obtain ⟨p, hp, rfl⟩ := List.mem_map.1 hc
  obtain ⟨q, hq, rfl⟩ := List.mem_map.1 (List.mem_filter.1 hp).1
  exact List.mem_map.2 ⟨q, hq, rfl⟩

theorem lookup_remove (s : S) (nd : (AL.keys s).Nodup) (k : Id) (name : Bytes) :
    AL.lookup (remove s k) name =
      (AL.lookup s name).bind fun L => if (L.filter (·.1 != k)).isEmpty then none else some (L.filter (·.1 != k)) := by
  induction s with
  | nil => rfl
  | cons e s ih =>
    obtain ⟨a, L⟩ := e
    simp only [AL.keys_cons, List.nodup_cons] at nd
    have ih := ih nd.2
    rw [AL.lookup_cons]
    by_cases ha : a = name
    · subst ha
      simp only [if_true, Option.bind_some]
      have hnone : AL.lookup s a = none := (AL.lookup_eq_none_iff s a).2 nd.1
      by_cases hemp : (L.filter (·.1 != k)).isEmpty
      · rw [if_pos hemp]
        have : remove ((a, L) :: s) k = remove s k := by
          simp only [remove, List.map_cons, List.filter_cons, hemp]; simp
        rw [this]; exact lookup_remove_none s k a hnone
      · rw [if_neg hemp]
        have : remove ((a, L) :: s) k = (a, L.filter (·.1 != k)) :: remove s k := by
          simp only [remove, List.map_cons, List.filter_cons, hemp]; simp
        rw [this, AL.lookup_cons, if_pos rfl]
    · rw [if_neg ha, ← ih]
      simp only [remove, List.map_cons, List.filter_cons]
      split
      · rw [AL.lookup_cons, if_neg ha]
      · rfl

theorem keys_remove_nodup (s : S) (nd : (AL.keys s).Nodup) (k : Id) : (AL.keys (remove s k)).Nodup := by
  unfold remove
  apply AL.nodup_filter
  have : AL.keys (s.map fun (x : Bytes × List (Id × Nat)) => (x.1, x.2.filter (·.1 != k))) = AL.keys s := by
    simp [AL.keys, Function.comp_def]
  exact this ▸ nd

end Spec.HSet

/-! ## more on linked lists -/
namespace Go.HSet
open Spec.HSet

theorem filter_ne_eq_eraseIdx {ids : List Id} (nd : ids.Nodup) {m : Nat} {k : Id} (hm : ids[m]? = some k) :
    ids.filter (· != k) = ids.eraseIdx m := by
  induction ids generalizing m with
  | nil => simp at hm
  | cons a t ih =>
    simp only [List.nodup_cons] at nd
    cases m with
    | zero =>
      simp at hm; subst hm
      simp only [List.filter_cons, bne_self_eq_false, Bool.false_eq_true, if_false, List.eraseIdx_zero, List.tail_cons]
      rw [List.filter_eq_self]
      intro x hx; simp; intro hc; subst hc; exact nd.1 hx
    | succ m =>
      simp at hm
      have : a ≠ k := by
        intro hc; subst hc; exact nd.1 (List.mem_of_getElem? hm)
      simp [this, ih nd.2 hm]

theorem DL_congr {hs hs' : HS} {l : HL} {ids : List Id} (h : DL hs l ids)
    (hc : ∀ i ∈ ids, (getNode hs' i).next = (getNode hs i).next ∧ (getNode hs' i).prev = (getNode hs i).prev) :
    DL hs' l ids := by
  refine ⟨h.start, h.end, ?_, ?_, ?_⟩
  · intro j i hj; rw [(hc i (List.mem_of_getElem? hj)).1]; exact h.next j i hj
  · intro j i hj; rw [(hc i (List.mem_of_getElem? hj)).2]; exact h.prev j i hj
  · intro i hj; rw [(hc i (List.mem_of_getElem? hj)).2]; exact h.prev0 i hj

theorem DL.next_mem {hs : HS} {l : HL} {ids : List Id} (h : DL hs l ids) {k i : Id} (hk : k ∈ ids)
    (hn : (getNode hs k).next = some i) : i ∈ ids := by
  obtain ⟨m, hm⟩ := List.getElem?_of_mem hk
  rw [h.next m k hm] at hn
  exact List.mem_of_getElem? hn

theorem DL.prev_mem {hs : HS} {l : HL} {ids : List Id} (h : DL hs l ids) {k i : Id} (hk : k ∈ ids)
    (hn : (getNode hs k).prev = some i) : i ∈ ids := by
  obtain ⟨m, hm⟩ := List.getElem?_of_mem hk
  cases m with
  | zero => rw [h.prev0 k hm] at hn; cases hn
  | succ m =>
    rw [h.prev m k hm] at hn
    exact List.mem_of_getElem? hn

theorem DL.getHandlers {hs : HS} {l : HL} {ids : List Id} (h : DL hs l ids) (hlen : ids.length ≤ hs.nodes.length) :
    walkFwd hs (hs.nodes.length + 1) l.start = ids := by
  rw [h.start, walkFwd_eq hs ids h.next _ 0 (by omega)]; rfl

theorem DL.walkBwd {hs : HS} {l : HL} {ids : List Id} (h : DL hs l ids) (hne : ids ≠ []) (hlen : ids.length ≤ hs.nodes.length) :
    walkBwd hs (hs.nodes.length + 1) l.«end» = ids.reverse ∧ l.start.isSome ∧ l.«end».isSome := by
  obtain ⟨q, hq⟩ : ∃ q, ids.length = q + 1 := by
    cases ids with
    | nil => exact absurd rfl hne
    | cons a t => exact ⟨t.length, rfl⟩
  rw [h.end q hq, h.start, walkBwd_eq hs ids h.prev h.prev0 q _ (by omega) (by omega)]
  refine ⟨?_, ?_, ?_⟩
  · rw [← hq, List.take_length]
  · simp; omega
  · simp; omega

/-! ## the refinement invariant -/

theorem add_none_node (ext : Go.UnicodeExt) (hs : HS) (ev0 : Bytes) (h : Nat)
    (hl : AL.lookup hs.set (Go.toLower ext ev0) = none) (i : Id) :
    getNode (add ext hs ev0 h).1 i =
      if i = hs.fresh then { event := Go.toLower ext ev0, handler := h } else getNode hs i := by
  rw [add_none ext hs ev0 h hl]
  show getNode (setNode hs _ _) i = _
  rw [getNode_setNode]
  by_cases hi : i = hs.fresh
  · subst hi; simp
  · rw [if_neg hi, if_neg (fun hc => hi hc.symm)]

/-- the refinement invariant between the heap model and the Spec; `n` Removers handed out, those in
`used` already used -/
structure Inv (hs : HS) (s : S) (n : Nat) (used : List Nat) : Prop where
  fresh : hs.fresh = n
  keys : AL.keys hs.nodes = List.range n
  snd : (AL.keys s).Nodup
  none_ : ∀ name, AL.lookup hs.set name = none → AL.lookup s name = none
  some_ : ∀ name l, AL.lookup hs.set name = some l →
    ∃ L, AL.lookup s name = some L ∧ L ≠ [] ∧ DL hs l (L.map (·.1))
  sub : ∀ name L, AL.lookup s name = some L → (L.map (·.1)).Sublist (List.range n)
  node : ∀ name L, AL.lookup s name = some L → ∀ p ∈ L,
    (getNode hs p.1).event = name ∧ (getNode hs p.1).handler = p.2
  unused : ∀ k, k < n → k ∉ used → ∃ L, AL.lookup s (getNode hs k).event = some L ∧ k ∈ L.map (·.1)

theorem Inv.init : Inv {} [] 0 [] := by
  refine ⟨rfl, rfl, by simp, fun _ _ => rfl, ?_, ?_, ?_, ?_⟩
  · intro name l h; cases h
  · intro name L h; cases h
  · intro name L h; cases h
  · intro k hk; omega

namespace Inv
variable {hs : HS} {s : S} {n : Nat} {used : List Nat}

theorem lt (I : Inv hs s n used) {name : Bytes} {L : List (Id × Nat)} (h : AL.lookup s name = some L)
    {i : Id} (hi : i ∈ L.map (·.1)) : i < n :=
  List.mem_range.1 ((I.sub name L h).subset hi)

theorem nodup (I : Inv hs s n used) {name : Bytes} {L : List (Id × Nat)} (h : AL.lookup s name = some L) :
    (L.map (·.1)).Nodup := (I.sub name L h).nodup List.nodup_range

theorem nodes_len (I : Inv hs s n used) : hs.nodes.length = n := by
  have := congrArg List.length I.keys
  simpa [AL.keys] using this

theorem len (I : Inv hs s n used) {name : Bytes} {L : List (Id × Nat)} (h : AL.lookup s name = some L) :
    (L.map (·.1)).length ≤ hs.nodes.length := by
  rw [I.nodes_len]; simpa using (I.sub name L h).length_le

theorem get (I : Inv hs s n used) {name : Bytes} {L : List (Id × Nat)} (h : AL.lookup s name = some L) :
    ∃ l, AL.lookup hs.set name = some l ∧ L ≠ [] ∧ DL hs l (L.map (·.1)) := by
  cases hl : AL.lookup hs.set name with
  | none => rw [I.none_ name hl] at h; cases h
  | some l =>
    obtain ⟨L', h1, h2, h3⟩ := I.some_ name l hl
    rw [h] at h1; cases h1
    exact ⟨l, rfl, h2, h3⟩

theorem mem_keys (I : Inv hs s n used) {i : Id} (h : i < n) : i ∈ AL.keys hs.nodes := by
  rw [I.keys]; exact List.mem_range.2 h

end Inv
/-! ## `add` preserves the invariant -/

namespace Inv
variable {hs : HS} {s : S} {n : Nat} {used : List Nat}

theorem add (ext : Go.UnicodeExt) (I : Inv hs s n used) (ev0 : Bytes) (h : Nat) :
    Inv (Go.HSet.add ext hs ev0 h).1 (Spec.HSet.add ext s ev0 n h) (n + 1) used := by
  have hfresh := I.fresh
  have hfk : hs.fresh ∉ AL.keys hs.nodes := by rw [I.keys, hfresh]; simp
  -- the Spec side
  have hS : ∀ name, AL.lookup (Spec.HSet.add ext s ev0 n h) name =
      if Go.toLower ext ev0 = name then some ((AL.lookup s (Go.toLower ext ev0)).getD [] ++ [(n, h)])
      else AL.lookup s name := by
    intro name; unfold Spec.HSet.add; simp only [AL.lookup_insert]
  have hrange : List.range (n + 1) = List.range n ++ [n] := List.range_succ
  cases hl : AL.lookup hs.set (Go.toLower ext ev0) with
  | none =>
    have hsn := I.none_ _ hl
    have hG := add_none_node ext hs ev0 h hl
    have hE := add_none ext hs ev0 h hl
    have hset : ∀ name, AL.lookup (Go.HSet.add ext hs ev0 h).1.set name =
        if Go.toLower ext ev0 = name then some ⟨some n, some n⟩ else AL.lookup hs.set name := by
      intro name; rw [hE]; simp only [AL.lookup_insert, hfresh]
    have hold : ∀ i, i < n → getNode (Go.HSet.add ext hs ev0 h).1 i = getNode hs i := by
      intro i hi; rw [hG, if_neg (by rw [hfresh]; omega : ¬ i = hs.fresh)]
    have hnew : getNode (Go.HSet.add ext hs ev0 h).1 n = { event := Go.toLower ext ev0, handler := h } := by
      rw [hG, if_pos hfresh.symm]
    simp only [hsn, Option.getD_none, List.nil_append] at hS
    refine ⟨?_, ?_, ?_, ?_, ?_, ?_, ?_, ?_⟩
    · rw [hE, hfresh]
    · rw [hE]; simp only [AL.keys_insert, if_neg hfk]; rw [I.keys, hfresh, hrange]
    · exact AL.nodup_insert I.snd _ _
    · intro name hn
      rw [hset] at hn; rw [hS]
      split at hn
      · cases hn
      · rename_i hne; rw [if_neg hne]; exact I.none_ name hn
    · intro name l hn
      rw [hset] at hn; rw [hS]
      split at hn
      · cases hn
        rename_i heq
        rw [if_pos heq]
        refine ⟨_, rfl, by simp, ?_⟩
        exact DL_single (by rw [hnew]) (by rw [hnew])
      · rename_i hne; rw [if_neg hne]
        obtain ⟨L, h1, h2, h3⟩ := I.some_ name l hn
        refine ⟨L, h1, h2, DL_congr h3 ?_⟩
        intro i hi
        rw [hold i (I.lt h1 hi)]; exact ⟨rfl, rfl⟩
    · intro name L hL
      rw [hS] at hL
      split at hL
      · cases hL; simp [hrange]
      · rw [hrange]; exact (I.sub name L hL).trans (List.sublist_append_left _ _)
    · intro name L hL p hp
      rw [hS] at hL
      split at hL
      · cases hL
        simp only [List.mem_singleton] at hp; subst hp
        rename_i heq
        simp only [hnew, heq, and_self]
      · have hlt : p.1 < n := I.lt hL (List.mem_map.2 ⟨p, hp, rfl⟩)
        rw [hold _ hlt]; exact I.node name L hL p hp
    · intro k hk hu
      by_cases hkn : k = n
      · subst hkn
        rw [hnew, hS]; simp
      · have hlt : k < n := by omega
        rw [hold k hlt, hS]
        obtain ⟨L, h1, h2⟩ := I.unused k hlt hu
        have : Go.toLower ext ev0 ≠ (getNode hs k).event := by
          intro hc; rw [← hc, hsn] at h1; cases h1
        rw [if_neg this]
        exact ⟨L, h1, h2⟩
  | some l =>
    obtain ⟨L, hL, hLne, hDL⟩ := I.some_ _ l hl
    obtain ⟨q, hq⟩ : ∃ q, (L.map (·.1)).length = q + 1 := by
      cases L with
      | nil => exact absurd rfl hLne
      | cons a t => exact ⟨t.length, by simp⟩
    obtain ⟨e, he⟩ : ∃ e, (L.map (·.1))[q]? = some e := ⟨(L.map (·.1))[q], by simp [hq]⟩
    have hend : l.«end» = some e := by rw [hDL.end q hq, he]
    have hemem : e ∈ L.map (·.1) := List.mem_of_getElem? he
    have helt : e < n := I.lt hL hemem
    have hene : e ≠ hs.fresh := by rw [hfresh]; exact Nat.ne_of_lt helt
    have heev : (getNode hs e).event = Go.toLower ext ev0 := by
      obtain ⟨p, hp, rfl⟩ := List.mem_map.1 hemem
      exact (I.node _ L hL p hp).1
    have hG := add_some_node ext hs ev0 h l e hl hend hene
    have hset : ∀ name, AL.lookup (Go.HSet.add ext hs ev0 h).1.set name =
        if Go.toLower ext ev0 = name then some ⟨l.start, some n⟩ else AL.lookup hs.set name := by
      intro name; rw [(add_some_set ext hs ev0 h l hl).1]; simp only [AL.lookup_insert, hfresh]
    have hnew : getNode (Go.HSet.add ext hs ev0 h).1 n =
        { event := Go.toLower ext ev0, handler := h, prev := some e } := by
      rw [hG, if_pos hfresh.symm]
    have hold : ∀ i, i < n → i ≠ e → getNode (Go.HSet.add ext hs ev0 h).1 i = getNode hs i := by
      intro i hi hie; rw [hG, if_neg (by rw [hfresh]; omega : ¬ i = hs.fresh), if_neg hie]
    have hev : ∀ i, i < n → (getNode (Go.HSet.add ext hs ev0 h).1 i).event = (getNode hs i).event ∧
        (getNode (Go.HSet.add ext hs ev0 h).1 i).handler = (getNode hs i).handler ∧
        (getNode (Go.HSet.add ext hs ev0 h).1 i).prev = (getNode hs i).prev := by
      intro i hi; rw [hG, if_neg (by rw [hfresh]; omega : ¬ i = hs.fresh)]
      split
      · rename_i h2; subst h2; exact ⟨rfl, rfl, rfl⟩
      · exact ⟨rfl, rfl, rfl⟩
    simp only [hL, Option.getD_some] at hS
    have hnmem : n ∉ L.map (·.1) := fun hc => Nat.lt_irrefl _ (I.lt hL hc)
    refine ⟨?_, ?_, ?_, ?_, ?_, ?_, ?_, ?_⟩
    · rw [(add_some_set ext hs ev0 h l hl).2, hfresh]
    · rw [add_some_keys ext hs ev0 h l e hl hend (I.mem_keys helt) hfk, I.keys, hfresh, hrange]
    · exact AL.nodup_insert I.snd _ _
    · intro name hn
      rw [hset] at hn; rw [hS]
      split at hn
      · cases hn
      · rename_i hne; rw [if_neg hne]; exact I.none_ name hn
    · intro name l' hn
      rw [hset] at hn; rw [hS]
      split at hn
      · cases hn
        rename_i heq
        rw [if_pos heq]
        refine ⟨_, rfl, by simp, ?_⟩
        rw [List.map_append]
        refine DL_add hnmem (by simpa using hLne) (I.nodup hL) hDL ?_ ?_ ?_ ?_
        · intro i hi
          rw [hG, if_neg (by rw [hfresh]; exact hi), hend]
          by_cases hie : i = e
          · subst hie; simp [hfresh]
          · rw [if_neg hie, if_neg (by simpa using fun hc => hie hc.symm)]
        · intro i hi
          rw [hG, if_neg (by rw [hfresh]; exact hi)]
          split
          · rename_i h2; subst h2; rfl
          · rfl
        · rw [hnew]
        · rw [hnew, hend]
      · rename_i hne; rw [if_neg hne]
        obtain ⟨L1, h1, h2, h3⟩ := I.some_ name l' hn
        refine ⟨L1, h1, h2, DL_congr h3 ?_⟩
        intro i hi
        have hie : i ≠ e := by
          intro hc; subst hc
          obtain ⟨p, hp, rfl⟩ := List.mem_map.1 hi
          exact hne (heev.symm.trans (I.node name L1 h1 p hp).1)
        rw [hold i (I.lt h1 hi) hie]; exact ⟨rfl, rfl⟩
    · intro name L1 hL1
      rw [hS] at hL1
      split at hL1
      · cases hL1
        rw [List.map_append, hrange]
        exact List.Sublist.append (I.sub _ L hL) (List.Sublist.refl _)
      · rw [hrange]; exact (I.sub name L1 hL1).trans (List.sublist_append_left _ _)
    · intro name L1 hL1 p hp
      rw [hS] at hL1
      split at hL1
      · cases hL1
        rename_i heq
        rcases List.mem_append.1 hp with hp | hp
        · have hlt : p.1 < n := I.lt hL (List.mem_map.2 ⟨p, hp, rfl⟩)
          rw [(hev _ hlt).1, (hev _ hlt).2.1, ← heq]; exact I.node _ L hL p hp
        · simp only [List.mem_singleton] at hp; subst hp
          simp only [hnew, heq, and_self]
      · have hlt : p.1 < n := I.lt hL1 (List.mem_map.2 ⟨p, hp, rfl⟩)
        rw [(hev _ hlt).1, (hev _ hlt).2.1]; exact I.node name L1 hL1 p hp
    · intro k hk hu
      by_cases hkn : k = n
      · subst hkn
        rw [hnew, hS]; simp
      · have hlt : k < n := by omega
        rw [(hev k hlt).1, hS]
        obtain ⟨L1, h1, h2⟩ := I.unused k hlt hu
        by_cases hc : Go.toLower ext ev0 = (getNode hs k).event
        · rw [if_pos hc]
          rw [← hc, hL] at h1; cases h1
          exact ⟨_, rfl, by rw [List.map_append]; exact List.mem_append_left _ h2⟩
        · rw [if_neg hc]; exact ⟨L1, h1, h2⟩

end Inv
/-! ## `remove` preserves the invariant -/

namespace Inv
variable {hs : HS} {s : S} {n : Nat} {used : List Nat}

theorem remove (I : Inv hs s n used) (k : Nat) (hk : k < n) (hu : k ∉ used) :
    Inv (Go.HSet.remove hs k) (Spec.HSet.remove s k) n (k :: used) := by
  obtain ⟨L, hL, hkL⟩ := I.unused k hk hu
  obtain ⟨l, hl, hLne, hDL⟩ := I.get hL
  obtain ⟨m, hm⟩ := List.getElem?_of_mem hkL
  have hG := getNode_remove hs k l hl
  have hSet := remove_set hs k l hl
  have hS := lookup_remove s I.snd k
  have hnd := I.nodup hL
  -- nodes of the list carry its name
  have hevL : ∀ i ∈ L.map (·.1), (getNode hs i).event = (getNode hs k).event := by
    intro i hi
    obtain ⟨p, hp, rfl⟩ := List.mem_map.1 hi
    exact (I.node _ L hL p hp).1
  have hev : ∀ i, (getNode (Go.HSet.remove hs k) i).event = (getNode hs i).event ∧
      (getNode (Go.HSet.remove hs k) i).handler = (getNode hs i).handler := by
    intro i; rw [hG]
    split
    · rename_i h; subst h; exact ⟨rfl, rfl⟩
    · exact ⟨rfl, rfl⟩
  have hother : ∀ i, (getNode hs i).event ≠ (getNode hs k).event →
      (getNode (Go.HSet.remove hs k) i).next = (getNode hs i).next ∧
      (getNode (Go.HSet.remove hs k) i).prev = (getNode hs i).prev := by
    intro i hi
    have hik : i ≠ k := fun hc => hi (hc ▸ rfl)
    rw [hG, if_neg hik]
    have h1 : (getNode hs k).prev ≠ some i := fun hc => hi (hevL i (hDL.prev_mem hkL hc))
    have h2 : (getNode hs k).next ≠ some i := fun hc => hi (hevL i (hDL.next_mem hkL hc))
    simp only [if_neg h1, if_neg h2, and_self]
  -- the new list
  have hmapf : (L.filter (·.1 != k)).map (·.1) = (L.map (·.1)).eraseIdx m := by
    rw [← filter_ne_eq_eraseIdx hnd hm, List.filter_map]; rfl
  have hDL' := DL_remove (hs' := Go.HSet.remove hs k) hnd hDL hm
    (fun i hi => by rw [hG, if_neg hi]) (fun i hi => by rw [hG, if_neg hi])
  rw [← hmapf] at hDL'
  generalize hl2 : (⟨if (getNode hs k).prev = none then (getNode hs k).next else l.start,
            if (getNode hs k).next = none then (getNode hs k).prev else l.«end»⟩ : HL) = l2 at hDL' hSet
  dsimp only at hSet
  have hcond : (l2.start.isNone || l2.«end».isNone) = (L.filter (·.1 != k)).isEmpty := by
    cases hf : L.filter (·.1 != k) with
    | nil =>
      have := hDL'.start; rw [hf] at this
      simp at this; simp [this]
    | cons a t =>
      have h1 := hDL'.start
      have h2 := hDL'.end t.length (by rw [hf]; simp)
      rw [hf] at h1 h2
      have : ((a :: t).map (·.1))[t.length]? = some ((a :: t).map (·.1))[t.length] := by simp
      rw [this] at h2
      simp at h1
      simp [h1, h2]
  have hset : ∀ name, AL.lookup (Go.HSet.remove hs k).set name =
      if (getNode hs k).event = name then
        (if (L.filter (·.1 != k)).isEmpty then none else some l2)
      else AL.lookup hs.set name := by
    intro name
    rw [hSet, hcond]
    split <;> simp only [AL.lookup_erase, AL.lookup_insert]
  -- other lists are untouched on the Spec side
  have hfilt : ∀ name L1, AL.lookup s name = some L1 → (getNode hs k).event ≠ name →
      L1.filter (·.1 != k) = L1 := by
    intro name L1 h1 hne
    rw [List.filter_eq_self]
    intro p hp
    simp only [bne_iff_ne, ne_eq]
    intro hc
    have := (I.node name L1 h1 p hp).1
    rw [hc] at this; exact hne this
  have hS2 : ∀ name L1', AL.lookup (Spec.HSet.remove s k) name = some L1' →
      ∃ L1, AL.lookup s name = some L1 ∧ L1' = L1.filter (·.1 != k) := by
    intro name L1' h1
    rw [hS] at h1
    cases h2 : AL.lookup s name with
    | none => rw [h2] at h1; cases h1
    | some L1 =>
      rw [h2] at h1; simp only [Option.bind_some] at h1
      split at h1
      · cases h1
      · cases h1; exact ⟨L1, rfl, rfl⟩
  refine ⟨?_, ?_, ?_, ?_, ?_, ?_, ?_, ?_⟩
  · rw [remove_fresh, I.fresh]
  · rw [remove_keys hs k (I.mem_keys hk), I.keys]
    · intro i hi; exact I.mem_keys (I.lt hL (hDL.next_mem hkL hi))
    · intro i hi; exact I.mem_keys (I.lt hL (hDL.prev_mem hkL hi))
  · exact keys_remove_nodup s I.snd k
  · intro name hn
    rw [hset] at hn; rw [hS]
    split at hn
    · rename_i heq; subst heq
      split at hn
      · rename_i hemp; rw [hL]; simp only [Option.bind_some, hemp, if_true]
      · cases hn
    · rw [I.none_ name hn]; rfl
  · intro name l' hn
    rw [hset] at hn; rw [hS]
    split at hn
    · rename_i heq; subst heq
      split at hn
      · cases hn
      · rename_i hemp
        cases hn
        rw [hL]; simp only [Option.bind_some, if_neg hemp]
        exact ⟨_, rfl, by simpa using hemp, hDL'⟩
    · rename_i hne
      obtain ⟨L1, h1, h2, h3⟩ := I.some_ name l' hn
      rw [h1]; simp only [Option.bind_some, hfilt name L1 h1 hne]
      have : ¬ L1.isEmpty := by simpa using h2
      rw [if_neg this]
      refine ⟨L1, rfl, h2, DL_congr h3 ?_⟩
      intro i hi
      apply hother
      obtain ⟨p, hp, rfl⟩ := List.mem_map.1 hi
      rw [(I.node name L1 h1 p hp).1]; exact fun hc => hne hc.symm
  · intro name L1' h1
    obtain ⟨L1, h2, rfl⟩ := hS2 name L1' h1
    exact (List.filter_sublist.map _).trans (I.sub name L1 h2)
  · intro name L1' h1 p hp
    obtain ⟨L1, h2, rfl⟩ := hS2 name L1' h1
    rw [(hev p.1).1, (hev p.1).2]
    exact I.node name L1 h2 p (List.mem_filter.1 hp).1
  · intro k' hk' hu'
    simp only [List.mem_cons, not_or] at hu'
    obtain ⟨L1, h1, h2⟩ := I.unused k' hk' hu'.2
    rw [(hev k').1, hS, h1]
    obtain ⟨p, hp, hpk⟩ := List.mem_map.1 h2
    have hpf : p ∈ L1.filter (·.1 != k) := by
      rw [List.mem_filter]; refine ⟨hp, ?_⟩
      simp only [bne_iff_ne, ne_eq]; rw [hpk]; exact hu'.1
    have : ¬ (L1.filter (·.1 != k)).isEmpty := by
      intro hc; rw [List.isEmpty_iff] at hc; rw [hc] at hpf; cases hpf
    simp only [Option.bind_some, if_neg this]
    exact ⟨_, rfl, List.mem_map.2 ⟨p, hpf, hpk⟩⟩
end Inv
/-! ## what the invariant gives -/

namespace Inv
variable {hs : HS} {s : S} {n : Nat} {used : List Nat}

theorem getHandlers_eq (I : Inv hs s n used) (name : Bytes) :
    getHandlers hs name = ((AL.lookup s name).getD []).map (·.1) := by
  unfold getHandlers
  cases hl : AL.lookup hs.set name with
  | none => simp [I.none_ name hl]
  | some l =>
    obtain ⟨L, h1, _, h3⟩ := I.some_ name l hl
    simp only [h1, Option.getD_some]
    exact h3.getHandlers (I.len h1)

theorem links (I : Inv hs s n used) (name : Bytes) :
    match AL.lookup hs.set name with
    | some l => walkBwd hs (hs.nodes.length + 1) l.«end» = (((AL.lookup s name).getD []).map (·.1)).reverse ∧
        l.start.isSome ∧ l.«end».isSome
    | none => (AL.lookup s name).getD [] = [] := by
  cases hl : AL.lookup hs.set name with
  | none => simp [I.none_ name hl]
  | some l =>
    obtain ⟨L, h1, h2, h3⟩ := I.some_ name l hl
    simp only [h1, Option.getD_some]
    exact h3.walkBwd (by simpa using h2) (I.len h1)

theorem dispatchList_eq (ext : Go.UnicodeExt) (I : Inv hs s n used) (cmd : Bytes) :
    dispatchList ext hs cmd = handlersFor ext s cmd := by
  unfold dispatchList handlersFor
  rw [I.getHandlers_eq, List.map_map]
  cases hL : AL.lookup s (Go.toLower ext cmd) with
  | none => rfl
  | some L =>
    simp only [Option.getD_some]
    apply List.map_congr_left
    intro p hp
    exact (I.node _ L hL p hp).2

end Inv

end Go.HSet

namespace Spec.HSet
open Go.HSet

theorem lookup_remove_getD (s : S) (nd : (AL.keys s).Nodup) (k : Id) (name : Bytes) :
    ((AL.lookup (remove s k) name).getD []) = ((AL.lookup s name).getD []).filter (·.1 != k) := by
  rw [lookup_remove s nd]
  cases AL.lookup s name with
  | none => rfl
  | some L =>
    simp only [Option.bind_some, Option.getD_some]
    split
    · rename_i h; simp only [Option.getD_none]; exact (List.isEmpty_iff.1 h).symm
    · rfl

end Spec.HSet
