import Goirc.Proofs.C13Parse
/-!
# C13: decimal rendering (`toString` on `Nat` / `Int`) is read back by `Go.atoi`
-/
namespace Proofs.C13
open Go Go.Client Go.Tracker Spec.Tracker Spec.Net

/-- the bytes of the decimal digits of `k` -/
def decBytes (k : Nat) : Bytes := (Nat.toDigits 10 k).map (fun c => c.toNat.toUInt8)

theorem natBytes_eq_decBytes (k : Nat) : natBytes k = decBytes k := by
  simp [natBytes, lit, decBytes]

theorem digitByte (d : Nat) (h : d < 10) : (Nat.digitChar d).toNat.toUInt8 = (48 + d).toUInt8 := by
  rw [Nat.toNat_digitChar_of_lt_ten h]

theorem decBytes_lt (k : Nat) (h : k < 10) : decBytes k = [(48 + k).toUInt8] := by
  simp [decBytes, Nat.toDigits_of_lt_base h, digitByte k h]

theorem decBytes_ge (k : Nat) (h : 10 ≤ k) : decBytes k = decBytes (k / 10) ++ [(48 + k % 10).toUInt8] := by
  simp [decBytes, Nat.toDigits_of_base_le (by decide : 1 < 10) h, digitByte (k % 10) (Nat.mod_lt _ (by decide))]

theorem digitsVal_snoc (l : Bytes) (d : Nat) (hd : d < 10) (acc : Nat) :
    digitsVal (l ++ [(48 + d).toUInt8]) acc = (digitsVal l acc).map (fun v => v * 10 + d) := by
  induction l generalizing acc with
  | nil =>
    have h1 : (48 + d).toUInt8.toNat = 48 + d := by
      simp [Nat.toUInt8, UInt8.toNat_ofNat']; omega
    have h2 : (48 : UInt8) ≤ (48 + d).toUInt8 ∧ (48 + d).toUInt8 ≤ 57 := by
      rw [UInt8.le_iff_toNat_le, UInt8.le_iff_toNat_le, h1]
      exact ⟨by simp, by simp; omega⟩
    generalize (48 + d).toUInt8 = b at h1 h2
    simp [digitsVal, h2, h1]
  | cons b r ih =>
    simp only [List.cons_append, digitsVal]
    split
    · exact ih _
    · rfl

theorem digitsVal_decBytes (k : Nat) : digitsVal (decBytes k) 0 = some k := by
  induction k using Nat.strongRecOn with
  | _ k ih =>
    by_cases h : k < 10
    · rw [decBytes_lt k h]
      have := digitsVal_snoc [] k h 0
      simpa [digitsVal] using this
    · rw [decBytes_ge k (by omega), digitsVal_snoc _ _ (Nat.mod_lt _ (by decide)), ih (k / 10) (by omega)]
      simp; omega

theorem decBytes_digit (k : Nat) : ∀ b ∈ decBytes k, (48 : UInt8) ≤ b ∧ b ≤ 57 := by
  intro b hb
  simp only [decBytes, List.mem_map] at hb
  obtain ⟨c, hc, rfl⟩ := hb
  have hd := Nat.isDigit_of_mem_toDigits (by decide) (by decide) hc
  simp only [Char.isDigit, ge_iff_le, Bool.and_eq_true, decide_eq_true_eq] at hd
  have h1 : 48 ≤ c.toNat ∧ c.toNat ≤ 57 := by
    obtain ⟨a, b⟩ := hd
    rw [UInt32.le_iff_toNat_le] at a b
    exact ⟨a, b⟩
  have h2 : c.toNat.toUInt8.toNat = c.toNat := by
    simp [Nat.toUInt8, UInt8.toNat_ofNat']; omega
  rw [UInt8.le_iff_toNat_le, UInt8.le_iff_toNat_le, h2]
  exact h1

theorem decBytes_ne_nil (k : Nat) : decBytes k ≠ [] := by
  simp [decBytes]

theorem atoi_decBytes (k : Nat) (h : k < 100000) : Go.atoi (decBytes k) = (k : Int) := by
  have hne := decBytes_ne_nil k
  have hdig := decBytes_digit k
  have hv := digitsVal_decBytes k
  cases hs : decBytes k with
  | nil => exact absurd hs hne
  | cons b r =>
    rw [hs] at hdig hv
    have hb := hdig b (by simp)
    have h43 : b ≠ 43 := by rintro rfl; exact absurd hb.1 (by decide)
    have h45 : b ≠ 45 := by rintro rfl; exact absurd hb.1 (by decide)
    unfold Go.atoi
    split
    rename_i neg body heq
    have : neg = false ∧ body = b :: r := by
      split at heq
      · rename_i h; exact absurd (List.cons.inj h).1 h43
      · rename_i h; exact absurd (List.cons.inj h).1 h45
      · exact ⟨(Prod.mk.inj heq).1.symm, (Prod.mk.inj heq).2.symm⟩
    obtain ⟨rfl, rfl⟩ := this
    simp only [List.isEmpty_cons, Bool.false_eq_true, ↓reduceIte, hv]
    have : ¬ k > 9223372036854775807 := by omega
    simp [this]

theorem atoi_natBytes (k : Nat) (h : k < 100000) : Go.atoi (Spec.Net.natBytes k) = (k : Int) := by
  rw [natBytes_eq_decBytes]; exact atoi_decBytes k h

theorem natBytes_midOk (k : Nat) : midOk (Spec.Net.natBytes k) = true := by
  rw [natBytes_eq_decBytes]
  have hne := decBytes_ne_nil k
  have hdig := decBytes_digit k
  cases hs : decBytes k with
  | nil => exact absurd hs hne
  | cons b r =>
    rw [hs] at hdig
    have hb := hdig b (by simp)
    simp only [midOk, List.isEmpty_cons, Bool.not_false, List.head?_cons, Bool.true_and, Bool.and_eq_true,
      bne_iff_ne, ne_eq, Option.some.injEq, List.all_eq_true, decide_eq_true_eq]
    refine ⟨?_, ?_⟩
    · rintro rfl; exact absurd hb.2 (by decide)
    · intro x hx
      have := hdig x hx
      rw [UInt8.le_iff_toNat_le, UInt8.le_iff_toNat_le] at this
      rw [UInt8.lt_iff_toNat_lt, UInt8.lt_iff_toNat_lt]
      simp at this ⊢; omega

theorem toString_int_ofNat (m : Nat) : toString (Int.ofNat m) = toString m := rfl

theorem atoi_toString_int (z : Int) (h0 : 0 ≤ z) (h1 : z < 100000) : Go.atoi (lit (toString z)) = z := by
  obtain ⟨m, rfl⟩ := Int.eq_ofNat_of_zero_le h0
  have := atoi_natBytes m (by omega)
  exact this

theorem toString_int_midOk (z : Int) (h0 : 0 ≤ z) : midOk (lit (toString z)) = true := by
  obtain ⟨m, rfl⟩ := Int.eq_ofNat_of_zero_le h0
  exact natBytes_midOk m

end Proofs.C13
