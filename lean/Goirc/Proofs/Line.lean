import Goirc.Model.Line
import Goirc.Spec.Irc
/-! Helper lemmas for C01 / C02. -/
namespace Go
open Spec.Irc

theorem unescapeTag_cons_ne (x : UInt8) (xs : Bytes) (h : x ≠ 92) : unescapeTag (x :: xs) = x :: unescapeTag xs := by
  cases xs with
  | nil => simp [unescapeTag]
  | cons y ys => simp [unescapeTag, h]

theorem unescape_escape (v : Bytes) : unescapeTag (escapeTag v) = v := by
  induction v with
  | nil => simp [escapeTag, unescapeTag]
  | cons x xs ih =>
    simp only [escapeTag, esc1]
    split
    · rename_i h; simp at h; subst h; simp [unescapeTag, unesc1, ih]
    · split
      · rename_i h; simp at h; subst h; simp [unescapeTag, unesc1, ih]
      · split
        · rename_i h; simp at h; subst h; simp [unescapeTag, unesc1, ih]
        · split
          · rename_i h; simp at h; subst h; simp [unescapeTag, unesc1, ih]
          · split
            · rename_i h; simp at h; subst h; simp [unescapeTag, unesc1, ih]
            · rename_i h1 h2 h3 h4 h5
              simp at h3
              simp only [List.singleton_append]
              rw [unescapeTag_cons_ne _ _ h3, ih]

end Go

namespace Go
open Spec.Irc

theorem accessors_consistent (l : Line) : accessorsOk l l.text l.public l.target = true := by
  unfold accessorsOk Line.text Line.target Line.public
  by_cases h1 : (l.cmd == PRIVMSG || l.cmd == NOTICE || l.cmd == ACTION) = true
  · simp only [h1, if_true, Bool.true_or, Bool.true_and]
    have h2 : (l.cmd == CTCP || l.cmd == CTCPREPLY) = false := by
      simp only [Bool.or_eq_true, beq_iff_eq] at h1
      rcases h1 with (h | h) | h <;> rw [h] <;> decide
    simp only [h2, Bool.false_eq_true, if_false]
    rcases hl : l.args with _ | ⟨a, rest⟩
    · simp
    · cases a with
      | nil => simp
      | cons b a' => cases hb : isChanPrefix b <;> simp [hb]
  · simp only [Bool.not_eq_true] at h1
    simp only [h1, Bool.false_eq_true, if_false, Bool.false_or]
    by_cases h2 : (l.cmd == CTCP || l.cmd == CTCPREPLY) = true
    · simp only [h2, if_true, Bool.true_and]
      rcases hl : l.args with _ | ⟨a0, rest⟩
      · simp
      · rcases rest with _ | ⟨a, rest'⟩
        · simp
        · cases a with
          | nil => simp
          | cons b a' => cases hb : isChanPrefix b <;> simp [hb]
    · simp only [Bool.not_eq_true] at h2
      simp [h2]

end Go
