import Goirc.Model.Life
/-!
# Helper lemmas for C06 (Life LTS invariant)
-/
namespace Proofs.C06
open Go.Life

/-! ## counting events -/

def cnt (p : Ev → Bool) (l : List Ev) : Nat := (l.filter p).length

theorem cnt_snoc (p : Ev → Bool) (l : List Ev) (e : Ev) :
    cnt p (l ++ [e]) = cnt p l + (if p e then 1 else 0) := by
  simp only [cnt, List.filter_append, List.length_append]
  by_cases h : p e <;> simp [List.filter, h]

theorem cnt_eq_zero {p : Ev → Bool} {l : List Ev} (h : ∀ e ∈ l, p e = false) : cnt p l = 0 := by
  simp only [cnt, List.length_eq_zero_iff, List.filter_eq_nil_iff]
  intro a ha; simp [h a ha]

theorem cnt_pos_of_mem {p : Ev → Bool} {l : List Ev} {e : Ev} (he : e ∈ l) (hp : p e = true) : 1 ≤ cnt p l := by
  have : e ∈ l.filter p := List.mem_filter.mpr ⟨he, hp⟩
  simp only [cnt]
  exact List.length_pos_of_mem this

def isReg (g : Gen) : Ev → Bool
  | .register g' _ => g' = g
  | _ => false

def isDisc (g : Gen) : Ev → Bool
  | .disconnected g' _ _ => g' = g
  | _ => false

def isOk (g : Gen) : Ev → Bool := fun e => e = .connectOk g

theorem isReg_false_of {g : Gen} {l : List Ev} (h : ∀ f, Ev.register g f ∉ l) : ∀ e ∈ l, isReg g e = false := by
  intro e he
  cases e <;> simp [isReg]
  rename_i g' f
  intro e'; subst e'; exact h f he

theorem isDisc_false_of {g : Gen} {l : List Ev} (h : ∀ f k, Ev.disconnected g f k ∉ l) : ∀ e ∈ l, isDisc g e = false := by
  intro e he
  cases e <;> simp [isDisc]
  rename_i g' f k
  intro e'; subst e'; exact h f k he

theorem isOk_false_of {g : Gen} {l : List Ev} (h : Ev.connectOk g ∉ l) : ∀ e ∈ l, isOk g e = false := by
  intro e he
  simp [isOk]
  intro e'; subst e'; exact h he

/-! ## the invariant -/

def upd (thr : Tid → TPc) (t : Tid) (p : TPc) : Tid → TPc := fun u => if u = t then p else thr u

@[simp, grind =] theorem upd_apply (thr : Tid → TPc) (t : Tid) (p : TPc) (u : Tid) :
    upd thr t p u = if u = t then p else thr u := rfl

structure Inv (mu : Option Tid) (c : Bool) (cur : Gen) (thr : Tid → TPc) (log : List Ev) : Prop where
  holder : ∀ t, mu = some t ↔ (thr t = .cLocked ∨ (∃ tg, thr t = .xLocked tg) ∨ (∃ g, thr t = .xDrain g))
  drainCur : ∀ t g, thr t = .xDrain g → g = cur ∧ c = false
  connT : c = true → 1 ≤ cur ∧ Ev.tested cur ∉ log
  testedLe : ∀ g, Ev.tested g ∈ log → 1 ≤ g ∧ g ≤ cur
  testedAll : ∀ g, 1 ≤ g → g ≤ cur → (g = cur ∧ c = true) ∨ Ev.tested g ∈ log
  closer : ∀ t g, (thr t = .xDrain g ∨ thr t = .xFire g) → Ev.tested g ∈ log ∧ ∀ f k, Ev.disconnected g f k ∉ log
  closerUniq : ∀ t u g, (thr t = .xDrain g ∨ thr t = .xFire g) → (thr u = .xDrain g ∨ thr u = .xFire g) → t = u
  discCnt : ∀ g, cnt (isDisc g) log ≤ 1
  discFlag : ∀ g f k, Ev.disconnected g f k ∈ log → Ev.tested g ∈ log ∧ g ≤ k ∧ (f = true → g < k)
  connr : ∀ t g, (thr t = .cRegister g ∨ thr t = .cRet g) → 1 ≤ g ∧ g ≤ cur ∧ Ev.connectOk g ∉ log
  connrUniq : ∀ t u g, (thr t = .cRegister g ∨ thr t = .cRet g) → (thr u = .cRegister g ∨ thr u = .cRet g) → t = u
  regNone : ∀ t g, thr t = .cRegister g → ∀ f, Ev.register g f ∉ log
  retReg : ∀ t g, thr t = .cRet g → ∃ f, Ev.register g f ∈ log
  regCnt : ∀ g, cnt (isReg g) log ≤ 1
  regLe : ∀ g f, Ev.register g f ∈ log → 1 ≤ g ∧ g ≤ cur
  regFlag : ∀ g, Ev.register g false ∈ log → Ev.tested g ∈ log
  okCnt : ∀ g, cnt (isOk g) log ≤ 1
  okReg : ∀ g, Ev.connectOk g ∈ log → ∃ f, Ev.register g f ∈ log
  regAll : ∀ g, 1 ≤ g → g ≤ cur → (∃ f, Ev.register g f ∈ log) ∨ ∃ t, thr t = .cRegister g

def neutral (p : TPc) : Prop := p = .idle ∨ p = .cWant ∨ ∃ tg, p = .xWant tg

theorem inv_init : Inv none false 0 (fun _ => .idle) [] := by
  constructor <;> simp [cnt]
  all_goals grind

theorem inv_neutral {mu c cur thr log} (h : Inv mu c cur thr log) (t : Tid) (p : TPc)
    (h1 : neutral (thr t)) (h2 : neutral p) : Inv mu c cur (upd thr t p) log := by
  unfold neutral at h1 h2
  constructor
  · have := h.holder; grind
  · have := h.drainCur; grind
  · exact h.connT
  · exact h.testedLe
  · exact h.testedAll
  · have := h.closer; grind
  · have := h.closerUniq; grind
  · exact h.discCnt
  · exact h.discFlag
  · have := h.connr; grind
  · have := h.connrUniq; grind
  · have := h.regNone; grind
  · have := h.retReg; grind
  · exact h.regCnt
  · exact h.regLe
  · exact h.regFlag
  · exact h.okCnt
  · exact h.okReg
  · intro g hg1 hg2
    rcases h.regAll g hg1 hg2 with h' | ⟨u, hu⟩
    · exact Or.inl h'
    · exact Or.inr ⟨u, by grind⟩

theorem regAll_upd {cur : Gen} {thr : Tid → TPc} {log : List Ev} {t : Tid} {p : TPc}
    (h : ∀ g : Gen, 1 ≤ g → g ≤ cur → (∃ f, Ev.register g f ∈ log) ∨ ∃ t, thr t = .cRegister g)
    (ht : ∀ g, thr t ≠ .cRegister g) :
    ∀ g : Gen, 1 ≤ g → g ≤ cur → (∃ f, Ev.register g f ∈ log) ∨ ∃ u, upd thr t p u = .cRegister g := by
  intro g hg1 hg2
  rcases h g hg1 hg2 with h' | ⟨u, hu⟩
  · exact Or.inl h'
  · exact Or.inr ⟨u, by grind⟩

theorem inv_log_irrel {mu c cur thr log} (h : Inv mu c cur thr log) (e : Ev)
    (he : e = .connectErr ∨ ∃ tg, e = .closeNoop tg) : Inv mu c cur thr (log ++ [e]) := by
  constructor
  · exact h.holder
  · exact h.drainCur
  · have := h.connT; grind
  · have := h.testedLe; grind
  · have := h.testedAll; grind
  · have := h.closer; grind
  · exact h.closerUniq
  · intro g; rw [cnt_snoc]; have := h.discCnt g; rcases he with he | ⟨tg, he⟩ <;> subst he <;> simpa [isDisc]
  · have := h.discFlag; grind
  · have := h.connr; grind
  · exact h.connrUniq
  · have := h.regNone; grind
  · have := h.retReg; grind
  · intro g; rw [cnt_snoc]; have := h.regCnt g; rcases he with he | ⟨tg, he⟩ <;> subst he <;> simpa [isReg]
  · have := h.regLe; grind
  · have := h.regFlag; grind
  · intro g; rw [cnt_snoc]; have := h.okCnt g; rcases he with he | ⟨tg, he⟩ <;> subst he <;> simpa [isOk]
  · have := h.okReg; grind
  · have := h.regAll; grind

theorem inv_lock {c cur thr log} (h : Inv none c cur thr log) (t : Tid) (p : TPc)
    (hp : (thr t = .cWant ∧ p = .cLocked) ∨ ∃ tg, thr t = .xWant tg ∧ p = .xLocked tg) :
    Inv (some t) c cur (upd thr t p) log := by
  constructor
  · have := h.holder; grind
  · have := h.drainCur; grind
  · exact h.connT
  · exact h.testedLe
  · exact h.testedAll
  · have := h.closer; grind
  · have := h.closerUniq; grind
  · exact h.discCnt
  · exact h.discFlag
  · have := h.connr; grind
  · have := h.connrUniq; grind
  · have := h.regNone; grind
  · have := h.retReg; grind
  · exact h.regCnt
  · exact h.regLe
  · exact h.regFlag
  · exact h.okCnt
  · exact h.okReg
  · exact regAll_upd h.regAll (by grind)

theorem inv_unlock {mu c cur thr log} (h : Inv mu c cur thr log) (t : Tid)
    (hp : thr t = .cLocked ∨ ∃ tg, thr t = .xLocked tg) :
    Inv none c cur (upd thr t .idle) log := by
  constructor
  · have := h.holder; grind
  · have := h.drainCur; grind
  · exact h.connT
  · exact h.testedLe
  · exact h.testedAll
  · have := h.closer; grind
  · have := h.closerUniq; grind
  · exact h.discCnt
  · exact h.discFlag
  · have := h.connr; grind
  · have := h.connrUniq; grind
  · have := h.regNone; grind
  · have := h.retReg; grind
  · exact h.regCnt
  · exact h.regLe
  · exact h.regFlag
  · exact h.okCnt
  · exact h.okReg
  · exact regAll_upd h.regAll (by grind)

theorem inv_cSucceed {mu cur thr log} (h : Inv mu false cur thr log) (t : Tid) (hp : thr t = .cLocked) :
    Inv none true (cur + 1) (upd thr t (.cRegister (cur + 1))) log := by
  constructor
  · have := h.holder; grind
  · have := h.holder; have := h.drainCur; grind
  · have := h.testedLe; grind
  · have := h.testedLe; grind
  · have := h.testedAll; grind
  · have := h.closer; grind
  · have := h.closerUniq; grind
  · exact h.discCnt
  · exact h.discFlag
  · have := h.connr; have := h.okReg; have := h.regLe; grind
  · have := h.connr; have := h.connrUniq; grind
  · have := h.regNone; have := h.regLe; grind
  · have := h.retReg; grind
  · exact h.regCnt
  · have := h.regLe; grind
  · exact h.regFlag
  · exact h.okCnt
  · exact h.okReg
  · intro g hg1 hg2
    by_cases e : g = cur + 1
    · exact Or.inr ⟨t, by grind⟩
    · rcases h.regAll g hg1 (by grind) with h' | ⟨u, hu⟩
      · exact Or.inl h'
      · exact Or.inr ⟨u, by grind⟩

theorem inv_cRegister {mu c cur thr log} (h : Inv mu c cur thr log) (t : Tid) (g : Gen) (hp : thr t = .cRegister g) :
    Inv mu c cur (upd thr t (.cRet g)) (log ++ [.register g c]) := by
  constructor
  · have := h.holder; grind
  · have := h.drainCur; grind
  · have := h.connT; grind
  · have := h.testedLe; grind
  · have := h.testedAll; grind
  · have := h.closer; grind
  · have := h.closerUniq; grind
  · intro g'; rw [cnt_snoc]; have := h.discCnt g'; simpa [isDisc]
  · have := h.discFlag; grind
  · have := h.connr; grind
  · have := h.connrUniq; grind
  · have := h.regNone; have := h.connrUniq; grind
  · have := h.retReg; grind
  · intro g'; rw [cnt_snoc]; have := h.regCnt g'
    by_cases e : g = g'
    · subst e; have := cnt_eq_zero (isReg_false_of (h.regNone t g hp)); simp [isReg]; omega
    · simpa [isReg, e]
  · have := h.regLe; have := h.connr; grind
  · have := h.regFlag; have := h.connr; have := h.testedAll; grind
  · intro g'; rw [cnt_snoc]; have := h.okCnt g'; simpa [isOk]
  · have := h.okReg; grind
  · intro g' hg1 hg2
    by_cases e : g' = g
    · exact Or.inl ⟨c, by grind⟩
    · rcases h.regAll g' hg1 hg2 with ⟨f, h'⟩ | ⟨u, hu⟩
      · exact Or.inl ⟨f, by grind⟩
      · exact Or.inr ⟨u, by grind⟩

theorem inv_cRet {mu c cur thr log} (h : Inv mu c cur thr log) (t : Tid) (g : Gen) (hp : thr t = .cRet g) :
    Inv mu c cur (upd thr t .idle) (log ++ [.connectOk g]) := by
  constructor
  · have := h.holder; grind
  · have := h.drainCur; grind
  · have := h.connT; grind
  · have := h.testedLe; grind
  · have := h.testedAll; grind
  · have := h.closer; grind
  · have := h.closerUniq; grind
  · intro g'; rw [cnt_snoc]; have := h.discCnt g'; simpa [isDisc]
  · have := h.discFlag; grind
  · have := h.connr; have := h.connrUniq; grind
  · have := h.connrUniq; grind
  · have := h.regNone; grind
  · have := h.retReg; grind
  · intro g'; rw [cnt_snoc]; have := h.regCnt g'; simpa [isReg]
  · have := h.regLe; grind
  · have := h.regFlag; grind
  · intro g'; rw [cnt_snoc]; have := h.okCnt g'
    by_cases e : g = g'
    · subst e; have := cnt_eq_zero (isOk_false_of (h.connr t g (Or.inr hp)).2.2); simp [isOk]; omega
    · simpa [isOk, e]
  · have := h.okReg; have := h.retReg; grind
  · intro g' hg1 hg2
    rcases h.regAll g' hg1 hg2 with ⟨f, h'⟩ | ⟨u, hu⟩
    · exact Or.inl ⟨f, by grind⟩
    · exact Or.inr ⟨u, by grind⟩

theorem inv_xTest {mu cur thr log} (h : Inv mu true cur thr log) (t : Tid) (tg : Option Gen) (hp : thr t = .xLocked tg) :
    Inv mu false cur (upd thr t (.xDrain cur)) (log ++ [.tested cur]) := by
  constructor
  · have := h.holder; grind
  · have := h.holder; have := h.drainCur; grind
  · simp
  · have := h.testedLe; have := h.connT; grind
  · have := h.testedAll; grind
  · have := h.closer; have := h.discFlag; have := h.connT; grind
  · have := h.closerUniq; have := h.closer; have := h.connT; grind
  · intro g'; rw [cnt_snoc]; have := h.discCnt g'; simpa [isDisc]
  · have := h.discFlag; grind
  · have := h.connr; grind
  · have := h.connrUniq; grind
  · have := h.regNone; grind
  · have := h.retReg; grind
  · intro g'; rw [cnt_snoc]; have := h.regCnt g'; simpa [isReg]
  · have := h.regLe; grind
  · have := h.regFlag; grind
  · intro g'; rw [cnt_snoc]; have := h.okCnt g'; simpa [isOk]
  · have := h.okReg; grind
  · intro g' hg1 hg2
    rcases h.regAll g' hg1 hg2 with ⟨f, h'⟩ | ⟨u, hu⟩
    · exact Or.inl ⟨f, by grind⟩
    · exact Or.inr ⟨u, by grind⟩

theorem inv_xFinish {mu c cur thr log} (h : Inv mu c cur thr log) (t : Tid) (g : Gen) (hp : thr t = .xDrain g) :
    Inv none c cur (upd thr t (.xFire g)) log := by
  constructor
  · have := h.holder; grind
  · have := h.holder; have := h.drainCur; grind
  · exact h.connT
  · exact h.testedLe
  · exact h.testedAll
  · have := h.closer; grind
  · have := h.closerUniq; grind
  · exact h.discCnt
  · exact h.discFlag
  · have := h.connr; grind
  · have := h.connrUniq; grind
  · have := h.regNone; grind
  · have := h.retReg; grind
  · exact h.regCnt
  · exact h.regLe
  · exact h.regFlag
  · exact h.okCnt
  · exact h.okReg
  · exact regAll_upd h.regAll (by grind)

theorem inv_xFire {mu c cur thr log} (h : Inv mu c cur thr log) (t : Tid) (g : Gen) (hp : thr t = .xFire g) :
    Inv mu c cur (upd thr t .idle) (log ++ [.disconnected g c cur]) := by
  constructor
  · have := h.holder; grind
  · have := h.drainCur; grind
  · have := h.connT; grind
  · have := h.testedLe; grind
  · have := h.testedAll; grind
  · have := h.closer; have := h.closerUniq; grind
  · have := h.closerUniq; grind
  · intro g'; rw [cnt_snoc]; have := h.discCnt g'
    by_cases e : g = g'
    · subst e; have := cnt_eq_zero (isDisc_false_of (h.closer t g (Or.inr hp)).2); simp [isDisc]; omega
    · simpa [isDisc, e]
  · have := h.discFlag; have := h.closer; have := h.testedLe; have := h.connT; grind
  · have := h.connr; grind
  · have := h.connrUniq; grind
  · have := h.regNone; grind
  · have := h.retReg; grind
  · intro g'; rw [cnt_snoc]; have := h.regCnt g'; simpa [isReg]
  · have := h.regLe; grind
  · have := h.regFlag; grind
  · intro g'; rw [cnt_snoc]; have := h.okCnt g'; simpa [isOk]
  · have := h.okReg; grind
  · intro g' hg1 hg2
    rcases h.regAll g' hg1 hg2 with ⟨f, h'⟩ | ⟨u, hu⟩
    · exact Or.inl ⟨f, by grind⟩
    · exact Or.inr ⟨u, by grind⟩

/-! ## the invariant holds in every reachable state -/

def InvS (s : St) : Prop := Inv s.mu s.connected s.cur s.thr s.log

theorem setThr_eq (s : St) (t : Tid) (p : TPc) : setThr s t p = upd s.thr t p := rfl

theorem neutral_idle : neutral .idle := Or.inl rfl
theorem neutral_cWant : neutral .cWant := Or.inr (Or.inl rfl)
theorem neutral_xWant (tg) : neutral (.xWant tg) := Or.inr (Or.inr ⟨tg, rfl⟩)

theorem invS_step {s s' : St} {l : Label} (h : InvS s) (hs : step s l = some s') : InvS s' := by
  unfold InvS at h ⊢
  cases l <;> simp only [step] at hs
  case connect t =>
    split at hs <;> simp at hs; subst hs; rename_i hp
    exact inv_neutral h t _ (hp ▸ neutral_idle) neutral_cWant
  case cLock t =>
    split at hs <;> simp at hs; subst hs; rename_i hp
    simp only [hp.2] at h
    exact inv_lock h t _ (Or.inl ⟨hp.1, rfl⟩)
  case cRefuse t =>
    split at hs <;> simp at hs; subst hs; rename_i hp
    exact inv_log_irrel (inv_unlock h t (Or.inl hp)) _ (Or.inl rfl)
  case cSucceed t ping =>
    split at hs <;> simp at hs; subst hs; rename_i hp
    simp only [hp.2] at h
    exact inv_cSucceed h t hp.1
  case cRegister t =>
    split at hs <;> simp at hs; subst hs; rename_i g hp
    exact inv_cRegister h t g hp
  case cRet t =>
    split at hs <;> simp at hs; subst hs; rename_i g hp
    exact inv_cRet h t g hp
  case close t =>
    split at hs <;> simp at hs; subst hs; rename_i hp
    exact inv_neutral h t _ (hp ▸ neutral_idle) (neutral_xWant _)
  case xLock t =>
    split at hs <;> try simp at hs
    rename_i tg hp
    obtain ⟨hm, hs⟩ := hs; subst hs
    simp only [hm] at h
    exact inv_lock h t _ (Or.inr ⟨tg, hp, rfl⟩)
  case xTest t =>
    split at hs <;> try simp at hs
    rename_i tg hp
    split at hs <;> simp at hs <;> subst hs <;> rename_i hc
    · exact inv_log_irrel (inv_unlock h t (Or.inr ⟨tg, hp⟩)) _ (Or.inr ⟨tg, rfl⟩)
    · have hc' : s.connected = true := by
        cases hcc : s.connected with
        | true => rfl
        | false => exact absurd (Or.inl hcc) hc
      simp only [hc'] at h
      exact inv_xTest h t tg hp
  case xDrainIn t =>
    split at hs <;> try simp at hs
    obtain ⟨hm, hs⟩ := hs; subst hs; exact h
  case xDrainOut t =>
    split at hs <;> try simp at hs
    obtain ⟨hm, hs⟩ := hs; subst hs; exact h
  case xFinish t =>
    split at hs <;> try simp at hs
    rename_i g hp
    obtain ⟨hm, hs⟩ := hs; subst hs
    exact inv_xFinish h t g hp
  case xFire t =>
    split at hs <;> simp at hs; subst hs; rename_i g hp
    exact inv_xFire h t g hp
  case recvExit t =>
    split at hs <;> simp at hs; subst hs; rename_i hp
    exact inv_neutral h t _ (hp.2.2.2 ▸ neutral_idle) (neutral_xWant _)
  case loopExit t =>
    split at hs <;> simp at hs; subst hs; rename_i hp
    exact inv_neutral h t _ (hp.2.2 ▸ neutral_idle) (neutral_xWant _)
  case sendFail t =>
    split at hs <;> simp at hs; subst hs; rename_i hp
    exact inv_neutral h t _ (hp.2.2 ▸ neutral_idle) (neutral_xWant _)
  case sendCancel t =>
    split at hs <;> simp at hs; subst hs; rename_i hp
    exact inv_neutral h t _ (hp.2.2 ▸ neutral_idle) (neutral_xWant _)
  case watchFire t =>
    split at hs <;> simp at hs; subst hs; rename_i hp
    exact inv_neutral h t _ (hp.2.2 ▸ neutral_idle) (neutral_xWant _)
  case stale t g =>
    split at hs <;> simp at hs; subst hs; rename_i hp
    exact inv_neutral h t _ (hp.2 ▸ neutral_idle) (neutral_xWant _)
  all_goals
    (try split at hs) <;> (try split at hs) <;> simp at hs <;> subst hs <;> exact h

theorem invS_init : InvS {} := inv_init

theorem invS_reach {s : St} (h : Reach s) : InvS s := by
  induction h with
  | init => exact invS_init
  | step _ hs ih => exact invS_step ih hs

end Proofs.C06
