import Goirc.Spec.NickScript
import Goirc.Proofs.Commands
import Goirc.Proofs.ParseRender
/-!
# Helper lemmas for C17 (the client always knows its own current nick)
-/
namespace Go.Client
open Go Go.Tracker Spec.Irc Spec.NickScript

/-! ## the default nick generator -/

def nextByte (c : UInt8) : UInt8 :=
  if 48 ≤ c ∧ c ≤ 57 then 48 + (((c - 48) + 1) % 10)
  else if 65 ≤ c ∧ c ≤ 125 then 65 + (((c - 65) + 1) % 61)
  else 95

theorem nextByte_ne (c : UInt8) : nextByte c ≠ c := by
  unfold nextByte
  intro h
  have := congrArg UInt8.toNat h
  split at this
  · rename_i h1
    simp [UInt8.le_iff_toNat_le] at h1
    simp [UInt8.toNat_add, UInt8.toNat_sub, UInt8.toNat_mod] at this
    omega
  · rename_i h1
    split at this
    · rename_i h2
      simp [UInt8.le_iff_toNat_le] at h2
      simp [UInt8.toNat_add, UInt8.toNat_sub, UInt8.toNat_mod] at this
      omega
    · rename_i h2
      simp [UInt8.le_iff_toNat_le] at h2
      simp at this
      omega

theorem defaultNewNick_eq (old : Bytes) (c : UInt8) (h : old.getLast? = some c) :
    defaultNewNick old = old.dropLast ++ [nextByte c] := by
  simp [defaultNewNick, h, nextByte]

theorem default_gen_spec (old : Bytes) (h : old ≠ []) :
    (defaultNewNick old).length = old.length ∧ defaultNewNick old ≠ old ∧
    (defaultNewNick old).dropLast = old.dropLast := by
  obtain ⟨c, hc⟩ : ∃ c, old.getLast? = some c := by
    cases hl : old.getLast? with
    | none => simp at hl; exact absurd hl h
    | some c => exact ⟨c, rfl⟩
  have hold := dropLast_of_getLast? old c hc
  rw [defaultNewNick_eq old c hc]
  refine ⟨?_, ?_, ?_⟩
  · conv => rhs; rw [hold]
    simp
  · intro e
    rw [hold] at e
    simp at e
    exact nextByte_ne c e
  · simp

/-! ## the reply to a collision -/

theorem beforeByte_of_not_mem (c : UInt8) (p : Bytes) (h : c ∉ p) : beforeByte c p = p := by
  have := beforeByte_append_of_not_mem c p [] h
  simpa [beforeByte] using this

theorem cutNewLines_of_clean (p : Bytes) (hcr : CR ∉ p) (hlf : LF ∉ p) : cutNewLines p = p := by
  unfold cutNewLines
  rw [beforeByte_of_not_mem CR p hcr, beforeByte_of_not_mem LF p hlf]

theorem lit_NICK_sp : lit "NICK " = V.NICK ++ [SP] := by decide

theorem emit_nick (c : Client) (n : Bytes) (hcr : CR ∉ n) (hlf : LF ∉ n) :
    Client.emit c (.nick n) = [lit "NICK " ++ n] := by
  have h1 : CR ∉ V.NICK ++ [SP] := by decide
  have h2 : LF ∉ V.NICK ++ [SP] := by decide
  simp only [Client.emit, exec, rawArgs, List.map_cons, List.map_nil]
  rw [cutNewLines_of_clean, lit_NICK_sp]
  · simp only [List.mem_append, not_or]; exact ⟨by simpa using h1, hcr⟩
  · simp only [List.mem_append, not_or]; exact ⟨by simpa using h2, hlf⟩

theorem refreshMe_newNick (c : Client) : (refreshMe c).newNick = c.newNick := by
  unfold refreshMe; split <;> rfl
theorem refreshMe_ext (c : Client) : (refreshMe c).ext = c.ext := by
  unfold refreshMe; split <;> rfl
theorem refreshMe_cmd (c : Client) : (refreshMe c).cfg.cmd = c.cfg.cmd := by
  unfold refreshMe; split <;> rfl
theorem refreshMe_st (c : Client) : (refreshMe c).st = c.st := by
  unfold refreshMe; split <;> simp [*]

theorem collision_reply_spec (c : Client) (l : Line) (refused : Bytes) (h : l.args[1]? = some refused)
    (hme : (refreshMe c).cfg.meNil = false) (hclean : CR ∉ c.newNick refused ∧ LF ∉ c.newNick refused) :
    (h_433 c l).out = [lit "NICK " ++ c.newNick refused] := by
  have he : Client.emit (refreshMe c) (.nick (c.newNick refused)) = [lit "NICK " ++ c.newNick refused] :=
    emit_nick _ _ hclean.1 hclean.2
  simp only [h_433, hme, arg, h, refreshMe_newNick, he]
  simp
  split
  · split
    · split <;> rfl
    · rfl
  · rfl

/-! ## the tracker while only `me` is known -/

/-- the tracker knows exactly one nick, `n`, and it is `me` -/
def TInv (t : St) (n : Bytes) : Prop :=
  ∃ o, t.nickHeap = [(t.me, o)] ∧ t.nicks = [(n, t.me)] ∧ o.nick = n ∧ o.chans = []

theorem TInv.snap {t : St} {n : Bytes} (h : TInv t n) : (nickSnap t t.me).nick = n := by
  obtain ⟨o, h1, h2, h3, h4⟩ := h
  simp [nickSnap, getN, h1, AL.lookup, h3]

theorem TInv.reNick_me {t : St} {n : Bytes} (h : TInv t n) (m : Bytes) :
    TInv (Tracker.step t (.reNick n m)).1 m := by
  obtain ⟨o, h1, h2, h3, h4⟩ := h
  by_cases hm : n = m
  · subst hm
    simp [Tracker.step, h2, AL.lookup, AL.has]
    exact ⟨o, h1, h2, h3, h4⟩
  · simp [Tracker.step, h2, AL.lookup, AL.has, hm, getN, h1, h4, AL.keys, setN, AL.insert, AL.erase]
    exact ⟨_, rfl, rfl, rfl, by simp
⟩

theorem TInv.reNick_other {t : St} {n : Bytes} (h : TInv t n) (f m : Bytes) (hf : f ≠ n) :
    (Tracker.step t (.reNick f m)).1 = t := by
  obtain ⟨o, h1, h2, h3, h4⟩ := h
  simp [Tracker.step, h2, AL.lookup, Ne.symm hf]

theorem TInv.nickInfo {t : St} {n : Bytes} (h : TInv t n) (k i hh nm : Bytes) :
    TInv (Tracker.step t (.nickInfo k i hh nm)).1 n := by
  obtain ⟨o, h1, h2, h3, h4⟩ := h
  by_cases hk : n = k
  · subst hk
    simp [Tracker.step, h2, AL.lookup, getN, h1, setN, AL.insert]
    exact ⟨_, rfl, rfl, h3, h4⟩
  · simp [Tracker.step, h2, AL.lookup, hk]
    exact ⟨o, h1, h2, h3, h4⟩

/-! ## the client invariant -/

/-- what the client knows agrees with the nick `n` the server uses -/
def CInv (gen : Bytes → Bytes) (ext : UnicodeExt) (n : Bytes) (c : Client) : Prop :=
  c.cfg.meNil = false ∧ c.newNick = gen ∧ c.ext = ext ∧
  match c.st with
  | none => c.cfg.meNick = n
  | some t => TInv t n

theorem CInv.me {gen ext n c} (h : CInv gen ext n c) : (refreshMe c).cfg.meNick = n := by
  obtain ⟨h1, h2, h3, h4⟩ := h
  unfold refreshMe
  split
  · rename_i t ht; rw [ht] at h4; simpa using h4.snap
  · rename_i ht; rw [ht] at h4; exact h4

theorem CInv.refresh {gen ext n c} (h : CInv gen ext n c) : CInv gen ext n (refreshMe c) := by
  obtain ⟨h1, h2, h3, h4⟩ := h
  unfold refreshMe
  split
  · rename_i t ht; rw [ht] at h4; exact ⟨rfl, h2, h3, by simpa [ht] using h4⟩
  · exact ⟨h1, h2, h3, h4⟩

/-- renaming me in a tracking client -/
theorem CInv.reNick {gen ext n c t} (h : CInv gen ext n c) (ht : c.st = some t) (m : Bytes) :
    CInv gen ext m (tk c (.reNick n m)).1 ∧
    ∀ s, CInv gen ext m (setMeFrom (tk c (.reNick n m)).1 s) := by
  obtain ⟨h1, h2, h3, h4⟩ := h
  rw [ht] at h4
  have := h4.reNick_me m
  simp only [tk, ht]
  exact ⟨⟨h1, h2, h3, by simpa using this⟩, fun s => ⟨rfl, h2, h3, by simpa [setMeFrom] using this⟩⟩

theorem CInv.nickInfo {gen ext n c} (h : CInv gen ext n c) (k i hh nm : Bytes) :
    CInv gen ext n (tk c (.nickInfo k i hh nm)).1 := by
  obtain ⟨h1, h2, h3, h4⟩ := h
  unfold tk
  split
  · rename_i t ht; rw [ht] at h4
    exact ⟨h1, h2, h3, by simpa using h4.nickInfo k i hh nm⟩
  · exact ⟨h1, h2, h3, h4⟩

@[simp] theorem tk_st_none (c : Client) (o : Op) (h : c.st = none) : (tk c o).1 = c := by
  simp [tk, h]

theorem tk_st_isSome (c : Client) (o : Op) : (tk c o).1.st.isSome = c.st.isSome := by
  unfold tk; split <;> simp [*]

theorem h_433_inv {gen ext n c} (h : CInv gen ext n c) (l : Line) (r : Bytes) (hr : l.args[1]? = some r) :
    CInv gen ext (if r = n then gen r else n) (h_433 c l).c := by
  have hr' := h.refresh
  have hme := h.me
  obtain ⟨h1, h2, h3, h4⟩ := hr'
  simp only [h_433, h1, arg, hr, hme]
  simp only [Bool.false_eq_true, if_false, beq_iff_eq]
  by_cases hrn : r = n
  · subst hrn
    simp only [if_true]
    split
    · rename_i t ht
      have := CInv.reNick ⟨h1, h2, h3, h4⟩ ht (gen r)
      simp only [h2]
      split
      · exact this.2 _
      · exact this.1
    · rename_i ht
      simp only [h2]
      refine ⟨?_, ?_, ?_, ?_⟩ <;> simp [*]
  · simp only [hrn, if_false]
    exact ⟨h1, h2, h3, h4⟩

theorem h_001_inv {gen ext n c} (h : CInv gen ext n c) (l : Line) :
    CInv gen ext l.target (h_001 c l).c := by
  have hr' := h.refresh
  have hme := h.me
  obtain ⟨h1, h2, h3, h4⟩ := hr'
  simp only [h_001, h1, hme]
  simp only [Bool.false_eq_true, if_false]
  generalize parseUserHost (lastWord l.text) = uh
  cases ht : (refreshMe c).st with
  | some t =>
    simp only
    rcases uh with _ | ⟨a, i, hh⟩
    · simp only
      have := CInv.reNick ⟨h1, h2, h3, h4⟩ ht l.target
      split
      · exact this.2 _
      · exact this.1
    · simp only
      have hc' := CInv.nickInfo ⟨h1, h2, h3, h4⟩ n i hh (refreshMe c).cfg.meName
      have ht' : (tk (refreshMe c) (.nickInfo n i hh (refreshMe c).cfg.meName)).1.st = some (Tracker.step t (.nickInfo n i hh (refreshMe c).cfg.meName)).1 := by
        simp only [tk, ht]
      have := CInv.reNick hc' ht' l.target
      split
      · exact this.2 _
      · exact this.1
  | none =>
    simp only
    rcases uh with _ | ⟨a, i, hh⟩ <;> (refine ⟨?_, ?_, ?_, ?_⟩ <;> simp [*])

/-! ## the lines of the script, as well-formed messages -/

/-- sane nick names (same as `Props.C17.nickName`) -/
def NickOk (n : Bytes) : Prop := n ≠ [] ∧ ∀ b ∈ n, 33 < b ∧ b < 127 ∧ b ≠ 58 ∧ b ≠ 64

theorem NickOk.noSpaceRune {n : Bytes} (h : NickOk n) : noSpaceRune n = true := by
  replace h := h.2
  induction n with
  | nil => rfl
  | cons x a ih =>
    have hx := h x (by simp)
    have hx1 : (33 : Nat) < x.toNat := by simpa [UInt8.lt_iff_toNat_lt] using hx.1
    have hx2 : x.toNat < 127 := by simpa [UInt8.lt_iff_toNat_lt] using hx.2.1
    refine noSpaceRune_low x a ?_ ?_ ?_ (ih (fun b hb => h b (by simp [hb])))
    · simp [UInt8.lt_iff_toNat_lt]; omega
    · intro e; subst e; simp at hx1
    · simp [UInt8.le_iff_toNat_le]; omega

theorem NickOk.not_mem {n : Bytes} (h : NickOk n) (b : UInt8) (hb : b ≤ 33 ∨ b = 58 ∨ b = 64) : b ∉ n := by
  intro hm
  have := h.2 b hm
  rcases hb with hb | hb | hb
  · have h1 : (33 : Nat) < b.toNat := by simpa [UInt8.lt_iff_toNat_lt] using this.1
    have h2 : b.toNat ≤ 33 := by simpa [UInt8.le_iff_toNat_le] using hb
    omega
  · exact this.2.2.1 hb
  · exact this.2.2.2 hb

theorem NickOk.head {n : Bytes} (h : NickOk n) : n.head? ≠ some 58 := by
  intro e
  have : (58 : UInt8) ∈ n := List.mem_of_mem_head? e   -- may not exist
  exact h.not_mem 58 (by simp) this

def srvSrc : Source := .server (lit "irc.test")

def msgOf (s : Srv) : Ev → Msg
  | .s433 r => { source := some srvSrc, verb := lit "433",
                 middles := [(0, if s.registered then s.nick else [42]), (0, r)],
                 trailing := some (0, lit "Nickname is already in use") }
  | .s001 n true => { source := some srvSrc, verb := lit "001", middles := [(0, n)],
                      trailing := some (0, lit "Welcome to the network " ++ n ++ lit "!ident@host.example") }
  | .s001 n false => { source := some srvSrc, verb := lit "001", middles := [(0, n)],
                       trailing := some (0, lit "Welcome to the Internet Relay Network " ++ n) }
  | .sNick new => { source := some (.user s.nick (lit "ident") (lit "host.example")), verb := lit "NICK",
                    middles := [(0, new)] }
  | .sOther frm t2 => { source := some (.user frm (lit "o") (lit "other.example")), verb := lit "NICK", trailing := some (0, t2) }

theorem render_msgOf (s : Srv) (e : Ev) : render (msgOf s e) = lineOf s e := by
  cases e with
  | s433 r =>
    have : lit ":irc.test 433 " = [58] ++ lit "irc.test" ++ [32] ++ lit "433" ++ [32] := by decide
    have h2 : lit " :Nickname is already in use" = [32, 58] ++ lit "Nickname is already in use" := by decide
    simp [render, msgOf, lineOf, renderMiddles, srvSrc, Source.render, this, h2]
  | s001 n mask =>
    have : lit ":irc.test 001 " = [58] ++ lit "irc.test" ++ [32] ++ lit "001" ++ [32] := by decide
    have h2 : lit " :Welcome to the network " = [32, 58] ++ lit "Welcome to the network " := by decide
    have h3 : lit " :Welcome to the Internet Relay Network " =
        [32, 58] ++ lit "Welcome to the Internet Relay Network " := by decide
    cases mask <;> simp [render, msgOf, lineOf, renderMiddles, srvSrc, Source.render, this, h2, h3]
  | sNick new =>
    have : lit "!ident@host.example NICK " = [33] ++ lit "ident" ++ [64] ++ lit "host.example" ++ [32] ++ lit "NICK" ++ [32] := by decide
    simp [render, msgOf, lineOf, renderMiddles, Source.render, this]
  | sOther frm t2 =>
    have : lit "!o@other.example NICK :" = [33] ++ lit "o" ++ [64] ++ lit "other.example" ++ [32] ++ lit "NICK" ++ [32, 58] := by decide
    simp [render, msgOf, lineOf, renderMiddles, Source.render, this]

def evNames : Ev → List Bytes
  | .s433 r => [r] | .s001 n _ => [n] | .sNick n => [n] | .sOther f t => [f, t]

theorem NickOk.middleOk {n : Bytes} (h : NickOk n) : middleOk n = true := by
  have h1 := h.1
  have h2 := h.head
  have h3 := h.noSpaceRune
  simp [Spec.Irc.middleOk, h1, h2, h3]

theorem NickOk.user_wf {n : Bytes} (h : NickOk n) (u hh : Bytes) (hu : Spec.Irc.noSpaceRune u = true)
    (hh' : Spec.Irc.noSpaceRune hh = true) (hu2 : (64 : UInt8) ∉ u) : (Source.user n u hh).wf = true := by
  have h1 := h.not_mem 33 (by decide)
  have h2 := h.not_mem 64 (by decide)
  simp [Source.wf, h.noSpaceRune, hu, hh', hu2, h1, h2]

theorem msgOf_wf (s : Srv) (e : Ev) (hs : NickOk s.nick) (he : ∀ n ∈ evNames e, NickOk n) :
    (msgOf s e).wf = true := by
  have star : Spec.Irc.middleOk [42] = true := by decide
  have hsrv : srvSrc.wf = true := by decide
  cases e with
  | s433 r =>
    have hr : NickOk r := he r (by simp [evNames])
    have h1 : verbOk (lit "433") = true := by decide
    have h2 : isMsgVerb (lit "433") = false := by decide
    simp only [Msg.wf, msgOf, hsrv, h1, h2]
    cases s.registered <;> simp [star, hr.middleOk, hs.middleOk]
  | s001 n mask =>
    have hr : NickOk n := he n (by simp [evNames])
    have h1 : verbOk (lit "001") = true := by decide
    have h2 : isMsgVerb (lit "001") = false := by decide
    cases mask <;> simp [Msg.wf, msgOf, hsrv, h1, h2, hr.middleOk]
  | sNick new =>
    have hr : NickOk new := he new (by simp [evNames])
    have h1 : verbOk (lit "NICK") = true := by decide
    have h2 : isMsgVerb (lit "NICK") = false := by decide
    have h3 := hs.user_wf (lit "ident") (lit "host.example") (by decide) (by decide) (by decide)
    simp [Msg.wf, msgOf, h1, h2, h3, hr.middleOk]
  | sOther frm t2 =>
    have hr : NickOk frm := he frm (by simp [evNames])
    have h1 : verbOk (lit "NICK") = true := by decide
    have h2 : isMsgVerb (lit "NICK") = false := by decide
    have h3 := hr.user_wf (lit "o") (lit "other.example") (by decide) (by decide) (by decide)
    simp [Msg.wf, msgOf, h1, h2, h3]

theorem parse_lineOf (ext : UnicodeExt) (s : Srv) (e : Ev) (hs : NickOk s.nick) (he : ∀ n ∈ evNames e, NickOk n) :
    parseLine ext (lineOf s e) = some (expected ext (msgOf s e)) := by
  rw [← render_msgOf]; exact parse_render_eq ext _ (msgOf_wf s e hs he)


/-! ## dispatch -/

theorem toLower_433 (ext : UnicodeExt) : toLower ext (lit "433") = lit "433" := by
  simp [toLower, show isAscii (lit "433") = true by decide]; decide
theorem toLower_001 (ext : UnicodeExt) : toLower ext (lit "001") = lit "001" := by
  simp [toLower, show isAscii (lit "001") = true by decide]; decide
theorem toLower_NICK (ext : UnicodeExt) : toLower ext (lit "NICK") = lit "nick" := by
  simp [toLower, show isAscii (lit "NICK") = true by decide]; decide

theorem dispatch_433 (c : Client) (l : Line) (h : l.cmd = lit "433") :
    (dispatchInternal c l).c = (h_433 c l).c := by
  have h1 : intHandler (lit "433") = some h_433 := rfl
  have h2 : stHandler (lit "433") = none := rfl
  simp only [dispatchInternal, h, toLower_433, h1, h2]
  split <;> first | rfl | simp_all

theorem dispatch_001 (c : Client) (l : Line) (h : l.cmd = lit "001") :
    (dispatchInternal c l).c = (h_001 c l).c := by
  have h1 : intHandler (lit "001") = some h_001 := rfl
  have h2 : stHandler (lit "001") = none := rfl
  simp only [dispatchInternal, h, toLower_001, h1, h2]
  split <;> first | rfl | simp_all

theorem h_NICK_st (c : Client) (l : Line) : (h_NICK c l).c.st = c.st := by
  unfold h_NICK
  split
  · rfl
  · split
    · rfl
    · split
      · split <;> rfl
      · rfl

theorem dispatch_NICK (c : Client) (l : Line) (h : l.cmd = lit "NICK") :
    (dispatchInternal c l).c = match c.st with
      | some _ => (h_STNICK c l).c
      | none => (h_NICK c l).c := by
  have h1 : intHandler (lit "nick") = some h_NICK := rfl
  have h2 : stHandler (lit "nick") = some h_STNICK := rfl
  have h3 := h_NICK_st c l
  simp only [dispatchInternal, h, toLower_NICK, h1, h2]
  cases hst : c.st with
  | some t => simp [h_NICK, hst]
  | none =>
    rw [hst] at h3
    simp only [h3]

/-! ## one event of the script -/

theorem expected_base (ext : UnicodeExt) (m : Msg) (h : isMsgVerb m.verb = false) :
    (expected ext m).cmd = toUpperAscii m.verb ∧ (expected ext m).args = params m ∧
    (expected ext m).nick = (match m.source with | some (.user n _ _) => n | _ => []) := by
  refine ⟨by simp [expected, h], by simp [expected, h], ?_⟩
  rcases hsrc : m.source with _ | (_ | _) <;> simp [expected, h, hsrc]

/-- a NICK line from `f` renaming to `a` -/
theorem nick_inv {gen ext n c} (h : CInv gen ext n c) (l : Line) (a : Bytes)
    (hcmd : l.cmd = lit "NICK") (ha : l.args[0]? = some a) :
    CInv gen ext (if l.nick = n then a else n) (dispatchInternal c l).c := by
  rw [dispatch_NICK c l hcmd]
  obtain ⟨h1, h2, h3, h4⟩ := h
  cases hst : c.st with
  | some t =>
    rw [hst] at h4
    simp only [h_STNICK, arg, ha, tk, hst]
    refine ⟨h1, h2, h3, ?_⟩
    simp only
    by_cases hf : l.nick = n
    · simp only [hf, if_true]; exact h4.reNick_me a
    · simp only [hf, if_false]; rw [h4.reNick_other _ _ hf]; exact h4
  | none =>
    rw [hst] at h4
    simp only at h4
    simp only [h_NICK, hst, h1, arg, ha, h4]
    simp only [Bool.false_eq_true, if_false, beq_iff_eq]
    by_cases hf : l.nick = n
    · simp only [hf, if_true]
      refine ⟨?_, ?_, ?_, ?_⟩ <;> simp [*]
    · simp only [hf, if_false]
      refine ⟨?_, ?_, ?_, ?_⟩ <;> simp [*]

theorem step_inv (gen : Bytes → Bytes) (ext : UnicodeExt) (s : Srv) (c : Client) (e : Ev)
    (h : CInv gen ext s.nick c) (hs : NickOk s.nick) (he : ∀ n ∈ evNames e, NickOk n)
    (hg : ∀ n, NickOk n → NickOk (gen n)) (hc : conforms s e = true) :
    ∃ l, parseLine ext (lineOf s e) = some l ∧
      CInv gen ext (Spec.NickScript.step gen s e).nick (dispatchInternal c l).c ∧
      NickOk (Spec.NickScript.step gen s e).nick := by
  refine ⟨_, parse_lineOf ext s e hs he, ?_⟩
  cases e with
  | s433 r =>
    have hr : NickOk r := he r (by simp [evNames])
    obtain ⟨e1, e2, _⟩ := expected_base ext (msgOf s (.s433 r)) (show isMsgVerb (lit "433") = false by decide)
    have hcmd : (expected ext (msgOf s (.s433 r))).cmd = lit "433" := by rw [e1]; exact (by decide : toUpperAscii (lit "433") = lit "433")
    have harg : (expected ext (msgOf s (.s433 r))).args[1]? = some r := by
      rw [e2]; simp [params, msgOf]
    rw [dispatch_433 _ _ hcmd]
    have := h_433_inv h _ r harg
    simp only [conforms] at hc
    simp only [Spec.NickScript.step]
    cases hreg : s.registered with
    | true =>
      simp only [hreg, if_true, bne_iff_ne, ne_eq] at hc
      simp only [hc, if_false] at this
      simp only [if_true]
      exact ⟨this, hs⟩
    | false =>
      simp only [hreg, Bool.false_eq_true, if_false, beq_iff_eq] at hc
      rw [if_pos hc] at this
      simp only [Bool.false_eq_true, if_false]
      exact ⟨this, hg _ hr⟩
  | s001 n mask =>
    have hr : NickOk n := he n (by simp [evNames])
    have hv : (msgOf s (.s001 n mask)).verb = lit "001" := by cases mask <;> rfl
    obtain ⟨e1, e2, _⟩ := expected_base ext (msgOf s (.s001 n mask)) (by rw [hv]; decide)
    have hcmd : (expected ext (msgOf s (.s001 n mask))).cmd = lit "001" := by rw [e1, hv]; decide
    have htgt : (expected ext (msgOf s (.s001 n mask))).target = n := by
      simp only [Line.target, hcmd, e2]
      cases mask <;> simp [params, msgOf, show (lit "001" == PRIVMSG) = false by decide, show (lit "001" == NOTICE) = false by decide,
        show (lit "001" == ACTION) = false by decide, show (lit "001" == CTCP) = false by decide,
        show (lit "001" == CTCPREPLY) = false by decide]
    rw [dispatch_001 _ _ hcmd]
    have := h_001_inv h (expected ext (msgOf s (.s001 n mask)))
    rw [htgt] at this
    exact ⟨this, hr⟩
  | sNick new =>
    have hr : NickOk new := he new (by simp [evNames])
    obtain ⟨e1, e2, e3⟩ := expected_base ext (msgOf s (.sNick new)) (show isMsgVerb (lit "NICK") = false by decide)
    have hcmd : (expected ext (msgOf s (.sNick new))).cmd = lit "NICK" := by rw [e1]; exact (by decide : toUpperAscii (lit "NICK") = lit "NICK")
    have harg : (expected ext (msgOf s (.sNick new))).args[0]? = some new := by
      rw [e2]; simp [params, msgOf]
    have hnick : (expected ext (msgOf s (.sNick new))).nick = s.nick := by
      rw [e3]; simp [msgOf]
    have := nick_inv h _ new hcmd harg
    simp only [hnick, if_true] at this
    exact ⟨this, hr⟩
  | sOther frm t2 =>
    obtain ⟨e1, e2, e3⟩ := expected_base ext (msgOf s (.sOther frm t2)) (show isMsgVerb (lit "NICK") = false by decide)
    have hcmd : (expected ext (msgOf s (.sOther frm t2))).cmd = lit "NICK" := by rw [e1]; exact (by decide : toUpperAscii (lit "NICK") = lit "NICK")
    have harg : (expected ext (msgOf s (.sOther frm t2))).args[0]? = some t2 := by
      rw [e2]; simp [params, msgOf]
    have hnick : (expected ext (msgOf s (.sOther frm t2))).nick = frm := by
      rw [e3]; simp [msgOf]
    have := nick_inv h _ t2 hcmd harg
    simp only [conforms, Bool.and_eq_true, bne_iff_ne, ne_eq] at hc
    simp only [hnick, hc.1.1, if_false] at this
    exact ⟨this, hs⟩

theorem start_inv (nick : Bytes) (gen : Bytes → Bytes) (ext : UnicodeExt) (track : Bool) (i nm : Bytes) :
    CInv gen ext nick
      (let c : Client := { cfg := { meNick := nick, meIdent := i, meName := nm }, newNick := gen, ext := ext }
       if track then enableTracking c else c) := by
  cases track with
  | false => exact ⟨rfl, rfl, rfl, rfl⟩
  | true =>
    simp only [if_true, enableTracking]
    refine CInv.refresh ⟨rfl, rfl, rfl, ?_⟩
    simp [TInv, Tracker.new, Tracker.step, AL.lookup, getN, setN, AL.insert]
end Go.Client
